"""C20 -- a satisfiable byte-range request returns exactly the requested slice."""
import itertools
import random as _random
import re
from fractions import Fraction

from harness.coqfmt import B, L, N, X, opt

ID = 'C20'
PROPS = 'Props/C20.v'
TABLES = ['ElemLexT', 'RangeT']
COQ_HEADER = 'From Httoop Require Import Lib.Bytes Model.ElemLex Model.Range Corr.C20.'
COQ_CHECK = 'check'
CORR_VO = 'Corr/C20.vo'
RULE = ('T2: int(bytes), Headers.element("Range") (Range.parse + prevent_denial_of_service), Range.get_range_content on a BytesIO and '
	'ComposedResponse.prepare() (status, Content-Range, Content-Type, Content-Length, body) evaluated by the Gallina model (vm_compute) and by the '
	'implementation on the same inputs: every range 0 <= first < last < n for small n, random representations up to 4096 octets, 2-4 disjoint similar '
	'ranges in every order, overlapping / dissimilar / suffix / open-ended / out-of-bounds ranges, each precondition of range_conditions switched off, '
	'single-octet and structured mutations of valid Range values; byte positions written with signs, underscores, inner / outer blanks, non-ASCII digits and radix / float syntax in every position of a '
	'range-spec, and empty / blank / non-token / foreign / differently cased range units in front of valid range sets (the two repaired findings, systematically); every multiset of 2-5 range lengths differing by 0..6 octets (both sides of the admission threshold) as disjoint ranges in random order. '
	'Oracle: the slice / multipart statement directly on the prepared response; which sets of closed ranges must be served is decided by an independent exact-rational restatement of the documented '
	'admission rule (no two ranges sharing two or more octets, population variance of the range lengths <= 4): admitted and disjoint -> 206 multipart with exactly the slices, refused -> 416 with the complete representation. '
	'Every Range value outside the RFC 7233 grammar (own regex; white space tolerated around elements, positions and the dash) must not be answered with 206; a unit other than bytes (any case) is never served, and is ignored altogether for a single closed range. '
	'non-trivial = distinct (kind, input) reaching 206, 416 or a refused precondition')
EXHAUSTIVE = {'quick': False, 'thorough': False}
TRUSTED = ['harness/tables/elemlex.py + harness/tables/range.py (T1: bytes.strip set, int() octet classes, bytes.isdigit class, the two variant probes and the octet class / pinned pattern of Range.RE_UNIT, pinned split patterns, TSPECIALS, part-header template, BytesIO clamping probes)',
	'harness/props/C20.py + coq/Corr/C20.v (T2 canonicalisation: header values as raw octets, the random multipart boundary is read back from Content-Type and given to the model)',
	'io.BytesIO seek/read modelled as list slicing (skipn/firstn), validated by CSlice/CPrep cases, not verified']
ASSUMPTIONS = ['io.BytesIO.seek/read = list slicing (clamping at both ends)', 'positions have fewer than sys.get_int_max_str_digits() digits',
	'email.generator._make_boundary is an arbitrary octet string (Section parameter of the multipart theorems)']

TOKEN = re.compile(rb"[!#$%&'*+\-.^_`|~0-9A-Za-z]+")
WS = rb'[ \t\n\r\x0b\x0c]*'
SPEC = rb'(?:' + WS + rb'(?:[0-9]+' + WS + rb'-' + WS + rb'[0-9]*|-' + WS + rb'[0-9]+)' + WS + rb')'
# RFC 7233 ranges-specifier, whitespace tolerated around list elements, positions and the dash (interpretation decision in the report)
LENIENT = re.compile(rb"[!#$%&'*+\-.^_`|~0-9A-Za-z]+=" + SPEC + rb'(?:,' + SPEC + rb')*')
CLOSED = re.compile(WS + rb'([0-9]+)' + WS + rb'-' + WS + rb'([0-9]+)' + WS)

# no known findings: the failing inputs of the two repaired ones (C20-lax-integer-syntax, C20-range-unit-not-validated) are corpus/C20/*.json
WITNESSES = []

CTYPES = ['text/plain; charset=UTF-8', 'text/plain', 'application/octet-stream', 'application/x-foo', 'image/png']
FLAGS = ['resp10', 'req10', 'status', 'post', 'noetag', 'lastmod', 'arset', 'chunked', 'list']


def _rdata(rng, n):
	r = rng.random()
	if r < 0.5:
		return bytes(rng.randrange(256) for _ in range(n))
	if r < 0.8:
		return bytes(rng.choice(b'abcdefghijklmnopqrstuvwxyz0123456789 \r\n-') for _ in range(n))
	a, b = rng.randrange(256), rng.randrange(1, 256)
	return bytes((a + b * i) % 256 for i in range(n))


def _size(rng):
	r = rng.random()
	if r < 0.6:
		return rng.randint(2, 40)
	if r < 0.9:
		return rng.randint(41, 300)
	if r < 0.97:
		return rng.randint(301, 1500)
	return rng.choice([4095, 4096, 4096, rng.randint(1501, 4096)])


def _sep(rng):
	return rng.choice([b',', b', ', b', ', b' , ', b',\t'])


def _spec(rng, f, l):
	if rng.random() < 0.85:
		return b'%d-%d' % (f, l)
	return rng.choice([b' %d-%d', b'%d - %d', b'%d-%d ', b'0%d-%d', b'%d-0%d']) % (f, l)


def _disjoint(rng, n, k):
	"""k disjoint closed ranges of similar size inside a representation of n octets (or None)"""
	size = rng.randint(2, max(2, min(n // k, 60)))
	lens = [max(2, size + rng.choice([0, 0, 0, 1, -1, 2])) for _ in range(k)]
	total = sum(lens)
	if total > n:
		return None
	slack = n - total
	cuts = sorted(rng.randint(0, slack) for _ in range(k))
	out, pos, prev = [], 0, 0
	for ln, c in zip(lens, cuts):
		pos += c - prev
		prev = c
		out.append((pos, pos + ln - 1))
		pos += ln
	return out


def _threshold_sets(rng, passes, maxbase):
	"""every multiset of k = 2..5 range lengths base + {0..6} (smallest = base), as disjoint closed ranges: both sides of the
	admission threshold of the documented denial-of-service rule (population standard deviation of the lengths against 2.0)"""
	out = []
	for p in range(passes):
		for k in range(2, 6):
			for rest in itertools.combinations_with_replacement(range(7), k - 1):
				base = rng.randint(2, maxbase if p else 9)
				lens = [base] + [base + x for x in rest]
				rng.shuffle(lens)
				pos = rng.randint(0, 5)
				rs = []
				for ln in lens:
					rs.append((pos, pos + ln - 1))
					pos += ln + rng.choice([0, 0, 1, 2, 3, 7])
				n = pos + rng.randint(0, 5)
				order = list(rs)
				rng.shuffle(order)
				plain = rng.random() < 0.8
				v = b'bytes=' + (b',' if plain else _sep(rng)).join((b'%d-%d' % x) if plain else _spec(rng, *x) for x in order)
				out.append({'k': 'prep', 'v': v.hex(), 'd': _rdata(rng, n).hex(), 'ct': rng.choice(CTYPES), 'flags': {}, 'want': [list(x) for x in order], 'lens': sorted(lens)})
	return out


# the witnesses of the seeded admission-rule change (seeded/C20-6) and their neighbours on the refused side
NEAR = [b'bytes=0-3,10-16', b'bytes=0-3,10-17', b'bytes=0-3,10-18', b'bytes=40-47,100-111', b'bytes=40-47,100-112', b'bytes=0-3,10-13,20-27', b'bytes=0-3,10-13,20-28',
	b'bytes=0-1,10-12,20-24,30-36', b'bytes=0-1,10-12,20-24,30-37', b'bytes=0-1,3-4,6-7,9-10,12-18', b'bytes=0-1,3-4,6-7,9-10,12-19', b'bytes=20-27,0-3,10-13',
	b'bytes=0-5,5-9', b'bytes=0-5,4-9', b'bytes=0-9,2-5', b'bytes=0-3,3-9', b'bytes=0-3,2-9']


def _mutate(rng, v):
	v = bytearray(v)
	for _ in range(rng.choice([1, 1, 1, 2])):
		r = rng.random()
		pool = b'-,= "+_;0123456789abtesxy\t\n\x00\xff\\.'
		if r < 0.35 and v:
			v[rng.randrange(len(v))] = rng.choice(pool)
		elif r < 0.6:
			v.insert(rng.randint(0, len(v)), rng.choice(pool))
		elif r < 0.8 and v:
			del v[rng.randrange(len(v))]
		elif v:
			i = rng.randrange(len(v))
			v[i:i + 1] = bytes(v[i:i + 1]) * 2
	return bytes(v)


HAND = [b'bytes=-', b'bytes=x', b'bytes=-1-5', b'bytes=1--5', b'bytes=2-1', b'bytes=0-0', b'bytes=1-1', b'bytes=', b'bytes=5-7,', b'bytes=5-7,6-8,5-7',
	b'bytes=-5,-6', b'bytes=5-,6-', b'bytes=0-', b'bytes=-0', b'bytes=3-6,3-', b'bytes=3-6,4-', b'bytes=-6,1-6', b'bytes=-6,1-4', b'bytes=-6,1-', b'bytes=4-7, 11-19',
	b'bytes=0-15', b'bytes=-5', b'bytes=5-7', b'bytes=-5,6-', b'bytes', b'', b'=', b'==1-2', b'bytes==1-2', b'bytes=1-2=', b'bytes=1-2;q=1', b'bytes="1-2"', b'bytes=1-2,"',
	b'bytes=1-2,"3-4"', b'bytes="1-2,3-4', b'bytes=1-2,3-4"', b'bits=1-2', b'BYTES=1-2', b'by tes=1-2', b'bytes =1-2', b'bytes= 1-2', b'bytes=1 -2', b'bytes=1- 2', b'bytes=1\t-\t2',
	b'bytes=+1-+2', b'bytes=1_0-1_1', b'bytes=1__0-11', b'bytes=_1-2', b'bytes=1_-2', b'bytes=-+3', b'bytes=--3', b'bytes=1--0', b'bytes=0--0', b'bytes=-0-3', b'bytes=+0-3', b'bytes=0x1-3',
	b'bytes=1e0-3', b'bytes=1.0-3', b'bytes=\xb2-3', b'bytes=1-2\x00', b'bytes=1-2,,4-5', b'bytes=,1-2', b'bytes=1-2, ', b'bytes=1-2,3-4,5-6,7-8,9-10', b'bytes=0-1,2-3', b'bytes=0-1,1-2',
	b'bytes=0-2,2-4', b'bytes=0-9,20-21', b'bytes=0-4,10-18', b'bytes=1-2,1-2', b'bytes=1-2, 1-2 ,1-2', b'bytes=5-6,1-2', b'bytes=01-02', b'bytes=1-2 3', b'bytes=1 2-3', b'=1-2', b'=', b'"=1-2',
	b'a"b=1-2,3-4', b'bytes=1-\x0b2', b'bytes=\x0c1-2', b'bytes=1-2\r\n', b'bytes=00-1', b'bytes=0-00', b'bytes=-00', b'bytes=000-', b'bytes=1-,-2', b'bytes=-2,1-', b'bytes=9-,0-4', b'bytes=0-4,9-']


# byte positions that are not 1*DIGIT (each must make the field invalid) ...
POS_BAD = [b'+1', b'+01', b'+10', b'1_0', b'1_1', b'0_1', b'_1', b'1_', b'1__0', b'1_0_0', b'+1_0', b'1 0', b'1\t0', b'1\n0', b'\xb2', b'\xb9', b'1\xb2', b'\xb21', b'\xd9\xa1', b'\xd9\xa1\xd9\xa2',
	b'\xef\xbc\x91', b'\xe0\xa5\xa7', b'\xa01', b'1\xa0', b'\x85' + b'1', b'0x1', b'0X10', b'0b1', b'0o1', b'1e1', b'1E1', b'1.0', b'1.', b'.1', b'1L', b'1l', b'--1', b'+-1', b'-+1', b'++1', b'+ 1', b'+', b'_', b'1+',
	b'1-', b'\x001', b'1\x00', b'1\x1c', b'\x1c1', b'1\x1f', b'one', b'1a', b'a1', b'"1"', b"'1'", b'1;', b'(1)', b'1/1', b'1*', b'*']
# ... and white space around a position, which Range.parse strips on purpose (these stay valid and denote the number)
POS_PAD = [b' 10', b'10 ', b'\t10', b'10\t', b' \t 10 \t ', b'\x0b10', b'10\x0c', b'\r10', b'10\n', b'010', b'0010']
# range units: not a token at all (invalid field) ...
UNIT_BAD = [b'', b' ', b'\t', b'by tes', b'bytes ', b' bytes', b'\tbytes', b'bytes\t', b'bytes\n', b'\nbytes', b'by\ttes', b'b,ytes', b'bytes,', b',bytes', b'bytes;', b'bytes;x', b'"bytes"', b'"', b'by"tes', b'(bytes)', b'bytes/1',
	b'bytes:', b'<bytes>', b'bytes@', b'[bytes]', b'bytes?', b'{bytes}', b'by\\tes', b'b\x00s', b'bytes\x00', b'\x00', b'bytes\x7f', b'bytes\xff', b'\xe9', b'byt\xc3\xa9s', b'\x0bbytes', b'bytes\x0c', b'bytes\r', b'bytes bytes']
# ... a token that is not the bytes unit (RFC 7233 3.1: not understood -> the field is ignored) ...
UNIT_FOREIGN = [b'bits', b'items', b'none', b'byte', b'bytess', b'xbytes', b'bytes0', b'b', b'x', b'0', b'1-2', b'-', b'bytes-', b'bytes.', b'bytes_', b'bytes+', b"!#$%&'*+-.^_`|~", b'BITS', b'octets', b'seconds', b'lines', b'bytes!',
	b'by_tes', b'by-tes', b'1', b'+1', b'bytes~', b'bytes|', b'`bytes`', b'^bytes', b'by*tes']
# ... and the bytes unit in another case (unit names are case-insensitive: served as bytes)
UNIT_CASE = [b'BYTES', b'Bytes', b'bYTES', b'bytES', b'byteS', b'BYtes', b'bYtEs', b'ByTeS']
RANGE_SETS = [b'1-2', b'0-3', b'10-19', b'0-1,4-5', b'0-2, 10-12', b'-3', b'5-', b' 1 - 2 ']


def _repaired_families(rng):
	"""the input classes of the two repaired findings, systematically: every bad / padded position text in every position of a range-spec
	(first, last, suffix length, open-ended, inside a list of two) and every unit class in front of every range set"""
	vals = []
	for p in POS_BAD + POS_PAD:
		vals += [b'bytes=' + p + b'-20', b'bytes=0-' + p, b'bytes=-' + p, b'bytes=' + p + b'-', b'bytes=0-1, ' + p + b'-11', b'bytes=' + p + b'-11,20-21', b'bytes=' + p + b'-' + p]
	for u in UNIT_BAD + UNIT_FOREIGN + UNIT_CASE + [b'bytes']:
		for rset in RANGE_SETS:
			vals.append(u + b'=' + rset)
	for u in UNIT_BAD[:8] + UNIT_FOREIGN[:8] + UNIT_CASE[:3]:
		for p in POS_BAD[:6]:
			vals.append(u + b'=' + p + b'-20')
	out = []
	for v in vals:
		out.append({'k': 'parse', 'v': v.hex()})
		out.append({'k': 'prep', 'v': v.hex(), 'd': _rdata(rng, 40).hex(), 'ct': 'text/plain', 'flags': {}})
	return out


def gen_cases(rng, tier):
	big = tier == 'thorough'
	cases = []
	# int(bytes)
	for c in range(256):
		cases.append({'k': 'int', 'b': '%02x' % c})
		cases.append({'k': 'int', 'b': '31%02x32' % c})
		cases.append({'k': 'int', 'b': '%02x37' % c})
	alpha = b'0019_+- \t'
	for a in alpha:
		for b in alpha:
			for c in alpha:
				cases.append({'k': 'int', 'b': bytes([a, b, c]).hex()})
	for _ in range(4000 if big else 600):
		cases.append({'k': 'int', 'b': bytes(rng.choice(b'0123456789_+- \t\n\x0b\x0c\rx') for _ in range(rng.randint(0, 8))).hex()})
	# Range values alone
	for v in HAND:
		cases.append({'k': 'parse', 'v': v.hex()})
	for _ in range(12000 if big else 1500):
		k = rng.choice([1, 1, 2, 2, 3, 4, 5])
		specs = []
		for _ in range(k):
			r = rng.random()
			a, b = rng.randint(0, 30), rng.randint(0, 30)
			if r < 0.7:
				specs.append(_spec(rng, a, a + rng.randint(-1, 6)) if rng.random() < 0.7 else _spec(rng, a, b))
			elif r < 0.85:
				specs.append(b'-%d' % a)
			else:
				specs.append(b'%d-' % a)
		v = rng.choice([b'bytes', b'bytes', b'bytes', b'bytes', b'bits', b'', b'x y', rng.choice(UNIT_BAD), rng.choice(UNIT_FOREIGN), rng.choice(UNIT_CASE)]) + b'=' + _sep(rng).join(specs)
		if rng.random() < 0.35:
			v = _mutate(rng, v)
		cases.append({'k': 'parse', 'v': v.hex()})
	# slices for arbitrary range lists (no DoS filter in the way)
	for _ in range(3000 if big else 400):
		n = rng.randint(0, 30)
		rs = []
		for _ in range(rng.randint(1, 4)):
			r = rng.random()
			a = rng.randint(0, 36)
			rs.append([None, max(a, 1)] if r < 0.25 else [a, None] if r < 0.5 else [a, a + rng.randint(1, 12)])
		cases.append({'k': 'slice', 'd': _rdata(rng, n).hex(), 'rs': rs})
	# prepared responses: every range of small representations
	for n in range(2, (25 if big else 12)):
		d = _rdata(rng, n)
		for f in range(n):
			for l in range(f + 1, n):
				cases.append({'k': 'prep', 'v': (b'bytes=%d-%d' % (f, l)).hex(), 'd': d.hex(), 'ct': rng.choice(CTYPES), 'flags': {}, 'want': [[f, l]]})
	# random sizes, single range
	for _ in range(3000 if big else 260):
		n = _size(rng)
		f = rng.randint(0, n - 2)
		l = rng.randint(f + 1, n - 1) if rng.random() < 0.7 else min(n - 1, f + rng.randint(1, 9))
		cases.append({'k': 'prep', 'v': (b'bytes=' + _spec(rng, f, l)).hex(), 'd': _rdata(rng, n).hex(), 'ct': rng.choice(CTYPES), 'flags': {}, 'want': [[f, l]]})
	# 2-4 disjoint similar ranges, every order for small sets
	for _ in range(2500 if big else 260):
		n = _size(rng) if rng.random() < 0.3 else rng.randint(6, 80)
		k = rng.randint(2, 4)
		rs = _disjoint(rng, n, k)
		if not rs:
			continue
		order = list(rs)
		rng.shuffle(order)
		sep = _sep(rng)
		cases.append({'k': 'prep', 'v': (b'bytes=' + sep.join(_spec(rng, f, l) for f, l in order)).hex(), 'd': _rdata(rng, n).hex(), 'ct': rng.choice(CTYPES), 'flags': {}, 'want': [list(x) for x in order]})
	for _ in range(40 if big else 8):
		n = rng.randint(12, 40)
		rs = _disjoint(rng, n, 3)
		if not rs:
			continue
		d = _rdata(rng, n)
		for order in itertools.permutations(rs):
			cases.append({'k': 'prep', 'v': (b'bytes=' + b','.join(b'%d-%d' % x for x in order)).hex(), 'd': d.hex(), 'ct': 'text/plain', 'flags': {}, 'want': [list(x) for x in order]})
	# sets of 2-5 disjoint ranges around the admission threshold, systematically (quick tier too)
	cases.extend(_threshold_sets(rng, 4 if big else 1, 60))
	for v in NEAR:
		cases.append({'k': 'prep', 'v': v.hex(), 'd': _rdata(rng, 120).hex(), 'ct': rng.choice(CTYPES), 'flags': {}})
	# other shapes: suffix, open, out of bounds, overlapping, dissimilar, duplicates
	for _ in range(3000 if big else 400):
		n = rng.randint(1, 40)
		k = rng.choice([1, 1, 2, 2, 3])
		specs = []
		for _ in range(k):
			r = rng.random()
			a = rng.randint(0, n + 5)
			if r < 0.55:
				specs.append(b'%d-%d' % (a, a + rng.randint(-1, 8)))
			elif r < 0.75:
				specs.append(b'-%d' % a)
			elif r < 0.9:
				specs.append(b'%d-' % a)
			else:
				specs.append(b'%d-%d' % (a, rng.randint(0, n + 5)))
		cases.append({'k': 'prep', 'v': (b'bytes=' + _sep(rng).join(specs)).hex(), 'd': _rdata(rng, n).hex(), 'ct': rng.choice(CTYPES), 'flags': {}})
	# malformed stream through prepare()
	for v in HAND:
		cases.append({'k': 'prep', 'v': v.hex(), 'd': _rdata(rng, rng.randint(8, 30)).hex(), 'ct': 'text/plain', 'flags': {}})
	cases.extend(_repaired_families(rng))
	for _ in range(4000 if big else 500):
		n = rng.randint(4, 40)
		rs = _disjoint(rng, n, rng.randint(1, 3)) or [(0, 1)]
		r = rng.random()
		if r < 0.7:
			v = _mutate(rng, b'bytes=' + _sep(rng).join(b'%d-%d' % x for x in rs))
		elif r < 0.85:  # in-bounds ranges whose positions carry int() laxness or padding
			deco = lambda x: rng.choice([b'+%d', b'%d', b'0%d', b' %d', b'%d ', b'+0%d', b'%d_', b'_%d', b'+ %d']) % x if x < 10 or rng.random() < 0.5 else b'_'.join(bytes([c]) for c in b'%d' % x)
			v = b'bytes=' + _sep(rng).join(deco(f) + b'-' + deco(l) for f, l in rs)
		else:  # in-bounds ranges behind another unit
			v = rng.choice(UNIT_BAD + UNIT_FOREIGN + UNIT_CASE) + b'=' + _sep(rng).join(b'%d-%d' % x for x in rs)
		cases.append({'k': 'prep', 'v': v.hex(), 'd': _rdata(rng, n).hex(), 'ct': 'text/plain', 'flags': {}})
	# preconditions
	for _ in range(1500 if big else 300):
		n = rng.randint(0, 24) if rng.random() < 0.15 else rng.randint(3, 24)
		flags = {}
		for fl in rng.sample(FLAGS, rng.choice([1, 1, 1, 2, 2, 3])):
			flags[fl] = True
		f = rng.randint(0, max(0, n - 2))
		l = rng.randint(f + 1, max(f + 1, n - 1))
		r = rng.random()
		v = (b'bytes=%d-%d' % (f, l)) if r < 0.7 else b'bytes=5-3' if r < 0.8 else None if r < 0.9 else b'bytes=%d-%d,%d-%d' % (0, 1, 2, 3)
		cases.append({'k': 'prep', 'v': None if v is None else v.hex(), 'd': _rdata(rng, n).hex(), 'ct': rng.choice(CTYPES), 'flags': flags})
	for fl in FLAGS:
		cases.append({'k': 'prep', 'v': b'bytes=1-2'.hex(), 'd': b'foobarbaz'.hex(), 'ct': 'text/plain', 'flags': {fl: True}})
	for d in (b'', b'x'):
		cases.append({'k': 'prep', 'v': b'bytes=0-1'.hex(), 'd': d.hex(), 'ct': 'text/plain', 'flags': {}})
	return cases


def _err(exc):
	from httoop.exceptions import InvalidHeader
	if isinstance(exc, InvalidHeader):
		return {'err': 'invalid'}
	return {'err': 'escape:%s' % type(exc).__name__, 'msg': str(exc)[:200]}


def observe(c):
	import io
	k = c['k']
	if k == 'int':
		try:
			v = int(bytes.fromhex(c['b']))
		except ValueError:
			return {'v': None}
		return {'v': [v < 0, str(abs(v))]}
	if k == 'parse':
		from httoop import Headers
		h = Headers()
		h['Range'] = bytes.fromhex(c['v'])
		try:
			e = h.element('Range')
		except Exception as exc:
			return _err(exc)
		if e is None:
			return {'err': 'absent'}
		return {'unit': e.value.encode('ISO8859-1').hex(), 'ranges': [list(r) for r in e.ranges]}
	if k == 'slice':
		from httoop.header.range import Range
		r = Range.__new__(Range)
		r.ranges = [tuple(x) for x in c['rs']]
		return {'out': [x.hex() for x in r.get_range_content(io.BytesIO(bytes.fromhex(c['d'])))]}
	if k == 'prep':
		from httoop import Request, Response
		from httoop.semantic.response import ComposedResponse
		_random.seed(hash((c['v'], c['d'])) & 0xffffffff)
		fl = c.get('flags') or {}
		req, resp = Request(), Response()
		d = bytes.fromhex(c['d'])
		try:
			if c['v'] is not None:
				req.headers['Range'] = bytes.fromhex(c['v'])
			if not fl.get('noetag'):
				resp.headers['ETag'] = 'foo'
			if fl.get('lastmod'):
				resp.headers['Last-Modified'] = 'Wed, 30 Sep 2026 17:15:43 GMT'
			if fl.get('arset'):
				resp.headers['Accept-Ranges'] = b'bytes'
			if fl.get('resp10'):
				resp.protocol = (1, 0)
			if fl.get('req10'):
				req.protocol = (1, 0)
			if fl.get('status'):
				resp.status = 404
			if fl.get('post'):
				req.method = 'POST'
			if fl.get('chunked'):
				resp.headers['Transfer-Encoding'] = 'chunked'
			resp.body = [d] if fl.get('list') else d
			resp.headers['Content-Type'] = c['ct']
			before = int(resp.status)
			ComposedResponse(resp, req).prepare()
			h = resp.headers
			ct = h.getbytes('Content-Type')
			bd = None
			if ct is not None and ct.startswith(b'multipart/'):
				bd = h.element('Content-Type').boundary.encode('ISO8859-1').hex()
			hx = lambda x: None if x is None else bytes(x).hex()
			return {'before': before, 'status': int(resp.status), 'cr': hx(h.getbytes('Content-Range')), 'ct': hx(ct), 'cl': hx(h.getbytes('Content-Length')),
				'body': bytes(resp.body).hex(), 'bd': bd, 'ar': hx(h.getbytes('Accept-Ranges'))}
		except Exception as exc:
			return _err(exc)
	raise ValueError(k)


def _rspec(r):
	return '(%s, %s)' % (opt(None if r[0] is None else N(r[0]), 'N'), opt(None if r[1] is None else N(r[1]), 'N'))


def _rspecs(rs):
	return L([_rspec(r) for r in rs], 'rspec')


def _ob(h):
	return opt(None if h is None else X(bytes.fromhex(h)), 'bytes')


def coq_case(c, o):
	k = c['k']
	if 'harness_exception' in o or str(o.get('err', '')).startswith('escape') or o.get('err') == 'absent':
		return 'CInt [] (Some (false, 0))'  # escaping exception: force a disagreement
	if k == 'int':
		return 'CInt %s %s' % (X(bytes.fromhex(c['b'])), '(@None (bool * N))' if o['v'] is None else '(Some (%s, %s))' % (B(o['v'][0]), N(int(o['v'][1]))))
	if k == 'parse':
		if o.get('err') == 'invalid':
			return 'CParse %s None' % X(bytes.fromhex(c['v']))
		return 'CParse %s (Some (%s, %s))' % (X(bytes.fromhex(c['v'])), X(bytes.fromhex(o['unit'])), _rspecs(o['ranges']))
	if k == 'slice':
		return 'CSlice %s %s %s' % (X(bytes.fromhex(c['d'])), _rspecs(c['rs']), L([X(bytes.fromhex(x)) for x in o['out']], 'bytes'))
	if k == 'prep':
		fl = c.get('flags') or {}
		pre = '(mkpre %s)' % ' '.join(B(x) for x in (not fl.get('resp10'), not fl.get('req10'), not fl.get('status'), not fl.get('post'), not fl.get('noetag'),
			bool(fl.get('lastmod')), bool(fl.get('arset')), bool(fl.get('chunked')), not fl.get('list')))
		return 'CPrep %s %s %s %s %s %s %s %s %s %s %s' % (pre, _ob(c['v']), X(bytes.fromhex(c['d'])), X(c['ct'].encode()), X(bytes.fromhex(o['bd'] or '')), N(o['before']),
			N(o['status']), _ob(o['cr']), _ob(o['ct']), _ob(o['cl']), X(bytes.fromhex(o['body'])))
	return None


def _preconditions(c, d):
	fl = c.get('flags') or {}
	if fl.get('resp10') or fl.get('req10') or fl.get('status') or fl.get('post') or fl.get('chunked') or fl.get('list') or not d:
		return False
	return (not fl.get('noetag')) or bool(fl.get('lastmod')) or bool(fl.get('arset'))


def _closed_specs(v):
	"""the closed ranges of a lenient-RFC 'bytes' Range value, or None"""
	if not LENIENT.fullmatch(v):
		return None
	unit, _, rest = v.partition(b'=')
	if unit.lower() != b'bytes':
		return None
	out = []
	for s in rest.split(b','):
		m = CLOSED.fullmatch(s)
		if not m:
			return None
		out.append((int(m.group(1)), int(m.group(2))))
	return out


def _read_multipart(body, bd):
	"""independent reader: list of (header block, content) or an error string"""
	delim = b'--' + bd
	if not body.endswith(delim + b'--\r\n'):
		return 'multipart body does not end with the closing delimiter'
	pieces = body[:-len(delim + b'--\r\n')].split(delim + b'\r\n')
	if pieces[0] != b'':
		return 'octets before the first delimiter'
	out = []
	for p in pieces[1:]:
		hdr, sep, content = p.partition(b'\r\n\r\n')
		if not sep or not content.endswith(b'\r\n'):
			return 'malformed part'
		out.append((hdr.split(b'\r\n'), content[:-2]))
	return out


def _admission(uniq):
	"""The documented admission rule for a request of several byte ranges, restated for distinct closed ranges first-last inside the
	representation, independently of the implementation and of the Gallina model (exact rationals, no floats):
	  * two ranges that have two or more octets in common are refused ("duplicated range"),
	  * the population standard deviation of the range lengths must not exceed 2.0, i.e. the population variance (mean of the squared
	    deviations from the mean, divisor = number of ranges) must not exceed 4; lengths in octets (last + 1 - first) or as differences
	    last - first give the same variance,
	  * there is no limit on the number of closed ranges (the count limits concern suffix and open-ended ranges only).
	Returns 'serve', 'refuse' or None (no expectation: ranges sharing exactly one octet are neither disjoint nor refused by the rule)."""
	shared = [min(a[1], b[1]) - max(a[0], b[0]) + 1 for a, b in itertools.combinations(uniq, 2)]
	lens = [Fraction(l + 1 - f) for f, l in uniq]
	mean = sum(lens) / len(lens)
	variance = sum((x - mean) ** 2 for x in lens) / len(lens)
	if any(s >= 2 for s in shared) or variance > 4:
		return 'refuse'
	if any(s == 1 for s in shared):
		return None
	return 'serve'


def oracle(c, o):
	k = c['k']
	if 'harness_exception' in o or str(o.get('err', '')).startswith('escape'):
		return 'unexpected exception %s' % (o,)
	if k != 'prep':
		return None
	if o.get('err'):
		return 'prepare() raised %s' % (o,)
	d = bytes.fromhex(c['d'])
	body = bytes.fromhex(o['body'])
	v = None if c['v'] is None else bytes.fromhex(c['v'])
	fl = c.get('flags') or {}
	ok_pre = _preconditions(c, d)
	st = o['status']
	if st == 206 and (v is None or fl.get('status') or fl.get('post')):
		return 'partial response without a Range request / for a non-GET request / for a non-200 response'
	if v is None:
		return None
	# clause 3: a syntactically invalid Range field never yields a partial response
	unit, eq, rest = v.partition(b'=')
	if not LENIENT.fullmatch(v):
		if st == 206:
			if not TOKEN.fullmatch(unit):
				return 'invalid-206 (the range unit is not a token): syntactically invalid Range %r answered with 206' % (v,)
			return 'invalid-206 (range set outside the grammar, byte positions are 1*DIGIT): syntactically invalid Range %r answered with 206' % (v,)
		return None
	# RFC 7233 3.1: a range unit that is not understood is never served (unit names are case-insensitive) ...
	if unit.lower() != b'bytes':
		if st == 206:
			return 'foreign-unit-206: a Range field whose range unit is not bytes was answered with 206 as if it were bytes: %r' % (v,)
		# ... the field is ignored: for one closed range first < last nothing else (overlap / spread rules) can interfere
		m = CLOSED.fullmatch(rest)
		if m and int(m.group(1)) < int(m.group(2)) and (st != o['before'] or body != d or o['cr'] is not None):
			return 'foreign-unit-not-ignored: a Range field whose range unit is not bytes changed the response: %r (status %d, Content-Range %r, %d body octets)' % (v, st, o['cr'] and bytes.fromhex(o['cr']), len(body))
		return None
	if not ok_pre:
		return None
	specs = _closed_specs(v)
	if specs is None:
		return None  # other units, suffix and open-ended ranges: outside the statement
	n = len(d)
	if not all(f < l < n for f, l in specs):
		return None
	uniq = sorted(set(specs))
	if len(uniq) == 1 and len(specs) == 1:
		f, l = uniq[0]
		if st != 206:
			return 'single range %d-%d of %d octets answered with %d' % (f, l, n, st)
		if body != d[f:l + 1]:
			return 'single range %d-%d: body is not the slice (got %d octets)' % (f, l, len(body))
		if o['cl'] is None or bytes.fromhex(o['cl']) != b'%d' % (l - f + 1):
			return 'single range %d-%d: Content-Length %r' % (f, l, o['cl'] and bytes.fromhex(o['cl']))
		if o['cr'] is None or bytes.fromhex(o['cr']) != b'bytes %d-%d/%d' % (f, l, n):
			return 'single range %d-%d: Content-Range %r' % (f, l, o['cr'] and bytes.fromhex(o['cr']))
		return None
	disjoint = len(uniq) == len(specs) and all(a[1] < b[0] for a, b in zip(uniq, uniq[1:]))
	lens = [l - f + 1 for f, l in uniq]
	similar = max(lens) - min(lens) <= 2
	if disjoint and similar and 2 <= len(uniq) <= 4 and st != 206:
		return 'multi: %d disjoint similar ranges answered with %d' % (len(uniq), st)
	if len(uniq) == len(specs) and len(uniq) >= 2:
		verdict = _admission(uniq)
		if verdict == 'serve' and st != 206:
			return 'multi-admission: %d disjoint ranges of lengths %r (within the documented spread) answered with %d and a body of %d octets instead of 206 multipart/byteranges' % (len(uniq), lens, st, len(body))
		if verdict == 'refuse' and st != 416:
			return 'multi-refusal: %d ranges of lengths %r that the documented rule refuses (overlap or spread) answered with %d instead of 416' % (len(uniq), lens, st)
		if verdict == 'refuse' and body != d:
			return 'multi-refusal: 416 for a refused set of ranges carries %d octets instead of the complete representation (%d)' % (len(body), n)
	if st == 206 and len(uniq) >= 2:
		ct = bytes.fromhex(o['ct'] or '')
		if not ct.startswith(b'multipart/byteranges') or o['bd'] is None:
			return 'multi: Content-Type of the 206 is %r' % (ct,)
		parts = _read_multipart(body, bytes.fromhex(o['bd']))
		if isinstance(parts, str):
			return 'multi: ' + parts
		if [p[1] for p in parts] != [d[f:l + 1] for f, l in uniq]:
			return 'multi: parts are not the requested slices in ascending order'
		for (hdr, _), (f, l) in zip(parts, uniq):
			if b'Content-Range: bytes %d-%d/%d' % (f, l, n) not in hdr or b'Content-Type: ' + c['ct'].encode() not in hdr:
				return 'multi: part headers %r for range %d-%d' % (hdr, f, l)
		if o['cl'] is None or bytes.fromhex(o['cl']) != b'%d' % len(body):
			return 'multi: Content-Length %r for a body of %d octets' % (o['cl'], len(body))
	return None


def classify(c, o, fail):
	return None  # no known findings (known_findings.d/C20.json): every oracle failure is a violation


def nontrivial(c, o):
	if c['k'] == 'prep':
		return ('prep', c['v'], c['d'][:16], len(c['d']), o.get('status'), repr(sorted((c.get('flags') or {}).items())))
	if c['k'] == 'parse':
		return ('parse', c['v'])
	if c['k'] == 'int' and o.get('v') is not None:
		return ('int', c['b'])
	return None


LEVEL_TEXT = ('Machine-checked Coq theorems about a Gallina model of Range.parse / prevent_denial_of_service / positions / ContentRange.compose / '
	'ComposedResponse.prepare_ranges / Multipart.encode, for representations and positions of any size: a request "bytes=first-last" with first < last < length '
	'under the range preconditions gives 206, exactly the slice, its length and "bytes first-last/length"; an accepted set of ranges gives the multipart body whose '
	'parts are exactly the slices in strictly ascending order; a Range value that Range.parse refuses never gives 206, and every value outside the lenient RFC 7233 '
	'grammar (white space tolerated) is refused by the repaired code (byte positions must be digits, the unit must be a token; a unit other than bytes is not served); the model carries a variant per repair, '
	'chosen by a T1 probe of /repo on every run, and the as-found variants keep their partial theorem and refuting witnesses.')
LEVEL_NOTE = ('Trusted: Coq kernel + vm_compute; T1 tables and the T2 harness; io.BytesIO as list slicing; the multipart boundary is an arbitrary parameter. '
	'No axioms (Print Assumptions: closed).')
TECHNIQUE = 'Coq proof on a Gallina model + vm_compute correspondence against the implementation'

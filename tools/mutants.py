#!/usr/bin/env python3
"""Mechanical mutation sweep (development tool, not part of any registered check).

Generates small syntactic mutants of the files the properties are anchored in, keeps those under which httoop's own
test suite gives exactly the baseline result (the mutants "that still compile and pass the existing tests"), and runs
the quick check of every property anchored in the mutated file against each of them, in isolated copies of /verif and
/repo (nothing in /repo or /verif is touched).  Survivors are either equivalent mutants or gaps of a check: they are
listed for triage in /verif/seeded/MUTANTS.json.

usage: mutants.py [--files a.py,b.py] [--per-file N] [--workers W] [--seed S] [--only-survivors-of FILE]
"""
import ast
import json
import os
import random
import re
import shutil
import subprocess
import sys
import time
from concurrent.futures import ThreadPoolExecutor

ROOT = '/tmp/mut'
OUT = '/verif/seeded/MUTANTS.json'

CMP = {ast.Lt: '<=', ast.LtE: '<', ast.Gt: '>=', ast.GtE: '>', ast.Eq: '!=', ast.NotEq: '==', ast.In: 'not in', ast.NotIn: 'in', ast.Is: 'is not', ast.IsNot: 'is'}
CMP_SRC = {ast.Lt: '<', ast.LtE: '<=', ast.Gt: '>', ast.GtE: '>=', ast.Eq: '==', ast.NotEq: '!=', ast.In: 'in', ast.NotIn: 'not in', ast.Is: 'is', ast.IsNot: 'is not'}


def sh(cmd, cwd=None, timeout=3600, env=None):
	p = subprocess.run(cmd, shell=True, cwd=cwd, stdout=subprocess.PIPE, stderr=subprocess.STDOUT, timeout=timeout, env=env)
	return p.returncode, p.stdout.decode('utf-8', 'replace')


def seg(src_lines, node):
	"""(start offset, end offset) of a node in the flat source"""
	def off(l, c):
		return sum(len(x) for x in src_lines[:l - 1]) + len(src_lines[l - 1].encode('utf-8')[:c].decode('utf-8'))
	return off(node.lineno, node.col_offset), off(node.end_lineno, node.end_col_offset)


def mutants_of(path):
	src = open(path, encoding='utf-8').read()
	lines = src.splitlines(True)
	tree = ast.parse(src)
	out = []

	def add(a, b, new, what, line):
		if src[a:b] != new:
			out.append({'a': a, 'b': b, 'new': new, 'what': '%s: %r -> %r' % (what, src[a:b][:60], new[:60]), 'line': line})

	for node in ast.walk(tree):
		if isinstance(node, ast.Compare) and len(node.ops) == 1:
			op = node.ops[0]
			if type(op) in CMP:
				la, lb = seg(lines, node.left)
				ra, rb = seg(lines, node.comparators[0])
				between = src[lb:ra]
				tok = CMP_SRC[type(op)]
				m = re.search(r'(?<![<>=!])' + re.escape(tok).replace(r'\ ', r'\s+') + r'(?![=])', between)
				if m:
					add(lb + m.start(), lb + m.end(), CMP[type(op)], 'compare', node.lineno)
		elif isinstance(node, ast.BoolOp):
			tok = 'and' if isinstance(node.op, ast.And) else 'or'
			for x, y in zip(node.values, node.values[1:]):
				xa, xb = seg(lines, x)
				ya, yb = seg(lines, y)
				m = re.search(r'\b%s\b' % tok, src[xb:ya])
				if m:
					add(xb + m.start(), xb + m.end(), 'or' if tok == 'and' else 'and', 'boolop', node.lineno)
		elif isinstance(node, ast.UnaryOp) and isinstance(node.op, ast.Not):
			a, b = seg(lines, node)
			oa, ob = seg(lines, node.operand)
			add(a, oa, '', 'drop-not', node.lineno)
		elif isinstance(node, ast.Constant) and isinstance(node.value, int) and not isinstance(node.value, bool) and -1 <= node.value <= 4096:
			a, b = seg(lines, node)
			if re.match(r'^\d+$', src[a:b]):
				add(a, b, str(node.value + 1), 'const+1', node.lineno)
				if node.value > 0:
					add(a, b, str(node.value - 1), 'const-1', node.lineno)
		elif isinstance(node, ast.Constant) and isinstance(node.value, bool):
			a, b = seg(lines, node)
			add(a, b, str(not node.value), 'bool', node.lineno)
		elif isinstance(node, (ast.If, ast.While)) and not isinstance(node.test, ast.Constant):
			a, b = seg(lines, node.test)
			add(a, b, 'not (%s)' % src[a:b], 'negate-cond', node.lineno)
		elif isinstance(node, ast.IfExp):
			a, b = seg(lines, node.test)
			add(a, b, 'not (%s)' % src[a:b], 'negate-ifexp', node.lineno)
		elif isinstance(node, ast.BinOp) and isinstance(node.op, (ast.Add, ast.Sub)) and not isinstance(node.left, ast.Constant):
			la, lb = seg(lines, node.left)
			ra, rb = seg(lines, node.right)
			tok = '+' if isinstance(node.op, ast.Add) else '-'
			m = re.search(re.escape(tok), src[lb:ra])
			if m and not isinstance(node.right, ast.Constant) or (m and isinstance(node.right, ast.Constant) and isinstance(node.right.value, int)):
				add(lb + m.start(), lb + m.end(), '-' if tok == '+' else '+', 'arith', node.lineno)
		elif isinstance(node, ast.Call) and isinstance(node.func, ast.Attribute) and node.func.attr in ('lower', 'upper', 'strip', 'lstrip', 'rstrip') and not node.args:
			a, b = seg(lines, node)
			fa, fb = seg(lines, node.func.value)
			add(fb, b, '', 'drop-' + node.func.attr, node.lineno)
		elif isinstance(node, ast.Subscript) and isinstance(node.slice, ast.Slice):
			for part in (node.slice.lower, node.slice.upper):
				if isinstance(part, ast.Constant) and isinstance(part.value, int) and 0 <= part.value < 64:
					pass  # covered by const+-1
	# skip module docstrings / type annotations: mutations inside annotations are dead code
	ann = set()
	for node in ast.walk(tree):
		for f in ('annotation', 'returns'):
			n = getattr(node, f, None)
			if n is not None:
				a, b = seg(lines, n)
				ann.add((a, b))
	out = [m for m in out if not any(a <= m['a'] and m['b'] <= b for a, b in ann)]
	return src, out


def anchors():
	files = {}
	for l in open('/verif/properties.jsonl'):
		d = json.loads(l)
		for f in d.get('anchors', {}).get('files', []):
			files.setdefault(f, []).append(d['id'])
	return files


def suite(repo):
	rc, out = sh('PYTHONPATH=%s PYTHONHASHSEED=0 timeout -k 5 400 /venv/bin/python -m pytest -q -p no:cacheprovider --timeout=60 2>&1 | grep -E "^(FAILED|ERROR)| passed| failed|error"' % (repo,), cwd=repo, timeout=1500)
	failed = sorted(set(re.findall(r'^(?:FAILED|ERROR) (\S+)', out, flags=re.M)))
	summ = [l for l in out.splitlines() if ' passed' in l or ' failed' in l or 'error' in l][-1:] or ['?']
	return failed, re.sub(r' in [\d.]+s.*', '', summ[0])


def main(argv):
	rng = random.Random(int(argv[argv.index('--seed') + 1]) if '--seed' in argv else 1)
	per_file = int(argv[argv.index('--per-file') + 1]) if '--per-file' in argv else 12
	workers = int(argv[argv.index('--workers') + 1]) if '--workers' in argv else 4
	anc = anchors()
	files = sorted(anc)
	if '--files' in argv:
		files = argv[argv.index('--files') + 1].split(',')
	os.makedirs(ROOT, exist_ok=True)
	# worker sandboxes
	for w in range(workers):
		sh('rm -rf %s/w%d && mkdir -p %s/w%d && git clone -q /repo %s/w%d/repo && rsync -a --exclude .git --exclude evidence/replay /verif/ %s/w%d/verif/' % (ROOT, w, ROOT, w, ROOT, w, ROOT, w))
	base_failed, base_sum = suite('%s/w0/repo' % ROOT)
	print('baseline:', base_sum, flush=True)
	todo = []
	for f in files:
		path = os.path.join('/repo', f)
		if not os.path.exists(path):
			continue
		src, ms = mutants_of(path)
		rng.shuffle(ms)
		# at most two mutants per source line, per_file in total
		seen = {}
		pick = []
		for m in ms:
			if seen.get(m['line'], 0) >= 1:
				continue
			seen[m['line']] = seen.get(m['line'], 0) + 1
			pick.append(m)
			if len(pick) >= per_file:
				break
		for m in pick:
			todo.append((f, m))
	print('mutants to try: %d over %d files' % (len(todo), len(files)), flush=True)
	results = json.load(open(OUT)) if os.path.exists(OUT) else {}
	import queue
	free = queue.Queue()
	for w in range(workers):
		free.put(w)

	def job(item):
		f, m = item
		key = '%s:%d:%s' % (f, m['line'], m['what'])
		if key in results:
			return key, results[key]
		w = free.get()
		try:
			repo = '%s/w%d/repo' % (ROOT, w)
			verif = '%s/w%d/verif' % (ROOT, w)
			src = open(os.path.join('/repo', f), encoding='utf-8').read()
			new = src[:m['a']] + m['new'] + src[m['b']:]
			try:
				compile(new, f, 'exec')
			except SyntaxError:
				return key, {'state': 'syntax-error'}
			with open(os.path.join(repo, f), 'w', encoding='utf-8') as fd:
				fd.write(new)
			r = {'file': f, 'line': m['line'], 'what': m['what']}
			try:
				failed, summ = suite(repo)
				if failed != base_failed or summ != base_sum:
					r['state'] = 'killed-by-suite'
					return key, r
				r['state'] = 'passes-suite'
				r['checks'] = {}
				env = dict(os.environ, VERIF_REPO=repo, VERIF_COVERAGE='0')
				for pid in anc.get(f, []):
					rc, out = sh('%s/check %s quick' % (verif, pid), cwd=verif, env=env, timeout=1800)
					viol = [l for l in out.splitlines() if l.startswith('VIOLATION')]
					summ2 = [l for l in out.splitlines() if re.match(r'^C\d\d quick:', l)]
					r['checks'][pid] = {'exit': rc, 'violations': len(viol), 'no_failing_input': any('no-failing-input-found' in v for v in viol), 'summary': (summ2[-1] if summ2 else out[-200:])[:160]}
				r['caught_by'] = sorted(p for p, c in r['checks'].items() if c['exit'] != 0)
				r['state'] = 'caught' if r['caught_by'] else 'SURVIVED'
				return key, r
			finally:
				sh('git checkout -q -- .', cwd=repo)
		finally:
			free.put(w)

	t0 = time.time()
	with ThreadPoolExecutor(max_workers=workers) as ex:
		for n, (key, r) in enumerate(ex.map(job, todo)):
			results[key] = r
			if n % 5 == 0:
				with open(OUT, 'w') as fd:
					json.dump(results, fd, indent=1, sort_keys=True)
			print('%4d %6.0fs %-16s %s %s' % (n, time.time() - t0, r.get('state'), key[:110], r.get('caught_by', '')), flush=True)
	with open(OUT, 'w') as fd:
		json.dump(results, fd, indent=1, sort_keys=True)
	states = {}
	for r in results.values():
		states[r.get('state')] = states.get(r.get('state'), 0) + 1
	print(states)
	for w in range(workers):
		shutil.rmtree('%s/w%d' % (ROOT, w), ignore_errors=True)


if __name__ == '__main__':
	main(sys.argv[1:])

#!/usr/bin/env python3
"""Run checks against the seeded changes under /verif/seeded/<Cxx-k>/.

default (isolated): copies /verif to /tmp/v2 and /repo to /tmp/r2, applies each patch to /tmp/r2 and runs
  VERIF_REPO=/tmp/r2 /tmp/v2/check <prop> quick      (does not disturb /repo or /verif/coq)
--inplace: applies each patch to /repo itself (git -C /repo apply), runs /verif/check, then git -C /repo checkout -- .
usage: seedrun.py [--inplace] [--props C01,C02] [--extra C03] [seed ids...]
Results are merged into /verif/seeded/RESULTS.json"""
import json
import os
import re
import subprocess
import sys
import time

SEEDED = '/verif/seeded'


def sh(cmd, cwd=None, timeout=3600, env=None):
	p = subprocess.run(cmd, shell=True, cwd=cwd, stdout=subprocess.PIPE, stderr=subprocess.STDOUT, timeout=timeout, env=env)
	return p.returncode, p.stdout.decode('utf-8', 'replace')


def main(argv):
	inplace = '--inplace' in argv
	extra = []
	if '--extra' in argv:
		extra = argv[argv.index('--extra') + 1].split(',')
	ids = [a for a in argv if re.match(r'^C\d\d-\d+$', a)]
	if not ids:
		ids = sorted(d for d in os.listdir(SEEDED) if re.match(r'^C\d\d-\d+$', d))
	slot = argv[argv.index('--slot') + 1] if '--slot' in argv else ''
	if inplace:
		verif, repo = '/verif', '/repo'
	else:
		verif, repo = '/tmp/v2' + slot, '/tmp/r2' + slot
		sh('mkdir -p %s && rsync -a --delete --exclude .git --exclude evidence/replay /verif/ %s/' % (verif, verif))
		sh('rm -rf %s && git clone -q /repo %s' % (repo, repo))
	# several slots may run side by side (each with its own copies); every slot writes its own result file, tools/seedmerge.py merges them
	res_path = os.path.join(SEEDED, 'RESULTS%s.json' % (('.' + slot) if slot else ''))
	results = json.load(open(res_path)) if os.path.exists(res_path) else {}
	for sid in ids:
		prop = sid.split('-')[0]
		patch = os.path.join(SEEDED, sid, 'patch.diff')
		try:
			meta = json.load(open(os.path.join(SEEDED, sid, 'meta.json')))
		except Exception:
			meta = {}
		if meta.get('obsolete'):
			results.setdefault(sid, {})['obsolete'] = meta['obsolete']
			print('%s obsolete: %s' % (sid, meta['obsolete'][:100]), flush=True)
			continue
		results.setdefault(sid, {}).pop('error', None)
		rc, out = sh('git apply %s' % patch, cwd=repo)
		if rc:
			results.setdefault(sid, {})['error'] = 'patch does not apply: ' + out[-200:]
			continue
		try:
			for p in [prop] + [e for e in extra if e != prop]:
				if not os.path.exists(os.path.join(verif, 'harness', 'props', p + '.py')):
					continue
				env = dict(os.environ)
				if not inplace:
					env['VERIF_REPO'] = repo
				t0 = time.time()
				rc, out = sh('%s/check %s quick' % (verif, p), cwd=verif, env=env)
				viol = [l for l in out.splitlines() if l.startswith('VIOLATION')]
				summ = [l for l in out.splitlines() if re.match(r'^C\d\d (quick|thorough):', l)]
				r = {'exit': rc, 'violation_lines': len(viol), 'no_failing_input': any('no-failing-input-found' in v for v in viol),
					'summary': summ[-1][:300] if summ else out[-300:], 'wall_s': round(time.time() - t0, 1), 'repo_head': sh('git -C %s rev-parse --short HEAD' % repo)[1].strip(), 'mode': 'inplace' if inplace else 'isolated copy'}
				results.setdefault(sid, {}).setdefault('checks', {})[p] = r
				print(sid, p, 'exit=%s' % rc, 'violations=%d' % len(viol), r['summary'][:160])
				sys.stdout.flush()
		finally:
			sh('git checkout -q -- . && git clean -fdq', cwd=repo)
		json.dump(results, open(res_path, 'w'), indent=1, sort_keys=True)
	json.dump(results, open(res_path, 'w'), indent=1, sort_keys=True)
	if not inplace:
		sh('rm -rf /tmp/r2')


if __name__ == '__main__':
	main(sys.argv[1:])

#!/usr/bin/env python3
"""merge seeded/RESULTS.<slot>.json (written by parallel tools/seedrun.py --slot <n> runs) into seeded/RESULTS.json"""
import glob, json, os
base = '/verif/seeded/RESULTS.json'
res = json.load(open(base)) if os.path.exists(base) else {}
for f in sorted(glob.glob('/verif/seeded/RESULTS.*.json')):
	for k, v in json.load(open(f)).items():
		res[k] = v
	os.unlink(f)
json.dump(res, open(base, 'w'), indent=1, sort_keys=True)
print(len(res), 'seeds in RESULTS.json')

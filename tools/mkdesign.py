#!/usr/bin/env python3
"""Assemble /verif/DESIGN.md from notes/DESIGN.head.md, the design-round sections kept in notes/design/, and
tables generated from known_findings*.json, coq/Props/*.v and seeded/RESULTS.json."""
import glob
import json
import os
import re

ROOT = os.path.dirname(os.path.dirname(os.path.abspath(__file__)))


def rd(rel):
	with open(os.path.join(ROOT, rel)) as fd:
		return fd.read()


def findings_tables():
	known, fixed = [], []
	for f in ['known_findings.json'] + sorted(glob.glob(os.path.join(ROOT, 'known_findings.d', '*.json'))):
		j = json.load(open(os.path.join(ROOT, f)))
		known += j.get('known', [])
		fixed += j.get('fixed', [])
	out = ['### 4.1 Repaired (`fix:` commits in `/repo`)\n', '| property | finding | commit | what failed |', '|---|---|---|---|']
	for e in sorted(fixed, key=lambda e: (e['property'], e['id'])):
		what = re.sub(r'^fixed: property=\S+ \S+ ', '', e['entry'])
		out.append('| %s | %s | `%s` | %s |' % (e['property'], e['id'], e['commit'], what.replace('|', '\\|')))
	out += ['', '### 4.2 Known findings (recorded, not repaired)\n', '| property | finding | what fails | why not repaired |', '|---|---|---|---|']
	for e in sorted(known, key=lambda e: (e['property'], e['id'])):
		out.append('| %s | %s | %s | %s |' % (e['property'], e['id'], e['what'].replace('|', '\\|'), e.get('why_not_fixed', '').replace('|', '\\|')))
	return '\n'.join(out) + '\n'


def theorem_inventory():
	out = ['### 5.0 Theorem inventory (generated from `coq/Props`)\n', '| property | theorems / examples | names |', '|---|---|---|']
	for f in sorted(glob.glob(os.path.join(ROOT, 'coq', 'Props', 'C*.v'))):
		t = open(f).read()
		names = re.findall(r'^(?:Theorem|Example)\s+([A-Za-z0-9_\']+)', t, flags=re.M)
		out.append('| %s | %d | %s |' % (os.path.basename(f)[:-2], len(names), ' '.join('`%s`' % n for n in names)))
	return '\n'.join(out) + '\n'


def seeds_table():
	path = os.path.join(ROOT, 'seeded', 'RESULTS.json')
	if not os.path.exists(path):
		return ''
	res = json.load(open(path))
	out = ['| seed | what was changed (author\'s summary) | needs | check → result |', '|---|---|---|---|']
	for sid in sorted(res):
		meta = {}
		mp = os.path.join(ROOT, 'seeded', sid, 'meta.json')
		if os.path.exists(mp):
			try:
				meta = json.load(open(mp))
			except Exception:
				meta = {}
		checks = []
		if res[sid].get('obsolete'):
			out.append('| %s | %s | %s | %s |' % (sid, str(meta.get('summary', ''))[:260].replace('|', '\\|').replace('\n', ' '), str(meta.get('needs', ''))[:200].replace('|', '\\|').replace('\n', ' '), 'OBSOLETE: ' + res[sid]['obsolete'][:400]))
			continue
		for p, r in sorted(res[sid].get('checks', {}).items()):
			m = re.search(r'disagreements=(\d+) oracle-failures=(\d+)', r.get('summary', ''))
			det = ('caught: exit 1, %d VIOLATION line(s)%s' % (r['violation_lines'], ', no-failing-input-found' if r.get('no_failing_input') else '')) if r['exit'] else 'MISSED (exit 0)'
			if m:
				det += ' (model/impl disagreements %s, oracle failures %s)' % m.groups()
			checks.append('%s: %s' % (p, det))
		out.append('| %s | %s | %s | %s |' % (sid, str(meta.get('summary', ''))[:260].replace('|', '\\|').replace('\n', ' '), str(meta.get('needs', ''))[:200].replace('|', '\\|').replace('\n', ' '), '; '.join(checks) or res[sid].get('error', '')))
	return '\n'.join(out) + '\n'


def main():
	parts = [rd('notes/DESIGN.head.md'), rd('notes/design/s1.md'), rd('notes/design/s2.md'), rd('notes/design/s3.md'),
		rd('notes/design/s4.md'), findings_tables(), rd('notes/design/s5.md').replace('<!-- THEOREMS -->', theorem_inventory()),
		rd('notes/design/s6.md'), rd('notes/design/s8.md').replace('<!-- SEEDS -->', seeds_table()), rd('notes/design/s9.md')]
	with open(os.path.join(ROOT, 'DESIGN.md'), 'w') as fd:
		fd.write('\n'.join(p.rstrip('\n') + '\n' for p in parts))
	print('DESIGN.md written')


if __name__ == '__main__':
	main()

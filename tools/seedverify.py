#!/usr/bin/env python3
"""Verify seeded changes produced by the mutation sub-agents and file them under /verif/seeded/<id>/.

For each /tmp/seedout/<Cxx-k>/ (patch.diff, demo.py, meta.json):
  1. the patch applies to a scratch worktree of /repo at HEAD;
  2. demo.py passes (exit 0) on the clean tree and fails (exit != 0) with the patch;
  3. the existing test suite gives the same set of failing tests with and without the patch.
Kept seeds are copied to /verif/seeded/<Cxx-k>/ with meta.json extended by what was run.
usage: seedverify.py [--suite] Cxx-k ...      (scratch worktree: /tmp/sv-<id>, removed afterwards)"""
import json
import os
import re
import shutil
import subprocess
import sys

SEEDOUT = '/tmp/seedout'
DEST = '/verif/seeded'


def sh(cmd, cwd=None, timeout=1800):
	p = subprocess.run(cmd, shell=True, cwd=cwd, stdout=subprocess.PIPE, stderr=subprocess.STDOUT, timeout=timeout)
	return p.returncode, p.stdout.decode('utf-8', 'replace')


def suite(wt):
	rc, out = sh('PYTHONPATH=%s PYTHONHASHSEED=0 /venv/bin/python -m pytest -q -p no:cacheprovider --timeout=900 -x --co -q >/dev/null 2>&1; PYTHONPATH=%s PYTHONHASHSEED=0 /venv/bin/python -m pytest -q -p no:cacheprovider --timeout=900 2>&1 | grep -E "^(FAILED|ERROR)| passed| failed"' % (wt, wt), cwd=wt)
	failed = sorted(set(re.findall(r'^(?:FAILED|ERROR) (\S+)', out, flags=re.M)))
	summary = [l for l in out.splitlines() if ' passed' in l or ' failed' in l][-1:] or ['?']
	return failed, summary[0]


def main(argv):
	do_suite = '--suite' in argv
	reverify = '--seeded' in argv   # re-verify what is filed under /verif/seeded (e.g. after a rebase) instead of /tmp/seedout
	ids = [a for a in argv if not a.startswith('--')]
	base_failed = None
	for sid in ids:
		src = os.path.join(DEST if reverify else SEEDOUT, sid)
		wt = '/tmp/sv-%s' % sid
		res = {'id': sid}
		sh('git -C /repo worktree remove --force %s' % wt)
		rc, out = sh('git -C /repo worktree add -q --detach %s HEAD' % wt)
		try:
			rc, out = sh('PYTHONPATH=%s PYTHONHASHSEED=0 /venv/bin/python %s/demo.py' % (wt, src), cwd=wt, timeout=600)
			res['demo_clean_rc'] = rc
			rc, out = sh('git apply %s/patch.diff' % src, cwd=wt)
			res['applies'] = rc == 0
			if rc:
				rc3, out3 = sh('git apply --3way %s/patch.diff' % src, cwd=wt)
				res['applies_3way'] = rc3 == 0
				if rc3:
					res['verdict'] = 'patch does not apply: %s' % out[-300:]
					print(json.dumps(res))
					continue
				sh('git diff HEAD > %s/patch.rebased.diff' % src, cwd=wt)
			rc, out = sh('PYTHONPATH=%s PYTHONHASHSEED=0 /venv/bin/python %s/demo.py' % (wt, src), cwd=wt, timeout=600)
			res['demo_patched_rc'] = rc
			res['demo_patched_tail'] = out[-400:]
			if do_suite:
				if base_failed is None:
					sh('git stash -q', cwd=wt)
					sh('git checkout -q -- .', cwd=wt)
					sh('git -C %s stash drop -q' % wt)
				pf, ps = suite(wt)
				res['suite_patched'] = ps
				res['suite_failed_patched'] = pf
			ok = res['demo_clean_rc'] == 0 and res['demo_patched_rc'] not in (0, None)
			res['verdict'] = 'ok' if ok else 'demo does not discriminate'
			if ok:
				dst = os.path.join(DEST, sid)
				os.makedirs(dst, exist_ok=True)
				if not reverify:
					shutil.copy(os.path.join(src, 'patch.rebased.diff') if os.path.exists(os.path.join(src, 'patch.rebased.diff')) else os.path.join(src, 'patch.diff'), os.path.join(dst, 'patch.diff'))
					shutil.copy(os.path.join(src, 'demo.py'), os.path.join(dst, 'demo.py'))
				try:
					meta = json.load(open(os.path.join(src, 'meta.json')))
				except Exception:
					meta = {}
				head = sh('git -C /repo rev-parse --short HEAD')[1].strip()
				meta['verified_by_lead'] = {'repo_head': head, 'demo_clean_rc': res['demo_clean_rc'], 'demo_patched_rc': res['demo_patched_rc'], 'suite_with_patch': res.get('suite_patched'), 'suite_failed_tests_with_patch': res.get('suite_failed_patched'),
					'ran': ['git apply patch.diff in a scratch worktree of /repo HEAD', 'demo.py on the clean and on the patched worktree'] + (['full pytest suite with the patch applied'] if do_suite else [])}
				json.dump(meta, open(os.path.join(dst, 'meta.json'), 'w'), indent=1)
		finally:
			sh('git -C /repo worktree remove --force %s' % wt)
			shutil.rmtree(wt, ignore_errors=True)
		print(json.dumps({k: v for k, v in res.items() if k != 'suite_failed_patched'}))
		sys.stdout.flush()


if __name__ == '__main__':
	main(sys.argv[1:])

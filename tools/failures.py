#!/venv/bin/python
"""debug helper: histogram of oracle failures of a property module (not used by checks)"""
import collections, importlib, random, sys, hashlib
sys.path[:0] = ['/repo', '/verif']
pid, tier = sys.argv[1], (sys.argv[2] if len(sys.argv) > 2 else 'quick')
spec = importlib.import_module('harness.props.' + pid)
seed = 20260930
rng = random.Random((seed << 8) ^ int(hashlib.sha1(pid.encode()).hexdigest()[:8], 16))
cnt = collections.Counter(); ex = {}
for c in spec.gen_cases(rng, tier):
    o = spec.observe(c)
    f = spec.oracle(c, o)
    if f:
        k = (spec.classify(c, o, f), f[:70])
        cnt[k] += 1; ex.setdefault(k, c)
for k, v in cnt.most_common():
    print(v, k, str(ex[k])[:300])

#!/usr/bin/env python3
"""Regenerate MANIFEST.json from the property modules present under harness/props."""
import importlib
import json
import os
import sys

ROOT = os.path.dirname(os.path.dirname(os.path.abspath(__file__)))
sys.path.insert(0, ROOT)
sys.path.insert(0, '/repo')

props = [json.loads(l) for l in open(os.path.join(ROOT, 'properties.jsonl'))]
claimed = set(open(os.path.join(ROOT, 'CLAIMED')).read().split())
checks, na = [], []
for p in props:
	pid = p['id']
	if pid not in claimed or not os.path.exists(os.path.join(ROOT, 'harness', 'props', pid + '.py')):
		na.append({'property_id': pid, 'reason': 'no theorem/model committed yet for this property in the current state of /verif (planned, see DESIGN.md section 5 %s); not claimed until its check exists' % pid})
		continue
	m = importlib.import_module('harness.props.' + pid)
	checks.append({
		'property_id': pid,
		'quick_cmd': './check %s quick' % pid,
		'thorough_cmd': './check %s thorough' % pid,
		'evidence_file': '/verif/evidence/%s.json' % pid,
		'replay_cmd_template': './check %s quick --replay {path}' % pid,
		'engine': 'coq-proof+correspondence',
		'level_claimed': {'category': 'proof', 'text': m.LEVEL_TEXT, 'design_ref': 'DESIGN.md section 5, %s' % pid},
		'level_note': m.LEVEL_NOTE,
		'technique': m.TECHNIQUE,
	})
manifest = {
	'version': 1,
	'setup_cmd': './setup.sh',
	'hooks': {
		'guard': 'HTTOOP_VERIF',
		'enable': 'no hook or instrumentation inside /repo is needed: checks import the working tree (PYTHONPATH=/repo) and wrap callees from outside; HTTOOP_VERIF=1 is exported by ./check but nothing in /repo reads it',
		'baseline_off_cmd': 'cd /repo && env -u HTTOOP_VERIF /venv/bin/python -m pytest -q -p no:cacheprovider --timeout=900',
		'source_commits': [],
		'add_only': True,
	},
	'engines': [{
		'name': 'coq-proof+correspondence', 'path': '/verif/check',
		'serves_properties': [c['property_id'] for c in checks],
		'kind_free_text': 'Coq 8.16.1 theorems over hand-written Gallina models (coq/Model, coq/Proofs, coq/Props); tables regenerated from /repo on every run (harness/gen_tables.py); correspondence of model and implementation on generated cases evaluated with vm_compute inside Coq (coq/Corr, coq/cases); direct property oracle on the implementation for replayable failing inputs',
	}],
	'checks': checks,
	'not_applicable': na,
	'notes': 'See DESIGN.md. Known findings (genuine defects recorded, not repaired) are in known_findings.json; checks print KNOWN-FINDING lines for them and exit 0.',
}
with open(os.path.join(ROOT, 'MANIFEST.json'), 'w') as fd:
	json.dump(manifest, fd, indent=1)
print('MANIFEST.json: %d checks, %d not claimed' % (len(checks), len(na)))

#!/bin/bash
# Offline build of the whole Coq development from clean (full .vo build, no -vos/-vok).
set -e
cd "$(dirname "$(readlink -f "$0")")"
export PYTHONPATH=/repo:$PWD PYTHONHASHSEED=0 PYTHONDONTWRITEBYTECODE=1 HTTOOP_VERIF=1 TZ=UTC LC_ALL=C.UTF-8
exec /venv/bin/python -m harness.setup "$@"

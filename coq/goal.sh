#!/bin/bash
# usage: goal.sh File.v LINE  -- show the proof state after LINE lines
f=$1; n=$2
tmp=$(mktemp /tmp/goalXXXX.v)
head -n $n $f > $tmp; echo 'Show. Abort All.' >> $tmp
cd /verif/coq && timeout 120 coqc -R . Httoop $tmp 2>&1 | head -${3:-60}
rm -f $tmp /tmp/$(basename $tmp .v).{vo,glob,vok,vos} /tmp/.$(basename $tmp .v).aux

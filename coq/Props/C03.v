(* C03 -- hostile input is contained.  Final statements only; all for EVERY callee record. *)
From Coq Require Import ZArith.
From Httoop Require Import Model.Parser Proofs.ParserEsc Proofs.ParserFuel Corr.Parser.

(* No parse() call of the model ends in an escaping (non-HTTP) exception, whatever the state, the
   octets received and the fragmentation, provided the callees raise none.  The hypothesis is exactly
   the list of sub-parsers that are parameters of the model; it is validated against the implementation
   on every run (partial in that respect). *)
Theorem C03_contained : forall (cfg : config) (C : callees) (k : kind), callees_no_escape C ->
  forall s data s' ms e, parse cfg C k s data = (s', ms, Some e) -> e <> EEscape.
Proof. exact parse_no_escape. Qed.
Print Assumptions C03_contained.

(* Bounded work: the message loop needs at most (buffer length + 1) turns and the chunk loop one turn
   per chunk, each turn consuming at least one octet -- the explicit fuel is never exhausted, for any
   fragmentation of any stream (so the chunk loop is iterative, not nested per chunk). *)
Theorem C03_loop_fuel_suffices : forall (cfg : config) (C : callees) (k : kind) (frags : list bytes),
  match feed_all cfg C k init frags with (_, _, oe) => oe <> Some EFuel end.
Proof. intros cfg C k frags. apply feed_all_never_out_of_fuel. exact wf_init. Qed.
Print Assumptions C03_loop_fuel_suffices.

Theorem C03_chunk_loop_fuel_suffices : forall (C : callees) i b e,
  chunks C (S (length b)) i b = Fail e -> e <> EFuel.
Proof. exact chunks_fuel_ok. Qed.
Print Assumptions C03_chunk_loop_fuel_suffices.

(* every completed message consumed at least one octet of the buffer *)
Theorem C03_progress : forall (cfg : config) (C : callees) (k : kind) s, wf_st s ->
  match turn_of cfg C k s with
  | TErr e => e <> EFuel
  | TMsg s' _ => (length (buf s') < length (buf s))%nat /\ wf_st s'
  | TBlocked s' => wf_st s'
  end.
Proof. exact turn_ok. Qed.
Print Assumptions C03_progress.

(* non-vacuity: a table-instantiated callee record without escapes, and a hostile stream answered 400 *)
Definition ex_tables : tables := {|
  t_start := [(X "474554202f20485454502f312e31", SlOk {| p11 := true; nobody := true |})];
  t_hdrs := []; t_decode := []; t_2047 := []; t_trailer := []; t_connect := [] |}.
Example C03_example :
  snd (parse real (callees_of ex_tables) Server init (X "474554202f20485454502f312e310d0a4e6f436f6c6f6e0d0a0d0a")) = Some (EHttp 400).
Proof. vm_compute. reflexivity. Qed.

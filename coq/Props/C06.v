(* C06 -- every request the server-side parser delivers has a sanitised effective URI.
   Only final statements here, each closed by [exact] and followed by Print Assumptions.

   The model (Model/ServerTarget.v): [server_target] = Request.parse + validate_request_uri + the hooks of
   on_startline_complete in their real order on one request line; [apply_host] = check_host_header_exists +
   set_request_uri_host (Host.sanitize modelled) on the raw Host value; [request_head] = both.  The percent-decoding of
   every wire segment is INSIDE the model (URI.parse), so the statements hold however dots and slashes were spelled.
   Every theorem holds for ALL instantiations of the callees: charset decoder [valid], inet_pton [inet4] [inet6], the
   IDNA codec [idna_dec] [idna_enc], str.lower [lower], HeaderElement.parse up to the constructor [helem], Unicode
   digits [udigits]; for all model variants [iv vq vu v7 vn vl] unless a theorem fixes one, and for every server
   configuration (dscheme, dhost, dport).  414 cannot occur: MAX_URI_LENGTH is infinite (checked by T1).
   [vl] is the variant of finding D55 (what sanitize_request_uri_path hands to MOVED_PERMANENTLY): AsFound = the decoded path
   text, parsed as a URI a second time; Repaired = a URI object carrying only the path.  T1 (LOCATION_VARIANT) records which
   one the working tree implements; the correspondence runs the model with it. *)
From Coq Require Import ZArith.
From Httoop Require Import Lib.Bytes Lib.Variant Lib.Utf8 Gen.PercentT Gen.UriT Gen.UriNormT Gen.StartLineT Gen.ServerTargetT.
From Httoop Require Import Model.Percent Model.StartLine Model.UriSyntax Model.UriPath Model.UriNorm Model.ServerTarget.
From Httoop Require Import Proofs.ServerTarget Proofs.ServerTargetRedirect.
From Httoop Require Model.Parser Model.Headers Proofs.ParserFraming Proofs.ServerTargetParser.
Local Open Scope N_scope.

(* ---- clause 1: the path.  path_ok p := p = "*" \/ p = "" \/ (p starts with "/" /\ no segment of split "/" p is "." or ".."
        /\ no interior segment is empty); a trailing empty segment ("/a/b/") is the directory form. ---- *)
Theorem C06_path :
  forall (valid : bytes -> bool) (inet4 inet6 idna_dec idna_enc : bytes -> option bytes) (lower : bytes -> bytes)
         (helem : bytes -> elres) (udigits : bytes -> option (option Z)) (iv vq vu v7 vn vl : variant)
         (dscheme dhost : bytes) (dport : option N) (line : bytes) (hostv : option bytes) (u : ruri) (m : bytes) (v : version),
  request_head valid inet4 inet6 idna_dec idna_enc lower helem udigits iv vq vu v7 vn vl dscheme dhost dport line hostv = FDeliver u m v ->
  path_ok (UriNorm.u_path u).
Proof. exact final_path. Qed.
Print Assumptions C06_path.

(* the boolean form of path_ok used when evaluating the model *)
Theorem C06_path_ok_bool : forall p : bytes, path_okb p = true -> path_ok p.
Proof. exact path_okb_sound. Qed.
Print Assumptions C06_path_ok_bool.

(* ---- clause 3: scheme http or https (the configured default scheme must be one of them) ---- *)
Theorem C06_scheme :
  forall (valid : bytes -> bool) (inet4 inet6 idna_dec idna_enc : bytes -> option bytes) (lower : bytes -> bytes)
         (helem : bytes -> elres) (udigits : bytes -> option (option Z)) (iv vq vu v7 vn vl : variant)
         (dscheme dhost : bytes) (dport : option N) (line : bytes) (hostv : option bytes) (u : ruri) (m : bytes) (v : version),
  http_scheme dscheme = true ->
  request_head valid inet4 inet6 idna_dec idna_enc lower helem udigits iv vq vu v7 vn vl dscheme dhost dport line hostv = FDeliver u m v ->
  UriNorm.u_scheme u = S_HTTP_ST \/ UriNorm.u_scheme u = S_HTTPS_ST.
Proof. exact final_scheme. Qed.
Print Assumptions C06_scheme.

(* ---- clause 4: no user information, no fragment ---- *)
Theorem C06_no_userinfo_fragment :
  forall (valid : bytes -> bool) (inet4 inet6 idna_dec idna_enc : bytes -> option bytes) (lower : bytes -> bytes)
         (helem : bytes -> elres) (udigits : bytes -> option (option Z)) (iv vq vu v7 vn vl : variant)
         (dscheme dhost : bytes) (dport : option N) (line : bytes) (hostv : option bytes) (u : ruri) (m : bytes) (v : version),
  request_head valid inet4 inet6 idna_dec idna_enc lower helem udigits iv vq vu v7 vn vl dscheme dhost dport line hostv = FDeliver u m v ->
  UriNorm.u_user u = [] /\ UriNorm.u_pass u = [] /\ UriNorm.u_frag u = [].
Proof. exact final_no_userinfo_fragment. Qed.
Print Assumptions C06_no_userinfo_fragment.

(* ---- clause 5: host and port come from the Host field ----
   Full statement:  delivered host = host returned by Host.sanitize /\ delivered port = port returned by Host.sanitize
   (the scheme's default port when the field has none).  It is false for port 0 (finding D26, C06_host_port_zero_refuted);
   proved for every other port: *)
Theorem C06_host_from_header :
  forall (valid : bytes -> bool) (inet4 inet6 idna_dec idna_enc : bytes -> option bytes) (lower : bytes -> bytes)
         (helem : bytes -> elres) (udigits : bytes -> option (option Z)) (iv vq vu v7 vn vl : variant)
         (dscheme dhost : bytes) (dport : option N) (line raw : bytes) (u : ruri) (m : bytes) (v : version),
  request_head valid inet4 inet6 idna_dec idna_enc lower helem udigits iv vq vu v7 vn vl dscheme dhost dport line (Some raw) = FDeliver u m v ->
  exists text h pz,
    helem raw = ElValue text /\ host_sanitize inet4 inet6 lower udigits text = Some (h, pz) /\
    UriNorm.u_host u = h /\
    (pz = None -> UriNorm.u_port u = u_dport u) /\
    (forall z, pz = Some z -> z <> 0%Z -> UriNorm.u_port u = Some (Z.to_N z) /\ (0 < z <= 65535)%Z).
Proof. exact final_host_from_header. Qed.
Print Assumptions C06_host_from_header.

Theorem C06_host_port_zero_refuted :
  exists u m v,
    ex_head (X "474554202f20485454502f312e31") (Some (X "683a30")) = FDeliver u m v /\
    host_sanitize ex_none ex_none lower_ascii ex_udig (X "683a30") = Some (X "68", Some 0%Z) /\
    UriNorm.u_port u = Some 80.
Proof. exact witness_port_zero. Qed.
Print Assumptions C06_host_port_zero_refuted.

(* the "default port" above is the one of the delivered scheme's class (80 / 443) *)
Theorem C06_class_port :
  forall (valid : bytes -> bool) (inet4 inet6 idna_dec idna_enc : bytes -> option bytes) (lower : bytes -> bytes)
         (helem : bytes -> elres) (udigits : bytes -> option (option Z)) (iv vq vu v7 vn vl : variant)
         (dscheme dhost : bytes) (dport : option N) (line : bytes) (hostv : option bytes) (u : ruri) (m : bytes) (v : version),
  http_scheme dscheme = true ->
  request_head valid inet4 inet6 idna_dec idna_enc lower helem udigits iv vq vu v7 vn vl dscheme dhost dport line hostv = FDeliver u m v ->
  u_dport u = class_port (UriNorm.u_scheme u).
Proof. exact final_class_port. Qed.
Print Assumptions C06_class_port.

(* what Host.sanitize accepts: an IP literal or a non-empty name of host-name characters; the pair is the lower-cased
   value cut at the ":digits" suffix, brackets and one trailing newline removed, nothing else dropped *)
Theorem C06_host_syntax :
  forall (inet4 inet6 : bytes -> option bytes) (lower : bytes -> bytes) (udigits : bytes -> option (option Z)) (text h : bytes) (pz : option Z),
  host_sanitize inet4 inet6 lower udigits text = Some (h, pz) ->
  (is_ip6 inet6 h = true \/ is_ip4 inet4 h = true \/ (h <> [] /\ forallb (inmask HOSTNAME_CLASS) h = true)) /\
  exists s h0 ptxt,
    (s = lower text \/ s ++ [NL] = lower text) /\ (h = h0 \/ h0 = LBR :: h ++ [RBR]) /\
    match ptxt with
    | None => s = h0 /\ pz = None
    | Some ds => s = h0 ++ UriSyntax.COLON :: ds /\ port_text_ok udigits ds = true /\ exists z, port_text_val udigits ds = Some z /\ pz = Some z
    end.
Proof. exact final_host_syntax. Qed.
Print Assumptions C06_host_syntax.

(* ---- clause 5, Host absent: only below HTTP/1.1 ... ---- *)
Theorem C06_host_absent :
  forall (valid : bytes -> bool) (inet4 inet6 idna_dec idna_enc : bytes -> option bytes) (lower : bytes -> bytes)
         (helem : bytes -> elres) (udigits : bytes -> option (option Z)) (iv vq vu v7 vn vl : variant)
         (dscheme dhost : bytes) (dport : option N) (line : bytes) (u : ruri) (m : bytes) (v : version),
  request_head valid inet4 inet6 idna_dec idna_enc lower helem udigits iv vq vu v7 vn vl dscheme dhost dport line None = FDeliver u m v ->
  ver_ltb v (1, 1) = true /\
  server_target valid inet4 inet6 idna_dec idna_enc lower iv vq vu v7 vn vl dscheme dhost dport line = Deliver u m v.
Proof. exact final_host_absent. Qed.
Print Assumptions C06_host_absent.

(* ... Full statement: then scheme, host and port are the configured defaults.  False for an absolute-form target
   (finding D54, C06_absent_host_defaults_refuted); proved when the target has no scheme of its own (origin-form,
   asterisk-form, authority-form).  The port is the configured one through the port setter (None / 0 = class default). *)
Theorem C06_absent_host_defaults_partial :
  forall (valid : bytes -> bool) (inet4 inet6 idna_dec idna_enc : bytes -> option bytes) (lower : bytes -> bytes)
         (helem : bytes -> elres) (udigits : bytes -> option (option Z)) (iv vq vu v7 vn vl : variant)
         (dscheme dhost : bytes) (dport : option N) (line : bytes) (u : ruri) (m : bytes) (v : version),
  lower [] = [] ->
  request_head valid inet4 inet6 idna_dec idna_enc lower helem udigits iv vq vu v7 vn vl dscheme dhost dport line None = FDeliver u m v ->
  exists target u0,
    req_parse iv line = RqTarget m target v /\ target_parse valid inet4 inet6 idna_dec vq v7 target = Ok u0 /\
    (UriNorm.u_scheme u0 = [] ->
       UriNorm.u_scheme u = dscheme /\ UriNorm.u_host u = dhost /\ port_of_int (u_dport u) dport = Ok (UriNorm.u_port u)).
Proof. exact final_absent_defaults. Qed.
Print Assumptions C06_absent_host_defaults_partial.

Theorem C06_absent_host_defaults_refuted :
  exists u m v,
    ex_head (X "47455420687474703a2f2f6576696c3a38312f7820485454502f312e30") None = FDeliver u m v /\
    UriNorm.u_host u = X "6576696c" /\ UriNorm.u_port u = Some 81 /\ UriNorm.u_host u <> LOCALHOST.
Proof. exact witness_absolute_form_10. Qed.
Print Assumptions C06_absent_host_defaults_refuted.

(* ---- clause 2: what happens otherwise.  On the working tree's variants (D40 and D7 repaired: checked by C06_tables)
   the start-line hooks end in: delivery, 400, 505 (version above the server's), or 301 whose target is the normalised
   path -- different from the decoded wire path, free of dot segments and slash runs, a fixed point of normalisation --
   with Location = location_of vl (that path) (after the repair of D55: C06_redirect_location).  An exception escapes
   only on the as-found tree, when the re-parsed Location cannot be IDNA-encoded. ---- *)
Theorem C06_not_delivered_is_301_or_400 :
  forall (valid : bytes -> bool) (inet4 inet6 idna_dec idna_enc : bytes -> option bytes) (lower : bytes -> bytes)
         (vq vu vn vl : variant) (dscheme dhost : bytes) (dport : option N) (line : bytes),
  match server_target valid inet4 inet6 idna_dec idna_enc lower Repaired vq vu Repaired vn vl dscheme dhost dport line with
  | Deliver _ _ _ | Bad400 => True
  | V505 => exists m target v, req_parse Repaired line = RqTarget m target v /\ ver_ltb SERVER_PROTOCOL v = true
  | Redirect301 canon loc =>
      exists m target v u0, req_parse Repaired line = RqTarget m target v /\
        target_parse valid inet4 inet6 idna_dec vq Repaired target = Ok u0 /\
        canon = UriNorm.u_path (UriNorm.normalize lower vn u0) /\ canon <> UriNorm.u_path u0 /\
        no_dot_seg canon = true /\ no_dslash canon = true /\
        normalize_path (nonnil (lower (UriNorm.u_host u0))) (nonnil (lower (UriNorm.u_scheme u0))) canon = canon /\
        location_of valid inet4 inet6 idna_dec idna_enc vq vu Repaired vl canon = Ok (Some loc)
  | Escape =>
      vl = AsFound /\
      exists canon u, uri_parse valid inet4 inet6 idna_dec vq Repaired canon = Ok u /\ uri_compose idna_enc vq vu u = None
  end.
Proof. exact final_other_outcomes. Qed.
Print Assumptions C06_not_delivered_is_301_or_400.

Theorem C06_no_escape :
  forall (valid : bytes -> bool) (inet4 inet6 idna_dec idna_enc : bytes -> option bytes) (lower : bytes -> bytes)
         (vq vu vn vl : variant) (dscheme dhost : bytes) (dport : option N) (line : bytes),
  (forall h, idna_enc h <> None) ->
  server_target valid inet4 inet6 idna_dec idna_enc lower Repaired vq vu Repaired vn vl dscheme dhost dport line <> Escape.
Proof. exact final_no_escape. Qed.
Print Assumptions C06_no_escape.

(* ... and after the repair of D55 nothing escapes at all, whatever the callees do *)
Theorem C06_no_escape_repaired :
  forall (valid : bytes -> bool) (inet4 inet6 idna_dec idna_enc : bytes -> option bytes) (lower : bytes -> bytes)
         (vq vu vn : variant) (dscheme dhost : bytes) (dport : option N) (line : bytes),
  server_target valid inet4 inet6 idna_dec idna_enc lower Repaired vq vu Repaired vn Repaired dscheme dhost dport line <> Escape.
Proof. exact final_no_escape_repaired. Qed.
Print Assumptions C06_no_escape_repaired.

(* Full statement: the 301 names the canonical path, i.e. path_ok canon and Location = the encoded canon.
   (D53, still open) an origin-form path that climbs above the root loses its leading slash: path_ok canon is proved for
   absolute-form targets only.  (D55, repaired) the Location was obtained by parsing the decoded path text as a URI again;
   with vl = Repaired it is exactly the percent-encoded normalised path: C06_redirect_location. *)
Theorem C06_redirect_rooted_partial :
  forall (valid : bytes -> bool) (inet4 inet6 idna_dec idna_enc : bytes -> option bytes) (lower : bytes -> bytes)
         (vq vu vn vl : variant) (dscheme dhost : bytes) (dport : option N) (line canon loc : bytes) (m target : bytes) (v : version) (u0 : ruri),
  server_target valid inet4 inet6 idna_dec idna_enc lower Repaired vq vu Repaired vn vl dscheme dhost dport line = Redirect301 canon loc ->
  req_parse Repaired line = RqTarget m target v ->
  target_parse valid inet4 inet6 idna_dec vq Repaired target = Ok u0 ->
  nonnil (lower (UriNorm.u_scheme u0)) = true -> nonnil (lower (UriNorm.u_host u0)) = true ->
  path_ok canon /\ canon <> STAR /\ canon <> [].
Proof. exact final_redirect_rooted. Qed.
Print Assumptions C06_redirect_rooted_partial.

Theorem C06_redirect_rooted_refuted :
  exists canon loc, ex_target (X "474554202f2e2e2f6120485454502f312e31") = Redirect301 canon loc /\ canon = X "61" /\ loc = X "61" /\ ~ path_ok canon.
Proof. exact witness_redirect_not_rooted. Qed.
Print Assumptions C06_redirect_rooted_refuted.

(* D55 repaired: the Location of the 301 is the normalised (dot-free, slash-run-free) path percent-encoded the way URI.compose
   writes a path -- encoded_path vq canon = "/".join(quote(segment, PATH)) -- whatever the path contains; nothing is parsed a
   second time.  For every instantiation of the callees and of the other variants. *)
Theorem C06_redirect_location :
  forall (valid : bytes -> bool) (inet4 inet6 idna_dec idna_enc : bytes -> option bytes) (lower : bytes -> bytes)
         (iv vq vu v7 vn : variant) (dscheme dhost : bytes) (dport : option N) (line canon loc : bytes),
  server_target valid inet4 inet6 idna_dec idna_enc lower iv vq vu v7 vn Repaired dscheme dhost dport line = Redirect301 canon loc ->
  loc = encoded_path vq canon /\ no_dot_seg canon = true /\ no_dslash canon = true /\
  exists m target v u0, req_parse iv line = RqTarget m target v /\
    target_parse valid inet4 inet6 idna_dec vq v7 target = Ok u0 /\
    canon = UriNorm.u_path (UriNorm.normalize lower vn u0) /\ canon <> UriNorm.u_path u0.
Proof. exact final_redirect_location. Qed.
Print Assumptions C06_redirect_location.

(* ... and the request a client sends when it follows that redirect -- any request line whose target is the Location, any
   method but CONNECT -- is NOT redirected again: it is delivered with exactly the canonical (decoded) path, the configured
   scheme and host and no query (or refused for its version / an unusable configured port).
   Partial: the canonical path begins with "/" (else D53), contains no ":" (D49: URI.parse reads "/a:b" as scheme "/a" and the
   follow-up request is refused, C06_redirect_follow_colon_refuted) and, on the pinned Percent.quote, no octet below 0x10 (D1: the
   one-digit escape is not decoded, C06_redirect_follow_low_octet_refuted).
   Callee hypotheses: the empty string is text and replacing "/" by "%2f" keeps a text a text (both proved for the UTF-8 decoder
   model of Lib/Utf8.v: C06_example_followed_hypotheses); the IDNA decoder and str.lower map "" to "".  That every segment of the
   canonical path is text is DERIVED from the first request (normalisation only drops, reorders and adds empty segments). *)
Theorem C06_redirect_followed_partial :
  forall (valid : bytes -> bool) (inet4 inet6 idna_dec idna_enc : bytes -> option bytes) (lower : bytes -> bytes)
         (iv vq vu v7 vn : variant) (dscheme dhost : bytes) (dport : option N) (line canon loc : bytes),
  valid [] = true -> (forall t, valid t = true -> valid (esc_slash t) = true) -> idna_dec [] = Some [] -> lower [] = [] ->
  server_target valid inet4 inet6 idna_dec idna_enc lower iv vq vu v7 vn Repaired dscheme dhost dport line = Redirect301 canon loc ->
  starts_slash canon = true ->
  contains UriSyntax.COLON canon = false ->
  Httoop.Proofs.UriSyntax.nl vq canon = true ->
  forall (line' m : bytes) (v : version),
  req_parse iv line' = RqTarget m loc v -> bytes_eqb m CONNECT = false ->
  match server_target valid inet4 inet6 idna_dec idna_enc lower iv vq vu v7 vn Repaired dscheme dhost dport line' with
  | Deliver u m' v' =>
      m' = m /\ v' = v /\ UriNorm.u_path u = canon /\ UriNorm.u_scheme u = dscheme /\ UriNorm.u_host u = dhost /\
      UriNorm.u_query u = [] /\ UriNorm.u_user u = [] /\ UriNorm.u_pass u = [] /\ UriNorm.u_frag u = []
  | V505 => ver_ltb SERVER_PROTOCOL v = true
  | Bad400 => exists q, dport = Some q /\ 65535 < q
  | Redirect301 _ _ | Escape => False
  end.
Proof. exact final_redirect_followed. Qed.
Print Assumptions C06_redirect_followed_partial.

Theorem C06_redirect_follow_colon_refuted :     (* GET /x/../a%3Ab -> 301 Location /a:b ; GET /a:b -> 400 *)
  ex_target (X "474554202f782f2e2e2f612533416220485454502f312e31") = Redirect301 (X "2f613a62") (X "2f613a62") /\
  ex_target (X "474554202f613a6220485454502f312e31") = Bad400.
Proof. exact witness_follow_colon. Qed.
Print Assumptions C06_redirect_follow_colon_refuted.

Theorem C06_redirect_follow_low_octet_refuted : (* GET /x/../%01 -> 301 Location /%1 ; GET /%1 -> delivered with the segment "%1" *)
  ex_target (X "474554202f782f2e2e2f25303120485454502f312e31") = Redirect301 (X "2f01") (X "2f2531") /\
  exists u, ex_target (X "474554202f253120485454502f312e31") = Deliver u (X "474554") (1, 1) /\
            UriNorm.u_path u = X "2f2531" /\ UriNorm.u_path u <> X "2f01".
Proof. exact witness_follow_low_octet. Qed.
Print Assumptions C06_redirect_follow_low_octet_refuted.

(* the behaviour before the repair (vl = AsFound), kept as a refutation of the as-found model: "GET /x/../%2561" was redirected
   to "/a" although the canonical path is "/%61" *)
Theorem C06_redirect_location_refuted :
  exists canon loc, ex_target_asfound (X "474554202f782f2e2e2f253235363120485454502f312e31") = Redirect301 canon loc /\
    canon = X "2f253631" /\ loc = X "2f61" /\ unquote loc <> canon.
Proof. exact witness_redirect_reparsed. Qed.
Print Assumptions C06_redirect_location_refuted.

(* ---- table-dependent facts, re-checked against the regenerated tables on every run ---- *)
Theorem C06_tables :
  forallb http_scheme ACCEPTED_SCHEMES = true /\ forallb http_scheme HTTP_SCHEMES = true /\
  REQ_URI_PORT = Some 80 /\ URI_BASE_PORT = None /\ (SCHEME_PORTS = URI_SCHEMES /\ BASE_PORT = URI_BASE_PORT) /\
  (IMPL_INTLIMIT = Repaired /\ URI_UNICODE_VARIANT = Repaired) /\
  HOSTPORT_PATTERN = X "5e282e2a3f29283f3a3a285c642b29293f24" /\
  RE_HOSTNAME_PATTERN = X "5e285b5e5c7830302d5c7831465c78374628295e5c27223c3e402c3b3a2f5c5b5c5d3d7b7d205c745c5c5c5c225d2b2924" /\
  (forallb (fun c => negb (inmask HOSTNAME_CLASS c))
          [x00; x09; x0a; x0d; x1f; x20; x22; x27; x28; x29; x2c; x2f; x3a; x3b; x3c; x3d; x3e; x40; x5b; x5c; x5d; x5e; x7b; x7d; x7f] = true /\
   forallb (fun c => implb (128 <=? bN c) (inmask HOSTNAME_CLASS c)) all_bytes = true /\
   forallb (inmask HOSTNAME_CLASS) [x61; x7a; x41; x5a; x30; x39; x2d; x2e; x5f; x7e] = true).
Proof.
  exact (conj accepted_are_http (conj http_based_are_http (conj req_uri_port_http (conj uri_base_port_none
        (conj registries_agree (conj impl_variants_repaired (conj hostport_pattern_pinned (conj re_hostname_pattern_pinned hostname_class_facts)))))))).
Qed.
Print Assumptions C06_tables.

(* ---- non-vacuity: the hypotheses are satisfiable and the model delivers / redirects on concrete callees
   (UTF-8 decoder of Lib/Utf8, no IP literals, identity IDNA, ASCII lower-casing; server http://localhost:8090) ---- *)
Example C06_example_deliver :   (* GET /b/c/%2fd?q=1 HTTP/1.1 + Host: Example.COM:8080 *)
  ex_head (X "474554202f622f632f253266643f713d3120485454502f312e31") (Some (X "4578616d706c652e434f4d3a38303830"))
  = FDeliver (U (Some 80) S_HTTP_ST [] [] (X "6578616d706c652e636f6d") (Some 8080) (X "2f622f632f25326664") (X "713d31") [])
             (X "474554") (1, 1).
Proof. exact ex_deliver. Qed.
Example C06_example_redirect :  (* GET /a/%2e%2E/b//c/./%2fd?q HTTP/1.1 -> 301, normalised path /b/c/%2fd *)
  ex_target (X "474554202f612f2532652532452f622f2f632f2e2f253266643f7120485454502f312e31")
  = Redirect301 (X "2f622f632f25326664") (X "2f622f632f253235326664").
Proof. exact ex_redirect. Qed.
Example C06_example_redirect_repaired :  (* GET /x/../%2561 -> 301 Location /%2561 (canonical path /%61); GET /%2561 is delivered with /%61 *)
  ex_target (X "474554202f782f2e2e2f253235363120485454502f312e31") = Redirect301 (X "2f253631") (X "2f2532353631") /\
  exists u, ex_target (X "474554202f253235363120485454502f312e31") = Deliver u (X "474554") (1, 1) /\ UriNorm.u_path u = X "2f253631".
Proof. exact ex_redirect_repaired. Qed.
Example C06_example_redirect_delims :    (* GET /x/../a%3Fb%23%C3%A4%20c -> 301 Location /a%3Fb%23%C3%A4%20c, followed: same path *)
  ex_target (X "474554202f782f2e2e2f61253346622532332543332541342532306320485454502f312e31")
  = Redirect301 (X "2f613f6223c3a42063") (X "2f612533466225323325433325413425323063") /\
  exists u, ex_target (X "474554202f61253346622532332543332541342532306320485454502f312e31") = Deliver u (X "474554") (1, 1) /\
            UriNorm.u_path u = X "2f613f6223c3a42063".
Proof. exact ex_redirect_delims. Qed.
Example C06_example_followed_hypotheses :
  utf8_valid [] = true /\ (forall t, utf8_valid t = true -> utf8_valid (esc_slash t) = true) /\ ex_id [] = Some [] /\ lower_ascii [] = [] /\
  starts_slash (X "2f253631") = true /\ contains UriSyntax.COLON (X "2f253631") = false /\ Httoop.Proofs.UriSyntax.nl AsFound (X "2f253631") = true.
Proof. exact ex_followed_hypotheses. Qed.
Example C06_example_hypotheses : lower_ascii [] = [] /\ http_scheme S_HTTP_ST = true /\ (forall h, ex_id h <> None).
Proof. exact ex_hypotheses. Qed.

(* ---- the headline: the model plugged into the parser state machine (Model/Parser.v).  For every callee record whose
   start-line callee and header hook are the ones modelled here, every stream and every way of cutting it into parse()
   calls: each delivered request went through request_head (its line, and the header block on_headers_complete saw) and
   therefore has a sanitised path, scheme http/https, no user information and no fragment; its host and port are
   described by C06_host_from_header / C06_host_absent applied to that request_head equation. ---- *)
Theorem C06_delivered_uri :
  forall (cfg : Parser.config) (C : Parser.callees)
         (valid : bytes -> bool) (inet4 inet6 idna_dec idna_enc : bytes -> option bytes) (lower : bytes -> bytes)
         (helem : bytes -> elres) (udigits : bytes -> option (option Z)) (iv vq vu v7 vn vl : variant)
         (dscheme dhost : bytes) (dport : option N) (frags : list bytes),
  ServerTargetParser.start_tied C valid inet4 inet6 idna_dec idna_enc lower iv vq vu v7 vn vl dscheme dhost dport ->
  ServerTargetParser.hdrs_tied C inet4 inet6 lower helem udigits ->
  http_scheme dscheme = true ->
  match ParserFraming.feed cfg C Parser.Server Parser.init frags with
  | (_, ms, _) =>
      Forall (fun m => exists h0 u mm v,
                request_head valid inet4 inet6 idna_dec idna_enc lower helem udigits iv vq vu v7 vn vl dscheme dhost dport
                             (Parser.m_line m) (Headers.hget Parser.K_HOST h0) = FDeliver u mm v /\ ServerTargetParser.uri_ok u) ms
  end.
Proof. exact ServerTargetParser.delivered_uri. Qed.
Print Assumptions C06_delivered_uri.

(* the two hypotheses are satisfiable: any callee record with the model plugged in *)
Theorem C06_plug_tied :
  forall (C : Parser.callees) (valid : bytes -> bool) (inet4 inet6 idna_dec idna_enc : bytes -> option bytes) (lower : bytes -> bytes)
         (helem : bytes -> elres) (udigits : bytes -> option (option Z)) (iv vq vu v7 vn vl : variant)
         (dscheme dhost : bytes) (dport : option N),
  let P := ServerTargetParser.plug C valid inet4 inet6 idna_dec idna_enc lower helem udigits iv vq vu v7 vn vl dscheme dhost dport in
  ServerTargetParser.start_tied P valid inet4 inet6 idna_dec idna_enc lower iv vq vu v7 vn vl dscheme dhost dport /\
  ServerTargetParser.hdrs_tied P inet4 inet6 lower helem udigits.
Proof. exact ServerTargetParser.plug_tied. Qed.
Print Assumptions C06_plug_tied.

(* C08 -- header collections are case-insensitive, order-preserving and round-trip; invalid field names are
   rejected on parse and on assignment.
   Only final statements here, each closed by [exact] and followed by Print Assumptions.
   Model: Model/Headers.v (collection, Headers.parse) + Model/HeadersApi.v (mapping interface as a state machine,
   compose, RFC 2047 values).  [step Repaired vew utitle dechdr] is the working tree after the D32 repair
   (HEADER_RE tested before title()); utitle (str.title on non-ASCII text) and dechdr (email.header.decode_header)
   are callees: every theorem holds for every instantiation. *)
From Coq Require Import Permutation.
From Httoop Require Import Lib.Bytes Lib.Split Lib.Variant Gen.HeadersT Gen.HeadersApiT
  Model.Headers Model.HeadersApi Proofs.HeadersApi.
Local Open Scope N_scope.

(* ---- clause 1: the same answer for a field name in any letter case ---- *)
(* the canonical stored name depends on the name only through its lower-cased form, and conversely *)
Theorem C08_canon_lower : forall k, canon (lower k) = canon k.
Proof. exact canon_lower. Qed.
Print Assumptions C08_canon_lower.

Theorem C08_canon_eq_iff_lower_eq : forall a b, canon a = canon b <-> lower a = lower b.
Proof. exact canon_eq_iff. Qed.
Print Assumptions C08_canon_eq_iff_lower_eq.

(* assignment, append, deletion, pop, membership, getbytes and get: same new collection, same result / exception,
   for two spellings of the key (bytes or str) that differ only in letter case *)
Theorem C08_case_insensitive : forall vew utitle dechdr h o1 o2, op_ci o1 o2 ->
  step Repaired vew utitle dechdr h o1 = step Repaired vew utitle dechdr h o2.
Proof. exact step_case_insensitive. Qed.
Print Assumptions C08_case_insensitive.
Example C08_case_insensitive_nonvacuous :
  op_ci (OSet (KB [x65; x54; x61; x47]) (VB [x31])) (OSet (KT [x45; x74; x41; x67]) (VB [x31])).
Proof. constructor. reflexivity. Qed.

(* ... and on the wire: lower-casing the field name of every header line (continuation lines untouched)
   does not change what Headers.parse does with the block, errors included *)
Theorem C08_parse_case_insensitive : forall ls h,
  hparse_lines h None (map lower_name_line ls) = hparse_lines h None ls.
Proof. exact parse_case_insensitive. Qed.
Print Assumptions C08_parse_case_insensitive.

(* ---- refinement: every operation sequence on the collection is simulated, result by result, by a reference
   map keyed by the lower-cased name that knows nothing of title-casing or the spelling table ---- *)
Theorem C08_ops_refine : forall vew utitle dechdr ops,
  let impl := run Repaired vew utitle dechdr [] ops in
  rrun vew dechdr [] ops = (abs (fst impl), snd impl).
Proof. exact run_refines. Qed.
Print Assumptions C08_ops_refine.

(* invariant of every reachable collection: stored names are canonical (hence pairwise different modulo case) *)
Theorem C08_reachable_canonical : forall vew utitle dechdr ops,
  canonicalb (fst (run Repaired vew utitle dechdr [] ops)) = true.
Proof. exact run_canonical. Qed.
Print Assumptions C08_reachable_canonical.

(* ---- clause 2: repeated fields on the wire are combined in arrival order with the separator of the field ---- *)
(* a block of header lines without continuation lines is the left fold of its (name, value) pairs ... *)
Theorem C08_parse_is_fold : forall l ls nv nvs h,
  parse_line l = Some nv ->
  Forall2 (fun l nv => starts_ws l = false /\ parse_line l = Some nv) ls nvs ->
  hparse_lines h None (l :: ls) = Some (commit_all h (nv :: nvs)).
Proof. exact hparse_lines_fold. Qed.
Print Assumptions C08_parse_is_fold.

(* ... and what is then stored under a name (looked up in any case) is the old value followed by the values of
   the lines carrying that name (in any case), in arrival order, joined by the separator of the field *)
Theorem C08_wire_order : forall k nvs h,
  hget (canon k) (commit_all h nvs) = combine_vals (join_sep k) (hget (canon k) h) (field_values k nvs).
Proof. exact wire_order. Qed.
Print Assumptions C08_wire_order.

Theorem C08_wire_order_fresh : forall k nvs,
  hget (canon k) (commit_all [] nvs) =
  match field_values k nvs with [] => None | vs => Some (join_with (join_sep k) vs) end.
Proof. exact wire_order_fresh. Qed.
Print Assumptions C08_wire_order_fresh.

(* Headers.parse as the message-parser model uses it (Model/Headers.v) is the state machine's parse step without the
   partial state a failing call leaves behind *)
Theorem C08_parse_models_agree : forall h d,
  hparse h d = let '(h', ok) := hparse_st h None (split_all CRLF d) in if ok then Some h' else None.
Proof. exact hparse_st_agree. Qed.
Print Assumptions C08_parse_models_agree.

(* ---- clause 3: serialising and parsing yields an equal collection ---- *)
(* bytes(h) is the block of lines plus the terminating empty line; the message parser cuts there *)
Theorem C08_compose_shape : forall h, hlines h <> [] -> hcompose h = hblock h ++ CRLF ++ CRLF.
Proof. exact hcompose_hblock. Qed.
Print Assumptions C08_compose_shape.

(* parse(compose h) = h in the order compose emits (priority, then name); wf_hdrs is boolean: valid canonical
   distinct names, values (elements of list-element fields) without CRLF and without leading/trailing whitespace,
   list-element fields in joined-canonical form *)
Theorem C08_roundtrip : forall h, wf_hdrs h = true -> hparse [] (hblock h) = Some (sort_items h).
Proof. exact compose_parse_roundtrip. Qed.
Print Assumptions C08_roundtrip.

(* i.e. an equal dict: same entries, same answer for every lookup *)
Theorem C08_roundtrip_equal_collection : forall h, wf_hdrs h = true ->
  exists h', hparse [] (hblock h) = Some h' /\ Permutation h h' /\ forall k, hget k h' = hget k h.
Proof. exact compose_parse_equal_collection. Qed.
Print Assumptions C08_roundtrip_equal_collection.

Example C08_roundtrip_nonvacuous :
  wf_hdrs [(X "5365742d436f6f6b6965", X "613d313b20657870697265733d225765642c203039204a756e2032303231222c20623d32");
           (X "486f7374", X "6578616d706c652e6f7267"); (X "582d41", X "78202279203b22"); (X "45546167", X "")] = true.
Proof. vm_compute. reflexivity. Qed.

(* ---- clause 4: names ---- *)
(* the regenerated HEADER_RE class is exactly the complement of the RFC 7230 token characters *)
Theorem C08_header_re_is_token_complement : forall c, negb (inmask HEADER_RE_BAD c) = is_tchar c.
Proof. exact header_re_is_tchar_complement. Qed.
Print Assumptions C08_header_re_is_token_complement.

(* accepted by assignment (any operation taking a key) <-> every octet of the name is a token character *)
Theorem C08_names_assign : forall utitle k,
  (exists ck, formatkey Repaired utitle k = Some ck) <-> forallb is_tchar (key_utf8 k) = true.
Proof. exact names_assign. Qed.
Print Assumptions C08_names_assign.

(* accepted on the wire as the name of a header line <-> every octet is a token character
   (a colon can never be part of a parsed name: the line is cut at its first colon) *)
Theorem C08_names_wire : forall u v,
  parse_line (u ++ COLON :: v) = Some (u, lstrip v) <-> forallb is_tchar u = true.
Proof. exact names_wire. Qed.
Print Assumptions C08_names_wire.

(* pinned tree before the D32 repair: HEADER_RE is tested after title(); with str.title() mapping U+017F (long s)
   to "S", the name <long s>et-cookie is accepted on assignment and stored as Set-Cookie *)
Theorem C08_names_asfound_refuted : forall utitle,
  utitle [xc5; xbf; x65; x74; x2d; x63; x6f; x6f; x6b; x69; x65] = [x53; x65; x74; x2d; x43; x6f; x6f; x6b; x69; x65] ->
  exists k ck, formatkey AsFound utitle k = Some ck /\ forallb is_tchar (key_utf8 k) = false.
Proof. exact names_asfound_refuted. Qed.
Print Assumptions C08_names_asfound_refuted.

(* observation recorded in DESIGN.md: the empty name is accepted on both sides *)
Example C08_empty_name_accepted : forall utitle,
  formatkey Repaired utitle (KB []) = Some [] /\ parse_line [COLON; x61] = Some ([], [x61]).
Proof. intros; split; reflexivity. Qed.

(* ---- text values (RFC 2047, concrete base64) ---- *)
(* text outside Latin-1: sent as one base64 word of its UTF-8, read back exactly (repaired guard, D15) *)
Theorem C08_value_roundtrip_unicode : forall dechdr t u, is_latin1 t = false -> utf8_enc t = Some u ->
  exists raw, encode_rfc2047 t = Some raw /\ decode_rfc2047 Repaired dechdr raw = Some u.
Proof. exact value_roundtrip_unicode. Qed.
Print Assumptions C08_value_roundtrip_unicode.
Example C08_value_roundtrip_unicode_nonvacuous : is_latin1 [0x61; 0x20AC] = false /\ utf8_enc [0x61; 0x20AC] = Some (X "61e282ac").
Proof. split; vm_compute; reflexivity. Qed.

(* Latin-1 text: sent raw, read back unless it looks like an encoded word itself (finding D16); either guard *)
Theorem C08_value_roundtrip_latin1_partial : forall dechdr v t,
  is_latin1 t = true -> looks_encoded v (latin1_enc t) = false ->
  encode_rfc2047 t = Some (latin1_enc t) /\ decode_rfc2047 v dechdr (latin1_enc t) = utf8_enc t.
Proof. exact value_roundtrip_latin1. Qed.
Print Assumptions C08_value_roundtrip_latin1_partial.
Example C08_value_roundtrip_latin1_nonvacuous :
  is_latin1 [0xe9; 0x3d; 0x3f; 0x20] = true /\ looks_encoded Repaired (latin1_enc [0xe9; 0x3d; 0x3d; 0x3f; 0x20]) = false.
Proof. split; vm_compute; reflexivity. Qed.

Theorem C08_value_latin1_refuted : forall dechdr,
  exists t, is_latin1 t = true /\ encode_rfc2047 t = Some (latin1_enc t) /\
    decode_rfc2047 Repaired dechdr (latin1_enc t) <> utf8_enc t.
Proof. exact value_roundtrip_latin1_refuted. Qed.
Print Assumptions C08_value_latin1_refuted.

(* pinned tree before the D15 repair: words whose base64 ends in "==" are not decoded *)
Theorem C08_value_asfound_refuted : forall dechdr,
  exists t u raw, is_latin1 t = false /\ utf8_enc t = Some u /\ encode_rfc2047 t = Some raw /\
    decode_rfc2047 AsFound dechdr raw <> Some u.
Proof. exact value_roundtrip_asfound_refuted. Qed.
Print Assumptions C08_value_asfound_refuted.

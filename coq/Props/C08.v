(* C08 -- placeholder while the model is validated; replaced by the final statements *)
From Httoop Require Import Lib.Bytes Model.Headers Model.HeadersApi.
Theorem C08_placeholder : forall h : hdrs, h = h.
Proof. reflexivity. Qed.
Print Assumptions C08_placeholder.

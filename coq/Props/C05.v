(* C05 -- composed output is a well-framed message whose framing headers tell the truth; composing is repeatable
   and non-destructive.  Final statements only, each closed by [exact] and followed by Print Assumptions.

   Models: Model/Composer.v (composer, tied to /repo by T1/T2/T3) and Model/Http1Reader.v (an independent reading
   of RFC 7230 section 3, used only to state the property).  Every theorem holds for EVERY instantiation of the
   callees [C] (zlib/gzip coders, Element.split of list-valued fields, codec lookup), for both variants [vc] of the
   content-coding loop (per piece = pinned tree, whole content = repair D42) and all messages of the model.
   [lsplit_clean C] says that splitting a list-valued field value that is free of CR/LF yields pieces free of CR/LF. *)
From Httoop Require Import Model.Composer Model.Http1Reader Proofs.ComposerNum Proofs.ComposerHdrs Proofs.ComposerBody
  Proofs.ComposerFraming Proofs.ComposerRepeat.
Local Open Scope N_scope.

(* T1 obligations about the regenerated tables *)
Theorem C05_block_size_positive : exists m, N.to_nat MAX_CHUNK_SIZE = S m.
Proof. exact max_chunk_pos. Qed.
Print Assumptions C05_block_size_positive.
Theorem C05_bodiless_statuses_are_dropped : forall code, code_ok code = true -> rfc_bodiless_status code = true -> no_body_status code = true.
Proof. exact bodiless_dropped. Qed.
Print Assumptions C05_bodiless_statuses_are_dropped.
Theorem C05_status_tables : forall code ks, assoc_N code STATUS_REMOVE = Some ks ->
  mem_bytes H_TE ks = false /\ (mem_bytes H_CL ks = true -> rfc_bodiless_status code = true).
Proof. exact status_remove_facts. Qed.
Print Assumptions C05_status_tables.

(* number printing: the independent reader's 1*DIGIT / 1*HEXDIG invert b'%d' / b'%x' for every number *)
Theorem C05_decimal_roundtrip : forall n, rd_dec (dec_print n) = Some n.
Proof. exact rd_dec_print. Qed.
Print Assumptions C05_decimal_roundtrip.
Theorem C05_hex_roundtrip : forall n, rd_hex (hex_print n) = Some n.
Proof. exact rd_hex_print. Qed.
Print Assumptions C05_hex_roundtrip.

(* the content is cut into blocks without loss, and an iteration leaves every kind of source yielding the same pieces *)
Theorem C05_blocks_concat : forall c, concat_bytes (blocks c) = c.
Proof. exact blocks_concat. Qed.
Print Assumptions C05_blocks_concat.
Theorem C05_iteration_nondestructive : forall s, src_ok s = true ->
  src_pieces (src_after s) = src_pieces s /\ src_after (src_after s) = src_after s /\ src_ok (src_after s) = true.
Proof. exact (fun s H => conj (src_after_pieces s H) (conj (src_after_after s) (src_after_ok s))). Qed.
Print Assumptions C05_iteration_nondestructive.
Theorem C05_len_is_content_length : forall s, src_len s = (blen (src_content s), src_after s).
Proof. exact src_len_spec. Qed.
Print Assumptions C05_len_is_content_length.

(* ---- clause 1, requests: FULL.  The octets composed for a prepared request are exactly one RFC 7230 message: the
   request line, fields, then Content-Length = number of body octets, or a complete chunked body, or (empty content)
   no body; the framed payload is the coded content (the content itself without coding; nothing for GET/HEAD/SEARCH).
   [req_ok] = API preconditions (token method, visible target, one-digit version, token field names, values free of
   CR/LF) and the exclusion of the known findings D43 (coding without chunked framing) and D46 (caller-set Content-Length). *)
Theorem C05_request_framing : forall (C : ccallees) (vc : variant) (now : bytes) (q q' : request),
  lsplit_clean C -> req_ok q = true -> rd_no_crlf now = true -> q_prepare now q = Some q' ->
  exists fr, framed_as true false (fst (q_compose C vc q'))
    (q_method q ++ SP :: q_target q ++ SP :: StartLine.proto_compose (q_version q)) fr (q_content C vc q).
Proof. exact (fun C vc now q q' HC => request_framing C HC vc now q q'). Qed.
Print Assumptions C05_request_framing.
Theorem C05_framed_is_wellformed : forall is_req bodiless d start fr pl, framed_as is_req bodiless d start fr pl -> wf_http1 is_req bodiless d pl.
Proof. exact framed_wf. Qed.
Print Assumptions C05_framed_is_wellformed.
Example C05_req_ok_nonvacuous :
  req_ok {| q_method := X "504f5354"; q_target := X "2f61253230623f6b3d76"; q_host := Some (X "6578616d706c652e636f6d"); q_version := (1, 1);
            q_hdrs := [(X "582d41", X "61e4"); (H_TE, TE_CHUNKED); (X "5365742d436f6f6b6965", X "613d622c20633d64")];
            q_body := {| b_src := SGen [X "6162"; []; X "6364"] []; b_chunked := true; b_codec := Some 1; b_ctype := X "746578742f706c61696e"; b_trailer := [(X "582d54", X "7476")] |} |} = true.
Proof. vm_compute. reflexivity. Qed.

(* ---- clause 1, responses.  [bodiless] = RFC 7230 3.3.3 rule 1 (response to HEAD, 1xx, 204, 304): no octet may follow
   the header section.  FULL for the repaired behaviour (D29); for the pinned tree the bodiless x chunked case is excluded
   (partial) and refuted by a witness.  [v59] = behaviour towards a content codec left on the Body object by an earlier prepare of the
   same message (finding D59): [resp_ok AsFound] demands that the Body carries a codec only when the Content-Encoding field is present
   (partial, refuted by a witness below); [resp_ok Repaired] admits every codec state (prepare resets it when the field is absent). *)
Theorem C05_response_framing : forall (C : ccallees) (v59 vc : variant) (now : bytes) (r r' : response),
  lsplit_clean C -> resp_ok v59 r = true -> rd_no_crlf now = true -> r_prepare C v59 Repaired now r = Some r' ->
  let bodiless := r_bodiless (r_code r) (r_rmethod r) in
  exists fr, framed_as false bodiless (fst (r_compose C vc r'))
    (StartLine.proto_compose (r_version r) ++ SP :: StartLine.print_dec (r_code r) ++ SP :: r_reason r) fr
    (if bodiless then [] else concat_bytes (encode_pieces C vc (b_codec (r_body r')) (r_sent_pieces r))) /\
    (fr <> FChunked -> bodiless = false -> b_codec (r_body r') = None).
Proof. intros C v59 vc now r r' HC Hok Hn Hp. exact (response_framing C HC v59 Repaired vc now r r' Hok Hn Hp (or_introl eq_refl)). Qed.
Print Assumptions C05_response_framing.
Theorem C05_response_framing_asfound_partial : forall (C : ccallees) (v59 vc : variant) (now : bytes) (r r' : response),
  lsplit_clean C -> resp_ok v59 r = true -> rd_no_crlf now = true -> r_prepare C v59 AsFound now r = Some r' ->
  let bodiless := r_bodiless (r_code r) (r_rmethod r) in
  (bodiless = false \/ hmem H_TE (r_hdrs r') = false) ->
  exists fr, framed_as false bodiless (fst (r_compose C vc r'))
    (StartLine.proto_compose (r_version r) ++ SP :: StartLine.print_dec (r_code r) ++ SP :: r_reason r) fr
    (if bodiless then [] else concat_bytes (encode_pieces C vc (b_codec (r_body r')) (r_sent_pieces r))) /\
    (fr <> FChunked -> bodiless = false -> b_codec (r_body r') = None).
Proof. intros C v59 vc now r r' HC Hok Hn Hp bodiless Hv. exact (response_framing C HC v59 AsFound vc now r r' Hok Hn Hp (or_intror Hv)). Qed.
Print Assumptions C05_response_framing_asfound_partial.
Theorem C05_head_chunked_refuted :
  resp_ok AsFound D29_response = true /\
  exists r', r_prepare C_plain AsFound AsFound D29_now D29_response = Some r' /\
             forall pl, ~ wf_http1 false true (fst (r_compose C_plain AsFound r')) pl.
Proof. exact head_chunked_refuted. Qed.
Print Assumptions C05_head_chunked_refuted.
(* finding D59 on the tree as found: without the codec precondition the framing theorem is false.  The Body object still carries the
   codec of an earlier use, the header collection has no Content-Encoding: prepare announces Content-Length 6 (the content), compose
   sends the coded stream - not one well-formed message.  After the repair the same object composes to a well-framed message. *)
Theorem C05_stale_coding_refuted :
  resp_ok Repaired D59_response = true /\ resp_ok AsFound D59_response = false /\
  exists r', r_prepare C_mark AsFound Repaired D29_now D59_response = Some r' /\
             hget H_CL (r_hdrs r') = Some (X "36") /\ hget H_CE (r_hdrs r') = None /\ b_codec (r_body r') = Some 1 /\
             forall pl, ~ wf_http1 false false (fst (r_compose C_mark AsFound r')) pl.
Proof. exact stale_coding_refuted. Qed.
Print Assumptions C05_stale_coding_refuted.
Theorem C05_stale_coding_repaired_example :
  exists r', r_prepare C_mark Repaired Repaired D29_now D59_response = Some r' /\ b_codec (r_body r') = None /\
             wf_http1 false false (fst (r_compose C_mark AsFound r')) (X "7365636f6e64").
Proof. exact stale_coding_repaired_example. Qed.
Print Assumptions C05_stale_coding_repaired_example.
Example C05_resp_ok_nonvacuous :
  resp_ok AsFound {| r_version := (1, 0); r_code := 404; r_reason := X "4e6f7420466f756e64"; r_rmethod := X "474554";
             r_hdrs := [(H_CE, X "677a6970"); (X "45546167", X "2261bf22")];
             r_body := {| b_src := SFile (X "68656c6c6f") 3; b_chunked := false; b_codec := None; b_ctype := X "746578742f706c61696e"; b_trailer := [] |} |} = true.
Proof. vm_compute. reflexivity. Qed.
(* the framing found by the reader is the one the header fields announce, and never both *)
Theorem C05_never_both : forall h fr, hframing h fr ->
  (fr = FChunked -> hget H_CL h = None) /\ (forall n, fr = FLength n -> hget H_TE h = None).
Proof. exact hframing_never_both. Qed.
Print Assumptions C05_never_both.

(* ---- clause 2: repeatable and non-destructive ---- *)
(* composing only replaces the body source by its normal form (a generator by the list of what it produced, positions
   restored), and composing the result again gives the same octets: for every constructor of the body source *)
Theorem C05_compose_nondestructive : forall (C : ccallees) (vc : variant) (b : body), src_ok (b_src b) = true ->
  snd (body_iter C vc b) = settle_body b /\ fst (body_iter C vc (settle_body b)) = fst (body_iter C vc b) /\
  settle_body (settle_body b) = settle_body b.
Proof. exact (fun C vc b H => conj (body_iter_settle C vc b) (conj (body_iter_again C vc b H) (settle_body_idem b))). Qed.
Print Assumptions C05_compose_nondestructive.
(* requests, FULL: prepare is idempotent (state equality, for one clock value) ... *)
Theorem C05_request_prepare_idempotent : forall now q q1, te_simple (q_hdrs q) = true -> src_ok (b_src (q_body q)) = true ->
  q_prepare now q = Some q1 -> q_prepare now q1 = Some q1.
Proof. exact q_prepare_idem. Qed.
Print Assumptions C05_request_prepare_idempotent.
(* ... and after the first prepare EVERY sequence of prepare / compose operations succeeds and every compose in it
   emits the same octets (induction on the operation list) *)
Theorem C05_request_repeatable : forall (C : ccallees) (vc : variant) (now : bytes) (q q1 : request),
  te_simple (q_hdrs q) = true -> src_ok (b_src (q_body q)) = true -> q_prepare now q = Some q1 ->
  forall ops, exists outs qf, q_run C vc now q1 ops = Some (outs, qf) /\
    Forall (fun o => o = fst (q_compose C vc q1)) outs /\ (qf = q1 \/ qf = settle_q q1).
Proof. intros C vc now q q1 Ht Hs Hp ops. exact (q_repeatable C vc now q q1 Ht Hs Hp ops q1 (or_introl eq_refl)). Qed.
Print Assumptions C05_request_repeatable.
(* the Date value is the only place where the clock enters a prepared request: it is set only when absent *)
(* responses: composing any number of times gives the same octets (FULL for compose-only sequences) *)
Theorem C05_response_compose_repeatable : forall (C : ccallees) (vc : variant) (r : response), src_ok (b_src (r_body r)) = true ->
  forall k, Forall (fun o => o = fst (r_compose C vc r)) (fst (r_compose_n C vc k r)) /\
            (snd (r_compose_n C vc k r) = r \/ snd (r_compose_n C vc k r) = settle_r r).
Proof. exact r_compose_repeatable. Qed.
Print Assumptions C05_response_compose_repeatable.

(* C05 -- placeholder while the composer model is being validated; theorems follow *)
From Httoop Require Import Model.Composer.
Theorem C05_placeholder : EMPTY_SRC = EMPTY_SRC.
Proof. exact eq_refl. Qed.
Print Assumptions C05_placeholder.

(* C01 -- parser results do not depend on how the byte stream is fragmented.
   Final statements only (closed by [exact]); every theorem holds for EVERY callee record (start-line /
   URI parser, header-semantics hooks, content decoder, RFC 2047 decoder, Trailer element parser) and for
   both state machines. *)
From Coq Require Import ZArith.
From Httoop Require Import Model.Parser Proofs.ParserFuel Proofs.ParserFrag Proofs.ParserSim Proofs.ParserBridge Proofs.Http1ReaderP Proofs.ParserQuiet Corr.Parser.

(* [real] is the implementation's machine.  [reference] has its three buffer-dependent shortcuts switched
   off: no bare-LF line-end fallback (finding D14), no 411 peek at the octets behind a message (D13), header
   sections parsed when complete (not line-wise as they arrive, D34); [eager_reference] keeps the line-wise
   header parsing. *)

(* Part A (unconditional; all streams incl. truncated and hostile ones, all 2^(n-1) fragmentations):
   completed messages, first error and -- when there is no error -- the whole final state of the reference
   machine are a function of the concatenated stream alone; any fragmentation equals the single call. *)
Theorem C01_reference_fragmentation_independent :
  forall (C : callees) (k : kind) (frags1 frags2 : list bytes),
  concat_bytes frags1 = concat_bytes frags2 ->
  run_keep reference C k init frags1 = run_keep reference C k init frags2.
Proof. intros C k. exact (fragmentation_independent reference C k eq_refl eq_refl eq_refl). Qed.
Print Assumptions C01_reference_fragmentation_independent.

Theorem C01_reference_equals_one_call :
  forall (C : callees) (k : kind) (frags : list bytes),
  run_keep reference C k init frags = parse reference C k init (concat_bytes frags).
Proof.
  intros C k frags. apply (run_keep_is_one_call reference C k eq_refl eq_refl eq_refl); [apply init_quiescent | exact I | exact I].
Qed.
Print Assumptions C01_reference_equals_one_call.

(* Part B: line-wise header parsing simulates the reference machine: same completed messages, same error --
   or it has refused an invalid header line (400) while the reference machine can only keep waiting inside
   that header section or refuse it the same way ([doomed]). *)
Theorem C01_eager_simulates_reference :
  forall (C : callees) (k : kind) (frags : list bytes),
  match run_keep reference C k init frags with
  | (_, ms, Some e) => run_keep eager_reference C k init frags = (init, ms, Some e)
  | (sl', ms, None) => (exists se', run_keep eager_reference C k init frags = (se', ms, None) /\ Rst se' sl') \/
                       (run_keep eager_reference C k init frags = (init, ms, Some (EHttp 400)) /\ doomed sl')
  end.
Proof. intros C k frags. apply run_sim; [reflexivity | exact I | exact I]. Qed.
Print Assumptions C01_eager_simulates_reference.

(* Part C = the property for the implementation's machine, on runs in which it never selects the bare-LF
   line end and never raises the 411 peek (quiet_run: computable, and compared with the implementation's own
   flags in every correspondence run).  frag_equiv: same completed messages; same first error, or one run
   has already refused an invalid header line while the other still waits inside that unfinished header
   section (finding D34, truncated streams only); no error and no message in progress => same octets left. *)
Theorem C01_fragmentation_partial :
  forall (C : callees) (k : kind) (frags1 frags2 : list bytes),
  concat_bytes frags1 = concat_bytes frags2 ->
  quiet_run C k init frags1 = true -> quiet_run C k init frags2 = true ->
  frag_equiv (run_keep real C k init frags1) (run_keep real C k init frags2).
Proof. exact real_fragmentation. Qed.
Print Assumptions C01_fragmentation_partial.

(* the only permitted difference: the erroring call hands out nothing *)
(* THE CLIENT MACHINE AS IMPLEMENTED, NO HYPOTHESIS ABOUT THE RUN.  The 411 peek exists on the server side only, so the
   client machine has one buffer-dependent shortcut, the bare-LF fallback; it can only fire when the buffer of an idle
   machine holds an LF but no CRLF.  If the stream is one that the reference machine parses completely into messages
   whose start lines contain no LF, that never happens - on any fragmentation - and the machine as implemented
   delivers exactly what one call on the whole stream delivers.  (Proofs/ParserQuiet.v: the reference machine's states
   are tracked semantically, by what they still deliver; fragment independence preserves that for free.) *)
Theorem C01_client_quiet : forall (C : callees) (wire : bytes) (ms : list msg) (frags : list bytes),
  parse reference C Client init wire = (init, ms, None) -> Forall (fun m => no_lf (m_line m) = true) ms ->
  concat_bytes frags = wire -> quiet_run C Client init frags = true.
Proof. exact client_quiet. Qed.
Print Assumptions C01_client_quiet.

Theorem C01_client_any_fragmentation : forall (C : callees) (wire : bytes) (ms : list msg) (frags : list bytes),
  parse reference C Client init wire = (init, ms, None) -> Forall (fun m => no_lf (m_line m) = true) ms ->
  concat_bytes frags = wire -> run_keep real C Client init frags = (init, ms, None).
Proof. exact client_any_fragmentation. Qed.
Print Assumptions C01_client_any_fragmentation.

(* THE SERVER MACHINE AS IMPLEMENTED.  Its second shortcut, the 411 peek, fires only for a message whose header section has
   neither Content-Length nor (under HTTP/1.1) Transfer-Encoding.  If the header hook of the run accepts framed header
   sections only ([framed_h]; for the recorded table of a concrete run this is a finite check, and it is the policy of
   a server that answers 411 to unframed requests), the same conclusion holds for the server, on every fragmentation. *)
Theorem C01_server_quiet : forall (C : callees) (wire : bytes) (ms : list msg) (frags : list bytes),
  (forall p h, c_hdrs C p h = HOk -> framed_h p h = true) ->
  parse reference C Server init wire = (init, ms, None) -> Forall (fun m => no_lf (m_line m) = true) ms ->
  concat_bytes frags = wire -> quiet_run C Server init frags = true.
Proof. exact server_quiet. Qed.
Print Assumptions C01_server_quiet.

Theorem C01_server_any_fragmentation : forall (C : callees) (wire : bytes) (ms : list msg) (frags : list bytes),
  (forall p h, c_hdrs C p h = HOk -> framed_h p h = true) ->
  parse reference C Server init wire = (init, ms, None) -> Forall (fun m => no_lf (m_line m) = true) ms ->
  concat_bytes frags = wire -> run_keep real C Server init frags = (init, ms, None).
Proof. exact server_any_fragmentation. Qed.
Print Assumptions C01_server_any_fragmentation.

(* EITHER machine, ONE message with nothing behind it: the 411 peek needs octets behind a completed message, so even an unframed
   request (a GET without Content-Length) is delivered identically under every fragmentation by the machine as implemented *)
Theorem C01_single_message_any_fragmentation : forall (C : callees) (k : kind) (wire : bytes) (m : msg) (frags : list bytes),
  parse reference C k init wire = (init, [m], None) -> no_lf (m_line m) = true ->
  concat_bytes frags = wire -> run_keep real C k init frags = (init, [m], None).
Proof. exact single_message_any_fragmentation. Qed.
Print Assumptions C01_single_message_any_fragmentation.

(* the form in which the other properties use it: whatever ONE call on the whole stream delivers while ending idle, every
   fragmentation delivers - on the reference machine always, on the machine as implemented on every quiet run *)
Theorem C01_whole_call_any_fragmentation : forall (C : callees) (k : kind) (wire : bytes) (ms : list msg) (frags : list bytes),
  parse reference C k init wire = (init, ms, None) -> concat_bytes frags = wire ->
  run_keep reference C k init frags = (init, ms, None) /\
  (quiet_run C k init frags = true -> run_keep real C k init frags = (init, ms, None)).
Proof. exact whole_call_any_fragmentation. Qed.
Print Assumptions C01_whole_call_any_fragmentation.

Theorem C01_handed_out :
  forall (C : callees) (k : kind) (cfg : config) (frags : list bytes) (s : pstate),
  let '(s1, handed, e1) := ParserFraming.feed cfg C k s frags in
  let '(s2, completed, e2) := run_keep cfg C k s frags in
  e1 = e2 /\ (e1 = None -> handed = completed /\ s1 = s2) /\ exists dropped, completed = handed ++ dropped.
Proof. intros C k cfg frags s. exact (feed_vs_keep C k cfg frags s). Qed.
Print Assumptions C01_handed_out.

(* ---------- witnesses: the three side conditions are necessary (known findings), and the hypotheses are satisfiable ---------- *)
Definition GETL := X "474554202f20485454502f312e31".
Definition T : tables := {|
  t_start := [(GETL, SlOk {| p11 := true; nobody := true |}); (X "474554202f20485454502f312e310a486f73743a2078", SlErr 400);
              (X "504f5354202f20485454502f312e31", SlOk {| p11 := true; nobody := false |})];
  t_hdrs := [((true, [(X "486f7374", X "78")]), HOk);
             ((true, [(X "486f7374", X "78"); (X "5472616e736665722d456e636f64696e67", X "6368756e6b6564")]), HOk)];
  t_decode := []; t_2047 := []; t_trailer := []; t_connect := [] |}.
Definition per_octet (l : bytes) : list bytes := map (fun c => [c]) l.
Definition res (r : pstate * list msg * option err) := let '(s, ms, e) := r in (length ms, e).

Definition S_LF := X "474554202f20485454502f312e310a486f73743a20780d0a0d0a".
Theorem C01_lf_refuted : res (run_keep real (callees_of T) Server init [S_LF]) <> res (run_keep real (callees_of T) Server init (per_octet S_LF)).
Proof. vm_compute. discriminate. Qed.

Definition S_411 := X "474554202f20485454502f312e310d0a486f73743a20780d0a0d0a474554202f20485454502f312e310d0a486f73743a20780d0a0d0a".
Theorem C01_411_refuted : res (run_keep real (callees_of T) Server init [S_411]) <> res (run_keep real (callees_of T) Server init (per_octet S_411)).
Proof. vm_compute. discriminate. Qed.

Definition S_34 := X "474554202f20485454502f312e310d0a4261640d0a580d0a2059".
Theorem C01_truncated_header_refuted :
  res (run_keep eager_reference (callees_of T) Server init [S_34]) <> res (run_keep eager_reference (callees_of T) Server init [firstn 22 S_34; skipn 22 S_34]).
Proof. vm_compute. discriminate. Qed.

(* a pipelined chunked POST + GET, whole and cut inside a chunk: both runs are quiet and deliver two messages *)
Definition S_OK := X "504f5354202f20485454502f312e310d0a486f73743a20780d0a5472616e736665722d456e636f64696e673a206368756e6b65640d0a0d0a330d0a6162630d0a300d0a0d0a474554202f20485454502f312e310d0a486f73743a20780d0a0d0a".
Example C01_hypotheses_satisfiable :
  quiet_run (callees_of T) Server init [S_OK] = true /\ quiet_run (callees_of T) Server init [firstn 70 S_OK; skipn 70 S_OK] = true /\
  res (run_keep real (callees_of T) Server init [firstn 70 S_OK; skipn 70 S_OK]) = (2%nat, None).
Proof. vm_compute. auto. Qed.

(* non-vacuity of the server statement: a hook that answers 411 to every unframed header section, and a pipelined chunked POST +
   Content-Length POST; the conclusion for the per-octet feeding follows from the theorem, not from evaluation *)
Definition C_strict : callees := {|
  c_start := c_start (callees_of T);
  c_hdrs := fun p h => if framed_h p h then HOk else HErr 411;
  c_decode := c_decode (callees_of T); c_2047 := c_2047 (callees_of T); c_trailer := c_trailer (callees_of T);
  c_connect := fun _ => false |}.
Definition S_2P := X "504f5354202f20485454502f312e310d0a486f73743a20780d0a5472616e736665722d456e636f64696e673a206368756e6b65640d0a0d0a330d0a6162630d0a300d0a0d0a504f5354202f20485454502f312e310d0a486f73743a20780d0a436f6e74656e742d4c656e6774683a20320d0a0d0a6162".
Example C01_server_example :
  (forall p h, c_hdrs C_strict p h = HOk -> framed_h p h = true) /\
  (exists ms, parse reference C_strict Server init S_2P = (init, ms, None) /\ length ms = 2%nat /\
     run_keep real C_strict Server init (per_octet S_2P) = (init, ms, None)).
Proof.
  assert (Hfr : forall p h, c_hdrs C_strict p h = HOk -> framed_h p h = true).
  { intros p h. cbn [c_hdrs C_strict]. destruct (framed_h p h); [reflexivity | discriminate]. }
  split; [exact Hfr|].
  assert (PE : exists ms, parse reference C_strict Server init S_2P = (init, ms, None)) by (eexists; vm_compute; reflexivity).
  destruct PE as [ms P].
  assert (Q : match parse reference C_strict Server init S_2P with (_, m, _) => length m = 2%nat /\ forallb (fun x => no_lf (m_line x)) m = true end)
    by (vm_compute; split; reflexivity).
  rewrite P in Q. destruct Q as [Q2 Q3]. exists ms. split; [exact P|]. split; [exact Q2|].
  apply (C01_server_any_fragmentation C_strict S_2P ms (per_octet S_2P) Hfr P).
  - apply Forall_forall. intros m Hm. rewrite forallb_forall in Q3. exact (Q3 m Hm).
  - unfold per_octet. clear. induction S_2P as [|c l IH]; [reflexivity|]. cbn [map concat_bytes app]. rewrite IH. reflexivity.
Qed.


(* C01 -- parser results do not depend on how the byte stream is fragmented.
   Final statements only (closed by [exact]); for EVERY callee record and both state machines. *)
From Coq Require Import ZArith.
From Httoop Require Import Model.Parser Proofs.ParserFrag Corr.Parser.

(* The reference machine: the implementation's state machine with its three buffer-dependent shortcuts
   switched off -- no bare-LF line-end fallback (finding D14), no 411 peek at the octets behind a message
   (D13), header sections parsed when complete instead of line-wise as they arrive (D34). *)
Definition ref_cfg : config := reference.

(* Part A (unconditional, all streams incl. truncated / hostile ones, all 2^(n-1) fragmentations):
   the messages completed, the first error, and -- when there is no error -- the whole final state
   (octets left over and the message in progress) of the reference machine are a function of the
   concatenated stream alone. *)
Theorem C01_reference_fragmentation_independent :
  forall (C : callees) (k : kind) (frags1 frags2 : list bytes),
  concat_bytes frags1 = concat_bytes frags2 ->
  run_keep ref_cfg C k init frags1 = run_keep ref_cfg C k init frags2.
Proof. intros C k. exact (fragmentation_independent ref_cfg C k eq_refl eq_refl eq_refl). Qed.
Print Assumptions C01_reference_fragmentation_independent.

(* any fragmentation equals the single call with everything *)
Theorem C01_reference_equals_one_call :
  forall (C : callees) (k : kind) (frags : list bytes),
  run_keep ref_cfg C k init frags = parse ref_cfg C k init (concat_bytes frags).
Proof.
  intros C k frags. apply (run_keep_is_one_call ref_cfg C k eq_refl eq_refl eq_refl).
  - apply init_quiescent.
  - exact I.
  - exact I.
Qed.
Print Assumptions C01_reference_equals_one_call.

(* the step lemma everything rests on: feeding a ++ b in one call = feeding a, then b *)
Theorem C01_parse_app :
  forall (C : callees) (k : kind) s a b, ParserFuel.wf_st s -> crlf_st s ->
  parse ref_cfg C k s (a ++ b) =
  match parse ref_cfg C k s a with
  | (s1, m1, None) => let '(s2, m2, e) := parse ref_cfg C k s1 b in (s2, m1 ++ m2, e)
  | (_, m1, Some e) => (init, m1, Some e)
  end.
Proof. intros C k. exact (parse_app ref_cfg C k eq_refl eq_refl eq_refl). Qed.
Print Assumptions C01_parse_app.

(* non-vacuity: a pipelined chunked request + a GET, cut in the middle of a chunk, on the reference machine *)
Definition ex_tables : tables := {|
  t_start := [(X "504f5354202f20485454502f312e31", SlOk {| p11 := true; nobody := false |});
              (X "474554202f20485454502f312e31", SlOk {| p11 := true; nobody := true |})];
  t_hdrs := [((true, [(X "486f7374", X "78"); (X "5472616e736665722d456e636f64696e67", X "6368756e6b6564")]), HOk);
             ((true, [(X "486f7374", X "78")]), HOk)];
  t_decode := []; t_2047 := []; t_trailer := [] |}.
Definition ex_stream := X "504f5354202f20485454502f312e310d0a486f73743a20780d0a5472616e736665722d456e636f64696e673a206368756e6b65640d0a0d0a330d0a6162630d0a300d0a0d0a474554202f20485454502f312e310d0a486f73743a20780d0a0d0a".
Example C01_example :
  (let '(_, ms, e) := run_keep ref_cfg (callees_of ex_tables) Server init [firstn 70 ex_stream; skipn 70 ex_stream] in (length ms, e))
  = (2%nat, None).
Proof. vm_compute. reflexivity. Qed.

(* C10 -- A URI built from components composes and parses back to the same components.
   Only final statements here, each closed by [exact] and followed by Print Assumptions.

   The model (Model/UriSyntax.v) follows URI.parse / URI.compose / the setters branch by branch; text is
   represented by its UTF-8 octets.  Every theorem is universally quantified over the callees the model does
   not contain: [valid] (bytes.decode('UTF-8') succeeds), [inet4]/[inet6] (inet_ntop . inet_pton), [idna_dec]/
   [idna_enc] (the IDNA codec), and over the three variants
     vq : escape width of Percent.quote (AsFound = "%X", finding D1),
     vu : ':' in the safe set of the user name (AsFound = finding D18),
     v7 : what an undecodable escape raises (irrelevant for these theorems).
   [wf] is a boolean predicate on the component tuple (definition in Proofs/UriSyntax.v): scheme over
   [a-z0-9+.-], components are text, the host's wire form is a syntactically valid host that decodes back to
   the host, port <= 65535, path empty or absolute, names of query pairs non-empty -- and the complement of the
   known findings: a password only with a user name (D19), no "://" in the path (D30), no C0 control / DEL in
   the query (D21), and for the AsFound variants no ':' in the user name (D18), no octet below 0x10 (D1). *)
From Httoop Require Import Lib.Bytes Lib.Utf8 Gen.PercentT Gen.UriT Model.Percent Model.UriSyntax Proofs.Form Proofs.UriSyntax.
Local Open Scope N_scope.

(* clause 1: compose then parse gives the same eight slots -- for every instantiation of the callees and variants.
   "partial" because [wf] excludes the classes of the known findings D19, D30, D21 (and D18, D1 for AsFound). *)
Theorem C10_roundtrip_partial :
  forall (valid : bytes -> bool) (inet4 inet6 idna_dec idna_enc : bytes -> option bytes) (vq vu v7 : variant)
         (scheme user pass host : bytes) (port : option N) (path : bytes) (ps : list (bytes * bytes)) (frag : bytes),
  wf valid inet4 inet6 idna_dec idna_enc vq vu v7 scheme user pass host port path ps frag = true ->
  let q := query_of_pairs vq ps in
  let u := mkUri scheme user pass host (port_slot (scheme_port scheme) port) path q frag in
  uri_set scheme user pass host port path q frag = Ok u /\
  exists w, uri_compose idna_enc vq vu u = Some w /\ uri_parse valid inet4 inet6 idna_dec vq v7 w = Ok u.
Proof. exact roundtrip. Qed.
Print Assumptions C10_roundtrip_partial.

(* the hypotheses are satisfiable: user "a:b@", password "p:/?#@", path "/a b/c:d/%", pair ("k&", "v= ä"), fragment "f#" *)
Example C10_wf_nonvacuous :
  wf utf8_valid inet_none inet_none idna_id idna_id Repaired Repaired Repaired
    (X "68747470") (X "613a6240") (X "703a2f3f2340") (X "6578616d706c652e636f6d") (Some 8080)
    (X "2f6120622f633a642f25") [(X "6b26", X "763d20c3a4")] (X "6623") = true.
Proof. exact wf_nonvacuous. Qed.
Example C10_wf_nonvacuous_pinned :
  wf utf8_valid inet_none inet_none idna_id idna_id AsFound AsFound Repaired
    (X "68747470") (X "6162") (X "703a2f3f2340") (X "6578616d706c652e636f6d") (Some 8080)
    (X "2f6120622f633a642f25") [(X "6b26", X "763d20c3a4")] (X "6623") = true.
Proof. exact wf_nonvacuous_pinned. Qed.

(* the host hypothesis of [wf] ("the wire form decodes back to the host") unfolded per syntactic kind of host: what it
   asks of the callees is exactly canonical form (IP literals) resp. the IDNA decoder returning the host (reg-names) *)
Theorem C10_host_ip6 :
  forall (valid : bytes -> bool) (inet4 inet6 idna_dec : bytes -> option bytes) (v7 : variant) (t : bytes),
  inet6 t = Some t ->
  unquote_host valid inet4 inet6 idna_dec v7 ([LBR] ++ t ++ [RBR]) = Ok ([LBR] ++ t ++ [RBR]).
Proof. exact uhost_ip6. Qed.
Print Assumptions C10_host_ip6.
Theorem C10_host_ipvfuture :
  forall (valid : bytes -> bool) (inet4 inet6 idna_dec : bytes -> option bytes) (v7 : variant) (t : bytes),
  inet6 t = None -> starts_with [LOWER_V] t && contains DOT t && isdigit (fst (partition1 DOT (tl t))) = true ->
  unquote_host valid inet4 inet6 idna_dec v7 ([LBR] ++ t ++ [RBR]) = Ok ([LBR] ++ t ++ [RBR]).
Proof. exact uhost_future. Qed.
Print Assumptions C10_host_ipvfuture.
Theorem C10_host_ip4 :
  forall (valid : bytes -> bool) (inet4 inet6 idna_dec : bytes -> option bytes) (v7 : variant) (a : bytes),
  starts_with [LBR] a && ends_with1 RBR a = false -> forallb isdigit (split1 DOT a) = true -> inet4 a = Some a ->
  unquote_host valid inet4 inet6 idna_dec v7 a = Ok a.
Proof. exact uhost_ip4. Qed.
Print Assumptions C10_host_ip4.
Theorem C10_host_regname :
  forall (valid : bytes -> bool) (inet4 inet6 idna_dec : bytes -> option bytes) (v7 : variant) (a h : bytes),
  starts_with [LBR] a && ends_with1 RBR a = false -> forallb isdigit (split1 DOT a) = false ->
  forallb (inmask HOSTCHARS) a = true -> none PCT a = true -> valid a = true -> is_ascii a = true ->
  idna_dec a = Some h -> unquote_host valid inet4 inet6 idna_dec v7 a = Ok h.
Proof. exact uhost_regname. Qed.
Print Assumptions C10_host_regname.

(* the path_segments setter produces paths in the domain: for segments s1..sn (n >= 1) the path "/" s1' "/" ... "/" sn'
   (si' = si with '/' replaced by '%2f') satisfies [path_ok] as soon as the escaped segments are text and no
   segment ending in ':' is followed by an empty one (D30) *)
Theorem C10_path_segments_in_domain :
  forall (valid : bytes -> bool) (segs : list bytes),
  valid [] = true -> forallb (fun s => valid (esc_slash s)) segs = true ->
  rpart CSS (path_of_segments ([] :: segs)) = None ->
  path_ok valid (path_of_segments ([] :: segs)) = true.
Proof. exact path_ok_segments. Qed.
Print Assumptions C10_path_segments_in_domain.

(* D21 in the form the parser applies it: a name/value free of C0 controls and DEL never trips the stringprep check *)
Theorem C10_query_controls_condition :
  forall ps, forallb (fun p => c21free (fst p) && c21free (snd p)) ps = true ->
  existsb (inmask QS_INVALID) (unquote (form_encode Repaired QS_UNQUOTED ps)) = false.
Proof. exact c21free_encoded. Qed.
Print Assumptions C10_query_controls_condition.

(* [wf] only restricts the domain of the property as worded ([wf_full]) *)
Theorem C10_wf_is_restriction :
  forall valid inet4 inet6 idna_dec idna_enc vq vu v7 scheme user pass host port path ps frag,
  wf valid inet4 inet6 idna_dec idna_enc vq vu v7 scheme user pass host port path ps frag = true ->
  wf_full valid inet4 inet6 idna_dec idna_enc v7 scheme user pass host port path ps frag = true.
Proof. exact wf_is_restriction. Qed.
Print Assumptions C10_wf_is_restriction.

(* clause 2: serialising the parsed URI again yields the same octets *)
Theorem C10_stable_partial :
  forall (valid : bytes -> bool) (inet4 inet6 idna_dec idna_enc : bytes -> option bytes) (vq vu v7 : variant)
         (scheme user pass host : bytes) (port : option N) (path : bytes) (ps : list (bytes * bytes)) (frag : bytes),
  wf valid inet4 inet6 idna_dec idna_enc vq vu v7 scheme user pass host port path ps frag = true ->
  let u := mkUri scheme user pass host (port_slot (scheme_port scheme) port) path (query_of_pairs vq ps) frag in
  exists w, uri_compose idna_enc vq vu u = Some w /\
  exists u', uri_parse valid inet4 inet6 idna_dec vq v7 w = Ok u' /\ uri_compose idna_enc vq vu u' = Some w.
Proof. exact stable. Qed.
Print Assumptions C10_stable_partial.

(* clause 3: no component can leak -- the composed user name contains none of the RFC 3986 gen-delims
   ':' '@' '/' '?' '#' '[' ']', the password none but ':', a path segment none of '/' '?' '#' '[' ']', the query
   and the fragment none of '#' '[' ']', and all are printable ASCII ([excl ds c] = printable and not in ds);
   for the repaired variants without any hypothesis on the text *)
Theorem C10_no_leak :
  forall (user pass seg frag : bytes) (ps : list (bytes * bytes)),
  forallb (excl [COLON; AT; SLASH; QMARK; HASH; LBR; RBR]) (quote Repaired (user_safe Repaired) user) = true /\
  forallb (excl [AT; SLASH; QMARK; HASH; LBR; RBR]) (quote Repaired PCT_USERINFO pass) = true /\
  (none SLASH seg = true -> forallb (excl [SLASH; QMARK; HASH; LBR; RBR]) (quote Repaired PCT_PATH seg) = true) /\
  forallb (excl [HASH; LBR; RBR]) (query_of_pairs Repaired ps) = true /\
  forallb (excl [HASH; LBR; RBR]) (quote Repaired PCT_FRAGMENT frag) = true.
Proof. exact no_leak_repaired. Qed.
Print Assumptions C10_no_leak.

(* ... and for the pinned tree under the complements of D18 and D1 *)
Theorem C10_no_leak_asfound_partial :
  forall (vq vu : variant) (user pass seg frag : bytes) (ps : list (bytes * bytes)),
  user_ok vu user = true -> nl vq user = true -> nl vq pass = true -> nl vq seg = true -> nl vq frag = true ->
  forallb (fun p => nl vq (fst p) && nl vq (snd p)) ps = true ->
  forallb (excl [COLON; AT; SLASH; QMARK; HASH; LBR; RBR]) (quote vq (user_safe vu) user) = true /\
  forallb (excl [AT; SLASH; QMARK; HASH; LBR; RBR]) (quote vq PCT_USERINFO pass) = true /\
  (none SLASH seg = true -> forallb (excl [SLASH; QMARK; HASH; LBR; RBR]) (quote vq PCT_PATH seg) = true) /\
  forallb (excl [HASH; LBR; RBR]) (query_of_pairs vq ps) = true /\
  forallb (excl [HASH; LBR; RBR]) (quote vq PCT_FRAGMENT frag) = true.
Proof. exact no_leak. Qed.
Print Assumptions C10_no_leak_asfound_partial.

(* the cascade of URI.parse on a structured octet string (the lemma the parser model reuses) *)
Theorem C10_split_composed :
  forall (scheme qu qp a dg Pa q qf : bytes) (has_user : bool),
  forallb (excl D5) scheme = true -> forallb (excl D5) qu = true -> forallb (excl D4) qp = true ->
  (has_user = false -> qu = [] /\ qp = []) -> wire_ok a = true -> forallb is_digit dg = true ->
  forallb (excl [QMARK; HASH]) Pa = true -> (Pa = [] \/ exists p', Pa = SLASH :: p') -> rpart CSS Pa = None ->
  forallb (excl [HASH]) q = true ->
  uri_split ((((S_of scheme ++ [SLASH; SLASH]) ++ (U_of has_user qu qp ++ a ++ Pt_of dg) ++ Pa) ++ Q_of q) ++ F_of qf)
  = mkRaw scheme qu qp a dg Pa q qf.
Proof. exact split_composed. Qed.
Print Assumptions C10_split_composed.

(* ports: printing and int() are inverse on every port *)
Theorem C10_port_roundtrip :
  forall (s : bytes) (port : option N), port_in_ok port = true ->
  let dflt := scheme_port s in
  port_of_int dflt port = Ok (port_slot dflt port) /\
  forallb is_digit (port_digits dflt (port_slot dflt port)) = true /\
  port_of_bytes dflt (port_digits dflt (port_slot dflt port)) = Ok (port_slot dflt port).
Proof. exact port_roundtrip. Qed.
Print Assumptions C10_port_roundtrip.

(* ---------- the full statement (domain [wf_full]) is false of the faithful model: witnesses ---------- *)
Notation wf_full_c := (wf_full utf8_valid inet_none inet_none idna_id idna_id Repaired).
Notation rt_c := (rt_holds utf8_valid inet_none inet_none idna_id idna_id).

(* D1 (known): one-digit escapes of the pinned tree -- user name "\x01" *)
Theorem C10_low_octet_asfound_refuted : exists user,
  wf_full_c (X "78") user [] (X "68") None [] [] [] = true /\
  ~ rt_c AsFound Repaired Repaired (X "78") user [] (X "68") None [] [] [].
Proof. exact refuted_low_octet. Qed.
Print Assumptions C10_low_octet_asfound_refuted.

(* D18 (to be fixed): ':' of a user name leaks into the password on the pinned tree *)
Theorem C10_user_colon_asfound_refuted : exists user pass,
  wf_full_c (X "78") user pass (X "68") None [] [] [] = true /\
  ~ rt_c Repaired AsFound Repaired (X "78") user pass (X "68") None [] [] [].
Proof. exact refuted_user_colon. Qed.
Print Assumptions C10_user_colon_asfound_refuted.

(* D19 (known): a password without user name is dropped *)
Theorem C10_password_without_user_refuted : exists pass,
  wf_full_c (X "78") [] pass (X "68") None [] [] [] = true /\
  ~ rt_c Repaired Repaired Repaired (X "78") [] pass (X "68") None [] [] [].
Proof. exact refuted_password_without_user. Qed.
Print Assumptions C10_password_without_user_refuted.

(* D30 (new, known): "://" inside a path is taken for the scheme separator -- path "/a://b" *)
Theorem C10_path_scheme_separator_refuted : exists path,
  wf_full_c (X "68747470") [] [] (X "68") None path [] [] = true /\
  ~ rt_c Repaired Repaired Repaired (X "68747470") [] [] (X "68") None path [] [].
Proof. exact refuted_path_css. Qed.
Print Assumptions C10_path_scheme_separator_refuted.

(* D21 (known, shared with C13): a C0 control in a query pair is refused by the parser *)
Theorem C10_query_control_refuted : exists ps,
  wf_full_c (X "78") [] [] (X "68") None [] ps [] = true /\
  ~ rt_c Repaired Repaired Repaired (X "78") [] [] (X "68") None [] ps [].
Proof. exact refuted_query_control. Qed.
Print Assumptions C10_query_control_refuted.

(* C12 -- reference resolution (URI.join) agrees with RFC 3986 section 5.2.2 after normalisation.
   Only final statements here, each closed by [exact] and followed by Print Assumptions.
   [rfc_resolve] is the literal 5.2.2 pseudo-code over the five components (5.2.3 merge, 5.2.4 remove_dot_segments);
   [view] is httoop's representation of a parsed reference (undefined components become empty strings);
   [base5] reads an httoop URI as an RFC base.  [lower] = str.lower, [v] = model variant of normalize. *)
From Httoop Require Import Lib.Bytes Lib.Variant Gen.UriNormT Model.UriPath Model.UriNorm Proofs.UriPath Proofs.UriNorm Proofs.UriJoin.
Local Open Scope N_scope.

(* FULL statement (false on the pinned tree and on the repaired one - findings D20a-d):
     forall base r, base_ok lower v base = true -> ref_wf r = true ->
       join lower v base (view r) = normalize lower v (view (rfc_resolve (base5 base) r)).
   Proved: the statement under four boolean side conditions on the reference (ref_ok = ref_wf && cond_a..cond_d):
     cond_a  the reference path has no "//"                               (D20a: "g//..")
     cond_b  an authority, when present, has a non-empty host             (D20b: "//", "///g")
     cond_c  not (reference = "?" and the base has a query)               (D20c)
     cond_d  a scheme-qualified reference without authority has no dot segments   (D20d: "g:x/../y")
   and ref_wf = RFC grammar facts (scheme non-empty; with an authority the path is empty or starts with "/").
   base_ok = the base is a fixed point of normalize, has scheme and host, and no fragment. *)
Theorem C12_join_partial : forall lower : bytes -> bytes, (forall s, nonnil (lower s) = nonnil s) ->
  forall (v : variant) (base : nuri) (r : ref5 auth),
  base_ok lower v base = true -> ref_ok base r = true ->
  join lower v base (view r) = normalize lower v (view (rfc_resolve (base5 base) r)).
Proof. exact join_rfc. Qed.
Print Assumptions C12_join_partial.
Example C12_join_partial_nonvacuous :   (* "../g/./h?y#s" against http://a/b/c/d?q *)
  base_ok lower_ascii AsFound wbase = true /\ base_ok lower_ascii Repaired wbase = true /\ ref_ok wbase w_ok = true.
Proof. exact join_hyp_nonvacuous. Qed.

(* the core of the proof, on paths alone: httoop's base ++ "/../" ++ reference (or plain concatenation after a trailing
   slash) normalises to the same path as RFC merge followed by remove_dot_segments *)
Theorem C12_merge_trick : forall bp rp : bytes, path_normal bp = true ->
  nonnil rp = true -> starts_slash rp = false -> no_dslash rp = true ->
  normalize_path true true (bp ++ (if ends_slash bp then [] else P_S_DD_S) ++ rp) =
  normalize_path true true (remove_dot_segments (merge true bp rp)).
Proof. exact join_path_merge. Qed.
Print Assumptions C12_merge_trick.

(* each side condition is necessary: with only that one dropped the statement fails (both variants) *)
Theorem C12_empty_segment_refuted :
  (ref_wf w_a && cond_b w_a && cond_c wbase w_a && cond_d w_a = true /\ cond_a w_a = false) /\ disagrees w_a.
Proof. exact join_refuted_a. Qed.
Print Assumptions C12_empty_segment_refuted.
Theorem C12_empty_authority_refuted :
  (ref_wf w_b && cond_a w_b && cond_c wbase w_b && cond_d w_b = true /\ cond_b w_b = false) /\ disagrees w_b.
Proof. exact join_refuted_b. Qed.
Print Assumptions C12_empty_authority_refuted.
Theorem C12_empty_query_refuted :
  (ref_wf w_c && cond_a w_c && cond_b w_c && cond_d w_c = true /\ cond_c wbase w_c = false) /\ disagrees w_c.
Proof. exact join_refuted_c. Qed.
Print Assumptions C12_empty_query_refuted.
Theorem C12_hostless_scheme_ref_refuted :
  (ref_wf w_d && cond_a w_d && cond_b w_d && cond_c wbase w_d = true /\ cond_d w_d = false) /\ disagrees w_d.
Proof. exact join_refuted_d. Qed.
Print Assumptions C12_hostless_scheme_ref_refuted.

(* C11 -- URI normalisation is idempotent, removes all dot segments and slash runs, equals RFC 3986 5.2.4 on the
   slash-collapsed path; scheme/host lower-cased, default port explicit; URI equality is an equivalence that agrees
   with the normalised components.
   Only final statements here, each closed by [exact] and followed by Print Assumptions.
   [lower] is str.lower (a parameter of the model); [v] is the model variant (AsFound = pinned tree, Repaired = fix D30). *)
From Httoop Require Import Lib.Bytes Lib.Variant Gen.UriNormT Model.UriPath Model.UriNorm Proofs.UriPath Proofs.UriNorm.
Local Open Scope N_scope.

(* clause 1: normalising twice = normalising once -- whole URI state (class default port and the eight slots) *)
Theorem C11_idempotent : forall lower : bytes -> bytes, (forall s, lower (lower s) = lower s) ->
  forall (v : variant) (u : nuri), normalize lower v (normalize lower v u) = normalize lower v u.
Proof. exact normalize_idem. Qed.
Print Assumptions C11_idempotent.

(* ... and the path part alone, for every combination of "host present" / "scheme present" *)
Theorem C11_path_idempotent : forall (h s : bool) (p : bytes),
  normalize_path h s (normalize_path h s p) = normalize_path h s p.
Proof. exact normalize_path_idem. Qed.
Print Assumptions C11_path_idempotent.

(* clause 2: no "." / ".." segment and no slash run afterwards -- for EVERY URI, absolute or not *)
Theorem C11_no_dots : forall (lower : bytes -> bytes) (v : variant) (u : nuri),
  no_dot_seg (u_path (normalize lower v u)) = true /\ no_dslash (u_path (normalize lower v u)) = true.
Proof. exact normalize_path_props. Qed.
Print Assumptions C11_no_dots.

(* clause 3: on an absolute URI (scheme and host present) whose path starts with "/", the normalised path is what the
   LITERAL RFC 3986 5.2.4 algorithm returns on the slash-collapsed path (and its fuel never runs out) *)
Theorem C11_rfc : forall (lower : bytes -> bytes) (v : variant) (u : nuri),
  nonnil (lower (u_scheme u)) = true -> nonnil (lower (u_host u)) = true -> starts_slash (u_path u) = true ->
  rfc_rds (collapse (u_path u)) = Some (u_path (normalize lower v u)).
Proof. exact normalize_rfc. Qed.
Print Assumptions C11_rfc.
Example C11_rfc_nonvacuous :   (* HTTP://H/a/../../b/./c//d/.. *)
  let u := U None (X "48545450") [] [] (X "48") None (X "2f612f2e2e2f2e2e2f622f2e2f632f2f642f2e2e") [] [] in
  nonnil (lower_ascii (u_scheme u)) = true /\ nonnil (lower_ascii (u_host u)) = true /\ starts_slash (u_path u) = true /\
  u_path (normalize lower_ascii Repaired u) = X "2f622f632f".
Proof. vm_compute. repeat split. Qed.

Theorem C11_rfc_total : forall p : bytes, exists o, rfc_rds p = Some o.
Proof. exact rfc_rds_total. Qed.
Print Assumptions C11_rfc_total.

(* a path that normalize leaves alone is free of dot segments and slash runs (used by the request-target property) *)
Theorem C11_fixed_point_clean : forall (h s : bool) (p : bytes),
  normalize_path h s p = p -> no_dot_seg p = true /\ no_dslash p = true.
Proof. exact normalize_path_fixed_ok. Qed.
Print Assumptions C11_fixed_point_clean.

(* clause 4: scheme and host are lower-cased (and are fixed points of lower-casing); nothing else is touched *)
Theorem C11_lowercase : forall lower : bytes -> bytes, (forall s, lower (lower s) = lower s) ->
  forall (v : variant) (u : nuri),
  u_scheme (normalize lower v u) = lower (u_scheme u) /\ u_host (normalize lower v u) = lower (u_host u) /\
  lower (u_scheme (normalize lower v u)) = u_scheme (normalize lower v u) /\
  lower (u_host (normalize lower v u)) = u_host (normalize lower v u).
Proof. exact normalize_lowercase. Qed.
Print Assumptions C11_lowercase.
Theorem C11_rest_untouched : forall (lower : bytes -> bytes) (v : variant) (u : nuri),
  u_user (normalize lower v u) = u_user u /\ u_pass (normalize lower v u) = u_pass u /\
  u_query (normalize lower v u) = u_query u /\ u_frag (normalize lower v u) = u_frag u.
Proof. exact normalize_rest. Qed.
Print Assumptions C11_rest_untouched.

(* clause 5: the default port is explicit.  Repaired normalize: always.  Table lemma: re-checked against the
   regenerated scheme registry on every run. *)
Theorem C11_default_port : forall (lower : bytes -> bytes) (u : nuri), nonnil (lower (u_scheme u)) = true ->
  u_port (normalize lower Repaired u) = port_or (u_port u) (class_port (lower (u_scheme u))).
Proof. exact default_port_repaired. Qed.
Print Assumptions C11_default_port.
Theorem C11_default_port_explicit : forall (lower : bytes -> bytes) (u : nuri), nonnil (lower (u_scheme u)) = true ->
  is_some (class_port (lower (u_scheme u))) = true -> is_some (u_port (normalize lower Repaired u)) = true.
Proof. exact default_port_explicit_repaired. Qed.
Print Assumptions C11_default_port_explicit.
Theorem C11_default_port_table :
  (class_port S_HTTP = Some 80 /\ class_port S_HTTPS = Some 443) /\
  forallb (fun kv => bytes_eqb (lower_ascii (fst kv)) (fst kv)) SCHEME_PORTS = true /\
  forallb (fun kv => match snd kv with Some n => (1 <=? n) && (n <=? 65535) | None => true end) SCHEME_PORTS = true.
Proof. exact (conj class_port_http (conj scheme_keys_lower scheme_ports_valid)). Qed.
Print Assumptions C11_default_port_table.
(* pinned tree (finding D30): the full statement is false; it holds when the scheme was already lower-case when the
   URI was constructed (this covers every URI parsed from text) *)
Theorem C11_default_port_asfound_partial : forall (lower : bytes -> bytes) (d0 : option N) (t : nuri),
  nonnil (u_scheme t) = true -> lower (u_scheme t) = u_scheme t ->
  u_port (normalize lower AsFound (construct d0 t)) = port_or (u_port t) (class_port (lower (u_scheme t))).
Proof. exact default_port_asfound_partial. Qed.
Print Assumptions C11_default_port_asfound_partial.
Example C11_default_port_asfound_partial_nonvacuous :   (* http://h/ built from components without a port *)
  let t := U None S_HTTP [] [] (X "68") None (X "2f") [] [] in
  nonnil (u_scheme t) = true /\ lower_ascii (u_scheme t) = u_scheme t /\
  u_port (normalize lower_ascii AsFound (construct BASE_PORT t)) = Some 80.
Proof. vm_compute. repeat split. Qed.
Theorem C11_default_port_asfound_refuted :
  exists t, nonnil (u_scheme t) = true /\ nonnil (u_host t) = true /\
    class_port (lower_ascii (u_scheme t)) = Some 80 /\
    u_port (normalize lower_ascii AsFound (construct BASE_PORT t)) = None.
Proof. exact default_port_asfound_refuted. Qed.
Print Assumptions C11_default_port_asfound_refuted.

(* clause 6: == is the kernel of "construct a copy, normalize, take the eight slots": an equivalence relation *)
Theorem C11_eq_kernel : forall (lower : bytes -> bytes) (v : variant) (d0 : option N) (a b : nuri),
  uri_eq lower v d0 a b = true <->
  slots (normalize lower v (construct d0 a)) = slots (normalize lower v (construct d0 b)).
Proof. exact uri_eq_iff. Qed.
Print Assumptions C11_eq_kernel.
Theorem C11_eq_refl : forall (lower : bytes -> bytes) (v : variant) (d0 : option N) (a : nuri), uri_eq lower v d0 a a = true.
Proof. exact uri_eq_refl. Qed.
Print Assumptions C11_eq_refl.
Theorem C11_eq_sym : forall (lower : bytes -> bytes) (v : variant) (d0 : option N) (a b : nuri),
  uri_eq lower v d0 a b = uri_eq lower v d0 b a.
Proof. exact uri_eq_sym. Qed.
Print Assumptions C11_eq_sym.
Theorem C11_eq_trans : forall (lower : bytes -> bytes) (v : variant) (d0 : option N) (a b c : nuri),
  uri_eq lower v d0 a b = true -> uri_eq lower v d0 b c = true -> uri_eq lower v d0 a c = true.
Proof. exact uri_eq_trans. Qed.
Print Assumptions C11_eq_trans.
(* which class's __eq__ Python dispatches to is irrelevant when both URIs carry a scheme *)
Theorem C11_eq_class_irrelevant : forall (lower : bytes -> bytes) (v : variant) (d0 d1 : option N) (a b : nuri),
  nonnil (u_scheme a) = true -> nonnil (u_scheme b) = true -> uri_eq lower v d0 a b = uri_eq lower v d1 a b.
Proof. exact uri_eq_class_irrel. Qed.
Print Assumptions C11_eq_class_irrelevant.
(* ... and (repaired normalize) it is exactly equality of the normalised components: lower-cased scheme and host,
   user, password, effective port (given, else the default of the lower-cased scheme), normalised path, query, fragment *)
Theorem C11_eq_components : forall lower : bytes -> bytes, (forall s, nonnil (lower s) = nonnil s) ->
  forall (d0 : option N) (a b : nuri), nonnil (u_scheme a) = true -> nonnil (u_scheme b) = true ->
  (uri_eq lower Repaired d0 a b = true <-> norm_components lower a = norm_components lower b).
Proof. exact uri_eq_components. Qed.
Print Assumptions C11_eq_components.
Example C11_eq_components_nonvacuous :   (* HTTP://H/a/../b  ==  http://h:80/b *)
  let a := U None (X "48545450") [] [] (X "48") None (X "2f612f2e2e2f62") [] [] in
  let b := U None S_HTTP [] [] (X "68") (Some 80) (X "2f62") [] [] in
  nonnil (u_scheme a) = true /\ nonnil (u_scheme b) = true /\ uri_eq lower_ascii Repaired BASE_PORT a b = true.
Proof. vm_compute. repeat split. Qed.
(* pinned tree (finding D30): equal normalised components, yet == is false; the repaired normalize makes it true *)
Theorem C11_eq_components_asfound_refuted :
  norm_components lower_ascii w_eq_a = norm_components lower_ascii w_eq_b /\
  uri_eq lower_ascii AsFound BASE_PORT w_eq_a w_eq_b = false /\
  uri_eq lower_ascii Repaired BASE_PORT w_eq_a w_eq_b = true.
Proof. exact uri_eq_asfound_refuted. Qed.
Print Assumptions C11_eq_components_asfound_refuted.

(* C20 -- A satisfiable byte-range request returns exactly the requested slice.
   Only final statements here, each closed by [exact] and followed by Print Assumptions.
   Model: Model/Range.v (Range.parse, prevent_denial_of_service, positions/get_range_content on a BytesIO,
   ContentRange.compose, ComposedResponse.prepare_ranges/prepare_range/multipart_byteranges, Multipart.encode).
   The model is indexed by two variants (vi: byte positions through int() / digits only; vu: range unit ignored / validated),
   see Model/Range.v.  Names without _v (range_parse_with, prepare_ranges_with, prepare_ranges) are the model at the variants
   the T1 probes read from the working tree. *)
From Coq Require Import Sorting.Sorted.
From Httoop Require Import Model.ElemLex Model.Range Proofs.ElemLex Proofs.Range.
Local Open Scope N_scope.

(* clause 1, from the field text: Range: bytes=first-last (decimal numerals of any size) with first < last inside a
   representation d of any length, under the preconditions of range_conditions, with the library's own DoS filter:
   206, body = octets first..last, Content-Length = last+1-first, Content-Range = "bytes first-last/len d" *)
Theorem C20_single : forall (c : pre) (d ct bd : bytes) (first last : N),
  pre_ok c = true -> first < last -> last < len d ->
  prepare_ranges c (Some (render_range (render_spec first last))) d ct bd =
    Partial (Some (X "627974657320" ++ dec first ++ [DASH] ++ dec last ++ [SLASH] ++ dec (len d))) None
            (last + 1 - first) (firstn (nat_of (last + 1 - first)) (skipn (nat_of first) d)).
Proof. exact single_range. Qed.
Print Assumptions C20_single.
Example C20_single_nonvacuous :
  pre_ok (mkpre true true true true true false false false true) = true /\ 3 < 5 /\ 5 < len (X "666f6f62617262617a").
Proof. vm_compute. repeat split; reflexivity. Qed.

(* the same under either variant of the two repairs, as long as the unit test lets 'bytes' through *)
Theorem C20_single_any_variant : forall (vi vu : variant) (c : pre) (d ct bd : bytes) (first last : N),
  unit_ok vu BYTES_UNIT = true ->
  pre_ok c = true -> first < last -> last < len d ->
  prepare_ranges_v vi vu dos_ok c (Some (render_range (render_spec first last))) d ct bd =
    Partial (Some (X "627974657320" ++ dec first ++ [DASH] ++ dec last ++ [SLASH] ++ dec (len d))) None
            (last + 1 - first) (firstn (nat_of (last + 1 - first)) (skipn (nat_of first) d)).
Proof. exact single_range_v. Qed.
Print Assumptions C20_single_any_variant.

(* the same for every field value that parses to that one range with a unit that is served (always, as found; 'bytes' in any
   case once the unit is looked at), for every DoS filter and both variants of either repair *)
Theorem C20_single_general : forall (vi vu : variant) (accept : list rspec -> bool) (c : pre) (v u : bytes) (first last : N) (d ct bd : bytes),
  range_conditions c true d = true ->
  range_parse_v vi vu accept v = Some (u, [(Some first, Some last)]) -> unit_served vu u = true ->
  first < last -> last < len d ->
  prepare_ranges_v vi vu accept c (Some v) d ct bd =
    Partial (Some (X "627974657320" ++ dec first ++ [DASH] ++ dec last ++ [SLASH] ++ dec (len d))) None
            (last + 1 - first) (firstn (nat_of (last + 1 - first)) (skipn (nat_of first) d)).
Proof. exact single_range_general. Qed.
Print Assumptions C20_single_general.

(* the slice, octet by octet, and its length *)
Theorem C20_slice_nth : forall (d : bytes) (first last : N) (i : nat),
  (i < nat_of (last + 1 - first))%nat ->
  nth_error (slice d (Some first, Some last)) i = nth_error d (nat_of first + i).
Proof. exact slice_closed_nth. Qed.
Print Assumptions C20_slice_nth.
Theorem C20_slice_len : forall (d : bytes) (first last : N),
  first < last -> last < len d -> len (slice d (Some first, Some last)) = last + 1 - first.
Proof. exact slice_closed_len. Qed.
Print Assumptions C20_slice_len.

(* the numerals: "%d" rendering is read back by int() *)
Theorem C20_numeral_roundtrip : forall n : N, pynat (dec n) = Some n.
Proof. exact pynat_dec. Qed.
Print Assumptions C20_numeral_roundtrip.
(* ... and passes the digits-only test of the repaired Range.parse *)
Theorem C20_position_roundtrip : forall (vi : variant) (n : N), pos_parse vi (dec n) = Some n.
Proof. exact pos_parse_dec. Qed.
Print Assumptions C20_position_roundtrip.

(* clause 2: several ranges.  For every DoS filter [accept]: an accepted set of two or more ranges is answered with a
   multipart/byteranges body made of one part per range, in the order of the parsed list, each part carrying its
   Content-Range and exactly its slice *)
Theorem C20_multi : forall (vi vu : variant) (accept : list rspec -> bool) (c : pre) (v u : bytes) (rs : list rspec) (d ct bd : bytes),
  range_conditions c true d = true ->
  range_parse_v vi vu accept v = Some (u, rs) -> unit_served vu u = true -> (2 <= List.length rs)%nat ->
  prepare_ranges_v vi vu accept c (Some v) d ct bd =
    let body := mp_encode bd (map (fun r => (part_headers ct (content_range r (len d)), slice d r)) rs) in
    Partial None (Some (multipart_ctype bd)) (len body) body.
Proof. exact multi_range. Qed.
Print Assumptions C20_multi.

(* ... the parsed list is exactly the set of requested specs, each once, sorted by first position ... *)
Theorem C20_multi_parts : forall (vi vu : variant) (accept : list rspec -> bool) (v u : bytes) (rs : list rspec),
  range_parse_v vi vu accept v = Some (u, rs) ->
  exists specs, range_specs_v vi vu v = (u, Some specs) /\ accept rs = true /\
    (forall r, In r rs <-> In r specs) /\ NoDup rs /\ StronglySorted key_le rs.
Proof. exact range_parse_with_spec. Qed.
Print Assumptions C20_multi_parts.

(* ... and with the library's filter closed ranges come out strictly ascending and non-overlapping *)
Theorem C20_multi_ascending : forall rs : list rspec,
  forallb closed_b rs = true -> Forall spec_wf rs -> StronglySorted key_le rs -> dos_ok rs = true ->
  StronglySorted before rs.
Proof. exact dos_ok_ascending. Qed.
Print Assumptions C20_multi_ascending.
Theorem C20_specs_wellformed : forall vi vu v u specs, range_specs_v vi vu v = (u, Some specs) -> Forall spec_wf specs.
Proof. exact range_specs_wf. Qed.
Print Assumptions C20_specs_wellformed.

(* from the field text: "bytes=f1-l1, f2-l2, ..." parses to exactly those ranges (deduplicated, sorted) *)
Theorem C20_multi_from_text : forall (accept : list rspec -> bool) (l : list (N * N)),
  l <> [] -> Forall (fun p => fst p < snd p) l ->
  let rs := sort_r (dedupe [] (map (fun p => (Some (fst p), Some (snd p))) l)) in
  accept rs = true ->
  range_parse_with accept (render_range (render_specs l)) = Some (BYTES_UNIT, rs).
Proof. exact range_parse_render_list. Qed.
Print Assumptions C20_multi_from_text.
Theorem C20_multi_from_text_any_variant : forall (vi vu : variant) (accept : list rspec -> bool) (l : list (N * N)),
  unit_ok vu BYTES_UNIT = true -> l <> [] -> Forall (fun p => fst p < snd p) l ->
  let rs := sort_r (dedupe [] (map (fun p => (Some (fst p), Some (snd p))) l)) in
  accept rs = true ->
  range_parse_v vi vu accept (render_range (render_specs l)) = Some (BYTES_UNIT, rs).
Proof. exact range_parse_render_list_v. Qed.
Print Assumptions C20_multi_from_text_any_variant.
Example C20_multi_nonvacuous :
  prepare_ranges (mkpre true true true true true false false false true)
    (Some (render_range (render_specs [(6, 8); (0, 2)]))) (X "666f6f62617262617a") (X "742f70") (X "4242") =
  Partial None (Some (multipart_ctype (X "4242"))) 128
    (X "2d2d42420d0a436f6e74656e742d52616e67653a20627974657320302d322f390d0a436f6e74656e742d547970653a20742f700d0a0d0a666f6f0d0a2d2d42420d0a436f6e74656e742d52616e67653a20627974657320362d382f390d0a436f6e74656e742d547970653a20742f700d0a0d0a62617a0d0a2d2d42422d2d0d0a").
Proof. vm_compute. reflexivity. Qed.

(* clause 3: a refused Range field never gives 206 (for every filter, every precondition vector, both variants) ... *)
Theorem C20_refused_never_206 : forall (vi vu : variant) (accept : list rspec -> bool) (c : pre) (v d ct bd : bytes) (before : N),
  range_parse_v vi vu accept v = None -> before <> 206 ->
  status_of (prepare_ranges_v vi vu accept c (Some v) d ct bd) before <> 206.
Proof. exact refused_never_206. Qed.
Print Assumptions C20_refused_never_206.

(* ... 206 arises only when every precondition holds, the field parsed and its unit is one that is served ... *)
Theorem C20_partial_only_under_preconditions : forall (vi vu : variant) (accept : list rspec -> bool) (c : pre) (range : option bytes) (d ct bd : bytes) (before : N),
  before <> 206 -> status_of (prepare_ranges_v vi vu accept c range d ct bd) before = 206 ->
  pre_ok c = true /\ isnil d = false /\
  exists v u rs, range = Some v /\ range_parse_v vi vu accept v = Some (u, rs) /\ unit_served vu u = true.
Proof. exact partial_only_under_preconditions. Qed.
Print Assumptions C20_partial_only_under_preconditions.

(* ... and every field outside the RFC 7233 grammar (white space tolerated) is refused:
     forall v, strict_ok v = false -> status <> 206.
   FULL STATEMENT, proved of the repaired code (byte positions must be digits, the unit must be a token): *)
Theorem C20_invalid_never_206 : forall (accept : list rspec -> bool) (c : pre) (v d ct bd : bytes) (before : N),
  strict_ok v = false -> before <> 206 ->
  status_of (prepare_ranges_v Repaired Repaired accept c (Some v) d ct bd) before <> 206.
Proof. exact strict_never_206_repaired. Qed.
Print Assumptions C20_invalid_never_206.
(* the same about the working tree (whose model the correspondence run validates) once both T1 probes report the repaired code *)
Theorem C20_invalid_never_206_working_tree : forall (accept : list rspec -> bool) (c : pre) (v d ct bd : bytes) (before : N),
  RANGE_INT_VARIANT = Repaired -> RANGE_UNIT_VARIANT = Repaired ->
  strict_ok v = false -> before <> 206 ->
  status_of (prepare_ranges_with accept c (Some v) d ct bd) before <> 206.
Proof. exact strict_never_206_current. Qed.
Print Assumptions C20_invalid_never_206_working_tree.
(* what gets through the repaired Range.parse is inside the grammar; the admitted unit octets are token octets *)
Theorem C20_repaired_parse_is_strict : forall v, strict_ok v = false -> snd (range_specs_v Repaired Repaired v) = None.
Proof. exact strict_refused_repaired. Qed.
Print Assumptions C20_repaired_parse_is_strict.
Theorem C20_unit_class_is_token_class : RANGE_UNIT_VARIANT = Repaired -> forall c, inmask RANGE_UNIT_CHARS c = tchar c.
Proof. exact unit_chars_are_tchars. Qed.
Print Assumptions C20_unit_class_is_token_class.
(* RFC 7233 3.1: a unit that is not 'bytes' (in any case) leaves the response alone once the unit is looked at *)
Theorem C20_foreign_unit_ignored : forall (vi : variant) (accept : list rspec -> bool) (c : pre) (v u : bytes) (rs : list rspec) (d ct bd : bytes),
  range_parse_v vi Repaired accept v = Some (u, rs) -> lower u <> BYTES_UNIT ->
  prepare_ranges_v vi Repaired accept c (Some v) d ct bd = Unchanged.
Proof. exact foreign_unit_unchanged. Qed.
Print Assumptions C20_foreign_unit_ignored.

(* AS FOUND the full statement was false (two findings, repaired since).  Proved of every variant: the statement away from the
   two finding classes ([no_lax]: the unit is a token and the range set contains neither '+' nor '_'); refuted of the as-found
   model: one witness per finding; the same witnesses are refused / not served by the repaired model. *)
Theorem C20_invalid_never_206_partial : forall (vi vu : variant) (accept : list rspec -> bool) (c : pre) (v d ct bd : bytes) (before : N),
  no_lax v = true -> strict_ok v = false -> before <> 206 ->
  status_of (prepare_ranges_v vi vu accept c (Some v) d ct bd) before <> 206.
Proof. exact strict_never_206. Qed.
Print Assumptions C20_invalid_never_206_partial.
Example C20_invalid_partial_nonvacuous :
  no_lax (X "62797465733d312d323b78") = true /\ strict_ok (X "62797465733d312d323b78") = false /\
  no_lax (X "62797465733d312d322c") = true /\ strict_ok (X "62797465733d312d322c") = false /\
  strict_ok (X "62797465733d20312d32202c2d35") = true.
Proof. vm_compute. repeat split; reflexivity. Qed.
Theorem C20_invalid_never_206_refuted_lax_integer :
  exists c v d ct bd, strict_ok v = false /\ pre_ok c = true /\ status_of (prepare_ranges_v AsFound AsFound dos_ok c (Some v) d ct bd) 200 = 206.
Proof. exact strict_never_206_refuted_sign. Qed.
Print Assumptions C20_invalid_never_206_refuted_lax_integer.
Theorem C20_invalid_never_206_refuted_unit :
  exists c v d ct bd, strict_ok v = false /\ pre_ok c = true /\ status_of (prepare_ranges_v AsFound AsFound dos_ok c (Some v) d ct bd) 200 = 206.
Proof. exact strict_never_206_refuted_unit. Qed.
Print Assumptions C20_invalid_never_206_refuted_unit.
(* bytes=+1-+2 with digits-only positions: 416; and on a tree that validates the unit: '=1-2' 416, 'bits=1-2' untouched, 'Bytes=1-2' 206 *)
Theorem C20_repaired_witnesses :
  let c := mkpre true true true true true false false false true in
  status_of (prepare_ranges_v Repaired AsFound dos_ok c (Some (X "62797465733d2b312d2b32")) (X "666f6f62617262617a") [] []) 200 = 416 /\
  (RANGE_UNIT_VARIANT = Repaired ->
   status_of (prepare_ranges c (Some (X "3d312d32")) (X "666f6f62617262617a") [] []) 200 = 416 /\
   prepare_ranges c (Some (X "626974733d312d32")) (X "666f6f62617262617a") [] [] = Unchanged /\
   status_of (prepare_ranges c (Some (X "42797465733d312d32")) (X "666f6f62617262617a") [] []) 200 = 206).
Proof. exact repaired_refuses_witnesses. Qed.
Print Assumptions C20_repaired_witnesses.

(* C13 -- Percent-encoding and form encoding are exact inverses.
   Only final statements here, each closed by [exact] and followed by Print Assumptions. *)
From Httoop Require Import Lib.Bytes Gen.PercentT Model.Percent Proofs.Percent Proofs.Form.

(* clause 1a: for EVERY safe set (the library's seven are instances) and every octet string *)
Theorem C13_unquote_quote : forall (safe : N) (d : bytes), unquote (quote Repaired safe d) = d.
Proof. exact unquote_quote. Qed.
Print Assumptions C13_unquote_quote.

(* clause 1b: the encoded string is made of safe octets and well-formed two-digit escapes *)
Theorem C13_encoded_wf : forall (safe : N) (d : bytes), wf_enc safe (quote Repaired safe d).
Proof. exact quote_wf. Qed.
Print Assumptions C13_encoded_wf.

(* the literal split('%')/HEX_MAP decoder equals the characterising recursion *)
Theorem C13_unquote_char : forall d, unquote d = unq d.
Proof. exact unquote_unq. Qed.
Print Assumptions C13_unquote_char.

(* the regenerated HEX_MAP is exactly two-hex-digit decoding in both letter cases *)
Theorem C13_hexmap_table : forall a b, hex_lookup a b = hex_spec a b.
Proof. exact hex_lookup_is_two_hex_digits. Qed.
Print Assumptions C13_hexmap_table.

(* pinned tree ("%X"): full statement false (finding D1), true away from octets < 0x10 outside the safe set *)
Theorem C13_asfound_partial : forall safe d, no_low_unsafe safe d = true -> unquote (quote AsFound safe d) = d.
Proof. exact unquote_quote_asfound. Qed.
Print Assumptions C13_asfound_partial.
Example C13_asfound_partial_nonvacuous : no_low_unsafe PCT_UNRESERVED [x2f; x25; xff; x61; x20] = true.
Proof. vm_compute. reflexivity. Qed.
Theorem C13_asfound_refuted : exists safe d, unquote (quote AsFound safe d) <> d.
Proof. exact unquote_quote_asfound_refuted. Qed.
Print Assumptions C13_asfound_refuted.

(* clause 2: form-urlencoded pairs, octet level, for every safe set without & = + SP (both library sets qualify) *)
Theorem C13_form_roundtrip : forall safe, form_safe_ok safe = true -> forall ps,
  Forall (fun p => fst p <> []) ps -> form_decode (form_encode Repaired safe ps) = ps.
Proof. exact form_roundtrip. Qed.
Print Assumptions C13_form_roundtrip.
Theorem C13_form_sets_ok : form_safe_ok FORM_UNQUOTED = true /\ form_safe_ok QS_UNQUOTED = true.
Proof. exact (conj form_unquoted_ok qs_unquoted_ok). Qed.
Print Assumptions C13_form_sets_ok.
Theorem C13_form_asfound_refuted :
  exists ps, Forall (fun p => fst p <> []) ps /\ form_decode (form_encode AsFound FORM_UNQUOTED ps) <> ps.
Proof. exact form_roundtrip_asfound_refuted. Qed.
Print Assumptions C13_form_asfound_refuted.

(* text level, for every charset codec with dec (enc t) = t (UTF-8, ISO-8859-1 where encodable) *)
Theorem C13_form_roundtrip_text : forall (text : Type) (enc : text -> bytes) (dec : bytes -> option text),
  (forall t, dec (enc t) = Some t) -> forall safe ps, form_safe_ok safe = true ->
  Forall (fun p => enc (fst p) <> []) ps ->
  form_decode_text dec (form_encode_text enc Repaired safe ps) = Some ps.
Proof. exact @form_roundtrip_text. Qed.
Print Assumptions C13_form_roundtrip_text.

(* clause 3: URI.query set from pairs and read back (partial: stringprep C.2.1 octets are refused, finding D21) *)
Theorem C13_query_roundtrip_partial : forall (text : Type) (enc : text -> bytes) (dec : bytes -> option text),
  (forall t, dec (enc t) = Some t) -> forall c21 ps,
  Forall (fun p => enc (fst p) <> []) ps ->
  existsb (inmask c21) (unquote (form_encode_text enc Repaired QS_UNQUOTED ps)) = false ->
  query_get_set enc dec c21 Repaired ps = Some ps.
Proof. exact @query_roundtrip_text. Qed.
Print Assumptions C13_query_roundtrip_partial.

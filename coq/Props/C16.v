(* C16 -- Basic credentials round trip for every user name and password; the composed field is a single line.
   Only final statements here, each closed by [exact] and followed by Print Assumptions.
   Models: Model/Base64.v (concrete base64: encoder, encodebytes line wrapping, CPython's lenient decoder, strict
   decoder), Model/Basic.v (BasicAuthRequestScheme, AuthElement dispatch).  [dc]/[dp] are the Digest branch of the
   element, irrelevant here and universally quantified.  Variants: Repaired = after the D2 fix; AsFound = pinned tree. *)
From Httoop Require Import Lib.Bytes Lib.Variant Gen.Base64T Gen.AuthT Model.Base64 Model.AuthCommon Model.Basic.
From Httoop Require Import Proofs.Base64 Proofs.AuthCommon Proofs.Basic.

(* ---- base64 (concrete): decoding inverts encoding, for every octet string ---- *)
(* base64.decodebytes(base64.encodebytes(x)) == x: CPython's lenient decoder across the 76-character lines *)
Theorem C16_base64_roundtrip : forall x : bytes, decodebytes (encodebytes x) = Some x.
Proof. exact decodebytes_encodebytes. Qed.
Print Assumptions C16_base64_roundtrip.

(* the same for the unbroken encoding and the lenient decoder *)
Theorem C16_base64_roundtrip_unbroken : forall x : bytes, a2b_base64 (b64enc x) = Some x.
Proof. exact a2b_b64enc. Qed.
Print Assumptions C16_base64_roundtrip_unbroken.

(* and for the strict RFC 4648 decoder (alphabet only, canonical padding) *)
Theorem C16_base64_strict_roundtrip : forall x : bytes, b64dec_strict (b64enc x) = Some x.
Proof. exact b64dec_strict_b64enc. Qed.
Print Assumptions C16_base64_strict_roundtrip.

(* the strict decoder accepts nothing but the canonical unbroken encodings (so the encoder is injective and the
   lenient decoder agrees with the strict one wherever the latter accepts) *)
Theorem C16_base64_strict_canonical : forall s x : bytes, b64dec_strict s = Some x -> s = b64enc x.
Proof. exact b64dec_strict_canonical. Qed.
Print Assumptions C16_base64_strict_canonical.
Theorem C16_base64_strict_implies_lenient : forall s x : bytes, b64dec_strict s = Some x -> a2b_base64 s = Some x.
Proof. exact strict_implies_lenient. Qed.
Print Assumptions C16_base64_strict_implies_lenient.

(* removing the line breaks of encodebytes gives the unbroken encoding, whatever the length *)
Theorem C16_unwrap : forall x : bytes, remove_byte B64NL (encodebytes x) = b64enc x.
Proof. exact filter_nl_encodebytes. Qed.
Print Assumptions C16_unwrap.

(* the encoding consists of alphabet and pad characters only: no whitespace, no line break, no colon, no '?' *)
Theorem C16_base64_alphabet : forall x : bytes, forallb is_b64out (b64enc x) = true /\ forallb harmless (b64enc x) = true.
Proof. exact (fun x => conj (b64enc_out x) (b64enc_harmless x)). Qed.
Print Assumptions C16_base64_alphabet.

(* ---- clause 2: the composed field value is  "Basic" SP unbroken-base64(user ":" password)  for EVERY length,
        for every spelling of the scheme name the registry accepts, for Authorization and Proxy-Authorization alike ---- *)
Theorem C16_single_line : forall dc value d u p,
  scheme_of value = Some 0%N -> d_username d = Some u -> d_password d = Some p ->
  auth_compose dc Repaired value d = Ok (L "Basic" ++ [SP] ++ b64enc (cred u p)).
Proof. exact basic_single_line. Qed.
Print Assumptions C16_single_line.

(* ---- clause 1: compose then parse returns exactly (user, password): user without colon, password arbitrary ---- *)
Theorem C16_roundtrip : forall dc dp value d u p,
  scheme_of value = Some 0%N -> d_username d = Some u -> d_password d = Some p ->
  absent COLON u = true ->
  basic_rt dc dp Repaired Repaired value d = POk (L "Basic") [(L "username", u); (L "password", p)].
Proof. exact basic_roundtrip. Qed.
Print Assumptions C16_roundtrip.
(* ... and that clause needs only the split-at-the-first-colon half of the repair: with either composer *)
Theorem C16_roundtrip_any_wrapping : forall dc dp wv value d u p,
  scheme_of value = Some 0%N -> d_username d = Some u -> d_password d = Some p ->
  absent COLON u = true ->
  basic_rt dc dp Repaired wv value d = POk (L "Basic") [(L "username", u); (L "password", p)].
Proof. exact basic_roundtrip_anywrap. Qed.
Print Assumptions C16_roundtrip_any_wrapping.
(* the hypotheses are satisfiable by a password with colons, an empty user name, a spelling in capitals *)
Example C16_roundtrip_nonvacuous :
  scheme_of (L "BASIC") = Some 0%N /\ absent COLON (L "") = true /\
  basic_rt (fun _ => Err ENotImpl) (fun _ => Err ENotImpl) Repaired Repaired (L "BASIC") (mk_basic (L "") (L "a:b::c"))
    = POk (L "Basic") [(L "username", L ""); (L "password", L "a:b::c")].
Proof. vm_compute. repeat split; reflexivity. Qed.

(* credentials without any colon are refused (both variants) *)
Theorem C16_reject_no_colon : forall dp sv x, absent COLON x = true ->
  auth_parse dp sv (L "Basic" ++ [SP] ++ b64enc x) = PErr ENoColon.
Proof. exact basic_reject_no_colon. Qed.
Print Assumptions C16_reject_no_colon.

(* ---- pinned tree (finding D2): the full statements are false, true for colon-free passwords on one base64 line ---- *)
Theorem C16_asfound_partial : forall dc dp value d u p,
  scheme_of value = Some 0%N -> d_username d = Some u -> d_password d = Some p ->
  absent COLON u = true -> absent COLON p = true -> (length (cred u p) <= N.to_nat B64_MAXBIN)%nat ->
  auth_compose dc AsFound value d = Ok (L "Basic" ++ [SP] ++ b64enc (cred u p)) /\
  basic_rt dc dp AsFound AsFound value d = POk (L "Basic") [(L "username", u); (L "password", p)].
Proof.
  exact (fun dc dp value d u p Hs Hu Hp Hc Hc' Hl =>
    conj (basic_single_line_asfound dc value d u p Hs Hu Hp Hl) (basic_roundtrip_asfound dc dp value d u p Hs Hu Hp Hc Hc' Hl)).
Qed.
Print Assumptions C16_asfound_partial.
Example C16_asfound_partial_nonvacuous :
  absent COLON (L "admin") = true /\ absent COLON (L "12345") = true /\ Nat.leb (length (cred (L "admin") (L "12345"))) (N.to_nat B64_MAXBIN) = true.
Proof. vm_compute. repeat split; reflexivity. Qed.

Theorem C16_asfound_split_refuted : forall dc dp, exists u p, absent COLON u = true /\
  basic_rt dc dp AsFound Repaired (L "Basic") (mk_basic u p) <> POk (L "Basic") [(L "username", u); (L "password", p)].
Proof. exact basic_split_asfound_refuted. Qed.
Print Assumptions C16_asfound_split_refuted.

Theorem C16_asfound_wrap_refuted : forall dc, exists u p field, absent COLON u = true /\
  auth_compose dc AsFound (L "Basic") (mk_basic u p) = Ok field /\ contains_byte B64NL field = true.
Proof. exact basic_wrap_asfound_refuted. Qed.
Print Assumptions C16_asfound_wrap_refuted.

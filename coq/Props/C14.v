(* C14 -- Content codings and media-type codecs are lossless.
   Only final statements here, each closed by [exact] and followed by Print Assumptions.
   Variants (Lib/Variant.v): AsFound = the tree as pinned, Repaired = after the one-idea repairs
   D12 (Body.decompress octet-transparent), D50 (deflate decoder reads every stream), D51 / D52 (part / message
   without header fields).  The T1 probes in Gen/CodecsT.v say which variant the working tree is. *)
From Httoop Require Import Lib.Bytes Lib.Split Lib.Variant Gen.CodecsT Gen.PercentT Model.Headers Model.Percent Model.Codecs
  Proofs.CodecsSplit Proofs.CodecsHdr Proofs.CodecsMp Proofs.CodecsBody Proofs.Form.

(* ================================================================== gzip / deflate through the body object *)
(* CPython callees: gz/gunz = gzip.GzipFile write/read, zc = zlib.compress, zd1 = zlib.decompress,
   zst = zlib.decompressobj().decompress (output, unused_data); cs_enc = str.encode(body charset). *)

(* every octet string, both codings; vd = AsFound needs zlib.decompress(zlib.compress x) = x,
   vd = Repaired needs decompressobj to return (x, rest) on compress(x) ++ rest and compress(x) to be non-empty *)
Theorem C14_body_coding : forall gz gunz zc zd1 zst cs_enc vd c x,
  ((forall x, gunz (gz x) = Some x) /\
   match vd with
   | AsFound => forall x, zd1 (zc x) = Some x
   | Repaired => (forall x r, zst (zc x ++ r) = Some (x, r)) /\ (forall x, zc x <> [])
   end) ->
  body_decompress gunz zd1 zst cs_enc Repaired vd (Some c) (body_compress gz zc (Some c) x) = COk x.
Proof. exact body_coding_roundtrip. Qed.
Print Assumptions C14_body_coding.

(* before the D12 repair: only content Codec.decode(data, None) can decode (default_decodable: the T1 class, ASCII)
   in a body whose charset leaves that text alone *)
Theorem C14_body_coding_asfound_partial : forall gz gunz zc zd1 zst cs_enc vd c x,
  callees_ok gz gunz zc zd1 zst vd -> default_decodable x = true -> cs_enc x = x ->
  body_decompress gunz zd1 zst cs_enc AsFound vd (Some c) (body_compress gz zc (Some c) x) = COk x.
Proof. exact body_coding_roundtrip_asfound. Qed.
Print Assumptions C14_body_coding_asfound_partial.

(* D12: before the repair EVERY body with an octet outside that class ends in UnicodeDecodeError, whatever zlib/gzip do *)
Theorem C14_binary_fails_asfound : forall gz gunz zc zd1 zst cs_enc vd c x,
  callees_ok gz gunz zc zd1 zst vd -> default_decodable x = false ->
  body_decompress gunz zd1 zst cs_enc AsFound vd (Some c) (body_compress gz zc (Some c) x) = CUnicodeError.
Proof. exact body_coding_binary_fails. Qed.
Print Assumptions C14_binary_fails_asfound.
(* D53: ASCII content of a body declared UTF-16 comes back re-encoded *)
Theorem C14_charset_refuted : exists cs x, default_decodable x = true /\
  forall gz gunz zc zd1 zst vd c, callees_ok gz gunz zc zd1 zst vd ->
  body_decompress gunz zd1 zst (cs_apply cs) AsFound vd (Some c) (body_compress gz zc (Some c) x) <> COk x.
Proof. exact body_coding_charset_refuted. Qed.
Print Assumptions C14_charset_refuted.

Example C14_binary_fails_nonvacuous : default_decodable [x80] = false /\ default_decodable [x61; x0a; x7f] = true.
Proof. vm_compute. split; reflexivity. Qed.

(* the callee hypotheses used above and below are jointly satisfiable *)
Example C14_callees_satisfiable : exists gz gunz zc zd1 zst,
  callees_ok gz gunz zc zd1 zst Repaired /\ callees_ok gz gunz zc zd1 zst AsFound /\ gzip_members gz gunz /\
  zlib_first_stream zc zd1 /\ zlib_empty_error zd1.
Proof. exact callees_satisfiable. Qed.

(* ================================================================== ... and through the wire *)
(* the composer applies the coding to every piece of at most BODY_MAX_CHUNK octets (Body.__iter__); the parser
   hands the concatenation to Body.decompress.  Pieces: *)
Theorem C14_pieces_concat : forall d, concat_bytes (pieces BODY_MAX_CHUNK d) = d.
Proof. exact (fun d => pieces_concat BODY_MAX_CHUNK d max_chunk_pos). Qed.
Print Assumptions C14_pieces_concat.
Theorem C14_pieces_bounds : forall d, Forall (fun p => p <> [] /\ (length p <= BODY_MAX_CHUNK)%nat) (pieces BODY_MAX_CHUNK d).
Proof. exact (fun d => pieces_bounds BODY_MAX_CHUNK d max_chunk_pos). Qed.
Print Assumptions C14_pieces_bounds.

(* every octet string of every length.  gzip: GzipFile.read returns the concatenation of all members;
   deflate (repaired decoder): decompressobj yields (x, rest) on compress(x) ++ rest *)
Theorem C14_wire_coding : forall gz gunz zc zd1 zst cs_enc vd c x,
  match c with
  | Gzip => forall xs, gunz (concat_bytes (map gz xs)) = Some (concat_bytes xs)
  | Deflate => match vd with
               | Repaired => (forall x r, zst (zc x ++ r) = Some (x, r)) /\ (forall x, zc x <> [])
               | AsFound => False
               end
  end ->
  wire_roundtrip gz gunz zc zd1 zst cs_enc Repaired vd c x = COk x.
Proof. exact wire_coding_roundtrip. Qed.
Print Assumptions C14_wire_coding.

Theorem C14_wire_coding_asfound_partial : forall gz gunz zc zd1 zst cs_enc vd c x,
  wire_callees_ok gz gunz zc zst vd c -> default_decodable x = true -> cs_enc x = x ->
  wire_roundtrip gz gunz zc zd1 zst cs_enc AsFound vd c x = COk x.
Proof. exact wire_coding_roundtrip_asfound. Qed.
Print Assumptions C14_wire_coding_asfound_partial.

(* D50 (pinned deflate decoder = zlib.decompress, which stops after the first stream): the first piece only *)
Theorem C14_wire_deflate_asfound_first_piece : forall gz gunz zc zd1 zst cs_enc vt x,
  (forall x r, zd1 (zc x ++ r) = Some x) -> x <> [] ->
  wire_roundtrip gz gunz zc zd1 zst cs_enc vt AsFound Deflate x =
  match vt with
  | AsFound => if default_decodable (firstn BODY_MAX_CHUNK x) then COk (body_set_text cs_enc (firstn BODY_MAX_CHUNK x)) else CUnicodeError
  | Repaired => COk (firstn BODY_MAX_CHUNK x)
  end.
Proof. exact wire_deflate_asfound_first_piece. Qed.
Print Assumptions C14_wire_deflate_asfound_first_piece.
Theorem C14_wire_deflate_asfound_refuted : forall gz gunz zc zd1 zst cs_enc x,
  (forall x r, zd1 (zc x ++ r) = Some x) -> (BODY_MAX_CHUNK < length x)%nat ->
  wire_roundtrip gz gunz zc zd1 zst cs_enc Repaired AsFound Deflate x <> COk x.
Proof. exact wire_deflate_asfound_truncates. Qed.
Print Assumptions C14_wire_deflate_asfound_refuted.
Theorem C14_wire_deflate_asfound_empty_refuted : forall gz gunz zc zd1 zst cs_enc vt,
  zd1 [] = None -> wire_roundtrip gz gunz zc zd1 zst cs_enc vt AsFound Deflate [] = CDecodeError.
Proof. exact wire_deflate_asfound_empty. Qed.
Print Assumptions C14_wire_deflate_asfound_empty_refuted.

(* ================================================================== multipart (httoop's own framing) *)
(* general form: bytes(part.headers) is a callee; it is acceptable (hb_ok) when Headers.parse reads it back as h.
   part_sep_ok / close_ok are the PRECISE conditions "the delimiter first occurs where the encoder put it"
   (C14_first_occurrence_iff below): they include occurrences straddling the part / delimiter seams. *)
Theorem C14_multipart_general : forall v dct bd (ps : list (bytes * hdrs * bytes)),
  close_ok bd = true ->
  forallb (fun p => hb_ok v (fst (fst p)) (snd (fst p)) && part_sep_ok bd (fst (fst p), snd p)) ps = true ->
  mp_decode v dct bd (mp_encode bd (map (fun p => (fst (fst p), snd p)) ps))
  = MpOk (map (fun p => (with_ct dct (snd (fst p)), snd p)) ps).
Proof. exact multipart_general. Qed.
Print Assumptions C14_multipart_general.

Theorem C14_first_occurrence_iff : forall pat X R, pat <> [] ->
  (cut pat (X ++ pat ++ R) = Some (X, R) <-> no_early pat X = true).
Proof. exact (fun pat X R Hp => conj (cut_first_conv pat X R Hp) (cut_first pat X R Hp)). Qed.
Print Assumptions C14_first_occurrence_iff.

(* concrete form: header sets composed by Headers.compose (fields composed as one line), for EVERY list of parts,
   every binary content, every boundary without CR / LF:
     part_ok bd p = well-formed header set, delimiter "--"bd neither in the composed header block nor in the content.
   No straddle condition is left: a boundary without CR / LF cannot straddle a seam, every seam being a CRLF.
   The decoded part carries its own fields (in composed order) plus the default Content-Type when it had none. *)
Theorem C14_multipart : forall dct bd (ps : list (hdrs * bytes)),
  bd_clean bd = true -> forallb (part_ok bd) ps = true ->
  mp_decode Repaired dct bd (mp_encode bd (map enc_part ps)) = MpOk (map (dec_part dct) ps).
Proof. exact multipart_roundtrip. Qed.
Print Assumptions C14_multipart.
Example C14_multipart_nonvacuous :
  bd_clean (X "78797a") = true /\
  forallb (part_ok (X "78797a"))
    [ ([(K_CT, X "746578742f706c61696e"); (X "582d41", X "31")], X "00ff0d0a2d2d78790d0a");   (* binary content with CRLF and "--xy" *)
      ([], X "2d2d") ] = true.
Proof. vm_compute. split; reflexivity. Qed.

(* VALID_BOUNDARY (strict reading) implies the boundary condition *)
Theorem C14_valid_boundary_clean : forall bd, boundary_strict bd = true -> bd_clean bd = true.
Proof. exact boundary_strict_clean. Qed.
Print Assumptions C14_valid_boundary_clean.

(* own header fields are kept *)
Theorem C14_multipart_own_headers : forall dct h k, k <> K_CT -> hget k (with_ct dct h) = hget k h.
Proof. exact with_ct_keeps. Qed.
Print Assumptions C14_multipart_own_headers.
Theorem C14_multipart_own_content_type : forall dct h, hmem K_CT h = true -> with_ct dct h = h.
Proof. exact with_ct_present. Qed.
Print Assumptions C14_multipart_own_content_type.
Theorem C14_hsort_permutation : forall h, Permutation.Permutation (hsort h) h.
Proof. exact hsort_perm. Qed.
Print Assumptions C14_hsort_permutation.

(* Headers.parse inverts Headers.compose on well-formed one-line fields (the part C08 will generalise) *)
Theorem C14_headers_block_roundtrip : forall l, l <> [] -> hdrs_wf l = true -> hparse [] (hblock_of l) = Some l.
Proof. exact hparse_hblock. Qed.
Print Assumptions C14_headers_block_roundtrip.
Example C14_hdrs_wf_nonvacuous :
  hdrs_wf [(K_CT, X "746578742f706c61696e3b20636861727365743d5554462d38"); (X "436f6e74656e742d446973706f736974696f6e", X "666f726d2d646174613b206e616d653d22666f6f22")] = true.
Proof. vm_compute. reflexivity. Qed.

(* pinned tree (D51): true when every part has at least one header field; refuted otherwise *)
Theorem C14_multipart_asfound_partial : forall dct bd ps,
  bd_clean bd = true -> forallb (part_ok bd) ps = true -> forallb has_fields ps = true ->
  mp_decode AsFound dct bd (mp_encode bd (map enc_part ps)) = MpOk (map (dec_part dct) ps).
Proof. exact multipart_roundtrip_asfound. Qed.
Print Assumptions C14_multipart_asfound_partial.
Theorem C14_multipart_asfound_refuted : exists dct bd ps, bd_clean bd = true /\ forallb (part_ok bd) ps = true /\
  mp_decode AsFound dct bd (mp_encode bd (map enc_part ps)) <> MpOk (map (dec_part dct) ps).
Proof. exact multipart_asfound_refuted. Qed.
Print Assumptions C14_multipart_asfound_refuted.
(* the side condition of the property is needed *)
Theorem C14_multipart_delimiter_in_content_refuted : exists v dct bd ps, bd_clean bd = true /\
  forallb (fun p => hdrs_wf (fst p)) ps = true /\
  mp_decode v dct bd (mp_encode bd (map enc_part ps)) <> MpOk (map (dec_part dct) ps).
Proof. exact multipart_delimiter_in_content_refuted. Qed.
Print Assumptions C14_multipart_delimiter_in_content_refuted.

(* ================================================================== message/http *)
(* slp = the start-line parsers (Request.parse, else Response.parse); line = the composed start line without CRLF.
   Arbitrary binary body. *)
Theorem C14_http : forall (SL : Type) (slp : bytes -> option SL) line m h body,
  cut CRLF line = None -> slp line = Some m -> hdrs_wf h = true ->
  http_decode slp Repaired (http_encode (line ++ CRLF) (hcompose_sorted (hsort h)) body) = HtOk m (hsort h) body.
Proof. exact (fun SL slp line m h body Hl Hs Hw => @http_roundtrip_v SL slp Repaired line m h body Hl Hs Hw eq_refl). Qed.
Print Assumptions C14_http.
Theorem C14_http_general : forall (SL : Type) (slp : bytes -> option SL) v line m blk h body,
  cut CRLF line = None -> slp line = Some m -> hparse [] blk = Some h -> no_early CRLF2 blk = true ->
  http_decode slp v (http_encode (line ++ CRLF) (blk ++ CRLF2) body) = HtOk m h body.
Proof. exact @http_roundtrip_general. Qed.
Print Assumptions C14_http_general.
(* pinned tree (D52): at least one header field *)
Theorem C14_http_asfound_partial : forall (SL : Type) (slp : bytes -> option SL) line m h body,
  cut CRLF line = None -> slp line = Some m -> hdrs_wf h = true -> negb (is_nil h) = true ->
  http_decode slp AsFound (http_encode (line ++ CRLF) (hcompose_sorted (hsort h)) body) = HtOk m (hsort h) body.
Proof. exact (fun SL slp line m h body Hl Hs Hw Hn => @http_roundtrip_v SL slp AsFound line m h body Hl Hs Hw Hn). Qed.
Print Assumptions C14_http_asfound_partial.
Theorem C14_http_asfound_refuted : exists (line body : bytes), cut CRLF line = None /\
  http_decode (fun _ => Some tt) AsFound (http_encode (line ++ CRLF) (hcompose_sorted (hsort [])) body) <> HtOk tt [] body.
Proof. exact http_asfound_refuted. Qed.
Print Assumptions C14_http_asfound_refuted.

(* ================================================================== json, text/plain, form (thin wrappers) *)
(* enc/dec = str.encode / bytes.decode per charset, dumps/loads = json: Section parameters.  Hypotheses:
   a charset decodes what it encoded; json.dumps output (ASCII) encoded as UTF-8 decodes as ASCII; loads (dumps v) = v *)
Theorem C14_plain_text : forall (text : Type) enc dec cs (t : text) b,
  (forall cs t b, enc cs t = Some b -> dec cs b = Some t) ->
  plain_encode enc cs t = Some b -> plain_decode dec cs b = Some t.
Proof. exact @plain_roundtrip. Qed.
Print Assumptions C14_plain_text.
Theorem C14_json : forall (text J : Type) enc dec (dumps : J -> text) loads cs v b,
  (forall cs t b, enc cs t = Some b -> dec cs b = Some t) ->
  (forall v b, enc UTF8 (dumps v) = Some b -> dec ASCII b = Some (dumps v)) ->
  (forall v, loads (dumps v) = Some v) ->
  json_encode enc dumps cs v = Some b -> json_decode dec loads cs b = JOk v.
Proof. exact @json_roundtrip. Qed.
Print Assumptions C14_json.
(* form-urlencoded: the proved C13 theorem (two-digit escapes); the pinned one-digit escapes are refuted (D1, known) *)
Theorem C14_form : forall (text : Type) (enc : text -> bytes) (dec : bytes -> option text),
  (forall t, dec (enc t) = Some t) -> forall ps, Forall (fun p => enc (fst p) <> []) ps ->
  form_decode_text dec (form_encode_text enc Repaired FORM_UNQUOTED ps) = Some ps.
Proof. exact (fun text enc dec H ps Hp => @form_roundtrip_text text enc dec H FORM_UNQUOTED ps form_unquoted_ok Hp). Qed.
Print Assumptions C14_form.
Theorem C14_form_asfound_refuted :
  exists ps, Forall (fun p => fst p <> []) ps /\ form_decode (form_encode AsFound FORM_UNQUOTED ps) <> ps.
Proof. exact form_roundtrip_asfound_refuted. Qed.
Print Assumptions C14_form_asfound_refuted.

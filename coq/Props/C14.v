(* C14 -- placeholder while the models are validated *)
From Httoop Require Import Model.Codecs.
Theorem C14_placeholder : DASH2 = DASH2.
Proof. exact eq_refl. Qed.
Print Assumptions C14_placeholder.

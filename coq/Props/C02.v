(* C02 -- placeholder while the parser model is being validated; theorems follow *)
From Httoop Require Import Model.Parser.
Theorem C02_placeholder : init = init.
Proof. exact eq_refl. Qed.
Print Assumptions C02_placeholder.

(* C02 -- pipelined well-formed messages are delivered exactly, in order and isolated.
   Final statements only; for EVERY callee record and both state machines; stated on the reference machine
   (Model/Parser.v [reference]); C01 relates the implementation's machine to it on quiet runs. *)
From Coq Require Import ZArith.
From Httoop Require Import Model.Parser Proofs.ParserFrag Proofs.ParserWf Corr.Parser.

(* Isolation / pipelining: if [a] is parsed into complete messages leaving the machine idle, then for ANY
   following octets [b] the deliveries are those of [a] followed by exactly the deliveries of [b] parsed
   alone -- each message depends on its own octets only. *)
Theorem C02_isolation : forall (C : callees) (k : kind) a b ms,
  parse reference C k init a = (init, ms, None) ->
  parse reference C k init (a ++ b) = let '(s2, m2, e) := parse reference C k init b in (s2, ms ++ m2, e).
Proof. exact pipelining. Qed.
Print Assumptions C02_isolation.

(* Truncation: for every cut point p|q of every stream, what the prefix delivers is a prefix of what the whole
   stream delivers and the remainder is delivered from the retained state: nothing lost, nothing early. *)
Theorem C02_truncation : forall (C : callees) (k : kind) p q,
  match parse reference C k init p with
  | (s1, m1, None) => exists s2 m2 e, parse reference C k s1 q = (s2, m2, e) /\ parse reference C k init (p ++ q) = (s2, m1 ++ m2, e)
  | (_, m1, Some e) => parse reference C k init (p ++ q) = (init, m1, Some e)
  end.
Proof. exact truncation. Qed.
Print Assumptions C02_truncation.

(* Exact delivery of a Content-Length framed message (partial: the chunked counterpart is validated by the
   correspondence run and by C04's composer/parser theorem, not proved here): start line without CRLF accepted
   by the start-line callee, a header block that Headers.parse reads as h and that contains no empty line,
   Content-Length = decimal |body|, no Transfer-Encoding / Content-Encoding; followed by any octets [rest].
   The message is delivered with exactly that line, those header fields and that body, and [rest] is parsed as
   if it stood alone. *)
Theorem C02_content_length_message_partial : forall (C : callees) (k : kind) line info block h body rest,
  cut CRLF line = None -> c_start C line = SlOk info ->
  block <> [] -> prefixb CRLF block = false -> cut (CRLF ++ CRLF) (block ++ CRLF) = None ->
  hparse [] block = Some h ->
  (match k with Server => p11 info && negb (hmem K_HOST h) | Client => false end) = false ->
  c_hdrs C (p11 info) h = HOk -> hget K_TE h = None -> hget K_CE h = None ->
  hget K_CL h = Some (dec_of_N (N.of_nat (length body))) ->
  (N.of_nat (length (dec_of_N (N.of_nat (length body)))) <= INT_MAX_STR_DIGITS)%N ->
  (match k with Server => nobody info && nonempty_b body | Client => false end) = false ->
  parse reference C k init (line ++ CRLF ++ block ++ CRLF ++ CRLF ++ body ++ rest) =
  let '(s2, m2, e) := parse reference C k init rest in (s2, {| m_line := line; m_hdrs := h; m_body := body |} :: m2, e).
Proof. exact content_length_message_exact. Qed.
Print Assumptions C02_content_length_message_partial.

(* non-vacuity: a concrete response with a 3-octet body satisfies every hypothesis *)
Definition T : tables := {|
  t_start := [(X "485454502f312e3120323030204f4b", SlOk {| p11 := true; nobody := false |})];
  t_hdrs := [((true, [(X "436f6e74656e742d4c656e677468", X "33"); (X "582d41", X "62")]), HOk)];
  t_decode := []; t_2047 := []; t_trailer := [] |}.
Example C02_example :
  let block := X "436f6e74656e742d4c656e6774683a20330d0a782d613a2062" in
  let h := [(X "436f6e74656e742d4c656e677468", X "33"); (X "582d41", X "62")] in
  hparse [] block = Some h /\ cut (CRLF ++ CRLF) (block ++ CRLF) = None /\ hget K_CL h = Some (dec_of_N 3) /\
  c_hdrs (callees_of T) true h = HOk.
Proof. vm_compute. auto. Qed.

(* C02 -- pipelined well-formed messages are delivered exactly, in order and isolated.
   Final statements only; for EVERY callee record and both state machines; stated on the reference machine
   (Model/Parser.v [reference]); C01 relates the implementation's machine to it on quiet runs. *)
From Coq Require Import ZArith.
From Httoop Require Import Model.Parser Model.Composer Proofs.ParserFrag Proofs.ParserFraming Proofs.ParserWf Proofs.Http1ReaderP Proofs.ParserQuiet Proofs.ParserChunked Proofs.ParserCut Corr.Parser.

(* Isolation / pipelining: if [a] is parsed into complete messages leaving the machine idle, then for ANY
   following octets [b] the deliveries are those of [a] followed by exactly the deliveries of [b] parsed
   alone -- each message depends on its own octets only. *)
Theorem C02_isolation : forall (C : callees) (k : kind) a b ms,
  parse reference C k init a = (init, ms, None) ->
  parse reference C k init (a ++ b) = let '(s2, m2, e) := parse reference C k init b in (s2, ms ++ m2, e).
Proof. exact pipelining. Qed.
Print Assumptions C02_isolation.

(* Truncation: for every cut point p|q of every stream, what the prefix delivers is a prefix of what the whole
   stream delivers and the remainder is delivered from the retained state: nothing lost, nothing early. *)
Theorem C02_truncation : forall (C : callees) (k : kind) p q,
  match parse reference C k init p with
  | (s1, m1, None) => exists s2 m2 e, parse reference C k s1 q = (s2, m2, e) /\ parse reference C k init (p ++ q) = (s2, m1 ++ m2, e)
  | (_, m1, Some e) => parse reference C k init (p ++ q) = (init, m1, Some e)
  end.
Proof. exact truncation. Qed.
Print Assumptions C02_truncation.

(* Exact delivery of a Content-Length framed message: start line without CRLF accepted
   by the start-line callee, a header block that Headers.parse reads as h and that contains no empty line,
   Content-Length = decimal |body|, no Transfer-Encoding / Content-Encoding; followed by any octets [rest].
   The message is delivered with exactly that line, those header fields and that body, and [rest] is parsed as
   if it stood alone. *)
Theorem C02_content_length_message : forall (C : callees) (k : kind) line info block h body rest,
  cut CRLF line = None -> c_start C line = SlOk info ->
  block <> [] -> prefixb CRLF block = false -> cut (CRLF ++ CRLF) (block ++ CRLF) = None ->
  hparse [] block = Some h ->
  (match k with Server => p11 info && negb (hmem K_HOST h) | Client => false end) = false ->
  c_hdrs C (p11 info) h = HOk -> connect_response C k line = false -> hget K_TE h = None -> hget K_CE h = None ->
  hget K_CL h = Some (dec_of_N (N.of_nat (length body))) ->
  (N.of_nat (length (dec_of_N (N.of_nat (length body)))) <= INT_MAX_STR_DIGITS)%N ->
  (match k with Server => nobody info && nonempty_b body | Client => false end) = false ->
  parse reference C k init (line ++ CRLF ++ block ++ CRLF ++ CRLF ++ body ++ rest) =
  let '(s2, m2, e) := parse reference C k init rest in (s2, {| m_line := line; m_hdrs := h; m_body := body |} :: m2, e).
Proof. exact content_length_message_exact. Qed.
Print Assumptions C02_content_length_message.

(* Exact delivery of a chunked message as any sender may write it: ANY partition of the payload into non-empty
   chunks [cs] (data, chunk-ext), sizes in hexadecimal as "%x" prints them (upper-case digits, leading zeros and
   blanks after the size are validated by the correspondence run, not part of this statement), an extension on every
   chunk and on the last-chunk (";..." without LF), no trailer fields; followed by any octets [rest]: delivered with
   Content-Length = decimal payload length, Transfer-Encoding removed, body = the concatenated chunk data, and
   [rest] parsed as if it stood alone. *)
Theorem C02_chunked_message : forall (C : callees) (k : kind) line info block h cs e0 rest,
  cut CRLF line = None -> c_start C line = SlOk info -> p11 info = true ->
  block <> [] -> prefixb CRLF block = false -> cut (CRLF ++ CRLF) (block ++ CRLF) = None ->
  hparse [] block = Some h ->
  (match k with Server => negb (hmem K_HOST h) | Client => false end) = false ->
  c_hdrs C true h = HOk -> connect_response C k line = false -> hget K_TE h = Some CHUNKED -> hget K_CE h = None ->
  forallb chunk_ok cs = true -> ext_ok e0 = true ->
  (match k with Server => nobody info && nonempty_b (concat_bytes (map fst cs)) | Client => false end) = false ->
  parse reference C k init (line ++ CRLF ++ block ++ CRLF ++ CRLF ++ (concat_bytes (map wchunk cs) ++ wlast e0 ++ CRLF ++ rest)) =
  let '(s2, m2, e) := parse reference C k init rest in
  (s2, {| m_line := line; m_hdrs := hdel K_TE (hset K_CL (dec_of_N (N.of_nat (List.length (concat_bytes (map fst cs))))) h);
          m_body := concat_bytes (map fst cs) |} :: m2, e).
Proof. exact chunked_message_exact. Qed.
Print Assumptions C02_chunked_message.

(* ... and with a trailer section [tblock] that Headers.parse reads as [tr], whose fields are all announced by the
   Trailer field ([merge_trailers] leaves nothing over): the announced fields are merged into the header fields. *)
Theorem C02_chunked_message_trailers : forall (C : callees) (k : kind) line info block h cs e0 tblock tr tv ns h' rest,
  cut CRLF line = None -> c_start C line = SlOk info -> p11 info = true ->
  block <> [] -> prefixb CRLF block = false -> cut (CRLF ++ CRLF) (block ++ CRLF) = None ->
  hparse [] block = Some h ->
  (match k with Server => negb (hmem K_HOST h) | Client => false end) = false ->
  c_hdrs C true h = HOk -> connect_response C k line = false -> hget K_TE h = Some CHUNKED -> hget K_CE h = None ->
  forallb chunk_ok cs = true -> ext_ok e0 = true ->
  tblock <> [] -> prefixb CRLF tblock = false -> cut (CRLF ++ CRLF) (tblock ++ CRLF) = None ->
  hparse [] tblock = Some tr ->
  hget K_TRAILER h = Some tv -> nonempty_b tv = true -> c_trailer C tv = TrOk ns ->
  merge_trailers C ns h tr = inl (h', []) ->
  (match k with Server => nobody info && nonempty_b (concat_bytes (map fst cs)) | Client => false end) = false ->
  parse reference C k init (line ++ CRLF ++ block ++ CRLF ++ CRLF ++ (concat_bytes (map wchunk cs) ++ wlast e0 ++ tblock ++ CRLF ++ CRLF ++ rest)) =
  let '(s2, m2, e) := parse reference C k init rest in
  (s2, {| m_line := line; m_hdrs := hdel K_TE (hset K_CL (dec_of_N (N.of_nat (List.length (concat_bytes (map fst cs))))) h');
          m_body := concat_bytes (map fst cs) |} :: m2, e).
Proof. exact chunked_message_trailers. Qed.
Print Assumptions C02_chunked_message_trailers.

(* THE SEQUENCE STATEMENT.  [wmsg] (Proofs/ParserChunked.v) is one message as a sender writes it: start line, header
   block, and a body framed by Content-Length ([WLen body]), or as ANY list of non-empty chunks with extensions and a
   last-chunk extension ([WChunked cs e0]), or the same followed by a trailer section whose fields were all announced
   ([WTrailers ..]); [w_ok] is the conjunction of the hypotheses of the single-message
   theorems above (syntactic validity + the callees accept it); [w_wire] its octets, [w_delivered] the message the
   application must receive.  For ANY list of valid messages the concatenation of their octets is delivered as exactly
   those messages in order, with no error, and the machine is idle with an empty buffer afterwards. *)
Theorem C02_pipeline : forall (C : callees) (k : kind) (ms : list (wmsg)),
  Forall (w_ok C k) ms ->
  parse reference C k init (concat_bytes (map w_wire ms)) = (init, map w_delivered ms, None).
Proof. exact pipeline_delivered. Qed.
Print Assumptions C02_pipeline.

(* ... and whatever follows them (an incomplete message, garbage) is handled after they have been delivered *)
Theorem C02_pipeline_then : forall (C : callees) (k : kind) (ms : list (wmsg)) (tail : bytes),
  Forall (w_ok C k) ms ->
  parse reference C k init (concat_bytes (map w_wire ms) ++ tail) =
  let '(s2, m2, e) := parse reference C k init tail in (s2, map w_delivered ms ++ m2, e).
Proof. exact pipeline_then. Qed.
Print Assumptions C02_pipeline_then.

(* ... under ANY way of cutting those octets into successive parse() calls (one call, one call per octet, anything between) *)
Theorem C02_pipeline_fragmented : forall (C : callees) (k : kind) (ms : list wmsg) (frags : list bytes),
  Forall (w_ok C k) ms -> concat_bytes frags = concat_bytes (map w_wire ms) ->
  run_keep reference C k init frags = (init, map w_delivered ms, None).
Proof. exact pipeline_fragmented. Qed.
Print Assumptions C02_pipeline_fragmented.

(* ... and for the machine AS IMPLEMENTED ([real]: LF fallback, 411 peek, eager consumption of header lines), for every
   fragmentation on which it does not take one of its two buffer-dependent shortcuts (the computable [quiet_run] of C01;
   the shortcuts are findings D13 / D14).  This composes C01's simulation (eager vs lazy header parsing) and bridge
   (real vs eager) with the sequence theorem. *)
Theorem C02_pipeline_fragmented_real : forall (C : callees) (k : kind) (ms : list wmsg) (frags : list bytes),
  Forall (w_ok C k) ms -> concat_bytes frags = concat_bytes (map w_wire ms) ->
  quiet_run C k init frags = true ->
  run_keep real C k init frags = (init, map w_delivered ms, None).
Proof. exact pipeline_fragmented_real. Qed.
Print Assumptions C02_pipeline_fragmented_real.

(* ... and for the CLIENT machine as implemented NO hypothesis about the run is needed (C01_client_quiet: the client has no 411
   peek, and the LF fallback cannot fire on a stream of valid messages whose status lines contain no LF): every
   fragmentation of any pipeline of valid responses is delivered exactly. *)
Theorem C02_client_pipeline_fragmented_real : forall (C : callees) (ms : list wmsg) (frags : list bytes),
  Forall (w_ok C Client) ms -> Forall (fun m => no_lf (w_line m) = true) ms ->
  concat_bytes frags = concat_bytes (map w_wire ms) ->
  run_keep real C Client init frags = (init, map w_delivered ms, None).
Proof. exact client_pipeline_fragmented_real. Qed.
Print Assumptions C02_client_pipeline_fragmented_real.

(* ... and for the SERVER machine as implemented, likewise WITHOUT any hypothesis about the run or the hooks: valid messages
   are framed (Content-Length or chunked), so the 411 peek never fires on them.  (Proof: the run under the hook that
   additionally refuses unframed header sections satisfies C01_server_quiet; it ends without error, and a run that
   ends without error under that hook is step for step a run under the given one.)  Together with the client
   statement: EVERY fragmentation of ANY pipeline of valid messages with LF-free start lines is delivered exactly by
   the machines as implemented. *)
Theorem C02_server_pipeline_fragmented_real : forall (C : callees) (ms : list wmsg) (frags : list bytes),
  Forall (w_ok C Server) ms -> Forall (fun m => no_lf (w_line m) = true) ms ->
  concat_bytes frags = concat_bytes (map w_wire ms) ->
  run_keep real C Server init frags = (init, map w_delivered ms, None).
Proof. exact server_pipeline_fragmented_real_unconditional. Qed.
Print Assumptions C02_server_pipeline_fragmented_real.

(* The last sentence of the property - "when the stream is cut at any point exactly the messages wholly contained in the
   received prefix have been delivered while the rest is retained, not lost or delivered early" - for the machines AS
   IMPLEMENTED: in a pipeline ms1 ++ m :: ms2 of valid messages cut INSIDE m (w_wire m = p ++ q, q non-empty; p may be empty,
   i.e. the cut may also be a message boundary), EVERY fragmentation of the received prefix delivers exactly ms1 and raises
   nothing (m is not delivered early), and from the state reached EVERY fragmentation of the remainder delivers exactly
   m :: ms2 and ends idle (nothing is lost, nothing is delivered twice). *)
Theorem C02_cut_anywhere_reference : forall (C : callees) (k : kind) (ms1 ms2 : list wmsg) (m : wmsg) (p q : bytes),
  Forall (w_ok C k) (ms1 ++ m :: ms2) -> w_wire m = p ++ q -> q <> nil ->
  forall frags, concat_bytes frags = concat_bytes (map w_wire ms1) ++ p ->
  exists s1, run_keep reference C k init frags = (s1, map w_delivered ms1, None) /\
    forall frags2, concat_bytes frags2 = q ++ concat_bytes (map w_wire ms2) ->
      run_keep reference C k s1 frags2 = (init, map w_delivered (m :: ms2), None).
Proof. exact cut_pipeline_reference. Qed.
Print Assumptions C02_cut_anywhere_reference.

Theorem C02_client_cut_anywhere_real : forall (C : callees) (ms1 : list wmsg) (m : wmsg) (ms2 : list wmsg) (p q : bytes) (frags : list bytes),
  Forall (w_ok C Client) (ms1 ++ m :: ms2) -> Forall (fun x => no_lf (w_line x) = true) (ms1 ++ m :: ms2) ->
  w_wire m = p ++ q -> q <> nil -> concat_bytes frags = concat_bytes (map w_wire ms1) ++ p ->
  exists s1, run_keep real C Client init frags = (s1, map w_delivered ms1, None) /\
    forall frags2, concat_bytes frags2 = q ++ concat_bytes (map w_wire ms2) ->
      run_keep real C Client s1 frags2 = (init, map w_delivered (m :: ms2), None).
Proof. exact client_cut_anywhere. Qed.
Print Assumptions C02_client_cut_anywhere_real.

Theorem C02_server_cut_anywhere_real : forall (C : callees) (ms1 : list wmsg) (m : wmsg) (ms2 : list wmsg) (p q : bytes) (frags : list bytes),
  Forall (w_ok C Server) (ms1 ++ m :: ms2) -> Forall (fun x => no_lf (w_line x) = true) (ms1 ++ m :: ms2) ->
  w_wire m = p ++ q -> q <> nil -> concat_bytes frags = concat_bytes (map w_wire ms1) ++ p ->
  exists s1, run_keep real C Server init frags = (s1, map w_delivered ms1, None) /\
    forall frags2, concat_bytes frags2 = q ++ concat_bytes (map w_wire ms2) ->
      run_keep real C Server s1 frags2 = (init, map w_delivered (m :: ms2), None).
Proof. exact server_cut_anywhere. Qed.
Print Assumptions C02_server_cut_anywhere_real.

(* The one configuration in which the client machine must NOT read a body: the message whose framing fields it strips
   ([c_connect]: a successful response to its CONNECT request, RFC 7231 4.3.6) ends with its header section whatever
   Transfer-Encoding / Content-Length it carries; it is delivered with an empty body, without those fields, with
   Content-Length: 0, and the octets after the empty line are parsed as what follows. *)
Theorem C02_connect_response_message : forall (C : callees) line info block h rest,
  cut CRLF line = None -> c_start C line = SlOk info ->
  block <> [] -> prefixb CRLF block = false -> cut (CRLF ++ CRLF) (block ++ CRLF) = None ->
  hparse [] block = Some h ->
  c_hdrs C (p11 info) h = HOk -> c_connect C line = true -> hget K_CE h = None ->
  parse reference C Client init (line ++ CRLF ++ block ++ CRLF ++ CRLF ++ rest) =
  let '(s2, m2, e) := parse reference C Client init rest in
  (s2, {| m_line := line; m_hdrs := hset K_CL (dec_of_N 0) (hdel K_TE (hdel K_CL h)); m_body := [] |} :: m2, e).
Proof. exact connect_response_message. Qed.
Print Assumptions C02_connect_response_message.

(* non-vacuity, evaluated: "HTTP/1.1 200 OK" + "Content-Length: 3" + "X-A: b" read by a CONNECT client, followed by "abc" *)
Example C02_connect_example :
  let TC := {| t_start := [(X "485454502f312e3120323030204f4b", SlOk {| p11 := true; nobody := false |})];
               t_hdrs := [((true, [(X "436f6e74656e742d4c656e677468", X "33"); (X "582d41", X "62")]), HOk)];
               t_decode := []; t_2047 := []; t_trailer := []; t_connect := [(X "485454502f312e3120323030204f4b", true)] |} in
  parse reference (callees_of TC) Client init (X "485454502f312e3120323030204f4b0d0a436f6e74656e742d4c656e6774683a20330d0a782d613a20620d0a0d0a616263") =
  ({| buf := X "616263"; cur := None |}, [{| m_line := X "485454502f312e3120323030204f4b"; m_hdrs := [(X "582d41", X "62"); (X "436f6e74656e742d4c656e677468", X "30")]; m_body := [] |}], None).
Proof. vm_compute. reflexivity. Qed.

(* non-vacuity: a concrete response with a 3-octet body satisfies every hypothesis *)
Definition T : tables := {|
  t_start := [(X "485454502f312e3120323030204f4b", SlOk {| p11 := true; nobody := false |})];
  t_hdrs := [((true, [(X "436f6e74656e742d4c656e677468", X "33"); (X "582d41", X "62")]), HOk)];
  t_decode := []; t_2047 := []; t_trailer := []; t_connect := [] |}.
(* ... and a chunk list with extensions is well-formed *)
Example C02_chunks_example : forallb chunk_ok [(X "616263", X "3b783d79"); (X "64", [])] = true /\ ext_ok (X "3b6c617374") = true.
Proof. vm_compute. auto. Qed.

(* non-vacuity of [w_ok]: a Content-Length message and a chunked message with extensions, both valid for the table [T2] *)
Definition T2 : tables := {|
  t_start := [(X "485454502f312e3120323030204f4b", SlOk {| p11 := true; nobody := false |})];
  t_hdrs := [((true, [(X "436f6e74656e742d4c656e677468", X "33"); (X "582d41", X "62")]), HOk);
             ((true, [(X "5472616e736665722d456e636f64696e67", X "6368756e6b6564")]), HOk)];
  t_decode := []; t_2047 := []; t_trailer := []; t_connect := [] |}.
Definition M1 : wmsg := {| w_line := X "485454502f312e3120323030204f4b"; w_info := {| p11 := true; nobody := false |};
  w_block := X "436f6e74656e742d4c656e6774683a20330d0a782d613a2062";
  w_hdrs := [(X "436f6e74656e742d4c656e677468", X "33"); (X "582d41", X "62")]; w_fr := WLen (X "616263") |}.
Definition M2 : wmsg := {| w_line := X "485454502f312e3120323030204f4b"; w_info := {| p11 := true; nobody := false |};
  w_block := X "5472616e736665722d456e636f64696e673a206368756e6b6564";
  w_hdrs := [(X "5472616e736665722d456e636f64696e67", X "6368756e6b6564")];
  w_fr := WChunked [(X "616263", X "3b783d79"); (X "64", [])] (X "3b6c617374") |}.
Example C02_pipeline_example : w_ok (callees_of T2) Client M1 /\ w_ok (callees_of T2) Client M2 /\
  parse reference (callees_of T2) Client init (concat_bytes (map w_wire [M1; M2; M1])) = (init, map w_delivered [M1; M2; M1], None).
Proof.
  assert (H1 : w_ok (callees_of T2) Client M1) by (unfold w_ok; vm_compute; repeat split; try reflexivity; discriminate).
  assert (H2 : w_ok (callees_of T2) Client M2) by (unfold w_ok; vm_compute; repeat split; try reflexivity; discriminate).
  split; [exact H1 | split; [exact H2 | apply C02_pipeline; apply Forall_cons; [exact H1 | apply Forall_cons; [exact H2 | apply Forall_cons; [exact H1 | apply Forall_nil]]]]].
Qed.

(* the per-octet feeding of that three-message pipeline to the machine as implemented is quiet: the hypothesis of
   C02_pipeline_fragmented_real is satisfiable with a non-trivial fragmentation *)
Example C02_pipeline_real_example :
  quiet_run (callees_of T2) Client init (map (fun c => [c]) (concat_bytes (map w_wire [M1; M2; M1]))) = true.
Proof. vm_compute. reflexivity. Qed.

Example C02_example :
  let block := X "436f6e74656e742d4c656e6774683a20330d0a782d613a2062" in
  let h := [(X "436f6e74656e742d4c656e677468", X "33"); (X "582d41", X "62")] in
  hparse [] block = Some h /\ cut (CRLF ++ CRLF) (block ++ CRLF) = None /\ hget K_CL h = Some (dec_of_N 3) /\
  c_hdrs (callees_of T) true h = HOk.
Proof. vm_compute. auto. Qed.

(* non-vacuity of the cut statement: the pipeline [M1; M2; M1] cut 40 octets into M2 (inside its chunked body) *)
Example C02_cut_example :
  let p := firstn 40 (w_wire M2) in let q := skipn 40 (w_wire M2) in
  w_wire M2 = p ++ q /\ q <> nil /\ Forall (w_ok (callees_of T2) Client) ([M1] ++ M2 :: [M1]) /\
  Forall (fun x => no_lf (w_line x) = true) ([M1] ++ M2 :: [M1]) /\
  (let r := run_keep real (callees_of T2) Client init (map (fun c => [c]) (concat_bytes (map w_wire [M1]) ++ p)) in
   snd (fst r) = map w_delivered [M1] /\ snd r = None /\ fst (fst r) <> init).
Proof.
  assert (H1 : w_ok (callees_of T2) Client M1) by (unfold w_ok; vm_compute; repeat split; try reflexivity; discriminate).
  assert (H2 : w_ok (callees_of T2) Client M2) by (unfold w_ok; vm_compute; repeat split; try reflexivity; discriminate).
  cbv zeta. split; [symmetry; apply firstn_skipn|]. split; [vm_compute; discriminate|].
  split; [cbn [app]; apply Forall_cons; [exact H1 | apply Forall_cons; [exact H2 | apply Forall_cons; [exact H1 | apply Forall_nil]]]|].
  split; [cbn [app]; apply Forall_cons; [reflexivity | apply Forall_cons; [reflexivity | apply Forall_cons; [reflexivity | apply Forall_nil]]]|].
  vm_compute. split; [reflexivity | split; [reflexivity | discriminate]].
Qed.

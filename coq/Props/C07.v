(* C07 -- delivered framing headers match the body; trailers cannot smuggle fields.
   Final statements only.  All theorems hold for EVERY instantiation of the callees (start-line
   parser, header-semantics hooks, content decoder, RFC 2047 decoder, Trailer element parser). *)
From Coq Require Import ZArith.
From Httoop Require Import Model.Parser Proofs.ParserFraming Corr.Parser.

(* T1 obligation: the working tree overwrites Content-Length when chunked framing decided the body (fix D4) *)
Theorem C07_cl_overwrite_when_chunked : CL_VARIANT = Repaired.
Proof. exact cl_variant_repaired. Qed.
Print Assumptions C07_cl_overwrite_when_chunked.

(* Main theorem: for every callee record, both state machines, every stream and every way of cutting
   it into parse() calls, every delivered message that carries no Content-Encoding has a Content-Length
   equal to the number of delivered body octets (literally the decimal length when the parser wrote it,
   numerically under the library's own integer reading when the peer's value was kept) and no
   Transfer-Encoding -- except the HTTP/1.0 case of known finding D5, which the statement names. *)
Theorem C07_delivered_framing : forall (cfg : config) (C : callees) (k : kind) (frags : list bytes),
  match feed cfg C k init frags with (_, ms, _) => Forall (framing_ok C) ms end.
Proof. intros cfg C k frags. apply feed_framing. exact (J_init C). Qed.
Print Assumptions C07_delivered_framing.

(* the same for a single completed message, from the completion invariant *)
Theorem C07_completion : forall cfg C k i b m, complete_ok C i -> on_body_complete cfg C k i b = inl m -> framing_ok C m.
Proof. exact on_body_complete_framing. Qed.
Print Assumptions C07_completion.

(* Trailers: after a completed trailer section every field name of the message was already a header
   field or is a name announced by the Trailer field; fields under other names keep exactly their value
   (so Content-Length, Transfer-Encoding and Trailer cannot be set unless the Trailer callee announces
   them, which Trailer.sanitize forbids -- tied by T2); membership never shrinks. *)
Theorem C07_trailer_subset : forall C i b i' b', parse_trailers C i b = Done i' b' ->
  i' = i \/
  (exists ns v, hget K_TRAILER (i_hdrs i) = Some v /\ (c_trailer C v = TrOk ns \/ ns = []) /\
     (forall key, hmem key (i_hdrs i') = true -> hmem key (i_hdrs i) = true \/ In key (map canon ns)) /\
     (forall key, hmem key (i_hdrs i) = true -> hmem key (i_hdrs i') = true) /\
     (forall key, ~ In key (map canon ns) -> hget key (i_hdrs i') = hget key (i_hdrs i)) /\
     i' = set_hdrs i (i_hdrs i')) \/
  (hget K_TRAILER (i_hdrs i) = None /\ i' = set_hdrs i (i_hdrs i') /\ i_hdrs i' = i_hdrs i).
Proof. exact parse_trailers_done_spec. Qed.
Print Assumptions C07_trailer_subset.

(* an unannounced trailer field makes the message fail with 400 *)
Theorem C07_untold_trailer_400 : forall C i b block rest tr ns h' x tr',
  prefixb (le_bytes (i_le i)) b = false ->
  cut (le_bytes (i_le i) ++ le_bytes (i_le i)) b = Some (block, rest) -> hparse [] block = Some tr ->
  (match hget K_TRAILER (i_hdrs i) with None => TrOk [] | Some v => if nonempty_b v then c_trailer C v else TrOk [] end) = TrOk ns ->
  merge_trailers C ns (i_hdrs i) tr = inl (h', x :: tr') ->
  parse_trailers C i b = Fail (EHttp 400).
Proof. exact parse_trailers_untold_is_400. Qed.
Print Assumptions C07_untold_trailer_400.

(* non-vacuity: a response sent with a stale Content-Length and chunked framing, cut in the middle,
   is delivered with Content-Length 3, the three body octets and no Transfer-Encoding *)
Definition ex_tables : tables := {|
  t_start := [(X "485454502f312e3120323030204f4b", SlOk {| p11 := true; nobody := false |})];
  t_hdrs := [((true, [(X "436f6e74656e742d4c656e677468", X "31"); (X "5472616e736665722d456e636f64696e67", X "6368756e6b6564")]), HOk)];
  t_decode := []; t_2047 := []; t_trailer := []; t_connect := [] |}.
Example C07_example :
  feed real (callees_of ex_tables) Client init
    [X "485454502f312e3120323030204f4b0d0a436f6e74656e742d4c656e6774683a20310d0a5472616e736665722d456e636f64696e673a206368756e6b65640d0a0d0a330d0a61";
     X "62630d0a300d0a0d0a"]
  = ({| buf := []; cur := None |},
     [{| m_line := X "485454502f312e3120323030204f4b";
         m_hdrs := [(X "436f6e74656e742d4c656e677468", X "33")]; m_body := X "616263" |}], None).
Proof. vm_compute. reflexivity. Qed.

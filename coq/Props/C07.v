(* C07 -- placeholder while the parser model is being validated; theorems follow *)
From Httoop Require Import Model.Parser.
Theorem C07_placeholder : init = init.
Proof. exact eq_refl. Qed.
Print Assumptions C07_placeholder.

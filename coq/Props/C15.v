(* C15 -- HTTP dates are canonical, round-trip and do not depend on the local time zone.
   Only final statements here, each closed by [exact] and followed by Print Assumptions.

   [parse] is the model of int(Date.parse(text)) with the repaired conversion (calendar.timegm);
   [parse_v AsFound dst] is the pinned conversion (time.mktime(t) - time.timezone), where [dst] is what the
   zone's daylight-saving rules subtract at a given local time.  [compose t] models bytes(Date(t));
   [write850] / [write_asctime] are reference writers of the two obsolete forms (validated against an
   independent RFC 7231 rendering in T2).  [in_range t] is 0 <= t <= 253402300799 (9999-12-31 23:59:59). *)
From Coq Require Import ZArith List.
From Httoop Require Import Lib.Bytes Lib.Variant Model.DateCal Gen.DateT Model.Date Proofs.DateCal Proofs.Date.
Import ListNotations.
Local Open Scope Z_scope.

(* ---- clause 1: every instant of the range is serialised in the fixed-length IMF-fixdate form ... *)
Theorem C15_fixed_length : forall t, in_range t = true -> List.length (compose t) = 29%nat.
Proof. exact compose_length. Qed.
Print Assumptions C15_fixed_length.

(* ... with the right weekday: the text starts with the name of weekday(t div 86400), where the epoch is a
   Thursday (tm_wday 3), each day advances the weekday by one modulo 7, and the regenerated name tables of
   Date.__compose are RFC 7231's day-name / month lists in tm_wday / tm_mon order *)
Theorem C15_weekday : forall t, exists rest, compose t = nthb WDAY_ABBR (weekday (t / 86400)) ++ COMMA :: SP :: rest.
Proof. exact compose_weekday. Qed.
Print Assumptions C15_weekday.
Theorem C15_weekday_spec : weekday 0 = 3 /\ forall d, weekday (d + 1) = (weekday d + 1) mod 7.
Proof. exact (conj weekday_epoch weekday_succ). Qed.
Print Assumptions C15_weekday_spec.
Theorem C15_tables_rfc7231 :
  WDAY_ABBR = [X "4d6f6e"; X "547565"; X "576564"; X "546875"; X "467269"; X "536174"; X "53756e"] /\
  MONTH_ABBR = [X "4a616e"; X "466562"; X "4d6172"; X "417072"; X "4d6179"; X "4a756e";
                X "4a756c"; X "417567"; X "536570"; X "4f6374"; X "4e6f76"; X "446563"] /\
  IMF_SEPS = [[COMMA; SP]; [SP]; [SP]; [SP]; [COLON]; [COLON]; SP :: GMT] /\ IMF_WIDTHS = [2; 4; 2; 2; 2].
Proof. exact tables_rfc7231. Qed.
Print Assumptions C15_tables_rfc7231.

(* ---- clause 2: parsing that text gives back the same instant -- for EVERY second of the range *)
Theorem C15_roundtrip_imf : forall t, in_range t = true -> parse (compose t) = POk t.
Proof. exact parse_compose. Qed.
Print Assumptions C15_roundtrip_imf.
Example C15_in_range_nonvacuous : in_range 784111777 = true /\ in_range 0 = true /\ in_range 253402300799 = true.
Proof. repeat split. Qed.

(* ... and so does the same instant written in the asctime form *)
Theorem C15_roundtrip_asctime : forall t, in_range t = true -> parse (write_asctime t) = POk t.
Proof. exact parse_write_asctime. Qed.
Print Assumptions C15_roundtrip_asctime.

(* ... and in the RFC 850 form.  Full statement:
     forall t, in_range t = true -> parse (write850 t) = POk t
   It is false of ANY reader, because the form carries a two-digit year: two instants of the range have the
   same RFC 850 text ([C15_rfc850_ambiguous]); with the POSIX pivot that CPython applies the first instant that is
   read back wrongly is 2069-01-01 00:00:00 ([C15_rfc850_beyond_refuted]).  Proved for 1970-01-01 .. 2068-12-31. *)
Theorem C15_roundtrip_rfc850_partial : forall t, in_range_850 t = true -> parse (write850 t) = POk t.
Proof. exact parse_write850. Qed.
Print Assumptions C15_roundtrip_rfc850_partial.
Example C15_in_range_850_nonvacuous : in_range_850 784111777 = true /\ in_range_850 3124223999 = true.
Proof. repeat split. Qed.
Theorem C15_rfc850_ambiguous :
  exists t1 t2, in_range t1 = true /\ in_range t2 = true /\ t1 <> t2 /\ write850 t1 = write850 t2.
Proof. exact write850_ambiguous. Qed.
Print Assumptions C15_rfc850_ambiguous.
Theorem C15_rfc850_beyond_refuted :
  in_range (MAX_T_850 + 1) = true /\ parse (write850 (MAX_T_850 + 1)) <> POk (MAX_T_850 + 1).
Proof. exact parse_write850_beyond. Qed.
Print Assumptions C15_rfc850_beyond_refuted.

(* the calendar underneath: days -> civil -> days is the identity on ALL integers (negative days and years
   included), months and days are in range, and timegm inverts gmtime on every integer instant *)
Theorem C15_calendar_inverse : forall z,
  let '(y, m, d) := civil_from_days z in days_from_civil y m d = z /\ 1 <= m <= 12 /\ 1 <= d <= 31.
Proof. exact days_civil_days. Qed.
Print Assumptions C15_calendar_inverse.
Theorem C15_timegm_gmtime : forall t,
  let g := gmtime t in timegm (tm_year g) (tm_mon g) (tm_mday g) (tm_hour g) (tm_min g) (tm_sec g) = t.
Proof. exact timegm_gmtime. Qed.
Print Assumptions C15_timegm_gmtime.

(* ---- clause 4: comparisons between dates agree with comparisons of the instants, whichever of the three
   forms each side is written in, whether the right-hand side is a Date or the bare text *)
Theorem C15_order : forall f1 f2 t1 t2 dst, form_ok f1 t1 = true -> form_ok f2 t2 = true ->
  date_cmp Repaired dst (DText (write f1 t1)) (DText (write f2 t2)) = Some (cmp_ints t1 t2).
Proof. exact date_cmp_texts. Qed.
Print Assumptions C15_order.
Example C15_form_ok_nonvacuous : form_ok FImf 962409600 = true /\ form_ok F850 962409600 = true /\ form_ok FAsc 962409600 = true.
Proof. repeat split. Qed.
Theorem C15_order_operators : forall a b,
  c_lt (cmp_ints a b) = (a <? b) /\ c_gt (cmp_ints a b) = (a >? b) /\ c_eq (cmp_ints a b) = (a =? b) /\
  c_ne (cmp_ints a b) = negb (a =? b) /\ c_le (cmp_ints a b) = (a <=? b) /\ c_ge (cmp_ints a b) = (a >=? b).
Proof. exact cmp_ints_spec. Qed.
Print Assumptions C15_order_operators.

(* ---- clause 3: the zone.  The repaired conversion never consults it (for every text, valid or not) ... *)
Theorem C15_zone_independent : forall dst1 dst2 text, parse_v Repaired dst1 text = parse_v Repaired dst2 text.
Proof. exact parse_repaired_zone_free. Qed.
Print Assumptions C15_zone_independent.
(* ... the pinned conversion is off by exactly the zone's daylight-saving shift (finding D3): the full statement
     forall dst t, in_range t = true -> parse_v AsFound dst (compose t) = POk t
   holds only where the shift is zero *)
Theorem C15_asfound_partial : forall dst t, in_range t = true -> parse_v AsFound dst (compose t) = POk (t - dst t).
Proof. exact parse_compose_asfound. Qed.
Print Assumptions C15_asfound_partial.
Theorem C15_asfound_zone_refuted : exists dst t, in_range t = true /\ parse_v AsFound dst (compose t) <> POk t.
Proof. exact parse_asfound_zone_refuted. Qed.
Print Assumptions C15_asfound_zone_refuted.

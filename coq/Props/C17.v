(* C17 -- Digest responses equal the RFC 2617/7616 computation; parameters survive compose/parse; verification accepts
   exactly matching credentials.  Only final statements here, each closed by [exact] and followed by Print Assumptions.
   Model: Model/Digest.v (DigestAuthRequestScheme) under the element layer of Model/Basic.v.  The hash function
   H : N -> bytes -> bytes (0 = hex MD5, 1 = hex SHA-256) is universally quantified; [fresh] is the nonce generate_nonce
   would produce.  Variants: Repaired = after the D22 fix, AsFound = pinned tree. *)
From Httoop Require Import Lib.Bytes Lib.Variant Gen.AuthT Model.AuthCommon Model.Basic Model.Digest.
From Httoop Require Import Proofs.AuthCommon Proofs.Digest.

(* ---- clause 1: the computed response is the RFC 2617 3.2.2 request-digest, for every tuple of values and all of
        qop in {absent, auth, auth-int} x algorithm in {absent, MD5, MD5-sess}; [rfc_response] is written from the RFC ---- *)
Theorem C17_response_rfc : forall H q a t resp opaque,
  calc_digest H Repaired (client q a t None resp opaque) = Ok (rfc_response H q a t).
Proof. exact calc_digest_rfc. Qed.
Print Assumptions C17_response_rfc.

(* the same when the MD5-sess session key A1 is handed in instead of being recomputed *)
Theorem C17_response_rfc_cached_A1 : forall H q t resp opaque, rfc_A1 H AMD5sess t <> [] ->
  calc_digest H Repaired (client q AMD5sess t (Some (rfc_A1 H AMD5sess t)) resp opaque) = Ok (rfc_response H q AMD5sess t).
Proof. exact calc_digest_rfc_cached_A1. Qed.
Print Assumptions C17_response_rfc_cached_A1.

(* pinned tree (finding D22): eight of the nine combinations; auth-int with the algorithm left out raises KeyError *)
Theorem C17_response_rfc_asfound_partial : forall H q a t resp opaque, d22_free q a = true ->
  calc_digest H AsFound (client q a t None resp opaque) = Ok (rfc_response H q a t).
Proof. exact calc_digest_rfc_asfound. Qed.
Print Assumptions C17_response_rfc_asfound_partial.
Example C17_response_rfc_asfound_partial_nonvacuous : d22_free QAuthInt AMD5 = true /\ d22_free QNone AUnspec = true.
Proof. split; reflexivity. Qed.
Theorem C17_response_asfound_refuted : forall H t resp opaque,
  calc_digest H AsFound (client QAuthInt AUnspec t None resp opaque) = Err (EKey (L "algorithm")).
Proof. exact calc_digest_asfound_refuted. Qed.
Print Assumptions C17_response_asfound_refuted.

(* ---- clause 2: the response and all other parameters survive composing and parsing the Authorization /
        Proxy-Authorization field.  Full statement: for all values over printable ASCII.  That is false (finding D23:
        comma, double quote, backslash; RFC 2047 path: equals sign followed by question mark), so the theorem carries the
        boolean hypothesis [tuple_ok]: none of these in the values that travel, no bare whitespace at the ends of an unquoted value, non-empty nonce.  The hash only
        has to print lower-case hexadecimal. ---- *)
Theorem C17_params_survive_partial : forall H fresh, (forall x, hexlike (H 0%N x) = true) ->
  forall sv wv value q a t opaque, scheme_of value = Some 1%N -> tuple_ok t opaque = true ->
  digest_rt H fresh sv wv value (client q a t None None opaque)
    = POk (L "Digest") (plist q a t opaque (rfc_response H q a t)).
Proof. exact digest_roundtrip. Qed.
Print Assumptions C17_params_survive_partial.
(* satisfiable with '/', ':', '@', '=', '?', '&' and spaces in the values *)
Example C17_params_survive_nonvacuous :
  tuple_ok (mkT (L "Mufasa") (L "testrealm@host.com") (L "Circle Of Life") (L "dcd98b7102dd2f0e8b11d0f600bfb0c093")
                (L "00000001") (L "0a4f113b") (L "GET") (L "/dir/index.html?a=b&c=d e:f") (L "body"))
           (Some (L "5ccc069c403ebaf9f0171e9517f40e41")) = true.
Proof. exact tuple_ok_mufasa. Qed.
Theorem C17_params_survive_refuted :
  (forall x, hexlike (H_const 0%N x) = true) /\ scheme_of (L "Digest") = Some 1%N /\
  digest_rt H_const (L "") Repaired Repaired (L "Digest") (client QNone AUnspec t_comma None None None)
    <> POk (L "Digest") (plist QNone AUnspec t_comma None (rfc_response H_const QNone AUnspec t_comma)).
Proof. exact digest_roundtrip_comma_refuted. Qed.
Print Assumptions C17_params_survive_refuted.

(* the same at the level of the scheme class: DigestAuthRequestScheme.parse(DigestAuthRequestScheme.compose(p)) *)
Theorem C17_scheme_roundtrip_partial : forall H fresh, (forall x, hexlike (H 0%N x) = true) ->
  forall q a t opaque, tuple_ok t opaque = true ->
  exists field, digest_compose H fresh Repaired (client q a t None None opaque) = Ok field /\
                digest_parse field = Ok (plist q a t opaque (rfc_response H q a t)).
Proof. exact digest_scheme_roundtrip. Qed.
Print Assumptions C17_scheme_roundtrip_partial.

(* ---- clause 3: verification.  check() returns true exactly when the realms are equal and the digest recomputed
        from the server's data is the presented one ... ---- *)
Theorem C17_check_iff_digest : forall H v d rp,
  digest_check H v d rp = Ok true <->
  exists realm resp, d_realm d = Some realm /\ lookup (L "realm") rp = Some realm /\
                     calc_digest H v d = Ok resp /\ lookup (L "response") rp = Some resp.
Proof. exact check_true_iff. Qed.
Print Assumptions C17_check_iff_digest.
Theorem C17_check_decides : forall H v d rp realm realm' resp resp',
  d_realm d = Some realm -> lookup (L "realm") rp = Some realm' ->
  calc_digest H v d = Ok resp -> lookup (L "response") rp = Some resp' ->
  digest_check H v d rp = Ok (bytes_eqb realm realm' && bytes_eqb resp resp').
Proof. exact check_false_iff. Qed.
Print Assumptions C17_check_decides.

(* ... and it accepts the field a client composed when the server holds the same password and request data
   ("rejects every other password" is collision resistance of MD5: not a theorem, see C17_check_decides).
   MD5-sess without qop transmits no cnonce (RFC 2617 forbids it), so that combination needs the cached session key. *)
Theorem C17_check_sound : forall H q a t opaque, verifiable q a = true ->
  let ps := plist q a t opaque (rfc_response H q a t) in
  digest_check H Repaired (server_info ps (t_realm t) (t_passwd t) (t_method t) (t_body t) None) ps = Ok true.
Proof. exact check_accepts. Qed.
Print Assumptions C17_check_sound.
Theorem C17_check_sound_cached_A1 : forall H q t opaque, rfc_A1 H AMD5sess t <> [] ->
  let ps := plist q AMD5sess t opaque (rfc_response H q AMD5sess t) in
  digest_check H Repaired (server_info ps (t_realm t) (t_passwd t) (t_method t) (t_body t) (Some (rfc_A1 H AMD5sess t))) ps = Ok true.
Proof. exact check_accepts_cached_A1. Qed.
Print Assumptions C17_check_sound_cached_A1.

(* compose on the client, parse on the server, verify: all three together *)
Theorem C17_end_to_end_partial : forall H fresh, (forall x, hexlike (H 0%N x) = true) ->
  forall sv wv value q a t opaque, scheme_of value = Some 1%N -> tuple_ok t opaque = true -> verifiable q a = true ->
  match digest_rt H fresh sv wv value (client q a t None None opaque) with
  | POk _ ps => digest_check H Repaired (server_info ps (t_realm t) (t_passwd t) (t_method t) (t_body t) None) ps = Ok true
  | _ => False
  end.
Proof. exact digest_end_to_end. Qed.
Print Assumptions C17_end_to_end_partial.

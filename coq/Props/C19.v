(* C19 -- Quality values order content negotiation.
   Only final statements here, each closed by [exact] and followed by Print Assumptions.
   Model: Model/Accept.v ([elements star f] = Headers.elements(name) for Accept, Accept-Charset, Accept-Encoding,
   Accept-Language, TE; [star] = the field class rewrites "*" to "*/*").  The value float() gives to a q text is a
   parameter [parse_q : bool -> bytes -> qres Q] (QVal v | QBad = ValueError | QUnk = outside the model), its == and <
   are [qeqb], [qltb]; [float_order] says they come from one total preorder (IEEE doubles without NaN; NaN and the
   infinities are refused after the repair of D24).  All theorems hold for every such instance and for field values of
   any length; [FOk es] is the only outcome in which elements are returned. *)
From Coq Require Import ZArith Sorting.Sorted Sorting.Permutation.
From Httoop Require Import Model.ElemLex Model.Accept Proofs.ElemLex Proofs.SortLemmas Proofs.Accept Proofs.AcceptRender.
Local Open Scope N_scope.

Example C19_float_order_nonvacuous : float_order Z.eqb Z.ltb Z.leb.
Proof. exact float_order_Z. Qed.

(* the comparison handed to sorted() (__lt__: quality, then rendered text) is a strict weak order on the elements
   of a field (all qualities numeric, k = true, or all None, k = false) *)
Theorem C19_lt_strict_weak_order : forall (Q : Type) (qeqb qltb qleb : Q -> Q -> bool),
  float_order qeqb qltb qleb -> forall k : bool,
  (forall a : @elem Q, uniform k a -> lt_elem qeqb qltb a a = false) /\
  (forall a b c, uniform k a -> uniform k b -> uniform k c ->
     lt_elem qeqb qltb a b = true -> lt_elem qeqb qltb b c = true -> lt_elem qeqb qltb a c = true) /\
  (forall a b c, uniform k a -> uniform k b -> uniform k c ->
     lt_elem qeqb qltb a b = false -> lt_elem qeqb qltb b c = false -> lt_elem qeqb qltb a c = false).
Proof. exact @b_strict_weak_order. Qed.
Print Assumptions C19_lt_strict_weak_order.

(* clause 1: the elements are returned in non-increasing order of quality: no element is followed (at any distance)
   by one of strictly greater quality *)
Theorem C19_sorted : forall (Q : Type) (parse_q : bool -> bytes -> qres Q) (qeqb qltb qleb : Q -> Q -> bool),
  float_order qeqb qltb qleb -> forall (star : bool) (f : bytes) (es : list elem),
  elements parse_q qeqb qltb star f = FOk es ->
  StronglySorted (fun a b => oq_ltb qltb (e_quality a) (e_quality b) = false) es.
Proof. exact @b_sorted. Qed.
Print Assumptions C19_sorted.

(* ... in fact sorted for the full comparison (ties in quality are in descending text order) *)
Theorem C19_sorted_full : forall (Q : Type) (parse_q : bool -> bytes -> qres Q) (qeqb qltb qleb : Q -> Q -> bool),
  float_order qeqb qltb qleb -> forall (star : bool) (f : bytes) (es : list elem),
  elements parse_q qeqb qltb star f = FOk es ->
  StronglySorted (fun a b => lt_elem qeqb qltb a b = false) es.
Proof. exact @b_sorted_elem. Qed.
Print Assumptions C19_sorted_full.

(* "absent meaning 1" *)
Theorem C19_absent_is_one : forall (Q : Type) (parse_q : bool -> bytes -> qres Q) (qeqb qltb : Q -> Q -> bool)
  (star : bool) (f : bytes) (es : list elem) (e : elem) (q1 : Q),
  elements parse_q qeqb qltb star f = FOk es -> In e es ->
  get_param QKEY (e_params e) = None -> parse_q false ONE = QVal q1 -> e_quality e = Some q1.
Proof. exact @elements_absent_is_one. Qed.
Print Assumptions C19_absent_is_one.

(* clause 2: every listed element is returned exactly once with its parameters: the result is a permutation of the
   elements parsed from the comma-separated pieces (split outside double quotes), in particular of the same length *)
Theorem C19_permutation : forall (Q : Type) (parse_q : bool -> bytes -> qres Q) (qeqb qltb : Q -> Q -> bool)
  (star : bool) (f : bytes) (es : list elem),
  elements parse_q qeqb qltb star f = FOk es ->
  exists ps, Forall2 (fun p e => accept_parse parse_q star (strip p) = EOk e) (pieces f) ps /\ Permutation ps es.
Proof. exact @elements_permutation. Qed.
Print Assumptions C19_permutation.

(* clause 2 from the field text, for well-formed elements ([wf_elem]: a value without white space ; , double quote ?,
   lower-case ASCII token parameters with distinct names other than q, a token as q text; rendered "v;k=x;...;q=t" and
   joined with ", "): every listed element is read back with exactly its value, its parameters in order and its q
   parameter, and the field is returned (sorted) whenever every q text (or "1") is a number *)
Theorem C19_element_read_back : forall (Q : Type) (parse_q : bool -> bytes -> qres Q) (star : bool)
  (el : bytes * list (bytes * bytes) * option bytes) (q : Q),
  wf_elem el = true -> parse_q (fst (q_of el)) (snd (q_of el)) = QVal q ->
  accept_parse parse_q star (render_elem el) = EOk (expected star el q).
Proof. exact @accept_parse_render. Qed.
Print Assumptions C19_element_read_back.
Theorem C19_wellformed_field_returned : forall (Q : Type) (parse_q : bool -> bytes -> qres Q) (qeqb qltb : Q -> Q -> bool)
  (star : bool) (els : list (bytes * list (bytes * bytes) * option bytes)) (es0 : list elem),
  els <> [] -> forallb wf_elem els = true ->
  Forall2 (fun el e => exists q, parse_q (fst (q_of el)) (snd (q_of el)) = QVal q /\ e = expected star el q) els es0 ->
  elements parse_q qeqb qltb star (render_field els) = FOk (sorted_rev (lt_elem qeqb qltb) es0).
Proof. exact @elements_render. Qed.
Print Assumptions C19_wellformed_field_returned.
Example C19_wellformed_nonvacuous :
  let els := [(X "746578742f68746d6c", [(X "6c6576656c", X "31")], Some (X "302e37")); (X "2a2f2a", [], None)] in
  forallb wf_elem els = true /\ render_field els = X "746578742f68746d6c3b6c6576656c3d313b713d302e372c202a2f2a".
Proof. vm_compute. split; reflexivity. Qed.

(* the quantifier's "all orderings of the same list": two fields whose listed elements are permutations of one another
   are both accepted, return the same multiset, and the same sequence of qualities *)
Theorem C19_order_invariant : forall (Q : Type) (parse_q : bool -> bytes -> qres Q) (qeqb qltb qleb : Q -> Q -> bool),
  float_order qeqb qltb qleb -> forall (star : bool) (f f' : bytes) (es ps ps' : list elem),
  Forall2 (fun p e => accept_parse parse_q star (strip p) = EOk e) (pieces f) ps ->
  Forall2 (fun p e => accept_parse parse_q star (strip p) = EOk e) (pieces f') ps' ->
  Permutation ps ps' ->
  elements parse_q qeqb qltb star f = FOk es ->
  exists es', elements parse_q qeqb qltb star f' = FOk es' /\ Permutation es es' /\
    Forall2 (fun a b => oq_eqb qeqb (e_quality a) (e_quality b) = true) es es'.
Proof. exact @b_order_invariant. Qed.
Print Assumptions C19_order_invariant.

(* clause 3: a listed element whose non-empty q text is not a number makes the field invalid
   ([q_source] = the text _AcceptElement.parse hands to float(); FUnmodelled can only arise from another element
   of the same field that is outside the model) ... *)
Theorem C19_malformed_q_invalid : forall (Q : Type) (parse_q : bool -> bytes -> qres Q) (qeqb qltb : Q -> Q -> bool)
  (star : bool) (f p : bytes) (b : bool) (t : bytes),
  isnil f = false -> In p (qsplit COMMA f) ->
  q_source (strip p) = Some (b, t) -> isnil t = false -> parse_q b t = QBad ->
  elements parse_q qeqb qltb star f = FInvalid \/ elements parse_q qeqb qltb star f = FUnmodelled.
Proof. exact @malformed_q_invalid. Qed.
Print Assumptions C19_malformed_q_invalid.

(* ... equivalently, on the result: every returned element has a q text that is empty or that float() accepted, and
   its quality is that value *)
Theorem C19_returned_quality_is_number : forall (Q : Type) (parse_q : bool -> bytes -> qres Q) (qeqb qltb : Q -> Q -> bool)
  (star : bool) (f : bytes) (es : list elem) (e : elem),
  elements parse_q qeqb qltb star f = FOk es -> In e es ->
  (isnil (q_text e) = true /\ e_quality e = None) \/
  (isnil (q_text e) = false /\ exists q, parse_q (e_qbytes e) (q_text e) = QVal q /\ e_quality e = Some q).
Proof. exact @elements_quality_is_number. Qed.
Print Assumptions C19_returned_quality_is_number.

(* ... where, for the concrete value function of the correspondence run, "not a number" is exactly: float() raises
   ValueError, or the text reads as NaN or an infinity (repair of D24) *)
Theorem C19_not_a_number_concrete : forall (b : bool) (t : bytes),
  concrete_q b t = QBad <-> (float_parse b t = FErr \/ exists neg w, float_parse b t = FSpecial neg w).
Proof. exact concrete_bad. Qed.
Print Assumptions C19_not_a_number_concrete.
Example C19_malformed_nonvacuous :
  q_source (X "612f623b713d6f6e65") = Some (true, X "6f6e65") /\ concrete_q true (X "6f6e65") = QBad /\
  q_source (X "612f623b713d6e616e") = Some (true, X "6e616e") /\ concrete_q true (X "6e616e") = QBad /\
  celements true (X "632f642c20612f623b713d6f6e65") = FInvalid.
Proof. exact example_malformed. Qed.
Example C19_sorted_nonvacuous :
  match celements true (X "612f623b713d302e352c20632f64") with
  | FOk [e1; e2] => e_value e1 = X "632f64" /\ e_value e2 = X "612f62" /\
                    e_quality e1 = Some (10 ^ 40)%Z /\ e_quality e2 = Some (5 * 10 ^ 39)%Z
  | _ => False
  end.
Proof. exact example_sorted. Qed.

(* Known findings on the faithful model.
   FULL STATEMENTS (false): (a) every returned element has a numeric quality; (b) elements() only ever returns or
   raises InvalidHeader; (c) a field all of whose quality values are numbers is returned.
   D25 (second part), empty q text: (a) refuted by a returned quality None, (b) by a TypeError as soon as another
   element is numeric; the partial version of (a) is C19_returned_quality_is_number (non-empty q text => numeric).
   D25 (first part), accept-ext after q: (c) refuted, the field is invalid although its q text 0.5 is a number. *)
Theorem C19_quality_numeric_refuted : exists es e, celements true (X "612f623b713d") = FOk es /\ In e es /\ e_quality e = None.
Proof. exact empty_q_none. Qed.
Print Assumptions C19_quality_numeric_refuted.
Theorem C19_no_typeerror_refuted : celements true (X "612f623b713d2c20632f64") = FTypeError.
Proof. exact empty_q_typeerror. Qed.
Print Assumptions C19_no_typeerror_refuted.
Theorem C19_accept_ext_refuted :
  celements true (X "746578742f68746d6c3b713d302e353b6578743d31") = FInvalid /\ concrete_q true (X "302e35") = QVal (5 * 10 ^ 39)%Z.
Proof. exact accept_ext_rejected. Qed.
Print Assumptions C19_accept_ext_refuted.

(* C19 -- Quality values order content negotiation.
   Only final statements here, each closed by [exact] and followed by Print Assumptions.
   Model: Model/Accept.v ([elements vq vx star f] = Headers.elements(name) for Accept, Accept-Charset, Accept-Encoding,
   Accept-Language, TE; [star] = the field class rewrites "*" to "*/*").  The value float() gives to a q text is a
   parameter [parse_q : bool -> bytes -> qres Q] (QVal v | QBad = ValueError | QUnk = outside the model), its == and <
   are [qeqb], [qltb]; [float_order] says they come from one total preorder (IEEE doubles without NaN; NaN and the
   infinities are refused after the repair of D24).  All theorems hold for every such instance and for field values of
   any length; [FOk es] is the only outcome in which elements are returned.
   The model is indexed by two variants (Lib/Variant.v): [vq] - an empty q text gives the quality None (AsFound) or is
   handed to float() and refused (Repaired, finding D25-empty-q); [vx] - accept-ext parameters after the quality value
   make the element invalid (AsFound) or are kept as parameters after q (Repaired, finding D25-accept-ext-rejected).
   [C19_tree_is_repaired] says which one the working tree implements (T1 probes, regenerated on every run).  Theorems
   quantified over [vq vx] hold for both; the ones that need a repair name [Repaired]; the [_refuted] ones are the
   witnesses of the two findings on the model of the code as found. *)
From Coq Require Import ZArith Sorting.Sorted Sorting.Permutation.
From Httoop Require Import Model.ElemLex Model.Accept Proofs.ElemLex Proofs.SortLemmas Proofs.Accept Proofs.AcceptRender.
Local Open Scope N_scope.

(* the working tree carries both repairs (breaks, with the old failing inputs reported by the oracle, when one is reverted) *)
Theorem C19_tree_is_repaired : EMPTY_Q_VARIANT = Repaired /\ ACCEPT_EXT_VARIANT = Repaired.
Proof. exact (conj eq_refl eq_refl). Qed.
Print Assumptions C19_tree_is_repaired.

Example C19_float_order_nonvacuous : float_order Z.eqb Z.ltb Z.leb.
Proof. exact float_order_Z. Qed.

(* the comparison handed to sorted() (__lt__: quality, then rendered text) is a strict weak order on the elements
   of a field (all qualities numeric, k = true, or - only as found - all None, k = false) *)
Theorem C19_lt_strict_weak_order : forall (Q : Type) (qeqb qltb qleb : Q -> Q -> bool),
  float_order qeqb qltb qleb -> forall k : bool,
  (forall a : @elem Q, uniform k a -> lt_elem qeqb qltb a a = false) /\
  (forall a b c, uniform k a -> uniform k b -> uniform k c ->
     lt_elem qeqb qltb a b = true -> lt_elem qeqb qltb b c = true -> lt_elem qeqb qltb a c = true) /\
  (forall a b c, uniform k a -> uniform k b -> uniform k c ->
     lt_elem qeqb qltb a b = false -> lt_elem qeqb qltb b c = false -> lt_elem qeqb qltb a c = false).
Proof. exact @b_strict_weak_order. Qed.
Print Assumptions C19_lt_strict_weak_order.

(* clause 1: the elements are returned in non-increasing order of quality: no element is followed (at any distance)
   by one of strictly greater quality *)
Theorem C19_sorted : forall (Q : Type) (parse_q : bool -> bytes -> qres Q) (qeqb qltb qleb : Q -> Q -> bool) (vq vx : variant),
  float_order qeqb qltb qleb -> forall (star : bool) (f : bytes) (es : list elem),
  elements parse_q qeqb qltb vq vx star f = FOk es ->
  StronglySorted (fun a b => oq_ltb qltb (e_quality a) (e_quality b) = false) es.
Proof. exact @b_sorted. Qed.
Print Assumptions C19_sorted.

(* ... in fact sorted for the full comparison (ties in quality are in descending text order) *)
Theorem C19_sorted_full : forall (Q : Type) (parse_q : bool -> bytes -> qres Q) (qeqb qltb qleb : Q -> Q -> bool) (vq vx : variant),
  float_order qeqb qltb qleb -> forall (star : bool) (f : bytes) (es : list elem),
  elements parse_q qeqb qltb vq vx star f = FOk es ->
  StronglySorted (fun a b => lt_elem qeqb qltb a b = false) es.
Proof. exact @b_sorted_elem. Qed.
Print Assumptions C19_sorted_full.

(* "absent meaning 1" *)
Theorem C19_absent_is_one : forall (Q : Type) (parse_q : bool -> bytes -> qres Q) (qeqb qltb : Q -> Q -> bool) (vq vx : variant)
  (star : bool) (f : bytes) (es : list elem) (e : elem) (q1 : Q),
  elements parse_q qeqb qltb vq vx star f = FOk es -> In e es ->
  get_param QKEY (e_params e) = None -> parse_q false ONE = QVal q1 -> e_quality e = Some q1.
Proof. exact @elements_absent_is_one. Qed.
Print Assumptions C19_absent_is_one.

(* clause 2: every listed element is returned exactly once with its parameters: the result is a permutation of the
   elements parsed from the comma-separated pieces (split outside double quotes), in particular of the same length *)
Theorem C19_permutation : forall (Q : Type) (parse_q : bool -> bytes -> qres Q) (qeqb qltb : Q -> Q -> bool) (vq vx : variant)
  (star : bool) (f : bytes) (es : list elem),
  elements parse_q qeqb qltb vq vx star f = FOk es ->
  exists ps, Forall2 (fun p e => accept_parse parse_q vq vx star (strip p) = EOk e) (pieces f) ps /\ Permutation ps es.
Proof. exact @elements_permutation. Qed.
Print Assumptions C19_permutation.

(* clause 2 from the field text, for well-formed elements ([wf_elem vx]: a value without white space ; , double quote ?,
   lower-case ASCII token parameters with distinct names other than q, a token as q text and - when the model supports
   them, vx = Repaired - accept-ext parameters of the same form after it, their names distinct, not q and not the name
   of a media-range parameter; rendered "v;k=x;...;q=t;e=y;..." and joined with ", "): every listed element, with or
   without accept-ext parameters, is read back with exactly its value, its parameters in order (media-range parameters,
   q, accept-ext parameters) and the quality float() gives to its q text, and the field is returned (sorted) whenever
   every q text (or "1") is a number *)
Theorem C19_element_read_back : forall (Q : Type) (parse_q : bool -> bytes -> qres Q) (vq vx : variant) (star : bool)
  (el : xel) (q : Q),
  wf_elem vx el = true -> parse_q (fst (q_of el)) (snd (q_of el)) = QVal q ->
  accept_parse parse_q vq vx star (render_elem el) = EOk (expected star el q).
Proof. exact @accept_parse_render. Qed.
Print Assumptions C19_element_read_back.
Theorem C19_wellformed_field_returned : forall (Q : Type) (parse_q : bool -> bytes -> qres Q) (qeqb qltb : Q -> Q -> bool) (vq vx : variant)
  (star : bool) (els : list xel) (es0 : list elem),
  els <> [] -> forallb (wf_elem vx) els = true ->
  Forall2 (fun el e => exists q, parse_q (fst (q_of el)) (snd (q_of el)) = QVal q /\ e = expected star el q) els es0 ->
  elements parse_q qeqb qltb vq vx star (render_field els) = FOk (sorted_rev (lt_elem qeqb qltb) es0).
Proof. exact @elements_render. Qed.
Print Assumptions C19_wellformed_field_returned.
(* what was well formed for the code as found (no accept-ext parameters) still is *)
Theorem C19_wellformed_monotone : forall (vx : variant) (el : xel), wf_elem AsFound el = true -> wf_elem vx el = true.
Proof. exact wf_elem_mono. Qed.
Print Assumptions C19_wellformed_monotone.
Example C19_wellformed_nonvacuous :
  let els := [(X "746578742f68746d6c", [(X "6c6576656c", X "31")], Some (X "302e37", [])); (X "2a2f2a", [], None)] in
  forallb (wf_elem AsFound) els = true /\ render_field els = X "746578742f68746d6c3b6c6576656c3d313b713d302e372c202a2f2a".
Proof. vm_compute. split; reflexivity. Qed.
(* text/html;level=1;q=0.7;ext=1;tok=x, */*;q=0.1;e=2  is well formed after the repair (and not before) *)
Example C19_wellformed_ext_nonvacuous :
  let els := [(X "746578742f68746d6c", [(X "6c6576656c", X "31")], Some (X "302e37", [(X "657874", X "31"); (X "746f6b", X "78")])); (X "2a2f2a", [], Some (X "302e31", [(X "65", X "32")]))] in
  forallb (wf_elem Repaired) els = true /\ forallb (wf_elem AsFound) els = false /\
  render_field els = X "746578742f68746d6c3b6c6576656c3d313b713d302e373b6578743d313b746f6b3d782c202a2f2a3b713d302e313b653d32".
Proof. vm_compute. repeat split; reflexivity. Qed.

(* the quantifier's "all orderings of the same list": two fields whose listed elements are permutations of one another
   are both accepted, return the same multiset, and the same sequence of qualities *)
Theorem C19_order_invariant : forall (Q : Type) (parse_q : bool -> bytes -> qres Q) (qeqb qltb qleb : Q -> Q -> bool) (vq vx : variant),
  float_order qeqb qltb qleb -> forall (star : bool) (f f' : bytes) (es ps ps' : list elem),
  Forall2 (fun p e => accept_parse parse_q vq vx star (strip p) = EOk e) (pieces f) ps ->
  Forall2 (fun p e => accept_parse parse_q vq vx star (strip p) = EOk e) (pieces f') ps' ->
  Permutation ps ps' ->
  elements parse_q qeqb qltb vq vx star f = FOk es ->
  exists es', elements parse_q qeqb qltb vq vx star f' = FOk es' /\ Permutation es es' /\
    Forall2 (fun a b => oq_eqb qeqb (e_quality a) (e_quality b) = true) es es'.
Proof. exact @b_order_invariant. Qed.
Print Assumptions C19_order_invariant.

(* clause 3: a listed element whose q text is not a number makes the field invalid - for a non-empty q text in both
   variants, for the empty one after the repair ([q_source] = the text _AcceptElement.parse hands to float(): the text up
   to the first ';' after the q separator; FUnmodelled can only arise from another element of the same field that is
   outside the model) ... *)
Theorem C19_malformed_q_invalid : forall (Q : Type) (parse_q : bool -> bytes -> qres Q) (qeqb qltb : Q -> Q -> bool) (vq vx : variant)
  (star : bool) (f p : bytes) (b : bool) (t : bytes),
  isnil f = false -> In p (qsplit COMMA f) ->
  q_source vx (strip p) = Some (b, t) -> vq = Repaired \/ isnil t = false -> parse_q b t = QBad ->
  elements parse_q qeqb qltb vq vx star f = FInvalid \/ elements parse_q qeqb qltb vq vx star f = FUnmodelled.
Proof. exact @malformed_q_invalid. Qed.
Print Assumptions C19_malformed_q_invalid.

(* ... after the repair without any exception: whatever float() refuses, the empty text included, makes the field invalid *)
Theorem C19_malformed_q_invalid_repaired : forall (Q : Type) (parse_q : bool -> bytes -> qres Q) (qeqb qltb : Q -> Q -> bool) (vx : variant)
  (star : bool) (f p : bytes) (b : bool) (t : bytes),
  isnil f = false -> In p (qsplit COMMA f) ->
  q_source vx (strip p) = Some (b, t) -> parse_q b t = QBad ->
  elements parse_q qeqb qltb Repaired vx star f = FInvalid \/ elements parse_q qeqb qltb Repaired vx star f = FUnmodelled.
Proof. exact @malformed_q_invalid_repaired. Qed.
Print Assumptions C19_malformed_q_invalid_repaired.

(* ... equivalently, on the result: every returned element has the quality float() gave to its q text; the one
   exception - an empty q text, quality None - exists only in the code as found *)
Theorem C19_returned_quality_is_number : forall (Q : Type) (parse_q : bool -> bytes -> qres Q) (qeqb qltb : Q -> Q -> bool) (vq vx : variant)
  (star : bool) (f : bytes) (es : list elem) (e : elem),
  elements parse_q qeqb qltb vq vx star f = FOk es -> In e es ->
  (vq = AsFound /\ isnil (q_text e) = true /\ e_quality e = None) \/
  ((vq = Repaired \/ isnil (q_text e) = false) /\ exists q, parse_q (e_qbytes e) (q_text e) = QVal q /\ e_quality e = Some q).
Proof. exact @elements_quality_is_number. Qed.
Print Assumptions C19_returned_quality_is_number.
Theorem C19_returned_quality_is_number_repaired : forall (Q : Type) (parse_q : bool -> bytes -> qres Q) (qeqb qltb : Q -> Q -> bool) (vx : variant)
  (star : bool) (f : bytes) (es : list elem) (e : elem),
  elements parse_q qeqb qltb Repaired vx star f = FOk es -> In e es ->
  exists q, parse_q (e_qbytes e) (q_text e) = QVal q /\ e_quality e = Some q.
Proof. exact @elements_numeric_repaired. Qed.
Print Assumptions C19_returned_quality_is_number_repaired.

(* sorting is total after the repair: the comparison never meets None (every element of a returned field is numeric, so
   C19_lt_strict_weak_order applies with k = true), and the TypeError outcome does not exist *)
Theorem C19_all_numeric_repaired : forall (Q : Type) (parse_q : bool -> bytes -> qres Q) (qeqb qltb : Q -> Q -> bool) (vx : variant)
  (star : bool) (f : bytes) (es : list elem),
  elements parse_q qeqb qltb Repaired vx star f = FOk es -> Forall (uniform true) es.
Proof. exact @elements_uniform_repaired. Qed.
Print Assumptions C19_all_numeric_repaired.
Theorem C19_no_typeerror_repaired : forall (Q : Type) (parse_q : bool -> bytes -> qres Q) (qeqb qltb : Q -> Q -> bool) (vx : variant)
  (star : bool) (f : bytes),
  elements parse_q qeqb qltb Repaired vx star f <> FTypeError.
Proof. exact @elements_no_typeerror_repaired. Qed.
Print Assumptions C19_no_typeerror_repaired.

(* ... where, for the concrete value function of the correspondence run, "not a number" is exactly: float() raises
   ValueError (as it does for the empty text), or the text reads as NaN or an infinity (repair of D24) *)
Theorem C19_not_a_number_concrete : forall (b : bool) (t : bytes),
  concrete_q b t = QBad <-> (float_parse b t = FErr \/ exists neg w, float_parse b t = FSpecial neg w).
Proof. exact concrete_bad. Qed.
Print Assumptions C19_not_a_number_concrete.
Theorem C19_empty_is_not_a_number_concrete : forall b : bool, concrete_q b [] = QBad.
Proof. exact concrete_empty_bad. Qed.
Print Assumptions C19_empty_is_not_a_number_concrete.
Example C19_malformed_nonvacuous : forall vq vx : variant,
  q_source vx (X "612f623b713d6f6e65") = Some (true, X "6f6e65") /\ concrete_q true (X "6f6e65") = QBad /\
  q_source vx (X "612f623b713d6e616e") = Some (true, X "6e616e") /\ concrete_q true (X "6e616e") = QBad /\
  celements vq vx true (X "632f642c20612f623b713d6f6e65") = FInvalid.
Proof. exact example_malformed. Qed.
Example C19_sorted_nonvacuous : forall vq vx : variant,
  match celements vq vx true (X "612f623b713d302e352c20632f64") with
  | FOk [e1; e2] => e_value e1 = X "632f64" /\ e_value e2 = X "612f62" /\
                    e_quality e1 = Some (10 ^ 40)%Z /\ e_quality e2 = Some (5 * 10 ^ 39)%Z
  | _ => False
  end.
Proof. exact example_sorted. Qed.

(* The two repaired findings (D25) on concrete inputs, computed on the model of the repaired code:
   "a/b;q=, c/d" and "a/b;q=" are invalid; "text/html;q=0.5;ext=1" is returned with quality 0.5, its parameters q and ext
   in this order, composed as "text/html; q=0.5; ext=1". *)
Theorem C19_empty_q_invalid_repaired : forall vx : variant,
  celements Repaired vx true (X "612f623b713d2c20632f64") = FInvalid /\ celements Repaired vx true (X "612f623b713d") = FInvalid.
Proof. exact empty_q_invalid_repaired. Qed.
Print Assumptions C19_empty_q_invalid_repaired.
Theorem C19_accept_ext_returned_repaired : forall vq : variant,
  match celements vq Repaired true (X "746578742f68746d6c3b713d302e353b6578743d31") with
  | FOk [e] => e_value e = X "746578742f68746d6c" /\ e_params e = [(X "71", X "302e35"); (X "657874", X "31")] /\
               e_quality e = Some (5 * 10 ^ 39)%Z /\ e_text e = X "746578742f68746d6c3b20713d302e353b206578743d31"
  | _ => False
  end.
Proof. exact accept_ext_returned_repaired. Qed.
Print Assumptions C19_accept_ext_returned_repaired.

(* The same findings on the faithful model of the code AS FOUND (what the check reported before the repairs).
   FULL STATEMENTS (false as found): (a) every returned element has a numeric quality; (b) elements() only ever returns or
   raises InvalidHeader; (c) a field all of whose quality values are numbers is returned.
   D25-empty-q: (a) refuted by a returned quality None, (b) by a TypeError as soon as another element is numeric.
   D25-accept-ext-rejected: (c) refuted, the field is invalid although its q text 0.5 is a number. *)
Theorem C19_quality_numeric_refuted : forall vx : variant,
  exists es e, celements AsFound vx true (X "612f623b713d") = FOk es /\ In e es /\ e_quality e = None.
Proof. exact empty_q_none. Qed.
Print Assumptions C19_quality_numeric_refuted.
Theorem C19_no_typeerror_refuted : forall vx : variant, celements AsFound vx true (X "612f623b713d2c20632f64") = FTypeError.
Proof. exact empty_q_typeerror. Qed.
Print Assumptions C19_no_typeerror_refuted.
Theorem C19_accept_ext_refuted : forall vq : variant,
  celements vq AsFound true (X "746578742f68746d6c3b713d302e353b6578743d31") = FInvalid /\ concrete_q true (X "302e35") = QVal (5 * 10 ^ 39)%Z.
Proof. exact accept_ext_rejected. Qed.
Print Assumptions C19_accept_ext_refuted.

(* C04 -- a composed message parses back to the same message through the library's own opposite-side state machine.
   Final statements only, each closed by [exact] and followed by Print Assumptions.

   Two executable models are composed: the composer (Model/Composer.v, callees [C]: content coders, Element.split, codec
   lookup) and the parser state machine (Model/Parser.v, reference configuration, callees [PC]: start-line parser with the
   URI, header-semantics hooks, content decoder, RFC 2047, Trailer).  The theorems hold for EVERY pair of callee records;
   what they need from the parser's callees is stated as explicit hypotheses at each theorem:
     c_start PC line = SlOk info     the start-line callee accepts the composed line (start-line round trip: C18, URI: C10)
     c_hdrs PC .. = HOk              the header-semantics hooks accept the delivered collection
     connect_response PC k line = false   the client machine is not answering a CONNECT request (it would drop the framing fields)
     decodes PC h wire content       the decoder callee turns the octets ON THE WIRE into the content (see C04_what_is_decoded)
   Content-Length framing rests on the exact-delivery theorem of C02 (Proofs/ParserWf.v). *)
From Coq Require Import ZArith.
From Httoop Require Import Model.Composer Model.Http1Reader Proofs.Http1ReaderP Proofs.ComposerNum Proofs.ComposerHdrs Proofs.ComposerBody
  Proofs.ComposerFraming Proofs.ComposerRepeat Proofs.ComposerParse.
From Httoop Require Import Model.Parser Proofs.ParserFrag Proofs.ParserBridge Proofs.RoundTrip Proofs.RoundTripFrag.
Local Open Scope N_scope.

(* the two number printers of the composer are read back by CPython's int() as modelled for the parser *)
Theorem C04_chunk_size_roundtrip : forall n, py_int16_bytes (hex_print n) = Some (Z.of_N n).
Proof. exact py_int16_hex_print. Qed.
Print Assumptions C04_chunk_size_roundtrip.
Theorem C04_content_length_text : forall n, dec_print n = dec_of_N n.
Proof. exact dec_print_dec_of_N. Qed.
Print Assumptions C04_content_length_text.

(* header section: Headers.compose followed by Headers.parse is the collection of the same fields, values stripped,
   in the order of the composed lines -- for every collection of unique canonical token names and CR/LF-free values
   without list-valued fields *)
Theorem C04_header_section : forall (C : ccallees) (h : hdrs), lsplit_clean C -> hdrs_ok h = true -> no_list_fields h = true -> h <> [] ->
  let block := join_with CRLF (map line_of (sort_items h)) in
  hcompose C h = block ++ CRLF ++ CRLF /\ block <> [] /\ prefixb CRLF block = false /\
  cut (CRLF ++ CRLF) (block ++ CRLF) = None /\ hparse [] block = Some (delivered_hdrs h).
Proof. exact composed_block. Qed.
Print Assumptions C04_header_section.
Theorem C04_delivered_lookup : forall k h, hdrs_ok h = true -> hget k (delivered_hdrs h) = option_map stripv (hget k h).
Proof. exact hget_delivered. Qed.
Print Assumptions C04_delivered_lookup.

(* the three framings, for any start line / header collection / body octets of the composed shape *)
Theorem C04_parse_content_length : forall (C : ccallees) (PC : callees) (k : kind), lsplit_clean C ->
  forall line info h body,
  no_lf line = true -> c_start PC line = SlOk info -> hdrs_ok h = true -> no_list_fields h = true -> h <> [] ->
  hget H_TE h = None -> hget H_CE h = None -> hget H_CL h = Some (dec_print (Composer.blen body)) ->
  host_ok k info h = true -> c_hdrs PC (p11 info) (delivered_hdrs h) = HOk -> connect_response PC k line = false ->
  N.of_nat (List.length (dec_of_N (N.of_nat (List.length body)))) <= INT_MAX_STR_DIGITS -> body_allowed k info body = true ->
  parse reference PC k init (line ++ CRLF ++ hcompose C h ++ body) =
    (init, [ {| m_line := line; m_hdrs := delivered_hdrs h; m_body := body |} ], None).
Proof. exact parse_composed_length. Qed.
Print Assumptions C04_parse_content_length.
Theorem C04_parse_no_body : forall (C : ccallees) (PC : callees) (k : kind), lsplit_clean C ->
  forall line info h,
  no_lf line = true -> c_start PC line = SlOk info -> hdrs_ok h = true -> no_list_fields h = true -> h <> [] ->
  hget H_TE h = None -> hget H_CE h = None -> hget H_CL h = None ->
  host_ok k info h = true -> c_hdrs PC (p11 info) (delivered_hdrs h) = HOk -> connect_response PC k line = false ->
  parse reference PC k init (line ++ CRLF ++ hcompose C h) =
    (init, [ {| m_line := line; m_hdrs := hset K_CL (dec_of_N 0) (delivered_hdrs h); m_body := [] |} ], None).
Proof. exact parse_composed_nobody. Qed.
Print Assumptions C04_parse_no_body.
Theorem C04_parse_chunked : forall (C : ccallees) (PC : callees) (k : kind), lsplit_clean C ->
  forall line info h coded content,
  no_lf line = true -> c_start PC line = SlOk info -> p11 info = true -> hdrs_ok h = true -> no_list_fields h = true ->
  hget H_TE h = Some TE_CHUNKED -> hget H_CL h = None ->
  (match hget H_CE h with Some ce => c_decode PC (stripv ce) (concat_bytes coded) = DcOk content | None => concat_bytes coded = content end) ->
  host_ok k info h = true -> c_hdrs PC (p11 info) (delivered_hdrs h) = HOk -> connect_response PC k line = false -> body_allowed k info content = true ->
  parse reference PC k init (line ++ CRLF ++ hcompose C h ++ chunked_frame C [] coded) =
    (init, [ {| m_line := line; m_hdrs := hdel K_TE (hset K_CL (dec_of_N (N.of_nat (List.length content))) (delivered_hdrs h)); m_body := content |} ], None).
Proof. exact parse_composed_chunked. Qed.
Print Assumptions C04_parse_chunked.

(* ---- the round trip: prepare, compose, parse.  Exactly one message, the same start line, the composed fields
   (Content-Length / Transfer-Encoding as the parser rewrites them), the content; nothing left over, machine idle.
   [req_ok] / [resp_ok] are the API preconditions of C05 (incl. the exclusions D43/D46); further hypotheses name the
   known findings: chunked framing needs HTTP/1.1 at the receiver (D47), a content coding goes with chunked framing,
   responses that must not have a body are excluded (the client ignores RFC 7230 3.3.3 rule 1: D50), the start line is
   accepted by the start-line callee (D48, D49 live there), no list-valued fields, no trailer.
   Responses: [v59] is the behaviour of prepare towards a content codec that an EARLIER use of the same message object left on the
   Body (finding D59).  [resp_ok AsFound] requires that the Body carries a codec only if the Content-Encoding field is present;
   [resp_ok Repaired] admits every codec state of the Body: after the repair the round trip holds for reused message objects. *)
Theorem C04_request_roundtrip : forall (C : ccallees) (PC : callees), lsplit_clean C ->
  forall vc now q q' info content,
  req_ok q = true -> rd_no_crlf now = true -> q_prepare now q = Some q' ->
  no_list_fields (q_hdrs q') = true -> b_trailer (q_body q') = [] ->
  let line := q_method q ++ SP :: q_target q ++ SP :: StartLine.proto_compose (q_version q) in
  c_start PC line = SlOk info ->
  (hmem H_TE (q_hdrs q') = true -> p11 info = true) -> (hmem H_TE (q_hdrs q') = false -> hget H_CE (q_hdrs q') = None) ->
  decodes PC (q_hdrs q') (q_content C vc q) content ->
  host_ok Server info (q_hdrs q') = true -> c_hdrs PC (p11 info) (delivered_hdrs (q_hdrs q')) = HOk -> body_allowed Server info content = true ->
  N.of_nat (List.length (dec_of_N (N.of_nat (List.length content)))) <= INT_MAX_STR_DIGITS ->
  exists fr, hframing (q_hdrs q') fr /\
    parse reference PC Server init (fst (q_compose C vc q')) =
      (init, [ {| m_line := line; m_hdrs := delivered_for fr (q_hdrs q') content; m_body := content |} ], None).
Proof. exact request_roundtrip. Qed.
Print Assumptions C04_request_roundtrip.
Theorem C04_response_roundtrip : forall (C : ccallees) (PC : callees), lsplit_clean C ->
  forall v59 v29 vc now r r' info content,
  resp_ok v59 r = true -> rd_no_crlf now = true -> r_prepare C v59 v29 now r = Some r' ->
  r_bodiless (r_code r) (r_rmethod r) = false ->
  no_list_fields (r_hdrs r') = true -> b_trailer (r_body r') = [] ->
  let line := StartLine.proto_compose (r_version r) ++ SP :: StartLine.print_dec (r_code r) ++ SP :: r_reason r in
  c_start PC line = SlOk info ->
  (hmem H_TE (r_hdrs r') = true -> p11 info = true) -> (hmem H_TE (r_hdrs r') = false -> hget H_CE (r_hdrs r') = None) ->
  decodes PC (r_hdrs r') (concat_bytes (encode_pieces C vc (b_codec (r_body r')) (r_sent_pieces r))) content ->
  c_hdrs PC (p11 info) (delivered_hdrs (r_hdrs r')) = HOk ->
  c_connect PC line = false ->
  N.of_nat (List.length (dec_of_N (N.of_nat (List.length content)))) <= INT_MAX_STR_DIGITS ->
  exists fr, hframing (r_hdrs r') fr /\
    parse reference PC Client init (fst (r_compose C vc r')) =
      (init, [ {| m_line := line; m_hdrs := delivered_for fr (r_hdrs r') content; m_body := content |} ], None).
Proof. exact response_roundtrip. Qed.
Print Assumptions C04_response_roundtrip.
(* finding D59 on the tree as found: the precondition on the codec state cannot be dropped.  The Body of [D59_response] still carries
   the codec of an earlier use, the header collection has no Content-Encoding: the composed message announces 6 octets and carries the
   coded stream; the client machine (callees that accept everything and pass the body through) delivers the first 6 coded octets as
   the body and keeps the rest as the start of a next message.  With the repaired prepare the content comes back. *)
Theorem C04_stale_coding_refuted :
  resp_ok Repaired D59_response = true /\ resp_ok AsFound D59_response = false /\
  exists r', r_prepare C_mark AsFound Repaired D29_now D59_response = Some r' /\
    exists st m, parse reference PC_plain Client init (fst (r_compose C_mark AsFound r')) = (st, [m], None) /\
      m_body m = X "1f8b7365636f" /\ buf st = X "6e64".
Proof. exact (conj (proj1 stale_coding_refuted) (conj (proj1 (proj2 stale_coding_refuted)) stale_coding_roundtrip_refuted)). Qed.
Print Assumptions C04_stale_coding_refuted.
Theorem C04_stale_coding_repaired_example :
  exists r', r_prepare C_mark Repaired Repaired D29_now D59_response = Some r' /\
    exists m, parse reference PC_plain Client init (fst (r_compose C_mark AsFound r')) = (init, [m], None) /\ m_body m = X "7365636f6e64".
Proof. exact stale_coding_roundtrip_repaired_example. Qed.
Print Assumptions C04_stale_coding_repaired_example.

(* ... however the composed octets are cut into parse() calls.  Whatever ONE call on a whole wire delivers while ending idle (the
   two theorems above), every fragmentation of that wire delivers: on the reference machine always, and on the machine as
   implemented ([real]) whenever it does not take one of its two buffer-dependent shortcuts ([quiet_run], findings D13/D14).
   (The split of a chunk terminator between CR and LF, per-message state that survives on a reused machine - the classes of
   the seeded changes C04-4 / C04-5 - are excluded by this statement, not only by the sampled fragmentations of the check.) *)
Theorem C04_any_fragmentation : forall (PC : callees) (k : kind) (wire : bytes) (ms : list msg) (frags : list bytes),
  parse reference PC k init wire = (init, ms, None) -> concat_bytes frags = wire ->
  run_keep reference PC k init frags = (init, ms, None) /\
  (quiet_run PC k init frags = true -> run_keep real PC k init frags = (init, ms, None)).
Proof. exact whole_call_any_fragmentation. Qed.
Print Assumptions C04_any_fragmentation.

(* The round trip for the machines AS IMPLEMENTED, under EVERY fragmentation of the composed octets, without any hypothesis about the
   run: a composed message is one message with nothing behind it (the 411 peek needs octets behind a completed message) and its start
   line contains no LF (the bare-LF fallback needs an LF before the first CRLF): C01_single_message_any_fragmentation applies. *)
Theorem C04_request_roundtrip_fragmented : forall (C : ccallees) (PC : callees), lsplit_clean C ->
  forall vc now q q' info content,
  req_ok q = true -> rd_no_crlf now = true -> q_prepare now q = Some q' ->
  no_list_fields (q_hdrs q') = true -> b_trailer (q_body q') = [] ->
  let line := q_method q ++ SP :: q_target q ++ SP :: StartLine.proto_compose (q_version q) in
  c_start PC line = SlOk info ->
  (hmem H_TE (q_hdrs q') = true -> p11 info = true) -> (hmem H_TE (q_hdrs q') = false -> hget H_CE (q_hdrs q') = None) ->
  decodes PC (q_hdrs q') (q_content C vc q) content ->
  host_ok Server info (q_hdrs q') = true -> c_hdrs PC (p11 info) (delivered_hdrs (q_hdrs q')) = HOk -> body_allowed Server info content = true ->
  N.of_nat (List.length (dec_of_N (N.of_nat (List.length content)))) <= INT_MAX_STR_DIGITS ->
  exists fr, hframing (q_hdrs q') fr /\
    forall frags, concat_bytes frags = fst (q_compose C vc q') ->
      run_keep real PC Server init frags =
        (init, [ {| m_line := line; m_hdrs := delivered_for fr (q_hdrs q') content; m_body := content |} ], None).
Proof. exact request_roundtrip_fragmented. Qed.
Print Assumptions C04_request_roundtrip_fragmented.

Theorem C04_response_roundtrip_fragmented : forall (C : ccallees) (PC : callees), lsplit_clean C ->
  forall v59 v29 vc now r r' info content,
  resp_ok v59 r = true -> rd_no_crlf now = true -> r_prepare C v59 v29 now r = Some r' ->
  r_bodiless (r_code r) (r_rmethod r) = false ->
  no_list_fields (r_hdrs r') = true -> b_trailer (r_body r') = [] ->
  let line := StartLine.proto_compose (r_version r) ++ SP :: StartLine.print_dec (r_code r) ++ SP :: r_reason r in
  c_start PC line = SlOk info ->
  (hmem H_TE (r_hdrs r') = true -> p11 info = true) -> (hmem H_TE (r_hdrs r') = false -> hget H_CE (r_hdrs r') = None) ->
  decodes PC (r_hdrs r') (concat_bytes (encode_pieces C vc (b_codec (r_body r')) (r_sent_pieces r))) content ->
  c_hdrs PC (p11 info) (delivered_hdrs (r_hdrs r')) = HOk ->
  c_connect PC line = false ->
  N.of_nat (List.length (dec_of_N (N.of_nat (List.length content)))) <= INT_MAX_STR_DIGITS ->
  exists fr, hframing (r_hdrs r') fr /\
    forall frags, concat_bytes frags = fst (r_compose C vc r') ->
      run_keep real PC Client init frags =
        (init, [ {| m_line := line; m_hdrs := delivered_for fr (r_hdrs r') content; m_body := content |} ], None).
Proof. exact response_roundtrip_fragmented. Qed.
Print Assumptions C04_response_roundtrip_fragmented.

(* every field other than Content-Length / Transfer-Encoding is delivered with the (stripped) value it was composed with,
   and (requests) every field the composer does not manage is composed with the value the caller set *)
Theorem C04_delivered_field : forall fr h content key, hdrs_ok h = true -> bytes_eqb key K_CL = false -> bytes_eqb key K_TE = false ->
  hget key (delivered_for fr h content) = option_map stripv (hget key h).
Proof. exact delivered_field. Qed.
Print Assumptions C04_delivered_field.
Theorem C04_request_caller_fields : forall now q q' key, te_simple (q_hdrs q) = true -> src_ok (b_src (q_body q)) = true ->
  q_prepare now q = Some q' -> mem_bytes key Q_MANAGED = false -> hget key (q_hdrs q') = hget key (q_hdrs q).
Proof. exact request_caller_fields. Qed.
Print Assumptions C04_request_caller_fields.

(* what the decoder is asked to decode, stated as the code does it: per piece on the pinned tree, once after repair D42 *)
Theorem C04_what_is_decoded : forall C id ps,
  concat_bytes (encode_pieces C AsFound (Some id) ps) = concat_bytes (map (cc_comp C id) ps) /\
  (ps <> [] -> concat_bytes (encode_pieces C Repaired (Some id) ps) = cc_comp C id (concat_bytes ps)).
Proof. exact (fun C id ps => conj (payload_asfound C id ps) (payload_repaired C id ps)). Qed.
Print Assumptions C04_what_is_decoded.
Theorem C04_coded_roundtrip_repaired : forall C PC id h ce ps, hget H_CE h = Some ce -> ps <> [] ->
  (forall x, c_decode PC (stripv ce) (cc_comp C id x) = DcOk x) ->
  decodes PC h (concat_bytes (encode_pieces C Repaired (Some id) ps)) (concat_bytes ps).
Proof. exact decodes_repaired. Qed.
Print Assumptions C04_coded_roundtrip_repaired.
Theorem C04_coded_roundtrip_asfound_partial : forall C PC id h ce x, hget H_CE h = Some ce ->
  (forall x, c_decode PC (stripv ce) (cc_comp C id x) = DcOk x) ->
  decodes PC h (concat_bytes (encode_pieces C AsFound (Some id) [x])) (concat_bytes [x]).
Proof. exact decodes_asfound_single. Qed.
Print Assumptions C04_coded_roundtrip_asfound_partial.
Theorem C04_coded_roundtrip_asfound : forall C PC id h ce ps, hget H_CE h = Some ce ->
  (forall xs, c_decode PC (stripv ce) (concat_bytes (map (cc_comp C id) xs)) = DcOk (concat_bytes xs)) ->
  decodes PC h (concat_bytes (encode_pieces C AsFound (Some id) ps)) (concat_bytes ps).
Proof. exact decodes_asfound_multi. Qed.
Print Assumptions C04_coded_roundtrip_asfound.

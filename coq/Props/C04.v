(* C04 -- placeholder while the round-trip theorems are being proved *)
From Httoop Require Import Model.Composer.
Theorem C04_placeholder : EMPTY_SRC = EMPTY_SRC.
Proof. exact eq_refl. Qed.
Print Assumptions C04_placeholder.

(* C09 -- header element parameters survive compose and parse.
   Only final statements here, each closed by [exact] and followed by Print Assumptions.
   Model: Model/Element.v (formatparam / compose, parseparams / parseparam / unescape_param, RFC 2231-5987
   assembly, class sanitising) on top of Model/HeadersApi.v (RFC 2047 guard, quote-parity split) and
   Model/Percent.v.  Callees (email.header.decode_header = dechdr, codecs outside the regenerated alias table =
   cs_other) are universally quantified; [pv] is the escape width of Percent.quote (finding D1), [vew] the
   encoded-word guard (D15): the theorems hold for every value of both. *)
From Httoop Require Import Lib.Bytes Lib.Split Lib.Variant Gen.ElementT Gen.PercentT
  Model.Headers Model.HeadersApi Model.Percent Model.Element Proofs.Percent Proofs.HeadersApi Proofs.Element.
Local Open Scope N_scope.

(* ---- escaping inside a quoted value is inverted by the unescape regex, away from D17 ---- *)
Theorem C09_unescape_escape_partial : forall v, clean_q v = true -> unesc (escape_q v) = v.
Proof. exact unesc_escape. Qed.
Print Assumptions C09_unescape_escape_partial.
Theorem C09_backslash_pair_refuted : exists v, nosep DQ v = true /\ unesc (escape_q v) <> v.
Proof. exact unesc_escape_backslash_refuted. Qed.
Print Assumptions C09_backslash_pair_refuted.
Theorem C09_backslash_dquote_refuted : exists v, no_bs_pair v = true /\ unesc (escape_q v) <> v.
Proof. exact unesc_escape_dquote_refuted. Qed.
Print Assumptions C09_backslash_dquote_refuted.

(* ---- one parameter: parseparam (formatparam k v) = (k, v), for any tspecials class; quoted values may contain
   every separator, "=", whitespace and single backslashes ---- *)
Theorem C09_param_roundtrip : forall tsp ck k v, key_ok k = true -> val_ok tsp v = true -> v <> [] ->
  parseparam tsp ck (fmt_kv tsp k v) = Some (k, v, has_tsp tsp v).
Proof. exact parseparam_fmt_kv. Qed.
Print Assumptions C09_param_roundtrip.
Example C09_param_roundtrip_nonvacuous :
  key_ok (X "66696c656e616d65") = true /\ val_ok TSPECIALS (X "61203b2c3d2062275c632e747874") = true /\
  has_tsp TSPECIALS (X "61203b2c3d2062275c632e747874") = true.
Proof. vm_compute. repeat split. Qed.

(* a str value of any content (ASCII: plain or quoted; anything else: RFC 5987 utf-8''pct-encoded) *)
Theorem C09_text_param_roundtrip : forall tsp ck pv k t,
  tsp_ok tsp = true -> key_ok k = true -> pval_ok tsp pv t = true ->
  exists atom it u, formatparam tsp pv k (PT t) = Some atom /\ utf8_enc t = Some u /\ par_spec tsp ck k atom it u.
Proof. exact param_roundtrip. Qed.
Print Assumptions C09_text_param_roundtrip.

(* ---- the whole element: compose then parse gives back the value and exactly the parameters (names, values as
   UTF-8, order), for every element class parameterised by its tspecials set and key normaliser.
   value_ok: non-empty, no double quote / semicolon / comma, no leading or trailing whitespace (a token qualifies);
   params_ok: distinct lower-case names free of separators and "*", values [pval_ok];
   the composed element must not open an RFC 2047 word (finding D16 otherwise) ---- *)
Theorem C09_roundtrip_partial : forall tsp ck pv, tsp_ok tsp = true ->
  forall vew dechdr cs_other value ps, value_ok value = true -> params_ok tsp pv ps = true ->
  exists composed outs,
    compose_raw tsp pv value (as_pvals ps) = Some composed /\
    Forall2 (fun kt o => fst o = fst kt /\ utf8_enc (snd kt) = Some (snd o)) ps outs /\
    (looks_encoded vew composed = false ->
       parse_elem vew dechdr cs_other tsp ck composed = Some (latin1_to_utf8 value, outs)) /\
    solid COMMA composed /\ ends_ok composed = true.
Proof. exact elem_roundtrip. Qed.
Print Assumptions C09_roundtrip_partial.

(* both tspecials classes of the library qualify *)
Theorem C09_classes_qualify : tsp_ok TSPECIALS = true /\ tsp_ok COOKIE_TSPECIALS = true.
Proof. exact (conj tsp_ok_generic tsp_ok_cookie). Qed.
Print Assumptions C09_classes_qualify.

(* for the generic class (HeaderElement, Content-Type, Content-Disposition) an ASCII value only needs: no double
   quote, no backslash pair (D17), no leading or trailing whitespace; separators force quoting by themselves *)
Theorem C09_generic_value_condition : forall v, clean_q v = true -> ends_ok v = true -> val_ok TSPECIALS v = true.
Proof. exact val_ok_generic. Qed.
Print Assumptions C09_generic_value_condition.

Example C09_roundtrip_nonvacuous :
  value_ok (X "6174746163686d656e74") = true /\
  params_ok TSPECIALS AsFound
    [(X "66696c656e616d65", [0x61; 0x3b; 0x20; 0x62; 0x2c; 0x3d; 0x5c; 0x63]); (X "6e616d65", [0x20ac; 0x20; 0xe9; 0x22]); (X "78", []); (X "7a", [0x74; 0x6f; 0x6b])] = true /\
  params_ok COOKIE_TSPECIALS Repaired [(X "70617468", [0x2f; 0x61; 0x20; 0x62]); (X "65", [0x01; 0x20ac])] = true.
Proof. vm_compute. repeat split. Qed.

(* the class-specific constructors leave such elements alone *)
Theorem C09_class_generic : forall vew dechdr cs_other s v ps,
  parse_elem vew dechdr cs_other TSPECIALS false s = Some (v, ps) ->
  parse_cls vew dechdr cs_other EGeneric s = PElem v None ps.
Proof. exact parse_cls_generic. Qed.
Print Assumptions C09_class_generic.
Theorem C09_class_content_type : forall vew dechdr cs_other s v ps,
  parse_elem vew dechdr cs_other TSPECIALS false s = Some (v, ps) -> hget BOUNDARY ps = None ->
  parse_cls vew dechdr cs_other EContentType s = PElem v None ps.
Proof. exact parse_cls_ctype. Qed.
Print Assumptions C09_class_content_type.
Theorem C09_class_disposition : forall vew dechdr cs_other s v ps,
  parse_elem vew dechdr cs_other TSPECIALS false s = Some (v, ps) ->
  disp_value v = true -> disp_keys_ok (map fst ps) = true ->
  parse_cls vew dechdr cs_other EDisposition s = PElem v None ps.
Proof. exact parse_cls_disp. Qed.
Print Assumptions C09_class_disposition.

(* cookies: the constructor re-parses name=value; for a lower-case name without "=" and a value that is not wrapped in
   double quotes (both ASCII, no surrounding whitespace) the element is name, value and the parameters *)
Theorem C09_class_cookie : forall vew dechdr cs_other s n v ps,
  cookie_name_ok n = true -> cookie_value_ok v = true ->
  parse_elem vew dechdr cs_other COOKIE_TSPECIALS true s = Some (latin1_to_utf8 (n ++ EQ :: v), ps) ->
  parse_cls vew dechdr cs_other ECookie s = PElem (n ++ EQ :: v) (Some (n, v)) ps.
Proof. exact parse_cls_cookie. Qed.
Print Assumptions C09_class_cookie.
Example C09_class_cookie_nonvacuous :
  cookie_name_ok (X "736964") = true /\ cookie_value_ok (X "61622f632b3d3d") = true /\ value_ok (X "7369643d61622f632b3d3d") = true.
Proof. vm_compute. repeat split. Qed.

(* construction through the API (str value, dict of str parameters) composes exactly what the theorems start from *)
Theorem C09_api_compose_generic : forall pv tv ck ps, is_ascii_text tv = true ->
  compose_cls pv EGeneric tv ck ps = of_opt (compose_raw TSPECIALS pv (latin1_enc tv) ps).
Proof. exact compose_cls_generic. Qed.
Print Assumptions C09_api_compose_generic.

(* ---- a semicolon, comma (any separator octet) between a pair of double quotes never splits: whatever precedes
   the quoted string and whatever (with balanced quotes) follows it, RE_PARAMS / RE_SPLIT keep the quoted string
   in one piece, glued to the last piece before it and the first piece after it ---- *)
Theorem C09_semicolon_comma_safe : forall sep a q b pa la hb tb,
  nosep DQ q = true -> dq_odd b = false ->
  psplit sep a = pa ++ [la] -> psplit sep b = hb :: tb ->
  psplit sep (a ++ DQ :: q ++ DQ :: b) = pa ++ [la ++ DQ :: q ++ DQ :: hb] ++ tb.
Proof. exact quoted_never_split. Qed.
Print Assumptions C09_semicolon_comma_safe.

(* ... and an equals sign inside a quoted value is never the one parseparam cuts at *)
Theorem C09_equals_safe : forall tsp ck k v, ends_ok k = true -> lower k = k -> nosep EQ k = true -> clean_q v = true ->
  parseparam tsp ck (k ++ [EQ; DQ] ++ escape_q v ++ [DQ]) = Some (k, v, true).
Proof. exact parseparam_quoted. Qed.
Print Assumptions C09_equals_safe.

(* ---- lists: joined elements split back into exactly the elements (every composed element of
   C09_roundtrip_partial satisfies the premise) ---- *)
Theorem C09_list_split : forall es, es <> [] -> Forall (fun e => solid COMMA e /\ ends_ok e = true) es ->
  esplit (join_with [COMMA; SP] es) = es.
Proof. exact list_split. Qed.
Print Assumptions C09_list_split.

(* ---- the excluded classes are really excluded (each witness is replayed on the implementation) ---- *)
Theorem C09_dquote_refuted : forall dechdr cs_other, exists value ps composed,
  value_ok value = true /\ compose_raw TSPECIALS Repaired value (as_pvals ps) = Some composed /\
  looks_encoded Repaired composed = false /\
  parse_elem Repaired dechdr cs_other TSPECIALS false composed <> Some (latin1_to_utf8 value, [( [x61], [x78; x22; x79] )]) /\
  ps = [([x61], [0x78; 0x22; 0x79])].
Proof. exact dquote_refuted. Qed.
Print Assumptions C09_dquote_refuted.
Theorem C09_backslash_refuted : forall dechdr cs_other, exists value ps composed,
  value_ok value = true /\ compose_raw TSPECIALS Repaired value (as_pvals ps) = Some composed /\
  looks_encoded Repaired composed = false /\
  parse_elem Repaired dechdr cs_other TSPECIALS false composed <> Some (latin1_to_utf8 value, [( [x61], [x5c; x5c] )]) /\
  ps = [([x61], [0x5c; 0x5c])].
Proof. exact backslash_refuted. Qed.
Print Assumptions C09_backslash_refuted.
Theorem C09_low_octet_asfound_refuted : forall dechdr cs_other, exists value ps composed,
  value_ok value = true /\ compose_raw TSPECIALS AsFound value (as_pvals ps) = Some composed /\
  looks_encoded Repaired composed = false /\
  parse_elem Repaired dechdr cs_other TSPECIALS false composed <> Some (latin1_to_utf8 value, [( [x61], [x01; xe2; x82; xac] )]) /\
  ps = [([x61], [0x01; 0x20ac])].
Proof. exact low_octet_refuted. Qed.
Print Assumptions C09_low_octet_asfound_refuted.
Theorem C09_cookie_semicolon_refuted : forall dechdr cs_other, exists value ps composed,
  value_ok value = true /\ compose_raw COOKIE_TSPECIALS Repaired value (as_pvals ps) = Some composed /\
  looks_encoded Repaired composed = false /\
  parse_elem Repaired dechdr cs_other COOKIE_TSPECIALS true composed <>
    Some (latin1_to_utf8 value, [( [x70; x61; x74; x68], [x2f; x61; x3b; x62] )]) /\
  ps = [([x70; x61; x74; x68], [0x2f; 0x61; 0x3b; 0x62])].
Proof. exact cookie_semicolon_refuted. Qed.
Print Assumptions C09_cookie_semicolon_refuted.
Theorem C09_encoded_word_hypothesis_needed : exists value ps composed,
  value_ok value = true /\ params_ok TSPECIALS Repaired ps = true /\
  compose_raw TSPECIALS Repaired value (as_pvals ps) = Some composed /\ looks_encoded Repaired composed = true.
Proof. exact encoded_word_hypothesis_needed. Qed.
Print Assumptions C09_encoded_word_hypothesis_needed.

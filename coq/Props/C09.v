(* C09 -- placeholder while the model is validated; replaced by the final statements *)
From Httoop Require Import Lib.Bytes Model.Element.
Theorem C09_placeholder : forall h : bytes, h = h.
Proof. reflexivity. Qed.
Print Assumptions C09_placeholder.

(* Lemmas about Model/Range.v (C20) *)
From Coq Require Import Sorting.Sorted Sorting.Permutation.
From Httoop Require Import Model.ElemLex Model.Range Proofs.ElemLex.
Local Open Scope N_scope.
Arguments is_ws : simpl never.
Arguments inmask : simpl never.
Arguments beq : simpl never.

(* ---------- table lemmas (re-checked whenever Gen/RangeT.v or Gen/ElemLexT.v change) ---------- *)

Lemma int_ws_is_bytes_ws : INT_WS = BYTES_WS.
Proof. vm_compute. reflexivity. Qed.

Lemma int_digits_are_ascii_digits c : inmask INT_DIGITS c = is_digit c.
Proof.
  apply eqb_prop. revert c. apply forall_byte. vm_compute. reflexivity.
Qed.

Lemma digit_not_sign c : is_digit c = true -> inmask INT_SIGNS c = false.
Proof.
  intros H. assert (G : implb (is_digit c) (negb (inmask INT_SIGNS c)) = true).
  { clear H. revert c. apply forall_byte. vm_compute. reflexivity. }
  rewrite H in G. cbn in G. now apply negb_true_iff in G.
Qed.

Lemma digit_not_int_ws c : is_digit c = true -> inmask INT_WS c = false.
Proof.
  intros H. assert (G : implb (is_digit c) (negb (inmask INT_WS c)) = true).
  { clear H. revert c. apply forall_byte. vm_compute. reflexivity. }
  rewrite H in G. cbn in G. now apply negb_true_iff in G.
Qed.

Lemma digit_plain c : is_digit c = true ->
  beq c SP = false /\ beq c DASH = false /\ beq c COMMA = false /\ beq c DQ = false /\ beq c EQC = false.
Proof.
  intros H.
  assert (G : implb (is_digit c) (negb (beq c SP) && negb (beq c DASH) && negb (beq c COMMA) && negb (beq c DQ) && negb (beq c EQC)) = true).
  { clear H. revert c. apply forall_byte. vm_compute. reflexivity. }
  rewrite H in G. cbn in G.
  repeat (apply andb_true_iff in G as [G ?]).
  repeat split; now apply negb_true_iff.
Qed.

(* the signs int() accepts are exactly '+' and '-' and the separator it accepts is '_' *)
Definition PLUS : byte := x2b.
Definition USC : byte := x5f.
Lemma int_signs_are c : inmask INT_SIGNS c = beq c PLUS || beq c DASH.
Proof. apply eqb_prop. revert c. apply forall_byte. vm_compute. reflexivity. Qed.
Lemma int_minus_is c : inmask INT_MINUS c = beq c DASH.
Proof. apply eqb_prop. revert c. apply forall_byte. vm_compute. reflexivity. Qed.
Lemma int_underscore_is c : inmask INT_UNDERSCORE c = beq c USC.
Proof. apply eqb_prop. revert c. apply forall_byte. vm_compute. reflexivity. Qed.

(* bytes.isdigit() admits exactly the ASCII digits *)
Lemma bytes_isdigit_is c : inmask BYTES_ISDIGIT c = is_digit c.
Proof. apply eqb_prop. revert c. apply forall_byte. vm_compute. reflexivity. Qed.

(* RFC 7230 tchar *)
Definition tchar (c : byte) : bool :=
  let n := bN c in
  ((48 <=? n) && (n <=? 57)) || ((65 <=? n) && (n <=? 90)) || ((97 <=? n) && (n <=? 122)) ||
  existsb (beq c) (X "2123242526272a2b2d2e5e5f607c7e").
Definition token (u : bytes) : bool := negb (isnil u) && forallb tchar u.

(* the octets Range.RE_UNIT admits are token characters (trivially so on a tree without RE_UNIT, whose table is empty) ... *)
Lemma unit_chars_tchar c : inmask RANGE_UNIT_CHARS c = true -> tchar c = true.
Proof.
  intros H. assert (G : implb (inmask RANGE_UNIT_CHARS c) (tchar c) = true).
  { clear H. revert c. apply forall_byte. vm_compute. reflexivity. }
  rewrite H in G. exact G.
Qed.
(* ... and on a tree that validates the unit they are exactly the token characters, in a pattern of the pinned shape ^[class]+\Z *)
Lemma unit_chars_are_tchars : RANGE_UNIT_VARIANT = Repaired -> forall c, inmask RANGE_UNIT_CHARS c = tchar c.
Proof.
  intros H c. apply eqb_prop. revert c. apply forall_byte. revert H. vm_compute.
  intros H. first [discriminate H | reflexivity].
Qed.
Lemma range_unit_pattern_pinned :
  RANGE_UNIT_VARIANT = Repaired -> RANGE_UNIT_PAT = X "5e5b2123242526272a2b2e5e5f607c7e302d39412d5a612d7a2d5d2b5c5a".
Proof. vm_compute. intros H. first [discriminate H | reflexivity]. Qed.

(* the unit 'bytes' passes the unit test of the working tree, and is served under both variants *)
Lemma unit_ok_bytes_current : unit_ok RANGE_UNIT_VARIANT BYTES_UNIT = true.
Proof. vm_compute. reflexivity. Qed.
Lemma unit_served_bytes vu : unit_served vu BYTES_UNIT = true.
Proof. destruct vu; vm_compute; reflexivity. Qed.

(* ---------- int() on decimal numerals ---------- *)

Lemma int_digits_all_digits l : forall acc p,
  forallb is_digit l = true -> (l <> [] \/ p = true) -> int_digits l acc p = Some (dval l acc).
Proof.
  induction l as [|c l IH]; intros acc p H Hn.
  - destruct Hn as [Hn | ->]; [contradiction | reflexivity].
  - cbn [forallb] in H. apply andb_true_iff in H as [H1 H2].
    cbn [int_digits]. rewrite int_digits_are_ascii_digits, H1.
    rewrite (IH _ true H2 (or_intror eq_refl)). reflexivity.
Qed.

Lemma lstrip_by_id m l : match l with c :: _ => inmask m c = false | [] => True end -> lstrip_by m l = l.
Proof. destruct l as [|c r]; cbn [lstrip_by]; [reflexivity | intros ->; reflexivity]. Qed.

Lemma strip_by_digits m l :
  (forall c, is_digit c = true -> inmask m c = false) -> forallb is_digit l = true -> strip_by m l = l.
Proof.
  intros Hm H. rewrite forallb_forall in H. unfold strip_by.
  rewrite (lstrip_by_id m l).
  - rewrite (lstrip_by_id m (rev l)); [apply rev_involutive|].
    destruct (rev l) as [|c r] eqn:E; [exact I|]. apply Hm, H, in_rev. rewrite E. left; reflexivity.
  - destruct l as [|c r]; [exact I|]. apply Hm, H. left; reflexivity.
Qed.

Lemma pyint_dec n : pyint (dec n) = Some (false, n).
Proof.
  unfold pyint. rewrite (strip_by_digits INT_WS (dec n) digit_not_int_ws (dec_digits n)).
  pose proof (dec_digits n) as D. pose proof (dec_nonempty n) as NE.
  destruct (dec n) as [|c r] eqn:E; [contradiction|].
  cbn [forallb] in D. apply andb_true_iff in D as [D1 D2].
  rewrite (digit_not_sign c D1).
  rewrite int_digits_all_digits; [| cbn [forallb]; rewrite D1, D2; reflexivity | left; discriminate].
  rewrite <- E, dec_value. reflexivity.
Qed.

Lemma pynat_dec n : pynat (dec n) = Some n.
Proof.
  unfold pynat. rewrite pyint_dec.
  rewrite existsb_false_forall; [reflexivity|].
  apply (forallb_impl is_digit); [|apply dec_digits].
  intros c H. cbv beta. rewrite beq_sym. destruct (digit_plain c H) as [-> _]. reflexivity.
Qed.

Definition all_digits (l : bytes) : bool := negb (isnil l) && forallb is_digit l.

Lemma isdigit_all_is b : isdigit_all b = all_digits b.
Proof.
  unfold isdigit_all, all_digits. f_equal.
  induction b as [|c b IH]; [reflexivity|]. cbn [forallb]. rewrite bytes_isdigit_is, IH. reflexivity.
Qed.

Lemma strip_dec n : strip (dec n) = dec n.
Proof.
  apply strip_id_forall. apply (forallb_impl is_digit); [|apply dec_digits].
  intros c H. rewrite (digit_not_ws c H). reflexivity.
Qed.

Lemma dec_isnil n : isnil (dec n) = false.
Proof. pose proof (dec_nonempty n). destruct (dec n); [contradiction | reflexivity]. Qed.

(* a byte position under either variant *)
Lemma pos_parse_dec vi n : pos_parse vi (dec n) = Some n.
Proof.
  destruct vi; cbn [pos_parse]; [apply pynat_dec|].
  rewrite isdigit_all_is. unfold all_digits. rewrite dec_isnil, dec_digits. cbn [negb andb]. apply pynat_dec.
Qed.

Lemma pos_parse_sub vi b n : pos_parse vi b = Some n -> pynat b = Some n.
Proof. destruct vi; cbn [pos_parse]; [trivial|]. destruct (isdigit_all b); [trivial | discriminate]. Qed.

Lemma pos_parse_repaired b n : pos_parse Repaired b = Some n -> all_digits b = true.
Proof. cbn [pos_parse]. rewrite isdigit_all_is. destruct (all_digits b); [reflexivity | discriminate]. Qed.

(* ---------- one rendered byte-range-spec ---------- *)

Definition render_spec (first last : N) : bytes := dec first ++ [DASH] ++ dec last.

Lemma parse_one_render vi first last :
  first < last -> parse_one vi (render_spec first last) = Some (Some first, Some last).
Proof.
  intros H. unfold parse_one, render_spec. cbn [app].
  rewrite partition3_app.
  2:{ apply (forallb_impl is_digit); [|apply dec_digits]. intros c Hc.
      destruct (digit_plain c Hc) as (_ & -> & _). reflexivity. }
  rewrite !strip_dec, !dec_isnil, !pos_parse_dec. cbn [andb orb negb option_map].
  replace (last <=? first) with false by (symmetry; apply N.leb_gt; exact H).
  unfold zero_or_none. replace (last =? 0) with false by (symmetry; apply N.eqb_neq; lia).
  rewrite andb_false_r. reflexivity.
Qed.

Lemma render_spec_plain first last :
  forallb (fun c => negb (beq c DQ) && negb (beq c COMMA)) (render_spec first last) = true.
Proof.
  unfold render_spec. rewrite !forallb_app. cbn [forallb].
  assert (forall n, forallb (fun c => negb (beq c DQ) && negb (beq c COMMA)) (dec n) = true) as D.
  { intros n. apply (forallb_impl is_digit); [|apply dec_digits]. intros c Hc.
    destruct (digit_plain c Hc) as (_ & _ & -> & -> & _). reflexivity. }
  rewrite !D. reflexivity.
Qed.

Lemma render_spec_strip first last : strip (render_spec first last) = render_spec first last.
Proof.
  apply strip_id.
  - unfold render_spec. pose proof (dec_digits first) as D. pose proof (dec_nonempty first).
    destruct (dec first) as [|c r]; [contradiction|]. cbn [app]. cbn [forallb] in D.
    apply andb_true_iff in D as [D _]. apply digit_not_ws, D.
  - unfold render_spec. rewrite !rev_app_distr.
    pose proof (dec_digits last) as D. pose proof (dec_nonempty last).
    destruct (rev (dec last)) as [|c r] eqn:E.
    + apply (f_equal (@rev byte)) in E. rewrite rev_involutive in E. contradiction.
    + cbn [app]. apply digit_not_ws. rewrite forallb_forall in D. apply D, in_rev. rewrite E. left; reflexivity.
Qed.

(* ---------- the whole field "bytes=first-last" ---------- *)

Definition render_range (specs : bytes) : bytes := BYTES_UNIT ++ [EQC] ++ specs.

Lemma partition_unit specs : partition3 EQC (render_range specs) = (BYTES_UNIT, true, specs).
Proof. unfold render_range. apply partition3_app. vm_compute. reflexivity. Qed.

Lemma stddev_single r : stddev_gt2 [r] = false.
Proof.
  unfold stddev_gt2. cbn [existsb orb]. destruct (is_none (snd r)); [reflexivity|].
  cbn [map List.length sumN fold_right]. apply N.ltb_ge. rewrite !N.add_0_r.
  change (N.of_nat 1) with 1. lia.
Qed.

Lemma dos_ok_single r : dos_ok [r] = true.
Proof.
  unfold dos_ok. rewrite stddev_single.
  unfold count_if. cbn [filter].
  destruct (is_none (fst r)), (is_none (snd r)); reflexivity.
Qed.

Theorem range_parse_single_v vi vu first last :
  unit_ok vu BYTES_UNIT = true -> first < last ->
  range_parse_v vi vu dos_ok (render_range (render_spec first last)) = Some (BYTES_UNIT, [(Some first, Some last)]).
Proof.
  intros Hu H. unfold range_parse_v, range_specs_v.
  rewrite partition_unit, Hu.
  rewrite (qsplit_plain COMMA _ (render_spec_plain first last)).
  cbn [map]. rewrite render_spec_strip, (parse_one_render vi first last H).
  cbn [all_some dedupe existsb sort_r fold_right insert_r].
  rewrite dos_ok_single. reflexivity.
Qed.

Theorem range_parse_single first last :
  first < last ->
  range_parse (render_range (render_spec first last)) = Some (BYTES_UNIT, [(Some first, Some last)]).
Proof. apply range_parse_single_v, unit_ok_bytes_current. Qed.

(* ---------- slices ---------- *)

Lemma len_firstn_skipn (d : bytes) (s k : nat) :
  (s + k <= List.length d)%nat -> List.length (firstn k (skipn s d)) = k.
Proof. intros H. rewrite firstn_length, skipn_length. lia. Qed.

Lemma slice_closed d first last :
  slice d (Some first, Some last) = firstn (nat_of (last + 1 - first)) (skipn (nat_of first) d).
Proof. reflexivity. Qed.

Lemma slice_closed_len d first last :
  first < last -> last < len d -> len (slice d (Some first, Some last)) = last + 1 - first.
Proof.
  intros H1 H2. unfold len in *. rewrite slice_closed, len_firstn_skipn; unfold nat_of; lia.
Qed.

Lemma nth_error_firstn' {A} (l : list A) : forall k i, (i < k)%nat -> nth_error (firstn k l) i = nth_error l i.
Proof.
  induction l as [|x l IH]; intros k i H.
  - rewrite firstn_nil. reflexivity.
  - destruct k; [lia|]. destruct i; cbn; [reflexivity|]. apply IH. lia.
Qed.

Lemma nth_error_skipn' {A} (l : list A) : forall s i, nth_error (skipn s l) i = nth_error l (s + i).
Proof.
  induction l as [|x l IH]; intros s i.
  - rewrite skipn_nil. destruct i, s; reflexivity.
  - destruct s; cbn; [reflexivity|]. apply IH.
Qed.

(* octet i of the slice is octet first+i of the representation *)
Lemma slice_closed_nth d first last i :
  (i < nat_of (last + 1 - first))%nat ->
  nth_error (slice d (Some first, Some last)) i = nth_error d (nat_of first + i).
Proof.
  intros H. rewrite slice_closed, nth_error_firstn' by exact H. apply nth_error_skipn'.
Qed.

Lemma content_range_closed first last total :
  first < last ->
  content_range (Some first, Some last) total =
  X "627974657320" ++ dec first ++ [DASH] ++ dec last ++ [SLASH] ++ dec total.
Proof.
  intros H. unfold content_range. cbn [fst snd or0].
  replace (last =? 0) with false by (symmetry; apply N.eqb_neq; lia). reflexivity.
Qed.

(* ---------- the prepared response ---------- *)

Definition pre_ok (c : pre) : bool :=
  p_resp11 c && p_req11 c && p_status200 c && p_get c && accept_ranges_set c && negb (p_chunked c) && p_fileable c.

Lemma range_conditions_ok c d : pre_ok c = true -> isnil d = false -> range_conditions c true d = true.
Proof.
  unfold pre_ok, range_conditions. intros H ->.
  destruct (p_resp11 c), (p_req11 c), (p_status200 c), (p_get c), (accept_ranges_set c), (p_chunked c), (p_fileable c);
    cbn in H; try discriminate; reflexivity.
Qed.

Lemma range_conditions_pre c r d : range_conditions c r d = true -> pre_ok c = true /\ r = true /\ isnil d = false.
Proof.
  unfold pre_ok, range_conditions. intros H.
  destruct (p_resp11 c), (p_req11 c), (p_status200 c), r, (p_get c), (accept_ranges_set c), (p_chunked c), (isnil d), (p_fileable c);
    cbn in H; try discriminate; repeat split; reflexivity.
Qed.

Theorem single_range_general vi vu accept c v u first last d ct bd :
  range_conditions c true d = true ->
  range_parse_v vi vu accept v = Some (u, [(Some first, Some last)]) -> unit_served vu u = true ->
  first < last -> last < len d ->
  prepare_ranges_v vi vu accept c (Some v) d ct bd =
    Partial (Some (X "627974657320" ++ dec first ++ [DASH] ++ dec last ++ [SLASH] ++ dec (len d))) None
            (last + 1 - first) (firstn (nat_of (last + 1 - first)) (skipn (nat_of first) d)).
Proof.
  intros Hc Hp Hu H1 H2. unfold prepare_ranges_v. rewrite Hc, Hp, Hu. unfold prepare_range.
  rewrite (content_range_closed first last (len d) H1), (slice_closed_len d first last H1 H2). reflexivity.
Qed.

Theorem single_range_v vi vu c d ct bd first last :
  unit_ok vu BYTES_UNIT = true ->
  pre_ok c = true -> first < last -> last < len d ->
  prepare_ranges_v vi vu dos_ok c (Some (render_range (render_spec first last))) d ct bd =
    Partial (Some (X "627974657320" ++ dec first ++ [DASH] ++ dec last ++ [SLASH] ++ dec (len d))) None
            (last + 1 - first) (firstn (nat_of (last + 1 - first)) (skipn (nat_of first) d)).
Proof.
  intros Hu Hc H1 H2. apply (single_range_general vi vu dos_ok c _ BYTES_UNIT); [| | | exact H1 | exact H2].
  - apply range_conditions_ok; [exact Hc|]. destruct d; [cbn in H2; lia | reflexivity].
  - apply range_parse_single_v; [exact Hu | exact H1].
  - apply unit_served_bytes.
Qed.

Theorem single_range c d ct bd first last :
  pre_ok c = true -> first < last -> last < len d ->
  prepare_ranges c (Some (render_range (render_spec first last))) d ct bd =
    Partial (Some (X "627974657320" ++ dec first ++ [DASH] ++ dec last ++ [SLASH] ++ dec (len d))) None
            (last + 1 - first) (firstn (nat_of (last + 1 - first)) (skipn (nat_of first) d)).
Proof.
  apply single_range_v, unit_ok_bytes_current.
Qed.

Theorem multi_range vi vu accept c v u rs d ct bd :
  range_conditions c true d = true ->
  range_parse_v vi vu accept v = Some (u, rs) -> unit_served vu u = true -> (2 <= List.length rs)%nat ->
  prepare_ranges_v vi vu accept c (Some v) d ct bd =
    let body := mp_encode bd (map (fun r => (part_headers ct (content_range r (len d)), slice d r)) rs) in
    Partial None (Some (multipart_ctype bd)) (len body) body.
Proof.
  intros Hc Hp Hu Hl. unfold prepare_ranges_v. rewrite Hc, Hp, Hu. unfold prepare_range.
  destruct rs as [|r1 [|r2 rs]]; cbn in Hl; try lia. reflexivity.
Qed.

(* a refused field never gives 206, whatever the DoS filter and the preconditions *)
Theorem refused_never_206 vi vu accept c v d ct bd before :
  range_parse_v vi vu accept v = None -> before <> 206 ->
  status_of (prepare_ranges_v vi vu accept c (Some v) d ct bd) before <> 206.
Proof.
  intros Hp Hb. unfold prepare_ranges_v. rewrite Hp.
  destruct (range_conditions c true d); cbn [status_of]; [lia | exact Hb].
Qed.

(* and 206 is only ever produced when every precondition holds *)
Theorem partial_only_under_preconditions vi vu accept c range d ct bd before :
  before <> 206 -> status_of (prepare_ranges_v vi vu accept c range d ct bd) before = 206 ->
  pre_ok c = true /\ isnil d = false /\
  exists v u rs, range = Some v /\ range_parse_v vi vu accept v = Some (u, rs) /\ unit_served vu u = true.
Proof.
  intros Hb H. unfold prepare_ranges_v in H. destruct range as [v|]; [|cbn in H; contradiction].
  destruct (range_conditions c true d) eqn:Hc; [|cbn in H; contradiction].
  destruct (range_conditions_pre _ _ _ Hc) as (P & _ & Nn).
  destruct (range_parse_v vi vu accept v) as [[u rs]|] eqn:Hp; [|cbn in H; lia].
  destruct (unit_served vu u) eqn:Hu; [|cbn in H; contradiction].
  repeat split; try assumption. exists v, u, rs. repeat split; [exact Hp | exact Hu].
Qed.

(* a unit other than 'bytes' (any case) leaves the response alone once the unit is looked at (RFC 7233 3.1) *)
Theorem foreign_unit_unchanged vi accept c v u rs d ct bd :
  range_parse_v vi Repaired accept v = Some (u, rs) -> lower u <> BYTES_UNIT ->
  prepare_ranges_v vi Repaired accept c (Some v) d ct bd = Unchanged.
Proof.
  intros Hp Hu. unfold prepare_ranges_v. rewrite Hp. destruct (range_conditions c true d); [|reflexivity].
  cbn [unit_served]. destruct (bytes_eqb (lower u) BYTES_UNIT) eqn:E; [|reflexivity].
  apply bytes_eqb_eq in E. contradiction.
Qed.

(* ---------- what an accepted list of ranges looks like ---------- *)

Lemma optN_eqb_eq a b : optN_eqb a b = true <-> a = b.
Proof.
  destruct a, b; cbn; split; try congruence; intros H.
  - apply N.eqb_eq in H. congruence.
  - injection H as ->. apply N.eqb_refl.
Qed.

Lemma rspec_eqb_eq a b : rspec_eqb a b = true <-> a = b.
Proof.
  destruct a as [a1 a2], b as [b1 b2]. unfold rspec_eqb. cbn [fst snd]. rewrite andb_true_iff, !optN_eqb_eq.
  split; [intros [-> ->]; reflexivity | intros H; injection H as -> ->; split; reflexivity].
Qed.

Lemma existsb_rspec x l : existsb (rspec_eqb x) l = true <-> In x l.
Proof.
  rewrite existsb_exists. split.
  - intros [y [H1 H2]]. apply rspec_eqb_eq in H2. subst. exact H1.
  - intros H. exists x. split; [exact H | apply rspec_eqb_eq; reflexivity].
Qed.

Lemma dedupe_spec l : forall seen,
  NoDup (dedupe seen l) /\ (forall x, In x (dedupe seen l) <-> In x l /\ ~ In x seen).
Proof.
  induction l as [|y l IH]; intros seen; cbn [dedupe].
  - split; [constructor | intros x; cbn; tauto].
  - destruct (existsb (rspec_eqb y) seen) eqn:E.
    + apply existsb_rspec in E. destruct (IH seen) as [N I]. split; [exact N|].
      intros x. rewrite I. cbn. split; [tauto|]. intros [[->|H] S]; [contradiction | tauto].
    + assert (~ In y seen) as Ny by (intros H; apply existsb_rspec in H; congruence).
      destruct (IH (y :: seen)) as [N I]. split.
      * constructor; [|exact N]. rewrite I. cbn. tauto.
      * intros x. cbn [In]. rewrite I. cbn [In]. split.
        -- intros [<-|[H S]]; [tauto|]. tauto.
        -- intros [H S]. destruct (rspec_eqb y x) eqn:Q.
           ++ apply rspec_eqb_eq in Q. left. exact Q.
           ++ right. assert (y <> x) by (intros ->; rewrite (proj2 (rspec_eqb_eq x x) eq_refl) in Q; discriminate).
              tauto.
Qed.

Lemma insert_r_perm x l : Permutation (x :: l) (insert_r x l).
Proof.
  induction l as [|y l IH]; cbn [insert_r]; [reflexivity|].
  destruct (skey x <=? skey y); [reflexivity|].
  rewrite perm_swap. constructor. exact IH.
Qed.

Lemma sort_r_perm l : Permutation l (sort_r l).
Proof.
  induction l as [|x l IH]; cbn; [constructor|].
  rewrite <- insert_r_perm. constructor. exact IH.
Qed.

Definition key_le (a b : rspec) : Prop := skey a <= skey b.

Lemma insert_r_sorted x l : StronglySorted key_le l -> StronglySorted key_le (insert_r x l).
Proof.
  induction l as [|y l IH]; intros S; cbn [insert_r].
  - constructor; constructor.
  - destruct (skey x <=? skey y) eqn:E.
    + apply N.leb_le in E. constructor; [exact S|].
      constructor; [exact E|]. inversion S as [|? ? S' F]; subst.
      eapply Forall_impl; [|exact F]. intros z Hz. unfold key_le in *. lia.
    + apply N.leb_gt in E. inversion S as [|? ? S' F]; subst.
      constructor; [apply IH, S'|].
      eapply Permutation_Forall; [apply insert_r_perm|].
      constructor; [unfold key_le; lia | exact F].
Qed.

Lemma sort_r_sorted l : StronglySorted key_le (sort_r l).
Proof. induction l as [|x l IH]; cbn; [constructor | apply insert_r_sorted, IH]. Qed.

Lemma all_some_spec {A B} (f : A -> option B) l out :
  all_some (map f l) = Some out -> Forall2 (fun x y => f x = Some y) l out.
Proof.
  revert out; induction l as [|x l IH]; cbn; intros out H.
  - injection H as <-. constructor.
  - destruct (f x) eqn:E; [|discriminate]. destruct (all_some (map f l)); [|discriminate].
    injection H as <-. constructor; [exact E | apply IH; reflexivity].
Qed.

Theorem range_parse_with_spec vi vu accept v u rs :
  range_parse_v vi vu accept v = Some (u, rs) ->
  exists specs, range_specs_v vi vu v = (u, Some specs) /\ accept rs = true /\
    (forall r, In r rs <-> In r specs) /\ NoDup rs /\ StronglySorted key_le rs.
Proof.
  unfold range_parse_v. destruct (range_specs_v vi vu v) as [u' [specs|]] eqn:E; [|discriminate].
  destruct (accept (sort_r (dedupe [] specs))) eqn:A; [|discriminate].
  intros H. injection H as <- <-. exists specs. split; [reflexivity|]. split; [exact A|].
  destruct (dedupe_spec specs []) as [N I].
  split; [|split].
  - intros r. rewrite <- (Permutation_in' (eq_refl r) (sort_r_perm _)), I. cbn. tauto.
  - eapply Permutation_NoDup; [apply sort_r_perm | exact N].
  - apply sort_r_sorted.
Qed.

(* ---------- accepted closed ranges are strictly ascending and do not overlap ---------- *)

Definition spec_wf (r : rspec) : Prop :=
  match r with
  | (Some f, Some l) => f < l
  | (None, Some l) => 0 < l
  | (Some f, None) => 0 < f
  | (None, None) => False
  end.

Lemma parse_one_wf vi p r : parse_one vi p = Some r -> spec_wf r.
Proof.
  unfold parse_one. destruct (partition3 DASH p) as [[a f] b].
  destruct ((isnil (strip a) && isnil (strip b)) || negb f); [discriminate|].
  set (s := if isnil (strip a) then Some None else option_map Some (pos_parse vi (strip a))).
  set (e := if isnil (strip b) then Some None else option_map Some (pos_parse vi (strip b))).
  destruct s as [s|]; [|discriminate]. destruct e as [e|]; [|discriminate].
  destruct s as [x|], e as [y|]; unfold zero_or_none; cbn [andb].
  - destruct (y <=? x) eqn:E; [discriminate|]. apply N.leb_gt in E.
    destruct ((x =? 0) && (y =? 0)); [discriminate|]. intros H. injection H as <-. exact E.
  - destruct (x =? 0) eqn:E; cbn [andb]; [discriminate|].
    intros H. injection H as <-. cbn. apply N.eqb_neq in E. lia.
  - destruct (y =? 0) eqn:E; [discriminate|].
    intros H. injection H as <-. cbn. apply N.eqb_neq in E. lia.
  - discriminate.
Qed.

Lemma range_specs_wf vi vu v u specs : range_specs_v vi vu v = (u, Some specs) -> Forall spec_wf specs.
Proof.
  unfold range_specs_v. destruct (partition3 EQC v) as [[u' f] rest]. intros H. injection H as _ H.
  destruct (unit_ok vu u'); [|discriminate].
  apply all_some_spec in H. induction H; constructor; [eapply parse_one_wf; eassumption | assumption].
Qed.

Definition closed_b (r : rspec) : bool := match r with (Some _, Some _) => true | _ => false end.

(* [a] lies entirely before [b]: starts strictly increase and a's last position is at most b's first *)
Definition before (a b : rspec) : Prop :=
  match a, b with
  | (Some fa, Some la), (Some fb, Some lb) => fa < fb /\ la <= fb
  | _, _ => True
  end.

Lemma ndr_sorted (iv : rspec -> N * N) rs : forall seen,
  no_dup_range seen (map iv rs) = true ->
  StronglySorted (fun a b => overlap (iv b) (iv a) = false) rs /\
  Forall (fun b => forall s, In s seen -> overlap (iv b) s = false) rs.
Proof.
  induction rs as [|r rs IH]; intros seen H; cbn [map no_dup_range] in H.
  - split; constructor.
  - destruct (existsb (overlap (iv r)) seen) eqn:E; [discriminate|].
    destruct (IH _ H) as [S F]. split.
    + constructor; [exact S|]. eapply Forall_impl; [|exact F]. intros b Hb. apply Hb. left; reflexivity.
    + constructor.
      * intros s Hs. destruct (overlap (iv r) s) eqn:O; [|reflexivity].
        assert (existsb (overlap (iv r)) seen = true) by (apply existsb_exists; exists s; split; assumption). congruence.
      * eapply Forall_impl; [|exact F]. intros b Hb s Hs. apply Hb. right; exact Hs.
Qed.

Theorem dos_ok_ascending rs :
  forallb closed_b rs = true -> Forall spec_wf rs -> StronglySorted key_le rs -> dos_ok rs = true ->
  StronglySorted before rs.
Proof.
  intros Hc Hw Hs Hd. unfold dos_ok in Hd.
  apply andb_true_iff in Hd as [Hd _]. apply andb_true_iff in Hd as [_ Hd].
  set (m := fold_right N.max 0 (map (fun r : option N * option N => or0 (snd r) + 1) rs)) in Hd. clearbody m.
  apply ndr_sorted in Hd as [Hd _].
  induction rs as [|r rs IH]; [constructor|].
  cbn [forallb] in Hc. apply andb_true_iff in Hc as [Hc1 Hc2].
  inversion Hw as [|? ? W1 W2]; subst. inversion Hs as [|? ? S1 S2]; subst. inversion Hd as [|? ? D1 D2]; subst.
  constructor; [apply IH; assumption|].
  rewrite Forall_forall in *. intros b Hb.
  specialize (S2 b Hb). specialize (D2 b Hb). specialize (W2 b Hb).
  rewrite forallb_forall in Hc2. specialize (Hc2 b Hb).
  destruct r as [[fa|] [la|]]; try discriminate. destruct b as [[fb|] [lb|]]; try discriminate.
  cbn in W1, W2. unfold key_le, skey in S2. cbn [fst] in S2.
  unfold overlap in D2. cbn [fst snd or0] in D2. apply N.ltb_ge in D2.
  cbn. lia.
Qed.

(* ---------- the strict grammar: what Range.parse refuses ---------- *)

(* byte-range-spec = first-byte-pos "-" [last-byte-pos] | "-" suffix-length, white space tolerated around positions *)
Definition strict_spec (p : bytes) : bool :=
  let '(a, f, b) := partition3 DASH p in
  let s := strip a in
  let e := strip b in
  f && ((all_digits s && (isnil e || all_digits e)) || (isnil s && all_digits e)).

(* ranges-specifier = range-unit "=" 1#byte-range-spec (no empty list elements) *)
Definition strict_ok (v : bytes) : bool :=
  let '(u, f, rest) := partition3 EQC v in
  f && token u && forallb (fun p => strict_spec (strip p)) (qsplit COMMA rest).

(* the complement of the two known findings: a token as unit, and neither '+' nor '_' in the range set *)
Definition no_lax (v : bytes) : bool :=
  let '(u, _, rest) := partition3 EQC v in
  token u && forallb (fun c => negb (beq c PLUS) && negb (beq c USC)) rest.

Definition plain (l : bytes) : Prop := forall c, In c l -> beq c PLUS = false /\ beq c USC = false.

Lemma int_digits_plain l : forall acc p n,
  plain l -> int_digits l acc p = Some n -> forallb is_digit l = true /\ (l <> [] \/ p = true).
Proof.
  induction l as [|c l IH]; intros acc p n Hp H; cbn [int_digits] in H.
  - destruct p; [|discriminate]. split; [reflexivity | right; reflexivity].
  - rewrite int_digits_are_ascii_digits in H. destruct (is_digit c) eqn:D.
    + destruct (IH _ _ _ (fun x Hx => Hp x (or_intror Hx)) H) as [F _].
      split; [cbn [forallb]; rewrite D, F; reflexivity | left; discriminate].
    + rewrite int_underscore_is in H. destruct (Hp c (or_introl eq_refl)) as [_ U]. rewrite U in H. discriminate.
Qed.

Lemma strip_by_int_ws_id s :
  match s with c :: _ => is_ws c = false | [] => True end ->
  match rev s with c :: _ => is_ws c = false | [] => True end ->
  strip_by INT_WS s = s.
Proof.
  intros H1 H2. unfold strip_by. rewrite int_ws_is_bytes_ws.
  rewrite (lstrip_by_id BYTES_WS s H1), (lstrip_by_id BYTES_WS (rev s) H2). apply rev_involutive.
Qed.

(* a position text that integer() accepts and that uses no laxness is a digit string,
   or it is "-" followed by a numeral of value 0 *)
Lemma pynat_plain x n :
  plain (strip x) -> pynat (strip x) = Some n ->
  all_digits (strip x) = true \/ (exists r, strip x = DASH :: r /\ n = 0).
Proof.
  intros Hp H. unfold pynat, pyint in H.
  destruct (strip_ends x) as [E1 E2]. rewrite (strip_by_int_ws_id _ E1 E2) in H.
  destruct (strip x) as [|c r] eqn:S; [discriminate|].
  destruct (inmask INT_SIGNS c) eqn:Sg.
  - rewrite int_signs_are in Sg. destruct (Hp c (or_introl eq_refl)) as [P _]. rewrite P in Sg. cbn [orb] in Sg.
    apply beq_eq in Sg. subst c. right.
    destruct (int_digits r 0 false) as [m|]; [|discriminate].
    rewrite int_minus_is, beq_refl in H. cbn [andb] in H.
    destruct (existsb (beq SP) (DASH :: r)); [discriminate|].
    destruct (m =? 0) eqn:Z; cbn [negb] in H; [|discriminate].
    injection H as <-. apply N.eqb_eq in Z. exists r. split; [reflexivity | exact Z].
  - destruct (int_digits (c :: r) 0 false) as [m|] eqn:I; [|discriminate].
    left. destruct (int_digits_plain _ _ _ _ Hp I) as [F _]. unfold all_digits. rewrite F. reflexivity.
Qed.

Lemma all_digits_no_dash s : all_digits s = true -> forall r, s <> DASH :: r.
Proof.
  unfold all_digits. intros H r ->. apply andb_true_iff in H as [_ H]. cbn [forallb] in H.
  apply andb_true_iff in H as [H _]. vm_compute in H. discriminate.
Qed.

Lemma strip_incl l c : In c (strip l) -> In c l.
Proof.
  unfold strip, rstrip. intros H. apply in_rev in H.
  destruct (lstrip_suffix (rev (lstrip l))) as [w [E _]].
  assert (In c (rev (lstrip l))) by (rewrite E; apply in_or_app; right; exact H).
  apply in_rev in H0. destruct (lstrip_suffix l) as [w' [E' _]]. rewrite E'. apply in_or_app; right; exact H0.
Qed.

Lemma parse_one_strict p r : plain p -> parse_one AsFound p = Some r -> strict_spec p = true.
Proof.
  intros Hp H. unfold parse_one in H. cbn [pos_parse] in H. unfold strict_spec.
  destruct (partition3 DASH p) as [[a f] b] eqn:P.
  destruct (partition3_spec _ _ _ _ _ P) as [Ha Hl].
  destruct f; [|rewrite orb_true_r in H; discriminate]. cbn [negb] in H. rewrite orb_false_r in H.
  subst p. cbn [andb].
  assert (plain (strip a)) as Pa by (intros c Hc; apply Hp, in_or_app; left; apply strip_incl, Hc).
  assert (plain (strip b)) as Pb by (intros c Hc; apply Hp, in_or_app; right; right; apply strip_incl, Hc).
  assert (forall r', strip a <> DASH :: r') as Na.
  { intros r' E. assert (In DASH a) by (apply strip_incl; rewrite E; left; reflexivity).
    rewrite forallb_forall in Ha. specialize (Ha _ H0). rewrite beq_refl in Ha. discriminate. }
  destruct (isnil (strip a)) eqn:Ea; destruct (isnil (strip b)) eqn:Eb; cbn [andb] in H; try discriminate; cbn [option_map] in H.
  - (* suffix: -N *)
    destruct (pynat (strip b)) as [y|] eqn:Y; [|discriminate]. cbn [option_map] in H.
    destruct (pynat_plain _ _ Pb Y) as [D | [r' [E ->]]].
    + rewrite D. cbn. rewrite orb_true_r. reflexivity.
    + cbn in H. discriminate.
  - (* open: N- *)
    destruct (pynat (strip a)) as [x|] eqn:Xx; [|discriminate]. cbn [option_map] in H.
    destruct (pynat_plain _ _ Pa Xx) as [D | [r' [E _]]]; [|exfalso; eapply Na; exact E].
    rewrite D. reflexivity.
  - (* closed: N-M *)
    destruct (pynat (strip a)) as [x|] eqn:Xx; [|discriminate].
    destruct (pynat (strip b)) as [y|] eqn:Y; [|discriminate]. cbn [option_map] in H.
    destruct (pynat_plain _ _ Pa Xx) as [D | [r' [E _]]]; [|exfalso; eapply Na; exact E].
    destruct (pynat_plain _ _ Pb Y) as [D' | [r' [E ->]]].
    + rewrite D, D'. reflexivity.
    + replace (0 <=? x) with true in H by (symmetry; apply N.leb_le; lia). discriminate.
Qed.

Lemma qsplit_aux_incl sep l : forall p c,
  In p (snd (fst (qsplit_aux sep l)) :: snd (qsplit_aux sep l)) -> In c p -> In c l.
Proof.
  induction l as [|x l IH]; intros p c Hp Hc; cbn [qsplit_aux] in Hp.
  - cbn in Hp. destruct Hp as [<-|[]]. destruct Hc.
  - destruct (qsplit_aux sep l) as [[o h] t]. cbn [fst snd] in IH.
    destruct (beq x DQ); [|destruct (beq x sep && negb o)]; cbn [fst snd] in Hp.
    + destruct Hp as [<-|Hp]; [destruct Hc as [<-|Hc]; [left; reflexivity | right; apply (IH h c); [left; reflexivity | exact Hc]] | right; apply (IH p c); [right; exact Hp | exact Hc]].
    + destruct Hp as [<-|Hp]; [destruct Hc | right; apply (IH p c); assumption].
    + destruct Hp as [<-|Hp]; [destruct Hc as [<-|Hc]; [left; reflexivity | right; apply (IH h c); [left; reflexivity | exact Hc]] | right; apply (IH p c); [right; exact Hp | exact Hc]].
Qed.

Lemma qsplit_incl sep l p c : In p (qsplit sep l) -> In c p -> In c l.
Proof.
  unfold qsplit. intros Hp Hc. apply (qsplit_aux_incl sep l p c); [|exact Hc].
  destruct (qsplit_aux sep l) as [[o h] t]. exact Hp.
Qed.

Lemma Forall2_in_left {A B} (R : A -> B -> Prop) l l' x :
  Forall2 R l l' -> In x l -> exists y, In y l' /\ R x y.
Proof.
  induction 1 as [|a b l l' H F IH]; intros Hx; [destruct Hx|].
  destruct Hx as [<-|Hx]; [exists b; split; [left; reflexivity | exact H]|].
  destruct (IH Hx) as [y [H1 H2]]. exists y. split; [right; exact H1 | exact H2].
Qed.

(* the as-found tree *)
Theorem strict_refused_asfound v :
  no_lax v = true -> strict_ok v = false -> snd (range_specs_v AsFound AsFound v) = None.
Proof.
  unfold no_lax, strict_ok, range_specs_v. destruct (partition3 EQC v) as [[u f] rest] eqn:P.
  intros Hn Hs. apply andb_true_iff in Hn as [Tu Pl]. rewrite Tu, andb_true_r in Hs. cbn [snd unit_ok].
  destruct (all_some (map (fun p => parse_one AsFound (strip p)) (qsplit COMMA rest))) as [l|] eqn:A; [|reflexivity].
  exfalso. apply all_some_spec in A.
  assert (forallb (fun p => strict_spec (strip p)) (qsplit COMMA rest) = true) as F.
  { apply forallb_forall. intros p Hp.
    destruct (Forall2_in_left _ _ _ _ A Hp) as [r [_ Hr]]. cbv beta in Hr.
    eapply parse_one_strict; [|exact Hr].
    intros c Hc. apply strip_incl in Hc. pose proof (qsplit_incl _ _ _ _ Hp Hc) as Hin.
    rewrite forallb_forall in Pl. specialize (Pl c Hin). apply andb_true_iff in Pl as [P1 P2].
    split; now apply negb_true_iff. }
  rewrite F, andb_true_r in Hs. subst f.
  (* no "=" at all: the range set is empty and its only piece is refused *)
  destruct (partition3_spec _ _ _ _ _ P) as [_ [_ ->]].
  cbn in A. inversion A as [|? ? ? ? Hx]; subst. vm_compute in Hx. discriminate.
Qed.

(* whatever a repaired variant accepts, the as-found code accepts with the same result *)
Lemma parse_one_sub vi p r : parse_one vi p = Some r -> parse_one AsFound p = Some r.
Proof.
  destruct vi; [trivial|]. unfold parse_one. destruct (partition3 DASH p) as [[a f] b].
  destruct ((isnil (strip a) && isnil (strip b)) || negb f); [trivial|].
  cbn [pos_parse]. intros H.
  destruct (isnil (strip a)), (isnil (strip b));
    repeat match type of H with context [if isdigit_all ?x then _ else _] => destruct (isdigit_all x) end;
    cbn [option_map] in H; try discriminate H; try exact H;
    destruct (pynat (strip a)); cbn [option_map] in H; discriminate H.
Qed.

Lemma all_some_sub {A B} (f g : A -> option B) l out :
  (forall x y, f x = Some y -> g x = Some y) -> all_some (map f l) = Some out -> all_some (map g l) = Some out.
Proof.
  intros Hfg. revert out; induction l as [|x l IH]; cbn [map all_some]; intros out H; [exact H|].
  destruct (f x) as [y|] eqn:E; [|discriminate]. rewrite (Hfg _ _ E).
  destruct (all_some (map f l)) as [r|]; [|discriminate]. rewrite (IH r eq_refl). exact H.
Qed.

Lemma range_specs_sub vi vu v u l :
  range_specs_v vi vu v = (u, Some l) -> range_specs_v AsFound AsFound v = (u, Some l).
Proof.
  unfold range_specs_v. destruct (partition3 EQC v) as [[u' f] rest]. cbn [unit_ok].
  destruct (unit_ok vu u'); [|discriminate]. intros H. injection H as -> H. f_equal.
  eapply all_some_sub; [|exact H]. intros x y. apply parse_one_sub.
Qed.

(* the statement away from the two finding classes holds of every variant ... *)
Theorem strict_refused vi vu v :
  no_lax v = true -> strict_ok v = false -> snd (range_specs_v vi vu v) = None.
Proof.
  intros Hn Hs. destruct (range_specs_v vi vu v) as [u [l|]] eqn:E; [|reflexivity].
  apply range_specs_sub in E. pose proof (strict_refused_asfound v Hn Hs) as R. rewrite E in R. discriminate.
Qed.

Theorem strict_never_206 vi vu accept c v d ct bd before :
  no_lax v = true -> strict_ok v = false -> before <> 206 ->
  status_of (prepare_ranges_v vi vu accept c (Some v) d ct bd) before <> 206.
Proof.
  intros Hn Hs. apply refused_never_206. unfold range_parse_v.
  pose proof (strict_refused vi vu v Hn Hs) as R. destruct (range_specs_v vi vu v) as [u [l|]]; [discriminate | reflexivity].
Qed.

(* ... and of the repaired code it holds without that restriction: whatever Range.parse lets through is inside the grammar *)
Lemma parse_one_strict_repaired p r : parse_one Repaired p = Some r -> strict_spec p = true.
Proof.
  unfold parse_one, strict_spec. destruct (partition3 DASH p) as [[a f] b].
  destruct f; [|rewrite orb_true_r; discriminate]. cbn [negb andb]. rewrite orb_false_r.
  destruct (isnil (strip a)) eqn:Ea; destruct (isnil (strip b)) eqn:Eb; cbn [andb orb]; try discriminate.
  - destruct (pos_parse Repaired (strip b)) as [y|] eqn:Y; [|discriminate]. intros _.
    rewrite (pos_parse_repaired _ _ Y). apply orb_true_r.
  - destruct (pos_parse Repaired (strip a)) as [x|] eqn:Xx; [|discriminate]. intros _.
    rewrite (pos_parse_repaired _ _ Xx). reflexivity.
  - destruct (pos_parse Repaired (strip a)) as [x|] eqn:Xx; [|discriminate].
    destruct (pos_parse Repaired (strip b)) as [y|] eqn:Y; [|discriminate]. intros _.
    rewrite (pos_parse_repaired _ _ Xx), (pos_parse_repaired _ _ Y). reflexivity.
Qed.

Lemma unit_ok_token u : unit_ok Repaired u = true -> token u = true.
Proof.
  unfold unit_ok, token. intros H. apply andb_true_iff in H as [H1 H2]. rewrite H1. cbn [andb].
  apply (forallb_impl (inmask RANGE_UNIT_CHARS)); [apply unit_chars_tchar | exact H2].
Qed.

Theorem strict_refused_repaired v :
  strict_ok v = false -> snd (range_specs_v Repaired Repaired v) = None.
Proof.
  unfold strict_ok, range_specs_v. destruct (partition3 EQC v) as [[u f] rest] eqn:P.
  intros Hs. cbn [snd]. destruct (unit_ok Repaired u) eqn:U; [|reflexivity].
  rewrite (unit_ok_token u U), andb_true_r in Hs.
  destruct (all_some (map (fun p => parse_one Repaired (strip p)) (qsplit COMMA rest))) as [l|] eqn:A; [|reflexivity].
  exfalso. apply all_some_spec in A.
  assert (forallb (fun p => strict_spec (strip p)) (qsplit COMMA rest) = true) as F.
  { apply forallb_forall. intros p Hp.
    destruct (Forall2_in_left _ _ _ _ A Hp) as [r [_ Hr]]. cbv beta in Hr.
    eapply parse_one_strict_repaired; exact Hr. }
  rewrite F, andb_true_r in Hs. subst f.
  destruct (partition3_spec _ _ _ _ _ P) as [_ [_ ->]].
  cbn in A. inversion A as [|? ? ? ? Hx]; subst. vm_compute in Hx. discriminate.
Qed.

Theorem strict_never_206_repaired accept c v d ct bd before :
  strict_ok v = false -> before <> 206 ->
  status_of (prepare_ranges_v Repaired Repaired accept c (Some v) d ct bd) before <> 206.
Proof.
  intros Hs. apply refused_never_206. unfold range_parse_v.
  pose proof (strict_refused_repaired v Hs) as R. destruct (range_specs_v Repaired Repaired v) as [u [l|]]; [discriminate | reflexivity].
Qed.

(* the same about the working tree, once both probes report the repaired code *)
Theorem strict_never_206_current accept c v d ct bd before :
  RANGE_INT_VARIANT = Repaired -> RANGE_UNIT_VARIANT = Repaired ->
  strict_ok v = false -> before <> 206 ->
  status_of (prepare_ranges_with accept c (Some v) d ct bd) before <> 206.
Proof. unfold prepare_ranges_with. intros -> ->. apply strict_never_206_repaired. Qed.

(* the full statement (without [no_lax]) is false of the faithful model of the as-found code: the two findings *)
Lemma strict_never_206_refuted_sign :
  exists c v d ct bd, strict_ok v = false /\ pre_ok c = true /\ status_of (prepare_ranges_v AsFound AsFound dos_ok c (Some v) d ct bd) 200 = 206.
Proof.
  exists (mkpre true true true true true false false false true), (X "62797465733d2b312d2b32"), (X "666f6f62617262617a"), [], [].
  vm_compute. repeat split; reflexivity.
Qed.

Lemma strict_never_206_refuted_unit :
  exists c v d ct bd, strict_ok v = false /\ pre_ok c = true /\ status_of (prepare_ranges_v AsFound AsFound dos_ok c (Some v) d ct bd) 200 = 206.
Proof.
  exists (mkpre true true true true true false false false true), (X "3d312d32"), (X "666f6f62617262617a"), [], [].
  vm_compute. repeat split; reflexivity.
Qed.

(* the same two inputs on the repaired model: refused (416), respectively not served *)
Lemma repaired_refuses_witnesses :
  let c := mkpre true true true true true false false false true in
  status_of (prepare_ranges_v Repaired AsFound dos_ok c (Some (X "62797465733d2b312d2b32")) (X "666f6f62617262617a") [] []) 200 = 416 /\
  (RANGE_UNIT_VARIANT = Repaired ->
   status_of (prepare_ranges c (Some (X "3d312d32")) (X "666f6f62617262617a") [] []) 200 = 416 /\
   prepare_ranges c (Some (X "626974733d312d32")) (X "666f6f62617262617a") [] [] = Unchanged /\
   status_of (prepare_ranges c (Some (X "42797465733d312d32")) (X "666f6f62617262617a") [] []) 200 = 206).
Proof.
  vm_compute. split; [reflexivity|]. intros H. first [discriminate H | repeat split; reflexivity].
Qed.

(* ---------- a rendered list of closed ranges:  bytes=f1-l1, f2-l2, ...  ---------- *)

Definition render_specs (l : list (N * N)) : bytes := join_with CSP (map (fun p => render_spec (fst p) (snd p)) l).

Theorem range_specs_render_list vi vu (l : list (N * N)) :
  unit_ok vu BYTES_UNIT = true -> l <> [] -> Forall (fun p => fst p < snd p) l ->
  range_specs_v vi vu (render_range (render_specs l)) = (BYTES_UNIT, Some (map (fun p => (Some (fst p), Some (snd p))) l)).
Proof.
  intros Hu Hne Hw. unfold range_specs_v. rewrite partition_unit, Hu. f_equal.
  destruct l as [|p l]; [contradiction|]. unfold render_specs. cbn [map].
  rewrite qsplit_join.
  2:{ constructor; [apply render_spec_plain|]. apply Forall_forall. intros x Hx. apply in_map_iff in Hx as [q [<- _]]. apply render_spec_plain. }
  cbn [map]. inversion Hw as [|? ? Hp Hw']; subst.
  rewrite render_spec_strip, (parse_one_render vi _ _ Hp). cbn [all_some].
  assert (all_some (map (fun p0 => parse_one vi (strip p0)) (map (cons SP) (map (fun p0 => render_spec (fst p0) (snd p0)) l)))
          = Some (map (fun p0 => (Some (fst p0), Some (snd p0))) l)) as ->; [|reflexivity].
  clear Hne Hw Hp. induction Hw' as [|q l Hq F IH]; [reflexivity|].
  cbn [map all_some].
  assert (strip (SP :: render_spec (fst q) (snd q)) = render_spec (fst q) (snd q)) as ->.
  { unfold strip. change (SP :: render_spec (fst q) (snd q)) with ([SP] ++ render_spec (fst q) (snd q)).
    rewrite lstrip_ws_app by (vm_compute; reflexivity). apply render_spec_strip. }
  rewrite (parse_one_render vi _ _ Hq), IH. reflexivity.
Qed.

Theorem range_parse_render_list_v vi vu accept (l : list (N * N)) :
  unit_ok vu BYTES_UNIT = true -> l <> [] -> Forall (fun p => fst p < snd p) l ->
  let rs := sort_r (dedupe [] (map (fun p => (Some (fst p), Some (snd p))) l)) in
  accept rs = true ->
  range_parse_v vi vu accept (render_range (render_specs l)) = Some (BYTES_UNIT, rs).
Proof.
  intros Hu Hne Hw rs Ha. unfold range_parse_v. rewrite (range_specs_render_list vi vu l Hu Hne Hw).
  fold rs. rewrite Ha. reflexivity.
Qed.

Theorem range_parse_render_list accept (l : list (N * N)) :
  l <> [] -> Forall (fun p => fst p < snd p) l ->
  let rs := sort_r (dedupe [] (map (fun p => (Some (fst p), Some (snd p))) l)) in
  accept rs = true ->
  range_parse_with accept (render_range (render_specs l)) = Some (BYTES_UNIT, rs).
Proof. apply range_parse_render_list_v, unit_ok_bytes_current. Qed.

(* Calendar lemmas: days <-> civil are inverse for ALL integers (one swept 400-year cycle + periodicity,
   which is built into the era decomposition), gmtime/timegm round trip, year bounds of the property's range,
   weekday facts. *)
From Coq Require Import ZArith Bool Lia.
From Httoop Require Import Model.DateCal Proofs.DateSweep Proofs.DateSweepA Proofs.DateSweepB Proofs.DateSweepC Proofs.DateSweepD.
Local Open Scope Z_scope.

(* ---- the cycle: glue of the four shards *)
Lemma cycle_ok : forall doe, 0 <= doe < ERA_DAYS -> cyc_ok doe = true.
Proof.
  unfold ERA_DAYS. intros doe H.
  destruct (Z_lt_ge_dec doe 36525); [apply cycle_shard_A; lia|].
  destruct (Z_lt_ge_dec doe 73050); [apply cycle_shard_B; lia|].
  destruct (Z_lt_ge_dec doe 109575); [apply cycle_shard_C; lia|].
  apply cycle_shard_D; lia.
Qed.

Lemma cycle_facts doe : 0 <= doe < ERA_DAYS ->
  let '(yoe, m, d) := civil_of_doe doe in
  0 <= yoe < 400 /\ 1 <= m <= 12 /\ 1 <= d <= 31 /\ doe_of_civil yoe m d = doe.
Proof.
  intros H. pose proof (cycle_ok doe H) as C. unfold cyc_ok in C.
  destruct (civil_of_doe doe) as [[yoe m] d].
  repeat (apply andb_true_iff in C as [C ?]).
  repeat match goal with
  | H : (_ <=? _) = true |- _ => apply Z.leb_le in H
  | H : (_ <? _) = true |- _ => apply Z.ltb_lt in H
  | H : (_ =? _) = true |- _ => apply Z.eqb_eq in H
  end.
  lia.
Qed.

(* ---- days -> civil -> days is the identity on every integer *)
Theorem days_civil_days z :
  let '(y, m, d) := civil_from_days z in
  days_from_civil y m d = z /\ 1 <= m <= 12 /\ 1 <= d <= 31.
Proof.
  unfold civil_from_days.
  assert (Hm : 0 <= (z + EPOCH_SHIFT) mod ERA_DAYS < ERA_DAYS) by (apply Z.mod_pos_bound; reflexivity).
  pose proof (cycle_facts _ Hm) as F.
  pose proof (Z.div_mod (z + EPOCH_SHIFT) ERA_DAYS ltac:(discriminate)) as DM.
  set (era := (z + EPOCH_SHIFT) / ERA_DAYS) in *.
  set (doe := (z + EPOCH_SHIFT) mod ERA_DAYS) in *.
  destruct (civil_of_doe doe) as [[yoe m] d].
  destruct F as (Hy & Hmo & Hd & Hdoe).
  split; [|lia].
  unfold days_from_civil.
  assert (E : (if m <=? 2 then (if m <=? 2 then yoe + era * 400 + 1 else yoe + era * 400) - 1
                else (if m <=? 2 then yoe + era * 400 + 1 else yoe + era * 400)) = yoe + era * 400)
    by (destruct (m <=? 2); lia).
  rewrite E.
  rewrite Z.div_add by discriminate. rewrite Z.mod_add by discriminate.
  rewrite (Z.div_small yoe 400) by lia. rewrite (Z.mod_small yoe 400) by lia.
  rewrite Hdoe. lia.
Qed.

(* ---- time of day *)
Lemma tod_bounds t :
  let r := t mod 86400 in
  0 <= r / 3600 < 24 /\ 0 <= r mod 3600 / 60 < 60 /\ 0 <= r mod 60 < 60.
Proof.
  cbv zeta. Z.div_mod_to_equations. lia.
Qed.

Lemma tod_recompose days t : days = t / 86400 ->
  let r := t mod 86400 in
  ((days * 24 + r / 3600) * 60 + r mod 3600 / 60) * 60 + r mod 60 = t.
Proof.
  intros ->. cbv zeta. Z.div_mod_to_equations. lia.
Qed.

(* timegm (gmtime t) = t for every integer t *)
Theorem timegm_gmtime t :
  let g := gmtime t in
  timegm (tm_year g) (tm_mon g) (tm_mday g) (tm_hour g) (tm_min g) (tm_sec g) = t.
Proof.
  unfold gmtime. pose proof (days_civil_days (t / 86400)) as H.
  destruct (civil_from_days (t / 86400)) as [[y m] d]. destruct H as (H & _).
  cbn [tm_year tm_mon tm_mday tm_hour tm_min tm_sec]. unfold timegm. rewrite H.
  apply tod_recompose. reflexivity.
Qed.

Lemma gmtime_ranges t :
  let g := gmtime t in
  1 <= tm_mon g <= 12 /\ 1 <= tm_mday g <= 31 /\ 0 <= tm_hour g < 24 /\ 0 <= tm_min g < 60 /\ 0 <= tm_sec g < 60 /\
  0 <= tm_wday g < 7.
Proof.
  unfold gmtime. pose proof (days_civil_days (t / 86400)) as H.
  destruct (civil_from_days (t / 86400)) as [[y m] d]. destruct H as (_ & Hm & Hd).
  cbn [tm_year tm_mon tm_mday tm_hour tm_min tm_sec tm_wday].
  pose proof (tod_bounds t) as B. cbv zeta in B.
  unfold weekday. pose proof (Z.mod_pos_bound (t / 86400 + 3) 7 ltac:(reflexivity)). lia.
Qed.

(* ---- year bounds: days_from_civil is bounded below / above by the year *)
Lemma dfc_year_lower Y y m d : Y <= y -> 1 <= m <= 12 -> 1 <= d ->
  days_from_civil Y 1 1 <= days_from_civil y m d.
Proof.
  intros Hy Hm Hd. unfold days_from_civil, doe_of_civil, ERA_DAYS, EPOCH_SHIFT.
  change (1 <=? 2) with true. change (2 <? 1) with false. cbv iota.
  destruct (m <=? 2) eqn:E1; [apply Z.leb_le in E1 | apply Z.leb_gt in E1];
  (destruct (2 <? m) eqn:E2; [apply Z.ltb_lt in E2 | apply Z.ltb_ge in E2]); try lia;
  Z.div_mod_to_equations; lia.
Qed.

Lemma dfc_year_upper Y y m d : y <= Y -> 1 <= m <= 12 -> d <= 31 ->
  days_from_civil y m d <= days_from_civil Y 12 31.
Proof.
  intros Hy Hm Hd. unfold days_from_civil, doe_of_civil, ERA_DAYS, EPOCH_SHIFT.
  change (12 <=? 2) with false. change (2 <? 12) with true. cbv iota.
  destruct (m <=? 2) eqn:E1; [apply Z.leb_le in E1 | apply Z.leb_gt in E1];
  (destruct (2 <? m) eqn:E2; [apply Z.ltb_lt in E2 | apply Z.ltb_ge in E2]); try lia;
  Z.div_mod_to_equations; lia.
Qed.

Lemma civil_year_bounds z lo hi :
  days_from_civil lo 1 1 <= z -> z <= days_from_civil hi 12 31 ->
  let '(y, _, _) := civil_from_days z in lo <= y <= hi.
Proof.
  intros Hlo Hhi. pose proof (days_civil_days z) as H.
  destruct (civil_from_days z) as [[y m] d]. destruct H as (H & Hm & Hd).
  split.
  - destruct (Z_le_gt_dec lo y); [assumption|].
    pose proof (dfc_year_upper (lo - 1) y m d ltac:(lia) Hm ltac:(lia)).
    assert (days_from_civil (lo - 1) 12 31 < days_from_civil lo 1 1).
    { unfold days_from_civil, doe_of_civil, ERA_DAYS, EPOCH_SHIFT.
      change (12 <=? 2) with false. change (2 <? 12) with true. change (1 <=? 2) with true. change (2 <? 1) with false.
      cbv iota. Z.div_mod_to_equations. lia. }
    lia.
  - destruct (Z_le_gt_dec y hi); [assumption|].
    pose proof (dfc_year_lower (hi + 1) y m d ltac:(lia) Hm ltac:(lia)).
    assert (days_from_civil hi 12 31 < days_from_civil (hi + 1) 1 1).
    { unfold days_from_civil, doe_of_civil, ERA_DAYS, EPOCH_SHIFT.
      change (12 <=? 2) with false. change (2 <? 12) with true. change (1 <=? 2) with true. change (2 <? 1) with false.
      cbv iota. replace (hi + 1 - 1) with hi by lia. Z.div_mod_to_equations. lia. }
    lia.
Qed.

Lemma day_of_range t lo hi : lo * 86400 <= t -> t <= hi * 86400 + 86399 -> lo <= t / 86400 <= hi.
Proof. intros. Z.div_mod_to_equations. lia. Qed.

(* the property's range is exactly the years 1970..9999, the RFC 850 range the years 1970..2068 *)
Lemma gmtime_year_range t : 0 <= t <= MAX_T -> 1970 <= tm_year (gmtime t) <= 9999.
Proof.
  intros H. unfold gmtime.
  pose proof (day_of_range t 0 2932896 ltac:(lia) ltac:(unfold MAX_T in H; lia)) as D.
  pose proof (civil_year_bounds (t / 86400) 1970 9999) as B.
  assert (E1 : days_from_civil 1970 1 1 = 0) by (vm_compute; reflexivity).
  assert (E2 : days_from_civil 9999 12 31 = 2932896) by (vm_compute; reflexivity).
  rewrite E1, E2 in B. specialize (B ltac:(lia) ltac:(lia)).
  destruct (civil_from_days (t / 86400)) as [[y m] d]. exact B.
Qed.

Lemma gmtime_year_range_850 t : 0 <= t <= MAX_T_850 -> 1970 <= tm_year (gmtime t) <= 2068.
Proof.
  intros H. unfold gmtime.
  pose proof (day_of_range t 0 36159 ltac:(lia) ltac:(unfold MAX_T_850 in H; lia)) as D.
  pose proof (civil_year_bounds (t / 86400) 1970 2068) as B.
  assert (E1 : days_from_civil 1970 1 1 = 0) by (vm_compute; reflexivity).
  assert (E2 : days_from_civil 2068 12 31 = 36159) by (vm_compute; reflexivity).
  rewrite E1, E2 in B. specialize (B ltac:(lia) ltac:(lia)).
  destruct (civil_from_days (t / 86400)) as [[y m] d]. exact B.
Qed.

(* ---- weekday: the epoch is a Thursday and each day advances it by one, cyclically *)
Lemma weekday_epoch : weekday 0 = 3.
Proof. reflexivity. Qed.

Lemma weekday_succ d : weekday (d + 1) = (weekday d + 1) mod 7.
Proof. unfold weekday. Z.div_mod_to_equations. lia. Qed.

Lemma gmtime_wday t : tm_wday (gmtime t) = weekday (t / 86400).
Proof. unfold gmtime. destruct (civil_from_days (t / 86400)) as [[y m] d]. reflexivity. Qed.

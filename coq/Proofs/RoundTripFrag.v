(* C04 under fragmentation, for the machines as implemented: a composed message is ONE message with nothing behind it, so the
   411 peek cannot fire (it needs octets behind a completed message) and its start line contains no LF, so the bare-LF
   fallback cannot fire either: single_message_any_fragmentation (Proofs/ParserQuiet.v) applies to the round-trip theorems. *)
From Coq Require Import Lia Permutation ZArith.
From Httoop Require Import Model.Composer Model.Http1Reader Proofs.HeadersP Proofs.SplitP Proofs.Http1ReaderP
  Proofs.ComposerNum Proofs.ComposerHdrs Proofs.ComposerBody Proofs.ComposerFraming Proofs.ComposerRepeat Proofs.ComposerParse.
From Httoop Require Import Model.Parser Proofs.DecimalP Proofs.ParserFuel Proofs.ParserFraming Proofs.ParserFrag Proofs.ParserBridge
  Proofs.ParserQuiet Proofs.RoundTrip.
Local Open Scope N_scope.

Section RoundTripFrag.
Variable C : ccallees.
Variable PC : callees.
Hypothesis HC : lsplit_clean C.
Notation L := reference.

Theorem request_roundtrip_fragmented vc now q q' info content :
  req_ok q = true -> rd_no_crlf now = true -> q_prepare now q = Some q' ->
  no_list_fields (q_hdrs q') = true -> b_trailer (q_body q') = [] ->
  let line := q_method q ++ SP :: q_target q ++ SP :: StartLine.proto_compose (q_version q) in
  c_start PC line = SlOk info ->
  (hmem H_TE (q_hdrs q') = true -> p11 info = true) -> (hmem H_TE (q_hdrs q') = false -> hget H_CE (q_hdrs q') = None) ->
  decodes PC (q_hdrs q') (q_content C vc q) content ->
  host_ok Server info (q_hdrs q') = true -> c_hdrs PC (p11 info) (delivered_hdrs (q_hdrs q')) = HOk -> body_allowed Server info content = true ->
  N.of_nat (List.length (dec_of_N (N.of_nat (List.length content)))) <= INT_MAX_STR_DIGITS ->
  exists fr, hframing (q_hdrs q') fr /\
    forall frags, concat_bytes frags = fst (q_compose C vc q') ->
      run_keep real PC Server init frags =
        (init, [ {| m_line := line; m_hdrs := delivered_for fr (q_hdrs q') content; m_body := content |} ], None).
Proof.
  intros Hok Hnow Hp Hnl Htr line Hstart Hp11 Hce Hdec Hhost Hhd Hbody Hdig.
  destruct (request_roundtrip C PC HC vc now q q' info content Hok Hnow Hp Hnl Htr Hstart Hp11 Hce Hdec Hhost Hhd Hbody Hdig) as [fr [Hf P]].
  exists fr. split; [exact Hf|]. intros frags E.
  pose proof Hok as Hok'. unfold req_ok in Hok'.
  apply andb_true_iff in Hok' as [Hok' _]. apply andb_true_iff in Hok' as [Hok' _]. apply andb_true_iff in Hok' as [Hok' _].
  apply andb_true_iff in Hok' as [Hok' _]. apply andb_true_iff in Hok' as [Hok' _]. apply andb_true_iff in Hok' as [Hok' _].
  apply andb_true_iff in Hok' as [Hok' Hver]. apply andb_true_iff in Hok' as [Hmethod Htarget].
  destruct (req_line_ok _ _ _ Hmethod Htarget Hver) as [_ L2]. cbv zeta in L2.
  apply (single_message_any_fragmentation PC Server (fst (q_compose C vc q')) _ frags P); [exact L2 | exact E].
Qed.

Theorem response_roundtrip_fragmented v59 v29 vc now r r' info content :
  resp_ok v59 r = true -> rd_no_crlf now = true -> r_prepare C v59 v29 now r = Some r' ->
  r_bodiless (r_code r) (r_rmethod r) = false ->
  no_list_fields (r_hdrs r') = true -> b_trailer (r_body r') = [] ->
  let line := StartLine.proto_compose (r_version r) ++ SP :: StartLine.print_dec (r_code r) ++ SP :: r_reason r in
  c_start PC line = SlOk info ->
  (hmem H_TE (r_hdrs r') = true -> p11 info = true) -> (hmem H_TE (r_hdrs r') = false -> hget H_CE (r_hdrs r') = None) ->
  decodes PC (r_hdrs r') (concat_bytes (encode_pieces C vc (b_codec (r_body r')) (r_sent_pieces r))) content ->
  c_hdrs PC (p11 info) (delivered_hdrs (r_hdrs r')) = HOk ->
  c_connect PC line = false ->
  N.of_nat (List.length (dec_of_N (N.of_nat (List.length content)))) <= INT_MAX_STR_DIGITS ->
  exists fr, hframing (r_hdrs r') fr /\
    forall frags, concat_bytes frags = fst (r_compose C vc r') ->
      run_keep real PC Client init frags =
        (init, [ {| m_line := line; m_hdrs := delivered_for fr (r_hdrs r') content; m_body := content |} ], None).
Proof.
  intros Hok Hnow Hp Hbl Hnl Htr line Hstart Hp11 Hce Hdec Hhd Hnc Hdig.
  destruct (response_roundtrip C PC HC v59 v29 vc now r r' info content Hok Hnow Hp Hbl Hnl Htr Hstart Hp11 Hce Hdec Hhd Hnc Hdig) as [fr [Hf P]].
  exists fr. split; [exact Hf|]. intros frags E.
  pose proof Hok as Hok'. unfold resp_ok in Hok'.
  apply andb_true_iff in Hok' as [Hok' _]. apply andb_true_iff in Hok' as [Hok' Hbd]. apply andb_true_iff in Hok' as [Hok' _].
  apply andb_true_iff in Hok' as [Hok' _]. apply andb_true_iff in Hok' as [Hok' Hreason]. apply andb_true_iff in Hok' as [Hver Hcode].
  destruct (resp_line_ok _ _ _ Hver Hcode Hreason) as [_ L2]. cbv zeta in L2.
  apply (single_message_any_fragmentation PC Client (fst (r_compose C vc r')) _ frags P); [exact L2 | exact E].
Qed.

End RoundTripFrag.

(* Lemmas about the header-collection API model (Model/HeadersApi.v): case-insensitivity, refinement to a
   reference map keyed by the lower-cased name, arrival-order combination, name validity, wire round trip,
   RFC 2047 value round trip. *)
From Coq Require Import Permutation PeanoNat.
From Httoop Require Import Model.Headers Model.HeadersApi Proofs.SplitP Proofs.HeadersP Proofs.Base64 Proofs.Utf8Enc.
Local Open Scope N_scope.

(* ================= octet-level facts (256-case computations, re-checked when a table changes) ================= *)
Lemma byte_bool_eq (f g : byte -> bool) :
  forallb (fun c => Bool.eqb (f c) (g c)) all_bytes = true -> forall c, f c = g c.
Proof. intros H c. apply Bool.eqb_prop. revert c. apply forall_byte. exact H. Qed.
Lemma byte_fun_eq (f g : byte -> byte) :
  forallb (fun c => beq (f c) (g c)) all_bytes = true -> forall c, f c = g c.
Proof. intros H c. apply beq_eq. revert c. apply forall_byte. exact H. Qed.

Lemma to_lower_idem c : to_lower (to_lower c) = to_lower c.
Proof. revert c. apply byte_fun_eq. vm_compute. reflexivity. Qed.
Lemma to_upper_to_lower c : to_upper (to_lower c) = to_upper c.
Proof. revert c. apply byte_fun_eq. vm_compute. reflexivity. Qed.
Lemma to_lower_to_upper c : to_lower (to_upper c) = to_lower c.
Proof. revert c. apply byte_fun_eq. vm_compute. reflexivity. Qed.
Lemma is_alpha_to_lower c : is_alpha (to_lower c) = is_alpha c.
Proof. revert c. apply byte_bool_eq. vm_compute. reflexivity. Qed.
Lemma is_alpha_to_upper c : is_alpha (to_upper c) = is_alpha c.
Proof. revert c. apply byte_bool_eq. vm_compute. reflexivity. Qed.
Lemma bad_to_lower c : inmask HEADER_RE_BAD (to_lower c) = inmask HEADER_RE_BAD c.
Proof. revert c. apply byte_bool_eq. vm_compute. reflexivity. Qed.
Lemma is_ascii_to_lower c : is_ascii (to_lower c) = is_ascii c.
Proof. revert c. apply byte_bool_eq. vm_compute. reflexivity. Qed.

(* ================= title / lower / canon ================= *)
Lemma lower_idem l : lower (lower l) = lower l.
Proof. unfold lower. rewrite map_map. apply map_ext. apply to_lower_idem. Qed.

Lemma title_from_lower b l : title_from b (lower l) = title_from b l.
Proof.
  revert b; induction l as [|c l IH]; intros b; [reflexivity|].
  cbn [lower map title_from]. fold (lower l). rewrite IH, is_alpha_to_lower.
  destruct b; [rewrite to_lower_idem | rewrite to_upper_to_lower]; reflexivity.
Qed.
Lemma lower_title_from b l : lower (title_from b l) = lower l.
Proof.
  revert b; induction l as [|c l IH]; intros b; [reflexivity|].
  cbn [lower map title_from]. fold (lower (title_from (is_alpha c) l)) (lower l). rewrite IH.
  destruct b; [rewrite to_lower_idem | rewrite to_lower_to_upper]; reflexivity.
Qed.
Lemma title_lower l : title (lower l) = title l.
Proof. apply title_from_lower. Qed.
Lemma lower_title l : lower (title l) = lower l.
Proof. apply lower_title_from. Qed.
Lemma title_eq_iff a b : title a = title b <-> lower a = lower b.
Proof.
  split; intros H.
  - rewrite <- (lower_title a), <- (lower_title b), H. reflexivity.
  - rewrite <- (title_lower a), <- (title_lower b), H. reflexivity.
Qed.
Lemma title_idem l : title (title l) = title l.
Proof. apply title_eq_iff. rewrite lower_title. reflexivity. Qed.

(* the spelling table maps a title-cased name to a spelling of the same name *)
Lemma spelling_table_ok :
  forallb (fun ts => bytes_eqb (title (snd ts)) (fst ts)) HEADER_SPELLING = true.
Proof. vm_compute. reflexivity. Qed.

Lemma assoc_in {A} k (l : list (bytes * A)) v : assoc k l = Some v -> In (k, v) l.
Proof.
  induction l as [|[k' v'] l IH]; cbn [assoc]; [discriminate|].
  destruct (bytes_eqb k k') eqn:E.
  - intros H. injection H as ->. apply bytes_eqb_eq in E. subst. left. reflexivity.
  - intros H. right. apply IH, H.
Qed.

Lemma title_spell t : title (spell t) = title t.
Proof.
  unfold spell. destruct (assoc t HEADER_SPELLING) as [s|] eqn:E; [|reflexivity].
  apply assoc_in in E. pose proof spelling_table_ok as T. rewrite forallb_forall in T.
  specialize (T _ E). cbn [fst snd] in T. apply bytes_eqb_eq in T.
  (* t is itself title-cased: it is the title of its spelling *)
  subst t. symmetry. apply title_idem.
Qed.

Lemma canon_spell k : canon k = spell (title k).
Proof. reflexivity. Qed.

Lemma title_canon k : title (canon k) = title k.
Proof. rewrite canon_spell, title_spell, title_idem. reflexivity. Qed.
Lemma lower_canon k : lower (canon k) = lower k.
Proof. apply title_eq_iff. apply title_canon. Qed.
Lemma canon_lower k : canon (lower k) = canon k.
Proof. unfold canon. rewrite title_lower. reflexivity. Qed.
Lemma canon_idem k : canon (canon k) = canon k.
Proof. unfold canon at 1. rewrite title_canon. reflexivity. Qed.
Lemma canon_eq_iff a b : canon a = canon b <-> lower a = lower b.
Proof.
  split; intros H.
  - rewrite <- (lower_canon a), <- (lower_canon b), H. reflexivity.
  - apply title_eq_iff in H. unfold canon. rewrite H. reflexivity.
Qed.
Lemma join_sep_lower k : join_sep (lower k) = join_sep k.
Proof. unfold join_sep. rewrite title_lower. reflexivity. Qed.
Lemma join_sep_ci a b : lower a = lower b -> join_sep a = join_sep b.
Proof. intros H. apply title_eq_iff in H. unfold join_sep. rewrite H. reflexivity. Qed.

Lemma name_ok_lower k : name_ok (lower k) = name_ok k.
Proof.
  unfold name_ok. f_equal. induction k as [|c k IH]; [reflexivity|].
  cbn [lower map existsb]. fold (lower k). rewrite IH, bad_to_lower. reflexivity.
Qed.
Lemma name_ok_ci a b : lower a = lower b -> name_ok a = name_ok b.
Proof. intros H. rewrite <- (name_ok_lower a), <- (name_ok_lower b), H. reflexivity. Qed.

Lemma byte_impl (p q : byte -> bool) :
  forallb (fun c => implb (p c) (q c)) all_bytes = true -> forall c, p c = true -> q c = true.
Proof. intros H c Hp. pose proof (forall_byte _ H c) as I. cbv beta in I. rewrite Hp in I. exact I. Qed.

(* ================= the repaired state machine is the generic one at [canon] ================= *)
Lemma good_ascii c : negb (inmask HEADER_RE_BAD c) = true -> is_ascii c = true.
Proof. revert c. apply byte_impl. vm_compute. reflexivity. Qed.

Lemma name_ok_forall u : name_ok u = true <-> forallb (fun c => negb (inmask HEADER_RE_BAD c)) u = true.
Proof.
  unfold name_ok. induction u as [|c u IH]; cbn [existsb forallb]; [tauto|].
  rewrite negb_orb, !andb_true_iff, IH. tauto.
Qed.

Lemma name_ok_ascii u : name_ok u = true -> forallb is_ascii u = true.
Proof.
  rewrite name_ok_forall. induction u as [|c u IH]; cbn [forallb]; [reflexivity|].
  rewrite !andb_true_iff. intros [H1 H2]. split; [apply good_ascii, H1 | apply IH, H2].
Qed.

Section ApiProofs.
Variable vew : variant.
Variable utitle : bytes -> bytes.
Variable dechdr : bytes -> option bytes.

Lemma formatkey_gkey k : formatkey Repaired utitle k = gkey canon k.
Proof. reflexivity. Qed.

Lemma key_sep_ok k : name_ok (key_utf8 k) = true -> key_sep utitle k = join_sep (key_utf8 k).
Proof. intros H. unfold key_sep, tkey, join_sep. rewrite (name_ok_ascii _ H). reflexivity. Qed.

Lemma hparse_st_g h cur ls : hparse_st h cur ls = gparse_st canon h cur ls.
Proof.
  revert h cur; induction ls as [|l ls IH]; intros h cur; [reflexivity|].
  cbn [hparse_st gparse_st]. destruct cur as [[name raw]|].
  - destruct (starts_ws l); [apply IH|]. destruct (parse_line l); [apply IH | reflexivity].
  - destruct (parse_line l); [apply IH | reflexivity].
Qed.

Lemma gkey_some norm k ck : gkey norm k = Some ck -> name_ok (key_utf8 k) = true.
Proof. unfold gkey. destruct (name_ok (key_utf8 k)); [reflexivity | discriminate]. Qed.

Lemma step_gstep h o : step Repaired vew utitle dechdr h o = gstep vew dechdr canon (fun x => x) h o.
Proof.
  destruct o; cbn [step gstep]; rewrite ?formatkey_gkey; try reflexivity.
  (* append: the separator *)
  destruct (formatvalue v); [|reflexivity].
  destruct (gkey canon k) as [ck|] eqn:K; [|reflexivity].
  rewrite (key_sep_ok k (gkey_some _ _ _ K)). reflexivity.
Qed.

Lemma run_grun ops : forall h, run Repaired vew utitle dechdr h ops = grun vew dechdr canon (fun x => x) h ops.
Proof.
  induction ops as [|o ops IH]; intros h; [reflexivity|].
  cbn [run grun]. rewrite step_gstep. destruct (gstep vew dechdr canon (fun x => x) h o) as [h1 x].
  rewrite IH. reflexivity.
Qed.

(* ================= case-insensitivity of every operation ================= *)
Definition same_name (k1 k2 : key) : Prop := lower (key_utf8 k1) = lower (key_utf8 k2).

Lemma gkey_ci k1 k2 : same_name k1 k2 -> gkey canon k1 = gkey canon k2.
Proof.
  unfold same_name, gkey. intros H. rewrite (name_ok_ci _ _ H).
  destruct (name_ok (key_utf8 k2)); [|reflexivity]. f_equal. apply canon_eq_iff, H.
Qed.

Inductive op_ci : op -> op -> Prop :=
| ci_set k1 k2 v : same_name k1 k2 -> op_ci (OSet k1 v) (OSet k2 v)
| ci_append k1 k2 v : same_name k1 k2 -> op_ci (OAppend k1 v) (OAppend k2 v)
| ci_del k1 k2 : same_name k1 k2 -> op_ci (ODel k1) (ODel k2)
| ci_pop k1 k2 : same_name k1 k2 -> op_ci (OPop k1) (OPop k2)
| ci_mem k1 k2 : same_name k1 k2 -> op_ci (OMem k1) (OMem k2)
| ci_getbytes k1 k2 : same_name k1 k2 -> op_ci (OGetBytes k1) (OGetBytes k2)
| ci_get k1 k2 : same_name k1 k2 -> op_ci (OGet k1) (OGet k2).

Lemma gstep_ci h o1 o2 : op_ci o1 o2 ->
  gstep vew dechdr canon (fun x => x) h o1 = gstep vew dechdr canon (fun x => x) h o2.
Proof.
  intros C. destruct C as [k1 k2 v H|k1 k2 v H|k1 k2 H|k1 k2 H|k1 k2 H|k1 k2 H|k1 k2 H];
    cbn [gstep]; rewrite (gkey_ci _ _ H); try reflexivity.
  (* append: the separator is looked up by the title-cased name *)
  rewrite (join_sep_ci _ _ H). reflexivity.
Qed.

Theorem step_case_insensitive h o1 o2 : op_ci o1 o2 ->
  step Repaired vew utitle dechdr h o1 = step Repaired vew utitle dechdr h o2.
Proof. intros C. rewrite !step_gstep. apply gstep_ci, C. Qed.

End ApiProofs.

(* ================= cut1 / strip helpers ================= *)
Definition nosep (sep : byte) (l : bytes) : bool := forallb (fun c => negb (beq c sep)) l.

Lemma cut1_spec sep l a b : cut1 sep l = Some (a, b) -> l = a ++ sep :: b /\ nosep sep a = true.
Proof.
  revert a b; induction l as [|c l IH]; intros a b; cbn [cut1]; [discriminate|].
  destruct (beq c sep) eqn:E.
  - intros H. injection H as <- <-. apply beq_eq in E. subst. split; reflexivity.
  - destruct (cut1 sep l) as [[a' b']|]; [|discriminate]. intros H. injection H as <- <-.
    destruct (IH _ _ eq_refl) as [-> N]. split; [reflexivity|]. cbn [nosep forallb]. rewrite E. exact N.
Qed.

Lemma cut1_app sep a b : nosep sep a = true -> cut1 sep (a ++ sep :: b) = Some (a, b).
Proof.
  induction a as [|c a IH]; cbn [app cut1 nosep forallb].
  - intros _. rewrite beq_refl. reflexivity.
  - rewrite andb_true_iff, negb_true_iff. intros [E N]. rewrite E. fold (nosep sep a) in N. rewrite (IH N). reflexivity.
Qed.

Lemma cut1_none sep l : cut1 sep l = None -> nosep sep l = true.
Proof.
  induction l as [|c l IH]; cbn [cut1 nosep forallb]; [reflexivity|].
  destruct (beq c sep); [discriminate|]. destruct (cut1 sep l) as [[? ?]|]; [discriminate|].
  intros _. apply IH. reflexivity.
Qed.

Lemma cut1_nosep_none sep l : nosep sep l = true -> cut1 sep l = None.
Proof.
  induction l as [|c l IH]; cbn [cut1 nosep forallb]; [reflexivity|].
  rewrite andb_true_iff, negb_true_iff. intros [E N]. rewrite E. fold (nosep sep l) in N. rewrite (IH N). reflexivity.
Qed.

Lemma lstrip_by_map p (f : byte -> byte) l : (forall c, p (f c) = p c) ->
  lstrip_by p (map f l) = map f (lstrip_by p l).
Proof.
  intros H. induction l as [|c l IH]; [reflexivity|]. cbn [map lstrip_by]. rewrite H.
  destruct (p c); [exact IH | reflexivity].
Qed.
Lemma strip_by_map p (f : byte -> byte) l : (forall c, p (f c) = p c) ->
  strip_by p (map f l) = map f (strip_by p l).
Proof.
  intros H. unfold strip_by, rstrip_by. rewrite (lstrip_by_map _ _ _ H), <- map_rev, (lstrip_by_map _ _ _ H), map_rev.
  reflexivity.
Qed.
Lemma is_bws_to_lower c : is_bws (to_lower c) = is_bws c.
Proof. revert c. apply byte_bool_eq. vm_compute. reflexivity. Qed.
Lemma strip_lower l : strip (lower l) = lower (strip l).
Proof. apply strip_by_map, is_bws_to_lower. Qed.

Lemma colon_to_lower c : beq (to_lower c) COLON = beq c COLON.
Proof. revert c. apply byte_bool_eq. vm_compute. reflexivity. Qed.
Lemma nosep_colon_lower l : nosep COLON (lower l) = nosep COLON l.
Proof.
  induction l as [|c l IH]; [reflexivity|]. cbn [lower map nosep forallb]. fold (lower l) (nosep COLON (lower l)) (nosep COLON l).
  rewrite IH, colon_to_lower. reflexivity.
Qed.

(* ================= Headers.parse is case-insensitive in the field names on the wire ================= *)
(* the field name of a header line (not a continuation line) lower-cased *)
Definition lower_name_line (l : bytes) : bytes :=
  if starts_ws l then l
  else match cut1 COLON l with
       | Some (n, v) => lower n ++ COLON :: v
       | None => l
       end.

Definition cur_ci (c1 c2 : option (bytes * bytes)) : Prop :=
  match c1, c2 with
  | Some (n1, r1), Some (n2, r2) => lower n1 = lower n2 /\ r1 = r2
  | None, None => True
  | _, _ => False
  end.

Lemma commit_ci h c1 c2 : cur_ci c1 c2 -> commit h c1 = commit h c2.
Proof.
  destruct c1 as [[n1 r1]|], c2 as [[n2 r2]|]; cbn [cur_ci]; try tauto. intros [H ->].
  unfold commit. rewrite (proj2 (canon_eq_iff n1 n2) H), (join_sep_ci _ _ H). reflexivity.
Qed.

Lemma parse_line_lower_name l : starts_ws l = false ->
  match parse_line (lower_name_line l), parse_line l with
  | Some (n1, v1), Some (n2, v2) => lower n1 = lower n2 /\ v1 = v2
  | None, None => True
  | _, _ => False
  end.
Proof.
  intros W. unfold lower_name_line. rewrite W.
  destruct (cut1 COLON l) as [[n v]|] eqn:C.
  - apply cut1_spec in C as [-> N]. unfold parse_line.
    rewrite (cut1_app COLON n v N).
    rewrite cut1_app by (rewrite nosep_colon_lower; exact N). rewrite name_ok_lower.
    destruct (name_ok n); [|exact I]. split; [|reflexivity]. rewrite strip_lower, lower_idem. reflexivity.
  - unfold parse_line. rewrite C. exact I.
Qed.

Lemma starts_ws_lower_name l : starts_ws (lower_name_line l) = starts_ws l.
Proof.
  unfold lower_name_line. destruct (starts_ws l) eqn:W; [exact W|].
  destruct (cut1 COLON l) as [[n v]|] eqn:C; [|exact W].
  apply cut1_spec in C as [-> _]. destruct n as [|c n]; [reflexivity|].
  cbn [lower map app starts_ws] in *. revert W. generalize c. clear.
  intros c. assert (H : forall c, (beq (to_lower c) SP || beq (to_lower c) HT) = (beq c SP || beq c HT)).
  { apply byte_bool_eq. vm_compute. reflexivity. } rewrite H. tauto.
Qed.

Lemma tl_lower_name l : starts_ws l = true -> lower_name_line l = l.
Proof. intros W. unfold lower_name_line. rewrite W. reflexivity. Qed.

Theorem hparse_lines_name_ci ls : forall h c1 c2, cur_ci c1 c2 ->
  hparse_lines h c1 (map lower_name_line ls) = hparse_lines h c2 ls.
Proof.
  induction ls as [|l ls IH]; intros h c1 c2 C.
  - cbn [map hparse_lines]. f_equal. apply commit_ci, C.
  - cbn [map hparse_lines]. destruct c1 as [[n1 r1]|], c2 as [[n2 r2]|]; cbn [cur_ci] in C; try tauto.
    + destruct C as [Hn ->]. rewrite starts_ws_lower_name. destruct (starts_ws l) eqn:W.
      * rewrite (tl_lower_name _ W). apply IH. split; [exact Hn | reflexivity].
      * pose proof (parse_line_lower_name l W) as P.
        rewrite (commit_ci h (Some (n1, r2)) (Some (n2, r2))) by (split; [exact Hn | reflexivity]).
        destruct (parse_line (lower_name_line l)) as [[a1 b1]|], (parse_line l) as [[a2 b2]|]; try tauto.
        apply IH. exact P.
    + destruct (starts_ws l) eqn:W.
      * rewrite (tl_lower_name _ W). destruct (parse_line l) as [[a b]|]; [|reflexivity]. apply IH. split; reflexivity.
      * pose proof (parse_line_lower_name l W) as P.
        destruct (parse_line (lower_name_line l)) as [[a1 b1]|], (parse_line l) as [[a2 b2]|]; try tauto.
        apply IH. exact P.
Qed.

(* ================= refinement to the reference map keyed by the lower-cased name ================= *)
Definition canonicalb (h : hdrs) : bool := forallb (fun kv => bytes_eqb (canon (fst kv)) (fst kv)) h.

Lemma canonicalb_cons k v h : canonicalb ((k, v) :: h) = true <-> canon k = k /\ canonicalb h = true.
Proof. unfold canonicalb. cbn [forallb fst]. rewrite andb_true_iff, bytes_eqb_eq. tauto. Qed.

Lemma key_match u k : canon k = k -> bytes_eqb (canon u) k = bytes_eqb (lower u) (lower k).
Proof.
  intros Hk. destruct (bytes_eqb (canon u) k) eqn:E.
  - apply bytes_eqb_eq in E. symmetry. apply bytes_eqb_eq. rewrite <- E, lower_canon. reflexivity.
  - symmetry. apply bytes_eqb_neq. intros H. apply canon_eq_iff in H. rewrite Hk in H.
    rewrite H, bytes_eqb_refl in E. discriminate.
Qed.

Lemma hget_abs u h : canonicalb h = true -> hget (lower u) (abs h) = hget (canon u) h.
Proof.
  induction h as [|[k v] h IH]; [reflexivity|]. rewrite canonicalb_cons. intros [Hk Hh].
  cbn [abs map hget fst snd]. fold (abs h). rewrite (key_match u k Hk), (IH Hh). reflexivity.
Qed.
Lemma hmem_abs u h : canonicalb h = true -> hmem (lower u) (abs h) = hmem (canon u) h.
Proof. intros H. unfold hmem. rewrite (hget_abs u h H). reflexivity. Qed.
Lemma hset_abs u v h : canonicalb h = true -> abs (hset (canon u) v h) = hset (lower u) v (abs h).
Proof.
  induction h as [|[k w] h IH].
  - intros _. cbn. rewrite lower_canon. reflexivity.
  - rewrite canonicalb_cons. intros [Hk Hh]. cbn [abs map hset fst snd]. fold (abs h).
    rewrite <- (key_match u k Hk). destruct (bytes_eqb (canon u) k).
    + cbn [abs map fst snd]. rewrite lower_canon. reflexivity.
    + cbn [abs map fst snd]. fold (abs (hset (canon u) v h)). rewrite (IH Hh). reflexivity.
Qed.
Lemma hdel_abs u h : canonicalb h = true -> abs (hdel (canon u) h) = hdel (lower u) (abs h).
Proof.
  induction h as [|[k w] h IH]; [reflexivity|].
  rewrite canonicalb_cons. intros [Hk Hh]. cbn [abs map hdel fst snd]. fold (abs h).
  rewrite <- (key_match u k Hk). destruct (bytes_eqb (canon u) k); [exact (IH Hh)|].
  cbn [abs map fst snd]. fold (abs (hdel (canon u) h)). rewrite (IH Hh). reflexivity.
Qed.
Lemma canonicalb_hset u v h : canonicalb h = true -> canonicalb (hset (canon u) v h) = true.
Proof.
  induction h as [|[k w] h IH].
  - intros _. apply canonicalb_cons. split; [apply canon_idem | reflexivity].
  - rewrite canonicalb_cons. intros [Hk Hh]. cbn [hset]. destruct (bytes_eqb (canon u) k).
    + apply canonicalb_cons. split; [apply canon_idem | exact Hh].
    + apply canonicalb_cons. split; [exact Hk | exact (IH Hh)].
Qed.
Lemma canonicalb_hdel u h : canonicalb h = true -> canonicalb (hdel u h) = true.
Proof.
  induction h as [|[k w] h IH]; [reflexivity|].
  rewrite canonicalb_cons. intros [Hk Hh]. cbn [hdel]. destruct (bytes_eqb u k); [exact (IH Hh)|].
  apply canonicalb_cons. split; [exact Hk | exact (IH Hh)].
Qed.
Lemma conc_abs h : canonicalb h = true -> conc (abs h) = h.
Proof.
  induction h as [|[k w] h IH]; [reflexivity|].
  rewrite canonicalb_cons. intros [Hk Hh]. cbn [abs conc map fst snd]. fold (abs h) (conc (abs h)).
  rewrite canon_lower, Hk, (IH Hh). reflexivity.
Qed.

Lemma gcommit_abs h cur : canonicalb h = true ->
  abs (gcommit canon h cur) = gcommit lower (abs h) cur /\ canonicalb (gcommit canon h cur) = true.
Proof.
  intros H. destruct cur as [[name raw]|]; [|split; [reflexivity | exact H]].
  cbn [gcommit]. rewrite (hget_abs name h H). destruct (hget (canon name) h).
  - split; [apply hset_abs, H | apply canonicalb_hset, H].
  - split; [apply hset_abs, H | apply canonicalb_hset, H].
Qed.

Lemma gparse_st_abs ls : forall h cur, canonicalb h = true ->
  let '(h', ok) := gparse_st canon h cur ls in
  gparse_st lower (abs h) cur ls = (abs h', ok) /\ canonicalb h' = true.
Proof.
  induction ls as [|l ls IH]; intros h cur H; cbn [gparse_st].
  - destruct (gcommit_abs h cur H) as [A C]. rewrite A. split; [reflexivity | exact C].
  - destruct cur as [[name raw]|].
    + destruct (starts_ws l); [apply IH, H|].
      destruct (gcommit_abs h (Some (name, raw)) H) as [A C].
      destruct (parse_line l) as [nv|].
      * specialize (IH (gcommit canon h (Some (name, raw))) (Some nv) C). rewrite A in IH. exact IH.
      * rewrite A. split; [reflexivity | exact C].
    + destruct (parse_line l) as [nv|]; [apply IH, H | split; [reflexivity | exact H]].
Qed.

Section Refinement.
Variable vew : variant.
Variable dechdr : bytes -> option bytes.
Let cstep := gstep vew dechdr canon (fun x => x).
Let lstep := rstep vew dechdr.

(* one step: the results are equal, the states stay related, the invariant is kept *)
Lemma gstep_refines h o : canonicalb h = true ->
  lstep (abs h) o = (abs (fst (cstep h o)), snd (cstep h o)) /\ canonicalb (fst (cstep h o)) = true.
Proof.
  intros H. unfold lstep, rstep, cstep.
  destruct o as [k v|k v|k|k|k|k|k|d| |]; cbn [gstep]; unfold gkey;
    try (destruct (name_ok (key_utf8 k)); [|split; [reflexivity | exact H]]).
  - destruct (formatvalue v); [|split; [reflexivity | exact H]]. cbn [fst snd].
    split; [rewrite hset_abs by exact H; reflexivity | apply canonicalb_hset, H].
  - destruct (formatvalue v) as [b|]; [|split; [reflexivity | exact H]].
    destruct (name_ok (key_utf8 k)); [|split; [reflexivity | exact H]].
    rewrite (hget_abs (key_utf8 k) h H). destruct (hget (canon (key_utf8 k)) h) as [old|].
    + destruct (decode_rfc2047 vew dechdr old) as [[|c u]|]; cbn [fst snd];
        (split; [rewrite ?hset_abs by exact H; reflexivity | try apply canonicalb_hset; exact H]).
    + cbn [fst snd]. split; [rewrite hset_abs by exact H; reflexivity | apply canonicalb_hset, H].
  - rewrite (hmem_abs _ h H). destruct (hmem (canon (key_utf8 k)) h); cbn [fst snd].
    + split; [rewrite hdel_abs by exact H; reflexivity | apply canonicalb_hdel, H].
    + split; [reflexivity | exact H].
  - cbn [fst snd]. rewrite (hget_abs _ h H). split; [rewrite hdel_abs by exact H; reflexivity | apply canonicalb_hdel, H].
  - cbn [fst snd]. rewrite (hmem_abs _ h H). split; [reflexivity | exact H].
  - cbn [fst snd]. rewrite (hget_abs _ h H). split; [reflexivity | exact H].
  - rewrite (hget_abs _ h H). destruct (hget (canon (key_utf8 k)) h) as [raw|]; [|split; [reflexivity | exact H]].
    destruct (decode_rfc2047 vew dechdr raw); split; try reflexivity; exact H.
  - pose proof (gparse_st_abs (split_all CRLF d) h None H) as P.
    destruct (gparse_st canon h None (split_all CRLF d)) as [h' ok]. destruct P as [P C]. rewrite P.
    cbn [fst snd]. split; [reflexivity | exact C].
  - cbn [fst snd]. rewrite (conc_abs h H). split; [reflexivity | exact H].
  - cbn [fst snd]. split; reflexivity.
Qed.

Theorem grun_refines ops : forall h, canonicalb h = true ->
  rrun vew dechdr (abs h) ops =
    (abs (fst (grun vew dechdr canon (fun x => x) h ops)), snd (grun vew dechdr canon (fun x => x) h ops))
  /\ canonicalb (fst (grun vew dechdr canon (fun x => x) h ops)) = true.
Proof.
  induction ops as [|o ops IH]; intros h H; [split; [reflexivity | exact H]|].
  unfold rrun in *. cbn [grun]. destruct (gstep_refines h o H) as [S C]. unfold lstep, rstep, cstep in S, C.
  rewrite S. destruct (gstep vew dechdr canon (fun x => x) h o) as [h1 x]. cbn [fst snd] in *.
  destruct (IH h1 C) as [R C2]. rewrite R.
  destruct (grun vew dechdr canon (fun x => x) h1 ops) as [h2 xs]. cbn [fst snd] in *.
  split; [reflexivity | exact C2].
Qed.
End Refinement.

(* ================= repeated fields on the wire: arrival order, the field's separator ================= *)
Definition commit_all (h : hdrs) (nvs : list (bytes * bytes)) : hdrs :=
  fold_left (fun h nv => commit h (Some nv)) nvs h.

(* a block of header lines without continuation lines is the fold of [commit] over its parsed lines *)
Lemma hparse_lines_plain ls : forall nvs h cur,
  Forall2 (fun l nv => starts_ws l = false /\ parse_line l = Some nv) ls nvs ->
  hparse_lines h (Some cur) ls = Some (commit_all h (cur :: nvs)).
Proof.
  induction ls as [|l ls IH]; intros nvs h cur F; inversion F as [|? nv ? nvs' [W P] F']; subst.
  - reflexivity.
  - destruct cur as [name raw]. cbn [hparse_lines]. rewrite W, P. rewrite (IH _ _ _ F'). reflexivity.
Qed.

Theorem hparse_lines_fold l ls nv nvs h :
  parse_line l = Some nv ->
  Forall2 (fun l nv => starts_ws l = false /\ parse_line l = Some nv) ls nvs ->
  hparse_lines h None (l :: ls) = Some (commit_all h (nv :: nvs)).
Proof. intros P F. cbn [hparse_lines]. rewrite P. apply hparse_lines_plain, F. Qed.

Definition same_field (k : bytes) (nv : bytes * bytes) : bool := bytes_eqb (lower (fst nv)) (lower k).
Definition field_values (k : bytes) (nvs : list (bytes * bytes)) : list bytes :=
  map (fun nv => rstrip (snd nv)) (filter (same_field k) nvs).
Definition combine_vals (sep : bytes) (old : option bytes) (vals : list bytes) : option bytes :=
  match old, vals with
  | o, [] => o
  | Some x, vs => Some (join_with sep (x :: vs))
  | None, vs => Some (join_with sep vs)
  end.

Lemma join_with_merge sep x v vs : join_with sep (x :: v :: vs) = join_with sep ((x ++ sep ++ v) :: vs).
Proof. destruct vs as [|w vs]; cbn [join_with]; [reflexivity|]. rewrite <- !app_assoc. reflexivity. Qed.

Theorem wire_order k nvs : forall h,
  hget (canon k) (commit_all h nvs) = combine_vals (join_sep k) (hget (canon k) h) (field_values k nvs).
Proof.
  induction nvs as [|[n raw] nvs IH]; intros h.
  - cbn. destruct (hget (canon k) h); reflexivity.
  - cbn [commit_all fold_left]. fold (commit_all (commit h (Some (n, raw))) nvs). rewrite IH.
    unfold field_values. cbn [filter]. unfold same_field at 2. cbn [fst snd].
    destruct (bytes_eqb (lower n) (lower k)) eqn:E.
    + apply bytes_eqb_eq in E. pose proof (proj2 (canon_eq_iff n k) E) as Ec.
      cbn [map snd]. fold (field_values k nvs). unfold commit. rewrite Ec, (join_sep_ci _ _ E).
      destruct (hget (canon k) h) as [old|]; rewrite hget_hset_same.
      * cbn [combine_vals]. destruct (field_values k nvs) as [|v vs]; [reflexivity|].
        rewrite (join_with_merge (join_sep k) old (rstrip raw) (v :: vs)). reflexivity.
      * cbn [combine_vals]. destruct (field_values k nvs) as [|v vs]; reflexivity.
    + fold (field_values k nvs).
      assert (Hn : canon k <> canon n).
      { intros H. apply canon_eq_iff in H. rewrite H, bytes_eqb_refl in E. discriminate. }
      unfold commit. destruct (hget (canon n) h); rewrite (hget_hset_other _ _ _ _ Hn); reflexivity.
Qed.

Corollary wire_order_fresh k nvs :
  hget (canon k) (commit_all [] nvs) =
  match field_values k nvs with [] => None | vs => Some (join_with (join_sep k) vs) end.
Proof. rewrite wire_order. cbn [hget combine_vals]. destruct (field_values k nvs); reflexivity. Qed.

(* ================= field-name validity ================= *)
(* RFC 7230 tchar, written out by hand (the specification the regenerated class is compared with) *)
Definition is_tchar (c : byte) : bool :=
  is_alpha c || is_digit c ||
  existsb (beq c) [x21; x23; x24; x25; x26; x27; x2a; x2b; x2d; x2e; x5e; x5f; x60; x7c; x7e].

Lemma header_re_is_tchar_complement c : negb (inmask HEADER_RE_BAD c) = is_tchar c.
Proof. revert c. apply byte_bool_eq. vm_compute. reflexivity. Qed.

Theorem name_ok_tchar u : name_ok u = true <-> forallb is_tchar u = true.
Proof.
  rewrite name_ok_forall. induction u as [|c u IH]; cbn [forallb]; [tauto|].
  rewrite !andb_true_iff, IH, header_re_is_tchar_complement. tauto.
Qed.

Lemma good_not_colon c : negb (inmask HEADER_RE_BAD c) = true -> negb (beq c COLON) = true.
Proof. revert c. apply byte_impl. vm_compute. reflexivity. Qed.
Lemma good_not_ws c : negb (inmask HEADER_RE_BAD c) = true -> is_bws c = false.
Proof.
  intros H. apply negb_true_iff. revert c H. apply byte_impl. vm_compute. reflexivity.
Qed.

Lemma name_ok_nocolon u : name_ok u = true -> nosep COLON u = true.
Proof.
  rewrite name_ok_forall. unfold nosep. induction u as [|c u IH]; cbn [forallb]; [reflexivity|].
  rewrite !andb_true_iff. intros [H1 H2]. split; [apply good_not_colon, H1 | apply IH, H2].
Qed.

Lemma lstrip_by_id p l : match l with c :: _ => p c = false | [] => True end -> lstrip_by p l = l.
Proof. destruct l as [|c l]; [reflexivity|]. cbn [lstrip_by]. intros ->. reflexivity. Qed.

Lemma strip_by_nows p l : forallb (fun c => negb (p c)) l = true -> strip_by p l = l.
Proof.
  intros H. unfold strip_by, rstrip_by.
  assert (L : lstrip_by p l = l).
  { apply lstrip_by_id. destruct l as [|c l]; [exact I|]. cbn [forallb] in H. apply andb_true_iff in H as [H _].
    apply negb_true_iff, H. }
  rewrite L. rewrite lstrip_by_id; [apply rev_involutive|].
  destruct (rev l) as [|c r] eqn:R; [exact I|].
  rewrite forallb_forall in H. apply negb_true_iff, H. apply in_rev. rewrite R. left. reflexivity.
Qed.

Lemma name_ok_strip u : name_ok u = true -> strip u = u.
Proof.
  intros H. apply strip_by_nows. apply name_ok_forall in H. rewrite forallb_forall in *.
  intros c Hc. apply negb_true_iff, good_not_ws, H, Hc.
Qed.

Lemma strip_by_length p l : (length (strip_by p l) <= length l)%nat.
Proof.
  assert (L : forall l, (length (lstrip_by p l) <= length l)%nat).
  { induction l0 as [|c l0 IH]; cbn [lstrip_by length]; [lia|]. destruct (p c); cbn [length]; lia. }
  unfold strip_by, rstrip_by. rewrite rev_length. etransitivity; [apply L|]. rewrite rev_length. apply L.
Qed.

(* accepted on the wire (as the name of a header line) <-> every octet is a token character *)
Theorem parse_line_name_ok u v : name_ok u = true <-> parse_line (u ++ COLON :: v) = Some (u, lstrip v).
Proof.
  split.
  - intros H. unfold parse_line. rewrite (cut1_app _ _ _ (name_ok_nocolon _ H)), H, (name_ok_strip _ H). reflexivity.
  - unfold parse_line. destruct (cut1 COLON (u ++ COLON :: v)) as [[n w]|] eqn:C; [|discriminate].
    destruct (name_ok n) eqn:N; [|discriminate]. intros E. injection E as E1 E2.
    apply cut1_spec in C as [C1 C2].
    (* n is a prefix of u ++ ":" ++ v without a colon, and strip n = u: so n = u *)
    rewrite (name_ok_strip _ N) in E1. subst n. exact N.
Qed.

(* ================= compose then parse ================= *)
(* --- bytes.split(CRLF) of a CRLF-joined list of lines that contain no CRLF --- *)
Lemma split_all_f_fuel pat : pat <> [] -> forall f1 f2 l, (length l < f1)%nat -> (length l < f2)%nat ->
  split_all_f f1 pat l = split_all_f f2 pat l.
Proof.
  intros Hp. induction f1 as [|f1 IH]; intros f2 l H1 H2; [lia|]. destruct f2 as [|f2]; [lia|].
  cbn [split_all_f]. destruct (cut pat l) as [[a b]|] eqn:C; [|reflexivity].
  pose proof (cut_rest_shorter _ _ _ _ Hp C). f_equal. apply IH; lia.
Qed.

Lemma CRLF_nonnil : CRLF <> [].
Proof. discriminate. Qed.

Lemma split_all_join_CRLF x xs :
  Forall (fun l => cut CRLF l = None) (x :: xs) -> split_all CRLF (join_with CRLF (x :: xs)) = x :: xs.
Proof.
  revert x; induction xs as [|y ys IH]; intros x F.
  - inversion F as [|? ? Hx _]; subst. cbn [join_with]. unfold split_all. cbn [split_all_f]. rewrite Hx. reflexivity.
  - inversion F as [|? ? Hx F']; subst. change (join_with CRLF (x :: y :: ys)) with (x ++ CRLF ++ join_with CRLF (y :: ys)).
    unfold split_all. cbn [split_all_f]. rewrite (cut_CRLF_none_app _ _ Hx). f_equal.
    transitivity (split_all CRLF (join_with CRLF (y :: ys))); [|apply IH, F'].
    unfold split_all. apply (split_all_f_fuel CRLF CRLF_nonnil).
    + rewrite !app_length. cbn [length CRLF]. lia.
    + lia.
Qed.

(* --- one composed line parses back to its name and value --- *)
Lemma good_not_spht c : negb (inmask HEADER_RE_BAD c) = true -> (beq c SP || beq c HT) = false.
Proof. intros H. apply negb_true_iff. revert c H. apply byte_impl. vm_compute. reflexivity. Qed.
Lemma good_not_cr c : negb (inmask HEADER_RE_BAD c) = true -> beq CR c = false.
Proof. intros H. apply negb_true_iff. revert c H. apply byte_impl. vm_compute. reflexivity. Qed.

Lemma hline_not_ws k e : name_ok k = true -> starts_ws (hline (k, e)) = false.
Proof.
  unfold hline. cbn [fst snd]. destruct k as [|c k]; [reflexivity|]. intros H. cbn [app starts_ws].
  apply name_ok_forall in H. cbn [forallb] in H. apply andb_true_iff in H as [H _]. apply good_not_spht, H.
Qed.

Lemma lstrip_strip_id e : strip e = e -> lstrip e = e.
Proof.
  intros H. destruct e as [|c e]; [reflexivity|]. cbn [lstrip lstrip_by]. destruct (is_bws c) eqn:W; [|reflexivity].
  (* a stripped string cannot start with whitespace: it would be shorter *)
  exfalso. unfold strip, strip_by in H. cbn [lstrip_by] in H. rewrite W in H.
  assert (L : forall l, (length (lstrip_by is_bws l) <= length l)%nat).
  { induction l as [|d l IHl]; cbn [lstrip_by length]; [lia|]. destruct (is_bws d); cbn [length]; lia. }
  assert (R : (length (rstrip_by is_bws (lstrip_by is_bws e)) <= length e)%nat).
  { unfold rstrip_by. rewrite rev_length. etransitivity; [apply L|]. rewrite rev_length. apply L. }
  rewrite H in R. cbn [length] in R. lia.
Qed.

Lemma rstrip_strip_id e : strip e = e -> rstrip e = e.
Proof.
  intros H. pose proof (lstrip_strip_id e H) as L. unfold strip, strip_by in H. fold lstrip in H. rewrite L in H. exact H.
Qed.

Lemma parse_hline k e : name_ok k = true -> strip e = e -> parse_line (hline (k, e)) = Some (k, e).
Proof.
  intros Hk He. unfold hline. cbn [fst snd]. change (k ++ [COLON; SP] ++ e) with (k ++ COLON :: (SP :: e)).
  rewrite (proj1 (parse_line_name_ok k (SP :: e)) Hk). f_equal. f_equal.
  cbn [lstrip lstrip_by]. change (is_bws SP) with true. cbv iota. apply lstrip_strip_id, He.
Qed.

Lemma cut_none_app_iff a b : cut CRLF (a ++ b) = None -> cut CRLF a = None /\ cut CRLF b = None.
Proof.
  intros H. split.
  - destruct (cut CRLF a) as [[x y]|] eqn:C; [|reflexivity]. rewrite (cut_app _ _ _ _ b C) in H. discriminate.
  - induction a as [|c a IH]; [exact H|]. apply IH. cbn [app cut] in H.
    destruct (prefixb CRLF (c :: a ++ b)); [discriminate|]. destruct (cut CRLF (a ++ b)) as [[? ?]|]; [discriminate | reflexivity].
Qed.

(* a name of token characters followed by ": " and a CRLF-free value contains no CRLF *)
Lemma cut_name_none k r : name_ok k = true -> cut CRLF r = None -> cut CRLF (k ++ r) = None.
Proof.
  intros Hk Hr. apply name_ok_forall in Hk. induction k as [|c k IH]; [exact Hr|].
  cbn [forallb] in Hk. apply andb_true_iff in Hk as [Hc Hk]. cbn [app cut].
  rewrite prefixb_CRLF_cons, (good_not_cr c Hc). cbn [andb]. rewrite (IH Hk). reflexivity.
Qed.

Lemma hline_no_crlf k e : name_ok k = true -> cut CRLF e = None -> cut CRLF (hline (k, e)) = None.
Proof.
  intros Hk He. unfold hline. cbn [fst snd]. apply cut_name_none; [exact Hk|].
  cbn [app cut]. rewrite !prefixb_CRLF_cons. change (beq CR COLON) with false. change (beq CR SP) with false.
  cbn [andb]. rewrite He. reflexivity.
Qed.

(* --- items that go on the wire --- *)
Definition wire_ok (kv : bytes * bytes) : Prop :=
  name_ok (fst kv) = true /\ canon (fst kv) = fst kv /\ cut CRLF (snd kv) = None /\ strip (snd kv) = snd kv.

Lemma hparse_items x xs : Forall wire_ok (x :: xs) ->
  hparse [] (join_with CRLF (map hline (x :: xs))) = Some (commit_all [] (x :: xs)).
Proof.
  intros F. unfold hparse. cbn [map]. rewrite split_all_join_CRLF.
  - inversion F as [|? ? [Hk [_ [_ He]]] F']; subst. destruct x as [k e]. cbn [fst snd] in *.
    apply hparse_lines_fold; [apply parse_hline; assumption|].
    clear F Hk He. induction xs as [|[k' e'] xs IH]; [constructor|].
    inversion F' as [|? ? [Hk [_ [_ He]]] F'']; subst. cbn [fst snd] in *. cbn [map]. constructor.
    + split; [apply hline_not_ws, Hk | apply parse_hline; assumption].
    + apply IH, F''.
  - change (hline x :: map hline xs) with (map hline (x :: xs)). apply Forall_map. 
    eapply Forall_impl; [|exact F]. intros [k e] [Hk [_ [Hc _]]]. cbn [fst snd] in *. apply hline_no_crlf; assumption.
Qed.

(* --- the stable sort commutes with the expansion of list-element fields into one item per element --- *)
Lemma bytes_ltb_irrefl a : bytes_ltb a a = false.
Proof. induction a as [|c a IH]; [reflexivity|]. cbn [bytes_ltb]. rewrite N.ltb_irrefl, N.eqb_refl, IH. reflexivity. Qed.
Lemma bytes_leb_refl a : bytes_leb a a = true.
Proof. unfold bytes_leb. rewrite bytes_ltb_irrefl. reflexivity. Qed.

Definition skey (x : bytes * bytes) : bytes := sort_key (fst x).
Fixpoint insg (kx : bytes) (g l : list (bytes * bytes)) : list (bytes * bytes) :=
  match l with
  | [] => g
  | y :: r => if bytes_leb kx (skey y) then g ++ y :: r else y :: insg kx g r
  end.

Lemma insg_nil kx l : insg kx [] l = l.
Proof. induction l as [|y r IH]; [reflexivity|]. cbn [insg]. destruct (bytes_leb kx (skey y)); [reflexivity | rewrite IH; reflexivity]. Qed.

Lemma ins_insg x g l : Forall (fun z => skey z = skey x) g ->
  insert_item x (insg (skey x) g l) = insg (skey x) (x :: g) l.
Proof.
  intros G. induction l as [|y r IH]; cbn [insg].
  - destruct g as [|z g]; [reflexivity|]. inversion G as [|? ? Hz _]; subst. cbn [insert_item].
    fold (skey x) (skey z). rewrite Hz, bytes_leb_refl. reflexivity.
  - destruct (bytes_leb (skey x) (skey y)) eqn:E.
    + destruct g as [|z g]; cbn [app insert_item]; fold (skey x).
      * fold (skey y). rewrite E. reflexivity.
      * inversion G as [|? ? Hz _]; subst. fold (skey z). rewrite Hz, bytes_leb_refl. reflexivity.
    + cbn [insert_item]. fold (skey x) (skey y). rewrite E, IH. reflexivity.
Qed.

Lemma fold_ins_group kx g l : Forall (fun z => skey z = kx) g -> fold_right insert_item l g = insg kx g l.
Proof.
  induction g as [|x g IH]; intros G; cbn [fold_right]; [symmetry; apply insg_nil|].
  inversion G as [|? ? Hx G']; subst. rewrite (IH G'). apply ins_insg. exact G'.
Qed.

Lemma insg_through kx g ys rest : Forall (fun z => bytes_leb kx (skey z) = false) ys ->
  insg kx g (ys ++ rest) = ys ++ insg kx g rest.
Proof.
  induction ys as [|z ys IH]; intros F; [reflexivity|]. inversion F as [|? ? Hz F']; subst.
  cbn [app insg]. rewrite Hz, (IH F'). reflexivity.
Qed.

Definition grp (f : bytes * bytes -> list (bytes * bytes)) (y : bytes * bytes) : Prop :=
  f y <> [] /\ Forall (fun z => skey z = skey y) (f y).

Lemma insg_flat f x s : grp f x -> Forall (grp f) s ->
  insg (skey x) (f x) (flat_map f s) = flat_map f (insert_item x s).
Proof.
  intros Gx. induction s as [|y r IH]; intros F.
  - cbn. rewrite app_nil_r. reflexivity.
  - inversion F as [|? ? [Ny Gy] F']; subst. cbn [flat_map insert_item]. fold (skey x) (skey y).
    destruct (f y) as [|z zs] eqn:Fy; [congruence|]. inversion Gy as [|? ? Hz Gz]; subst.
    cbn [app insg]. rewrite Hz. destruct (bytes_leb (skey x) (skey y)) eqn:E.
    + cbn [flat_map]. rewrite Fy. reflexivity.
    + rewrite insg_through.
      * cbn [flat_map]. rewrite Fy, (IH F'). reflexivity.
      * eapply Forall_impl; [|exact Gz]. intros w Hw. cbv beta in Hw. rewrite Hw. exact E.
Qed.

Lemma Forall_insert_item (P : bytes * bytes -> Prop) x s : P x -> Forall P s -> Forall P (insert_item x s).
Proof.
  intros Hx. induction s as [|y r IH]; intros F; cbn [insert_item]; [constructor; [exact Hx | constructor]|].
  inversion F; subst. destruct (bytes_leb (sort_key (fst x)) (sort_key (fst y))); constructor; auto.
Qed.
Lemma Forall_sort_items (P : bytes * bytes -> Prop) l : Forall P l -> Forall P (sort_items l).
Proof.
  induction l as [|x l IH]; intros F; [constructor|]. inversion F; subst. cbn [sort_items fold_right].
  apply Forall_insert_item; [assumption | apply IH; assumption].
Qed.

Lemma sort_flat f l : Forall (grp f) l -> sort_items (flat_map f l) = flat_map f (sort_items l).
Proof.
  induction l as [|x l IH]; intros F; [reflexivity|]. inversion F as [|? ? Gx F']; subst.
  cbn [flat_map]. unfold sort_items at 1. rewrite fold_right_app. fold (sort_items (flat_map f l)).
  rewrite (fold_ins_group (skey x)) by apply Gx. rewrite (IH F').
  cbn [sort_items fold_right]. fold (sort_items l). apply insg_flat; [exact Gx | apply Forall_sort_items, F'].
Qed.

Lemma insert_item_perm x s : Permutation (x :: s) (insert_item x s).
Proof.
  induction s as [|y r IH]; cbn [insert_item]; [apply Permutation_refl|].
  destruct (bytes_leb (sort_key (fst x)) (sort_key (fst y))); [apply Permutation_refl|].
  eapply Permutation_trans; [apply perm_swap|]. apply perm_skip, IH.
Qed.
Lemma sort_items_perm l : Permutation l (sort_items l).
Proof.
  induction l as [|x l IH]; [apply Permutation_refl|]. cbn [sort_items fold_right]. fold (sort_items l).
  eapply Permutation_trans; [apply perm_skip, IH | apply insert_item_perm].
Qed.

(* --- parsing the items of one collection, group by group, rebuilds the collection --- *)
Lemma hset_absent k v h : hget k h = None -> hset k v h = h ++ [(k, v)].
Proof.
  induction h as [|[k' v'] h IH]; cbn [hget hset app]; [reflexivity|].
  destruct (bytes_eqb k k'); [discriminate|]. intros H. rewrite (IH H). reflexivity.
Qed.
Lemma hget_app_last k v h : hget k h = None -> hget k (h ++ [(k, v)]) = Some v.
Proof.
  induction h as [|[k' v'] h IH]; cbn [hget app]; [rewrite bytes_eqb_refl; reflexivity|].
  destruct (bytes_eqb k k'); [discriminate | exact IH].
Qed.
Lemma hset_app_last k v w h : hget k h = None -> hset k w (h ++ [(k, v)]) = h ++ [(k, w)].
Proof.
  induction h as [|[k' v'] h IH]; cbn [hget hset app]; [rewrite bytes_eqb_refl; reflexivity|].
  destruct (bytes_eqb k k'); [discriminate|]. intros H. rewrite (IH H). reflexivity.
Qed.
Lemma hget_app_other k k' v h : k <> k' -> hget k (h ++ [(k', v)]) = hget k h.
Proof.
  intros Hn. induction h as [|[k2 v2] h IH]; cbn [hget app].
  - rewrite (bytes_eqb_neq _ _ Hn). reflexivity.
  - destruct (bytes_eqb k k2); [reflexivity | exact IH].
Qed.

Lemma commit_all_app h a b : commit_all h (a ++ b) = commit_all (commit_all h a) b.
Proof. unfold commit_all. apply fold_left_app. Qed.

Lemma commit_group_rest k es : forall acc cur, canon k = k -> hget k acc = None ->
  Forall (fun e => rstrip e = e) es ->
  commit_all (acc ++ [(k, cur)]) (map (fun e => (k, e)) es) = acc ++ [(k, join_with (join_sep k) (cur :: es))].
Proof.
  induction es as [|e es IH]; intros acc cur Hk Ha F; [reflexivity|]. inversion F as [|? ? He F']; subst.
  cbn [map commit_all fold_left]. fold (commit_all (commit (acc ++ [(k, cur)]) (Some (k, e))) (map (fun e => (k, e)) es)).
  unfold commit. rewrite Hk, (hget_app_last _ _ _ Ha), (hset_app_last _ _ _ _ Ha), He.
  rewrite (IH _ _ Hk Ha F'). rewrite (join_with_merge (join_sep k) cur e es). reflexivity.
Qed.

Lemma commit_group k e es acc : canon k = k -> hget k acc = None -> Forall (fun e => rstrip e = e) (e :: es) ->
  commit_all acc (map (fun e => (k, e)) (e :: es)) = acc ++ [(k, join_with (join_sep k) (e :: es))].
Proof.
  intros Hk Ha F. inversion F as [|? ? He F']; subst. cbn [map commit_all fold_left].
  fold (commit_all (commit acc (Some (k, e))) (map (fun e => (k, e)) es)).
  unfold commit at 1. rewrite Hk, Ha, He, (hset_absent _ _ _ Ha). apply commit_group_rest; assumption.
Qed.

(* what [wf_item] gives about the expansion of one stored field *)
Definition item_ok (kv : bytes * bytes) : Prop :=
  exists e es, enc_item kv = map (fun e => (fst kv, e)) (e :: es) /\
    join_with (join_sep (fst kv)) (e :: es) = snd kv /\
    Forall (fun e => cut CRLF e = None /\ strip e = e) (e :: es).

Lemma wf_elem_inv e : wf_elem e = true -> cut CRLF e = None /\ strip e = e.
Proof.
  unfold wf_elem, contains. rewrite andb_true_iff, negb_true_iff, bytes_eqb_eq.
  intros [H1 H2]. split; [|exact H2]. destruct (cut CRLF e); [discriminate | reflexivity].
Qed.

Lemma filter_ascii_id u : forallb is_ascii u = true -> filter is_ascii u = u.
Proof.
  induction u as [|c u IH]; [reflexivity|]. cbn [forallb filter]. rewrite andb_true_iff. intros [-> H].
  rewrite (IH H). reflexivity.
Qed.

Lemma wire_name_canonical k : name_ok k = true -> canon k = k -> wire_name k = k.
Proof.
  intros Hn Hc. unfold wire_name. assert (E : (if known (title k) then spell (title k) else k) = k).
  { destruct (known (title k)); [exact Hc | reflexivity]. }
  rewrite E. apply filter_ascii_id, name_ok_ascii, Hn.
Qed.

Lemma wf_item_inv kv : wf_item kv = true -> name_ok (fst kv) = true /\ canon (fst kv) = fst kv /\ item_ok kv.
Proof.
  destruct kv as [k v]. unfold wf_item. cbn [fst snd]. rewrite !andb_true_iff, bytes_eqb_eq.
  intros [[Hn Hc] H]. split; [exact Hn|]. split; [exact Hc|].
  unfold item_ok, enc_item. cbn [fst snd]. rewrite (wire_name_canonical k Hn Hc).
  destruct (list_kind k) as [kind|].
  - destruct (lsplit kind v) as [|e es]; [discriminate|]. apply andb_true_iff in H as [H1 H2].
    apply bytes_eqb_eq in H2. exists e, es. split; [reflexivity|]. split; [exact H2|].
    rewrite forallb_forall in H1. apply Forall_forall. intros x Hx. apply wf_elem_inv, H1, Hx.
  - exists v, []. split; [reflexivity|]. split; [reflexivity|]. constructor; [apply wf_elem_inv, H | constructor].
Qed.

Lemma commit_all_flat l : forall acc,
  Forall (fun kv => canon (fst kv) = fst kv /\ item_ok kv) l ->
  NoDup (map fst l) -> (forall kv, In kv l -> hget (fst kv) acc = None) ->
  commit_all acc (flat_map enc_item l) = acc ++ l.
Proof.
  induction l as [|[k v] l IH]; intros acc F N A; [cbn; rewrite app_nil_r; reflexivity|].
  inversion F as [|? ? [Hc [e [es [E1 [E2 E3]]]]] F']; subst. cbn [fst snd] in *.
  inversion N as [|? ? Nk N']; subst.
  cbn [flat_map]. rewrite commit_all_app, E1.
  rewrite commit_group; [| exact Hc | eapply (A (k, _)); left; reflexivity |].
  - rewrite (IH _ F' N').
    + rewrite <- app_assoc. reflexivity.
    + intros [k2 v2] I2. cbn [fst]. rewrite hget_app_other; [apply (A (k2, v2)); right; exact I2|].
      intros ->. apply Nk. apply (in_map fst) in I2. exact I2.
  - eapply Forall_impl; [|exact E3]. intros x [_ Hx]. apply rstrip_strip_id, Hx.
Qed.

Lemma uniqb_NoDup ks : uniqb ks = true -> NoDup ks.
Proof.
  induction ks as [|k r IH]; [constructor|]. cbn [uniqb]. rewrite andb_true_iff, negb_true_iff.
  intros [H1 H2]. constructor; [|apply IH, H2]. intros I.
  assert (existsb (bytes_eqb k) r = true) by (apply existsb_exists; exists k; split; [exact I | apply bytes_eqb_refl]).
  congruence.
Qed.

Lemma sort_key_canonical_grp kv : name_ok (fst kv) = true -> canon (fst kv) = fst kv -> item_ok kv -> grp enc_item kv.
Proof.
  intros _ _ [e [es [E1 _]]]. unfold grp. rewrite E1. split; [cbn [map]; discriminate|].
  apply Forall_forall. intros z Hz. apply in_map_iff in Hz as [x [<- _]]. reflexivity.
Qed.

Theorem compose_parse_roundtrip h : wf_hdrs h = true -> hparse [] (hblock h) = Some (sort_items h).
Proof.
  intros W.
  assert (Hne : h <> []) by (intros ->; discriminate W).
  assert (W' : forallb wf_item h = true /\ uniqb (map fst h) = true).
  { unfold wf_hdrs in W. destruct h; [congruence|]. apply andb_true_iff, W. }
  destruct W' as [W1 W2]. clear W.
  assert (F : Forall (fun kv => name_ok (fst kv) = true /\ canon (fst kv) = fst kv /\ item_ok kv) h).
  { apply Forall_forall. intros kv I. rewrite forallb_forall in W1. apply wf_item_inv, W1, I. }
  unfold hblock, hlines. rewrite sort_flat.
  2:{ eapply Forall_impl; [|exact F]. intros kv [A [B C]]. apply sort_key_canonical_grp; assumption. }
  pose proof (Forall_sort_items _ _ F) as Fs.
  pose proof (sort_items_perm h) as P.
  assert (Ns : NoDup (map fst (sort_items h))).
  { eapply Permutation_NoDup; [apply Permutation_map, P | apply uniqb_NoDup, W2]. }
  (* the items on the wire *)
  assert (Fw : Forall wire_ok (flat_map enc_item (sort_items h))).
  { apply Forall_forall. intros it I. apply in_flat_map in I as [kv [I1 I2]].
    rewrite Forall_forall in Fs. destruct (Fs kv I1) as [Hn [Hc [e [es [E1 [_ E3]]]]]].
    rewrite E1 in I2. apply in_map_iff in I2 as [x [<- Ix]]. rewrite Forall_forall in E3.
    destruct (E3 x Ix) as [X1 X2]. unfold wire_ok. cbn [fst snd]. auto. }
  destruct (flat_map enc_item (sort_items h)) as [|it its] eqn:Ei.
  - (* impossible: h is not empty and every item expands to at least one line *)
    exfalso. destruct (sort_items h) as [|kv s] eqn:Es.
    + apply Hne. apply Permutation_sym, Permutation_nil in P. exact P.
    + inversion Fs as [|? ? [_ [_ [e [es [E1 _]]]]] _]; subst. cbn [flat_map] in Ei. rewrite E1 in Ei. discriminate.
  - rewrite (hparse_items it its Fw). rewrite <- Ei. f_equal.
    rewrite (commit_all_flat (sort_items h) []); [reflexivity | | exact Ns | reflexivity].
    eapply Forall_impl; [|exact Fs]. intros kv [_ [B C]]. split; assumption.
Qed.

Lemma hcompose_hblock h : hlines h <> [] -> hcompose h = hblock h ++ CRLF ++ CRLF.
Proof.
  unfold hcompose, hblock. generalize (hlines h). intros ls Hne. rewrite app_assoc. f_equal.
  induction ls as [|l ls IH]; [congruence|]. destruct ls as [|l2 ls]; [cbn; rewrite app_nil_r; reflexivity|].
  change (concat_bytes (map (fun l => l ++ CRLF) (l :: l2 :: ls)))
    with ((l ++ CRLF) ++ concat_bytes (map (fun l => l ++ CRLF) (l2 :: ls))).
  rewrite IH by discriminate. change (join_with CRLF (l :: l2 :: ls)) with (l ++ CRLF ++ join_with CRLF (l2 :: ls)).
  rewrite <- !app_assoc. reflexivity.
Qed.

(* lookups in a permutation of a collection with distinct names *)
Lemma hget_in k v h : NoDup (map fst h) -> In (k, v) h -> hget k h = Some v.
Proof.
  induction h as [|[k' v'] h IH]; intros N I; [contradiction|]. inversion N as [|? ? Nk N']; subst.
  cbn [hget]. destruct I as [E|I].
  - injection E as -> ->. rewrite bytes_eqb_refl. reflexivity.
  - destruct (bytes_eqb k k') eqn:E; [|apply IH; assumption]. apply bytes_eqb_eq in E. subst k'.
    exfalso. apply Nk. apply (in_map fst) in I. exact I.
Qed.
Lemma hget_some_in k v h : hget k h = Some v -> In (k, v) h.
Proof.
  induction h as [|[k' v'] h IH]; cbn [hget]; [discriminate|]. destruct (bytes_eqb k k') eqn:E.
  - intros H. injection H as ->. apply bytes_eqb_eq in E. subst. left. reflexivity.
  - intros H. right. apply IH, H.
Qed.
Lemma hget_perm k a b : NoDup (map fst a) -> Permutation a b -> hget k a = hget k b.
Proof.
  intros N P. assert (Nb : NoDup (map fst b)) by (eapply Permutation_NoDup; [apply Permutation_map, P | exact N]).
  destruct (hget k a) as [v|] eqn:A.
  - symmetry. apply hget_in; [exact Nb|]. eapply Permutation_in; [exact P|]. apply hget_some_in, A.
  - destruct (hget k b) as [w|] eqn:B; [|reflexivity]. apply hget_some_in in B.
    apply (Permutation_in _ (Permutation_sym P)) in B. apply (hget_in _ _ _ N) in B. congruence.
Qed.

Corollary compose_parse_equal_collection h : wf_hdrs h = true ->
  exists h', hparse [] (hblock h) = Some h' /\ Permutation h h' /\ forall k, hget k h' = hget k h.
Proof.
  intros W. exists (sort_items h). split; [apply compose_parse_roundtrip, W|]. split; [apply sort_items_perm|].
  intros k. symmetry. apply hget_perm; [|apply sort_items_perm].
  unfold wf_hdrs in W. destruct h; [discriminate|]. apply andb_true_iff in W as [_ W]. apply uniqb_NoDup, W.
Qed.

(* ================= RFC 2047: text values read back ================= *)
Lemma cut_none_no_first a pat l : forallb (fun c => negb (beq c a)) l = true -> cut (a :: pat) l = None.
Proof.
  induction l as [|c l IH]; [reflexivity|]. cbn [forallb cut prefixb]. rewrite andb_true_iff, negb_true_iff.
  intros [E H]. rewrite beq_sym, E. cbn [andb]. rewrite (IH H). reflexivity.
Qed.

Lemma contains_prefix pat l : pat <> [] -> prefixb pat l = true -> contains pat l = true.
Proof.
  intros Hp H. unfold contains. destruct l as [|c l]; [destruct pat; [congruence | discriminate]|].
  cbn [cut]. rewrite H. reflexivity.
Qed.

(* a prefix in which every "=" is followed by something other than "=" hides nothing from the "==?" scan *)
Fixpoint safe_pre (p : bytes) : bool :=
  match p with
  | [] => true
  | a :: r => (negb (beq a EQ) || match r with b :: _ => negb (beq b EQ) | [] => false end) && safe_pre r
  end.

Lemma has_eeq_safe_pre v p r : safe_pre p = true -> has_eeq v (p ++ r) = has_eeq v r.
Proof.
  induction p as [|a p IH]; [reflexivity|]. cbn [safe_pre]. rewrite andb_true_iff. intros [H1 H2].
  cbn [app has_eeq]. rewrite (IH H2). 
  assert (E : (beq a EQ && prefixb [EQ; QM] (p ++ r)) = false).
  { destruct (beq a EQ); [|reflexivity]. cbn [negb orb andb] in *. destruct p as [|b p]; [discriminate|].
    cbn [app prefixb]. apply negb_true_iff in H1. rewrite beq_sym, H1. reflexivity. }
  rewrite E. reflexivity.
Qed.

Lemma has_eeq_tail b : forallb (fun c => negb (beq c QM)) b = true -> has_eeq Repaired (b ++ [QM; EQ]) = false.
Proof.
  induction b as [|c b IH]; [reflexivity|]. cbn [forallb]. rewrite andb_true_iff. intros [Hc Hb].
  cbn [app has_eeq]. rewrite (IH Hb), orb_false_r.
  destruct (beq c EQ); [|reflexivity]. cbn [andb].
  destruct b as [|b1 [|b2 b]]; cbn [app prefixb skipn].
  - reflexivity.
  - destruct (beq EQ b1); reflexivity.
  - cbn [forallb] in Hb. apply andb_true_iff in Hb as [_ Hb]. apply andb_true_iff in Hb as [Hb _].
    apply negb_true_iff in Hb. rewrite (beq_sym QM b2), Hb. rewrite !andb_false_r. reflexivity.
Qed.

Lemma ew_frame_ok : prefixb [EQ; QM] EW_PREFIX = true /\ safe_pre EW_PREFIX = true /\ EW_SUFFIX = [QM; EQ] /\
  forallb (fun c => negb (beq c DQ)) (EW_PREFIX ++ EW_SUFFIX) = true.
Proof. vm_compute. repeat split; reflexivity. Qed.

Lemma b64ch_plain c : is_b64ch c = true -> negb (beq c DQ) = true /\ negb (beq c QM) = true.
Proof.
  intros H. split; revert c H; apply byte_impl; vm_compute; reflexivity.
Qed.

Lemma b64enc_b64ch x : forallb is_b64ch (b64enc x) = true.
Proof. exact (b64enc_out x). Qed.

Lemma forallb_app {A} (p : A -> bool) a b : forallb p (a ++ b) = forallb p a && forallb p b.
Proof. induction a as [|x a IH]; [reflexivity|]. cbn [app forallb]. rewrite IH, andb_assoc. reflexivity. Qed.

Lemma looks_encoded_word b : forallb is_b64ch b = true -> looks_encoded Repaired (EW_PREFIX ++ b ++ EW_SUFFIX) = true.
Proof.
  intros Hb. destruct ew_frame_ok as [F1 [F2 [F3 F4]]]. unfold looks_encoded.
  rewrite contains_prefix by (try discriminate; apply prefixb_app_r, F1).
  assert (D : contains [DQ; EQ; QM] (EW_PREFIX ++ b ++ EW_SUFFIX) = false).
  { unfold contains. rewrite cut_none_no_first; [reflexivity|]. rewrite forallb_app in F4. apply andb_true_iff in F4 as [P S].
    rewrite !forallb_app, P, S, andb_true_r. cbn [andb]. rewrite forallb_forall in *. intros c Hc. apply b64ch_plain, Hb, Hc. }
  rewrite D, (has_eeq_safe_pre _ _ _ F2), F3, has_eeq_tail; [reflexivity|].
  rewrite forallb_forall in *. intros c Hc. apply b64ch_plain, Hb, Hc.
Qed.

Lemma ew_single_word b : forallb is_b64ch b = true -> ew_single (EW_PREFIX ++ b ++ EW_SUFFIX) = Some b.
Proof.
  intros Hb. unfold ew_single. rewrite prefixb_app. 
  assert (L : Nat.leb (length EW_PREFIX + length EW_SUFFIX) (length (EW_PREFIX ++ b ++ EW_SUFFIX)) = true).
  { apply Nat.leb_le. rewrite !app_length. lia. }
  rewrite L. cbn [andb]. rewrite skipn_app_exact.
  replace (length (b ++ EW_SUFFIX) - length EW_SUFFIX)%nat with (length b) by (rewrite app_length; lia).
  rewrite skipn_app_exact, bytes_eqb_refl. cbn [andb].
  rewrite firstn_app, Nat.sub_diag, firstn_all. cbn [firstn]. rewrite app_nil_r, Hb. reflexivity.
Qed.

Lemma pad4_b64enc x : pad4 (b64enc x) = b64enc x.
Proof. unfold pad4. rewrite b64enc_length, Nat.mul_comm, Nat.mod_mul by discriminate. reflexivity. Qed.

Section ValueRoundTrip.
Variable dechdr : bytes -> option bytes.

(* text outside Latin-1 travels as one base64 word and reads back (after the D15 repair) *)
Theorem value_roundtrip_unicode t u : is_latin1 t = false -> utf8_enc t = Some u ->
  exists raw, encode_rfc2047 t = Some raw /\ decode_rfc2047 Repaired dechdr raw = Some u.
Proof.
  intros L U. unfold encode_rfc2047. rewrite L, U. eexists. split; [reflexivity|].
  unfold decode_rfc2047. rewrite looks_encoded_word, ew_single_word by apply b64enc_b64ch.
  unfold ew_decode. rewrite pad4_b64enc, a2b_b64enc, (Utf8Enc.utf8_valid_enc t u U). reflexivity.
Qed.

(* Latin-1 text travels raw and reads back unless it looks like an encoded word itself (finding D16) *)
Theorem value_roundtrip_latin1 v t : is_latin1 t = true -> looks_encoded v (latin1_enc t) = false ->
  encode_rfc2047 t = Some (latin1_enc t) /\ decode_rfc2047 v dechdr (latin1_enc t) = utf8_enc t.
Proof.
  intros L E. unfold encode_rfc2047, decode_rfc2047. rewrite L, E. split; [reflexivity|].
  symmetry. apply Utf8Enc.latin1_utf8, L.
Qed.

(* pinned tree (D15): a word whose base64 ends in "==" is not decoded *)
Theorem value_roundtrip_asfound_refuted :
  exists t u raw, is_latin1 t = false /\ utf8_enc t = Some u /\ encode_rfc2047 t = Some raw /\
    decode_rfc2047 AsFound dechdr raw <> Some u.
Proof.
  exists [0x61; 0x20AC]. eexists. eexists. split; [reflexivity|]. split; [vm_compute; reflexivity|].
  split; [vm_compute; reflexivity|]. vm_compute. discriminate.
Qed.

(* D16: a Latin-1 text that looks like an encoded word is decoded on lookup *)
Theorem value_roundtrip_latin1_refuted :
  exists t, is_latin1 t = true /\ encode_rfc2047 t = Some (latin1_enc t) /\
    decode_rfc2047 Repaired dechdr (latin1_enc t) <> utf8_enc t.
Proof.
  exists [0x3d; 0x3f; 0x75; 0x74; 0x66; 0x2d; 0x38; 0x3f; 0x62; 0x3f; 0x34; 0x6f; 0x4b; 0x73; 0x3f; 0x3d].
  split; [reflexivity|]. split; [reflexivity|]. vm_compute. discriminate.
Qed.
End ValueRoundTrip.

(* ================= statements in the form used by Props/C08.v ================= *)
Lemma parse_case_insensitive ls h : hparse_lines h None (map lower_name_line ls) = hparse_lines h None ls.
Proof. exact (hparse_lines_name_ci ls h None None I). Qed.

Lemma run_refines vew utitle dechdr ops :
  let impl := run Repaired vew utitle dechdr [] ops in
  rrun vew dechdr [] ops = (abs (fst impl), snd impl).
Proof. cbv zeta. rewrite run_grun. exact (proj1 (grun_refines vew dechdr ops [] eq_refl)). Qed.

Lemma run_canonical vew utitle dechdr ops : canonicalb (fst (run Repaired vew utitle dechdr [] ops)) = true.
Proof. rewrite run_grun. exact (proj2 (grun_refines vew dechdr ops [] eq_refl)). Qed.

Lemma names_assign utitle k :
  (exists ck, formatkey Repaired utitle k = Some ck) <-> forallb is_tchar (key_utf8 k) = true.
Proof.
  rewrite <- name_ok_tchar. unfold formatkey. destruct (name_ok (key_utf8 k)).
  - split; [reflexivity | intros _; eexists; reflexivity].
  - split; [intros [ck H]; discriminate H | discriminate].
Qed.

Lemma names_wire u v : parse_line (u ++ COLON :: v) = Some (u, lstrip v) <-> forallb is_tchar u = true.
Proof. rewrite <- name_ok_tchar. symmetry. apply parse_line_name_ok. Qed.

(* pinned tree (D32): HEADER_RE is tested after title(), so a name whose title-casing is ASCII passes.
   The callee is str.title(); U+017F (long s) title-cases to "S" *)
Lemma names_asfound_refuted utitle :
  utitle [xc5; xbf; x65; x74; x2d; x63; x6f; x6f; x6b; x69; x65] = [x53; x65; x74; x2d; x43; x6f; x6f; x6b; x69; x65] ->
  exists k ck, formatkey AsFound utitle k = Some ck /\ forallb is_tchar (key_utf8 k) = false.
Proof.
  intros H. exists (KB [xc5; xbf; x65; x74; x2d; x63; x6f; x6f; x6b; x69; x65]). eexists.
  unfold formatkey, tkey. change (key_utf8 (KB [xc5; xbf; x65; x74; x2d; x63; x6f; x6f; x6b; x69; x65]))
    with [xc5; xbf; x65; x74; x2d; x63; x6f; x6f; x6b; x69; x65].
  change (forallb is_ascii [xc5; xbf; x65; x74; x2d; x63; x6f; x6f; x6b; x69; x65]) with false. cbv iota.
  rewrite H. split; vm_compute; reflexivity.
Qed.

(* Model/Headers.v's hparse (what the message-parser model calls) is the stateful version without the state
   left behind by a failing call *)
Lemma hparse_lines_st ls : forall h cur,
  hparse_lines h cur ls = let '(h', ok) := hparse_st h cur ls in if ok then Some h' else None.
Proof.
  induction ls as [|l ls IH]; intros h cur; [reflexivity|]. cbn [hparse_lines hparse_st].
  destruct cur as [[name raw]|].
  - destruct (starts_ws l); [apply IH|]. destruct (parse_line l); [apply IH | reflexivity].
  - destruct (parse_line l); [apply IH | reflexivity].
Qed.
Lemma hparse_st_agree h d :
  hparse h d = let '(h', ok) := hparse_st h None (split_all CRLF d) in if ok then Some h' else None.
Proof. apply hparse_lines_st. Qed.

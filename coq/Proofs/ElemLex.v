(* Lemmas about the lexical helpers of Model/ElemLex.v *)
From Httoop Require Import Model.ElemLex.
Local Open Scope N_scope.
Arguments is_ws : simpl never.
Arguments inmask : simpl never.
Arguments beq : simpl never.

(* ---------- strip ---------- *)

Lemma lstrip_id l : match l with c :: _ => is_ws c = false | [] => True end -> lstrip l = l.
Proof. destruct l as [|c r]; cbn; [reflexivity | intros ->; reflexivity]. Qed.

Lemma strip_id l :
  match l with c :: _ => is_ws c = false | [] => True end ->
  match rev l with c :: _ => is_ws c = false | [] => True end ->
  strip l = l.
Proof.
  intros H1 H2. unfold strip, rstrip. rewrite (lstrip_id l H1), (lstrip_id (rev l) H2).
  apply rev_involutive.
Qed.

Lemma strip_id_forall l : forallb (fun c => negb (is_ws c)) l = true -> strip l = l.
Proof.
  intros H. rewrite forallb_forall in H. apply strip_id.
  - destruct l as [|c r]; [exact I|]. specialize (H c (or_introl eq_refl)). now destruct (is_ws c).
  - destruct (rev l) as [|c r] eqn:E; [exact I|].
    assert (In c l) by (apply in_rev; rewrite E; left; reflexivity).
    specialize (H c H0). now destruct (is_ws c).
Qed.

Lemma lstrip_ws_app w l : forallb is_ws w = true -> lstrip (w ++ l) = lstrip l.
Proof.
  induction w as [|c w IH]; cbn; [reflexivity|]. intros H. apply andb_true_iff in H as [H1 H2].
  rewrite H1. apply IH, H2.
Qed.

Lemma lstrip_head_nows l : match lstrip l with c :: _ => is_ws c = false | [] => True end.
Proof.
  induction l as [|c r IH]; cbn; [exact I|]. destruct (is_ws c) eqn:E; [exact IH | cbn; exact E].
Qed.

Lemma lstrip_suffix l : exists w, l = w ++ lstrip l /\ forallb is_ws w = true.
Proof.
  induction l as [|c r IH]; cbn.
  - exists []. split; reflexivity.
  - destruct (is_ws c) eqn:E.
    + destruct IH as [w [H1 H2]]. exists (c :: w). cbn. rewrite E, H2. split; [f_equal; exact H1 | reflexivity].
    + exists []. split; reflexivity.
Qed.

Lemma lstrip_all_ws l : forallb is_ws l = true -> lstrip l = [].
Proof.
  induction l as [|c r IH]; cbn; [reflexivity|]. intros H. apply andb_true_iff in H as [H1 H2].
  rewrite H1. apply IH, H2.
Qed.

(* the result of strip has no white space at either end *)
Lemma strip_ends l :
  match strip l with c :: _ => is_ws c = false | [] => True end /\
  match rev (strip l) with c :: _ => is_ws c = false | [] => True end.
Proof.
  unfold strip, rstrip. rewrite rev_involutive. split; [|apply lstrip_head_nows].
  set (m := lstrip l). pose proof (lstrip_head_nows l) as Hm. fold m in Hm.
  destruct m as [|c r] eqn:Em; [cbn; exact I|].
  (* rev (lstrip (rev (c :: r))) starts with c *)
  destruct (lstrip_suffix (rev (c :: r))) as [w [H1 H2]].
  assert (rev (lstrip (rev (c :: r))) ++ rev w = c :: r).
  { rewrite <- rev_app_distr, <- H1. apply rev_involutive. }
  destruct (rev (lstrip (rev (c :: r)))) as [|x t] eqn:R.
  - exact I.
  - cbn in H. injection H as -> _. exact Hm.
Qed.

Lemma strip_idem l : strip (strip l) = strip l.
Proof. destruct (strip_ends l) as [H1 H2]. apply strip_id; assumption. Qed.

(* ---------- partition3 ---------- *)

Lemma partition3_app sep a b :
  forallb (fun c => negb (beq c sep)) a = true -> partition3 sep (a ++ sep :: b) = (a, true, b).
Proof.
  induction a as [|c a IH]; cbn; intros H.
  - rewrite beq_refl. reflexivity.
  - apply andb_true_iff in H as [H1 H2]. destruct (beq c sep); [discriminate|]. rewrite (IH H2). reflexivity.
Qed.

Lemma partition3_none sep a :
  forallb (fun c => negb (beq c sep)) a = true -> partition3 sep a = (a, false, []).
Proof.
  induction a as [|c a IH]; cbn; intros H; [reflexivity|].
  apply andb_true_iff in H as [H1 H2]. destruct (beq c sep); [discriminate|]. rewrite (IH H2). reflexivity.
Qed.

Lemma partition3_spec sep l a f b :
  partition3 sep l = (a, f, b) ->
  forallb (fun c => negb (beq c sep)) a = true /\ (if f then l = a ++ sep :: b else l = a /\ b = []).
Proof.
  revert a f b; induction l as [|c l IH]; cbn; intros a f b H.
  - injection H as <- <- <-. split; [reflexivity | split; reflexivity].
  - destruct (beq c sep) eqn:E.
    + injection H as <- <- <-. apply beq_eq in E. subst c. split; reflexivity.
    + destruct (partition3 sep l) as [[a' f'] b'] eqn:P. injection H as <- <- <-.
      destruct (IH a' f' b' eq_refl) as [H1 H2]. split; [cbn; rewrite E; exact H1|].
      destruct f'; [rewrite H2; reflexivity | destruct H2 as [-> ->]; split; reflexivity].
Qed.

(* ---------- qsplit ---------- *)

Lemma qsplit_aux_plain sep l :
  forallb (fun c => negb (beq c DQ) && negb (beq c sep)) l = true -> qsplit_aux sep l = (false, l, []).
Proof.
  induction l as [|c l IH]; cbn; intros H; [reflexivity|].
  apply andb_true_iff in H as [H1 H2]. apply andb_true_iff in H1 as [Ha Hb].
  rewrite (IH H2). destruct (beq c DQ); [discriminate|]. destruct (beq c sep); [discriminate|]. reflexivity.
Qed.

Lemma qsplit_plain sep l :
  forallb (fun c => negb (beq c DQ) && negb (beq c sep)) l = true -> qsplit sep l = [l].
Proof. intros H. unfold qsplit. rewrite (qsplit_aux_plain sep l H). reflexivity. Qed.

(* no double quote anywhere: the split is the plain split at every separator *)
Lemma qsplit_aux_noquote sep l :
  forallb (fun c => negb (beq c DQ)) l = true -> fst (fst (qsplit_aux sep l)) = false.
Proof.
  induction l as [|c l IH]; cbn; intros H; [reflexivity|].
  apply andb_true_iff in H as [H1 H2]. specialize (IH H2).
  destruct (qsplit_aux sep l) as [[o h] t]. cbn in IH. subst o.
  destruct (beq c DQ); [discriminate|]. destruct (beq c sep); reflexivity.
Qed.

Lemma qsplit_aux_app_sep sep a b :
  negb (beq sep DQ) = true ->
  forallb (fun c => negb (beq c DQ) && negb (beq c sep)) a = true ->
  forallb (fun c => negb (beq c DQ)) b = true ->
  qsplit_aux sep (a ++ sep :: b) = (false, a, snd (fst (qsplit_aux sep b)) :: snd (qsplit_aux sep b)).
Proof.
  intros Hs Ha Hb.
  pose proof (qsplit_aux_noquote sep b Hb) as Hq.
  induction a as [|c a IH]; cbn.
  - destruct (qsplit_aux sep b) as [[o h] t]. cbn in *. subst o.
    destruct (beq sep DQ); [discriminate|]. rewrite beq_refl. reflexivity.
  - apply andb_true_iff in Ha as [H1 H2]. apply andb_true_iff in H1 as [H1a H1b].
    rewrite (IH H2). destruct (beq c DQ); [discriminate|]. destruct (beq c sep); [discriminate|]. reflexivity.
Qed.

Lemma qsplit_app_sep sep a b :
  negb (beq sep DQ) = true ->
  forallb (fun c => negb (beq c DQ) && negb (beq c sep)) a = true ->
  forallb (fun c => negb (beq c DQ)) b = true ->
  qsplit sep (a ++ sep :: b) = a :: qsplit sep b.
Proof.
  intros Hs Ha Hb. unfold qsplit. rewrite (qsplit_aux_app_sep sep a b Hs Ha Hb).
  destruct (qsplit_aux sep b) as [[o h] t]. reflexivity.
Qed.

(* ---------- decimal rendering ---------- *)

Definition is_digit (c : byte) : bool := (48 <=? bN c) && (bN c <=? 57).
Definition dval (l : bytes) (acc : N) : N := fold_left (fun a c => 10 * a + (bN c - 48)) l acc.

Lemma dval_snoc l c acc : dval (l ++ [c]) acc = 10 * dval l acc + (bN c - 48).
Proof. unfold dval. rewrite fold_left_app. reflexivity. Qed.

Lemma digit_byte k : k < 10 -> bN (Nb (48 + k)) = 48 + k.
Proof. intros H. apply bN_Nb. lia. Qed.

Lemma digit_byte_is_digit k : k < 10 -> is_digit (Nb (48 + k)) = true.
Proof.
  intros H. unfold is_digit. rewrite (digit_byte k H).
  apply andb_true_iff. split; apply N.leb_le; lia.
Qed.

Lemma dec_fuel_digits f : forall n, forallb is_digit (dec_fuel f n) = true.
Proof.
  induction f as [|f IH]; intros n; cbn [dec_fuel].
  - cbn [forallb]. rewrite digit_byte_is_digit; [reflexivity | apply N.mod_lt; lia].
  - destruct (n <? 10) eqn:E.
    + apply N.ltb_lt in E. cbn [forallb]. rewrite (digit_byte_is_digit n E). reflexivity.
    + rewrite forallb_app, IH. cbn [forallb]. rewrite digit_byte_is_digit; [reflexivity | apply N.mod_lt; lia].
Qed.

Lemma dec_fuel_nonempty f n : dec_fuel f n <> [].
Proof.
  destruct f; cbn [dec_fuel]; [discriminate|]. destruct (n <? 10); [discriminate|].
  intros H. apply app_eq_nil in H as [_ H]. discriminate.
Qed.

Lemma dval_dec_fuel f : forall n, n < 10 * 2 ^ N.of_nat f -> dval (dec_fuel f n) 0 = n.
Proof.
  induction f as [|f IH]; intros n H.
  - cbn in H. cbn [dec_fuel]. unfold dval. cbn [fold_left].
    rewrite N.mod_small by lia. rewrite (digit_byte n) by lia. lia.
  - cbn [dec_fuel]. destruct (n <? 10) eqn:E.
    + apply N.ltb_lt in E. unfold dval. cbn [fold_left]. rewrite (digit_byte n E). lia.
    + apply N.ltb_ge in E. rewrite dval_snoc, IH.
      * rewrite digit_byte by (apply N.mod_lt; lia).
        pose proof (N.div_mod n 10 ltac:(lia)) as D. pose proof (N.mod_lt n 10 ltac:(lia)).
        generalize dependent (n mod 10). generalize dependent (n / 10). intros; lia.
      * rewrite Nat2N.inj_succ, N.pow_succ_r' in H.
        apply N.div_lt_upper_bound; [lia|].
        assert (1 <= 2 ^ N.of_nat f) by (apply N.lt_pred_le; cbn; apply N.neq_0_lt_0, N.pow_nonzero; lia).
        lia.
Qed.

Lemma dec_digits n : forallb is_digit (dec n) = true.
Proof. apply dec_fuel_digits. Qed.
Lemma dec_nonempty n : dec n <> [].
Proof. apply dec_fuel_nonempty. Qed.

Lemma dec_value n : dval (dec n) 0 = n.
Proof.
  unfold dec. apply dval_dec_fuel.
  destruct (N.eq_dec n 0) as [->|Hn]; [cbn; lia|].
  pose proof (N.log2_spec n ltac:(lia)) as [_ H].
  rewrite Nat2N.inj_succ, N2Nat.id.
  assert (0 < 2 ^ N.succ (N.log2 n)) by lia. lia.
Qed.

(* table facts about digits (re-checked whenever the tables change) *)
Lemma digit_not_ws c : is_digit c = true -> is_ws c = false.
Proof.
  intros H. assert (G : implb (is_digit c) (negb (is_ws c)) = true).
  { clear H. revert c. apply forall_byte. vm_compute. reflexivity. }
  rewrite H in G. cbn in G. now apply negb_true_iff in G.
Qed.

Lemma digit_not c x : is_digit x = false -> is_digit c = true -> beq c x = false.
Proof.
  intros Hx Hc. apply beq_neq. intros ->. congruence.
Qed.

Lemma forallb_impl {A} (p q : A -> bool) l :
  (forall x, p x = true -> q x = true) -> forallb p l = true -> forallb q l = true.
Proof.
  intros H. induction l as [|x l IH]; cbn; [reflexivity|]. intros E.
  apply andb_true_iff in E as [E1 E2]. rewrite (H x E1), (IH E2). reflexivity.
Qed.

Lemma existsb_false_forall {A} (p : A -> bool) l : forallb (fun x => negb (p x)) l = true -> existsb p l = false.
Proof.
  induction l as [|x l IH]; cbn; [reflexivity|]. intros H. apply andb_true_iff in H as [H1 H2].
  apply negb_true_iff in H1. rewrite H1, (IH H2). reflexivity.
Qed.

(* ---------- pinned regex structure: a change of the pattern text is a broken tie (the model of the split must be revisited) ---------- *)
Lemma re_split_pattern_pinned : RE_SPLIT_PAT = X "2c283f3d283f3a5b5e225d2a225b5e225d2a22292a5b5e225d2a2429" /\ RE_PARAMS_PAT = X "3b283f3d283f3a5b5e225d2a225b5e225d2a22292a5b5e225d2a2429".
Proof. split; vm_compute; reflexivity. Qed.

(* ---------- a comma-space separated list of quote-free pieces splits back into its pieces ---------- *)

Definition CSP : bytes := [COMMA; SP].
Lemma forallb_weaken_dq sep l :
  forallb (fun c => negb (beq c DQ) && negb (beq c sep)) l = true -> forallb (fun c => negb (beq c DQ)) l = true.
Proof. apply forallb_impl. intros c H. apply andb_true_iff in H as [H _]. exact H. Qed.

Lemma join_plain (xs : list bytes) :
  Forall (fun x => forallb (fun c => negb (beq c DQ) && negb (beq c COMMA)) x = true) xs ->
  forallb (fun c => negb (beq c DQ)) (join_with CSP xs) = true.
Proof.
  induction 1 as [|x xs Hx F IH]; [reflexivity|].
  destruct xs as [|y ys]; cbn [join_with]; [apply (forallb_weaken_dq COMMA), Hx|].
  rewrite !forallb_app, (forallb_weaken_dq COMMA _ Hx). cbn [join_with] in IH. rewrite IH. reflexivity.
Qed.

Lemma join_cons_head sep (c : byte) y (ys : list bytes) : join_with sep ((c :: y) :: ys) = c :: join_with sep (y :: ys).
Proof. destruct ys; reflexivity. Qed.

Lemma qsplit_join x (xs : list bytes) :
  Forall (fun x => forallb (fun c => negb (beq c DQ) && negb (beq c COMMA)) x = true) (x :: xs) ->
  qsplit COMMA (join_with CSP (x :: xs)) = x :: map (cons SP) xs.
Proof.
  revert x; induction xs as [|y ys IH]; intros x F; inversion F as [|? ? Hx F']; subst.
  - cbn [join_with map]. apply qsplit_plain, Hx.
  - change (join_with CSP (x :: y :: ys)) with (x ++ COMMA :: (SP :: join_with CSP (y :: ys))).
    rewrite qsplit_app_sep; [| reflexivity | exact Hx |].
    + f_equal. rewrite <- join_cons_head.
      rewrite IH; [reflexivity|]. inversion F' as [|? ? Hy F'']; subst. constructor; [|exact F''].
      cbn [forallb]. rewrite Hy. reflexivity.
    + cbn [forallb]. rewrite (join_plain (y :: ys) F'). reflexivity.
Qed.


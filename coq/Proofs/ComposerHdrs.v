(* Header collections of the composer model: well-formedness invariant (unique canonical token names, values
   free of CR/LF) under the dict operations, Headers.compose as read by the independent reader. *)
From Coq Require Import Lia Permutation.
From Httoop Require Import Model.Composer Model.Http1Reader Proofs.HeadersP Proofs.SplitP Proofs.Http1ReaderP Proofs.ComposerNum.
Local Open Scope N_scope.

(* ---------------------------------------------------------------- hget over the dict operations *)
Lemma hget_hset k k' v h : hget k (hset k' v h) = if bytes_eqb k k' then Some v else hget k h.
Proof.
  destruct (bytes_eqb k k') eqn:E.
  - apply bytes_eqb_eq in E. subst. apply hget_hset_same.
  - apply hget_hset_other. intros ->. rewrite bytes_eqb_refl in E. discriminate.
Qed.
Lemma hget_hdel k k' h : hget k (hdel k' h) = if bytes_eqb k k' then None else hget k h.
Proof.
  destruct (bytes_eqb k k') eqn:E.
  - apply bytes_eqb_eq in E. subst. apply hget_hdel_same.
  - apply hget_hdel_other. intros ->. rewrite bytes_eqb_refl in E. discriminate.
Qed.
Lemma hmem_hget k h : hmem k h = match hget k h with Some _ => true | None => false end.
Proof. reflexivity. Qed.
Lemma hget_hsetdefault k k' v h :
  hget k (hsetdefault k' v h) = if bytes_eqb k k' then (match hget k' h with Some x => Some x | None => Some v end) else hget k h.
Proof.
  unfold hsetdefault. rewrite hmem_hget. destruct (hget k' h) as [x|] eqn:E.
  - destruct (bytes_eqb k k') eqn:E2; [apply bytes_eqb_eq in E2; subst; exact E | reflexivity].
  - rewrite hget_hset. reflexivity.
Qed.
Lemma hget_hdel_all ks : forall k h, mem_bytes k ks = false -> hget k (hdel_all ks h) = hget k h.
Proof.
  induction ks as [|x ks IH]; intros k h H; [reflexivity|].
  cbn [mem_bytes existsb] in H. apply orb_false_iff in H as [H1 H2]. cbn [hdel_all]. rewrite (IH _ _ H2), hget_hdel, H1. reflexivity.
Qed.
Lemma hget_hdel_all_in ks : forall k h, mem_bytes k ks = true -> hget k (hdel_all ks h) = None.
Proof.
  induction ks as [|x ks IH]; intros k h H; [discriminate|].
  cbn [mem_bytes existsb] in H. cbn [hdel_all]. destruct (mem_bytes k ks) eqn:E.
  - apply IH. exact E.
  - unfold mem_bytes in E. rewrite E, orb_false_r in H. rewrite (hget_hdel_all _ _ _ E), hget_hdel, H. reflexivity.
Qed.

Lemma hset_same k v h : hget k h = Some v -> hset k v h = h.
Proof.
  induction h as [|[k' v'] h IH]; cbn [hget hset]; [discriminate|].
  destruct (bytes_eqb k k') eqn:E.
  - intros H. injection H as ->. apply bytes_eqb_eq in E. subst. reflexivity.
  - intros H. rewrite (IH H). reflexivity.
Qed.
Lemma hdel_absent k h : hget k h = None -> hdel k h = h.
Proof.
  induction h as [|[k' v'] h IH]; cbn [hget hdel]; [reflexivity|].
  destruct (bytes_eqb k k'); [discriminate|]. intros H. rewrite (IH H). reflexivity.
Qed.

(* ---------------------------------------------------------------- the invariant *)
Definition name_canon (k : bytes) : bool := bytes_eqb (canon k) k.
Definition kv_ok (kv : bytes * bytes) : bool := rd_token (fst kv) && rd_no_crlf (snd kv) && name_canon (fst kv).
Definition keys (h : hdrs) : list bytes := map fst h.
(* unique keys *)
Fixpoint nodup_keys (h : hdrs) : bool :=
  match h with
  | [] => true
  | (k, _) :: r => negb (hmem k r) && nodup_keys r
  end.
Definition hdrs_ok (h : hdrs) : bool := forallb kv_ok h && nodup_keys h.

Lemma hmem_hset_iff k k' v h : hmem k (hset k' v h) = bytes_eqb k k' || hmem k h.
Proof. rewrite !hmem_hget, hget_hset. destruct (bytes_eqb k k'); reflexivity. Qed.
Lemma hmem_hdel_iff k k' h : hmem k (hdel k' h) = negb (bytes_eqb k k') && hmem k h.
Proof. rewrite !hmem_hget, hget_hdel. destruct (bytes_eqb k k'); reflexivity. Qed.

Lemma hdrs_ok_hset k v h : hdrs_ok h = true -> kv_ok (k, v) = true -> hdrs_ok (hset k v h) = true.
Proof.
  unfold hdrs_ok. intros H Hkv. apply andb_true_iff in H as [H1 H2]. apply andb_true_iff. split.
  - clear H2. induction h as [|[k' v'] h IH]; cbn [hset forallb]; [rewrite Hkv; reflexivity|].
    cbn [forallb] in H1. apply andb_true_iff in H1 as [Ha Hb]. destruct (bytes_eqb k k'); cbn [forallb].
    + rewrite Hkv, Hb. reflexivity.
    + rewrite Ha, (IH Hb). reflexivity.
  - clear H1 Hkv. induction h as [|[k' v'] h IH]; cbn [hset nodup_keys]; [reflexivity|].
    cbn [nodup_keys] in H2. apply andb_true_iff in H2 as [Ha Hb]. destruct (bytes_eqb k k') eqn:E; cbn [nodup_keys].
    + apply bytes_eqb_eq in E. subst. rewrite Ha, Hb. reflexivity.
    + rewrite hmem_hset_iff, bytes_eqb_sym, E. cbn [orb]. rewrite Ha, (IH Hb). reflexivity.
Qed.

Lemma hdrs_ok_hdel k h : hdrs_ok h = true -> hdrs_ok (hdel k h) = true.
Proof.
  unfold hdrs_ok. intros H. apply andb_true_iff in H as [H1 H2]. apply andb_true_iff. split.
  - clear H2. induction h as [|[k' v'] h IH]; cbn [hdel forallb]; [reflexivity|].
    cbn [forallb] in H1. apply andb_true_iff in H1 as [Ha Hb]. destruct (bytes_eqb k k'); cbn [forallb]; [exact (IH Hb) | rewrite Ha, (IH Hb); reflexivity].
  - clear H1. induction h as [|[k' v'] h IH]; cbn [hdel nodup_keys]; [reflexivity|].
    cbn [nodup_keys] in H2. apply andb_true_iff in H2 as [Ha Hb]. destruct (bytes_eqb k k') eqn:E; cbn [nodup_keys]; [exact (IH Hb)|].
    rewrite hmem_hdel_iff. apply negb_true_iff in Ha. rewrite Ha, andb_false_r. cbn [negb andb]. exact (IH Hb).
Qed.

Lemma hdrs_ok_hsetdefault k v h : hdrs_ok h = true -> kv_ok (k, v) = true -> hdrs_ok (hsetdefault k v h) = true.
Proof. intros H Hkv. unfold hsetdefault. destruct (hmem k h); [exact H | apply hdrs_ok_hset; assumption]. Qed.
Lemma hdrs_ok_hdel_all ks : forall h, hdrs_ok h = true -> hdrs_ok (hdel_all ks h) = true.
Proof. induction ks as [|k ks IH]; intros h H; [exact H|]. cbn [hdel_all]. apply IH, hdrs_ok_hdel, H. Qed.

Lemma hdrs_ok_in h kv : hdrs_ok h = true -> In kv h -> kv_ok kv = true.
Proof. unfold hdrs_ok. intros H Hin. apply andb_true_iff in H as [H _]. rewrite forallb_forall in H. apply H, Hin. Qed.

(* with unique keys, selecting by key is a lookup *)
Lemma filter_key k h : nodup_keys h = true ->
  filter (fun kv => bytes_eqb (fst kv) k) h = match hget k h with Some v => [(k, v)] | None => [] end.
Proof.
  induction h as [|[k' v'] h IH]; intros H; [reflexivity|].
  cbn [nodup_keys] in H. apply andb_true_iff in H as [Ha Hb]. cbn [filter hget fst].
  rewrite (bytes_eqb_sym k' k). destruct (bytes_eqb k k') eqn:E.
  - apply bytes_eqb_eq in E. subst k'. rewrite (IH Hb). apply negb_true_iff in Ha. rewrite hmem_hget in Ha.
    destruct (hget k h); [discriminate | reflexivity].
  - apply IH, Hb.
Qed.

(* ---------------------------------------------------------------- case-insensitive names vs canonical keys *)
Lemma title_from_lower l : forall p, title_from p (lower l) = title_from p l.
Proof.
  assert (A : forall c, beq (to_lower (to_lower c)) (to_lower c) && beq (to_upper (to_lower c)) (to_upper c) && Bool.eqb (is_alpha (to_lower c)) (is_alpha c) = true).
  { apply forall_byte. vm_compute. reflexivity. }
  induction l as [|c l IH]; intros p; [reflexivity|]. unfold lower in *. cbn [map title_from].
  specialize (A c). apply andb_true_iff in A as [A A3]. apply andb_true_iff in A as [A1 A2].
  apply beq_eq in A1, A2. apply Bool.eqb_prop in A3. rewrite A1, A2, A3, IH. reflexivity.
Qed.

Lemma canon_lower k : canon (lower k) = canon k.
Proof. unfold canon, title. rewrite title_from_lower. reflexivity. Qed.

(* a canonical key is determined by its lower-case spelling *)
Lemma canon_key_eq k K : name_canon k = true -> name_canon K = true -> bytes_eqb (lower k) (lower K) = bytes_eqb k K.
Proof.
  unfold name_canon. intros Hk HK. apply bytes_eqb_eq in Hk, HK.
  destruct (bytes_eqb k K) eqn:E.
  - apply bytes_eqb_eq in E. subst. apply bytes_eqb_refl.
  - destruct (bytes_eqb (lower k) (lower K)) eqn:E2; [|reflexivity].
    apply bytes_eqb_eq in E2. rewrite <- Hk, <- HK, <- (canon_lower k), <- (canon_lower K), E2, bytes_eqb_refl in E. discriminate.
Qed.

(* ---------------------------------------------------------------- sorting is a permutation *)
Lemma insert_item_perm x l : Permutation (insert_item x l) (x :: l).
Proof.
  induction l as [|y l IH]; cbn [insert_item]; [reflexivity|].
  destruct (bytes_ltb _ _); [|reflexivity]. rewrite IH. apply perm_swap.
Qed.
Lemma sort_items_perm l : Permutation (sort_items l) l.
Proof.
  induction l as [|x l IH]; cbn [sort_items fold_right]; [reflexivity|].
  rewrite insert_item_perm. constructor. exact IH.
Qed.

Lemma filter_perm {A} (f : A -> bool) l l' : Permutation l l' -> Permutation (filter f l) (filter f l').
Proof.
  induction 1; cbn [filter].
  - reflexivity.
  - destruct (f x); [constructor|]; assumption.
  - destruct (f x), (f y); try reflexivity. apply perm_swap.
  - etransitivity; eassumption.
Qed.

Lemma forallb_perm {A} (f : A -> bool) l l' : Permutation l l' -> forallb f l = forallb f l'.
Proof.
  induction 1; cbn [forallb]; [reflexivity | rewrite IHPermutation; reflexivity | | congruence].
  destruct (f x), (f y); reflexivity.
Qed.

(* ---------------------------------------------------------------- Headers.compose read back by the independent reader *)
Definition lsplit_clean (C : ccallees) : Prop :=
  forall k v, rd_no_crlf v = true -> forallb rd_no_crlf (cc_lsplit C k v) = true.

Lemma field_line_ser kv : field_line kv = ser_field kv.
Proof. reflexivity. Qed.

Lemma items_ok C h : lsplit_clean C -> hdrs_ok h = true -> forallb field_ok (flat_map (items_of C) h) = true.
Proof.
  intros HC H. unfold hdrs_ok in H. apply andb_true_iff in H as [H _].
  induction h as [|[k v] h IH]; [reflexivity|]. cbn [forallb] in H. apply andb_true_iff in H as [Hkv Hh].
  cbn [flat_map]. rewrite forallb_app, (IH Hh), andb_true_r.
  unfold kv_ok in Hkv. cbn [fst snd] in Hkv. apply andb_true_iff in Hkv as [Hkv _]. apply andb_true_iff in Hkv as [Hk Hv].
  unfold items_of. cbn [fst snd]. destruct (mem_bytes k HEADER_LIST_ELEMENTS).
  - specialize (HC k v Hv). induction (cc_lsplit C k v) as [|x xs IHx]; [reflexivity|].
    cbn [forallb] in HC. apply andb_true_iff in HC as [Hx Hxs]. cbn [map forallb]. unfold field_ok at 1. cbn [fst snd].
    rewrite Hk, Hx. exact (IHx Hxs).
  - cbn [forallb]. unfold field_ok. cbn [fst snd]. rewrite Hk, Hv. reflexivity.
Qed.

Lemma concat_lines_length (items : list (bytes * bytes)) : (List.length items <= List.length (concat_bytes (map ser_field items)))%nat.
Proof.
  induction items as [|kv items IH]; [cbn; lia|]. cbn [map concat_bytes List.length]. rewrite app_length.
  unfold ser_field at 1. rewrite !app_length. unfold CRLF. cbn [List.length]. lia.
Qed.

Lemma hcompose_read C h rest : lsplit_clean C -> hdrs_ok h = true ->
  rd_fields (S (List.length (hcompose C h ++ rest))) (hcompose C h ++ rest) =
    Some (map read_field (sort_items (flat_map (items_of C) h)), rest).
Proof.
  intros HC H. unfold hcompose. rewrite <- app_assoc.
  rewrite (map_ext _ ser_field field_line_ser).
  apply rd_fields_ser.
  - rewrite (forallb_perm _ _ _ (sort_items_perm _)). apply items_ok; assumption.
  - rewrite app_length. pose proof (concat_lines_length (sort_items (flat_map (items_of C) h))). lia.
Qed.

Lemma filter_map_comm {A B} (p : B -> bool) (g : A -> B) l : filter p (map g l) = map g (filter (fun x => p (g x)) l).
Proof. induction l as [|x l IH]; [reflexivity|]. cbn [map filter]. destruct (p (g x)); cbn [map]; rewrite IH; reflexivity. Qed.

Lemma filter_items C (p : bytes -> bool) h :
  (forall k, mem_bytes k HEADER_LIST_ELEMENTS = true -> p k = false) ->
  filter (fun kv => p (fst kv)) (flat_map (items_of C) h) = filter (fun kv => p (fst kv)) h.
Proof.
  intros Hp. induction h as [|[k v] h IH]; [reflexivity|]. cbn [flat_map]. rewrite filter_app, IH. cbn [filter fst].
  unfold items_of. cbn [fst snd]. destruct (mem_bytes k HEADER_LIST_ELEMENTS) eqn:E.
  - rewrite (Hp k E). induction (cc_lsplit C k v) as [|x xs IHx]; [reflexivity|]. cbn [map filter fst]. rewrite (Hp k E). exact IHx.
  - cbn [filter fst app]. destruct (p k); reflexivity.
Qed.

(* the values the reader finds under a (case-insensitively matched) name are the value stored under the canonical key *)
Lemma composed_values C K h : name_canon K = true ->
  (forall k, mem_bytes k HEADER_LIST_ELEMENTS = true -> bytes_eqb (lower k) (lower K) = false) ->
  hdrs_ok h = true ->
  rd_values (lower K) (map read_field (sort_items (flat_map (items_of C) h))) =
    match hget K h with Some v => [rd_trim (SP :: v)] | None => [] end.
Proof.
  intros HK HL H. unfold rd_values. rewrite filter_map_comm. cbn [read_field fst].
  set (p := fun k => bytes_eqb (lower k) (lower K)).
  assert (E : filter (fun kv : bytes * bytes => p (fst kv)) (flat_map (items_of C) h) = match hget K h with Some v => [(K, v)] | None => [] end).
  { rewrite (filter_items C p h HL). unfold hdrs_ok in H. apply andb_true_iff in H as [H1 H2].
    rewrite <- (filter_key K h H2). apply filter_ext_in. intros kv Hin. unfold p.
    rewrite forallb_forall in H1. specialize (H1 kv Hin). unfold kv_ok in H1. apply andb_true_iff in H1 as [_ H1].
    apply canon_key_eq; assumption. }
  pose proof (filter_perm (fun kv : bytes * bytes => p (fst kv)) _ _ (sort_items_perm (flat_map (items_of C) h))) as P.
  rewrite E in P. change (fun x : bytes * bytes => bytes_eqb (lower (fst x)) (lower K)) with (fun kv : bytes * bytes => p (fst kv)).
  destruct (hget K h) as [v|].
  - apply Permutation_sym, Permutation_length_1_inv in P. rewrite P. reflexivity.
  - apply Permutation_sym, Permutation_nil in P. rewrite P. reflexivity.
Qed.

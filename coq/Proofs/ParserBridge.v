(* C01 on the parser model, part C: on a run in which the implementation never selects the bare-LF line
   end and never raises the 411 peek ([quiet_run], both observable on the real parser), the implementation's
   machine [real] IS the eager reference machine; hence the fragmentation statement for [real]. *)
From Coq Require Import ZArith.
From Httoop Require Import Model.Parser Proofs.SplitP Proofs.HeadersP Proofs.ParserEsc Proofs.ParserFuel Proofs.ParserFraming Proofs.ParserFrag Proofs.ParserSim.
Local Open Scope N_scope.

Section Bridge.
Variable C : callees.
Variable k : kind.
Notation E := eager_reference.

Lemma obc_real i b : on_body_complete real C k i b = inr EPeek411 \/ on_body_complete real C k i b = on_body_complete E C k i b.
Proof.
  unfold on_body_complete. cbn [peek411 real eager_reference andb].
  destruct k; [|right; reflexivity].
  destruct (nonempty_b b && negb (hmem K_CL (i_hdrs i)) && negb (i_chunked i)); [left | right]; reflexivity.
Qed.

Lemma after_headers_real i b : after_headers real C k i b = TErr EPeek411 \/ after_headers real C k i b = after_headers E C k i b.
Proof.
  rewrite (after_headers_eq real C k i b), (after_headers_eq E C k i b).
  destruct (parse_body C i b) as [i' b'|i' b'|e]; try (right; reflexivity).
  destruct (obc_real i' b') as [-> | ->]; [left | right]; reflexivity.
Qed.

Lemma after_startline_real i b : after_startline real C k i b = TErr EPeek411 \/ after_startline real C k i b = after_startline E C k i b.
Proof.
  rewrite (after_startline_eq real C k i b), (after_startline_eq E C k i b).
  destruct (i_phase i); [|apply after_headers_real].
  change (parse_headers real (i_le i) (i_hdrs i) b) with (parse_headers E (i_le i) (i_hdrs i) b).
  destruct (parse_headers E (i_le i) (i_hdrs i) b) as [h b'|h b'|e]; try (right; reflexivity).
  destruct (on_headers_complete C k (set_phase (set_hdrs i h) PBody)); [apply after_headers_real | right; reflexivity].
Qed.

Lemma turn_real s : quiet_turn C k s = true -> turn_of real C k s = turn_of E C k s.
Proof.
  unfold quiet_turn. intros H. apply andb_true_iff in H as [H1 H2]. apply negb_true_iff in H1, H2.
  revert H1 H2. unfold lf_select. rewrite (turn_of_eq real C k s), (turn_of_eq E C k s).
  destruct (cur s) as [i|].
  - intros _ H2. destruct (after_startline_real i (buf s)) as [Ep | Eq]; [rewrite Ep in H2; discriminate | exact Eq].
  - intros H1.
    assert (PS : parse_startline real C (buf s) = parse_startline E C (buf s)).
    { unfold parse_startline. cbn [allow_lf real eager_reference andb].
      destruct (contains CRLF (buf s)); [reflexivity|]. cbn [negb andb] in H1. rewrite H1. reflexivity. }
    rewrite PS. destruct (parse_startline E C (buf s)) as [a x'|[[line le] info] rest|e]; try reflexivity.
    intros H2. match goal with |- after_startline real C k ?i ?b = _ => destruct (after_startline_real i b) as [Ep | Eq] end;
    [rewrite Ep in H2; discriminate | exact Eq].
Qed.

Lemma loop_real F : forall s acc, quiet_loop C k F s = true -> loop real C k F s acc = loop E C k F s acc.
Proof.
  induction F as [|f IH]; intros s acc; cbn [loop quiet_loop]; [reflexivity|].
  destruct (buf s); [reflexivity|]. intros H. apply andb_true_iff in H as [H1 H2].
  rewrite <- (turn_real s H1). destruct (turn_of real C k s); try reflexivity. apply IH, H2.
Qed.

Lemma parse_real s d : quiet_parse C k s d = true -> parse real C k s d = parse E C k s d.
Proof. unfold quiet_parse, parse. apply loop_real. Qed.

Theorem run_real frags : forall s, quiet_run C k s frags = true -> run_keep real C k s frags = run_keep E C k s frags.
Proof.
  induction frags as [|f fr IH]; intros s; cbn [quiet_run run_keep]; [reflexivity|].
  intros H. apply andb_true_iff in H as [H1 H2]. rewrite <- (parse_real s f H1).
  destruct (parse real C k s f) as [[s1 m1] [e|]]; [reflexivity|]. rewrite (IH s1 H2). reflexivity.
Qed.

(* ---------- the fragmentation statement ---------- *)
(* two results are equivalent for C01: same completed messages; same first error, or one run has refused an
   invalid header line with 400 while the other still waits inside that unfinished header section (D34);
   and when neither has an error and no message is in progress, the same state (octets left over) *)
Definition in_header_section (s : pstate) : Prop := exists i, cur s = Some i /\ i_phase i = PHeaders.
Definition frag_equiv (r1 r2 : pstate * list msg * option err) : Prop :=
  let '(s1, m1, e1) := r1 in let '(s2, m2, e2) := r2 in
  m1 = m2 /\
  (e1 = e2 \/ (e1 = None /\ e2 = Some (EHttp 400) /\ in_header_section s1) \/ (e2 = None /\ e1 = Some (EHttp 400) /\ in_header_section s2)) /\
  (e1 = None -> e2 = None -> cur s1 = None -> s1 = s2).

Lemma Rst_idle se1 se2 sl : Rst se1 sl -> Rst se2 sl -> cur se1 = None -> se1 = se2.
Proof.
  unfold Rst. intros R1 R2 C1. rewrite C1 in R1. destruct (cur sl) as [il|] eqn:Cl; [contradiction|].
  destruct (cur se2) as [i2|] eqn:C2; [contradiction|]. destruct se1, se2. cbn in *. congruence.
Qed.

Lemma Rst_doomed_header se sl : Rst se sl -> doomed sl -> in_header_section se.
Proof.
  unfold Rst, in_header_section. intros R (il & HS' & x' & Cl & Hph & _). rewrite Cl in R.
  destruct (cur se) as [ie|] eqn:Ce; [|contradiction]. exists ie. split; [reflexivity|].
  destruct R as [(Hb & -> & _) | (Hh & _)]; [congruence | exact Hh].
Qed.

Theorem eager_fragmentation frags1 frags2 : concat_bytes frags1 = concat_bytes frags2 ->
  frag_equiv (run_keep E C k init frags1) (run_keep E C k init frags2).
Proof.
  intros Ec.
  pose proof (fragmentation_independent reference C k eq_refl eq_refl eq_refl frags1 frags2 Ec) as EA.
  assert (R0 : Rst init init) by reflexivity.
  pose proof (run_sim C k frags1 init init R0 I I) as S1. pose proof (run_sim C k frags2 init init R0 I I) as S2.
  rewrite <- EA in S2.
  destruct (run_keep reference C k init frags1) as [[sl ms] [e|]].
  - rewrite S1, S2. unfold frag_equiv. repeat split; auto; try (intros; discriminate).
  - destruct S1 as [(se1 & -> & R1) | [-> D1]], S2 as [(se2 & -> & R2) | [-> D2]]; unfold frag_equiv.
    + repeat split; auto. intros _ _ C1. eapply Rst_idle; eauto.
    + repeat split; auto; try (intros; discriminate). right; left; repeat split; auto; eapply Rst_doomed_header; eauto.
    + repeat split; auto; try (intros; discriminate). right; right; repeat split; auto; eapply Rst_doomed_header; eauto.
    + repeat split; auto; try (intros; discriminate).
Qed.

(* C01 for the implementation's machine, on runs that are quiet (no LF-mode selection, no 411 peek) *)
Theorem real_fragmentation frags1 frags2 : concat_bytes frags1 = concat_bytes frags2 ->
  quiet_run C k init frags1 = true -> quiet_run C k init frags2 = true ->
  frag_equiv (run_keep real C k init frags1) (run_keep real C k init frags2).
Proof.
  intros Ec Q1 Q2. rewrite (run_real frags1 init Q1), (run_real frags2 init Q2). apply eager_fragmentation, Ec.
Qed.

(* what parse() actually hands out: the erroring call returns nothing (tuple(generator) is discarded) *)
Lemma feed_vs_keep cfg frags : forall s,
  let '(s1, handed, e1) := feed cfg C k s frags in
  let '(s2, completed, e2) := run_keep cfg C k s frags in
  e1 = e2 /\ (e1 = None -> handed = completed /\ s1 = s2) /\ exists dropped, completed = handed ++ dropped.
Proof.
  induction frags as [|f fr IH]; intros s; cbn [feed run_keep].
  - repeat split; auto. exists []. reflexivity.
  - destruct (parse cfg C k s f) as [[s1 m1] [e|]].
    + repeat split; auto; try (intros; discriminate). exists m1. reflexivity.
    + specialize (IH s1). destruct (feed cfg C k s1 fr) as [[sa ha] ea], (run_keep cfg C k s1 fr) as [[sb cb] eb].
      destruct IH as (E1 & E2 & dropped & E3). split; [exact E1|]. split.
      * intros En. destruct (E2 En) as [-> ->]. auto.
      * exists dropped. rewrite E3, app_assoc. reflexivity.
Qed.

(* whatever one parse() call on the whole stream delivers while ending idle, every fragmentation of that stream delivers:
   on the reference machine always, on the machine as implemented whenever the run is quiet *)
Theorem whole_call_any_fragmentation wire ms frags :
  parse reference C k init wire = (init, ms, None) -> concat_bytes frags = wire ->
  run_keep reference C k init frags = (init, ms, None) /\
  (quiet_run C k init frags = true -> run_keep real C k init frags = (init, ms, None)).
Proof.
  intros P Ec.
  assert (RL : run_keep reference C k init frags = (init, ms, None)).
  { rewrite (run_keep_is_one_call reference C k eq_refl eq_refl eq_refl frags init); [| apply init_quiescent | exact I | exact I].
    rewrite Ec. exact P. }
  split; [exact RL|]. intros Q. rewrite (run_real frags init Q).
  assert (R0 : Rst init init) by reflexivity.
  pose proof (run_sim C k frags init init R0 I I) as S. rewrite RL in S.
  destruct S as [(se' & Ee & R) | (_ & D)].
  - rewrite Ee. f_equal. f_equal. unfold Rst in R. change (cur init) with (@None inflight) in R.
    destruct se' as [b c]. cbn [cur buf] in R. destruct c as [i|]; [contradiction|]. cbn in R. subst b. reflexivity.
  - exfalso. destruct D as (il & HS' & x' & Cu & _). discriminate.
Qed.

End Bridge.

(* C06 on the parser model: the request-target model plugged into the state machine of Model/Parser.v.
   For every callee record whose start-line callee and header hook are the ones of Model/ServerTarget.v
   (hypotheses [start_tied], [hdrs_tied]; [plug] builds such a record from any other), every request delivered by
   any sequence of parse() calls on any stream went through server_target and apply_host: an invariant of all
   reachable states, proved like the framing invariant of C07. *)
From Coq Require Import ZArith.
From Httoop Require Import Model.Parser Proofs.SplitP Proofs.HeadersP Proofs.ParserEsc Proofs.ParserFraming.
From Httoop Require Model.StartLine Model.UriNorm Model.ServerTarget Proofs.ServerTarget.
Local Open Scope N_scope.

Module ST := Httoop.Model.ServerTarget.
Module STP := Httoop.Proofs.ServerTarget.

Section Compose.
Variable cfg : config.
Variable C : callees.

(* ---- the body phase never touches the request line, the start-line information or the phase ---- *)
Definition meta_eq (i i' : inflight) : Prop :=
  i_line i' = i_line i /\ i_info i' = i_info i /\ i_phase i' = i_phase i.

Lemma parse_body_meta i b i' b' :
  parse_body C i b = Need i' b' \/ parse_body C i b = Done i' b' -> meta_eq i i'.
Proof.
  unfold parse_body.
  set (r := match i_len i, i_chunked i with None, false => determine C i | _, _ => inl i end).
  assert (R : match r with inl i1 => meta_eq i i1 | inr _ => True end).
  { unfold r. destruct (i_len i) as [n|] eqn:L; [unfold meta_eq; auto|].
    destruct (i_chunked i) eqn:Ch; [unfold meta_eq; auto|].
    destruct (determine C i) as [i1|e] eqn:D; [|exact I].
    destruct (determine_spec C i i1 Ch D) as (A & B & P & _). unfold meta_eq. auto. }
  destruct r as [i1|e]; [|intros [H|H]; discriminate].
  destruct R as (R1 & R2 & R3).
  destruct (i_chunked i1).
  - intros H. apply (chunks_meta C) in H. destruct H as (A & B & P & _). unfold meta_eq. split; [|split]; congruence.
  - destruct (i_len i1) as [[|len]|] eqn:L.
    + intros [H|H]; [discriminate|]. injection H as <- _. unfold meta_eq. auto.
    + intros H. destruct (body_with_length_spec i1 (N.pos len) b ltac:(lia)) as [_ S].
      destruct (S i' b' H) as (A & B & P & _). unfold meta_eq. split; [|split]; congruence.
    + intros [H|H]; [discriminate|]. injection H as <- _. unfold meta_eq. auto.
Qed.

Lemma on_body_complete_line k i b m : on_body_complete cfg C k i b = inl m -> m_line m = i_line i.
Proof.
  unfold on_body_complete. intros H. repeat dmatch; try discriminate; injection H as <-; reflexivity.
Qed.

(* ---- the invariant ---- *)
Definition checked (info : slinfo) : Prop :=
  exists h0, c_hdrs C (p11 info) h0 = HOk /\ (p11 info = true -> hmem K_HOST h0 = true).
Definition Kinv (i : inflight) : Prop :=
  c_start C (i_line i) = SlOk (i_info i) /\ (i_phase i = PBody -> checked (i_info i)).
Definition Kst (s : pstate) : Prop := match cur s with Some i => Kinv i | None => True end.
Definition passed (m : msg) : Prop := exists info, c_start C (m_line m) = SlOk info /\ checked info.

Lemma after_headers_K i b : i_phase i = PBody -> Kinv i ->
  match after_headers cfg C Server i b with
  | TBlocked s' => Kst s'
  | TMsg s' m => Kst s' /\ passed m
  | TErr _ => True
  end.
Proof.
  intros Ph (K1 & K2). unfold after_headers.
  destruct (parse_body C i b) as [i' b'|i' b'|e] eqn:PB; [| |exact I].
  - destruct (parse_body_meta i b i' b' (or_introl PB)) as (A & B & P).
    unfold Kst, Kinv. cbn. rewrite A, B, P. split; [exact K1 | exact K2].
  - destruct (parse_body_meta i b i' b' (or_intror PB)) as (A & B & P).
    destruct (on_body_complete cfg C Server i' b') as [m|e] eqn:O; [|exact I].
    split; [exact I|]. apply on_body_complete_line in O. exists (i_info i). rewrite O, A. split; [exact K1 | exact (K2 Ph)].
Qed.

Lemma on_headers_complete_checked i i' : on_headers_complete C Server i = inl i' ->
  i' = set_ce i (hget K_CE (i_hdrs i)) /\ checked (i_info i).
Proof.
  intros H. split; [pose proof H as H2; apply on_headers_complete_spec in H2; rewrite H2; destruct i; reflexivity|].
  unfold on_headers_complete in H.
  destruct (p11 (i_info i) && negb (hmem K_HOST (i_hdrs i))) eqn:E; [discriminate|].
  destruct (c_hdrs C (p11 (i_info i)) (i_hdrs i)) eqn:HC; try discriminate.
  exists (i_hdrs i). split; [exact HC|]. intros P. rewrite P in E. cbn in E. apply negb_false_iff in E. exact E.
Qed.

Lemma after_startline_K i b : Kinv i ->
  match after_startline cfg C Server i b with
  | TBlocked s' => Kst s'
  | TMsg s' m => Kst s' /\ passed m
  | TErr _ => True
  end.
Proof.
  intros (K1 & K2). unfold after_startline. destruct (i_phase i) eqn:Ph.
  - destruct (parse_headers cfg (i_le i) (i_hdrs i) b) as [h b'|h b'|e]; [| |exact I].
    + unfold Kst, Kinv. cbn. rewrite Ph. split; [exact K1 | discriminate].
    + destruct (on_headers_complete C Server _) as [i1|e1] eqn:O; [|exact I].
      apply on_headers_complete_checked in O as [-> Ck]. cbn in Ck.
      apply after_headers_K; [reflexivity|]. unfold Kinv. cbn. split; [exact K1 | intros _; exact Ck].
  - apply after_headers_K; [exact Ph | split; [exact K1 | intros _; exact (K2 eq_refl)]].
Qed.

Lemma turn_K s : Kst s ->
  match turn_of cfg C Server s with
  | TBlocked s' => Kst s'
  | TMsg s' m => Kst s' /\ passed m
  | TErr _ => True
  end.
Proof.
  unfold Kst at 1, turn_of. destruct (cur s) as [i|] eqn:Cu; intros Hk.
  - apply after_startline_K, Hk.
  - unfold parse_startline.
    destruct (if contains CRLF (buf s) then Some LE_CRLF else if allow_lf cfg && contains [LF] (buf s) then Some LE_LF else None) as [le|].
    2:{ unfold Kst. rewrite Cu. exact I. }
    destruct (cut (le_bytes le) (buf s)) as [[line rest]|]; [|exact I].
    destruct (c_start C line) as [info|c| |] eqn:CS; try exact I.
    apply after_startline_K. unfold Kinv. cbn. split; [exact CS | discriminate].
Qed.

Lemma loop_K fuel : forall s acc, Kst s -> Forall passed acc ->
  match loop cfg C Server fuel s acc with (s', ms, _) => Kst s' /\ Forall passed ms end.
Proof.
  induction fuel as [|f IH]; intros s acc Hk Ha; cbn [loop].
  - destruct (buf s); split; auto; try exact I; apply Forall_rev; exact Ha.
  - destruct (buf s); [split; [exact Hk | apply Forall_rev; exact Ha]|].
    pose proof (turn_K s Hk) as T. destruct (turn_of cfg C Server s) as [s'|s' m|e].
    + split; [exact T | apply Forall_rev; exact Ha].
    + destruct T as [T1 T2]. apply IH; [exact T1 | constructor; assumption].
    + split; [exact I | apply Forall_rev; exact Ha].
Qed.

Lemma parse_K s data : Kst s ->
  match parse cfg C Server s data with (s', ms, _) => Kst s' /\ Forall passed ms end.
Proof. intros Hk. unfold parse. apply loop_K; [exact Hk | constructor]. Qed.

Theorem feed_passed frags : forall s, Kst s ->
  match feed cfg C Server s frags with (_, ms, _) => Forall passed ms end.
Proof.
  induction frags as [|f fr IH]; intros s Hk; cbn [feed]; [constructor|].
  pose proof (parse_K s f Hk) as P. destruct (parse cfg C Server s f) as [[s' ms] [e|]].
  - constructor.
  - destruct P as [P1 P2]. specialize (IH s' P1). destruct (feed cfg C Server s' fr) as [[s2 ms2] oe].
    apply Forall_app. split; assumption.
Qed.

(* ---- the request-target model plugged in ---- *)
Variable valid : bytes -> bool.
Variable inet4 inet6 : bytes -> option bytes.
Variable idna_dec idna_enc : bytes -> option bytes.
Variable lower : bytes -> bytes.
Variable helem : bytes -> ST.elres.
Variable udigits : bytes -> option (option Z).
Variable iv vq vu v7 vn vl : Variant.variant.
Variable dscheme dhost : bytes.
Variable dport : option N.

Notation starget := (ST.server_target valid inet4 inet6 idna_dec idna_enc lower iv vq vu v7 vn vl dscheme dhost dport).
Notation ahost := (ST.apply_host inet4 inet6 lower helem udigits).
Notation rhead := (ST.request_head valid inet4 inet6 idna_dec idna_enc lower helem udigits iv vq vu v7 vn vl dscheme dhost dport).

(* the start-line callee is Request.parse + the hooks of on_startline_complete as modelled ... *)
Definition start_tied : Prop := forall line info, c_start C line = SlOk info ->
  exists u m v, starget line = ST.Deliver u m v /\ p11 info = ST.p11_of v.
(* ... and the header hook does not succeed unless set_request_uri_host does (the Host-present check is the parser model's own) *)
Definition hdrs_tied : Prop := forall p h, c_hdrs C p h = HOk ->
  forall u, exists u', ahost false (hget K_HOST h) u = ST.HostOk u'.

(* a delivered request: its line and the header block seen by on_headers_complete went through request_head *)
Definition sanitised (m : msg) : Prop :=
  exists h0 u mm v, rhead (m_line m) (hget K_HOST h0) = ST.FDeliver u mm v.

Lemma apply_host_p11 hostv u u' : hostv <> None -> ahost false hostv u = ST.HostOk u' -> ahost true hostv u = ST.HostOk u'.
Proof. destruct hostv as [raw|]; [intros _ H; exact H | congruence]. Qed.

Lemma passed_sanitised m : start_tied -> hdrs_tied -> passed m -> sanitised m.
Proof.
  intros ST1 HT (info & CS & h0 & HC & HM).
  destruct (ST1 _ _ CS) as (u & mm & v & S & P).
  destruct (HT _ _ HC u) as (u' & A).
  exists h0, u', mm, v. unfold ST.request_head. rewrite S.
  destruct (ST.p11_of v) eqn:PV.
  - rewrite P in HM. specialize (HM eq_refl). unfold hmem in HM.
    destruct (hget K_HOST h0) as [raw|] eqn:G; [|discriminate].
    rewrite (apply_host_p11 (Some raw) u u' ltac:(discriminate) A). reflexivity.
  - rewrite A. reflexivity.
Qed.

Theorem feed_sanitised frags : start_tied -> hdrs_tied ->
  match feed cfg C Server init frags with (_, ms, _) => Forall sanitised ms end.
Proof.
  intros ST1 HT. pose proof (feed_passed frags init I) as H.
  destruct (feed cfg C Server init frags) as [[s ms] oe].
  eapply Forall_impl; [|exact H]. intros m. apply passed_sanitised; assumption.
Qed.

(* ---- a callee record with the model plugged in, built from any record ---- *)
Definition start_callee (line : bytes) : slres :=
  match starget line with
  | ST.Deliver u m v => SlOk {| p11 := ST.p11_of v; nobody := nobody (match c_start C line with SlOk i => i | _ => {| p11 := false; nobody := false |} end) |}
  | ST.Redirect301 _ _ => SlErr 301
  | ST.Bad400 => SlErr 400
  | ST.V505 => SlErr 505
  | ST.Escape => SlEscape
  end.
Definition some_uri : UriNorm.nuri := UriNorm.U None [] [] [] [] None [] [] [].
Definition hdrs_callee (p : bool) (h : hdrs) : hres :=
  match ahost false (hget K_HOST h) some_uri with
  | ST.HostOk _ => c_hdrs C p h
  | ST.HostBad400 => HErr 400
  | ST.HostEscape => HEscape
  end.
Definition plug : callees :=
  {| c_start := start_callee; c_hdrs := hdrs_callee; c_decode := c_decode C; c_2047 := c_2047 C; c_trailer := c_trailer C; c_connect := c_connect C |}.

Lemma host_port_set_indep d1 d2 pz p : ST.host_port_set d1 pz = UriSyntax.Ok p -> exists p', ST.host_port_set d2 pz = UriSyntax.Ok p'.
Proof.
  unfold ST.host_port_set. destruct pz as [z|]; [|eexists; reflexivity].
  destruct (z =? 0)%Z; [eexists; reflexivity|]. intros H. eexists. exact H.
Qed.

Lemma apply_host_indep p hv u1 u1' u2 : ahost p hv u1 = ST.HostOk u1' -> exists u2', ahost p hv u2 = ST.HostOk u2'.
Proof.
  unfold ST.apply_host. destruct hv as [raw|].
  - destruct (helem raw) as [text| |]; try discriminate.
    destruct (ST.host_sanitize inet4 inet6 lower udigits text) as [[h pz]|]; [|discriminate].
    destruct (ST.host_port_set (UriNorm.u_dport u1) pz) as [q|e] eqn:P; [|discriminate]. intros _.
    destruct (host_port_set_indep _ (UriNorm.u_dport u2) _ _ P) as (q' & ->). eexists. reflexivity.
  - destruct p; [discriminate|]. intros _. eexists. reflexivity.
Qed.

End Compose.

(* the plugged record satisfies both ties, whatever record it is built from *)
Lemma plug_tied cfgC valid inet4 inet6 idna_dec idna_enc lower helem udigits iv vq vu v7 vn vl dscheme dhost dport :
  let P := plug cfgC valid inet4 inet6 idna_dec idna_enc lower helem udigits iv vq vu v7 vn vl dscheme dhost dport in
  start_tied P valid inet4 inet6 idna_dec idna_enc lower iv vq vu v7 vn vl dscheme dhost dport /\
  hdrs_tied P inet4 inet6 lower helem udigits.
Proof.
  cbn zeta. split.
  - intros line info H. cbn [plug c_start] in H. unfold start_callee in H.
    destruct (ST.server_target _ _ _ _ _ _ _ _ _ _ _ _ _ _ _ line) as [u m v| | | |] eqn:S; try discriminate.
    injection H as <-. exists u, m, v. split; reflexivity.
  - intros p h H u. cbn [plug c_hdrs] in H. unfold hdrs_callee in H.
    destruct (ST.apply_host inet4 inet6 lower helem udigits false (hget K_HOST h) some_uri) as [u1| |] eqn:A; try discriminate.
    eapply apply_host_indep. exact A.
Qed.

(* ================================================================ the headline statement *)
Definition uri_ok (u : UriNorm.nuri) : Prop :=
  ST.path_ok (UriNorm.u_path u) /\
  (UriNorm.u_scheme u = ST.S_HTTP_ST \/ UriNorm.u_scheme u = ST.S_HTTPS_ST) /\
  UriNorm.u_user u = [] /\ UriNorm.u_pass u = [] /\ UriNorm.u_frag u = [].

Theorem delivered_uri :
  forall (cfg : config) (C : callees)
         (valid : bytes -> bool) (inet4 inet6 idna_dec idna_enc : bytes -> option bytes) (lower : bytes -> bytes)
         (helem : bytes -> ST.elres) (udigits : bytes -> option (option Z)) (iv vq vu v7 vn vl : Variant.variant)
         (dscheme dhost : bytes) (dport : option N) (frags : list bytes),
  start_tied C valid inet4 inet6 idna_dec idna_enc lower iv vq vu v7 vn vl dscheme dhost dport ->
  hdrs_tied C inet4 inet6 lower helem udigits ->
  ST.http_scheme dscheme = true ->
  match feed cfg C Server init frags with
  | (_, ms, _) =>
      Forall (fun m => exists h0 u mm v,
                ST.request_head valid inet4 inet6 idna_dec idna_enc lower helem udigits iv vq vu v7 vn vl dscheme dhost dport
                                (m_line m) (hget K_HOST h0) = ST.FDeliver u mm v /\ uri_ok u) ms
  end.
Proof.
  intros until frags. intros T1 T2 D.
  pose proof (feed_sanitised cfg C valid inet4 inet6 idna_dec idna_enc lower helem udigits iv vq vu v7 vn vl dscheme dhost dport frags T1 T2) as H.
  destruct (feed cfg C Server init frags) as [[s ms] oe].
  eapply Forall_impl; [|exact H]. intros m (h0 & u & mm & v & R). exists h0, u, mm, v. split; [exact R|].
  unfold uri_ok. split; [eapply STP.final_path; exact R|]. split; [eapply STP.final_scheme; [exact D | exact R]|].
  eapply STP.final_no_userinfo_fragment; exact R.
Qed.

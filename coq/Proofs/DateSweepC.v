(* shard of the 400-year cycle sweep: days of the era [73050, 109575) *)
From Coq Require Import ZArith Bool.
From Httoop Require Import Model.DateCal Proofs.DateSweep.
Local Open Scope Z_scope.

Lemma cycle_shard_C : forall doe, 73050 <= doe < 109575 -> cyc_ok doe = true.
Proof. apply zsweep_range. vm_compute. reflexivity. Qed.

(* C14: content codings through the body object and through the wire; json / text/plain wrappers.
   gzip, zlib, json and the charset codecs are Section variables; the theorems state what they assume. *)
From Coq Require Import Arith.Wf_nat Arith.PeanoNat.
From Httoop Require Import Lib.Bytes Lib.Split Lib.Variant Proofs.SplitP Proofs.CodecsSplit Model.Codecs.
Local Open Scope N_scope.

Set Default Proof Using "Type".

(* ------------------------------------------------------------------ pieces *)
Lemma pieces_f_fuel n : forall f1 f2 d, (length d <= f1)%nat -> (length d <= f2)%nat -> pieces_f f1 n d = pieces_f f2 n d.
Proof.
  induction f1 as [|f1 IH]; intros f2 d H1 H2.
  - destruct d; [|cbn in H1; lia]. destruct f2; reflexivity.
  - destruct f2 as [|f2]; [destruct d; [reflexivity | cbn in H2; lia]|].
    cbn [pieces_f]. destruct d as [|c d]; [reflexivity|].
    destruct (firstn n (c :: d)) as [|x p] eqn:E; [reflexivity|]. f_equal.
    assert (length (skipn n (c :: d)) < length (c :: d))%nat.
    { rewrite skipn_length. destruct n; [discriminate E|]. cbn [length]. lia. }
    cbn [length] in *. apply IH; lia.
Qed.

Lemma pieces_nil n : pieces n [] = [].
Proof. reflexivity. Qed.

Lemma pieces_cons n d : n <> 0%nat -> d <> [] -> pieces n d = firstn n d :: pieces n (skipn n d).
Proof.
  intros Hn Hd. unfold pieces. destruct d as [|c d]; [congruence|].
  cbn [length pieces_f]. destruct (firstn n (c :: d)) as [|x p] eqn:E.
  - destruct n; [congruence | discriminate E].
  - f_equal. apply pieces_f_fuel; [|lia]. rewrite skipn_length. destruct n; [congruence|]. cbn [length]. lia.
Qed.

Lemma pieces_concat_f n : n <> 0%nat -> forall fuel d, (length d <= fuel)%nat -> concat_bytes (pieces n d) = d.
Proof.
  intros Hn fuel; induction fuel as [|fuel IH]; intros d H.
  - destruct d; [reflexivity | cbn in H; lia].
  - destruct d as [|c d]; [reflexivity|]. rewrite pieces_cons by (assumption || discriminate).
    cbn [concat_bytes]. rewrite IH.
    + apply firstn_skipn.
    + rewrite skipn_length. destruct n; [congruence|]. cbn [length] in *. lia.
Qed.

(* b''.join(Body) is the content *)
Theorem pieces_concat n d : n <> 0%nat -> concat_bytes (pieces n d) = d.
Proof. intros Hn. apply (pieces_concat_f n Hn (length d)). lia. Qed.

(* a body that fits into one piece is one piece *)
Lemma pieces_one n d : d <> [] -> (length d <= n)%nat -> pieces n d = [d].
Proof.
  intros Hd Hl. assert (n <> 0%nat) by (destruct d; [congruence | cbn in Hl; lia]).
  rewrite pieces_cons by assumption. rewrite firstn_all2 by exact Hl. rewrite skipn_all2 by exact Hl. reflexivity.
Qed.

(* every piece is non-empty and at most n octets *)
Theorem pieces_bounds n d : n <> 0%nat -> Forall (fun p => p <> [] /\ (length p <= n)%nat) (pieces n d).
Proof.
  intros Hn. remember (length d) as k eqn:Hk. revert d Hk. induction k as [k IH] using lt_wf_ind. intros d Hk.
  destruct d as [|c d]; [constructor|]. rewrite pieces_cons by (assumption || discriminate). constructor.
  - split; [destruct n; [congruence | discriminate] | apply firstn_le_length].
  - apply (IH (length (skipn n (c :: d)))); [|reflexivity]. subst k. rewrite skipn_length.
    destruct n; [congruence|]. cbn [length]. lia.
Qed.

Lemma max_chunk_pos : BODY_MAX_CHUNK <> 0%nat.
Proof. discriminate. Qed.

(* ------------------------------------------------------------------ content codings *)
Section CodingProofs.
Variable gz : bytes -> bytes.
Variable gunz : bytes -> option bytes.
Variable zc : bytes -> bytes.
Variable zd1 : bytes -> option bytes.
Variable zst : bytes -> option (bytes * bytes).
Variable cs_enc : bytes -> bytes.

(* hypotheses about CPython's gzip / zlib, each used only where named *)
Definition gzip_roundtrip := forall x, gunz (gz x) = Some x.
Definition gzip_members := forall xs, gunz (concat_bytes (map gz xs)) = Some (concat_bytes xs).   (* GzipFile reads every member *)
Definition zlib_first_stream := forall x r, zd1 (zc x ++ r) = Some x.       (* zlib.decompress ignores what follows the first stream *)
Definition zlib_empty_error := zd1 [] = None.
Definition zlib_stream := forall x r, zst (zc x ++ r) = Some (x, r).          (* decompressobj: output and unused_data *)
Definition zlib_nonempty := forall x, zc x <> [].

Notation zloop := (zloop zst).
Notation codec_raw := (codec_raw gunz zd1 zst).
Notation codec_decode := (codec_decode gunz zd1 zst).
Notation codec_encode := (codec_encode gz zc).
Notation body_decompress := (body_decompress gunz zd1 zst cs_enc).
Notation body_compress := (body_compress gz zc).
Notation wire_payload := (wire_payload gz zc).
Notation wire_roundtrip := (wire_roundtrip gz gunz zc zd1 zst cs_enc).

(* the repaired deflate decoder reads a sequence of streams *)
Lemma zloop_streams : zlib_stream -> zlib_nonempty -> forall xs acc fuel,
  (length (concat_bytes (map zc xs)) <= fuel)%nat ->
  zloop fuel (concat_bytes (map zc xs)) acc = Some (acc ++ concat_bytes xs).
Proof.
  intros Hs Hn xs. induction xs as [|x xs IH]; intros acc fuel Hf.
  - cbn [map concat_bytes]. destruct fuel; cbn [Codecs.zloop]; rewrite app_nil_r; reflexivity.
  - cbn [map concat_bytes] in *. destruct (zc x ++ concat_bytes (map zc xs)) as [|c r] eqn:E.
    + apply app_eq_nil in E as [E _]. destruct (Hn x E).
    + destruct fuel as [|fuel]; [cbn in Hf; lia|]. cbn [Codecs.zloop]. rewrite <- E, Hs.
      rewrite IH, <- app_assoc; [reflexivity|].
      rewrite <- E, app_length in Hf. pose proof (Hn x). destruct (zc x); [congruence|]. cbn [length] in Hf. lia.
Qed.

Lemma deflate_raw_streams vd xs :
  match vd with Repaired => zlib_stream /\ zlib_nonempty | AsFound => False end ->
  deflate_raw zd1 zst vd (concat_bytes (map zc xs)) = Some (concat_bytes xs).
Proof.
  destruct vd; [contradiction|]. intros [Hs Hn]. unfold deflate_raw. rewrite zloop_streams; auto.
Qed.

(* what the decoders return on the output of one encoder call *)
Definition callees_ok (vd : variant) : Prop :=
  gzip_roundtrip /\ match vd with
                    | AsFound => forall x, zd1 (zc x) = Some x
                    | Repaired => zlib_stream /\ zlib_nonempty
                    end.

Lemma codec_raw_encode vd c x : callees_ok vd -> codec_raw vd c (codec_encode c x) = Some x.
Proof.
  intros [Hg Hz]. destruct c; cbn [Codecs.codec_raw Codecs.codec_encode]; [apply Hg|].
  destruct vd; cbn [deflate_raw]; [apply Hz|]. destruct Hz as [Hs Hn].
  pose proof (zloop_streams Hs Hn [x] [] (length (zc x))) as H. cbn [map concat_bytes app] in H.
  rewrite !app_nil_r in H. apply H. lia.
Qed.

(* through the body object, octet-transparent decompress (D12 repaired): every octet string *)
Theorem body_coding_roundtrip vd c x : callees_ok vd ->
  body_decompress Repaired vd (Some c) (body_compress (Some c) x) = COk x.
Proof. intros H. cbn [Codecs.body_decompress Codecs.body_compress]. rewrite codec_raw_encode by exact H. reflexivity. Qed.

(* pinned tree: ASCII content in a body whose charset leaves ASCII text alone *)
Theorem body_coding_roundtrip_asfound vd c x : callees_ok vd -> default_decodable x = true -> cs_enc x = x ->
  body_decompress AsFound vd (Some c) (body_compress (Some c) x) = COk x.
Proof.
  intros H Ha Hc. cbn [Codecs.body_decompress Codecs.body_compress]. unfold Codecs.codec_decode.
  rewrite codec_raw_encode by exact H. rewrite Ha. unfold body_set_text.
  destruct x; [reflexivity|]. cbn [nonempty_b]. rewrite Hc. reflexivity.
Qed.

(* D12: on the pinned tree EVERY body with an octet >= 0x80 fails *)
Theorem body_coding_binary_fails vd c x : callees_ok vd -> default_decodable x = false ->
  body_decompress AsFound vd (Some c) (body_compress (Some c) x) = CUnicodeError.
Proof.
  intros H Ha. cbn [Codecs.body_decompress Codecs.body_compress]. unfold Codecs.codec_decode.
  rewrite codec_raw_encode by exact H. rewrite Ha. reflexivity.
Qed.

(* ---- through the wire: the composer codes piece by piece, the parser decodes the concatenation ---- *)
Lemma wire_payload_map c x : wire_payload (Some c) x = concat_bytes (map (codec_encode c) (pieces BODY_MAX_CHUNK x)).
Proof. reflexivity. Qed.

Definition wire_callees_ok (vd : variant) (c : coding) : Prop :=
  match c with
  | Gzip => gzip_members
  | Deflate => match vd with Repaired => zlib_stream /\ zlib_nonempty | AsFound => False end
  end.

Lemma wire_raw vd c x : wire_callees_ok vd c -> codec_raw vd c (wire_payload (Some c) x) = Some x.
Proof.
  intros H. rewrite wire_payload_map. destruct c; cbn [Codecs.codec_raw].
  - change (Codecs.codec_encode gz zc Gzip) with gz. rewrite H, pieces_concat by apply max_chunk_pos. reflexivity.
  - change (Codecs.codec_encode gz zc Deflate) with zc. rewrite deflate_raw_streams by exact H.
    rewrite pieces_concat by apply max_chunk_pos. reflexivity.
Qed.

(* every octet string of any length *)
Theorem wire_coding_roundtrip vd c x : wire_callees_ok vd c -> wire_roundtrip Repaired vd c x = COk x.
Proof. intros H. unfold Codecs.wire_roundtrip. cbn [Codecs.body_decompress]. rewrite wire_raw by exact H. reflexivity. Qed.

Theorem wire_coding_roundtrip_asfound vd c x : wire_callees_ok vd c -> default_decodable x = true -> cs_enc x = x ->
  wire_roundtrip AsFound vd c x = COk x.
Proof.
  intros H Ha Hc. unfold Codecs.wire_roundtrip. cbn [Codecs.body_decompress]. unfold Codecs.codec_decode.
  rewrite wire_raw by exact H. rewrite Ha. unfold body_set_text.
  destruct x; [reflexivity|]. cbn [nonempty_b]. rewrite Hc. reflexivity.
Qed.

(* D50: the pinned deflate decoder returns the first piece only, and rejects the empty body *)
Theorem wire_deflate_asfound_first_piece vt x : zlib_first_stream -> x <> [] ->
  wire_roundtrip vt AsFound Deflate x =
  match vt with
  | Repaired => COk (firstn BODY_MAX_CHUNK x)
  | AsFound => if default_decodable (firstn BODY_MAX_CHUNK x) then COk (body_set_text cs_enc (firstn BODY_MAX_CHUNK x)) else CUnicodeError
  end.
Proof.
  intros Hz Hx. unfold Codecs.wire_roundtrip. rewrite wire_payload_map.
  rewrite pieces_cons by (apply max_chunk_pos || exact Hx). cbn [map concat_bytes].
  change (Codecs.codec_encode gz zc Deflate) with zc.
  destruct vt; cbn [Codecs.body_decompress]; unfold Codecs.codec_decode; cbn [Codecs.codec_raw deflate_raw]; rewrite Hz.
  - destruct (default_decodable _); reflexivity.
  - reflexivity.
Qed.

Theorem wire_deflate_asfound_truncates x : zlib_first_stream -> (BODY_MAX_CHUNK < length x)%nat ->
  wire_roundtrip Repaired AsFound Deflate x <> COk x.
Proof.
  intros Hz Hl. rewrite wire_deflate_asfound_first_piece; [|exact Hz|destruct x; [cbn in Hl; lia | discriminate]].
  intros E. assert (E2 : firstn BODY_MAX_CHUNK x = x) by congruence.
  pose proof (firstn_le_length BODY_MAX_CHUNK x) as L. rewrite E2 in L. lia.
Qed.

Theorem wire_deflate_asfound_empty vt : zlib_empty_error -> wire_roundtrip vt AsFound Deflate [] = CDecodeError.
Proof.
  intros Hz. unfold Codecs.wire_roundtrip, Codecs.wire_payload. cbn [body_iter pieces pieces_f length map concat_bytes].
  destruct vt; cbn [Codecs.body_decompress]; unfold Codecs.codec_decode; cbn [Codecs.codec_raw deflate_raw]; rewrite Hz; reflexivity.
Qed.
End CodingProofs.

(* D53: the decoded ASCII text is re-encoded in the body's charset (pinned tree) - witness UTF-16 *)
Theorem body_coding_charset_refuted : exists cs x, default_decodable x = true /\
  forall gz gunz zc zd1 zst vd c, callees_ok gz gunz zc zd1 zst vd ->
  body_decompress gunz zd1 zst (cs_apply cs) AsFound vd (Some c) (body_compress gz zc (Some c) x) <> COk x.
Proof.
  exists CsUtf16, [x61]. split; [vm_compute; reflexivity|]. intros gz gunz zc zd1 zst vd c H.
  cbn [body_decompress body_compress]. unfold codec_decode. rewrite (codec_raw_encode gz gunz zc zd1 zst vd c [x61] H).
  vm_compute. discriminate.
Qed.

(* the hypotheses are satisfiable together.  Toy callees: "gzip" = identity (concatenation of members is
   concatenation); "zlib" = unary length prefix (n times 01, then 00, then the n octets): self-delimiting *)
Definition toy_zc (x : bytes) : bytes := repeat x01 (length x) ++ x00 :: x.
Fixpoint toy_count (d : bytes) : nat :=
  match d with c :: r => if beq c x01 then S (toy_count r) else O | [] => O end.
Definition toy_zst (d : bytes) : option (bytes * bytes) :=
  let n := toy_count d in
  match skipn n d with
  | z :: r => if beq z x00 && Nat.leb n (length r) then Some (firstn n r, skipn n r) else None
  | [] => None
  end.
Definition toy_zd1 (d : bytes) : option bytes := match toy_zst d with Some (o, _) => Some o | None => None end.

Lemma toy_count_prefix (x r : bytes) : toy_count (repeat x01 (length x) ++ x00 :: r) = length x.
Proof. induction x as [|c x IH]; [reflexivity|]. cbn [length repeat app toy_count]. rewrite beq_refl, IH. reflexivity. Qed.

Lemma toy_stream x r : toy_zst (toy_zc x ++ r) = Some (x, r).
Proof.
  unfold toy_zst, toy_zc. rewrite <- app_assoc. cbn [app]. rewrite toy_count_prefix.
  rewrite skipn_app, repeat_length, Nat.sub_diag, skipn_all2 by (rewrite repeat_length; lia). cbn [app skipn].
  rewrite beq_refl, app_length. replace (Nat.leb (length x) (length x + length r)) with true by (symmetry; apply Nat.leb_le; lia).
  cbn [andb]. rewrite firstn_app_exact. rewrite skipn_app, Nat.sub_diag, skipn_all2 by lia. reflexivity.
Qed.

Example callees_satisfiable : exists gz gunz zc zd1 zst,
  callees_ok gz gunz zc zd1 zst Repaired /\ callees_ok gz gunz zc zd1 zst AsFound /\ gzip_members gz gunz /\
  zlib_first_stream zc zd1 /\ zlib_empty_error zd1.
Proof.
  exists (fun x => x), (fun x => Some x), toy_zc, toy_zd1, toy_zst.
  assert (Hn : forall x, toy_zc x <> []).
  { intros x. unfold toy_zc. destruct (repeat x01 (length x)); discriminate. }
  assert (H1 : forall x r, toy_zd1 (toy_zc x ++ r) = Some x).
  { intros x r. unfold toy_zd1. rewrite toy_stream. reflexivity. }
  split; [|split; [|split; [|split]]].
  - split; [intros x; reflexivity|]. split; [intros x r; apply toy_stream | exact Hn].
  - split; [intros x; reflexivity|]. intros x. specialize (H1 x []). rewrite app_nil_r in H1. exact H1.
  - intros xs. f_equal. induction xs as [|x xs IH]; [reflexivity|]. cbn [map concat_bytes]. rewrite IH. reflexivity.
  - intros x r. apply H1.
  - reflexivity.
Qed.

(* ------------------------------------------------------------------ json, text/plain *)
Section TextProofs.
Context {text J : Type}.
Variable enc : charset -> text -> option bytes.
Variable dec : charset -> bytes -> option text.
Variable dumps : J -> text.
Variable loads : text -> option J.

(* a charset decodes what it encoded *)
Definition charset_roundtrip := forall cs t b, enc cs t = Some b -> dec cs b = Some t.
(* json.dumps emits ASCII text (ensure_ascii); ASCII text encoded as UTF-8 is decodable as ASCII *)
Definition dumps_ascii_compatible := forall v b, enc UTF8 (dumps v) = Some b -> dec ASCII b = Some (dumps v).
Definition json_roundtrip_hyp := forall v, loads (dumps v) = Some v.

Theorem plain_roundtrip cs t b : charset_roundtrip -> plain_encode enc cs t = Some b -> plain_decode dec cs b = Some t.
Proof. intros H E. unfold plain_encode, plain_decode in *. apply (H _ _ _ E). Qed.

(* through Body (charset = the body's charset or UTF-8, the same in both directions), and called with charset None *)
Theorem json_roundtrip cs v b : charset_roundtrip -> dumps_ascii_compatible -> json_roundtrip_hyp ->
  json_encode enc dumps cs v = Some b -> json_decode dec loads cs b = JOk v.
Proof.
  intros Hc Ha Hj E. unfold json_encode, json_decode in *. destruct cs as [cs|]; cbn [or_default] in *.
  - rewrite (Hc _ _ _ E), Hj. reflexivity.
  - rewrite (Ha _ _ E), Hj. reflexivity.
Qed.
End TextProofs.

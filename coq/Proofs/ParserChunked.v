(* C02 on the parser model: exact delivery of a chunked message as ANY RFC 7230 sender may write it --
   arbitrary partition of the payload into non-empty chunks, a chunk extension on every chunk and on the
   last-chunk, and a trailer section -- followed by arbitrary further octets. *)
From Coq Require Import ZArith.
From Httoop Require Import Model.Parser Model.Composer Proofs.SplitP Proofs.HeadersP Proofs.ParserEsc Proofs.ParserFuel
  Proofs.ParserFraming Proofs.ParserFrag Proofs.ParserSim Proofs.ParserBridge Proofs.ParserQuiet Proofs.ParserWf Proofs.DecimalP Proofs.Http1ReaderP Proofs.ComposerNum Proofs.RoundTrip.
Local Open Scope N_scope.

Section Chunked.
Variable PC : callees.
Variable k : kind.
Notation L := reference.

(* chunk-ext as it may appear after the size: empty, or ";..." without LF *)
Definition ext_ok (e : bytes) : bool := no_lf e && match e with [] => true | c :: _ => beq c SEMI end.
Definition wchunk (de : bytes * bytes) : bytes := hex_print (Composer.blen (fst de)) ++ snd de ++ CRLF ++ fst de ++ CRLF.
Definition wlast (e : bytes) : bytes := [x30] ++ e ++ CRLF.
Definition chunk_ok (de : bytes * bytes) : bool := nonempty_b (fst de) && ext_ok (snd de).

Lemma no_lf_app a b : no_lf a = true -> no_lf b = true -> no_lf (a ++ b) = true.
Proof. unfold no_lf. intros Ha Hb. rewrite forallb_app, Ha, Hb. reflexivity. Qed.

(* the size token of a chunk-size line  <hex> <ext> *)
Lemma size_token hx e : forallb (fun c => negb (beq c SEMI)) hx = true -> ext_ok e = true ->
  (match cut1 SEMI (hx ++ e) with Some (a, _) => a | None => hx ++ e end) = hx.
Proof.
  intros Hh He. unfold ext_ok in He. apply andb_true_iff in He as [_ He]. destruct e as [|c e'].
  - rewrite app_nil_r. rewrite (Http1ReaderP.cut1_none SEMI hx Hh). reflexivity.
  - apply beq_eq in He. subst c. rewrite (cut1_app SEMI hx e' Hh). reflexivity.
Qed.

Lemma strip_hex n : Split.strip (hex_print n) = hex_print n.
Proof.
  unfold hex_print. pose proof (digs_lt 16 n ltac:(lia)) as Hl.
  assert (P2 : forall ds, Forall (fun d => d < 16) ds -> forallb (fun c => negb (is_bws c)) (map hex_digit ds) = true).
  { induction 1 as [|x l Hx _ IHl]; [reflexivity|]. destruct (hex_digit_props x Hx) as [_ [_ [_ [_ [_ [_ [_ [W _]]]]]]]]. cbn [map forallb]. rewrite W. exact IHl. }
  specialize (P2 _ Hl).
  assert (Q : forall l, forallb (fun c => negb (is_bws c)) l = true -> lstrip_by is_bws l = l).
  { intros [|c l] H; [reflexivity|]. cbn [forallb] in H. apply andb_true_iff in H as [H _]. apply negb_true_iff in H. cbn [lstrip_by]. rewrite H. reflexivity. }
  unfold Split.strip, strip_by, rstrip_by. rewrite (Q _ P2). rewrite Q; [apply rev_involutive|]. rewrite forallb_forall in *. intros x Hx. apply P2, in_rev, Hx.
Qed.

(* the chunk loop consumes every written chunk and the last-chunk and hands the rest to the trailer parser *)
Lemma chunks_written cs : forall i fuel e0 tail, i_le i = LE_CRLF -> i_trailer i = false ->
  forallb chunk_ok cs = true -> ext_ok e0 = true -> (2 <= List.length tail)%nat ->
  (List.length (concat_bytes (map wchunk cs) ++ wlast e0 ++ tail) < fuel)%nat ->
  chunks PC fuel i (concat_bytes (map wchunk cs) ++ wlast e0 ++ tail) =
  parse_trailers PC (set_trailer (set_body i (i_body i ++ concat_bytes (map fst cs))) true) tail.
Proof.
  induction cs as [|[d e] cs IH]; intros i fuel e0 tail Hle Htr Hok He0 Htail Hf.
  - destruct fuel as [|f]; [cbn in Hf; lia|]. rewrite chunks_S, Htr, Hle. cbn [map concat_bytes app le_bytes].
    unfold wlast. rewrite <- !app_assoc.
    assert (Hnl : no_lf ([x30] ++ e0) = true).
    { apply no_lf_app; [reflexivity|]. unfold ext_ok in He0. apply andb_true_iff in He0 as [H _]. exact H. }
    rewrite app_assoc. rewrite (cut_CRLF_line ([x30] ++ e0) tail Hnl). cbv zeta.
    rewrite (size_token [x30] e0 eq_refl He0).
    change (py_int16_bytes (Split.strip [x30])) with (Some 0%Z). cbv iota beta. change (0 <? 0)%Z with false. cbv iota. change (Z.to_N 0) with 0.
    assert (Short : (N.of_nat (List.length tail) <? N.of_nat (List.length CRLF) + 0) = false).
    { apply N.ltb_ge. unfold CRLF. cbn [List.length]. lia. }
    rewrite Short. change (0 =? 0) with true. cbv iota. cbn [N.to_nat firstn skipn]. rewrite app_nil_r. reflexivity.
  - destruct fuel as [|f]; [cbn in Hf; lia|]. cbn [forallb] in Hok. apply andb_true_iff in Hok as [Hde Hok].
    unfold chunk_ok in Hde. cbn [fst snd] in Hde. apply andb_true_iff in Hde as [Hd He].
    assert (Hf' : (List.length (concat_bytes (map wchunk cs) ++ wlast e0 ++ tail) < f)%nat).
    { cbn [map concat_bytes] in Hf. rewrite <- app_assoc in Hf. rewrite app_length in Hf.
      assert (1 <= List.length (wchunk (d, e)))%nat by (unfold wchunk; rewrite !app_length; unfold CRLF; cbn [List.length]; lia). lia. }
    cbn [map concat_bytes fst]. rewrite <- (app_assoc (wchunk (d, e))).
    set (tl := concat_bytes (map wchunk cs) ++ wlast e0 ++ tail) in *.
    replace (wchunk (d, e) ++ tl) with ((hex_print (Composer.blen d) ++ e) ++ CRLF ++ (d ++ CRLF ++ tl)) by (unfold wchunk; cbn [fst snd]; rewrite <- !app_assoc; reflexivity).
    rewrite chunks_S, Htr, Hle. cbn [le_bytes].
    destruct (hex_print_clean (Composer.blen d)) as [H1 [H2 _]].
    assert (Hnl : no_lf (hex_print (Composer.blen d) ++ e) = true).
    { apply no_lf_app; [apply no_crlf_no_lf, H1|]. unfold ext_ok in He. apply andb_true_iff in He as [H _]. exact H. }
    rewrite (cut_CRLF_line _ _ Hnl). cbv zeta. rewrite (size_token _ e H2 He), strip_hex, py_int16_hex_print.
    assert (Ez : (Z.of_N (Composer.blen d) <? 0)%Z = false) by (apply Z.ltb_ge; lia). rewrite Ez, N2Z.id.
    destruct d as [|c d']; [discriminate|]. set (dd := c :: d') in *.
    assert (Hlen : (N.of_nat (List.length (dd ++ CRLF ++ tl)) <? N.of_nat (List.length CRLF) + Composer.blen dd) = false).
    { apply N.ltb_ge. unfold Composer.blen. rewrite !app_length. unfold CRLF. cbn [List.length]. lia. }
    rewrite Hlen. assert (Hn0 : (Composer.blen dd =? 0) = false) by (apply N.eqb_neq; unfold Composer.blen, dd; cbn [List.length]; lia). rewrite Hn0.
    unfold Composer.blen. rewrite Nat2N.id, skipn_app_exact, prefixb_app, firstn_app_exact.
    replace (skipn (List.length CRLF) (CRLF ++ tl)) with tl by (rewrite skipn_app_exact; reflexivity).
    unfold tl. rewrite IH; auto.
    cbn [set_body set_trailer i_body i_line i_le i_info i_phase i_hdrs i_ce i_len i_chunked i_trailer concat_bytes]. rewrite <- app_assoc. reflexivity.
Qed.

Definition chunked_i (line : bytes) (info : slinfo) (h : hdrs) : inflight := Parser.set_chunked (after_hdrs line info h) true.

(* ---- one chunked message without trailer fields ---- *)
Theorem chunked_message_no_trailer line info block h cs e0 rest :
  cut CRLF line = None -> c_start PC line = SlOk info -> p11 info = true ->
  block <> [] -> prefixb CRLF block = false -> cut (CRLF ++ CRLF) (block ++ CRLF) = None ->
  hparse [] block = Some h ->
  (match k with Server => negb (hmem K_HOST h) | Client => false end) = false ->
  c_hdrs PC true h = HOk -> connect_response PC k line = false ->
  hget K_TE h = Some CHUNKED -> hget K_CE h = None ->
  forallb chunk_ok cs = true -> ext_ok e0 = true ->
  (match k with Server => nobody info && nonempty_b (concat_bytes (map fst cs)) | Client => false end) = false ->
  turn_of L PC k {| buf := line ++ CRLF ++ block ++ CRLF ++ CRLF ++ (concat_bytes (map wchunk cs) ++ wlast e0 ++ CRLF ++ rest); cur := None |} =
  TMsg {| buf := rest; cur := None |}
       {| m_line := line; m_hdrs := hdel K_TE (hset K_CL (dec_of_N (N.of_nat (List.length (concat_bytes (map fst cs))))) h);
          m_body := concat_bytes (map fst cs) |}.
Proof.
  intros Hline Hstart Hp11 Hbne Hbpre Hbcut Hparse Hhost Hhdrs Hnc Hte Hce Hcs He0 Hnobody.
  rewrite (headers_phase PC k line info block h _ Hline Hstart Hbne Hbpre Hbcut Hparse); [| rewrite Hp11; exact Hhost | rewrite Hp11; exact Hhdrs | exact Hnc].
  rewrite after_headers_eq, (parse_body_eq PC).
  assert (Hdet : pre_body PC (after_hdrs line info h) = inl (chunked_i line info h)).
  { unfold pre_body. change (i_len (after_hdrs line info h)) with (@None N). change (i_chunked (after_hdrs line info h)) with false.
    unfold determine, after_hdrs. cbn [i_hdrs i_info]. rewrite Hte, Hp11. unfold hgetitem.
    change (triggers_2047 CHUNKED) with false. cbv iota. change (bytes_eqb (lower CHUNKED) CHUNKED) with true. reflexivity. }
  rewrite Hdet. unfold body_phase. change (i_chunked (chunked_i line info h)) with true. cbv iota.
  set (B := concat_bytes (map wchunk cs) ++ wlast e0 ++ CRLF ++ rest).
  unfold B at 2.
  rewrite (chunks_written cs (chunked_i line info h) (S (List.length B)) e0 (CRLF ++ rest) eq_refl eq_refl Hcs He0); [| unfold CRLF; cbn [List.length app]; lia | subst B; lia].
  unfold parse_trailers. cbn [set_trailer set_body i_le chunked_i Parser.set_chunked after_hdrs le_bytes].
  rewrite prefixb_app. rewrite skipn_app_exact.
  unfold on_body_complete. cbn [peek411 reference andb]. rewrite cl_variant_repaired.
  unfold chunked_i, after_hdrs, set_trailer, set_body, Parser.set_chunked.
  cbn [i_line i_le i_info i_phase i_hdrs i_ce i_len i_chunked i_trailer i_body app]. rewrite Hce.
  assert (Ek : (match k with Server => false | Client => false end) = false) by (destruct k; reflexivity).
  rewrite Ek. rewrite andb_false_r. cbn [negb].
  destruct k; [rewrite Hnobody|]; reflexivity.
Qed.

(* a parse() call whose first turn delivers a message continues with the rest as if it stood alone *)
Lemma parse_first_message S0 rest m : (List.length rest < List.length S0)%nat ->
  turn_of L PC k {| buf := S0; cur := None |} = TMsg {| buf := rest; cur := None |} m ->
  parse L PC k init S0 = let '(s2, m2, e) := parse L PC k init rest in (s2, m :: m2, e).
Proof.
  intros Hlen T. rewrite (parse_eq L PC k init S0).
  change (app_buf init S0) with {| buf := S0; cur := None |}. change (buf init ++ S0) with S0.
  destruct S0 as [|b0 l0] eqn:ES; [cbn in Hlen; lia|].
  cbn [loop buf]. rewrite T.
  rewrite (loop_acc L PC k). rewrite (parse_eq L PC k init rest).
  change (app_buf init rest) with {| buf := rest; cur := None |}. change (buf init ++ rest) with rest.
  rewrite (loop_fuel L PC k (List.length (b0 :: l0)) (S (List.length rest)) {| buf := rest; cur := None |} [] I); [| exact Hlen | cbn [buf]; lia].
  destruct (loop L PC k (S (List.length rest)) {| buf := rest; cur := None |} []) as [[s2 m2] e]. reflexivity.
Qed.

Theorem chunked_message_exact line info block h cs e0 rest :
  cut CRLF line = None -> c_start PC line = SlOk info -> p11 info = true ->
  block <> [] -> prefixb CRLF block = false -> cut (CRLF ++ CRLF) (block ++ CRLF) = None ->
  hparse [] block = Some h ->
  (match k with Server => negb (hmem K_HOST h) | Client => false end) = false ->
  c_hdrs PC true h = HOk -> connect_response PC k line = false ->
  hget K_TE h = Some CHUNKED -> hget K_CE h = None ->
  forallb chunk_ok cs = true -> ext_ok e0 = true ->
  (match k with Server => nobody info && nonempty_b (concat_bytes (map fst cs)) | Client => false end) = false ->
  parse L PC k init (line ++ CRLF ++ block ++ CRLF ++ CRLF ++ (concat_bytes (map wchunk cs) ++ wlast e0 ++ CRLF ++ rest)) =
  let '(s2, m2, e) := parse L PC k init rest in
  (s2, {| m_line := line; m_hdrs := hdel K_TE (hset K_CL (dec_of_N (N.of_nat (List.length (concat_bytes (map fst cs))))) h);
          m_body := concat_bytes (map fst cs) |} :: m2, e).
Proof.
  intros A1 A2 A3 A4 A5 A6 A7 A8 A9 A9c A10 A11 A12 A13 A14.
  apply parse_first_message; [| apply (chunked_message_no_trailer line info block h cs e0 rest); assumption].
  rewrite !app_length. unfold CRLF. cbn [List.length]. lia.
Qed.

(* ---- with a trailer section: the announced fields are merged, nothing else ---- *)
Theorem chunked_message_trailers line info block h cs e0 tblock tr tv ns h' rest :
  cut CRLF line = None -> c_start PC line = SlOk info -> p11 info = true ->
  block <> [] -> prefixb CRLF block = false -> cut (CRLF ++ CRLF) (block ++ CRLF) = None ->
  hparse [] block = Some h ->
  (match k with Server => negb (hmem K_HOST h) | Client => false end) = false ->
  c_hdrs PC true h = HOk -> connect_response PC k line = false ->
  hget K_TE h = Some CHUNKED -> hget K_CE h = None ->
  forallb chunk_ok cs = true -> ext_ok e0 = true ->
  tblock <> [] -> prefixb CRLF tblock = false -> cut (CRLF ++ CRLF) (tblock ++ CRLF) = None ->
  hparse [] tblock = Some tr ->
  hget K_TRAILER h = Some tv -> nonempty_b tv = true -> c_trailer PC tv = TrOk ns ->
  merge_trailers PC ns h tr = inl (h', []) ->
  (match k with Server => nobody info && nonempty_b (concat_bytes (map fst cs)) | Client => false end) = false ->
  parse L PC k init (line ++ CRLF ++ block ++ CRLF ++ CRLF ++ (concat_bytes (map wchunk cs) ++ wlast e0 ++ tblock ++ CRLF ++ CRLF ++ rest)) =
  let '(s2, m2, e) := parse L PC k init rest in
  (s2, {| m_line := line; m_hdrs := hdel K_TE (hset K_CL (dec_of_N (N.of_nat (List.length (concat_bytes (map fst cs))))) h');
          m_body := concat_bytes (map fst cs) |} :: m2, e).
Proof.
  intros Hline Hstart Hp11 Hbne Hbpre Hbcut Hparse Hhost Hhdrs Hnc Hte Hce Hcs He0 Htne Htpre Htcut Htparse Htv Htvne Hnames Hmerge Hnobody.
  apply parse_first_message; [rewrite !app_length; unfold CRLF; cbn [List.length]; lia|].
  rewrite (headers_phase PC k line info block h _ Hline Hstart Hbne Hbpre Hbcut Hparse); [| rewrite Hp11; exact Hhost | rewrite Hp11; exact Hhdrs | exact Hnc].
  rewrite after_headers_eq, (parse_body_eq PC).
  assert (Hdet : pre_body PC (after_hdrs line info h) = inl (chunked_i line info h)).
  { unfold pre_body. change (i_len (after_hdrs line info h)) with (@None N). change (i_chunked (after_hdrs line info h)) with false.
    unfold determine, after_hdrs. cbn [i_hdrs i_info]. rewrite Hte, Hp11. unfold hgetitem.
    change (triggers_2047 CHUNKED) with false. cbv iota. change (bytes_eqb (lower CHUNKED) CHUNKED) with true. reflexivity. }
  rewrite Hdet. unfold body_phase. change (i_chunked (chunked_i line info h)) with true. cbv iota.
  set (B := concat_bytes (map wchunk cs) ++ wlast e0 ++ tblock ++ CRLF ++ CRLF ++ rest).
  unfold B at 2.
  rewrite (chunks_written cs (chunked_i line info h) (S (List.length B)) e0 (tblock ++ CRLF ++ CRLF ++ rest) eq_refl eq_refl Hcs He0);
    [| rewrite !app_length; unfold CRLF; cbn [List.length]; lia | subst B; lia].
  unfold parse_trailers. cbn [set_trailer set_body i_le chunked_i Parser.set_chunked after_hdrs le_bytes i_hdrs].
  rewrite (prefixb_CRLF_block tblock (CRLF ++ rest) Htne Htpre), (cut_CRLF2_none_app tblock rest Htcut (or_intror I)).
  rewrite Htparse, Htv, Htvne, Hnames, Hmerge.
  unfold on_body_complete. cbn [peek411 reference andb]. rewrite cl_variant_repaired.
  unfold set_hdrs, chunked_i, after_hdrs, set_trailer, set_body, Parser.set_chunked.
  cbn [i_line i_le i_info i_phase i_hdrs i_ce i_len i_chunked i_trailer i_body app]. rewrite Hce.
  assert (Ek : (match k with Server => false | Client => false end) = false) by (destruct k; reflexivity).
  rewrite Ek. rewrite andb_false_r. cbn [negb].
  destruct k; [rewrite Hnobody|]; reflexivity.
Qed.

End Chunked.

Section Connect.
Variable PC : callees.
Notation L := reference.
(* ---- a message whose framing fields the client machine strips (c_connect: response to a CONNECT request; RFC 7231 4.3.6:
        "a client MUST ignore any Content-Length or Transfer-Encoding received in a successful response to CONNECT"):
        it ends with its header section whatever Transfer-Encoding / Content-Length it carries, is delivered with an empty
        body, without those fields and with Content-Length: 0; everything after the empty line is parsed as what follows ---- *)
Theorem connect_response_message line info block h rest :
  cut CRLF line = None -> c_start PC line = SlOk info ->
  block <> [] -> prefixb CRLF block = false -> cut (CRLF ++ CRLF) (block ++ CRLF) = None ->
  hparse [] block = Some h ->
  c_hdrs PC (p11 info) h = HOk -> c_connect PC line = true -> hget K_CE h = None ->
  parse L PC Client init (line ++ CRLF ++ block ++ CRLF ++ CRLF ++ rest) =
  let '(s2, m2, e) := parse L PC Client init rest in
  (s2, {| m_line := line; m_hdrs := hset K_CL (dec_of_N 0) (hdel K_TE (hdel K_CL h)); m_body := [] |} :: m2, e).
Proof.
  intros Hline Hstart Hbne Hbpre Hbcut Hparse Hhdrs Hc Hce.
  assert (T : turn_of L PC Client {| buf := line ++ CRLF ++ block ++ CRLF ++ CRLF ++ rest; cur := None |} =
              TMsg {| buf := rest; cur := None |} {| m_line := line; m_hdrs := hset K_CL (dec_of_N 0) (hdel K_TE (hdel K_CL h)); m_body := [] |}).
  { rewrite turn_of_eq. cbn [cur buf].
    unfold parse_startline. cbn [allow_lf reference andb].
    assert (Ecut : cut CRLF (line ++ CRLF ++ block ++ CRLF ++ CRLF ++ rest) = Some (line, block ++ CRLF ++ CRLF ++ rest)).
    { apply (cut_CRLF_none_app line _ Hline). }
    unfold contains. rewrite Ecut. cbn [le_bytes]. rewrite Ecut, Hstart.
    rewrite after_startline_eq. cbn [i_phase i_le i_hdrs].
    unfold parse_headers. cbn [le_bytes eager_hdr reference negb].
    pose proof (prefixb_CRLF_block block (CRLF ++ rest) Hbne Hbpre) as Epre.
    rewrite Epre, (cut_CRLF2_none_app block rest Hbcut (or_intror I)).
    unfold parse_block. destruct block as [|c0 block]; [congruence|]. cbn [nonempty_b]. rewrite Hparse.
    unfold on_headers_complete. cbn [i_hdrs i_line set_phase set_hdrs i_info]. rewrite Hhdrs, Hce.
    assert (Hcr : connect_response PC Client line = true) by exact Hc.
    destruct (hc_hdrs_connect PC Client line h Hcr) as [Hcl Hte].
    set (h' := hc_hdrs PC Client line h) in *.
    rewrite after_headers_eq. unfold parse_body, set_ce, set_phase, set_hdrs.
    cbn [i_line i_le i_info i_phase i_hdrs i_ce i_len i_chunked i_trailer i_body].
    unfold determine. cbn [i_line i_le i_info i_phase i_hdrs i_ce i_len i_chunked i_trailer i_body].
    rewrite Hte, Hcl.
    destruct (p11 info); unfold set_len; cbn [i_line i_le i_info i_phase i_hdrs i_ce i_len i_chunked i_trailer i_body];
    unfold on_body_complete; cbn [peek411 reference andb i_line i_le i_info i_phase i_hdrs i_ce i_len i_chunked i_trailer i_body];
    unfold hmem; rewrite Hcl; cbn [negb andb List.length nonempty_b];
    subst h'; unfold hc_hdrs; rewrite Hcr; reflexivity. }
  apply (parse_first_message PC Client); [rewrite !app_length; unfold CRLF; cbn [List.length]; lia | exact T].
Qed.


End Connect.

(* ---- any sequence of well-formed messages on one connection ---- *)
Section Pipeline.
Variable PC : callees.
Variable k : kind.
Notation L := reference.

(* how a sender framed the body: Content-Length with the body octets, or any chunk partition with extensions *)
Inductive wframing :=
| WLen (body : bytes)
| WChunked (cs : list (bytes * bytes)) (e0 : bytes)
| WTrailers (cs : list (bytes * bytes)) (e0 : bytes) (tblock : bytes) (tr : hdrs) (tv : bytes) (ns : list bytes) (h' : hdrs).
    (* chunked with a trailer section [tblock] that Headers.parse reads as [tr]; [tv] is the Trailer field value, [ns] the names
       it announces, [h'] the header fields after merging the announced trailer fields *)
Record wmsg := { w_line : bytes; w_info : slinfo; w_block : bytes; w_hdrs : hdrs; w_fr : wframing }.

Definition w_body (m : wmsg) : bytes :=
  match w_fr m with WLen b => b | WChunked cs _ | WTrailers cs _ _ _ _ _ _ => concat_bytes (map fst cs) end.
Definition w_wire (m : wmsg) : bytes :=
  w_line m ++ CRLF ++ w_block m ++ CRLF ++ CRLF ++
  match w_fr m with
  | WLen b => b
  | WChunked cs e0 => concat_bytes (map wchunk cs) ++ wlast e0 ++ CRLF
  | WTrailers cs e0 tblock _ _ _ _ => concat_bytes (map wchunk cs) ++ wlast e0 ++ tblock ++ CRLF ++ CRLF
  end.
Definition w_delivered (m : wmsg) : msg :=
  {| m_line := w_line m;
     m_hdrs := match w_fr m with
               | WLen _ => w_hdrs m
               | WChunked _ _ => hdel K_TE (hset K_CL (dec_of_N (N.of_nat (List.length (w_body m)))) (w_hdrs m))
               | WTrailers _ _ _ _ _ _ h' => hdel K_TE (hset K_CL (dec_of_N (N.of_nat (List.length (w_body m)))) h')
               end;
     m_body := w_body m |}.

(* syntactic validity of one message, as the hypotheses of the single-message theorems *)
Definition w_ok (m : wmsg) : Prop :=
  cut CRLF (w_line m) = None /\ c_start PC (w_line m) = SlOk (w_info m) /\
  w_block m <> [] /\ prefixb CRLF (w_block m) = false /\ cut (CRLF ++ CRLF) (w_block m ++ CRLF) = None /\
  hparse [] (w_block m) = Some (w_hdrs m) /\
  (match k with Server => p11 (w_info m) && negb (hmem K_HOST (w_hdrs m)) | Client => false end) = false /\
  c_hdrs PC (p11 (w_info m)) (w_hdrs m) = HOk /\ connect_response PC k (w_line m) = false /\
  hget K_CE (w_hdrs m) = None /\
  (match k with Server => nobody (w_info m) && nonempty_b (w_body m) | Client => false end) = false /\
  match w_fr m with
  | WLen body =>
      hget K_TE (w_hdrs m) = None /\ hget K_CL (w_hdrs m) = Some (dec_of_N (N.of_nat (List.length body))) /\
      N.of_nat (List.length (dec_of_N (N.of_nat (List.length body)))) <= INT_MAX_STR_DIGITS
  | WChunked cs e0 =>
      p11 (w_info m) = true /\ hget K_TE (w_hdrs m) = Some CHUNKED /\ forallb chunk_ok cs = true /\ ext_ok e0 = true
  | WTrailers cs e0 tblock tr tv ns h' =>
      p11 (w_info m) = true /\ hget K_TE (w_hdrs m) = Some CHUNKED /\ forallb chunk_ok cs = true /\ ext_ok e0 = true /\
      tblock <> [] /\ prefixb CRLF tblock = false /\ cut (CRLF ++ CRLF) (tblock ++ CRLF) = None /\ hparse [] tblock = Some tr /\
      hget K_TRAILER (w_hdrs m) = Some tv /\ nonempty_b tv = true /\ c_trailer PC tv = TrOk ns /\
      merge_trailers PC ns (w_hdrs m) tr = inl (h', [])   (* every trailer field was announced *)
  end.

Lemma w_first m rest : w_ok m ->
  parse L PC k init (w_wire m ++ rest) =
  let '(s2, m2, e) := parse L PC k init rest in (s2, w_delivered m :: m2, e).
Proof.
  intros (A1 & A2 & A3 & A4 & A5 & A6 & A7 & A8 & A9 & A10 & A11 & Hfr).
  unfold w_wire, w_delivered, w_body in *. destruct (w_fr m) as [body | cs e0 | cs e0 tblock tr tv ns h'].
  - destruct Hfr as (F1 & F2 & F3).
    replace ((w_line m ++ CRLF ++ w_block m ++ CRLF ++ CRLF ++ body) ++ rest)
      with (w_line m ++ CRLF ++ w_block m ++ CRLF ++ CRLF ++ body ++ rest) by (rewrite <- !app_assoc; reflexivity).
    apply (content_length_message_exact PC k (w_line m) (w_info m) (w_block m) (w_hdrs m) body rest); assumption.
  - destruct Hfr as (F0 & F1 & F2 & F3).
    replace ((w_line m ++ CRLF ++ w_block m ++ CRLF ++ CRLF ++ concat_bytes (map wchunk cs) ++ wlast e0 ++ CRLF) ++ rest)
      with (w_line m ++ CRLF ++ w_block m ++ CRLF ++ CRLF ++ (concat_bytes (map wchunk cs) ++ wlast e0 ++ CRLF ++ rest))
      by (rewrite <- !app_assoc; reflexivity).
    apply (chunked_message_exact PC k (w_line m) (w_info m) (w_block m) (w_hdrs m) cs e0 rest); try assumption.
    rewrite F0 in A7. destruct k; [exact A7 | reflexivity].
    rewrite <- F0. exact A8.
  - destruct Hfr as (F0 & F1 & F2 & F3 & G1 & G2 & G3 & G4 & G5 & G6 & G7 & G8).
    replace ((w_line m ++ CRLF ++ w_block m ++ CRLF ++ CRLF ++ concat_bytes (map wchunk cs) ++ wlast e0 ++ tblock ++ CRLF ++ CRLF) ++ rest)
      with (w_line m ++ CRLF ++ w_block m ++ CRLF ++ CRLF ++ (concat_bytes (map wchunk cs) ++ wlast e0 ++ tblock ++ CRLF ++ CRLF ++ rest))
      by (rewrite <- !app_assoc; reflexivity).
    apply (chunked_message_trailers PC k (w_line m) (w_info m) (w_block m) (w_hdrs m) cs e0 tblock tr tv ns h' rest); try assumption.
    rewrite F0 in A7. destruct k; [exact A7 | reflexivity].
    rewrite <- F0. exact A8.
Qed.

(* C02, the sequence statement: the concatenation of any number of valid messages is delivered as exactly those
   messages, in order, and the machine is idle with an empty buffer afterwards *)
Theorem pipeline_delivered ms : Forall w_ok ms ->
  parse L PC k init (concat_bytes (map w_wire ms)) = (init, map w_delivered ms, None).
Proof.
  induction ms as [|m ms IH]; intros H.
  - reflexivity.
  - inversion H as [|m' ms' Hm Hms]; subst. cbn [map concat_bytes].
    rewrite (w_first m _ Hm), (IH Hms). reflexivity.
Qed.

(* ... followed by an arbitrary tail (an incomplete next message, garbage): the valid prefix is delivered first *)
Theorem pipeline_then ms tail : Forall w_ok ms ->
  parse L PC k init (concat_bytes (map w_wire ms) ++ tail) =
  let '(s2, m2, e) := parse L PC k init tail in (s2, map w_delivered ms ++ m2, e).
Proof.
  induction ms as [|m ms IH]; intros H.
  - cbn [map concat_bytes app]. destruct (parse L PC k init tail) as [[s2 m2] e]. reflexivity.
  - inversion H as [|m' ms' Hm Hms]; subst. cbn [map concat_bytes]. rewrite <- app_assoc.
    rewrite (w_first m _ Hm), (IH Hms). destruct (parse L PC k init tail) as [[s2 m2] e]. reflexivity.
Qed.

(* the same under ANY fragmentation of the octets into parse() calls: the reference machine ... *)
Theorem pipeline_fragmented ms frags : Forall w_ok ms -> concat_bytes frags = concat_bytes (map w_wire ms) ->
  run_keep L PC k init frags = (init, map w_delivered ms, None).
Proof.
  intros H E.
  rewrite (run_keep_is_one_call reference PC k eq_refl eq_refl eq_refl frags init); [| apply init_quiescent | exact I | exact I].
  rewrite E. apply pipeline_delivered, H.
Qed.

(* ... and the machine as implemented ([real]: LF fallback, 411 peek, eager header lines), for every fragmentation on which
   it does not take one of its two buffer-dependent shortcuts (the computable [quiet_run]: findings D13 / D14) *)
Theorem pipeline_fragmented_real ms frags : Forall w_ok ms -> concat_bytes frags = concat_bytes (map w_wire ms) ->
  quiet_run PC k init frags = true ->
  run_keep real PC k init frags = (init, map w_delivered ms, None).
Proof.
  intros H E Q. rewrite (run_real PC k frags init Q).
  assert (R0 : Rst init init) by reflexivity.
  pose proof (run_sim PC k frags init init R0 I I) as S. rewrite (pipeline_fragmented ms frags H E) in S.
  destruct S as [(se' & Ee & R) | (_ & D)].
  - rewrite Ee. f_equal. f_equal. unfold Rst in R. change (cur init) with (@None inflight) in R.
    destruct se' as [b c]. cbn [cur buf] in R. destruct c as [i|]; [contradiction|]. cbn in R. subst b. reflexivity.
  - exfalso. destruct D as (il & HS' & x' & Cu & _). discriminate.
Qed.

End Pipeline.

(* ---- the client machine as implemented, every fragmentation, no hypothesis about the run ---- *)
Theorem client_pipeline_fragmented_real (PC : callees) (ms : list wmsg) (frags : list bytes) :
  Forall (w_ok PC Client) ms -> Forall (fun m => no_lf (w_line m) = true) ms ->
  concat_bytes frags = concat_bytes (map w_wire ms) ->
  run_keep real PC Client init frags = (init, map w_delivered ms, None).
Proof.
  intros H Hl E.
  apply (client_any_fragmentation PC (concat_bytes (map w_wire ms)) (map w_delivered ms) frags).
  - apply pipeline_delivered, H.
  - clear H E. induction ms as [|m ms IH]; cbn [map]; [constructor|].
    inversion Hl as [|m' ms' Hm Hms]; subst. constructor; [exact Hm | exact (IH Hms)].
  - exact E.
Qed.

(* ---- the server machine as implemented, every fragmentation: the header hook accepts framed header sections only ---- *)
Theorem server_pipeline_fragmented_real (PC : callees) (ms : list wmsg) (frags : list bytes) :
  (forall p h, c_hdrs PC p h = HOk -> framed_h p h = true) ->
  Forall (w_ok PC Server) ms -> Forall (fun m => no_lf (w_line m) = true) ms ->
  concat_bytes frags = concat_bytes (map w_wire ms) ->
  run_keep real PC Server init frags = (init, map w_delivered ms, None).
Proof.
  intros Hfr H Hl E.
  apply (server_any_fragmentation PC (concat_bytes (map w_wire ms)) (map w_delivered ms) frags Hfr).
  - apply pipeline_delivered, H.
  - clear H E. induction ms as [|m ms IH]; cbn [map]; [constructor|].
    inversion Hl as [|m' ms' Hm Hms]; subst. constructor; [exact Hm | exact (IH Hms)].
  - exact E.
Qed.

(* ---- dropping the hypothesis on the header hook for pipelines of valid requests ----
   [star C] is C with a header hook that additionally answers 411 to every unframed header section.  A run that
   ends without error under [star C] is step for step a run under C (the hook agrees wherever [star C] accepts);
   the valid messages of a pipeline are framed, so they are valid for [star C] too, and [star C] satisfies the
   hypothesis of server_pipeline_fragmented_real by construction. *)
Definition star (C : callees) : callees := {|
  c_start := c_start C;
  c_hdrs := fun p h => if framed_h p h then c_hdrs C p h else HErr 411;
  c_decode := c_decode C; c_2047 := c_2047 C; c_trailer := c_trailer C; c_connect := c_connect C |}.

Section Star.
Variable cfg : config.
Variable C : callees.
Variable k : kind.

Lemma star_framed p h : c_hdrs (star C) p h = HOk -> framed_h p h = true.
Proof. cbn [c_hdrs star]. destruct (framed_h p h); [reflexivity | discriminate]. Qed.

Lemma star_agree p h : c_hdrs (star C) p h = HOk -> c_hdrs C p h = HOk.
Proof. cbn [c_hdrs star]. destruct (framed_h p h); [intros H; exact H | discriminate]. Qed.

Lemma ohc_star i : match on_headers_complete (star C) k i with inl i2 => on_headers_complete C k i = inl i2 | inr _ => True end.
Proof.
  unfold on_headers_complete.
  destruct (match k with Server => p11 (i_info i) && negb (hmem K_HOST (i_hdrs i)) | Client => false end); [exact I|].
  destruct (c_hdrs (star C) (p11 (i_info i)) (i_hdrs i)) eqn:H; try exact I.
  rewrite (star_agree _ _ H). reflexivity.
Qed.

Lemma after_startline_star i b :
  match after_startline cfg (star C) k i b with TErr _ => True | t => after_startline cfg C k i b = t end.
Proof.
  rewrite (after_startline_eq cfg (star C) k i b), (after_startline_eq cfg C k i b).
  destruct (i_phase i).
  - destruct (parse_headers cfg (i_le i) (i_hdrs i) b) as [h b'|h b'|e]; [reflexivity | | exact I].
    pose proof (ohc_star (set_phase (set_hdrs i h) PBody)) as O.
    destruct (on_headers_complete (star C) k (set_phase (set_hdrs i h) PBody)) as [i2|e2]; [|exact I].
    rewrite O. change (after_headers cfg (star C) k i2 b') with (after_headers cfg C k i2 b').
    destruct (after_headers cfg C k i2 b'); [reflexivity | reflexivity | exact I].
  - change (after_headers cfg (star C) k i b) with (after_headers cfg C k i b).
    destruct (after_headers cfg C k i b); [reflexivity | reflexivity | exact I].
Qed.

Lemma turn_star s : match turn_of cfg (star C) k s with TErr _ => True | t => turn_of cfg C k s = t end.
Proof.
  rewrite (turn_of_eq cfg (star C) k s), (turn_of_eq cfg C k s).
  destruct (cur s) as [i|]; [apply after_startline_star|].
  change (parse_startline cfg (star C) (buf s)) with (parse_startline cfg C (buf s)).
  destruct (parse_startline cfg C (buf s)) as [a x'|[[line le] info] rest|e]; [reflexivity | | exact I].
  apply after_startline_star.
Qed.

Lemma loop_star F : forall s acc,
  match loop cfg (star C) k F s acc with (s', ms, None) => loop cfg C k F s acc = (s', ms, None) | _ => True end.
Proof.
  induction F as [|f IH]; intros s acc; cbn [loop].
  - destruct (buf s); [reflexivity | exact I].
  - destruct (buf s); [reflexivity|]. pose proof (turn_star s) as T.
    destruct (turn_of cfg (star C) k s) as [s1|s1 m|e]; [rewrite T; reflexivity | rewrite T; apply IH | exact I].
Qed.

Lemma run_star frags : forall s,
  match run_keep cfg (star C) k s frags with (s', ms, None) => run_keep cfg C k s frags = (s', ms, None) | _ => True end.
Proof.
  induction frags as [|f fr IH]; intros s; cbn [run_keep]; [reflexivity|].
  pose proof (loop_star (S (List.length (buf s ++ f))) (app_buf s f) []) as LS.
  rewrite <- (parse_eq cfg (star C) k s f), <- (parse_eq cfg C k s f) in LS.
  destruct (parse cfg (star C) k s f) as [[s1 m1] [e|]]; [exact I|]. rewrite LS.
  specialize (IH s1). destruct (run_keep cfg (star C) k s1 fr) as [[s2 m2] [e2|]]; [exact I|]. rewrite IH. reflexivity.
Qed.

End Star.

(* validity of a message does not depend on the extra refusals of [star C]: valid messages are framed *)
Lemma w_ok_star (C : callees) m : w_ok C Server m -> w_ok (star C) Server m.
Proof.
  unfold w_ok. intros (A1 & A2 & A3 & A4 & A5 & A6 & A7 & A8 & A9 & A10 & A11 & Hfr).
  assert (F : framed_h (p11 (w_info m)) (w_hdrs m) = true).
  { unfold framed_h, hmem. destruct (w_fr m) as [body | cs e0 | cs e0 tblock tr tv ns h'].
    - destruct Hfr as (_ & F2 & _). rewrite F2. reflexivity.
    - destruct Hfr as (F0 & F1 & _). rewrite F0, F1. apply orb_true_r.
    - destruct Hfr as (F0 & F1 & _). rewrite F0, F1. apply orb_true_r. }
  repeat split; try assumption.
  - cbn [c_hdrs star]. rewrite F. exact A8.
Qed.

Theorem server_pipeline_fragmented_real_unconditional (PC : callees) (ms : list wmsg) (frags : list bytes) :
  Forall (w_ok PC Server) ms -> Forall (fun m => no_lf (w_line m) = true) ms ->
  concat_bytes frags = concat_bytes (map w_wire ms) ->
  run_keep real PC Server init frags = (init, map w_delivered ms, None).
Proof.
  intros H Hl E.
  assert (H' : Forall (w_ok (star PC) Server) ms).
  { clear Hl E. induction ms as [|m ms IH]; [constructor|]. inversion H as [|m' ms' Hm Hms]; subst.
    constructor; [apply w_ok_star, Hm | exact (IH Hms)]. }
  pose proof (server_pipeline_fragmented_real (star PC) ms frags (star_framed PC) H' Hl E) as R.
  pose proof (run_star real PC Server frags init) as S. rewrite R in S. exact S.
Qed.


(* shard of the 400-year cycle sweep: days of the era [36525, 73050) *)
From Coq Require Import ZArith Bool.
From Httoop Require Import Model.DateCal Proofs.DateSweep.
Local Open Scope Z_scope.

Lemma cycle_shard_B : forall doe, 36525 <= doe < 73050 -> cyc_ok doe = true.
Proof. apply zsweep_range. vm_compute. reflexivity. Qed.

(* Lemmas about the Python bytes primitives of Model/UriSyntax.v: partition / rpartition / strip /
   split / join on pieces known to be free of the separator, decimal printing and int(). *)
From Httoop Require Import Lib.Bytes Gen.PercentT Gen.UriT Model.Percent Proofs.Percent Proofs.Form Model.UriSyntax.
Local Open Scope N_scope.

(* ---------- separator-free pieces ---------- *)

Lemma none_cons k c l : none k (c :: l) = negb (beq c k) && none k l.
Proof. reflexivity. Qed.

Lemma none_nil k : none k [] = true.
Proof. reflexivity. Qed.

Lemma contains_none k l : contains k l = negb (none k l).
Proof.
  induction l as [|c l IH]; [reflexivity|]. cbn [contains existsb]. rewrite none_cons.
  fold (contains k l). rewrite IH. destruct (beq c k); reflexivity.
Qed.

Lemma partf_none sep x : none sep x = true -> partf sep x = (x, false, []).
Proof.
  induction x as [|c x IH]; [reflexivity|]. rewrite none_cons. intros H. apply andb_true_iff in H as [Hc Hx].
  apply negb_true_iff in Hc. cbn [partf]. rewrite Hc, (IH Hx). reflexivity.
Qed.

Lemma partf_app_sep sep x r : none sep x = true -> partf sep (x ++ sep :: r) = (x, true, r).
Proof.
  induction x as [|c x IH]; cbn [app]; intros H.
  - cbn [partf]. rewrite beq_refl. reflexivity.
  - rewrite none_cons in H. apply andb_true_iff in H as [Hc Hx]. apply negb_true_iff in Hc.
    cbn [partf]. rewrite Hc, (IH Hx). reflexivity.
Qed.

(* uri.partition(b'/') where the remainder is empty or starts with the separator: path = sep + after *)
Lemma partf_path a p :
  none SLASH a = true -> (p = [] \/ exists p', p = SLASH :: p') ->
  (let '(x, f, y) := partf SLASH (a ++ p) in (x, (if f then [SLASH] else []) ++ y)) = (a, p).
Proof.
  intros Ha [-> | [p' ->]].
  - rewrite app_nil_r, (partf_none _ _ Ha). reflexivity.
  - rewrite (partf_app_sep _ _ _ Ha). reflexivity.
Qed.

(* x.partition(sep)[::2] with an optional  sep + r  tail *)
Lemma partition1_opt sep x r :
  none sep x = true -> partition1 sep (x ++ (if nonempty r then sep :: r else [])) = (x, r).
Proof.
  intros Hx. destruct r as [|c r]; cbn [nonempty].
  - rewrite app_nil_r. apply partition1_none, Hx.
  - apply partition1_app_sep, Hx.
Qed.

(* ---------- rpartition ---------- *)

Lemma rpart_cons_eq sep c r :
  rpart sep (c :: r) =
  match rpart sep r with
  | Some (a, b) => Some (c :: a, b)
  | None => if starts_with sep (c :: r) then Some ([], skipn (List.length sep) (c :: r)) else None
  end.
Proof. reflexivity. Qed.

Lemma rpart_cons_none sep c r : rpart sep r = None -> starts_with sep (c :: r) = false -> rpart sep (c :: r) = None.
Proof. intros H1 H2. rewrite rpart_cons_eq, H1, H2. reflexivity. Qed.

Lemma rpart_cons_some sep c r a b : rpart sep r = Some (a, b) -> rpart sep (c :: r) = Some (c :: a, b).
Proof. intros H. rewrite rpart_cons_eq, H. reflexivity. Qed.

Lemma rpart1_none sep x : none sep x = true -> rpart [sep] x = None.
Proof.
  induction x as [|c x IH]; [reflexivity|]. rewrite none_cons. intros H. apply andb_true_iff in H as [Hc Hx].
  apply negb_true_iff in Hc. apply rpart_cons_none; [apply IH, Hx|].
  cbn [starts_with]. rewrite beq_sym, Hc. reflexivity.
Qed.

Lemma rpart1_app sep a b : none sep b = true -> rpart [sep] (a ++ sep :: b) = Some (a, b).
Proof.
  intros Hb. induction a as [|c a IH]; cbn [app].
  - rewrite rpart_cons_eq, (rpart1_none _ _ Hb). cbn [starts_with]. rewrite beq_refl. reflexivity.
  - apply rpart_cons_some, IH.
Qed.

(* authority.rpartition(b'@')[::2] with an optional  userinfo + '@'  in front *)
Lemma rpart_at_opt (b : bool) x hp :
  none AT hp = true ->
  match rpart [AT] ((if b then x ++ [AT] else []) ++ hp) with
  | Some (u, v) => (u, v)
  | None => ([], (if b then x ++ [AT] else []) ++ hp)
  end = ((if b then x else []), hp).
Proof.
  intros Hhp. destruct b.
  - rewrite <- app_assoc. cbn [app]. rewrite (rpart1_app _ _ _ Hhp). reflexivity.
  - cbn [app]. rewrite (rpart1_none _ _ Hhp). reflexivity.
Qed.

(* "://" *)
Lemma rpart_css_app s rest : rpart CSS rest = None -> rpart CSS (s ++ CSS ++ rest) = Some (s, rest).
Proof.
  intros Hr. induction s as [|c s IH]; cbn [app].
  - unfold CSS at 2. cbn [app].
    assert (H1 : rpart CSS (SLASH :: rest) = None) by (apply rpart_cons_none; [exact Hr | reflexivity]).
    assert (H2 : rpart CSS (SLASH :: SLASH :: rest) = None) by (apply rpart_cons_none; [exact H1 | reflexivity]).
    rewrite rpart_cons_eq, H2. reflexivity.
  - apply rpart_cons_some, IH.
Qed.

Lemma rpart_css_slashslash r : rpart CSS r = None -> rpart CSS (SLASH :: SLASH :: r) = None.
Proof.
  intros H. apply rpart_cons_none; [apply rpart_cons_none; [exact H | reflexivity] | reflexivity].
Qed.

Lemma ends_with1_cons c x y l : ends_with1 c (x :: y :: l) = ends_with1 c (y :: l).
Proof.
  unfold ends_with1. cbn [rev]. destruct (rev l) as [|z zs] eqn:E; cbn; [reflexivity|].
  destruct (zs ++ [y]); reflexivity.
Qed.

Lemma ends_with1_app_last c l x : ends_with1 c (l ++ [x]) = beq x c.
Proof. unfold ends_with1. rewrite rev_app_distr. reflexivity. Qed.

Lemma ends_with1_app c l m : m <> [] -> ends_with1 c (l ++ m) = ends_with1 c m.
Proof.
  intros Hm. unfold ends_with1. rewrite rev_app_distr. destruct (rev m) as [|z zs] eqn:E; [|reflexivity].
  exfalso. apply Hm. rewrite <- (rev_involutive m), E. reflexivity.
Qed.

(* an authority (no '/', not ending in ':') followed by a path without "://" contains no "://" *)
Lemma rpart_css_app_none a p :
  none SLASH a = true -> ends_with1 COLON a = false -> rpart CSS p = None -> rpart CSS (a ++ p) = None.
Proof.
  intros Ha He Hp. induction a as [|c a IH]; [exact Hp|].
  rewrite none_cons in Ha. apply andb_true_iff in Ha as [Hc Ha].
  cbn [app]. apply rpart_cons_none.
  - apply IH; [exact Ha|]. destruct a as [|y a]; [reflexivity|]. rewrite ends_with1_cons in He. exact He.
  - unfold CSS. cbn [starts_with]. destruct (beq COLON c) eqn:Ec; [|reflexivity]. cbn [andb].
    destruct a as [|y a].
    + apply beq_eq in Ec. subst c. unfold ends_with1 in He. cbn in He. discriminate.
    + cbn [app starts_with]. rewrite none_cons in Ha. apply andb_true_iff in Ha as [Hy _].
      apply negb_true_iff in Hy. rewrite beq_sym, Hy. reflexivity.
Qed.

(* ---------- strip ---------- *)

Lemma lstripm_all m l : forallb (inmask m) l = true -> lstripm m l = [].
Proof.
  induction l as [|c l IH]; [reflexivity|]. cbn [forallb lstripm]. intros H. apply andb_true_iff in H as [Hc Hl].
  rewrite Hc. apply IH, Hl.
Qed.

Lemma stripm_all m l : forallb (inmask m) l = true -> stripm m l = [].
Proof. intros H. unfold stripm. rewrite (lstripm_all _ _ H). reflexivity. Qed.

(* ---------- split / join ---------- *)

Lemma split1_cons_eq sep c r :
  split1 sep (c :: r) =
  if beq c sep then [] :: split1 sep r
  else match split1 sep r with h :: t => (c :: h) :: t | [] => [[c]] end.
Proof. reflexivity. Qed.

Lemma join_split1 sep l : join [sep] (split1 sep l) = l.
Proof.
  induction l as [|c l IH]; [reflexivity|]. rewrite split1_cons_eq.
  destruct (beq_spec c sep) as [->|Hc].
  - rewrite join_cons by apply split1_nonnil. rewrite IH. reflexivity.
  - destruct (split1 sep l) as [|h t] eqn:E; [exfalso; eapply split1_nonnil; eauto|].
    destruct t as [|h2 t].
    + cbn [join] in *. rewrite IH. reflexivity.
    + rewrite join_cons in * by congruence. rewrite <- IH. reflexivity.
Qed.

Lemma split1_items_none sep l : Forall (fun x => none sep x = true) (split1 sep l).
Proof.
  induction l as [|c l IH]; [repeat constructor|]. rewrite split1_cons_eq.
  destruct (beq c sep) eqn:Hc.
  - constructor; [reflexivity | exact IH].
  - destruct (split1 sep l) as [|h t]; [repeat constructor; rewrite none_cons, Hc; reflexivity|].
    inversion IH as [|? ? Hh Ht]; subst. constructor; [|exact Ht]. rewrite none_cons, Hc. exact Hh.
Qed.

Lemma split1_items_forallb (P : byte -> bool) sep l :
  forallb P l = true -> Forall (fun x => forallb P x = true) (split1 sep l).
Proof.
  induction l as [|c l IH]; [repeat constructor|]. cbn [forallb]. intros H. apply andb_true_iff in H as [Hc Hl].
  specialize (IH Hl). rewrite split1_cons_eq. destruct (beq c sep).
  - constructor; [reflexivity | exact IH].
  - destruct (split1 sep l) as [|h t]; [repeat constructor; cbn; rewrite Hc; reflexivity|].
    inversion IH as [|? ? Hh Ht]; subst. constructor; [|exact Ht]. cbn [forallb]. rewrite Hc. exact Hh.
Qed.

Lemma split1_head_sep sep r : split1 sep (sep :: r) = [] :: split1 sep r.
Proof. rewrite split1_cons_eq, beq_refl. reflexivity. Qed.

Lemma esc_slash_id s : none SLASH s = true -> esc_slash s = s.
Proof.
  induction s as [|c s IH]; [reflexivity|]. rewrite none_cons. intros H. apply andb_true_iff in H as [Hc Hs].
  apply negb_true_iff in Hc. unfold esc_slash in *. cbn [flat_map]. rewrite Hc, (IH Hs). reflexivity.
Qed.

Lemma forallb_join (P : byte -> bool) sep xs :
  P sep = true -> Forall (fun x => forallb P x = true) xs -> forallb P (join [sep] xs) = true.
Proof.
  intros Hs. induction xs as [|x xs IH]; [reflexivity|]. intros HF. inversion HF as [|? ? Hx Hxs]; subst.
  destruct xs as [|y xs]; [exact Hx|]. rewrite join_cons by congruence.
  rewrite !forallb_app, Hx. cbn [forallb]. rewrite Hs, (IH Hxs). reflexivity.
Qed.

(* ---------- decimal ---------- *)

Fixpoint horner (acc : N) (l : bytes) : N :=
  match l with [] => acc | c :: r => horner (10 * acc + (bN c - 48)) r end.

Lemma horner_app acc a b : horner acc (a ++ b) = horner (horner acc a) b.
Proof. revert acc; induction a as [|c a IH]; intros acc; [reflexivity|]. cbn [app horner]. apply IH. Qed.

Lemma digit_of_props n : n < 10 -> is_digit (digit_of n) = true /\ bN (digit_of n) - 48 = n.
Proof.
  intros H. unfold is_digit, digit_of. rewrite bN_Nb by lia. split; [|lia].
  apply andb_true_iff. split; apply N.leb_le; lia.
Qed.

Lemma print_dec_fuel_spec f : forall n, n < 2 ^ N.of_nat f ->
  forallb is_digit (print_dec_fuel f n) = true /\ horner 0 (print_dec_fuel f n) = n /\
  print_dec_fuel f n <> [] /\ (List.length (print_dec_fuel f n) <= S f)%nat.
Proof.
  induction f as [|f IH]; intros n Hn.
  - cbn in Hn. assert (n = 0) by lia. subst n. cbn [print_dec_fuel].
    destruct (digit_of_props 0 ltac:(lia)) as [D1 D2]. change (0 mod 10) with 0.
    repeat split; cbn [forallb horner List.length]; rewrite ?D1, ?D2; try reflexivity; try congruence; try lia.
  - cbn [print_dec_fuel]. destruct (n <? 10) eqn:E; [apply N.ltb_lt in E | apply N.ltb_ge in E].
    + destruct (digit_of_props n E) as [D1 D2].
      repeat split; cbn [forallb horner List.length]; rewrite ?D1, ?D2; try reflexivity; try congruence; try lia.
    + assert (Hq : n / 10 < 2 ^ N.of_nat f).
      { rewrite Nat2N.inj_succ, N.pow_succ_r' in Hn.
        apply N.div_lt_upper_bound; [lia|]. lia. }
      destruct (IH _ Hq) as (A & B & C & D).
      assert (Hm : n mod 10 < 10) by (apply N.mod_lt; lia).
      destruct (digit_of_props _ Hm) as [D1 D2].
      repeat split.
      * rewrite forallb_app, A. cbn [forallb]. rewrite D1. reflexivity.
      * rewrite horner_app, B. cbn [horner]. rewrite D2. pose proof (N.div_mod' n 10). lia.
      * destruct (print_dec_fuel f (n / 10)); cbn; congruence.
      * rewrite app_length. cbn [List.length]. lia.
Qed.

Lemma size_nat_bound n : n < 2 ^ N.of_nat (N.size_nat n).
Proof.
  destruct n as [|p]; [cbn; lia|]. cbn [N.size_nat].
  induction p as [p IH|p IH|]; cbn [Pos.size_nat]; rewrite ?Nat2N.inj_succ, ?N.pow_succ_r'; try lia.
Qed.

Lemma print_dec_spec n :
  forallb is_digit (print_dec n) = true /\ horner 0 (print_dec n) = n /\ print_dec n <> [] /\
  (List.length (print_dec n) <= S (N.size_nat n))%nat.
Proof. apply print_dec_fuel_spec, size_nat_bound. Qed.

Lemma int_digits_digits l : forall acc cnt pd, forallb is_digit l = true -> l <> [] ->
  int_digits l acc cnt pd = Some (horner acc l, cnt + N.of_nat (List.length l)).
Proof.
  induction l as [|c l IH]; intros acc cnt pd Hd Hne; [congruence|].
  cbn [forallb] in Hd. apply andb_true_iff in Hd as [Hc Hl]. cbn [int_digits]. rewrite Hc.
  destruct l as [|d l].
  - cbn [int_digits horner List.length]. repeat f_equal; try lia.
  - rewrite IH by (auto; congruence). cbn [horner]. f_equal. f_equal. change (List.length (c :: d :: l)) with (S (List.length (d :: l))). rewrite Nat2N.inj_succ. lia.
Qed.

Lemma is_digit_not_sign c : is_digit c = true -> beq c x2d = false /\ beq c x2b = false.
Proof.
  intros H. assert (G : implb (is_digit c) (negb (beq c x2d) && negb (beq c x2b)) = true).
  { clear H. revert c. apply forall_byte. vm_compute. reflexivity. }
  rewrite H in G. cbn in G. apply andb_true_iff in G as [G1 G2]. apply negb_true_iff in G1, G2. auto.
Qed.

(* the digit limit of int() is absent or far above the length of a port *)
Lemma int_limit_ok : (INT_MAX_STR_DIGITS =? 0) || (64 <=? INT_MAX_STR_DIGITS) = true.
Proof. vm_compute. reflexivity. Qed.

Lemma pos_size_nat_gt k : forall p, (Pos.size_nat p > k)%nat -> 2 ^ N.of_nat k <= N.pos p.
Proof.
  induction k as [|k IH]; intros p G.
  - cbn. lia.
  - rewrite Nat2N.inj_succ, N.pow_succ_r'.
    destruct p as [p|p|]; cbn [Pos.size_nat] in G; try lia.
    + assert (G' : (Pos.size_nat p > k)%nat) by lia. specialize (IH p G'). lia.
    + assert (G' : (Pos.size_nat p > k)%nat) by lia. specialize (IH p G'). lia.
Qed.

Lemma size_nat_le_of_lt k n : n < 2 ^ N.of_nat k -> (N.size_nat n <= k)%nat.
Proof.
  intros Hn. destruct n as [|p]; [cbn; lia|]. cbn [N.size_nat].
  destruct (Nat.le_gt_cases (Pos.size_nat p) k) as [|G]; [assumption|exfalso].
  pose proof (pos_size_nat_gt k p G). lia.
Qed.

Lemma py_int_print_dec n : n < 2 ^ N.of_nat 32 -> py_int (print_dec n) = Some (Z.of_N n).
Proof.
  intros Hn. destruct (print_dec_spec n) as (A & B & C & D).
  unfold py_int. destruct (print_dec n) as [|c l] eqn:E; [congruence|].
  assert (Hc : is_digit c = true) by (cbn in A; apply andb_true_iff in A; tauto).
  destruct (is_digit_not_sign c Hc) as [S1 S2]. rewrite S1, S2.
  rewrite int_digits_digits by (auto; congruence). rewrite B.
  assert (Hs : (N.size_nat n <= 32)%nat) by (apply size_nat_le_of_lt; exact Hn).
  pose proof int_limit_ok as L. apply orb_true_iff in L.
  replace ((0 <? INT_MAX_STR_DIGITS) && (INT_MAX_STR_DIGITS <? 0 + N.of_nat (List.length (c :: l)))) with false; [reflexivity|].
  symmetry. destruct L as [L|L].
  - apply N.eqb_eq in L. rewrite L. reflexivity.
  - apply N.leb_le in L. apply andb_false_iff. right. apply N.ltb_ge. lia.
Qed.

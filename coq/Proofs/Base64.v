(* Lemmas about the concrete base64 model (Model/Base64.v). *)
From Coq Require Import ZArith.
From Httoop Require Import Lib.Bytes Gen.Base64T Model.Base64.
Local Open Scope N_scope.

Ltac dlia := zify; Z.to_euclidean_division_equations; lia.

(* ---------- reflection over the 64 sextets ---------- *)
Definition sextets : list N := map N.of_nat (seq 0 64).

Lemma forall_sextet (P : N -> bool) : forallb P sextets = true -> forall s, s < 64 -> P s = true.
Proof.
  intros H s Hs. rewrite forallb_forall in H. apply H. unfold sextets.
  replace s with (N.of_nat (N.to_nat s)) by apply N2Nat.id.
  apply in_map. apply in_seq. lia.
Qed.

(* ---------- table lemmas (re-checked against the regenerated tables on every run) ---------- *)
Lemma dec_enc_char s : s < 64 -> dec_char (enc_char s) = s.
Proof.
  intros Hs. apply N.eqb_eq. revert s Hs.
  apply (forall_sextet (fun s => dec_char (enc_char s) =? s)). vm_compute. reflexivity.
Qed.

Lemma enc_char_not_pad s : s < 64 -> beq (enc_char s) B64PAD = false.
Proof.
  intros Hs. apply negb_true_iff. revert s Hs.
  apply (forall_sextet (fun s => negb (beq (enc_char s) B64PAD))). vm_compute. reflexivity.
Qed.

(* the decoding table and the alphabet are inverse to each other on digits *)
Lemma enc_dec_char c : dec_char c < 64 -> enc_char (dec_char c) = c.
Proof.
  intros Hc. assert (G : implb (dec_char c <? 64) (beq (enc_char (dec_char c)) c) = true).
  { revert c Hc. intros c _. revert c. apply forall_byte. vm_compute. reflexivity. }
  apply N.ltb_lt in Hc. rewrite Hc in G. apply beq_eq. exact G.
Qed.

Lemma pad_not_digit : dec_char B64PAD = 64.
Proof. vm_compute. reflexivity. Qed.

Lemma nl_not_digit : dec_char B64NL = 64.
Proof. vm_compute. reflexivity. Qed.

Lemma nl_not_pad : beq B64NL B64PAD = false.
Proof. vm_compute. reflexivity. Qed.

Lemma dec_char_le c : dec_char c <= 64.
Proof.
  apply N.leb_le. revert c. apply forall_byte. vm_compute. reflexivity.
Qed.

(* the characters an encoding is made of *)
Definition is_b64out (c : byte) : bool := (dec_char c <? 64) || beq c B64PAD.

Lemma enc_char_out s : s < 64 -> is_b64out (enc_char s) = true.
Proof. intros Hs. unfold is_b64out. rewrite (dec_enc_char s Hs). apply N.ltb_lt in Hs. rewrite Hs. reflexivity. Qed.

Lemma pad_out : is_b64out B64PAD = true.
Proof. vm_compute. reflexivity. Qed.

Lemma nl_not_out : is_b64out B64NL = false.
Proof. vm_compute. reflexivity. Qed.

Lemma maxbin_ok : (N.to_nat B64_MAXBIN mod 3 = 0)%nat /\ (0 < N.to_nat B64_MAXBIN)%nat.
Proof.
  assert (G : (Nat.eqb (N.to_nat B64_MAXBIN mod 3) 0 && Nat.ltb 0 (N.to_nat B64_MAXBIN))%bool = true) by (vm_compute; reflexivity).
  apply andb_true_iff in G as [G1 G2]. apply Nat.eqb_eq in G1. apply Nat.ltb_lt in G2. split; assumption.
Qed.

(* ---------- sextet arithmetic ---------- *)
Lemma sx0_lt a : a < 256 -> sx0 a < 64.
Proof. unfold sx0. intros. dlia. Qed.
Lemma sx1_lt a b : b < 256 -> sx1 a b < 64.
Proof. unfold sx1. intros. dlia. Qed.
Lemma sx2_lt b c : c < 256 -> sx2 b c < 64.
Proof. unfold sx2. intros. dlia. Qed.
Lemma sx3_lt c : sx3 c < 64.
Proof. unfold sx3. intros. dlia. Qed.

Lemma join0 a b : a < 256 -> b < 256 -> sx0 a * 4 + sx1 a b / 16 = a.
Proof. unfold sx0, sx1. intros. dlia. Qed.
Lemma left1 a b : b < 256 -> sx1 a b mod 16 = b / 16.
Proof. unfold sx1. intros. dlia. Qed.
Lemma join1 b c : b < 256 -> c < 256 -> (b / 16) * 16 + sx2 b c / 4 = b.
Proof. unfold sx2. intros. dlia. Qed.
Lemma left2 b c : c < 256 -> sx2 b c mod 4 = c / 64.
Proof. unfold sx2. intros. dlia. Qed.
Lemma join2 c : (c / 64) * 64 + sx3 c = c.
Proof. unfold sx3. intros. dlia. Qed.

(* ---------- one step of the decoder on an alphabet character ---------- *)
Lemma a2b_cons_digit s r qp lf pd : s < 64 ->
  a2b_loop (enc_char s :: r) qp lf pd =
    if qp =? 0 then a2b_loop r 1 s 0
    else if qp =? 1 then ocons (Nb (lf * 4 + s / 16)) (a2b_loop r 2 (s mod 16) 0)
    else if qp =? 2 then ocons (Nb (lf * 16 + s / 4)) (a2b_loop r 3 (s mod 4) 0)
    else ocons (Nb (lf * 64 + s)) (a2b_loop r 0 0 0).
Proof.
  intros Hs. cbn [a2b_loop]. rewrite (enc_char_not_pad s Hs), (dec_enc_char s Hs).
  destruct (64 <=? s) eqn:E; [apply N.leb_le in E; lia|]. reflexivity.
Qed.

Lemma a2b_cons_nl r qp lf pd : a2b_loop (B64NL :: r) qp lf pd = a2b_loop r qp lf pd.
Proof. cbn [a2b_loop]. rewrite nl_not_pad, nl_not_digit. reflexivity. Qed.

Lemma a2b_cons_pad r qp lf pd :
  a2b_loop (B64PAD :: r) qp lf pd =
    if 2 <=? qp then (if 4 <=? qp + (pd + 1) then Some [] else a2b_loop r qp lf (pd + 1))
    else a2b_loop r qp lf pd.
Proof. cbn [a2b_loop]. rewrite beq_refl. reflexivity. Qed.

(* at quad position 0 neither the left-over bits nor the pad counter matter *)
Lemma a2b_qp0_indep l : forall lf pd, a2b_loop l 0 lf pd = a2b_loop l 0 0 0.
Proof.
  induction l as [|c r IH]; intros lf pd; [reflexivity|].
  cbn [a2b_loop]. destruct (beq c B64PAD).
  - cbn. rewrite IH. symmetry. apply IH.
  - destruct (64 <=? dec_char c); [rewrite IH; symmetry; apply IH|]. reflexivity.
Qed.

(* a trailing newline never changes the result *)
Lemma a2b_app_nl l : forall qp lf pd, a2b_loop (l ++ [B64NL]) qp lf pd = a2b_loop l qp lf pd.
Proof.
  induction l as [|c r IH]; intros qp lf pd.
  - cbn [app]. rewrite a2b_cons_nl. reflexivity.
  - cbn [app a2b_loop]. rewrite !IH. reflexivity.
Qed.

(* ---------- a full group of three octets ---------- *)
Definition ocons3 (a b c : byte) (o : option bytes) : option bytes := ocons a (ocons b (ocons c o)).

Lemma a2b_group a b c r lf pd :
  a2b_loop (enc_char (sx0 (bN a)) :: enc_char (sx1 (bN a) (bN b)) :: enc_char (sx2 (bN b) (bN c)) :: enc_char (sx3 (bN c)) :: r) 0 lf pd
  = ocons3 a b c (a2b_loop r 0 0 0).
Proof.
  pose proof (bN_lt a) as Ha. pose proof (bN_lt b) as Hb. pose proof (bN_lt c) as Hc.
  rewrite (a2b_cons_digit _ _ _ _ _ (sx0_lt _ Ha)). cbn [N.eqb].
  rewrite (a2b_cons_digit _ _ _ _ _ (sx1_lt (bN a) _ Hb)). cbn [N.eqb Pos.eqb].
  rewrite (a2b_cons_digit _ _ _ _ _ (sx2_lt (bN b) _ Hc)). cbn [N.eqb Pos.eqb].
  rewrite (a2b_cons_digit _ _ _ _ _ (sx3_lt (bN c))). cbn [N.eqb Pos.eqb].
  rewrite (join0 _ _ Ha Hb), (left1 (bN a) _ Hb), (join1 _ _ Hb Hc), (left2 (bN b) _ Hc), join2, !Nb_bN.
  reflexivity.
Qed.

(* the two padded tails: decoding stops at the padding, whatever follows *)
Lemma a2b_tail1 a r lf pd :
  a2b_loop (enc_char (sx0 (bN a)) :: enc_char (sx1 (bN a) 0) :: B64PAD :: B64PAD :: r) 0 lf pd = Some [a].
Proof.
  pose proof (bN_lt a) as Ha.
  rewrite (a2b_cons_digit _ _ _ _ _ (sx0_lt _ Ha)). cbn [N.eqb].
  rewrite (a2b_cons_digit _ _ _ _ _ (sx1_lt (bN a) 0 ltac:(lia))). cbn [N.eqb Pos.eqb].
  rewrite !a2b_cons_pad. cbn.
  rewrite (join0 (bN a) 0 Ha ltac:(lia)), Nb_bN. reflexivity.
Qed.

Lemma a2b_tail2 a b r lf pd :
  a2b_loop (enc_char (sx0 (bN a)) :: enc_char (sx1 (bN a) (bN b)) :: enc_char (sx2 (bN b) 0) :: B64PAD :: r) 0 lf pd = Some [a; b].
Proof.
  pose proof (bN_lt a) as Ha. pose proof (bN_lt b) as Hb.
  rewrite (a2b_cons_digit _ _ _ _ _ (sx0_lt _ Ha)). cbn [N.eqb].
  rewrite (a2b_cons_digit _ _ _ _ _ (sx1_lt (bN a) _ Hb)). cbn [N.eqb Pos.eqb].
  rewrite (a2b_cons_digit _ _ _ _ _ (sx2_lt (bN b) 0 ltac:(lia))). cbn [N.eqb Pos.eqb].
  rewrite a2b_cons_pad. cbn.
  rewrite (join0 _ _ Ha Hb), (left1 (bN a) _ Hb), (join1 (bN b) 0 Hb ltac:(lia)), !Nb_bN. reflexivity.
Qed.

(* ---------- induction three octets at a time ---------- *)
Lemma list_ind3 (P : bytes -> Prop) :
  P [] -> (forall a, P [a]) -> (forall a b, P [a; b]) ->
  (forall a b c r, P r -> P (a :: b :: c :: r)) -> forall l, P l.
Proof.
  intros H0 H1 H2 H3.
  assert (G : forall n l, (length l <= n)%nat -> P l).
  { induction n as [|n IH]; intros l Hl.
    - destruct l; [exact H0 | cbn in Hl; lia].
    - destruct l as [|a [|b [|c r]]]; auto. apply H3. apply IH. cbn in Hl. lia. }
  intros l. apply (G (length l)). lia.
Qed.

Definition oapp (x : bytes) (o : option bytes) : option bytes :=
  match o with Some l => Some (x ++ l) | None => None end.

Lemma oapp_nil o : oapp [] o = o.
Proof. destruct o; reflexivity. Qed.

Lemma ocons3_oapp a b c x o : ocons3 a b c (oapp x o) = oapp (a :: b :: c :: x) o.
Proof. destruct o; reflexivity. Qed.

Definition mult3 (x : bytes) : bool := Nat.eqb (length x mod 3) 0.

Lemma mult3_cons3 a b c x : mult3 (a :: b :: c :: x) = mult3 x.
Proof.
  unfold mult3. cbn [length]. f_equal.
  replace (S (S (S (length x)))) with (length x + 1 * 3)%nat by lia.
  apply Nat.mod_add. lia.
Qed.

(* decoding an encoding followed by anything: after whole groups decoding continues with the rest,
   after a padded tail it stops *)
Lemma a2b_b64enc_app x : forall r lf pd,
  a2b_loop (b64enc x ++ r) 0 lf pd = if mult3 x then oapp x (a2b_loop r 0 0 0) else Some x.
Proof.
  induction x as [|a|a b|a b c x IH] using list_ind3; intros r lf pd.
  - cbn [b64enc app mult3 length Nat.modulo Nat.eqb]. cbn. rewrite oapp_nil. apply a2b_qp0_indep.
  - cbn [b64enc app]. apply a2b_tail1.
  - cbn [b64enc app]. apply a2b_tail2.
  - cbn [b64enc app]. rewrite a2b_group, IH.
    rewrite mult3_cons3. destruct (mult3 x); [apply ocons3_oapp | reflexivity].
Qed.

(* binascii: a2b_base64(b2a_base64(x)) = x, with or without the trailing newline *)
Theorem a2b_b64enc x : a2b_base64 (b64enc x) = Some x.
Proof.
  unfold a2b_base64. rewrite <- (app_nil_r (b64enc x)), a2b_b64enc_app.
  destruct (mult3 x); [cbn; rewrite app_nil_r|]; reflexivity.
Qed.

Theorem a2b_b2a_line x : a2b_base64 (b2a_line x) = Some x.
Proof. unfold a2b_base64, b2a_line. rewrite a2b_app_nl. apply a2b_b64enc. Qed.

(* ---------- the output alphabet ---------- *)
Lemma b64enc_out x : forallb is_b64out (b64enc x) = true.
Proof.
  induction x as [|a|a b|a b c x IH] using list_ind3.
  - reflexivity.
  - pose proof (bN_lt a). cbn [b64enc forallb].
    rewrite (enc_char_out _ (sx0_lt _ H)), (enc_char_out _ (sx1_lt (bN a) 0 ltac:(lia))), pad_out. reflexivity.
  - pose proof (bN_lt a). pose proof (bN_lt b). cbn [b64enc forallb].
    rewrite (enc_char_out _ (sx0_lt _ H)), (enc_char_out _ (sx1_lt (bN a) _ H0)), (enc_char_out _ (sx2_lt (bN b) 0 ltac:(lia))), pad_out. reflexivity.
  - pose proof (bN_lt a). pose proof (bN_lt b). pose proof (bN_lt c). cbn [b64enc forallb].
    rewrite (enc_char_out _ (sx0_lt _ H)), (enc_char_out _ (sx1_lt (bN a) _ H0)), (enc_char_out _ (sx2_lt (bN b) _ H1)), (enc_char_out _ (sx3_lt (bN c))), IH.
    reflexivity.
Qed.

Lemma b64enc_length x : length (b64enc x) = (4 * ((length x + 2) / 3))%nat.
Proof.
  induction x as [|a|a b|a b c x IH] using list_ind3; try reflexivity.
  cbn [b64enc length]. rewrite IH.
  replace (S (S (S (length x))) + 2)%nat with (1 * 3 + (length x + 2))%nat by lia.
  rewrite Nat.div_add_l by lia. lia.
Qed.

(* whole groups can be encoded separately *)
Lemma b64enc_app x y : mult3 x = true -> b64enc (x ++ y) = b64enc x ++ b64enc y.
Proof.
  induction x as [|a|a b|a b c x IH] using list_ind3; intros Hm; try discriminate.
  - reflexivity.
  - rewrite mult3_cons3 in Hm. cbn [app b64enc]. rewrite (IH Hm). reflexivity.
Qed.

(* ---------- encodebytes: lines of n octets ---------- *)
Lemma firstn_skipn_mult3 n (l : bytes) : (n mod 3 = 0)%nat -> (n < length l)%nat -> mult3 (firstn n l) = true.
Proof.
  intros Hn Hl. unfold mult3. rewrite firstn_length, Nat.min_l by lia. rewrite Hn. reflexivity.
Qed.

Lemma encodebytes_f_fuel f1 : forall f2 n l, (0 < n)%nat -> (length l <= f1)%nat -> (length l <= f2)%nat ->
  encodebytes_f f1 n l = encodebytes_f f2 n l.
Proof.
  induction f1 as [|f1 IH]; intros f2 n l Hn H1 H2.
  - destruct l; [|cbn in H1; lia]. destruct f2; reflexivity.
  - destruct l as [|c r]; [destruct f2; reflexivity|].
    destruct f2 as [|f2]; [cbn in H2; lia|].
    cbn [encodebytes_f]. f_equal. apply IH; auto; rewrite skipn_length; cbn [length] in *; lia.
Qed.

(* unfolding equation of encodebytes_n on a non-empty input *)
Lemma encodebytes_n_step n l : (0 < n)%nat -> l <> [] ->
  encodebytes_n n l = b2a_line (firstn n l) ++ encodebytes_n n (skipn n l).
Proof.
  intros Hn Hl. unfold encodebytes_n. destruct l as [|c r]; [congruence|].
  cbn [length encodebytes_f]. f_equal.
  apply encodebytes_f_fuel; auto; rewrite skipn_length; cbn [length]; lia.
Qed.

Lemma encodebytes_n_nil n : encodebytes_n n [] = [].
Proof. reflexivity. Qed.

(* strong induction on the length of the remaining input *)
Lemma bytes_len_ind (P : bytes -> Prop) :
  (forall l, (forall l', (length l' < length l)%nat -> P l') -> P l) -> forall l, P l.
Proof.
  intros Hstep. assert (G : forall n l, (length l < n)%nat -> P l).
  { induction n as [|n IH]; intros l Hl; [lia|]. apply Hstep. intros l' Hl'. apply IH. lia. }
  intros l. apply (G (S (length l))). lia.
Qed.

(* decodebytes (encodebytes x) = x, for every line size that is a positive multiple of three *)
Theorem a2b_encodebytes_n n : (0 < n)%nat -> (n mod 3 = 0)%nat -> forall x,
  a2b_base64 (encodebytes_n n x) = Some x.
Proof.
  intros Hn H3 x. unfold a2b_base64. induction x as [x IH] using bytes_len_ind.
  destruct x as [|c x']; [reflexivity|].
  set (x := c :: x') in *.
  rewrite (encodebytes_n_step n x Hn ltac:(discriminate)).
  unfold b2a_line. rewrite <- !app_assoc.
  destruct (Nat.ltb n (length x)) eqn:E.
  - apply Nat.ltb_lt in E.
    rewrite a2b_b64enc_app, (firstn_skipn_mult3 n x H3 E).
    cbn [app]. rewrite a2b_cons_nl.
    rewrite IH by (rewrite skipn_length; lia).
    cbn [oapp]. rewrite firstn_skipn. reflexivity.
  - apply Nat.ltb_ge in E.
    rewrite firstn_all2 by lia. rewrite skipn_all2 by lia.
    rewrite encodebytes_n_nil. cbn [app].
    rewrite a2b_b64enc_app. destruct (mult3 x); [|reflexivity].
    rewrite a2b_cons_nl. cbn. rewrite app_nil_r. reflexivity.
Qed.

Theorem decodebytes_encodebytes x : decodebytes (encodebytes x) = Some x.
Proof. destruct maxbin_ok as [H3 Hpos]. apply a2b_encodebytes_n; assumption. Qed.

(* ---------- removing the line breaks of encodebytes gives the unbroken encoding ---------- *)
Definition not_nl (c : byte) : bool := negb (beq c B64NL).

Lemma out_not_nl c : is_b64out c = true -> not_nl c = true.
Proof.
  intros H. assert (G : implb (is_b64out c) (not_nl c) = true).
  { revert c H. intros c _. revert c. apply forall_byte. vm_compute. reflexivity. }
  rewrite H in G. exact G.
Qed.

Lemma filter_all_true {T} (p : T -> bool) l : forallb p l = true -> filter p l = l.
Proof.
  induction l as [|c r IH]; [reflexivity|]. cbn. intros H. apply andb_true_iff in H as [H1 H2].
  rewrite H1, (IH H2). reflexivity.
Qed.

Lemma forallb_impl {T} (p q : T -> bool) l : (forall c, p c = true -> q c = true) -> forallb p l = true -> forallb q l = true.
Proof.
  intros Hpq. induction l as [|c r IH]; [reflexivity|]. cbn. intros H. apply andb_true_iff in H as [H1 H2].
  rewrite (Hpq c H1), (IH H2). reflexivity.
Qed.

Lemma filter_nl_b64enc x : filter not_nl (b64enc x) = b64enc x.
Proof. apply filter_all_true. apply (forallb_impl is_b64out); [apply out_not_nl | apply b64enc_out]. Qed.

Lemma filter_nl_line x : filter not_nl (b2a_line x) = b64enc x.
Proof.
  assert (E : not_nl B64NL = false) by (vm_compute; reflexivity).
  unfold b2a_line. rewrite filter_app, filter_nl_b64enc. cbn [filter]. rewrite E. apply app_nil_r.
Qed.

Theorem filter_nl_encodebytes_n n : (0 < n)%nat -> (n mod 3 = 0)%nat -> forall x,
  filter not_nl (encodebytes_n n x) = b64enc x.
Proof.
  intros Hn H3 x. induction x as [x IH] using bytes_len_ind.
  destruct x as [|c x']; [reflexivity|].
  set (x := c :: x') in *.
  rewrite (encodebytes_n_step n x Hn ltac:(discriminate)), filter_app, filter_nl_line.
  destruct (Nat.ltb n (length x)) eqn:E.
  - apply Nat.ltb_lt in E. rewrite IH by (rewrite skipn_length; lia).
    rewrite <- b64enc_app by (apply firstn_skipn_mult3; assumption).
    rewrite firstn_skipn. reflexivity.
  - apply Nat.ltb_ge in E. rewrite firstn_all2 by lia. rewrite skipn_all2 by lia.
    rewrite encodebytes_n_nil. apply app_nil_r.
Qed.

Theorem filter_nl_encodebytes x : filter not_nl (encodebytes x) = b64enc x.
Proof. destruct maxbin_ok as [H3 Hpos]. apply filter_nl_encodebytes_n; assumption. Qed.

(* short input: encodebytes is one line *)
Lemma encodebytes_short x : x <> [] -> (length x <= N.to_nat B64_MAXBIN)%nat -> encodebytes x = b64enc x ++ [B64NL].
Proof.
  intros Hx Hl. destruct maxbin_ok as [H3 Hpos]. unfold encodebytes.
  rewrite (encodebytes_n_step _ x Hpos Hx), firstn_all2, skipn_all2 by lia.
  rewrite encodebytes_n_nil, app_nil_r. reflexivity.
Qed.

(* ---------- strict decoder: round trip ---------- *)
Lemma digit_enc s : s < 64 -> digit (enc_char s) = Some s.
Proof.
  intros Hs. unfold digit. rewrite (dec_enc_char s Hs).
  destruct (64 <=? s) eqn:E; [apply N.leb_le in E; lia | reflexivity].
Qed.

Lemma dec_full_enc a b c :
  dec_full (enc_char (sx0 (bN a))) (enc_char (sx1 (bN a) (bN b))) (enc_char (sx2 (bN b) (bN c))) (enc_char (sx3 (bN c))) = Some [a; b; c].
Proof.
  pose proof (bN_lt a) as Ha. pose proof (bN_lt b) as Hb. pose proof (bN_lt c) as Hc.
  unfold dec_full.
  rewrite (digit_enc _ (sx0_lt _ Ha)), (digit_enc _ (sx1_lt (bN a) _ Hb)), (digit_enc _ (sx2_lt (bN b) _ Hc)), (digit_enc _ (sx3_lt (bN c))).
  rewrite (join0 _ _ Ha Hb), (left1 (bN a) _ Hb), (join1 _ _ Hb Hc), (left2 (bN b) _ Hc), join2, !Nb_bN.
  reflexivity.
Qed.

Lemma b64enc_nil_inv x : b64enc x = [] -> x = [].
Proof. destruct x as [|a [|b [|c r]]]; cbn; congruence. Qed.

Theorem b64dec_strict_b64enc x : b64dec_strict (b64enc x) = Some x.
Proof.
  induction x as [|a|a b|a b c x IH] using list_ind3.
  - reflexivity.
  - pose proof (bN_lt a) as Ha. cbn [b64enc b64dec_strict]. unfold dec_last.
    rewrite beq_refl, (digit_enc _ (sx0_lt _ Ha)), (digit_enc _ (sx1_lt (bN a) 0 ltac:(lia))).
    assert (E : sx1 (bN a) 0 mod 16 = 0) by (unfold sx1; dlia). rewrite E. cbn [N.eqb].
    rewrite (join0 (bN a) 0 Ha ltac:(lia)), Nb_bN. reflexivity.
  - pose proof (bN_lt a) as Ha. pose proof (bN_lt b) as Hb. cbn [b64enc b64dec_strict]. unfold dec_last.
    rewrite beq_refl, (digit_enc _ (sx0_lt _ Ha)), (digit_enc _ (sx1_lt (bN a) _ Hb)).
    rewrite (enc_char_not_pad _ (sx2_lt (bN b) 0 ltac:(lia))), (digit_enc _ (sx2_lt (bN b) 0 ltac:(lia))).
    assert (E : sx2 (bN b) 0 mod 4 = 0) by (unfold sx2; dlia). rewrite E. cbn [N.eqb].
    rewrite (join0 _ _ Ha Hb), (left1 (bN a) _ Hb), (join1 (bN b) 0 Hb ltac:(lia)), !Nb_bN. reflexivity.
  - cbn [b64enc b64dec_strict]. destruct (b64enc x) as [|d r] eqn:E.
    + apply b64enc_nil_inv in E. subst x. unfold dec_last.
      rewrite (enc_char_not_pad _ (sx3_lt (bN c))). apply dec_full_enc.
    + rewrite dec_full_enc, IH. reflexivity.
Qed.

(* ---------- strict decoder: it accepts nothing but the canonical unbroken encodings ---------- *)
Lemma bN_Nb_lt n : n < 256 -> bN (Nb n) = n.
Proof. apply bN_Nb. Qed.

Lemma digit_inv c v : digit c = Some v -> v < 64 /\ enc_char v = c.
Proof.
  unfold digit. destruct (64 <=? dec_char c) eqn:E; [discriminate|]. intros G. injection G as <-.
  apply N.leb_gt in E. split; [exact E | apply enc_dec_char; exact E].
Qed.

Definition quad (a b c : byte) : bytes :=
  [enc_char (sx0 (bN a)); enc_char (sx1 (bN a) (bN b)); enc_char (sx2 (bN b) (bN c)); enc_char (sx3 (bN c))].

Lemma dec_full_inv c0 c1 c2 c3 l : dec_full c0 c1 c2 c3 = Some l ->
  exists a b c, l = [a; b; c] /\ [c0; c1; c2; c3] = quad a b c.
Proof.
  unfold dec_full.
  destruct (digit c0) as [v0|] eqn:E0; [|discriminate]. destruct (digit c1) as [v1|] eqn:E1; [|discriminate].
  destruct (digit c2) as [v2|] eqn:E2; [|discriminate]. destruct (digit c3) as [v3|] eqn:E3; [|discriminate].
  apply digit_inv in E0 as [L0 <-]. apply digit_inv in E1 as [L1 <-].
  apply digit_inv in E2 as [L2 <-]. apply digit_inv in E3 as [L3 <-].
  intros G. injection G as <-. do 3 eexists. split; [reflexivity|]. unfold quad.
  rewrite !bN_Nb_lt by dlia.
  repeat f_equal; unfold sx0, sx1, sx2, sx3; dlia.
Qed.

Lemma dec_last_inv c0 c1 c2 c3 l : dec_last c0 c1 c2 c3 = Some l -> [c0; c1; c2; c3] = b64enc l /\ l <> [].
Proof.
  unfold dec_last. destruct (beq c3 B64PAD) eqn:P3.
  - apply beq_eq in P3. subst c3.
    destruct (digit c0) as [v0|] eqn:E0; [|discriminate]. destruct (digit c1) as [v1|] eqn:E1; [|discriminate].
    apply digit_inv in E0 as [L0 <-]. apply digit_inv in E1 as [L1 <-].
    destruct (beq c2 B64PAD) eqn:P2.
    + apply beq_eq in P2. subst c2. destruct (v1 mod 16 =? 0) eqn:Z; [|discriminate]. apply N.eqb_eq in Z.
      intros G. injection G as <-. split; [|discriminate]. cbn [b64enc].
      rewrite !bN_Nb_lt by dlia. repeat f_equal; unfold sx0, sx1; dlia.
    + destruct (digit c2) as [v2|] eqn:E2; [|discriminate]. apply digit_inv in E2 as [L2 <-].
      destruct (v2 mod 4 =? 0) eqn:Z; [|discriminate]. apply N.eqb_eq in Z.
      intros G. injection G as <-. split; [|discriminate]. cbn [b64enc].
      rewrite !bN_Nb_lt by dlia. repeat f_equal; unfold sx0, sx1, sx2; dlia.
  - intros G. apply dec_full_inv in G as (a & b & c & -> & E). split; [exact E | discriminate].
Qed.

Theorem b64dec_strict_canonical s : forall x, b64dec_strict s = Some x -> s = b64enc x.
Proof.
  induction s as [s IH] using bytes_len_ind. intros x.
  destruct s as [|c0 [|c1 [|c2 [|c3 r]]]]; try discriminate.
  - cbn. intros G. injection G as <-. reflexivity.
  - destruct r as [|d r'].
    + cbn [b64dec_strict]. intros G. apply dec_last_inv in G as [G _]. exact G.
    + change (b64dec_strict (c0 :: c1 :: c2 :: c3 :: d :: r'))
        with (oappl (dec_full c0 c1 c2 c3) (b64dec_strict (d :: r'))).
      destruct (dec_full c0 c1 c2 c3) as [l|] eqn:E; [|discriminate].
      destruct (b64dec_strict (d :: r')) as [y|] eqn:F; [|discriminate].
      cbn [oappl]. intros G. injection G as <-.
      apply dec_full_inv in E as (a & b & c & -> & Q).
      apply IH in F; [|cbn [length]; lia].
      cbn [app b64enc]. unfold quad in Q. injection Q as -> -> -> ->. rewrite F. reflexivity.
Qed.

(* hence strict and lenient decoding agree wherever the strict decoder accepts *)
Corollary strict_implies_lenient s x : b64dec_strict s = Some x -> a2b_base64 s = Some x.
Proof. intros G. apply b64dec_strict_canonical in G. subst s. apply a2b_b64enc. Qed.

(* and the encoder is injective *)
Corollary b64enc_injective x y : b64enc x = b64enc y -> x = y.
Proof.
  intros E. pose proof (b64dec_strict_b64enc x) as G. rewrite E, b64dec_strict_b64enc in G. congruence.
Qed.

(* ---------- shape of encodebytes: a body that starts and ends with an encoding character, then one newline ---------- *)
Definition out_or_nl (c : byte) : bool := is_b64out c || beq c B64NL.

Lemma encodebytes_n_shape n : (0 < n)%nat -> forall x, x <> [] ->
  exists body c, encodebytes_n n x = body ++ [c; B64NL] /\ is_b64out c = true /\
                 (exists c0 r, body ++ [c] = c0 :: r /\ is_b64out c0 = true) /\ forallb out_or_nl body = true.
Proof.
  intros Hn x. induction x as [x IH] using bytes_len_ind. intros Hx.
  rewrite (encodebytes_n_step n x Hn Hx). unfold b2a_line.
  assert (Cne : firstn n x <> []).
  { destruct x; [congruence|]. destruct n; [lia|]. discriminate. }
  assert (Ene : b64enc (firstn n x) <> []) by (intros E; apply b64enc_nil_inv in E; exact (Cne E)).
  pose proof (b64enc_out (firstn n x)) as Hout.
  destruct (exists_last Ene) as (eb & ec & Ee).
  assert (Hec : is_b64out ec = true /\ forallb is_b64out eb = true).
  { rewrite Ee, forallb_app in Hout. apply andb_true_iff in Hout as [H1 H2]. cbn in H2. rewrite andb_true_r in H2. tauto. }
  assert (Hhead : exists c0 r, b64enc (firstn n x) = c0 :: r /\ is_b64out c0 = true).
  { destruct (b64enc (firstn n x)) as [|c0 r]; [congruence|]. exists c0, r. split; [reflexivity|].
    cbn in Hout. apply andb_true_iff in Hout. tauto. }
  destruct (skipn n x) as [|d rest] eqn:Es.
  - rewrite encodebytes_n_nil, app_nil_r. exists eb, ec. rewrite Ee, <- app_assoc. split; [reflexivity|].
    split; [tauto|]. split.
    + destruct Hhead as (c0 & r & E1 & E2). exists c0, r. rewrite <- Ee. tauto.
    + apply (forallb_impl is_b64out); [|tauto]. intros c Hc. unfold out_or_nl. rewrite Hc. reflexivity.
  - assert (Hlen : (length (d :: rest) < length x)%nat).
    { rewrite <- Es, skipn_length. destruct x; [congruence|]. cbn [length]. lia. }
    destruct (IH (d :: rest) Hlen ltac:(discriminate)) as (body' & c' & E' & Hc' & _ & Hb').
    rewrite E'. exists ((b64enc (firstn n x) ++ [B64NL]) ++ body'), c'.
    split; [rewrite <- !app_assoc; reflexivity|]. split; [exact Hc'|]. split.
    + destruct Hhead as (c0 & r & E1 & E2). exists c0, (r ++ [B64NL] ++ body' ++ [c']). split; [|exact E2].
      rewrite E1. rewrite <- !app_assoc. reflexivity.
    + rewrite !forallb_app, Hb', andb_true_r. apply andb_true_iff. split.
      * apply (forallb_impl is_b64out); [|exact Hout]. intros c Hc. unfold out_or_nl. rewrite Hc. reflexivity.
      * cbn. unfold out_or_nl. rewrite beq_refl, orb_true_r. reflexivity.
Qed.

(* Lemmas about the Python-bytes operations of Lib/Split.v *)
From Coq Require Import Arith.
From Httoop Require Import Lib.Bytes Lib.Split.
Local Open Scope N_scope.

Lemma prefixb_spec p l : prefixb p l = true <-> exists r, l = p ++ r.
Proof.
  revert l; induction p as [|a p IH]; intros l; cbn [prefixb].
  - split; [intros _; exists l; reflexivity | reflexivity].
  - destruct l as [|b l]; [split; [discriminate | intros [r H]; discriminate]|].
    rewrite andb_true_iff, beq_eq, IH. split.
    + intros [-> [r ->]]. exists r. reflexivity.
    + intros [r H]. injection H as -> ->. split; [reflexivity | exists r; reflexivity].
Qed.

Lemma prefixb_app p r : prefixb p (p ++ r) = true.
Proof. apply prefixb_spec. exists r. reflexivity. Qed.

Lemma prefixb_app_r p l r : prefixb p l = true -> prefixb p (l ++ r) = true.
Proof. rewrite !prefixb_spec. intros [x ->]. exists (x ++ r). apply app_assoc_reverse. Qed.

Lemma prefixb_length p l : prefixb p l = true -> (length p <= length l)%nat.
Proof. rewrite prefixb_spec. intros [r ->]. rewrite app_length. lia. Qed.

(* if l is at least as long as p, appending cannot change whether p is a prefix *)
Lemma prefixb_app_long p l r : (length p <= length l)%nat -> prefixb p (l ++ r) = prefixb p l.
Proof.
  revert l; induction p as [|a p IH]; intros l H; [reflexivity|].
  destruct l as [|b l]; [cbn in H; lia|]. cbn [app prefixb]. rewrite IH; [reflexivity | cbn in H; lia].
Qed.

Lemma skipn_app_exact {A} (p r : list A) : skipn (length p) (p ++ r) = r.
Proof. induction p; [reflexivity | assumption]. Qed.

(* characterisation of [cut]: the first occurrence *)
Lemma cut_some pat l a b : pat <> [] -> cut pat l = Some (a, b) -> l = a ++ pat ++ b.
Proof.
  intros Hp. revert a b; induction l as [|c l IH]; intros a b; cbn [cut]; [discriminate|].
  destruct (prefixb pat (c :: l)) eqn:E.
  - intros H. injection H as <- <-. apply prefixb_spec in E as [r E]. rewrite E, skipn_app_exact. reflexivity.
  - destruct (cut pat l) as [[a' b']|] eqn:C; [|discriminate].
    intros H. injection H as <- <-. cbn [app]. f_equal. apply IH. reflexivity.
Qed.

Lemma cut_length pat l a b : pat <> [] -> cut pat l = Some (a, b) ->
  length l = (length a + length pat + length b)%nat.
Proof. intros Hp H. rewrite (cut_some _ _ _ _ Hp H), !app_length. lia. Qed.

Lemma cut_rest_shorter pat l a b : pat <> [] -> cut pat l = Some (a, b) -> (length b < length l)%nat.
Proof.
  intros Hp H. pose proof (cut_length _ _ _ _ Hp H). destruct pat; [congruence|]. cbn [length] in *. lia.
Qed.

(* once found, the first occurrence stays where it is when more octets are appended *)
Lemma cut_app pat l a b r : cut pat l = Some (a, b) -> cut pat (l ++ r) = Some (a, b ++ r).
Proof.
  revert a b; induction l as [|c l IH]; intros a b; cbn [cut]; [discriminate|].
  destruct (prefixb pat (c :: l)) eqn:E.
  - intros H. injection H as <- <-. cbn [app cut]. change (c :: l ++ r) with ((c :: l) ++ r).
    rewrite (prefixb_app_r _ _ r E). f_equal. f_equal.
    apply prefixb_spec in E as [x E]. rewrite E, <- app_assoc, !skipn_app_exact. reflexivity.
  - destruct (cut pat l) as [[a' b']|] eqn:C; [|discriminate].
    intros H. injection H as <- <-. cbn [app cut]. change (c :: l ++ r) with ((c :: l) ++ r).
    destruct (prefixb pat ((c :: l) ++ r)) eqn:E2.
    + (* a match appearing only thanks to r would contradict a match further right existing in l?  no:
         it can happen only if pat is longer than the remaining l, but then cut pat l could not succeed *)
      exfalso.
      assert (Hlen : (length pat <= length (c :: l))%nat).
      { pose proof (IH _ _ eq_refl) as _. clear IH.
        assert (pat <> []) as Hp by (intros ->; cbn in E; discriminate).
        pose proof (cut_length _ _ _ _ Hp C). cbn [length]. lia. }
      rewrite (prefixb_app_long _ _ r Hlen) in E2. congruence.
    + rewrite (IH _ _ eq_refl). reflexivity.
Qed.

Lemma contains_app pat l r : contains pat l = true -> contains pat (l ++ r) = true.
Proof.
  unfold contains. destruct (cut pat l) as [[a b]|] eqn:C; [|discriminate]. intros _.
  rewrite (cut_app _ _ _ _ r C). reflexivity.
Qed.

(* ---- CRLF never straddles: splitting A ++ CRLF ++ B is splitting A and B ---- *)
Lemma prefixb_CRLF_cons c l : prefixb CRLF (c :: l) = beq CR c && match l with d :: _ => beq LF d | [] => false end.
Proof. unfold CRLF. cbn [prefixb]. destruct l as [|d l]; cbn [prefixb]; [rewrite andb_false_r; reflexivity|]. rewrite andb_true_r. reflexivity. Qed.

Lemma cut_CRLF_none_app A B : cut CRLF A = None -> cut CRLF (A ++ CRLF ++ B) = Some (A, B).
Proof.
  induction A as [|c A IH]; intros H.
  - reflexivity.
  - cbn [cut] in H. destruct (prefixb CRLF (c :: A)) eqn:P; [discriminate|].
    destruct (cut CRLF A) as [[a b]|] eqn:CA; [discriminate|].
    cbn [app cut].
    assert (P2 : prefixb CRLF (c :: A ++ CRLF ++ B) = false).
    { rewrite prefixb_CRLF_cons in *. destruct A as [|d A]; cbn [app].
      - unfold CRLF at 1. cbn [app]. destruct (beq CR c) eqn:E; [|reflexivity]. cbn [andb]. reflexivity.
      - exact P. }
    rewrite P2, (IH eq_refl). reflexivity.
Qed.

(* ---- split_all: fuel independence and the defining equation ---- *)
Lemma split_all_f_fuel pat : pat <> [] -> forall f1 f2 l, (length l < f1)%nat -> (length l < f2)%nat ->
  split_all_f f1 pat l = split_all_f f2 pat l.
Proof.
  intros Hp. induction f1 as [|f1 IH]; intros f2 l H1 H2; [lia|]. destruct f2 as [|f2]; [lia|].
  cbn [split_all_f]. destruct (cut pat l) as [[a b]|] eqn:Cu; [|reflexivity].
  f_equal. pose proof (cut_rest_shorter _ _ _ _ Hp Cu). apply IH; lia.
Qed.

Lemma split_all_eq pat l : pat <> [] ->
  split_all pat l = match cut pat l with None => [l] | Some (a, b) => a :: split_all pat b end.
Proof.
  intros Hp. unfold split_all at 1. cbn [split_all_f]. destruct (cut pat l) as [[a b]|] eqn:Cu; [|reflexivity].
  f_equal. unfold split_all. pose proof (cut_rest_shorter _ _ _ _ Hp Cu). apply split_all_f_fuel; [exact Hp | lia | lia].
Qed.

Lemma CRLF_ne : CRLF <> []. Proof. unfold CRLF; discriminate. Qed.

Lemma split_all_app_CRLF_len n : forall A B, (length A <= n)%nat ->
  split_all CRLF (A ++ CRLF ++ B) = split_all CRLF A ++ split_all CRLF B.
Proof.
  induction n as [|n IH]; intros A B Hn.
  - destruct A; [|cbn in Hn; lia]. cbn [app]. rewrite (split_all_eq CRLF (CRLF ++ B) CRLF_ne).
    change (CRLF ++ B) with ([] ++ CRLF ++ B). rewrite (cut_CRLF_none_app [] B eq_refl).
    rewrite (split_all_eq CRLF [] CRLF_ne). reflexivity.
  - rewrite (split_all_eq CRLF (A ++ CRLF ++ B) CRLF_ne), (split_all_eq CRLF A CRLF_ne).
    destruct (cut CRLF A) as [[a1 a2]|] eqn:Cu.
    + rewrite (cut_app _ _ _ _ (CRLF ++ B) Cu). cbn [app]. f_equal.
      pose proof (cut_length _ _ _ _ CRLF_ne Cu). apply IH. cbn [length CRLF] in *. lia.
    + rewrite (cut_CRLF_none_app A B Cu). reflexivity.
Qed.

Lemma split_all_app_CRLF A B : split_all CRLF (A ++ CRLF ++ B) = split_all CRLF A ++ split_all CRLF B.
Proof. apply (split_all_app_CRLF_len (length A)). lia. Qed.

Lemma cut_app_none pat a b : cut pat (a ++ b) = None -> cut pat a = None.
Proof. destruct (cut pat a) as [[x y]|] eqn:Cu; [|reflexivity]. rewrite (cut_app _ _ _ _ b Cu). discriminate. Qed.

(* rpartition and endswith *)
Lemma rcut_some pat l a b : pat <> [] -> rcut pat l = Some (a, b) -> l = a ++ pat ++ b.
Proof.
  intros Hp. unfold rcut. destruct (cut (rev pat) (rev l)) as [[x y]|] eqn:Cu; [|discriminate].
  intros H. injection H as <- <-.
  assert (Hr : rev pat <> []) by (destruct pat; [congruence|]; cbn; intros E; apply app_eq_nil in E as [_ E]; discriminate).
  apply cut_some in Cu; [|exact Hr]. apply (f_equal (@rev byte)) in Cu. rewrite rev_involutive in Cu.
  rewrite Cu, !rev_app_distr, rev_involutive, <- app_assoc. reflexivity.
Qed.

Lemma suffixb_spec p l : suffixb p l = true -> exists z, l = z ++ p /\ firstn (length l - length p) l = z.
Proof.
  unfold suffixb. intros H. apply prefixb_spec in H as [r H].
  apply (f_equal (@rev byte)) in H. rewrite rev_involutive, rev_app_distr, rev_involutive in H.
  exists (rev r). split; [exact H|]. rewrite H, app_length.
  replace (length (rev r) + length p - length p)%nat with (length (rev r)) by lia.
  rewrite firstn_app. replace (length (rev r) - length (rev r))%nat with O by lia. rewrite firstn_all. cbn. apply app_nil_r.
Qed.

(* the first CRLFCRLF of  HS ++ CRLF ++ x  when HS ++ CRLF contains none *)
Lemma prefixb_false_cons p c l : prefixb p (c :: l) = false -> p <> [] -> True.
Proof. trivial. Qed.

Lemma prefixb_CRLF2_short c x : prefixb (CRLF ++ CRLF) (c :: CRLF ++ x) = false.
Proof.
  unfold CRLF. cbn [app prefixb]. destruct (beq CR c); [|reflexivity]. cbn [andb].
  replace (beq LF CR) with false by reflexivity. reflexivity.
Qed.

Lemma cut_CRLF2_app HS : forall x, cut (CRLF ++ CRLF) (HS ++ CRLF) = None ->
  cut (CRLF ++ CRLF) (HS ++ CRLF ++ x) =
  if prefixb CRLF x then Some (HS, skipn 2 x)
  else match cut (CRLF ++ CRLF) x with Some (b1, b2) => Some (HS ++ CRLF ++ b1, b2) | None => None end.
Proof.
  induction HS as [|c HS IH]; intros x Hn.
  - cbn [app]. unfold CRLF at 3. cbn [app cut].
    assert (E : prefixb (CRLF ++ CRLF) (CR :: LF :: x) = prefixb CRLF x).
    { unfold CRLF. cbn [app prefixb]. rewrite !beq_refl. reflexivity. }
    rewrite E. destruct (prefixb CRLF x) eqn:P.
    + f_equal.
    + assert (E2 : prefixb (CRLF ++ CRLF) (LF :: x) = false) by (unfold CRLF; cbn [app prefixb]; replace (beq CR LF) with false by reflexivity; reflexivity).
      rewrite E2. destruct (cut (CRLF ++ CRLF) x) as [[b1 b2]|]; reflexivity.
  - cbn [app] in Hn. cbn [cut] in Hn.
    destruct (prefixb (CRLF ++ CRLF) (c :: HS ++ CRLF)) eqn:P; [discriminate|].
    destruct (cut (CRLF ++ CRLF) (HS ++ CRLF)) as [[u v]|] eqn:Cu; [discriminate|].
    cbn [app cut].
    assert (P2 : prefixb (CRLF ++ CRLF) (c :: HS ++ CRLF ++ x) = false).
    { destruct HS as [|d HS].
      - apply prefixb_CRLF2_short.
      - replace (c :: (d :: HS) ++ CRLF ++ x) with ((c :: (d :: HS) ++ CRLF) ++ x) by (cbn [app]; rewrite <- app_assoc; reflexivity).
        rewrite prefixb_app_long; [exact P|]. cbn [length app]. rewrite !app_length. cbn. lia. }
    rewrite P2, (IH x eq_refl).
    destruct (prefixb CRLF x); [reflexivity|]. destruct (cut (CRLF ++ CRLF) x) as [[b1 b2]|]; reflexivity.
Qed.

(* Lemmas about the Python-bytes operations of Lib/Split.v *)
From Httoop Require Import Lib.Bytes Lib.Split.
Local Open Scope N_scope.

Lemma prefixb_spec p l : prefixb p l = true <-> exists r, l = p ++ r.
Proof.
  revert l; induction p as [|a p IH]; intros l; cbn [prefixb].
  - split; [intros _; exists l; reflexivity | reflexivity].
  - destruct l as [|b l]; [split; [discriminate | intros [r H]; discriminate]|].
    rewrite andb_true_iff, beq_eq, IH. split.
    + intros [-> [r ->]]. exists r. reflexivity.
    + intros [r H]. injection H as -> ->. split; [reflexivity | exists r; reflexivity].
Qed.

Lemma prefixb_app p r : prefixb p (p ++ r) = true.
Proof. apply prefixb_spec. exists r. reflexivity. Qed.

Lemma prefixb_app_r p l r : prefixb p l = true -> prefixb p (l ++ r) = true.
Proof. rewrite !prefixb_spec. intros [x ->]. exists (x ++ r). apply app_assoc_reverse. Qed.

Lemma prefixb_length p l : prefixb p l = true -> (length p <= length l)%nat.
Proof. rewrite prefixb_spec. intros [r ->]. rewrite app_length. lia. Qed.

(* if l is at least as long as p, appending cannot change whether p is a prefix *)
Lemma prefixb_app_long p l r : (length p <= length l)%nat -> prefixb p (l ++ r) = prefixb p l.
Proof.
  revert l; induction p as [|a p IH]; intros l H; [reflexivity|].
  destruct l as [|b l]; [cbn in H; lia|]. cbn [app prefixb]. rewrite IH; [reflexivity | cbn in H; lia].
Qed.

Lemma skipn_app_exact {A} (p r : list A) : skipn (length p) (p ++ r) = r.
Proof. induction p; [reflexivity | assumption]. Qed.

(* characterisation of [cut]: the first occurrence *)
Lemma cut_some pat l a b : pat <> [] -> cut pat l = Some (a, b) -> l = a ++ pat ++ b.
Proof.
  intros Hp. revert a b; induction l as [|c l IH]; intros a b; cbn [cut]; [discriminate|].
  destruct (prefixb pat (c :: l)) eqn:E.
  - intros H. injection H as <- <-. apply prefixb_spec in E as [r E]. rewrite E, skipn_app_exact. reflexivity.
  - destruct (cut pat l) as [[a' b']|] eqn:C; [|discriminate].
    intros H. injection H as <- <-. cbn [app]. f_equal. apply IH. reflexivity.
Qed.

Lemma cut_length pat l a b : pat <> [] -> cut pat l = Some (a, b) ->
  length l = (length a + length pat + length b)%nat.
Proof. intros Hp H. rewrite (cut_some _ _ _ _ Hp H), !app_length. lia. Qed.

Lemma cut_rest_shorter pat l a b : pat <> [] -> cut pat l = Some (a, b) -> (length b < length l)%nat.
Proof.
  intros Hp H. pose proof (cut_length _ _ _ _ Hp H). destruct pat; [congruence|]. cbn [length] in *. lia.
Qed.

(* once found, the first occurrence stays where it is when more octets are appended *)
Lemma cut_app pat l a b r : cut pat l = Some (a, b) -> cut pat (l ++ r) = Some (a, b ++ r).
Proof.
  revert a b; induction l as [|c l IH]; intros a b; cbn [cut]; [discriminate|].
  destruct (prefixb pat (c :: l)) eqn:E.
  - intros H. injection H as <- <-. cbn [app cut]. change (c :: l ++ r) with ((c :: l) ++ r).
    rewrite (prefixb_app_r _ _ r E). f_equal. f_equal.
    apply prefixb_spec in E as [x E]. rewrite E, <- app_assoc, !skipn_app_exact. reflexivity.
  - destruct (cut pat l) as [[a' b']|] eqn:C; [|discriminate].
    intros H. injection H as <- <-. cbn [app cut]. change (c :: l ++ r) with ((c :: l) ++ r).
    destruct (prefixb pat ((c :: l) ++ r)) eqn:E2.
    + (* a match appearing only thanks to r would contradict a match further right existing in l?  no:
         it can happen only if pat is longer than the remaining l, but then cut pat l could not succeed *)
      exfalso.
      assert (Hlen : (length pat <= length (c :: l))%nat).
      { pose proof (IH _ _ eq_refl) as _. clear IH.
        assert (pat <> []) as Hp by (intros ->; cbn in E; discriminate).
        pose proof (cut_length _ _ _ _ Hp C). cbn [length]. lia. }
      rewrite (prefixb_app_long _ _ r Hlen) in E2. congruence.
    + rewrite (IH _ _ eq_refl). reflexivity.
Qed.

Lemma contains_app pat l r : contains pat l = true -> contains pat (l ++ r) = true.
Proof.
  unfold contains. destruct (cut pat l) as [[a b]|] eqn:C; [|discriminate]. intros _.
  rewrite (cut_app _ _ _ _ r C). reflexivity.
Qed.

(* ---- CRLF never straddles: splitting A ++ CRLF ++ B is splitting A and B ---- *)
Lemma prefixb_CRLF_cons c l : prefixb CRLF (c :: l) = beq CR c && match l with d :: _ => beq LF d | [] => false end.
Proof. unfold CRLF. cbn [prefixb]. destruct l as [|d l]; cbn [prefixb]; [rewrite andb_false_r; reflexivity|]. rewrite andb_true_r. reflexivity. Qed.

Lemma cut_CRLF_none_app A B : cut CRLF A = None -> cut CRLF (A ++ CRLF ++ B) = Some (A, B).
Proof.
  induction A as [|c A IH]; intros H.
  - reflexivity.
  - cbn [cut] in H. destruct (prefixb CRLF (c :: A)) eqn:P; [discriminate|].
    destruct (cut CRLF A) as [[a b]|] eqn:CA; [discriminate|].
    cbn [app cut].
    assert (P2 : prefixb CRLF (c :: A ++ CRLF ++ B) = false).
    { rewrite prefixb_CRLF_cons in *. destruct A as [|d A]; cbn [app].
      - unfold CRLF at 1. cbn [app]. destruct (beq CR c) eqn:E; [|reflexivity]. cbn [andb]. reflexivity.
      - exact P. }
    rewrite P2, (IH eq_refl). reflexivity.
Qed.

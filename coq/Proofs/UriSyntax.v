(* C10: URI.compose followed by URI.parse gives the components back.
   Stage 1: octet classes of every composed piece (no delimiter of its position survives).
   Stage 2: per-component lemmas (port, path, query, user information, host).
   Stage 3: the cascade of URI.parse applied to a composed URI (uri_split), then the decoding (uri_decode).
   Stage 4: assembly, corollaries, refutations for the pinned tree. *)
From Httoop Require Import Lib.Bytes Gen.PercentT Gen.UriT Model.Percent Proofs.Percent Proofs.Form Model.UriSyntax Proofs.UriSplit.
Local Open Scope N_scope.

(* ================= Stage 1: octet classes ================= *)

(* printable (in the sense of URI.parse) and none of the listed delimiters *)
Definition excl (ds : bytes) (c : byte) : bool :=
  inmask URI_PRINTABLE c && forallb (fun d => negb (beq c d)) ds.

Lemma excl_none ds d l : In d ds -> forallb (excl ds) l = true -> none d l = true.
Proof.
  intros Hd. induction l as [|c l IH]; [reflexivity|]. cbn [forallb]. intros H. apply andb_true_iff in H as [Hc Hl].
  rewrite none_cons, (IH Hl), andb_true_r. unfold excl in Hc. apply andb_true_iff in Hc as [_ Hc].
  rewrite forallb_forall in Hc. apply Hc, Hd.
Qed.

Lemma excl_printable ds l : forallb (excl ds) l = true -> forallb (inmask URI_PRINTABLE) l = true.
Proof.
  induction l as [|c l IH]; [reflexivity|]. cbn [forallb]. intros H. apply andb_true_iff in H as [Hc Hl].
  rewrite (IH Hl), andb_true_r. unfold excl in Hc. apply andb_true_iff in Hc as [Hc _]. exact Hc.
Qed.

Lemma excl_weaken1 ds ds' c : incl ds' ds -> excl ds c = true -> excl ds' c = true.
Proof.
  intros Hi H. unfold excl in *. apply andb_true_iff in H as [H1 H2]. rewrite H1. cbn [andb].
  rewrite forallb_forall in *. intros d Hd. apply H2, Hi, Hd.
Qed.

Lemma excl_weaken ds ds' l : incl ds' ds -> forallb (excl ds) l = true -> forallb (excl ds') l = true.
Proof.
  intros Hi H. rewrite forallb_forall in *. intros c Hc. eapply excl_weaken1; [exact Hi | apply H, Hc].
Qed.

Lemma excl_cons d ds c : excl (d :: ds) c = negb (beq c d) && excl ds c.
Proof. unfold excl. cbn [forallb]. destruct (inmask URI_PRINTABLE c), (beq c d); reflexivity. Qed.


(* a 256-case implication between octet predicates *)
Lemma implb_all (P Q : byte -> bool) :
  forallb (fun c => implb (P c) (Q c)) all_bytes = true -> forall c, P c = true -> Q c = true.
Proof. intros H c Hc. pose proof (forall_byte _ H c) as G. cbn beta in G. rewrite Hc in G. exact G. Qed.

Definition D5 : bytes := [COLON; AT; SLASH; QMARK; HASH].
Definition D4 : bytes := [AT; SLASH; QMARK; HASH].
(* the gen-delims of RFC 3986, and the ones that may not occur after the user name *)
Definition D6 : bytes := [COLON; AT; SLASH; QMARK; HASH; LBR; RBR].
Definition P6 : bytes := [AT; SLASH; QMARK; HASH; LBR; RBR].
Ltac incl_tac := let x := fresh in let H := fresh in unfold incl, D4, D5, D6, P6; intros x H; cbn [In] in H |- *; tauto.

(* table lemmas: re-checked whenever a regenerated set changes *)
Lemma tbl_hex c : is_upper_hex c = true -> excl D6 c = true.
Proof. revert c. apply implb_all. vm_compute. reflexivity. Qed.
Lemma tbl_pct : excl D6 PCT = true.
Proof. vm_compute. reflexivity. Qed.
Lemma tbl_user_repaired c : eff_safe (user_safe Repaired) c = true -> excl D6 c = true.
Proof. revert c. apply implb_all. vm_compute. reflexivity. Qed.
Lemma tbl_userinfo c : eff_safe PCT_USERINFO c = true -> excl P6 c = true.
Proof. revert c. apply implb_all. vm_compute. reflexivity. Qed.
Lemma tbl_path c : eff_safe PCT_PATH c = true -> excl [QMARK; HASH; LBR; RBR] c = true.
Proof. revert c. apply implb_all. vm_compute. reflexivity. Qed.
Lemma tbl_fragment c : eff_safe PCT_FRAGMENT c = true -> excl [HASH; LBR; RBR] c = true.
Proof. revert c. apply implb_all. vm_compute. reflexivity. Qed.
Lemma tbl_query c : eff_safe QS_UNQUOTED c = true -> excl [HASH; LBR; RBR] c = true.
Proof. revert c. apply implb_all. vm_compute. reflexivity. Qed.
Lemma tbl_digit c : is_digit c = true -> excl D6 c = true.
Proof. revert c. apply implb_all. vm_compute. reflexivity. Qed.
Lemma tbl_digit_not c : is_digit c = true -> beq c COLON = false /\ beq c RBR = false.
Proof.
  intros H. assert (G : negb (beq c COLON) && negb (beq c RBR) = true).
  { revert c H. apply implb_all. vm_compute. reflexivity. }
  apply andb_true_iff in G as [G1 G2]. apply negb_true_iff in G1, G2. auto.
Qed.
Lemma tbl_scheme c : inmask URI_SCHEME_CHARS c = true ->
  excl D5 c && beq (lower1 c) c && eff_safe PCT_SCHEME c = true.
Proof. revert c. apply implb_all. vm_compute. reflexivity. Qed.
Lemma tbl_path_keeps : eff_safe PCT_PATH SLASH = true /\ eff_safe PCT_PATH COLON = true.
Proof. split; vm_compute; reflexivity. Qed.
Lemma tbl_hex_not_cs c : is_upper_hex c = true -> beq c COLON = false /\ beq c SLASH = false.
Proof.
  intros H. assert (G : negb (beq c COLON) && negb (beq c SLASH) = true).
  { revert c H. apply implb_all. vm_compute. reflexivity. }
  apply andb_true_iff in G as [G1 G2]. apply negb_true_iff in G1, G2. auto.
Qed.

(* every default port of the scheme registry is a valid port *)
Lemma scheme_port_range s : match scheme_port s with Some p => 0 < p /\ p <= 65535 | None => True end.
Proof.
  assert (T : forallb (fun kv => match snd kv with Some p => (0 <? p) && (p <=? 65535) | None => true end) URI_SCHEMES = true)
    by (vm_compute; reflexivity).
  assert (B : match URI_BASE_PORT with Some p => (0 <? p) && (p <=? 65535) | None => true end = true)
    by (vm_compute; reflexivity).
  unfold scheme_port. destruct (find _ URI_SCHEMES) as [kv|] eqn:E.
  - apply find_some in E as [E _]. rewrite forallb_forall in T. specialize (T kv E). cbn beta in T.
    destruct (snd kv); [|trivial]. apply andb_true_iff in T as [T1 T2]. apply N.ltb_lt in T1. apply N.leb_le in T2. auto.
  - destruct URI_BASE_PORT; [|trivial]. apply andb_true_iff in B as [T1 T2]. apply N.ltb_lt in T1. apply N.leb_le in T2. auto.
Qed.

(* the octets of a (two-digit) quoted string: safe octets of the data, '%' and upper-case hex digits *)
Lemma quote_forallb (P : byte -> bool) safe d :
  (forall c, In c d -> eff_safe safe c = true -> P c = true) ->
  P PCT = true -> (forall c, is_upper_hex c = true -> P c = true) ->
  forallb P (quote Repaired safe d) = true.
Proof.
  intros Hs Hp Hh. induction d as [|c d IH]; [reflexivity|].
  rewrite quote_cons, forallb_app, IH by (intros x Hx; apply Hs; right; exact Hx). rewrite andb_true_r.
  unfold quote1. destruct (eff_safe safe c) eqn:E.
  - cbn [forallb]. rewrite (Hs c (or_introl eq_refl) E). reflexivity.
  - cbn [esc forallb]. rewrite Hp, (Hh _ (hexU_hi c)), (Hh _ (hexU_lo c)). reflexivity.
Qed.

Lemma quote_excl ds safe d :
  incl ds D6 -> (forall c, In c d -> eff_safe safe c = true -> excl ds c = true) ->
  forallb (excl ds) (quote Repaired safe d) = true.
Proof.
  intros Hi Hs. apply quote_forallb; [exact Hs | |].
  - eapply excl_weaken1; [exact Hi | exact tbl_pct].
  - intros c Hc. eapply excl_weaken1; [exact Hi | apply tbl_hex, Hc].
Qed.

Lemma nonempty_quote v safe d : nonempty (quote v safe d) = nonempty d.
Proof. unfold quote. apply nonempty_flat_map. intros c. apply quote1_nonnil. Qed.

Lemma nonempty_true (l : bytes) : nonempty l = true -> l <> [].
Proof. destruct l; [discriminate | congruence]. Qed.
Lemma nonempty_false (l : bytes) : nonempty l = false -> l = [].
Proof. destruct l; [reflexivity | discriminate]. Qed.

(* the octets of an encoded query string *)
Lemma R_forallb (P : byte -> bool) safe d :
  (forall c, eff_safe safe c = true -> P c = true) -> P PLUS = true -> P PCT = true ->
  (forall c, is_upper_hex c = true -> P c = true) -> forallb P (R safe d) = true.
Proof.
  intros Hs Hpl Hp Hh. induction d as [|c d IH]; [reflexivity|].
  unfold R in *. cbn [flat_map]. rewrite forallb_app, IH, andb_true_r. unfold r1.
  destruct (eff_safe safe c) eqn:E; [cbn [forallb]; rewrite (Hs c E); reflexivity|].
  destruct (beq c SPC); [cbn [forallb]; rewrite Hpl; reflexivity|].
  cbn [esc forallb]. rewrite Hp, (Hh _ (hexU_hi c)), (Hh _ (hexU_lo c)). reflexivity.
Qed.

Lemma form_encode_excl ps : forallb (excl [HASH; LBR; RBR]) (form_encode Repaired QS_UNQUOTED ps) = true.
Proof.
  unfold form_encode. rewrite (repl20_join _ qs_unquoted_ok).
  assert (HR : forall d, forallb (excl [HASH; LBR; RBR]) (R QS_UNQUOTED d) = true).
  { intros d. apply R_forallb; [apply tbl_query | reflexivity | reflexivity |].
    intros c Hc. eapply excl_weaken1; [|apply tbl_hex, Hc]. incl_tac. }
  apply forallb_join; [reflexivity|]. apply Forall_map, Forall_forall. intros p _.
  unfold mk_pair. destruct (nonempty _ && nonempty _); rewrite !forallb_app, !HR; reflexivity.
Qed.

(* "://" cannot be produced by quoting a path that does not contain it *)
Lemma rpart_css_block blk r : none COLON blk = true -> rpart CSS r = None -> rpart CSS (blk ++ r) = None.
Proof.
  intros Hb Hr. induction blk as [|c blk IH]; [exact Hr|]. rewrite none_cons in Hb.
  apply andb_true_iff in Hb as [Hc Hb]. apply negb_true_iff in Hc. cbn [app].
  apply rpart_cons_none; [apply IH, Hb|]. unfold CSS. cbn [starts_with]. rewrite beq_sym, Hc. reflexivity.
Qed.

Definition hd_slash (l : bytes) : bool := match l with c :: _ => beq c SLASH | [] => false end.

Lemma quote1_path_cases c :
  (beq c COLON = true \/ beq c SLASH = true) /\ quote1 Repaired PCT_PATH c = [c] \/
  beq c COLON = false /\ beq c SLASH = false /\
  exists b bs, quote1 Repaired PCT_PATH c = b :: bs /\ beq b SLASH = false /\ none COLON (b :: bs) = true.
Proof.
  destruct tbl_path_keeps as [KS KC].
  destruct (beq_spec c COLON) as [->|Hc]; [left; split; [auto|]; unfold quote1; rewrite KC; reflexivity|].
  destruct (beq_spec c SLASH) as [->|Hs]; [left; split; [auto|]; unfold quote1; rewrite KS; reflexivity|].
  right. apply beq_neq in Hc, Hs. repeat split; try assumption. unfold quote1.
  destruct (eff_safe PCT_PATH c).
  - exists c, []. rewrite none_cons, Hc. auto.
  - cbn [esc]. do 2 eexists. split; [reflexivity|]. split; [reflexivity|].
    destruct (tbl_hex_not_cs _ (hexU_hi c)) as [A _]. destruct (tbl_hex_not_cs _ (hexU_lo c)) as [B _].
    rewrite !none_cons, A, B. reflexivity.
Qed.

Lemma hd_slash_quote l : hd_slash (quote Repaired PCT_PATH l) = hd_slash l.
Proof.
  destruct l as [|c l]; [reflexivity|]. rewrite quote_cons. cbn [hd_slash].
  destruct (quote1_path_cases c) as [[_ E] | (Hc & Hs & b & bs & E & Hb & _)]; rewrite E; cbn [app hd_slash]; congruence.
Qed.

Lemma starts_ss_hd l : starts_with [SLASH; SLASH] l = hd_slash l && hd_slash (tl l).
Proof.
  destruct l as [|a [|b l]]; cbn [starts_with hd_slash tl]; rewrite ?andb_true_r, ?andb_false_r; try reflexivity.
  rewrite (beq_sym SLASH a), (beq_sym SLASH b). reflexivity.
Qed.

Lemma quote_no_css l : rpart CSS l = None -> rpart CSS (quote Repaired PCT_PATH l) = None.
Proof.
  induction l as [|c l IH]; [reflexivity|]. rewrite rpart_cons_eq.
  destruct (rpart CSS l) as [[a b]|] eqn:E; [discriminate|]. specialize (IH eq_refl).
  destruct (starts_with CSS (c :: l)) eqn:S; [discriminate|]. intros _. rewrite quote_cons.
  destruct (quote1_path_cases c) as [[Hk Eq] | (Hc & Hs & b & bs & Eq & Hb & Hn)]; rewrite Eq.
  - cbn [app]. apply rpart_cons_none; [exact IH|].
    unfold CSS in *. cbn [starts_with] in *. destruct (beq COLON c) eqn:Ec; [|reflexivity]. cbn [andb] in *.
    change (starts_with [SLASH; SLASH] (quote Repaired PCT_PATH l) = false).
    change (starts_with [SLASH; SLASH] l = false) in S. rewrite starts_ss_hd in *.
    rewrite hd_slash_quote. destruct l as [|x l]; [reflexivity|]. cbn [hd_slash tl] in *.
    destruct (beq x SLASH) eqn:Ex; [|reflexivity]. cbn [andb] in *.
    apply beq_eq in Ex. subst x. rewrite quote_cons. destruct tbl_path_keeps as [KS _].
    unfold quote1 at 1. rewrite KS. cbn [app tl]. rewrite hd_slash_quote. exact S.
  - apply rpart_css_block; assumption.
Qed.

(* quoting a path segment-wise is quoting the path ('/' is in the safe set of a path) *)
Lemma join_map_quote_split v safe l :
  eff_safe safe SLASH = true ->
  join [SLASH] (map (quote v safe) (split1 SLASH l)) = quote v safe l.
Proof.
  intros Hs. induction l as [|c l IH]; [reflexivity|]. rewrite split1_cons_eq.
  destruct (beq_spec c SLASH) as [->|Hc].
  - rewrite map_cons, join_cons by (destruct (split1 SLASH l) eqn:E; [exfalso; eapply split1_nonnil; eauto | cbn; congruence]).
    rewrite IH, quote_cons. unfold quote1. rewrite Hs. reflexivity.
  - destruct (split1 SLASH l) as [|h t] eqn:E; [exfalso; eapply split1_nonnil; eauto|].
    rewrite (quote_cons v safe c l), <- IH. destruct t as [|h2 t].
    + cbn [map join]. apply quote_cons.
    + rewrite !map_cons, !join_cons by (cbn; congruence). rewrite quote_cons, <- app_assoc. reflexivity.
Qed.

Lemma ends_with1_forallb c (P : byte -> bool) l :
  (forall x, P x = true -> beq x c = false) -> forallb P l = true -> ends_with1 c l = false.
Proof.
  intros HP H. unfold ends_with1. destruct (rev l) as [|x r] eqn:E; [reflexivity|].
  apply HP. rewrite forallb_forall in H. apply H. apply in_rev. rewrite E. left. reflexivity.
Qed.

Lemma ends_with1_other c d l : ends_with1 c l = true -> c <> d -> ends_with1 d l = false.
Proof.
  unfold ends_with1. destruct (rev l) as [|x r]; [discriminate|]. intros H Hn. apply beq_eq in H. subst x.
  apply beq_neq. exact Hn.
Qed.

Lemma lower_id s : forallb (fun c => beq (lower1 c) c) s = true -> lower s = s.
Proof.
  induction s as [|c s IH]; [reflexivity|]. cbn [forallb]. intros H. apply andb_true_iff in H as [Hc Hs].
  apply beq_eq in Hc. unfold lower in *. cbn [map]. rewrite Hc, (IH Hs). reflexivity.
Qed.

(* ================= Stage 2: the pieces of a composed URI ================= *)

Definition S_of (scheme : bytes) : bytes := if nonempty scheme then scheme ++ [COLON] else [].
Definition U_of (has_user : bool) (qu qp : bytes) : bytes :=
  if has_user then (qu ++ (if nonempty qp then COLON :: qp else [])) ++ [AT] else [].
Definition Pt_of (dg : bytes) : bytes := if nonempty dg then COLON :: dg else [].
Definition Q_of (q : bytes) : bytes := if nonempty q then QMARK :: q else [].
Definition F_of (qf : bytes) : bytes := if nonempty qf then HASH :: qf else [].

(* the wire form of a host: printable, free of the delimiters that end an authority or a host, and
   if it contains ':' it is a bracketed literal *)
Definition wire_ok (a : bytes) : bool :=
  nonempty a && forallb (excl D4) a && (none COLON a || ends_with1 RBR a).

Ltac leaf_none :=
  match goal with
  | H : forallb (excl ?ds) ?l = true |- none ?d ?l = true =>
      apply (excl_none ds d l); [unfold D4, D5, D6, P6; cbn [In]; auto 10 | exact H]
  end.

Lemma forallb_weaken (P Q : byte -> bool) l : (forall c, P c = true -> Q c = true) -> forallb P l = true -> forallb Q l = true.
Proof. intros HPQ H. rewrite forallb_forall in *. intros c Hc. apply HPQ, H, Hc. Qed.

Lemma forallb_weaken_gen {T} (P Q : T -> bool) l : (forall c, P c = true -> Q c = true) -> forallb P l = true -> forallb Q l = true.
Proof. intros HPQ H. rewrite forallb_forall in *. intros c Hc. apply HPQ, H, Hc. Qed.

Section Split.
Variables scheme qu qp a dg Pa q qf : bytes.
Variable has_user : bool.
Hypothesis Hscheme : forallb (excl D5) scheme = true.
Hypothesis Hqu : forallb (excl D5) qu = true.
Hypothesis Hqp : forallb (excl D4) qp = true.
Hypothesis Hnouser : has_user = false -> qu = [] /\ qp = [].
Hypothesis Ha : wire_ok a = true.
Hypothesis Hdg : forallb is_digit dg = true.
Hypothesis HPa : forallb (excl [QMARK; HASH]) Pa = true.
Hypothesis HPa_abs : Pa = [] \/ exists p', Pa = SLASH :: p'.
Hypothesis HPa_css : rpart CSS Pa = None.
Hypothesis Hq : forallb (excl [HASH]) q = true.

Let A := U_of has_user qu qp ++ a ++ Pt_of dg.

Lemma a_facts : a <> [] /\ forallb (excl D4) a = true /\ (none COLON a = true \/ ends_with1 RBR a = true).
Proof.
  unfold wire_ok in Ha. apply andb_true_iff in Ha as [H12 H3]. apply andb_true_iff in H12 as [H1 H2].
  apply orb_true_iff in H3. split; [apply nonempty_true, H1 | split; assumption].
Qed.

Lemma dg_excl : forallb (excl D6) dg = true.
Proof. eapply forallb_weaken; [apply tbl_digit | exact Hdg]. Qed.

Lemma class_S : forallb (excl D4) (S_of scheme) = true.
Proof.
  unfold S_of. destruct (nonempty scheme); [|reflexivity]. rewrite forallb_app.
  rewrite (excl_weaken D5 D4 scheme) by (try incl_tac; exact Hscheme). reflexivity.
Qed.

Lemma class_U : forallb (excl [SLASH; QMARK; HASH]) (U_of has_user qu qp) = true.
Proof.
  unfold U_of. destruct has_user; [|reflexivity]. rewrite !forallb_app.
  rewrite (excl_weaken D5 _ qu) by (try incl_tac; exact Hqu).
  destruct (nonempty qp); [|reflexivity]. cbn [forallb].
  rewrite (excl_weaken D4 _ qp) by (try incl_tac; exact Hqp). reflexivity.
Qed.

Lemma class_Pt : forallb (excl D4) (Pt_of dg) = true.
Proof.
  unfold Pt_of. destruct (nonempty dg); [|reflexivity]. cbn [forallb].
  rewrite (excl_weaken D6 D4 dg) by (try incl_tac; exact dg_excl). reflexivity.
Qed.

Lemma class_hp : forallb (excl D4) (a ++ Pt_of dg) = true.
Proof. destruct a_facts as (_ & H & _). rewrite forallb_app, H, class_Pt. reflexivity. Qed.

Lemma class_A : forallb (excl [SLASH; QMARK; HASH]) A = true.
Proof.
  unfold A. rewrite forallb_app, class_U. cbn [andb].
  apply (excl_weaken D4); [incl_tac | exact class_hp].
Qed.

Lemma hp_nonnil : a ++ Pt_of dg <> [].
Proof. destruct a_facts as (H & _). destruct a; [congruence | cbn; congruence]. Qed.

Lemma hp_not_colon_end : ends_with1 COLON (a ++ Pt_of dg) = false.
Proof.
  destruct a_facts as (Hne & _ & Hc). unfold Pt_of. destruct (nonempty dg) eqn:E.
  - rewrite ends_with1_app by congruence.
    replace (COLON :: dg) with ([COLON] ++ dg) by reflexivity. rewrite ends_with1_app by (apply nonempty_true, E).
    apply (ends_with1_forallb COLON is_digit); [|exact Hdg].
    intros x Hx. apply (tbl_digit_not x Hx).
  - rewrite app_nil_r. destruct Hc as [Hc | Hc].
    + apply (ends_with1_forallb COLON (fun c => negb (beq c COLON))); [|exact Hc].
      intros x Hx. apply negb_true_iff in Hx. exact Hx.
    + apply (ends_with1_other RBR); [exact Hc | discriminate].
Qed.

Lemma A_not_colon_end : ends_with1 COLON A = false.
Proof. unfold A. rewrite ends_with1_app by exact hp_nonnil. exact hp_not_colon_end. Qed.

(* host, port = hostport.rpartition(':')[::2] unless the host is a bracketed literal without port *)
Lemma hostport_split :
  (let hp := a ++ Pt_of dg in
   if contains COLON hp && negb (ends_with1 RBR hp) then
     match rpart [COLON] hp with Some (x, y) => (x, y) | None => (hp, []) end
   else (hp, [])) = (a, dg).
Proof.
  cbv zeta. destruct a_facts as (Hne & _ & Hc). unfold Pt_of. destruct (nonempty dg) eqn:E.
  - assert (Hd : none COLON dg = true) by (pose proof dg_excl; leaf_none).
    rewrite contains_none, none_app, none_cons, beq_refl. cbn [negb andb]. rewrite andb_false_r. cbn [negb andb].
    rewrite ends_with1_app by congruence.
    replace (COLON :: dg) with ([COLON] ++ dg) by reflexivity. rewrite ends_with1_app by (apply nonempty_true, E).
    rewrite (ends_with1_forallb RBR is_digit dg); [|intros x Hx|exact Hdg].
    + cbn [negb app]. rewrite (rpart1_app _ _ _ Hd). reflexivity.
    + apply (tbl_digit_not x Hx).
  - rewrite (nonempty_false _ E), app_nil_r. rewrite contains_none. destruct Hc as [Hc | Hc]; rewrite Hc; [reflexivity|].
    cbn [negb]. rewrite andb_false_r. reflexivity.
Qed.

Lemma split_composed :
  uri_split ((((S_of scheme ++ [SLASH; SLASH]) ++ A ++ Pa) ++ Q_of q) ++ F_of qf)
  = mkRaw scheme qu qp a dg Pa q qf.
Proof.
  pose proof class_S as CS. pose proof class_A as CA.
  assert (N1 : none HASH (((S_of scheme ++ [SLASH; SLASH]) ++ A ++ Pa) ++ Q_of q) = true).
  { rewrite !none_app. replace (none HASH (Q_of q)) with true
      by (unfold Q_of; destruct (nonempty q); [rewrite none_cons; symmetry; cbn [negb]; rewrite andb_true_l; leaf_none | reflexivity]).
    rewrite !andb_true_r. repeat (apply andb_true_iff; split); try leaf_none; try reflexivity. }
  assert (N2 : none QMARK ((S_of scheme ++ [SLASH; SLASH]) ++ A ++ Pa) = true).
  { rewrite !none_app. repeat (apply andb_true_iff; split); try leaf_none; try reflexivity. }
  assert (N3 : none SLASH A = true) by leaf_none.
  assert (N4 : none AT (a ++ Pt_of dg) = true) by (pose proof class_hp; leaf_none).
  assert (R0 : rpart CSS (A ++ Pa) = None) by (apply rpart_css_app_none; [exact N3 | exact A_not_colon_end | exact HPa_css]).
  unfold uri_split, F_of.
  rewrite (partition1_opt HASH _ qf N1). cbv beta iota. unfold Q_of.
  rewrite (partition1_opt QMARK _ q N2). cbv beta iota.
  assert (E3 : (let '(scheme0, authx, rest) :=
                  match rpart CSS ((S_of scheme ++ [SLASH; SLASH]) ++ A ++ Pa) with
                  | Some (x, y) => (x, true, y)
                  | None => ([], false, (S_of scheme ++ [SLASH; SLASH]) ++ A ++ Pa)
                  end in
                let '(authx0, rest0) :=
                  if negb authx && starts_with [SLASH; SLASH] rest then (true, skipn 2 rest) else (authx, rest) in
                (scheme0, authx0, rest0)) = (scheme, true, A ++ Pa)).
  { unfold S_of. destruct (nonempty scheme) eqn:E.
    - replace (((scheme ++ [COLON]) ++ [SLASH; SLASH]) ++ A ++ Pa) with (scheme ++ CSS ++ A ++ Pa)
        by (unfold CSS; rewrite <- !app_assoc; reflexivity).
      rewrite (rpart_css_app _ _ R0). reflexivity.
    - rewrite (nonempty_false _ E). cbn [app]. rewrite (rpart_css_slashslash _ R0).
      cbn [negb andb starts_with]. rewrite !beq_refl. reflexivity. }
  destruct (match rpart CSS ((S_of scheme ++ [SLASH; SLASH]) ++ A ++ Pa) with
            | Some (x, y) => (x, true, y)
            | None => ([], false, (S_of scheme ++ [SLASH; SLASH]) ++ A ++ Pa)
            end) as [[s0 ax] r0].
  destruct (if negb ax && starts_with [SLASH; SLASH] r0 then (true, skipn 2 r0) else (ax, r0)) as [ax0 r1].
  injection E3 as -> -> ->. cbn [negb andb]. cbv beta iota.
  rewrite (partf_path A Pa N3 HPa_abs). cbv beta iota.
  unfold A at 1 2. unfold U_of at 1 2.
  rewrite (rpart_at_opt has_user _ _ N4). cbv beta iota.
  assert (E6 : partition1 COLON (if has_user then qu ++ (if nonempty qp then COLON :: qp else []) else []) = (qu, qp)).
  { destruct has_user.
    - apply partition1_opt. leaf_none.
    - destruct (Hnouser eq_refl) as [-> ->]. reflexivity. }
  rewrite E6. cbv beta iota.
  pose proof hostport_split as E7. cbv zeta in E7. rewrite E7. reflexivity.
Qed.

Lemma composed_printable :
  forallb (excl []) qf = true ->
  forallb (inmask URI_PRINTABLE) ((((S_of scheme ++ [SLASH; SLASH]) ++ A ++ Pa) ++ Q_of q) ++ F_of qf) = true.
Proof.
  intros Hqf. rewrite !forallb_app.
  rewrite (excl_printable _ _ class_S), (excl_printable _ _ class_A), (excl_printable _ _ HPa).
  replace (forallb (inmask URI_PRINTABLE) (Q_of q)) with true
    by (unfold Q_of; destruct (nonempty q); [cbn [forallb]; rewrite (excl_printable _ _ Hq)|]; reflexivity).
  replace (forallb (inmask URI_PRINTABLE) (F_of qf)) with true
    by (unfold F_of; destruct (nonempty qf); [cbn [forallb]; rewrite (excl_printable _ _ Hqf)|]; reflexivity).
  reflexivity.
Qed.

End Split.

(* ---------- D21: which octets reach the stringprep check of QueryString.decode ---------- *)
Definition c21free (d : bytes) : bool := forallb (fun c => negb (inmask QS_INVALID c)) d.
Definition sp (c : byte) : byte := if beq c SPC then PLUS else c.

Lemma unq_cons_other c l : beq c PCT = false -> unq (c :: l) = c :: unq l.
Proof. intros H. cbn [unq]. rewrite H. reflexivity. Qed.

Lemma unq_r1 c rest : unq (r1 QS_UNQUOTED c ++ rest) = sp c :: unq rest.
Proof.
  unfold r1, sp. destruct (eff_safe QS_UNQUOTED c) eqn:Hs.
  - destruct (safe_not _ qs_unquoted_ok c Hs) as (_ & _ & _ & Hsp & Hp). rewrite Hsp. cbn [app]. apply unq_cons_other, Hp.
  - destruct (beq c SPC); [cbn [app]; apply unq_cons_other; reflexivity|].
    cbn [esc app unq]. rewrite beq_refl, hex_lookup_esc. reflexivity.
Qed.

Lemma unq_R d rest : unq (R QS_UNQUOTED d ++ rest) = map sp d ++ unq rest.
Proof.
  induction d as [|c d IH]; [reflexivity|]. unfold R in *. cbn [flat_map map]. rewrite <- app_assoc, unq_r1, IH. reflexivity.
Qed.

Lemma c21_sp c : negb (inmask QS_INVALID c) = true -> negb (inmask QS_INVALID (sp c)) = true.
Proof. revert c. apply implb_all. vm_compute. reflexivity. Qed.

Lemma c21free_map_sp d : c21free d = true -> c21free (map sp d) = true.
Proof.
  unfold c21free. induction d as [|c d IH]; [reflexivity|]. cbn [forallb map]. intros H. apply andb_true_iff in H as [Hc Hd].
  rewrite (c21_sp c Hc), (IH Hd). reflexivity.
Qed.

Lemma c21free_app a b : c21free (a ++ b) = c21free a && c21free b.
Proof. apply forallb_app. Qed.

Lemma c21free_pair n v rest :
  c21free n = true -> c21free v = true -> c21free (unq rest) = true ->
  c21free (unq (mk_pair (R QS_UNQUOTED n) (R QS_UNQUOTED v) ++ rest)) = true.
Proof.
  intros Hn Hv Hr. unfold mk_pair. destruct (nonempty _ && nonempty _).
  - rewrite <- app_assoc, unq_R. cbn [app]. rewrite unq_cons_other by reflexivity. rewrite unq_R.
    rewrite c21free_app, (c21free_map_sp _ Hn). cbn [andb]. change (EQS :: map sp v ++ unq rest) with ([EQS] ++ map sp v ++ unq rest).
    rewrite !c21free_app, (c21free_map_sp _ Hv), Hr. reflexivity.
  - rewrite <- app_assoc, !unq_R, !c21free_app, (c21free_map_sp _ Hn), (c21free_map_sp _ Hv), Hr. reflexivity.
Qed.

Lemma c21free_encoded ps :
  forallb (fun p => c21free (fst p) && c21free (snd p)) ps = true ->
  existsb (inmask QS_INVALID) (unquote (form_encode Repaired QS_UNQUOTED ps)) = false.
Proof.
  intros H. unfold form_encode. rewrite (repl20_join _ qs_unquoted_ok), unquote_unq.
  assert (G : c21free (unq (join [AMP] (map (fun p => mk_pair (R QS_UNQUOTED (fst p)) (R QS_UNQUOTED (snd p))) ps))) = true).
  { induction ps as [|p ps IH]; [reflexivity|]. cbn [forallb] in H. apply andb_true_iff in H as [Hp Hps].
    apply andb_true_iff in Hp as [Hn Hv]. specialize (IH Hps). destruct ps as [|p2 ps].
    - cbn [map join]. rewrite <- (app_nil_r (mk_pair _ _)). apply c21free_pair; auto.
    - rewrite (map_cons _ p). rewrite join_cons by (cbn; congruence). apply c21free_pair; auto. }
  unfold c21free in G. rewrite forallb_forall in G.
  destruct (existsb _ _) eqn:E; [|reflexivity]. apply existsb_exists in E as (c & Hc & Hi).
  specialize (G c Hc). rewrite Hi in G. discriminate.
Qed.

(* ---------- ports ---------- *)
Definition port_in_ok (port : option N) : bool := match port with Some p => p <=? 65535 | None => true end.

(* the port slot after assignment, and the digits compose prints for it *)
Definition port_slot (dflt port : option N) : option N :=
  match port with Some 0 | None => dflt | Some p => Some p end.
Definition port_digits (dflt slot : option N) : bytes :=
  match eff_port slot dflt with
  | Some p => if (p =? 0) || opt_eqb N.eqb (eff_port slot dflt) dflt then [] else print_dec p
  | None => []
  end.

Lemma opt_eqb_N_eq (a b : option N) : opt_eqb N.eqb a b = true -> a = b.
Proof. destruct a, b; cbn; try congruence. intros H. apply N.eqb_eq in H. congruence. Qed.

Lemma port_roundtrip s port :
  port_in_ok port = true ->
  let dflt := scheme_port s in
  port_of_int dflt port = Ok (port_slot dflt port) /\
  forallb is_digit (port_digits dflt (port_slot dflt port)) = true /\
  port_of_bytes dflt (port_digits dflt (port_slot dflt port)) = Ok (port_slot dflt port).
Proof.
  intros Hp dflt. pose proof (scheme_port_range s) as Hr. fold dflt in Hr.
  assert (Hd : port_of_bytes dflt (port_digits dflt dflt) = Ok dflt /\ forallb is_digit (port_digits dflt dflt) = true).
  { unfold port_digits. destruct dflt as [d|]; [|split; reflexivity].
    destruct d as [|d]; [lia|]. cbn [eff_port opt_eqb]. rewrite N.eqb_refl, orb_true_r. split; reflexivity. }
  destruct port as [p|]; [|cbn [port_of_int port_slot]; tauto].
  destruct p as [|p]; [cbn [port_of_int port_slot]; tauto|].
  cbn [port_in_ok] in Hp. apply N.leb_le in Hp.
  assert (Hc : check_port (Z.of_N (N.pos p)) = Ok (Some (N.pos p))).
  { unfold check_port. replace ((0 <? Z.of_N (N.pos p))%Z && (Z.of_N (N.pos p) <=? 65535)%Z) with true.
    - rewrite N2Z.id. reflexivity.
    - symmetry. apply andb_true_iff. split; [apply Z.ltb_lt | apply Z.leb_le]; lia. }
  cbn [port_of_int port_slot]. split; [exact Hc|].
  unfold port_digits. cbn [eff_port N.eqb orb].
  destruct (opt_eqb N.eqb (Some (N.pos p)) dflt) eqn:E.
  - apply opt_eqb_N_eq in E. rewrite <- E. split; [reflexivity|]. reflexivity.
  - destruct (print_dec_spec (N.pos p)) as (A & _ & C & _). split; [exact A|].
    unfold port_of_bytes. replace (nonempty (print_dec (N.pos p))) with true
      by (symmetry; destruct (print_dec (N.pos p)); [congruence | reflexivity]).
    rewrite py_int_print_dec; [exact Hc|]. change (2 ^ N.of_nat 32) with 4294967296. lia.
Qed.

Lemma port_piece dflt slot :
  match eff_port slot dflt with
  | Some p => if (p =? 0) || opt_eqb N.eqb (eff_port slot dflt) dflt then [] else [COLON] ++ print_dec p
  | None => []
  end = Pt_of (port_digits dflt slot).
Proof.
  unfold Pt_of, port_digits. destruct (eff_port slot dflt) as [p|]; [|reflexivity].
  destruct ((p =? 0) || _); [reflexivity|].
  destruct (print_dec_spec p) as (_ & _ & C & _). destruct (print_dec p); [congruence | reflexivity].
Qed.

(* ---------- classes of quoted components ---------- *)
Lemma quoted_segment_class s : none SLASH s = true -> forallb (excl [SLASH; QMARK; HASH; LBR; RBR]) (quote Repaired PCT_PATH s) = true.
Proof.
  intros Hs. apply quote_excl; [incl_tac|]. intros c Hc Hsafe. rewrite excl_cons.
  rewrite (tbl_path c Hsafe), andb_true_r. unfold none in Hs. rewrite forallb_forall in Hs. apply Hs, Hc.
Qed.

Lemma split_quoted_path p :
  split1 SLASH (quote Repaired PCT_PATH p) = map (quote Repaired PCT_PATH) (split1 SLASH p).
Proof.
  rewrite <- (join_map_quote_split Repaired PCT_PATH p) by apply tbl_path_keeps.
  apply split1_join.
  - destruct (split1 SLASH p) eqn:E; [exfalso; eapply split1_nonnil; eauto | cbn; congruence].
  - apply Forall_map. eapply Forall_impl; [|apply (split1_items_none SLASH p)].
    intros s Hs. cbn beta. pose proof (quoted_segment_class s Hs). leaf_none.
Qed.

Lemma quoted_path_class p : forallb (excl [QMARK; HASH; LBR; RBR]) (quote Repaired PCT_PATH p) = true.
Proof. apply quote_excl; [incl_tac|]. intros c _ Hc. apply tbl_path, Hc. Qed.

Lemma quoted_path_abs p :
  (negb (nonempty p) || starts_with [SLASH] p) = true ->
  quote Repaired PCT_PATH p = [] \/ exists p', quote Repaired PCT_PATH p = SLASH :: p'.
Proof.
  destruct p as [|c p]; [left; reflexivity|]. cbn [nonempty negb orb starts_with]. rewrite andb_true_r.
  intros H. apply beq_eq in H. subst c. right. rewrite quote_cons. unfold quote1.
  destruct tbl_path_keeps as [KS _]. rewrite KS. eexists. reflexivity.
Qed.

Lemma quoted_pass_class pass : forallb (excl P6) (quote Repaired PCT_USERINFO pass) = true.
Proof. apply quote_excl; [incl_tac|]. intros c _ Hs. apply tbl_userinfo, Hs. Qed.

Lemma quoted_frag_class frag : forallb (excl [HASH; LBR; RBR]) (quote Repaired PCT_FRAGMENT frag) = true.
Proof. apply quote_excl; [incl_tac|]. intros c _ Hs. apply tbl_fragment, Hs. Qed.

(* ---------- the variants of the pinned tree ---------- *)
(* D1: with the one-digit escapes of the pinned tree, octets below 0x10 are excluded *)
Definition nl (vq : variant) (d : bytes) : bool :=
  match vq with Repaired => true | AsFound => forallb (fun c => 16 <=? bN c) d end.

Lemma quote_nl vq safe d : nl vq d = true -> quote vq safe d = quote Repaired safe d.
Proof.
  unfold nl. destruct vq; [|reflexivity]. intros H. apply quote_asfound_eq. unfold no_low_unsafe.
  eapply forallb_weaken; [|exact H]. intros c Hc. cbn beta in *. rewrite Hc. apply orb_true_r.
Qed.

Lemma nl_split vq sep l : nl vq l = true -> Forall (fun x => nl vq x = true) (split1 sep l).
Proof. unfold nl. destruct vq; [apply split1_items_forallb | intros _; apply Forall_forall; reflexivity]. Qed.

Lemma form_encode_nl vq safe ps :
  forallb (fun p => nl vq (fst p) && nl vq (snd p)) ps = true -> form_encode vq safe ps = form_encode Repaired safe ps.
Proof.
  intros H. unfold form_encode. do 2 f_equal. apply map_ext_in. intros p Hp.
  rewrite forallb_forall in H. specialize (H p Hp). apply andb_true_iff in H as [H1 H2].
  unfold encode_pair. rewrite !(quote_nl _ _ _ H1), !(quote_nl _ _ _ H2). reflexivity.
Qed.

(* D18: on the pinned tree ':' is in the safe set of the user name *)
Definition user_ok (vu : variant) (user : bytes) : bool := match vu with Repaired => true | AsFound => none COLON user end.

Lemma quoted_user_class vu user :
  user_ok vu user = true -> forallb (excl D6) (quote Repaired (user_safe vu) user) = true.
Proof.
  unfold user_ok. intros H. apply quote_excl; [incl_tac|]. destruct vu.
  - intros c Hc Hs. change D6 with (COLON :: P6). rewrite excl_cons, (tbl_userinfo c Hs), andb_true_r.
    unfold none in H. rewrite forallb_forall in H. apply H, Hc.
  - intros c _ Hs. apply tbl_user_repaired, Hs.
Qed.

(* ================= Stage 3: decoding, and the main theorem ================= *)

Section RoundTrip.
(* the callees of the model: any instantiation *)
Variable valid : bytes -> bool.
Variables inet4 inet6 idna_dec idna_enc : bytes -> option bytes.
Variables vq vu v7 : variant.
Set Default Proof Using "Type".

Notation uq' := (uq valid v7).
Notation uhost := (unquote_host valid inet4 inet6 idna_dec v7).
Notation parse := (uri_parse valid inet4 inet6 idna_dec vq v7).
Notation decode := (uri_decode valid inet4 inet6 idna_dec vq v7).
Notation compose := (uri_compose idna_enc vq vu).

Definition res_is (r : res bytes) (h : bytes) : bool :=
  match r with Ok x => bytes_eqb x h | Err _ => false end.

(* the host: its wire form (IDNA) is a syntactically valid host and decodes back to the host *)
Definition host_ok (h : bytes) : bool :=
  nonempty h &&
  match idna_enc h with
  | Some a => wire_ok a && res_is (uhost a) h
  | None => false
  end.

Definition scheme_ok (s : bytes) : bool := forallb (inmask URI_SCHEME_CHARS) s.
(* RFC 3986 3.3 with an authority: empty or absolute; text segment by segment; D30: no "://" *)
Definition path_ok (p : bytes) : bool :=
  (negb (nonempty p) || starts_with [SLASH] p) && forallb valid (split1 SLASH p)
  && match rpart CSS p with None => true | Some _ => false end.
(* names non-empty, text, and (D21) no C0 control or DEL in a name or value *)
Definition pairs_ok (ps : list (bytes * bytes)) : bool :=
  forallb (fun p => nonempty (fst p) && (valid (fst p) && valid (snd p)) && (nl vq (fst p) && nl vq (snd p))) ps
  && forallb (fun p => c21free (fst p) && c21free (snd p)) ps.

Definition wf (scheme user pass host : bytes) (port : option N) (path : bytes) (ps : list (bytes * bytes)) (frag : bytes) : bool :=
  scheme_ok scheme && (valid user && valid pass && valid frag)
  && (implb (nonempty pass) (nonempty user) && user_ok vu user)      (* D19, D18 *)
  && host_ok host && port_in_ok port && path_ok path && pairs_ok ps
  && (nl vq user && nl vq pass && nl vq path && nl vq frag).                   (* D1 *)

Lemma forallb_map_valid (f : bytes -> bytes) l : forallb (fun s => valid (f s)) l = true -> forallb valid (map f l) = true.
Proof. induction l as [|x l IH]; [reflexivity|]. cbn [forallb map]. intros H. apply andb_true_iff in H as [A B]. rewrite A, (IH B). reflexivity. Qed.

Lemma uq_quote safe d : valid d = true -> uq' (quote Repaired safe d) = Ok d.
Proof. intros H. unfold uq. rewrite unquote_quote, H. reflexivity. Qed.

Lemma decode_segments safe segs :
  Forall (fun s => valid s = true /\ none SLASH s = true) segs ->
  mapM (fun s => t <- uq' s ;; Ok (esc_slash t)) (map (quote Repaired safe) segs) = Ok segs.
Proof.
  induction segs as [|s segs IH]; [reflexivity|]. intros HF. inversion HF as [|? ? [Hv Hn] Hs]; subst.
  cbn [map mapM]. rewrite (uq_quote _ _ Hv). cbn [bind]. rewrite (esc_slash_id _ Hn), (IH Hs). reflexivity.
Qed.

Lemma norm_query_rt ps :
  pairs_ok ps = true ->
  norm_query valid vq v7 (form_encode Repaired QS_UNQUOTED ps) = Ok (form_encode Repaired QS_UNQUOTED ps).
Proof.
  intros H. unfold pairs_ok in H. apply andb_true_iff in H as [H1 H2]. apply c21free_encoded in H2.
  unfold norm_query. destruct (nonempty _); [|reflexivity].
  rewrite (qs_roundtrip _ qs_unquoted_ok _ ps); [| |exact H2].
  - replace (forallb (fun p => valid (fst p) && valid (snd p)) ps) with true.
    + rewrite form_encode_nl; [reflexivity|]. eapply (@forallb_weaken_gen (bytes * bytes)); [|exact H1].
      intros p Hp. cbn beta in *. apply andb_true_iff in Hp as [_ Hp]. exact Hp.
    + symmetry. eapply (@forallb_weaken_gen (bytes * bytes)); [|exact H1].
      intros p Hp. cbn beta in *. apply andb_true_iff in Hp as [Hp _]. apply andb_true_iff in Hp as [_ Hp]. exact Hp.
  - apply Forall_forall. intros p Hp. rewrite forallb_forall in H1. specialize (H1 p Hp). cbn beta in H1.
    apply andb_true_iff in H1 as [H1 _]. apply andb_true_iff in H1 as [H1 _]. apply nonempty_true, H1.
Qed.


Lemma quote_scheme_id v s : scheme_ok s = true -> quote v PCT_SCHEME s = s.
Proof.
  unfold scheme_ok. induction s as [|c s IH]; [reflexivity|]. cbn [forallb]. intros H. apply andb_true_iff in H as [Hc Hs].
  rewrite quote_cons, (IH Hs). pose proof (tbl_scheme c Hc) as T. apply andb_true_iff in T as [_ T].
  unfold quote1. rewrite T. reflexivity.
Qed.

Lemma scheme_facts s : scheme_ok s = true ->
  forallb (excl D5) s = true /\ lower s = s /\ stripm URI_SCHEME_CHARS s = [].
Proof.
  intros H. unfold scheme_ok in H. repeat split.
  - eapply forallb_weaken; [|exact H]. intros c Hc. pose proof (tbl_scheme c Hc) as T.
    apply andb_true_iff in T as [T _]. apply andb_true_iff in T as [T _]. exact T.
  - apply lower_id. eapply forallb_weaken; [|exact H]. intros c Hc. pose proof (tbl_scheme c Hc) as T.
    apply andb_true_iff in T as [T _]. apply andb_true_iff in T as [_ T]. exact T.
  - apply stripm_all, H.
Qed.

(* the octets URI.compose produces for a well-formed component tuple *)
Definition composed (scheme user pass a : bytes) (slot : option N) (path E frag : bytes) : bytes :=
  (((S_of scheme ++ [SLASH; SLASH])
    ++ (U_of (nonempty user) (quote Repaired (user_safe vu) user) (quote Repaired PCT_USERINFO pass)
        ++ a ++ Pt_of (port_digits (scheme_port scheme) slot))
    ++ quote Repaired PCT_PATH path)
   ++ Q_of E) ++ F_of (quote Repaired PCT_FRAGMENT frag).

Lemma compose_shape scheme user pass host slot path E frag a :
  scheme_ok scheme = true -> nonempty host = true -> idna_enc host = Some a -> a <> [] ->
  (negb (nonempty path) || starts_with [SLASH] path) = true ->
  nl vq user = true -> nl vq pass = true -> nl vq path = true -> nl vq frag = true ->
  compose (mkUri scheme user pass host slot path E frag) = Some (composed scheme user pass a slot path E frag).
Proof.
  intros Hs Hh Hi Ha Hp Nu Np Npa Nf.
  unfold uri_compose, compose_authority, compose_relative, composed.
  cbn [u_scheme u_user u_pass u_host u_port u_path u_query u_frag].
  rewrite Hh, Hi. cbv zeta.
  rewrite port_piece. cbv beta iota.
  rewrite (quote_scheme_id _ _ Hs), (quote_nl _ _ _ Nu), (quote_nl _ _ _ Np), (quote_nl _ _ _ Nf).
  set (Pt := Pt_of (port_digits (scheme_port scheme) slot)).
  set (qu := quote Repaired (user_safe vu) user). set (qp := quote Repaired PCT_USERINFO pass).
  set (qf := quote Repaired PCT_FRAGMENT frag).
  assert (EP : join [SLASH] (map (quote vq (if negb (nonempty scheme) && negb (starts_with [SLASH] path) then PATH_NOSCHEME else PCT_PATH)) (split1 SLASH path))
               = quote Repaired PCT_PATH path).
  { destruct path as [|c path']; [destruct (negb (nonempty scheme) && _); reflexivity|].
    cbn [nonempty negb orb] in Hp. rewrite Hp, andb_false_r.
    rewrite join_map_quote_split by apply tbl_path_keeps. apply quote_nl, Npa. }
  rewrite EP.
  replace (nonempty ((if nonempty user then qu ++ (if nonempty pass then [COLON] ++ qp else []) ++ [AT] else []) ++ a ++ Pt)) with true
    by (symmetry; destruct (if nonempty user then _ else _); destruct a; cbn; congruence).
  f_equal. unfold S_of, U_of, Q_of, F_of. subst qu qp qf.
  rewrite !nonempty_quote.
  destruct (nonempty scheme), (nonempty user), (nonempty pass), (nonempty E), (nonempty frag);
    repeat (progress (rewrite <- ?app_assoc; cbn [app])); reflexivity.
Qed.

Theorem roundtrip scheme user pass host port path ps frag :
  wf scheme user pass host port path ps frag = true ->
  let q := query_of_pairs vq ps in
  let u := mkUri scheme user pass host (port_slot (scheme_port scheme) port) path q frag in
  uri_set scheme user pass host port path q frag = Ok u /\
  exists w, compose u = Some w /\ parse w = Ok u.
Proof.
  intros H q u. unfold wf in H.
  apply andb_true_iff in H as [H Hnl]. apply andb_true_iff in H as [H Wq]. apply andb_true_iff in H as [H Wpath].
  apply andb_true_iff in H as [H Wport]. apply andb_true_iff in H as [H Whost]. apply andb_true_iff in H as [H Wui].
  apply andb_true_iff in H as [Wscheme Wvalid].
  apply andb_true_iff in Wvalid as [Wv Wvf]. apply andb_true_iff in Wv as [Wvu Wvp].
  apply andb_true_iff in Wui as [Wd19 Wuser].
  apply andb_true_iff in Hnl as [Hnl Nf]. apply andb_true_iff in Hnl as [Hnl Npa]. apply andb_true_iff in Hnl as [Nu Np].
  (* host *)
  unfold host_ok in Whost. apply andb_true_iff in Whost as [Hhne Whost].
  destruct (idna_enc host) as [a|] eqn:Hidna; [|discriminate].
  apply andb_true_iff in Whost as [Hwire Hback].
  assert (Hhost : uhost a = Ok host).
  { unfold res_is in Hback. destruct (uhost a) as [x|]; [|discriminate]. apply bytes_eqb_eq in Hback. congruence. }
  assert (Hane : a <> []).
  { unfold wire_ok in Hwire. apply andb_true_iff in Hwire as [Hw _]. apply andb_true_iff in Hw as [Hw _]. apply nonempty_true, Hw. }
  (* path *)
  unfold path_ok in Wpath. apply andb_true_iff in Wpath as [Wpath Hcss]. apply andb_true_iff in Wpath as [Habs Hsegv].
  destruct (rpart CSS path) eqn:Hcss'; [discriminate|]. clear Hcss.
  (* query *)
  assert (Wq' := Wq). unfold pairs_ok in Wq'. apply andb_true_iff in Wq' as [Wq1 _].
  assert (Eq : q = form_encode Repaired QS_UNQUOTED ps).
  { unfold q, query_of_pairs. apply form_encode_nl. eapply (@forallb_weaken_gen (bytes * bytes)); [|exact Wq1].
    intros p Hp. cbn beta in *. apply andb_true_iff in Hp as [_ Hp]. exact Hp. }
  (* port *)
  destruct (port_roundtrip scheme port Wport) as (P1 & P2 & P3). cbv zeta in P1, P2, P3.
  destruct (scheme_facts scheme Wscheme) as (Sc & Slow & Sstrip).
  split. { unfold uri_set, assign. rewrite P1. reflexivity. }
  exists (composed scheme user pass a (port_slot (scheme_port scheme) port) path q frag). split.
  { apply compose_shape; assumption. }
  (* the hypotheses of the cascade lemma *)
  set (qu := quote Repaired (user_safe vu) user). set (qp := quote Repaired PCT_USERINFO pass).
  set (Pa := quote Repaired PCT_PATH path). set (qf := quote Repaired PCT_FRAGMENT frag).
  set (dg := port_digits (scheme_port scheme) (port_slot (scheme_port scheme) port)).
  assert (Hqu : forallb (excl D5) qu = true) by (apply (excl_weaken D6); [incl_tac | apply quoted_user_class, Wuser]).
  assert (Hqp : forallb (excl D4) qp = true) by (apply (excl_weaken P6); [incl_tac | apply quoted_pass_class]).
  assert (Hnouser : nonempty user = false -> qu = [] /\ qp = []).
  { intros E. rewrite E in Wd19. destruct (nonempty pass) eqn:E2; [discriminate|].
    unfold qu, qp. rewrite (nonempty_false _ E), (nonempty_false _ E2). split; reflexivity. }
  assert (HPa : forallb (excl [QMARK; HASH]) Pa = true) by (apply (excl_weaken [QMARK; HASH; LBR; RBR]); [incl_tac | apply quoted_path_class]).
  assert (HPa_abs : Pa = [] \/ exists p', Pa = SLASH :: p') by (apply quoted_path_abs, Habs).
  assert (HPa_css : rpart CSS Pa = None) by (apply quote_no_css, Hcss').
  assert (Hq : forallb (excl [HASH]) q = true) by (rewrite Eq; apply (excl_weaken [HASH; LBR; RBR]); [incl_tac | apply form_encode_excl]).
  assert (Hqf : forallb (excl []) qf = true) by (apply (excl_weaken [HASH; LBR; RBR]); [incl_tac | apply quoted_frag_class]).
  unfold uri_parse, composed. fold qu qp Pa qf dg.
  rewrite (stripm_all _ _ (composed_printable scheme qu qp a dg Pa q qf (nonempty user) Sc Hqu Hqp Hnouser Hwire P2 HPa HPa_abs Hq Hqf)).
  rewrite andb_false_r.
  rewrite (split_composed scheme qu qp a dg Pa q qf (nonempty user) Sc Hqu Hqp Hnouser Hwire P2 HPa HPa_abs HPa_css Hq).
  (* decoding *)
  unfold uri_decode. cbn [r_scheme r_user r_pass r_host r_port r_path r_query r_frag].
  unfold Pa. rewrite split_quoted_path, decode_segments.
  2:{ rewrite forallb_forall in Hsegv. pose proof (split1_items_none SLASH path) as Hn. rewrite Forall_forall in *.
      intros s Hs. split; [apply Hsegv, Hs | apply Hn, Hs]. }
  cbn [bind]. rewrite join_split1, Slow, Sstrip, andb_false_r.
  rewrite Eq, (norm_query_rt ps Wq). cbn [bind].
  unfold qu, qp, qf. rewrite (uq_quote _ _ Wvu), (uq_quote _ _ Wvp). cbn [bind]. rewrite Hhost. cbn [bind].
  rewrite (uq_quote _ _ Wvf). cbn [bind]. unfold assign, dg. rewrite P3. cbn [bind].
  unfold u. rewrite Eq. reflexivity.
Qed.


(* the statement of the property for one component tuple *)
Definition rt_holds scheme user pass host port path ps frag : Prop :=
  let q := query_of_pairs vq ps in
  let u := mkUri scheme user pass host (port_slot (scheme_port scheme) port) path q frag in
  uri_set scheme user pass host port path q frag = Ok u /\
  exists w, compose u = Some w /\ parse w = Ok u.

Theorem roundtrip_holds scheme user pass host port path ps frag :
  wf scheme user pass host port path ps frag = true -> rt_holds scheme user pass host port path ps frag.
Proof. exact (roundtrip scheme user pass host port path ps frag). Qed.

(* serialising the parsed URI again gives the same octets *)
Theorem stable scheme user pass host port path ps frag :
  wf scheme user pass host port path ps frag = true ->
  let u := mkUri scheme user pass host (port_slot (scheme_port scheme) port) path (query_of_pairs vq ps) frag in
  exists w, compose u = Some w /\ exists u', parse w = Ok u' /\ compose u' = Some w.
Proof.
  intros H u. destruct (roundtrip _ _ _ _ _ _ _ _ H) as (_ & w & Hc & Hp).
  exists w. split; [exact Hc|]. exists u. split; [exact Hp | exact Hc].
Qed.

(* the domain of the property as worded (DESIGN section 5/6), without the exclusions of the known findings *)
Definition wf_full (scheme user pass host : bytes) (port : option N) (path : bytes) (ps : list (bytes * bytes)) (frag : bytes) : bool :=
  scheme_ok scheme && (valid user && valid pass && valid frag) && host_ok host && port_in_ok port
  && ((negb (nonempty path) || starts_with [SLASH] path) && forallb valid (split1 SLASH path))
  && forallb (fun p => nonempty (fst p) && (valid (fst p) && valid (snd p))) ps.

Lemma wf_is_restriction scheme user pass host port path ps frag :
  wf scheme user pass host port path ps frag = true -> wf_full scheme user pass host port path ps frag = true.
Proof.
  unfold wf, wf_full, path_ok, pairs_ok. intros H.
  apply andb_true_iff in H as [H _]. apply andb_true_iff in H as [H Wq]. apply andb_true_iff in H as [H Wpath].
  apply andb_true_iff in H as [H Wport]. apply andb_true_iff in H as [H Whost]. apply andb_true_iff in H as [H _].
  rewrite H, Whost, Wport. cbn [andb].
  apply andb_true_iff in Wpath as [Wp _]. rewrite Wp. cbn [andb].
  apply andb_true_iff in Wq as [Wq _].
  eapply (@forallb_weaken_gen (bytes * bytes)); [|exact Wq]. intros p Hp. cbn beta in *.
  apply andb_true_iff in Hp as [Hp _]. exact Hp.
Qed.

(* ---------- no component leaks: octet classes of the composed pieces ---------- *)
Theorem no_leak user pass seg frag ps :
  user_ok vu user = true -> nl vq user = true -> nl vq pass = true -> nl vq seg = true -> nl vq frag = true ->
  forallb (fun p => nl vq (fst p) && nl vq (snd p)) ps = true ->
  forallb (excl [COLON; AT; SLASH; QMARK; HASH; LBR; RBR]) (quote vq (user_safe vu) user) = true /\
  forallb (excl [AT; SLASH; QMARK; HASH; LBR; RBR]) (quote vq PCT_USERINFO pass) = true /\
  (none SLASH seg = true -> forallb (excl [SLASH; QMARK; HASH; LBR; RBR]) (quote vq PCT_PATH seg) = true) /\
  forallb (excl [HASH; LBR; RBR]) (query_of_pairs vq ps) = true /\
  forallb (excl [HASH; LBR; RBR]) (quote vq PCT_FRAGMENT frag) = true.
Proof.
  intros Hu Nu Np Ns Nf Nps.
  rewrite (quote_nl _ _ _ Nu), (quote_nl _ _ _ Np), (quote_nl _ _ _ Ns), (quote_nl _ _ _ Nf).
  unfold query_of_pairs. rewrite (form_encode_nl _ _ _ Nps).
  repeat split.
  - apply quoted_user_class, Hu.
  - apply quoted_pass_class.
  - apply quoted_segment_class.
  - apply form_encode_excl.
  - apply quoted_frag_class.
Qed.

(* the path_segments setter: '/'.join(seg.replace('/', '%2f')) applied to '' :: segs is an absolute path whose
   segments are the escaped segments *)
Lemma none_esc_slash s : none SLASH (esc_slash s) = true.
Proof.
  induction s as [|c s IH]; [reflexivity|]. unfold esc_slash in *. cbn [flat_map]. rewrite none_app, IH, andb_true_r.
  destruct (beq c SLASH) eqn:E; [reflexivity|]. rewrite none_cons, E. reflexivity.
Qed.

Lemma split_path_of_segments segs : segs <> [] -> split1 SLASH (path_of_segments segs) = map esc_slash segs.
Proof.
  intros H. unfold path_of_segments. apply split1_join.
  - destruct segs; [congruence | cbn; congruence].
  - apply Forall_map, Forall_forall. intros s _. apply none_esc_slash.
Qed.

Lemma path_ok_segments segs :
  valid [] = true -> forallb (fun s => valid (esc_slash s)) segs = true ->
  rpart CSS (path_of_segments ([] :: segs)) = None ->
  path_ok (path_of_segments ([] :: segs)) = true.
Proof.
  intros Hv Hs Hc. unfold path_ok. rewrite Hc, andb_true_r.
  rewrite split_path_of_segments by congruence. cbn [map forallb esc_slash flat_map]. rewrite Hv. cbn [andb].
  rewrite forallb_map_valid by exact Hs. rewrite andb_true_r.
  unfold path_of_segments. destruct segs as [|s segs]; [reflexivity|].
  rewrite map_cons, join_cons by (cbn; congruence). cbn [esc_slash flat_map app nonempty negb orb starts_with].
  rewrite beq_refl. reflexivity.
Qed.

(* ---------- when does the wire form of a host decode back: the four syntactic kinds ---------- *)
Definition HOSTCHARS : N := N.lor (N.lor PCT_UNRESERVED PCT_SUB_DELIMS) (N.shiftl 1 37).

Lemma unquote_no_pct a : none PCT a = true -> unquote a = a.
Proof.
  intros H. rewrite unquote_unq. induction a as [|c a IH]; [reflexivity|]. rewrite none_cons in H.
  apply andb_true_iff in H as [Hc Ha]. apply negb_true_iff in Hc. rewrite (unq_cons_other _ _ Hc), (IH Ha). reflexivity.
Qed.

Lemma bracketed_app t : starts_with [LBR] ([LBR] ++ t ++ [RBR]) && ends_with1 RBR ([LBR] ++ t ++ [RBR]) = true.
Proof.
  cbn [app starts_with]. rewrite beq_refl. cbn [andb].
  change (LBR :: t ++ [RBR]) with ((LBR :: t) ++ [RBR]). rewrite ends_with1_app_last. apply beq_refl.
Qed.

(* IPv6 literal in canonical form *)
Lemma uhost_ip6 t : inet6 t = Some t -> uhost ([LBR] ++ t ++ [RBR]) = Ok ([LBR] ++ t ++ [RBR]).
Proof.
  intros H. unfold unquote_host. rewrite bracketed_app. cbn [app tl]. rewrite removelast_last, H. reflexivity.
Qed.

(* IPvFuture literal  "[v" digits "." ... "]"  that is not an IPv6 address *)
Lemma uhost_future t :
  inet6 t = None -> starts_with [LOWER_V] t && contains DOT t && isdigit (fst (partition1 DOT (tl t))) = true ->
  uhost ([LBR] ++ t ++ [RBR]) = Ok ([LBR] ++ t ++ [RBR]).
Proof.
  intros H1 H2. unfold unquote_host. rewrite bracketed_app. cbn [app tl]. rewrite removelast_last, H1, H2. reflexivity.
Qed.

(* IPv4 address in canonical form *)
Lemma uhost_ip4 a :
  starts_with [LBR] a && ends_with1 RBR a = false -> forallb isdigit (split1 DOT a) = true -> inet4 a = Some a ->
  uhost a = Ok a.
Proof. intros H1 H2 H3. unfold unquote_host. rewrite H1, H2, H3. reflexivity. Qed.

(* registered name: unreserved / sub-delims, not all-numeric, ASCII; the IDNA decoder gives the host *)
Lemma uhost_regname a h :
  starts_with [LBR] a && ends_with1 RBR a = false -> forallb isdigit (split1 DOT a) = false ->
  forallb (inmask HOSTCHARS) a = true -> none PCT a = true -> valid a = true -> is_ascii a = true ->
  idna_dec a = Some h -> uhost a = Ok h.
Proof.
  intros H1 H2 H3 H4 H5 H6 H7. unfold unquote_host. rewrite H1, H2.
  fold HOSTCHARS. rewrite (stripm_all _ _ H3). cbn [nonempty]. unfold uq. rewrite (unquote_no_pct _ H4), H5. cbn [bind].
  rewrite H6, H7. reflexivity.
Qed.

Unset Default Proof Using.
End RoundTrip.

(* ================= Stage 4: the pinned tree -- refutations of the full statement ================= *)
From Httoop Require Import Lib.Utf8.

(* a concrete instantiation of the callees for witnesses: ASCII hosts are their own IDNA form, no IP literal *)
Definition idna_id (h : bytes) : option bytes := Some h.
Definition inet_none (_ : bytes) : option bytes := None.

Notation wf_c := (wf utf8_valid inet_none inet_none idna_id idna_id).
Notation wf_full_c := (wf_full utf8_valid inet_none inet_none idna_id idna_id).
Notation rt_c := (rt_holds utf8_valid inet_none inet_none idna_id idna_id).

(* the hypotheses of the round-trip theorem are satisfiable by a tuple dense in delimiters *)
Example wf_nonvacuous :
  wf_c Repaired Repaired Repaired
    (X "68747470") (X "613a6240") (X "703a2f3f2340") (X "6578616d706c652e636f6d") (Some 8080)
    (X "2f6120622f633a642f25") [(X "6b26", X "763d20c3a4")] (X "6623") = true.
Proof. vm_compute. reflexivity. Qed.
Example wf_nonvacuous_pinned :
  wf_c AsFound AsFound Repaired
    (X "68747470") (X "6162") (X "703a2f3f2340") (X "6578616d706c652e636f6d") (Some 8080)
    (X "2f6120622f633a642f25") [(X "6b26", X "763d20c3a4")] (X "6623") = true.
Proof. vm_compute. reflexivity. Qed.

Ltac refute :=
  split; [vm_compute; reflexivity|];
  let H1 := fresh in let w := fresh "w" in let Hc := fresh in let Hp := fresh in
  intros (H1 & w & Hc & Hp); vm_compute in Hc; injection Hc as <-; vm_compute in Hp; discriminate.

(* D1: one-digit escapes -- user name "\x01" *)
Theorem refuted_low_octet : exists user,
  wf_full_c Repaired (X "78") user [] (X "68") None [] [] [] = true /\
  ~ rt_c AsFound Repaired Repaired (X "78") user [] (X "68") None [] [] [].
Proof. exists [x01]. refute. Qed.

(* D18: ':' in a user name is not escaped on the pinned tree -- user "a:b", password "c" *)
Theorem refuted_user_colon : exists user pass,
  wf_full_c Repaired (X "78") user pass (X "68") None [] [] [] = true /\
  ~ rt_c Repaired AsFound Repaired (X "78") user pass (X "68") None [] [] [].
Proof. exists (X "613a62"), (X "63"). refute. Qed.

(* D19: a password without a user name is not serialised (also after the repairs) *)
Theorem refuted_password_without_user : exists pass,
  wf_full_c Repaired (X "78") [] pass (X "68") None [] [] [] = true /\
  ~ rt_c Repaired Repaired Repaired (X "78") [] pass (X "68") None [] [] [].
Proof. exists (X "736563726574"). refute. Qed.

(* D30: "://" inside the path is taken for the scheme separator by rpartition -- path "/a://b" *)
Theorem refuted_path_css : exists path,
  wf_full_c Repaired (X "68747470") [] [] (X "68") None path [] [] = true /\
  ~ rt_c Repaired Repaired Repaired (X "68747470") [] [] (X "68") None path [] [].
Proof. exists (X "2f613a2f2f62"). refute. Qed.

(* D21: a C0 control in a query pair is refused when the composed URI is parsed *)
Theorem refuted_query_control : exists ps,
  wf_full_c Repaired (X "78") [] [] (X "68") None [] ps [] = true /\
  ~ rt_c Repaired Repaired Repaired (X "78") [] [] (X "68") None [] ps [].
Proof. exists [(X "61", X "1f")]. refute. Qed.

(* the repaired variants need no hypothesis at all *)
Theorem no_leak_repaired (user pass seg frag : bytes) (ps : list (bytes * bytes)) :
  forallb (excl [COLON; AT; SLASH; QMARK; HASH; LBR; RBR]) (quote Repaired (user_safe Repaired) user) = true /\
  forallb (excl [AT; SLASH; QMARK; HASH; LBR; RBR]) (quote Repaired PCT_USERINFO pass) = true /\
  (none SLASH seg = true -> forallb (excl [SLASH; QMARK; HASH; LBR; RBR]) (quote Repaired PCT_PATH seg) = true) /\
  forallb (excl [HASH; LBR; RBR]) (query_of_pairs Repaired ps) = true /\
  forallb (excl [HASH; LBR; RBR]) (quote Repaired PCT_FRAGMENT frag) = true.
Proof.
  apply (no_leak Repaired Repaired); try reflexivity.
  induction ps as [|p ps IH]; [reflexivity|]. cbn [forallb]. rewrite IH. reflexivity.
Qed.

(* Body sources of the composer model: pieces, length, normal forms, iteration is non-destructive;
   chunk framing and plain framing of the coded pieces as read by the independent reader. *)
From Coq Require Import Lia.
From Httoop Require Import Model.Composer Model.Http1Reader Proofs.SplitP Proofs.Http1ReaderP Proofs.ComposerNum Proofs.ComposerHdrs.
Local Open Scope N_scope.

Definition src_pieces (s : source) : list bytes := fst (src_iter s).
Definition src_after (s : source) : source := snd (src_iter s).
Definition src_content (s : source) : bytes := concat_bytes (src_pieces s).
(* states at operation boundaries: a generator has no iteration in progress *)
Definition src_ok (s : source) : bool := match s with SGen _ (_ :: _) => false | _ => true end.

Lemma max_chunk_pos : exists m, N.to_nat MAX_CHUNK_SIZE = S m.
Proof.
  assert (H : 0 < MAX_CHUNK_SIZE) by reflexivity.
  destruct (N.to_nat MAX_CHUNK_SIZE) eqn:E; [lia | eexists; reflexivity].
Qed.

Lemma blocks_f_concat n : (0 < n)%nat -> forall fuel l, (List.length l <= fuel)%nat -> concat_bytes (blocks_f fuel n l) = l.
Proof.
  intros Hn. induction fuel as [|f IH]; intros l Hl.
  - destruct l; [reflexivity | cbn in Hl; lia].
  - cbn [blocks_f]. destruct l as [|c l]; [reflexivity|]. cbn [concat_bytes]. rewrite IH.
    + apply firstn_skipn.
    + rewrite skipn_length. cbn [List.length] in *. lia.
Qed.
Lemma blocks_f_nonempty n : (0 < n)%nat -> forall fuel l, forallb nonempty_b (blocks_f fuel n l) = true.
Proof.
  intros Hn. induction fuel as [|f IH]; intros l; [reflexivity|]. cbn [blocks_f]. destruct l as [|c l]; [reflexivity|].
  cbn [forallb]. rewrite IH, andb_true_r. destruct n; [lia | reflexivity].
Qed.
Lemma blocks_concat c : concat_bytes (blocks c) = c.
Proof. destruct max_chunk_pos as [m E]. unfold blocks. rewrite E. apply blocks_f_concat; lia. Qed.
Lemma blocks_nonempty c : forallb nonempty_b (blocks c) = true.
Proof. destruct max_chunk_pos as [m E]. unfold blocks. rewrite E. apply blocks_f_nonempty; lia. Qed.
Lemma blocks_nil : blocks [] = [].
Proof. reflexivity. Qed.

Lemma nonempty_items_concat l : concat_bytes (nonempty_items l) = concat_bytes l.
Proof.
  induction l as [|x l IH]; [reflexivity|]. cbn [nonempty_items filter concat_bytes].
  destruct x; cbn [nonempty_b]; [exact IH | cbn [concat_bytes]; f_equal; exact IH].
Qed.
Lemma nonempty_items_all l : forallb nonempty_b (nonempty_items l) = true.
Proof. induction l as [|x l IH]; [reflexivity|]. cbn [nonempty_items filter]. destruct (nonempty_b x) eqn:E; [cbn [forallb]; rewrite E|]; exact IH. Qed.
Lemma nonempty_items_id l : forallb nonempty_b l = true -> nonempty_items l = l.
Proof. induction l as [|x l IH]; [reflexivity|]. cbn [forallb nonempty_items filter]. intros H. apply andb_true_iff in H as [A B]. rewrite A. f_equal. exact (IH B). Qed.

Lemma src_pieces_nonempty s : forallb nonempty_b (src_pieces s) = true.
Proof. destruct s; cbn; first [apply blocks_nonempty | apply nonempty_items_all]. Qed.

(* len(body) *)
Lemma src_len_spec s : src_len s = (blen (src_content s), src_after s).
Proof.
  destruct s as [c p|items|rem buf|c p]; unfold src_len, src_content, src_pieces, src_after; cbn [src_iter fst snd];
    rewrite ?blocks_concat; reflexivity.
Qed.

(* after one complete iteration the source is in a normal form that yields the same pieces again and is left unchanged *)
Lemma set_list_pieces l : src_pieces (set_list l) = nonempty_items l.
Proof. destruct l; reflexivity. Qed.
Lemma set_list_after l : src_after (set_list l) = set_list l.
Proof. destruct l; reflexivity. Qed.
Lemma src_after_pieces s : src_ok s = true -> src_pieces (src_after s) = src_pieces s.
Proof.
  destruct s as [c p|items|rem buf|c p]; try reflexivity. destruct buf; [|discriminate]. intros _.
  unfold src_after. cbn [src_iter snd app]. apply set_list_pieces.
Qed.
Lemma src_after_after s : src_after (src_after s) = src_after s.
Proof. destruct s as [c p|items|rem buf|c p]; try reflexivity. unfold src_after at 2 3. cbn [src_iter snd]. apply set_list_after. Qed.
Lemma src_after_ok s : src_ok (src_after s) = true.
Proof. destruct s as [c p|items|rem buf|c p]; try reflexivity. unfold src_after. cbn [src_iter snd]. destruct (buf ++ rem); reflexivity. Qed.
Lemma src_after_fileable s : fileable (src_after (src_after s)) = fileable (src_after s).
Proof. rewrite src_after_after. reflexivity. Qed.
Lemma empty_src_pieces : src_pieces EMPTY_SRC = [].
Proof. reflexivity. Qed.

(* ---------------------------------------------------------------- body_len / body_iter *)
Lemma body_len_spec b : body_len b = (blen (src_content (b_src b)), with_src b (src_after (b_src b))).
Proof. unfold body_len. rewrite src_len_spec. reflexivity. Qed.

Section WithCallees.
Variable C : ccallees.

Definition coded (vc : variant) (b : body) : list bytes := encode_pieces C vc (b_codec b) (src_pieces (b_src b)).
Definition payload (vc : variant) (b : body) : bytes := concat_bytes (coded vc b).

Lemma body_iter_spec vc b :
  body_iter C vc b = (if b_chunked b then chunked_frame C (b_trailer b) (coded vc b) else payload vc b, with_src b (src_after (b_src b))).
Proof.
  unfold body_iter, payload, coded, src_pieces, src_after. destruct (src_iter (b_src b)) as [ps s]. reflexivity.
Qed.

Lemma hex_print_ok : hex_ok hex_print.
Proof.
  intros n. destruct (hex_print_clean n) as [A [B _]]. repeat split; [apply rd_hex_print | exact A | exact B].
Qed.

Lemma chunk_ser d : chunk d = ser_chunk hex_print d.
Proof. reflexivity. Qed.

Lemma chunked_frame_shape tr cs :
  chunked_frame C tr cs = concat_bytes (map (ser_chunk hex_print) (nonempty_items cs)) ++ [x30] ++ CRLF ++ hcompose C tr.
Proof.
  unfold chunked_frame. rewrite (map_ext _ _ chunk_ser). f_equal. destruct tr; reflexivity.
Qed.

(* a chunked body followed by nothing: the reader finds the concatenated pieces and the trailer fields *)
Lemma chunked_frame_read tr cs : lsplit_clean C -> hdrs_ok tr = true ->
  let d := chunked_frame C tr cs in
  exists r, rd_chunks (S (List.length d)) d = Some (concat_bytes cs, r) /\
            rd_fields (S (List.length r)) r = Some (map read_field (sort_items (flat_map (items_of C) tr)), []).
Proof.
  intros HC Ht d. exists (hcompose C tr). split.
  - unfold d. rewrite chunked_frame_shape. rewrite (rd_chunks_ser hex_print hex_print_ok).
    + rewrite nonempty_items_concat. reflexivity.
    + apply nonempty_items_all.
    + rewrite app_length. pose proof (nonempty_items_all cs) as Hne.
      assert (L : forall l, forallb nonempty_b l = true -> (List.length l <= List.length (concat_bytes (map (ser_chunk hex_print) l)))%nat).
      { induction l as [|x l IH]; intros Hl; [cbn; lia|]. cbn [forallb] in Hl. apply andb_true_iff in Hl as [_ Hl].
        cbn [map concat_bytes List.length]. rewrite app_length. unfold ser_chunk at 1. rewrite !app_length. unfold CRLF. cbn [List.length]. specialize (IH Hl). lia. }
      specialize (L _ Hne). lia.
  - pose proof (hcompose_read C tr [] HC Ht) as H. rewrite app_nil_r in H. exact H.
Qed.

End WithCallees.

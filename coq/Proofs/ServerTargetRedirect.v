(* C06, the redirect of a non-canonical request path after the repair of D55: the Location is the canonical path
   percent-encoded as URI.compose writes a path, and a request whose target is that Location is delivered with the
   same (decoded) path instead of being redirected again.  Reuses the compose/parse lemmas of C10 (Proofs/UriSyntax.v). *)
From Coq Require Import ZArith.
From Httoop Require Import Lib.Bytes Lib.Variant Lib.Utf8 Gen.PercentT Gen.UriT Gen.UriNormT Gen.StartLineT Gen.ServerTargetT.
From Httoop Require Import Model.Percent Model.StartLine Model.UriSyntax Model.UriPath Model.UriNorm Model.ServerTarget.
From Httoop Require Import Proofs.UriPath Proofs.UriNorm Proofs.StartLine Proofs.ServerTarget.
From Httoop Require Proofs.Percent Proofs.Form Proofs.UriSplit Proofs.UriSyntax.
Module PS := Httoop.Proofs.UriSyntax.
Module PF := Httoop.Proofs.Form.
Module PU := Httoop.Proofs.UriSplit.
Module PP := Httoop.Proofs.Percent.
Local Open Scope N_scope.


(* ---------------------------------------------------------------- bridges between the path and the syntax models *)
Lemma psplit_split1 l : psplit l = split1 SLASH l.
Proof.
  induction l as [|c r IH]; [reflexivity|]. cbn [psplit split1]. change SL with SLASH. rewrite IH. reflexivity.
Qed.
Lemma starts_slash_hd p : starts_slash p = PS.hd_slash p.
Proof. reflexivity. Qed.
Lemma starts_with_slash p : starts_with [SLASH] p = starts_slash p.
Proof. destruct p as [|c r]; [reflexivity|]. cbn [starts_with starts_slash]. rewrite andb_true_r. apply beq_sym. Qed.

(* ---------------------------------------------------------------- the segments of a normalised path
   abspath / normalize only drop and reorder segments (and add empty ones): every segment of the result is a
   segment of the argument or empty.  Used with P = "is text for the charset decoder". *)
Section Segs.
Variable P : bytes -> bool.
Hypothesis P_nil : P [] = true.
Set Default Proof Using "Type".

Lemma psplit_hd_tl l : psplit l = hd [] (psplit l) :: tl (psplit l).
Proof. destruct (psplit l) eqn:E; [exfalso; eapply psplit_nonnil; eauto | reflexivity]. Qed.

Lemma collapse_segs_aux p :
  hd [] (psplit (collapse p)) = hd [] (psplit p) /\
  (forallb P (tl (psplit p)) = true -> forallb P (tl (psplit (collapse p))) = true).
Proof using P_nil.
  induction p as [|c r IH]; [split; [reflexivity | intros H; exact H]|].
  destruct IH as [IH1 IH2]. cbn [collapse]. destruct (beq c SL) eqn:Ec.
  - apply beq_eq in Ec. subst c. destruct r as [|d r'].
    + split; [reflexivity | intros H; exact H].
    + destruct (beq d SL) eqn:Ed.
      * apply beq_eq in Ed. subst d. rewrite (psplit_slash (SL :: r')).
        rewrite (psplit_slash r') in IH1, IH2. cbn [hd tl] in *. split; [exact IH1|].
        intros H. cbn [forallb] in H. apply andb_true_iff in H as [_ H]. apply IH2, H.
      * rewrite !psplit_slash. cbn [hd tl]. split; [reflexivity|].
        rewrite (psplit_hd_tl (d :: r')), (psplit_hd_tl (collapse (d :: r'))). cbn [forallb]. rewrite IH1.
        intros H. apply andb_true_iff in H as [H1 H2]. rewrite H1, (IH2 H2). reflexivity.
  - destruct (psplit_other c r Ec) as (h & t & E1 & E2).
    destruct (psplit_other c (collapse r) Ec) as (h' & t' & E1' & E2').
    rewrite E2, E2'. rewrite E1 in IH1, IH2. rewrite E1' in IH1, IH2. cbn [hd tl] in *. subst h'. split; [reflexivity | exact IH2].
Qed.

Lemma collapse_segs p : forallb P (psplit p) = true -> forallb P (psplit (collapse p)) = true.
Proof using P_nil.
  destruct (collapse_segs_aux p) as [A B]. rewrite (psplit_hd_tl p), (psplit_hd_tl (collapse p)). cbn [forallb]. rewrite A.
  intros H. apply andb_true_iff in H as [H1 H2]. rewrite H1, (B H2). reflexivity.
Qed.

Lemma run_forallb ss : forallb P ss = true -> forall stk d, forallb P stk = true ->
  forallb P (pfinal (run ss (stk, d))) = true.
Proof using P_nil.
  induction ss as [|s ss IH]; intros Hss stk d Hstk.
  - cbn [run fold_left]. unfold pfinal. cbn [fst snd]. destruct d; [cbn [forallb]; rewrite P_nil |]; exact Hstk.
  - cbn [forallb] in Hss. apply andb_true_iff in Hss as [Hs Hss]. rewrite run_cons.
    assert (G : forallb P (fst (pstep (stk, d) s)) = true).
    { unfold pstep. cbn [fst snd]. destruct (is_dotdot s).
      - destruct stk; [reflexivity|]. cbn [forallb tl fst] in *. apply andb_true_iff in Hstk. tauto.
      - destruct (is_dot s); cbn [negb fst forallb]; [exact Hstk | rewrite Hs, Hstk; reflexivity]. }
    destruct (pstep (stk, d) s) as [stk' d']. apply IH; assumption.
Qed.

Lemma abspath_core_segs q : forallb P (psplit q) = true -> forallb P (psplit (abspath_core q)) = true.
Proof using P_nil.
  intros H. unfold abspath_core. fold (run (psplit q) ([], false)).
  set (F := pfinal (run (psplit q) ([], false))).
  assert (FP : forallb P F = true) by (apply run_forallb; [exact H | reflexivity]).
  assert (FS : forallb slashfree F = true) by (apply run_slashfree; [apply psplit_slashfree_all | reflexivity]).
  unfold pfinish. fold F. destruct (pjoin (rev F)) as [|a w] eqn:E.
  - cbn. rewrite P_nil. reflexivity.
  - rewrite <- E. destruct F as [|x F'] eqn:EF; [discriminate|].
    rewrite psplit_pjoin.
    + rewrite forallb_rev. exact FP.
    + apply rev_nonnil. discriminate.
    + rewrite forallb_rev. exact FS.
Qed.

Lemma normalize_path_segs h s p : forallb P (psplit p) = true -> forallb P (psplit (normalize_path h s p)) = true.
Proof using P_nil.
  intros H. assert (A : forallb P (psplit (abspath p)) = true).
  { rewrite abspath_unfold. destruct (collapse p) as [|c q] eqn:E; [exact H|].
    apply abspath_core_segs. rewrite <- E. apply collapse_segs, H. }
  unfold normalize_path. destruct (negb (starts_slash (abspath p)) && h && s && nonnil (abspath p)); [|exact A].
  rewrite psplit_slash. cbn [forallb]. rewrite P_nil, A. reflexivity.
Qed.
End Segs.

(* table-dependent: the base class has no default port, so a scheme-less URI has none *)
Lemma scheme_port_nil : scheme_port [] = None.
Proof. vm_compute. reflexivity. Qed.

(* ---------------------------------------------------------------- the Location after the repair *)
Section Redirect.
Variable valid : bytes -> bool.
Variable inet4 inet6 : bytes -> option bytes.
Variable idna_dec idna_enc : bytes -> option bytes.
Variable lower : bytes -> bytes.
Variable iv vq vu v7 vn : variant.
Variable dscheme dhost : bytes.
Variable dport : option N.
Set Default Proof Using "Type".

Notation location_of := (location_of valid inet4 inet6 idna_dec idna_enc vq vu v7).
Notation target_parse := (target_parse valid inet4 inet6 idna_dec vq v7).
Notation server_target := (server_target valid inet4 inet6 idna_dec idna_enc lower iv vq vu v7 vn).
Notation parse := (uri_parse valid inet4 inet6 idna_dec vq v7).

(* nothing is parsed, nothing can fail: the Location is the composed path *)
Lemma location_repaired p : location_of Repaired p = Ok (Some (encoded_path vq p)).
Proof.
  unfold ServerTarget.location_of, path_only, uri_compose, compose_authority, compose_relative, encoded_path.
  cbn [UriSyntax.u_scheme UriSyntax.u_user UriSyntax.u_pass UriSyntax.u_host UriSyntax.u_port UriSyntax.u_path UriSyntax.u_query UriSyntax.u_frag nonempty negb andb app].
  rewrite !app_nil_r. destruct (starts_with [SLASH] p); reflexivity.
Qed.

(* a rooted path is quoted with the full path set, and segment-wise quoting is quoting the whole path *)
Lemma encoded_rooted p : starts_slash p = true -> PS.nl vq p = true -> encoded_path vq p = quote Repaired PCT_PATH p.
Proof.
  intros R NL. unfold encoded_path. rewrite starts_with_slash, R.
  rewrite PS.join_map_quote_split by apply PS.tbl_path_keeps. apply PS.quote_nl, NL.
Qed.

Lemma quote_none_colon p : PF.none COLON p = true -> PF.none COLON (quote Repaired PCT_PATH p) = true.
Proof.
  intros H. unfold PF.none. apply PS.quote_forallb.
  - intros c Hc _. unfold PF.none in H. rewrite forallb_forall in H. apply H, Hc.
  - reflexivity.
  - intros c Hc. destruct (PS.tbl_hex_not_cs c Hc) as [A _]. rewrite A. reflexivity.
Qed.

(* URI.parse on the encoded canonical path: the path comes back, every other slot is empty *)
Lemma parse_encoded p :
  valid [] = true -> idna_dec [] = Some [] ->
  starts_slash p = true -> no_dslash p = true -> PF.none COLON p = true ->
  forallb valid (split1 SLASH p) = true ->
  parse (quote Repaired PCT_PATH p) = Ok (path_only p).
Proof.
  intros V0 I0 R ND NC VS.
  set (Pa := quote Repaired PCT_PATH p).
  assert (CL : forallb (PS.excl [QMARK; HASH; LBR; RBR]) Pa = true) by apply PS.quoted_path_class.
  assert (NH : PF.none HASH Pa = true) by (apply (PS.excl_none [QMARK; HASH; LBR; RBR]); [cbn; auto | exact CL]).
  assert (NQ : PF.none QMARK Pa = true) by (apply (PS.excl_none [QMARK; HASH; LBR; RBR]); [cbn; auto | exact CL]).
  assert (NCo : PF.none COLON Pa = true) by (apply quote_none_colon, NC).
  assert (CSS0 : rpart CSS Pa = None).
  { rewrite <- (app_nil_r Pa). apply PS.rpart_css_block; [exact NCo | reflexivity]. }
  assert (SS : starts_with [SLASH; SLASH] Pa = false).
  { rewrite PS.starts_ss_hd. unfold Pa. rewrite PS.hd_slash_quote.
    destruct p as [|c r]; [discriminate|]. cbn [starts_slash] in R. apply beq_eq in R. subst c.
    rewrite PP.quote_cons. destruct PS.tbl_path_keeps as [KS _]. unfold quote1 at 1. change SL with SLASH. rewrite KS.
    cbn [app tl]. rewrite PS.hd_slash_quote. rewrite no_dslash_cons in ND. apply andb_true_iff in ND as [ND _].
    rewrite beq_SL_SL in ND. cbn [andb] in ND. apply negb_true_iff in ND. rewrite starts_slash_hd in ND. rewrite ND. apply andb_false_r. }
  unfold uri_parse.
  rewrite (PU.stripm_all _ _ (PS.excl_printable _ _ CL)). cbn [nonempty]. rewrite andb_false_r.
  unfold uri_split. rewrite (PF.partition1_none _ _ NH), (PF.partition1_none _ _ NQ), CSS0.
  cbn [negb andb]. rewrite SS, PU.contains_none, NCo.
  cbn [negb andb rpart partition1 contains existsb]. cbv beta iota zeta.
  unfold uri_decode. cbn [UriSyntax.r_scheme r_user r_pass r_host r_port UriSyntax.r_path UriSyntax.r_query UriSyntax.r_frag].
  unfold Pa. rewrite PS.split_quoted_path, (PS.decode_segments valid v7).
  2:{ rewrite forallb_forall in VS. pose proof (PU.split1_items_none SLASH p) as Hn. rewrite Forall_forall in *.
      intros s Hs. split; [apply VS, Hs | apply Hn, Hs]. }
  cbn [bind]. rewrite PU.join_split1.
  change (UriSyntax.lower []) with (@nil byte). cbn [nonempty andb].
  assert (UQ : uq valid v7 [] = Ok []) by (unfold uq; change (unquote []) with (@nil byte); rewrite V0; reflexivity).
  assert (UH : unquote_host valid inet4 inet6 idna_dec v7 [] = Ok []).
  { unfold unquote_host. cbn [starts_with ends_with1 rev andb split1 forallb isdigit nonempty stripm lstripm].
    rewrite UQ. cbn [bind is_ascii forallb]. rewrite I0. reflexivity. }
  unfold norm_query. cbn [nonempty bind]. rewrite UQ, UH. cbn [bind].
  unfold assign, port_of_bytes. cbn [nonempty bind]. rewrite scheme_port_nil. reflexivity.
Qed.


(* the decoded path of a parsed target is text segment by segment, provided replacing "/" by "%2f" keeps text text *)
Lemma bind_ok_inv {A B} (r : res A) (f : A -> res B) b : bind r f = Ok b -> exists a, r = Ok a /\ f a = Ok b.
Proof. destruct r as [a|e]; [intros H; exists a; split; [reflexivity | exact H] | discriminate]. Qed.

Lemma mapM_segments l : forall segs,
  mapM (fun s => t <- uq valid v7 s ;; Ok (esc_slash t)) l = Ok segs ->
  List.length segs = List.length l /\ Forall (fun seg => exists t, valid t = true /\ seg = esc_slash t) segs.
Proof.
  induction l as [|x l IH]; intros segs H.
  - injection H as <-. split; [reflexivity | constructor].
  - cbn [mapM] in H. apply bind_ok_inv in H as (y & H1 & H). apply bind_ok_inv in H as (ys & H2 & H). injection H as <-.
    destruct (IH ys H2) as [L F]. split; [cbn [List.length]; rewrite L; reflexivity|]. constructor; [|exact F].
    apply bind_ok_inv in H1 as (t & U & E). injection E as <-. exists t. split; [|reflexivity].
    unfold uq in U. destruct (valid (unquote x)) eqn:V; [injection U as <-; exact V | discriminate].
Qed.

Lemma parsed_path_text data u :
  (forall t, valid t = true -> valid (esc_slash t) = true) ->
  parse data = Ok u -> forallb valid (split1 SLASH (UriSyntax.u_path u)) = true.
Proof.
  intros VE H. unfold uri_parse in H. destruct (nonempty data && nonempty (stripm URI_PRINTABLE data)); [discriminate|].
  unfold uri_decode in H. apply bind_ok_inv in H as (segs & M & H).
  match type of H with (if ?c then _ else _) = _ => destruct c; [discriminate|] end.
  apply bind_ok_inv in H as (q' & _ & H). apply bind_ok_inv in H as (us & _ & H). apply bind_ok_inv in H as (pw & _ & H).
  apply bind_ok_inv in H as (h' & _ & H). apply bind_ok_inv in H as (fr & _ & H).
  unfold assign in H. apply bind_ok_inv in H as (po & _ & H). injection H as <-. cbn [UriSyntax.u_path].
  apply mapM_segments in M as [L F].
  assert (NE : segs <> []).
  { intros ->. cbn [List.length] in L. destruct (split1 SLASH (UriSyntax.r_path (uri_split data))) eqn:E; [|discriminate].
    eapply PP.split1_nonnil; eauto. }
  rewrite PF.split1_join; [| exact NE |].
  - apply forallb_forall. intros seg Hin. rewrite Forall_forall in F. destruct (F seg Hin) as (t & V & ->). apply VE, V.
  - rewrite Forall_forall in *. intros seg Hin. destruct (F seg Hin) as (t & _ & ->). apply PS.none_esc_slash.
Qed.

(* ... and so is the path a redirect names *)
Lemma redirect_path_text target u0 canon :
  valid [] = true -> (forall t, valid t = true -> valid (esc_slash t) = true) ->
  target_parse target = Ok u0 -> canon = UriNorm.u_path (UriNorm.normalize lower vn u0) ->
  forallb valid (split1 SLASH canon) = true.
Proof.
  intros V0 VE TP ->. rewrite (normalize_eq lower vn u0). cbn [UriNorm.u_path].
  rewrite <- psplit_split1. apply normalize_path_segs; [exact V0|]. rewrite psplit_split1.
  unfold ServerTarget.target_parse in TP. destruct (parse target) as [u|e] eqn:PT; [|discriminate].
  injection TP as <-. cbn [UriNorm.u_path]. exact (parsed_path_text target u VE PT).
Qed.

Lemma no_dslash_not_ss p : starts_slash p = true -> no_dslash p = true -> starts_with [SLASH; SLASH] p = false.
Proof.
  intros R ND. rewrite PS.starts_ss_hd. destruct p as [|c r]; [reflexivity|]. cbn [PS.hd_slash tl].
  cbn [starts_slash] in R. rewrite no_dslash_cons in ND. apply andb_true_iff in ND as [ND _]. rewrite R in ND. cbn [andb] in ND.
  apply negb_true_iff in ND. rewrite starts_slash_hd in ND. rewrite ND. apply andb_false_r.
Qed.

Lemma port_of_int_err d dp e : port_of_int d dp = Err e -> exists q, dp = Some q /\ 65535 < q.
Proof.
  unfold port_of_int. destruct dp as [q|]; [|discriminate]. destruct q as [|q]; [discriminate|].
  unfold check_port. destruct ((0 <? Z.of_N (N.pos q))%Z && (Z.of_N (N.pos q) <=? 65535)%Z) eqn:E; [discriminate|].
  intros _. exists (N.pos q). split; [reflexivity|]. apply andb_false_iff in E as [E|E].
  - apply Z.ltb_ge in E. lia.
  - apply Z.leb_gt in E. lia.
Qed.

(* a request whose target is the encoded canonical path: parsed, valid, not redirected again, delivered with that path *)
Lemma follow vl line m v p :
  valid [] = true -> idna_dec [] = Some [] -> lower [] = [] ->
  starts_slash p = true -> no_dot_seg p = true -> no_dslash p = true ->
  PF.none COLON p = true -> PS.nl vq p = true -> forallb valid (split1 SLASH p) = true ->
  req_parse iv line = RqTarget m (encoded_path vq p) v -> bytes_eqb m CONNECT = false ->
  match server_target vl dscheme dhost dport line with
  | Deliver u m' v' =>
      m' = m /\ v' = v /\ UriNorm.u_path u = p /\ UriNorm.u_scheme u = dscheme /\ UriNorm.u_host u = dhost /\
      UriNorm.u_query u = [] /\ UriNorm.u_user u = [] /\ UriNorm.u_pass u = [] /\ UriNorm.u_frag u = []
  | V505 => ver_ltb SERVER_PROTOCOL v = true
  | Bad400 => exists q, dport = Some q /\ 65535 < q        (* the configured default port is unusable *)
  | Redirect301 _ _ | Escape => False
  end.
Proof.
  intros V0 I0 L0 R NDS ND NC NL VS RP MC.
  unfold ServerTarget.server_target. rewrite RP. rewrite (encoded_rooted p R NL).
  unfold ServerTarget.target_parse. rewrite (parse_encoded p V0 I0 R ND NC VS).
  unfold path_only. cbn [UriSyntax.u_scheme UriSyntax.u_user UriSyntax.u_pass UriSyntax.u_host UriSyntax.u_port UriSyntax.u_path UriSyntax.u_query UriSyntax.u_frag nonempty].
  set (u0 := U _ _ _ _ _ _ _ _ _).
  assert (VU : validate_uri m u0 = true).
  { unfold validate_uri, u0. cbn [UriNorm.u_scheme UriNorm.u_user UriNorm.u_pass UriNorm.u_host UriNorm.u_path UriNorm.u_query UriNorm.u_frag nonempty andb orb].
    rewrite (no_dslash_not_ss p R ND), R, MC. cbn [negb andb]. rewrite !andb_false_r. reflexivity. }
  rewrite VU. unfold ServerTarget.uri_hooks.
  assert (CO : compose_ok idna_enc vq vu u0 = true) by reflexivity.
  rewrite CO. cbn [negb].
  rewrite (normalize_eq lower vn u0). unfold norm_dport, u0.
  cbn [UriNorm.u_dport UriNorm.u_scheme UriNorm.u_user UriNorm.u_pass UriNorm.u_host UriNorm.u_path UriNorm.u_query UriNorm.u_frag UriNorm.u_port].
  rewrite L0. cbn [nonnil]. unfold normalize_path.
  assert (AF : abspath p = p) by (apply abspath_fixed; [destruct p; [discriminate | congruence] | exact NDS | exact ND]).
  rewrite AF, R. cbn [negb andb]. rewrite bytes_eqb_refl. cbn [negb].
  unfold scheme_step. cbn [UriNorm.u_scheme nonempty]. unfold set_defaults.
  match goal with |- context [port_of_int ?d dport] => destruct (port_of_int d dport) as [pp|e] eqn:PO end.
  - destruct (ver_ltb SERVER_PROTOCOL v) eqn:VV; [reflexivity|]. cbn. repeat split.
  - eapply port_of_int_err, PO.
Qed.
End Redirect.

(* ================================================================ final statements, all parameters explicit *)
(* C06_redirect_location: after the repair the Location of the 301 is the encoded normalised path, whatever it contains *)
Lemma final_redirect_location :
  forall (valid : bytes -> bool) (inet4 inet6 idna_dec idna_enc : bytes -> option bytes) (lower : bytes -> bytes)
         (iv vq vu v7 vn : variant) (dscheme dhost : bytes) (dport : option N) (line canon loc : bytes),
  server_target valid inet4 inet6 idna_dec idna_enc lower iv vq vu v7 vn Repaired dscheme dhost dport line = Redirect301 canon loc ->
  loc = encoded_path vq canon /\ no_dot_seg canon = true /\ no_dslash canon = true /\
  exists m target v u0, req_parse iv line = RqTarget m target v /\
    target_parse valid inet4 inet6 idna_dec vq v7 target = Ok u0 /\
    canon = UriNorm.u_path (UriNorm.normalize lower vn u0) /\ canon <> UriNorm.u_path u0.
Proof.
  intros until loc. intros H.
  apply server_target_redirect in H as (m & target & v & u0 & RP & TP & _ & (E & NE & A & B) & L).
  rewrite location_repaired in L. injection L as <-.
  split; [reflexivity|]. split; [exact A|]. split; [exact B|]. exists m, target, v, u0. auto.
  Unshelve. exact (fun _ => ElInvalid). exact (fun _ => None).
Qed.

(* C06_no_escape_repaired: with D40, D7 and D55 repaired no exception leaves the start-line hooks, for any callees *)
Lemma final_no_escape_repaired :
  forall (valid : bytes -> bool) (inet4 inet6 idna_dec idna_enc : bytes -> option bytes) (lower : bytes -> bytes)
         (vq vu vn : variant) (dscheme dhost : bytes) (dport : option N) (line : bytes),
  server_target valid inet4 inet6 idna_dec idna_enc lower Repaired vq vu Repaired vn Repaired dscheme dhost dport line <> Escape.
Proof.
  intros until line. intros E.
  pose proof (final_other_outcomes valid inet4 inet6 idna_dec idna_enc lower vq vu vn Repaired dscheme dhost dport line) as H.
  rewrite E in H. destruct H as [H _]. discriminate.
Qed.

(* C06_redirect_followed_partial: the request a client sends when it follows the redirect is delivered with the canonical path *)
Lemma final_redirect_followed :
  forall (valid : bytes -> bool) (inet4 inet6 idna_dec idna_enc : bytes -> option bytes) (lower : bytes -> bytes)
         (iv vq vu v7 vn : variant) (dscheme dhost : bytes) (dport : option N) (line canon loc : bytes),
  valid [] = true -> (forall t, valid t = true -> valid (esc_slash t) = true) -> idna_dec [] = Some [] -> lower [] = [] ->
  server_target valid inet4 inet6 idna_dec idna_enc lower iv vq vu v7 vn Repaired dscheme dhost dport line = Redirect301 canon loc ->
  starts_slash canon = true ->                              (* not the D53 class *)
  contains COLON canon = false ->                           (* not the D49 class: URI.parse reads "/a:b" as a scheme *)
  PS.nl vq canon = true ->                                  (* not the D1 class: one-digit escapes of octets below 0x10 *)
  forall (line' m : bytes) (v : version),
  req_parse iv line' = RqTarget m loc v -> bytes_eqb m CONNECT = false ->
  match server_target valid inet4 inet6 idna_dec idna_enc lower iv vq vu v7 vn Repaired dscheme dhost dport line' with
  | Deliver u m' v' =>
      m' = m /\ v' = v /\ UriNorm.u_path u = canon /\ UriNorm.u_scheme u = dscheme /\ UriNorm.u_host u = dhost /\
      UriNorm.u_query u = [] /\ UriNorm.u_user u = [] /\ UriNorm.u_pass u = [] /\ UriNorm.u_frag u = []
  | V505 => ver_ltb SERVER_PROTOCOL v = true
  | Bad400 => exists q, dport = Some q /\ 65535 < q
  | Redirect301 _ _ | Escape => False
  end.
Proof.
  intros until loc. intros V0 VE I0 L0 H R NC NL line' m v RP MC.
  apply final_redirect_location in H as (-> & A & B & (m0 & target & v0 & u0 & _ & TP & E & _)).
  apply follow; auto.
  - rewrite PU.contains_none in NC. apply negb_false_iff in NC. exact NC.
  - exact (redirect_path_text valid inet4 inet6 idna_dec lower vq v7 vn target u0 canon V0 VE TP E).
Qed.

(* ================================================================ the callee hypothesis on the charset decoder is satisfiable:
   for the UTF-8 decoder model of Lib/Utf8.v, replacing "/" by the ASCII text "%2f" keeps a text a text *)
Lemma esc_slash_cons c r : esc_slash (c :: r) = (if beq c SLASH then [PCT; x32; x66] else [c]) ++ esc_slash r.
Proof. reflexivity. Qed.
Lemma ge128_not_slash a : 128 <= bN a -> beq a SLASH = false.
Proof. intros H. destruct (beq a SLASH) eqn:E; [|reflexivity]. apply beq_eq in E. subst a. vm_compute in H. exfalso. apply H. reflexivity. Qed.
Lemma cont_not_slash a : cont a = true -> beq a SLASH = false.
Proof. unfold cont. intros H. apply andb_true_iff in H as [H _]. apply N.leb_le in H. apply ge128_not_slash, H. Qed.
Lemma inr_not_slash lo hi a : 128 <= lo -> inr lo hi a = true -> beq a SLASH = false.
Proof. unfold inr. intros L H. apply andb_true_iff in H as [H _]. apply N.leb_le in H. apply ge128_not_slash. lia. Qed.
Lemma utf8_ascii c r : (bN c <? 128) = true -> utf8_valid (c :: r) = utf8_valid r.
Proof. intros H. cbn [utf8_valid]. cbv zeta. rewrite H. reflexivity. Qed.

Lemma utf8_esc_slash_len (n : nat) : forall t, (List.length t <= n)%nat -> utf8_valid t = true -> utf8_valid (esc_slash t) = true.
Proof.
  induction n as [|n IH]; intros t L H.
  - destruct t; [reflexivity | cbn in L; lia].
  - destruct t as [|c r]; [reflexivity|]. cbn [List.length] in L. rewrite esc_slash_cons.
    destruct (beq c SLASH) eqn:Ec.
    + apply beq_eq in Ec. subst c. rewrite (utf8_ascii SLASH r eq_refl) in H.
      cbn [app]. rewrite !utf8_ascii by reflexivity. apply IH; [lia | exact H].
    + cbn [app]. cbn [utf8_valid] in H. cbv zeta in H.
      destruct (bN c <? 128) eqn:E1; [rewrite (utf8_ascii c _ E1); apply IH; [lia | exact H]|].
      destruct ((194 <=? bN c) && (bN c <=? 223)) eqn:E2.
      { destruct r as [|a r1]; [discriminate|]. apply andb_true_iff in H as [Ha Hr].
        rewrite esc_slash_cons, (cont_not_slash a Ha). cbn [app utf8_valid]. cbv zeta. rewrite E1, E2, Ha. cbn [andb].
        apply IH; [cbn [List.length] in L; lia | exact Hr]. }
      destruct ((224 <=? bN c) && (bN c <=? 239)) eqn:E3.
      { destruct r as [|a [|b r2]]; try discriminate. apply andb_true_iff in H as [H Hr]. apply andb_true_iff in H as [Ha Hb].
        assert (Na : beq a SLASH = false).
        { destruct (bN c =? 224); [eapply inr_not_slash; [|exact Ha]; lia|].
          destruct (bN c =? 237); [eapply inr_not_slash; [|exact Ha]; lia | apply cont_not_slash, Ha]. }
        rewrite !esc_slash_cons, Na, (cont_not_slash b Hb). cbn [app utf8_valid]. cbv zeta. rewrite E1, E2, E3, Ha, Hb. cbn [andb].
        apply IH; [cbn [List.length] in L; lia | exact Hr]. }
      destruct ((240 <=? bN c) && (bN c <=? 244)) eqn:E4; [|discriminate].
      destruct r as [|a [|b [|d r3]]]; try discriminate.
      apply andb_true_iff in H as [H Hr]. apply andb_true_iff in H as [H Hd]. apply andb_true_iff in H as [Ha Hb].
      assert (Na : beq a SLASH = false).
      { destruct (bN c =? 240); [eapply inr_not_slash; [|exact Ha]; lia|].
        destruct (bN c =? 244); [eapply inr_not_slash; [|exact Ha]; lia | apply cont_not_slash, Ha]. }
      rewrite !esc_slash_cons, Na, (cont_not_slash b Hb), (cont_not_slash d Hd). cbn [app utf8_valid]. cbv zeta.
      rewrite E1, E2, E3, E4, Ha, Hb, Hd. cbn [andb].
      apply IH; [cbn [List.length] in L; lia | exact Hr].
Qed.

Lemma utf8_esc_slash t : utf8_valid t = true -> utf8_valid (esc_slash t) = true.
Proof. apply (utf8_esc_slash_len (List.length t)). apply Nat.le_refl. Qed.

(* ================================================================ concrete callees: examples and witnesses *)
(* the former D55 witness on the repaired model: "GET /x/../%2561 HTTP/1.1" -> 301, canonical path "/%61" (a segment spelled
   percent-6-1), Location "/%2561"; and "GET /%2561 HTTP/1.1" is delivered with the path "/%61" *)
Lemma ex_redirect_repaired :
  ex_target (X "474554202f782f2e2e2f253235363120485454502f312e31") = Redirect301 (X "2f253631") (X "2f2532353631") /\
  exists u, ex_target (X "474554202f253235363120485454502f312e31") = Deliver u (X "474554") (1, 1) /\ UriNorm.u_path u = X "2f253631".
Proof. split; [vm_compute; reflexivity|]. eexists. split; vm_compute; reflexivity. Qed.

(* "?", "#", a non-ASCII character and a space in a segment: "GET /x/../a%3Fb%23%C3%A4%20c HTTP/1.1" *)
Lemma ex_redirect_delims :
  ex_target (X "474554202f782f2e2e2f61253346622532332543332541342532306320485454502f312e31")
  = Redirect301 (X "2f613f6223c3a42063") (X "2f612533466225323325433325413425323063") /\
  exists u, ex_target (X "474554202f61253346622532332543332541342532306320485454502f312e31") = Deliver u (X "474554") (1, 1) /\
            UriNorm.u_path u = X "2f613f6223c3a42063".
Proof. split; [vm_compute; reflexivity|]. eexists. split; vm_compute; reflexivity. Qed.

(* the hypotheses of final_redirect_followed hold for these callees (Lib/Utf8: replacing "/" by the ASCII text "%2f" keeps
   UTF-8 valid -- proved for the decoder model in utf8_esc_slash) and the first example *)
Lemma ex_followed_hypotheses :
  utf8_valid [] = true /\ (forall t, utf8_valid t = true -> utf8_valid (esc_slash t) = true) /\ ex_id [] = Some [] /\ lower_ascii [] = [] /\
  starts_slash (X "2f253631") = true /\ contains COLON (X "2f253631") = false /\ PS.nl AsFound (X "2f253631") = true.
Proof. split; [reflexivity|]. split; [exact utf8_esc_slash|]. vm_compute. repeat split. Qed.

(* D49 seen from the redirect: "GET /x/../a%3Ab HTTP/1.1" -> 301 Location "/a:b" (correct), but "GET /a:b HTTP/1.1" is refused:
   URI.parse takes "/a" for a scheme *)
Lemma witness_follow_colon :
  ex_target (X "474554202f782f2e2e2f612533416220485454502f312e31") = Redirect301 (X "2f613a62") (X "2f613a62") /\
  ex_target (X "474554202f613a6220485454502f312e31") = Bad400.
Proof. split; vm_compute; reflexivity. Qed.

(* D1 seen from the redirect: "GET /x/../%01 HTTP/1.1" -> 301 whose Location is "/%1" (one-digit escape); "GET /%1 HTTP/1.1" is
   delivered with the three-character segment "%1", not with U+0001 *)
Lemma witness_follow_low_octet :
  ex_target (X "474554202f782f2e2e2f25303120485454502f312e31") = Redirect301 (X "2f01") (X "2f2531") /\
  exists u, ex_target (X "474554202f253120485454502f312e31") = Deliver u (X "474554") (1, 1) /\
            UriNorm.u_path u = X "2f2531" /\ UriNorm.u_path u <> X "2f01".
Proof. split; [vm_compute; reflexivity|]. eexists. split; [vm_compute; reflexivity|]. split; [reflexivity | discriminate]. Qed.

(* Lemmas about the HTTP-date model: the three textual forms of every instant of the property's range are read
   back as that instant (symbolic execution of the parsedate_tz model on tokens characterised by finite
   sweeps + the calendar inverse of Proofs/DateCal.v), length / weekday of the composed text, comparisons,
   the zone parameter. *)
From Coq Require Import ZArith Bool Lia List.
From Httoop Require Import Lib.Bytes Lib.Variant Model.DateCal Gen.DateT Model.Date Proofs.DateSweep Proofs.DateCal.
Import ListNotations.
Local Open Scope Z_scope.

(* ------------------------------------------------------------------ octet classes *)
Ltac by_bytes := apply forall_byte; vm_compute; reflexivity.

Definition notc (x : byte) (c : byte) : bool := negb (beq c x).
Definition notws (c : byte) : bool := negb (is_ws c).

Lemma dec_class : forall c, implb (is_dec c)
  (notws c && notc COMMA c && notc COLON c && notc MINUS c && notc PLUS c && notc DOT c && is_digit c && beq (lower1 c) c) = true.
Proof. by_bytes. Qed.

Lemma is_ws_SP : is_ws SP = true.
Proof. vm_compute. reflexivity. Qed.

Lemma forallb_imp (P Q : byte -> bool) : (forall c, P c = true -> Q c = true) ->
  forall l, forallb P l = true -> forallb Q l = true.
Proof.
  intros H l. induction l as [|c l IH]; cbn; [reflexivity|].
  intros E. apply andb_true_iff in E as [E1 E2]. rewrite (H c E1), (IH E2). reflexivity.
Qed.

Definition nows (l : bytes) : bool := forallb notws l.
Definition nosep (x : byte) (l : bytes) : bool := forallb (notc x) l.

(* a digit token: non-empty, decimal digits only *)
Definition digtok (l : bytes) : bool := negb (is_nil l) && forallb is_dec l.

Lemma dec_class_split c : is_dec c = true ->
  notws c = true /\ notc COMMA c = true /\ notc COLON c = true /\ notc MINUS c = true /\ notc PLUS c = true /\
  notc DOT c = true /\ is_digit c = true /\ lower1 c = c.
Proof.
  intros H. pose proof (dec_class c) as D. rewrite H in D. cbn [implb] in D.
  do 7 (apply andb_true_iff in D as [D ?]). apply beq_eq in H0. repeat split; assumption.
Qed.

Lemma digtok_nonnil l : digtok l = true -> is_nil l = false.
Proof. unfold digtok. destruct l; [cbn [is_nil negb andb]; congruence | reflexivity]. Qed.

Lemma digtok_all l : digtok l = true -> forallb is_dec l = true.
Proof. unfold digtok. intros H. apply andb_true_iff in H. tauto. Qed.

Lemma digtok_nows l : digtok l = true -> nows l = true.
Proof. intros H. apply (forallb_imp is_dec); [|apply digtok_all, H]. intros c Hc. apply dec_class_split in Hc. tauto. Qed.

Lemma digtok_nosep x l : (x = COMMA \/ x = COLON \/ x = MINUS \/ x = PLUS \/ x = DOT) -> digtok l = true -> nosep x l = true.
Proof.
  intros Hx H. apply (forallb_imp is_dec); [|apply digtok_all, H]. intros c Hc. apply dec_class_split in Hc.
  destruct Hx as [->|[->|[->|[->| ->]]]]; tauto.
Qed.

Lemma digtok_lower l : digtok l = true -> lower l = l.
Proof.
  intros H. apply digtok_all in H. unfold lower. induction l as [|c l IH]; [reflexivity|].
  cbn in H. apply andb_true_iff in H as [H1 H2]. cbn [map]. rewrite (IH H2).
  apply dec_class_split in H1. destruct H1 as (_ & _ & _ & _ & _ & _ & _ & ->). reflexivity.
Qed.

(* ------------------------------------------------------------------ str.split() *)
Lemma split_ws_sp r : split_ws (SP :: r) = split_ws r.
Proof. cbn [split_ws]. rewrite is_ws_SP. reflexivity. Qed.

Lemma split_ws_repeat_sp k r : split_ws (repeat SP k ++ r) = split_ws r.
Proof. induction k; cbn [repeat app]; [reflexivity|]. rewrite split_ws_sp. exact IHk. Qed.

Lemma split_ws_cons2 c c' r : split_ws (c :: c' :: r) =
  if is_ws c then split_ws (c' :: r)
  else if is_ws c' then [c] :: split_ws (c' :: r)
  else match split_ws (c' :: r) with h :: t => (c :: h) :: t | [] => [[c]] end.
Proof. reflexivity. Qed.

Lemma split_ws_one c : is_ws c = false -> split_ws [c] = [[c]].
Proof. intros H. cbn [split_ws]. rewrite H. reflexivity. Qed.

Lemma nows_cons c l : nows (c :: l) = true -> is_ws c = false /\ nows l = true.
Proof.
  unfold nows. cbn [forallb]. intros H. apply andb_true_iff in H as [H1 H2].
  unfold notws in H1. apply negb_true_iff in H1. split; assumption.
Qed.

Lemma split_ws_tok tok rest : is_nil tok = false -> nows tok = true ->
  split_ws (tok ++ SP :: rest) = tok :: split_ws rest.
Proof.
  induction tok as [|c tok IH]; [discriminate|]. intros _ H.
  apply nows_cons in H as [Hc Ht].
  destruct tok as [|c' tok].
  - cbn [app]. rewrite split_ws_cons2, Hc, is_ws_SP. rewrite split_ws_sp. reflexivity.
  - specialize (IH eq_refl Ht). pose proof (nows_cons _ _ Ht) as [Hc' _].
    change ((c :: c' :: tok) ++ SP :: rest) with (c :: c' :: (tok ++ SP :: rest)).
    change ((c' :: tok) ++ SP :: rest) with (c' :: (tok ++ SP :: rest)) in IH.
    rewrite split_ws_cons2, Hc, Hc', IH. reflexivity.
Qed.

Lemma split_ws_last tok : is_nil tok = false -> nows tok = true -> split_ws tok = [tok].
Proof.
  induction tok as [|c tok IH]; [discriminate|]. intros _ H.
  apply nows_cons in H as [Hc Ht].
  destruct tok as [|c' tok].
  - apply split_ws_one, Hc.
  - specialize (IH eq_refl Ht). pose proof (nows_cons _ _ Ht) as [Hc' _].
    rewrite split_ws_cons2, Hc, Hc', IH. reflexivity.
Qed.

(* ------------------------------------------------------------------ str.split(sep), find, last character *)
Lemma split1_nosep x l : nosep x l = true -> split1 x l = [l].
Proof.
  induction l as [|c l IH]; [reflexivity|]. cbn. intros H. apply andb_true_iff in H as [H1 H2].
  unfold notc in H1. apply negb_true_iff in H1. rewrite H1, (IH H2). reflexivity.
Qed.

Lemma split1_app x a r : nosep x a = true -> split1 x (a ++ x :: r) = a :: split1 x r.
Proof.
  induction a as [|c a IH]; cbn [app split1].
  - intros _. rewrite beq_refl. reflexivity.
  - cbn. intros H. apply andb_true_iff in H as [H1 H2].
    unfold notc in H1. apply negb_true_iff in H1. rewrite H1, (IH H2). reflexivity.
Qed.

Lemma find_c_nosep x l : nosep x l = true -> find_c x l = None.
Proof.
  induction l as [|c l IH]; [reflexivity|]. cbn. intros H. apply andb_true_iff in H as [H1 H2].
  unfold notc in H1. apply negb_true_iff in H1. rewrite H1, (IH H2). reflexivity.
Qed.

Lemma find_c_app x a r : nosep x a = true -> find_c x (a ++ x :: r) = Some (List.length a).
Proof.
  induction a as [|c a IH]; cbn [app find_c List.length].
  - intros _. rewrite beq_refl. reflexivity.
  - cbn. intros H. apply andb_true_iff in H as [H1 H2].
    unfold notc in H1. apply negb_true_iff in H1. rewrite H1, (IH H2). reflexivity.
Qed.

Lemma last_is_nosep x l : nosep x l = true -> last_is x l = false.
Proof.
  unfold last_is. destruct l as [|c0 l]; [reflexivity|]. revert c0.
  induction l as [|c l IH]; intros c0 H.
  - cbn in *. rewrite andb_true_r in H. unfold notc in H. apply negb_true_iff in H. exact H.
  - cbn in H. apply andb_true_iff in H as [_ H]. specialize (IH c H). cbn [last] in *. exact IH.
Qed.

Lemma last_is_app x a b : is_nil b = false -> last_is x (a ++ b) = last_is x b.
Proof.
  intros Hb. unfold last_is. destruct b as [|b0 b]; [discriminate|].
  induction a as [|c a IH]; [reflexivity|].
  cbn [app]. destruct (a ++ b0 :: b) eqn:E; [destruct a; discriminate|].
  rewrite <- E in *. cbn [last]. rewrite E. rewrite <- E. exact IH.
Qed.

Lemma last_is_snoc x a : last_is x (a ++ [x]) = true.
Proof. rewrite last_is_app by reflexivity. cbn. apply beq_refl. Qed.

Lemma drop_comma_nosep l : nosep COMMA l = true -> drop_comma l = l.
Proof. intros H. unfold drop_comma. rewrite (last_is_nosep _ _ H). reflexivity. Qed.

Lemma nosep_app x a b : nosep x (a ++ b) = nosep x a && nosep x b.
Proof. unfold nosep. apply forallb_app. Qed.

Lemma nows_app a b : nows (a ++ b) = nows a && nows b.
Proof. unfold nows. apply forallb_app. Qed.

Lemma is_nil_app a b : is_nil (a ++ b) = is_nil a && is_nil b.
Proof. destruct a; reflexivity. Qed.

(* ------------------------------------------------------------------ tokens: finite sweeps
   (the numeric fields take at most 10000 values, the tables have 7 / 12 rows: every fact the parser needs
   about a token is a boolean checked on the whole domain by vm_compute; the table-dependent ones are
   re-checked whenever T1 regenerates Gen/DateT.v) *)
Definition some_eqb (o : option Z) (n : Z) : bool := match o with Some x => x =? n | None => false end.
Definition is_none {A} (o : option A) : bool := match o with None => true | Some _ => false end.

Lemma some_eqb_eq o n : some_eqb o n = true -> o = Some n.
Proof. destruct o; cbn; [|discriminate]. intros H. apply Z.eqb_eq in H. congruence. Qed.

Lemma is_none_eq {A} (o : option A) : is_none o = true -> o = None.
Proof. destruct o; [discriminate|reflexivity]. Qed.

Definition fmt2_ok (n : Z) : bool := let T := fmt0 2 n in digtok T && some_eqb (py_int T) n && (zlen T =? 2).
Definition fmt4_ok (n : Z) : bool := let T := fmt0 4 n in digtok T && some_eqb (py_int T) n && (zlen T =? 4).
Definition dec_ok (n : Z) : bool := let T := dec n in digtok T && some_eqb (py_int T) n && (zlen T =? 4).
Definition ascday_ok (d : Z) : bool :=
  let T := dec d in
  digtok T && digtok (lower T) && some_eqb (py_int (lower T)) d && is_none (month_index (lower T)) && (zlen T <=? 2).

Lemma fmt2_facts : forall n, 0 <= n < 100 -> fmt2_ok n = true.
Proof. apply zsweep_range. vm_compute. reflexivity. Qed.
Lemma fmt4_facts : forall n, 0 <= n < 10000 -> fmt4_ok n = true.
Proof. apply zsweep_range. vm_compute. reflexivity. Qed.
Lemma dec_facts : forall n, 1000 <= n < 10000 -> dec_ok n = true.
Proof. apply zsweep_range. vm_compute. reflexivity. Qed.
Lemma ascday_facts : forall d, 1 <= d < 32 -> ascday_ok d = true.
Proof. apply zsweep_range. vm_compute. reflexivity. Qed.

Definition nonnil (l : bytes) : bool := negb (is_nil l).
Lemma nonnil_eq l : nonnil l = true -> is_nil l = false.
Proof. unfold nonnil. apply negb_true_iff. Qed.

Definition wd_ok (i : Z) : bool := let W := nthb WDAY_ABBR i in nonnil W && nows W && (zlen W =? 3).
Definition full_ok (i : Z) : bool := let W := nthb DAY_FULL i in nonnil W && nows W.
Definition cwd_ok (i : Z) : bool := let W := nthb C_DAY_ABBR i in nonnil W && nows W && mem (lower W) PD_DAYNAMES.
Definition mon_ok (i : Z) : bool :=
  let M := nthb MONTH_ABBR (i - 1) in nonnil M && nows M && some_eqb (month_index (lower M)) i && (zlen M =? 3).
Definition cmon_ok (i : Z) : bool :=
  let M := nthb C_MONTH_ABBR (i - 1) in nonnil M && nows M && nosep MINUS M && some_eqb (month_index (lower M)) i.

Lemma wd_facts : forall i, 0 <= i < 7 -> wd_ok i = true.
Proof. apply zsweep_range. vm_compute. reflexivity. Qed.
Lemma full_facts : forall i, 0 <= i < 7 -> full_ok i = true.
Proof. apply zsweep_range. vm_compute. reflexivity. Qed.
Lemma cwd_facts : forall i, 0 <= i < 7 -> cwd_ok i = true.
Proof. apply zsweep_range. vm_compute. reflexivity. Qed.
Lemma mon_facts : forall i, 1 <= i < 13 -> mon_ok i = true.
Proof. apply zsweep_range. vm_compute. reflexivity. Qed.
Lemma cmon_facts : forall i, 1 <= i < 13 -> cmon_ok i = true.
Proof. apply zsweep_range. vm_compute. reflexivity. Qed.

(* the separators and field widths of Date.__compose, as regenerated by T1 *)
Lemma imf_layout :
  IMF_SEPS = [[COMMA; SP]; [SP]; [SP]; [SP]; [COLON]; [COLON]; SP :: GMT] /\ IMF_WIDTHS = [2; 4; 2; 2; 2].
Proof. split; vm_compute; reflexivity. Qed.

Lemma gmt_tok : is_nil GMT = false /\ nows GMT = true.
Proof. split; vm_compute; reflexivity. Qed.

(* ------------------------------------------------------------------ the clock token hh:mm:ss *)
Definition clock3 (a b c : bytes) : bytes := a ++ COLON :: b ++ COLON :: c.

Lemma notws_COLON : notws COLON = true.
Proof. vm_compute. reflexivity. Qed.

Lemma digtok_head_digit l : digtok l = true -> match l with c :: _ => is_digit c = true | [] => False end.
Proof.
  intros H. pose proof (digtok_nonnil _ H) as N. apply digtok_all in H. destruct l as [|c l]; [discriminate|].
  cbn [forallb] in H. apply andb_true_iff in H as [H _]. apply dec_class_split in H. tauto.
Qed.

Lemma clock3_facts a b c : digtok a = true -> digtok b = true -> digtok c = true ->
  is_nil (clock3 a b c) = false /\ nows (clock3 a b c) = true /\ drop_comma (clock3 a b c) = clock3 a b c /\
  parse_clock (clock3 a b c) = Some (a, b, c) /\ find_c COLON (clock3 a b c) = Some (List.length a).
Proof.
  intros Ha Hb Hc. unfold clock3. repeat split.
  - pose proof (digtok_nonnil _ Ha). destruct a; [discriminate|reflexivity].
  - change (a ++ COLON :: b ++ COLON :: c) with (a ++ [COLON] ++ b ++ [COLON] ++ c).
    rewrite !nows_app, (digtok_nows _ Ha), (digtok_nows _ Hb), (digtok_nows _ Hc).
    unfold nows. cbn [forallb]. rewrite notws_COLON. reflexivity.
  - unfold drop_comma.
    replace (a ++ COLON :: b ++ COLON :: c) with ((a ++ COLON :: b ++ [COLON]) ++ c)
      by (rewrite <- !app_assoc; cbn [app]; rewrite <- !app_assoc; reflexivity).
    rewrite last_is_app by (apply digtok_nonnil, Hc).
    rewrite last_is_nosep by (apply digtok_nosep; [tauto | exact Hc]). reflexivity.
  - unfold parse_clock.
    rewrite split1_app by (apply digtok_nosep; [tauto | exact Ha]).
    rewrite split1_app by (apply digtok_nosep; [tauto | exact Hb]).
    rewrite split1_nosep by (apply digtok_nosep; [tauto | exact Hc]). reflexivity.
  - apply find_c_app. apply digtok_nosep; [tauto | exact Ha].
Qed.

(* ------------------------------------------------------------------ pd_fields on well-shaped tokens *)
(* day month year clock (IMF-fixdate; RFC 850 after the split of dd-Mon-yy) *)
Lemma pd_fields_std D Mo Y hh mi ss tz d m y h mn s :
  digtok D = true -> py_int D = Some d ->
  is_nil Mo = false -> month_index (lower Mo) = Some m ->
  digtok Y = true -> py_int Y = Some y ->
  digtok hh = true -> py_int hh = Some h -> digtok mi = true -> py_int mi = Some mn -> digtok ss = true -> py_int ss = Some s ->
  pd_fields D Mo Y (clock3 hh mi ss) tz = Some (fix_year y, m, d, h, mn, s).
Proof.
  intros HD HDi HMo HMi HY HYi Hh Hhi Hm Hmi Hs Hsi.
  destruct (clock3_facts hh mi ss Hh Hm Hs) as (_ & _ & Cd & Cp & _).
  unfold pd_fields.
  rewrite (digtok_nonnil _ HD), HMo, (digtok_nonnil _ HY). cbn [orb].
  rewrite HMi.
  rewrite (drop_comma_nosep D) by (apply digtok_nosep; [tauto | exact HD]).
  rewrite (find_c_nosep COLON Y) by (apply digtok_nosep; [tauto | exact HY]).
  cbv beta iota.
  rewrite (drop_comma_nosep Y) by (apply digtok_nosep; [tauto | exact HY]).
  rewrite (digtok_nonnil _ HY).
  pose proof (digtok_head_digit _ HY) as Hd. destruct Y as [|c0 Y']; [contradiction|]. rewrite Hd.
  rewrite Cd, Cp, HYi, HDi, Hhi, Hmi, Hsi. reflexivity.
Qed.

(* month day clock year (asctime): the parser swaps day/month and year/clock *)
Lemma pd_fields_asc Mo Dd Y hh mi ss d m y h mn s :
  is_nil Mo = false -> month_index (lower Mo) = Some m ->
  digtok Dd = true -> digtok (lower Dd) = true -> month_index (lower Dd) = None -> py_int (lower Dd) = Some d ->
  digtok Y = true -> py_int Y = Some y ->
  digtok hh = true -> py_int hh = Some h -> digtok mi = true -> py_int mi = Some mn -> digtok ss = true -> py_int ss = Some s ->
  pd_fields Mo Dd (clock3 hh mi ss) Y [] = Some (fix_year y, m, d, h, mn, s).
Proof.
  intros HMo HMi HDd HDl HDn HDi HY HYi Hh Hhi Hm Hmi Hs Hsi.
  destruct (clock3_facts hh mi ss Hh Hm Hs) as (Cn & _ & Cd & Cp & Cf).
  unfold pd_fields.
  rewrite HMo, (digtok_nonnil _ HDd), Cn. cbn [orb].
  rewrite HDn, HMi.
  rewrite (drop_comma_nosep (lower Dd)) by (apply digtok_nosep; [tauto | exact HDl]).
  rewrite Cf. pose proof (digtok_nonnil _ Hh) as Hn. destruct hh as [|h0 hh']; [discriminate|].
  cbn [List.length]. cbv beta iota.
  rewrite (drop_comma_nosep Y) by (apply digtok_nosep; [tauto | exact HY]).
  rewrite (digtok_nonnil _ HY).
  pose proof (digtok_head_digit _ HY) as Hd. destruct Y as [|c0 Y']; [contradiction|]. rewrite Hd.
  rewrite Cd, Cp, HYi, HDi, Hhi, Hmi, Hsi. reflexivity.
Qed.

(* ------------------------------------------------------------------ unpacking the sweeps *)
Ltac split_andb H :=
  repeat match type of H with
  | (_ && _) = true => let H' := fresh H in apply andb_true_iff in H as [H H']
  end.

Lemma fmt2_use n : 0 <= n < 100 ->
  digtok (fmt0 2 n) = true /\ py_int (fmt0 2 n) = Some n /\ zlen (fmt0 2 n) = 2.
Proof.
  intros H. pose proof (fmt2_facts n H) as F. unfold fmt2_ok in F. cbv zeta in F.
  apply andb_true_iff in F as [F F3]. apply andb_true_iff in F as [F1 F2].
  apply some_eqb_eq in F2. apply Z.eqb_eq in F3. tauto.
Qed.

Lemma fmt4_use n : 0 <= n < 10000 ->
  digtok (fmt0 4 n) = true /\ py_int (fmt0 4 n) = Some n /\ zlen (fmt0 4 n) = 4.
Proof.
  intros H. pose proof (fmt4_facts n H) as F. unfold fmt4_ok in F. cbv zeta in F.
  apply andb_true_iff in F as [F F3]. apply andb_true_iff in F as [F1 F2].
  apply some_eqb_eq in F2. apply Z.eqb_eq in F3. tauto.
Qed.

Lemma dec_use n : 1000 <= n < 10000 ->
  digtok (dec n) = true /\ py_int (dec n) = Some n /\ zlen (dec n) = 4.
Proof.
  intros H. pose proof (dec_facts n H) as F. unfold dec_ok in F. cbv zeta in F.
  apply andb_true_iff in F as [F F3]. apply andb_true_iff in F as [F1 F2].
  apply some_eqb_eq in F2. apply Z.eqb_eq in F3. tauto.
Qed.

Lemma ascday_use d : 1 <= d <= 31 ->
  digtok (dec d) = true /\ digtok (lower (dec d)) = true /\ py_int (lower (dec d)) = Some d /\
  month_index (lower (dec d)) = None /\ zlen (dec d) <= 2.
Proof.
  intros H. pose proof (ascday_facts d ltac:(lia)) as F. unfold ascday_ok in F. cbv zeta in F.
  apply andb_true_iff in F as [F F5]. apply andb_true_iff in F as [F F4]. apply andb_true_iff in F as [F F3].
  apply andb_true_iff in F as [F1 F2].
  apply some_eqb_eq in F3. apply is_none_eq in F4. apply Z.leb_le in F5. tauto.
Qed.

Lemma wd_use i : 0 <= i < 7 ->
  is_nil (nthb WDAY_ABBR i) = false /\ nows (nthb WDAY_ABBR i) = true /\ zlen (nthb WDAY_ABBR i) = 3.
Proof.
  intros H. pose proof (wd_facts i H) as F. unfold wd_ok in F. cbv zeta in F.
  apply andb_true_iff in F as [F F3]. apply andb_true_iff in F as [F1 F2].
  apply nonnil_eq in F1. apply Z.eqb_eq in F3. tauto.
Qed.

Lemma full_use i : 0 <= i < 7 -> is_nil (nthb DAY_FULL i) = false /\ nows (nthb DAY_FULL i) = true.
Proof.
  intros H. pose proof (full_facts i H) as F. unfold full_ok in F. cbv zeta in F.
  apply andb_true_iff in F as [F1 F2]. apply nonnil_eq in F1. tauto.
Qed.

Lemma cwd_use i : 0 <= i < 7 ->
  is_nil (nthb C_DAY_ABBR i) = false /\ nows (nthb C_DAY_ABBR i) = true /\ mem (lower (nthb C_DAY_ABBR i)) PD_DAYNAMES = true.
Proof.
  intros H. pose proof (cwd_facts i H) as F. unfold cwd_ok in F. cbv zeta in F.
  apply andb_true_iff in F as [F F3]. apply andb_true_iff in F as [F1 F2]. apply nonnil_eq in F1. tauto.
Qed.

Lemma mon_use i : 1 <= i <= 12 ->
  is_nil (nthb MONTH_ABBR (i - 1)) = false /\ nows (nthb MONTH_ABBR (i - 1)) = true /\
  month_index (lower (nthb MONTH_ABBR (i - 1))) = Some i /\ zlen (nthb MONTH_ABBR (i - 1)) = 3.
Proof.
  intros H. pose proof (mon_facts i ltac:(lia)) as F. unfold mon_ok in F. cbv zeta in F.
  apply andb_true_iff in F as [F F4]. apply andb_true_iff in F as [F F3]. apply andb_true_iff in F as [F1 F2].
  apply nonnil_eq in F1. apply some_eqb_eq in F3. apply Z.eqb_eq in F4. tauto.
Qed.

Lemma cmon_use i : 1 <= i <= 12 ->
  is_nil (nthb C_MONTH_ABBR (i - 1)) = false /\ nows (nthb C_MONTH_ABBR (i - 1)) = true /\
  nosep MINUS (nthb C_MONTH_ABBR (i - 1)) = true /\ month_index (lower (nthb C_MONTH_ABBR (i - 1))) = Some i.
Proof.
  intros H. pose proof (cmon_facts i ltac:(lia)) as F. unfold cmon_ok in F. cbv zeta in F.
  apply andb_true_iff in F as [F F4]. apply andb_true_iff in F as [F F3]. apply andb_true_iff in F as [F1 F2].
  apply nonnil_eq in F1. apply some_eqb_eq in F4. tauto.
Qed.

(* ------------------------------------------------------------------ parsedate on the three token layouts *)
Lemma notws_COMMA : notws COMMA = true.
Proof. vm_compute. reflexivity. Qed.
Lemma notws_MINUS : notws MINUS = true.
Proof. vm_compute. reflexivity. Qed.

Lemma snoc_comma_tok W : nows W = true -> is_nil (W ++ [COMMA]) = false /\ nows (W ++ [COMMA]) = true.
Proof.
  intros H. split; [destruct W; reflexivity|].
  rewrite nows_app, H. unfold nows. cbn [forallb]. rewrite notws_COMMA. reflexivity.
Qed.

(* "Www, DD Mon YYYY hh:mm:ss ZZZ" *)
Lemma parsedate_imf_shape W D Mo Y C tz :
  nows W = true -> is_nil D = false -> nows D = true -> is_nil Mo = false -> nows Mo = true ->
  is_nil Y = false -> nows Y = true -> is_nil C = false -> nows C = true -> is_nil tz = false -> nows tz = true ->
  parsedate ((W ++ [COMMA]) ++ SP :: D ++ SP :: Mo ++ SP :: Y ++ SP :: C ++ SP :: tz) = pd_fields D Mo Y C tz.
Proof.
  intros HW HD1 HD2 HM1 HM2 HY1 HY2 HC1 HC2 HT1 HT2.
  destruct (snoc_comma_tok W HW) as [HW1 HW2].
  unfold parsedate.
  rewrite (split_ws_tok _ _ HW1 HW2), (split_ws_tok _ _ HD1 HD2), (split_ws_tok _ _ HM1 HM2),
    (split_ws_tok _ _ HY1 HY2), (split_ws_tok _ _ HC1 HC2), (split_ws_last _ HT1 HT2).
  unfold strip_dayname. rewrite last_is_snoc. cbn [orb]. reflexivity.
Qed.

(* "Wwwwww, DD-Mon-YY hh:mm:ss ZZZ" *)
Lemma parsedate_850_shape W D Mo Y C tz :
  nows W = true -> is_nil D = false -> nows D = true -> nosep MINUS D = true ->
  nows Mo = true -> nosep MINUS Mo = true -> nows Y = true -> nosep MINUS Y = true ->
  is_nil C = false -> nows C = true -> is_nil tz = false -> nows tz = true ->
  parsedate ((W ++ [COMMA]) ++ SP :: (D ++ MINUS :: Mo ++ MINUS :: Y) ++ SP :: C ++ SP :: tz) = pd_fields D Mo Y C tz.
Proof.
  intros HW HD1 HD2 HD3 HM2 HM3 HY2 HY3 HC1 HC2 HT1 HT2.
  destruct (snoc_comma_tok W HW) as [HW1 HW2].
  assert (HX1 : is_nil (D ++ MINUS :: Mo ++ MINUS :: Y) = false) by (destruct D; [discriminate|reflexivity]).
  assert (HX2 : nows (D ++ MINUS :: Mo ++ MINUS :: Y) = true).
  { change (D ++ MINUS :: Mo ++ MINUS :: Y) with (D ++ [MINUS] ++ Mo ++ [MINUS] ++ Y).
    rewrite !nows_app, HD2, HM2, HY2. unfold nows. cbn [forallb]. rewrite notws_MINUS. reflexivity. }
  unfold parsedate.
  rewrite (split_ws_tok _ _ HW1 HW2), (split_ws_tok _ _ HX1 HX2), (split_ws_tok _ _ HC1 HC2), (split_ws_last _ HT1 HT2).
  unfold strip_dayname. rewrite last_is_snoc. cbn [orb].
  unfold rfc850_split.
  rewrite (split1_app MINUS D _ HD3), (split1_app MINUS Mo _ HM3), (split1_nosep MINUS Y HY3). reflexivity.
Qed.

(* "Www Mon [D]D hh:mm:ss YYYY": no comma after the day name, no zone; k >= 1 spaces before the day *)
Lemma parsedate_asc_shape W Mo Dd C Y k :
  is_nil W = false -> nows W = true -> mem (lower W) PD_DAYNAMES = true ->
  is_nil Mo = false -> nows Mo = true -> is_nil Dd = false -> nows Dd = true ->
  is_nil C = false -> nows C = true -> digtok Y = true ->
  parsedate (W ++ SP :: Mo ++ (repeat SP (S k) ++ Dd) ++ SP :: C ++ SP :: Y) = pd_fields Mo Dd C Y [].
Proof.
  intros HW1 HW2 HW3 HM1 HM2 HD1 HD2 HC1 HC2 HY.
  unfold parsedate.
  rewrite (split_ws_tok _ _ HW1 HW2).
  replace (Mo ++ (repeat SP (S k) ++ Dd) ++ SP :: C ++ SP :: Y)
    with (Mo ++ SP :: (repeat SP k ++ (Dd ++ SP :: C ++ SP :: Y)))
    by (cbn [repeat app]; rewrite <- !app_assoc; reflexivity).
  rewrite (split_ws_tok _ _ HM1 HM2), split_ws_repeat_sp, (split_ws_tok _ _ HD1 HD2), (split_ws_tok _ _ HC1 HC2),
    (split_ws_last _ (digtok_nonnil _ HY) (digtok_nows _ HY)).
  unfold strip_dayname. rewrite HW3, orb_true_r.
  unfold rfc850_split, tz_split.
  rewrite (find_c_nosep PLUS Y) by (apply digtok_nosep; [tauto | exact HY]).
  rewrite (find_c_nosep MINUS Y) by (apply digtok_nosep; [tauto | exact HY]).
  reflexivity.
Qed.

(* ------------------------------------------------------------------ the composed text *)
Lemma compose_canon t :
  let g := gmtime t in
  compose t =
    (nthb WDAY_ABBR (tm_wday g) ++ [COMMA]) ++ SP :: fmt0 2 (tm_mday g) ++ SP :: nthb MONTH_ABBR (tm_mon g - 1) ++ SP ::
    fmt0 4 (tm_year g) ++ SP :: clock3 (fmt0 2 (tm_hour g)) (fmt0 2 (tm_min g)) (fmt0 2 (tm_sec g)) ++ SP :: GMT.
Proof.
  cbv zeta. unfold compose, compose_tm, imf_sep, imf_width, clock3.
  destruct imf_layout as [-> ->]. cbn [nth].
  rewrite <- !app_assoc. cbn [app]. rewrite <- !app_assoc. cbn [app]. reflexivity.
Qed.

Lemma in_range_iff t : in_range t = true <-> 0 <= t <= MAX_T.
Proof. unfold in_range. rewrite andb_true_iff, Z.leb_le, Z.leb_le. tauto. Qed.

Lemma in_range_850_iff t : in_range_850 t = true <-> 0 <= t <= MAX_T_850.
Proof. unfold in_range_850. rewrite andb_true_iff, Z.leb_le, Z.leb_le. tauto. Qed.

Lemma fix_year_big y : 100 <= y -> fix_year y = y.
Proof. intros H. unfold fix_year. destruct (y <? 100) eqn:E; [apply Z.ltb_lt in E; lia | reflexivity]. Qed.

Lemma fix_year_2digit y : 1970 <= y <= 2068 -> fix_year (y mod 100) = y.
Proof.
  intros H. unfold fix_year.
  assert (0 <= y mod 100 < 100) by (apply Z.mod_pos_bound; lia).
  destruct (y mod 100 <? 100) eqn:E; [|apply Z.ltb_ge in E; lia].
  destruct (68 <? y mod 100) eqn:E2; [apply Z.ltb_lt in E2 | apply Z.ltb_ge in E2]; Z.div_mod_to_equations; lia.
Qed.

(* the fields parsedate extracts from the composed text are the broken-down time *)
Lemma parsedate_compose t : in_range t = true ->
  let g := gmtime t in
  parsedate (compose t) = Some (tm_year g, tm_mon g, tm_mday g, tm_hour g, tm_min g, tm_sec g).
Proof.
  intros R. apply in_range_iff in R. cbv zeta.
  pose proof (compose_canon t) as E. cbv zeta in E. rewrite E. clear E.
  pose proof (gmtime_ranges t) as G. cbv zeta in G. destruct G as (Gm & Gd & Gh & Gi & Gs & Gw).
  pose proof (gmtime_year_range t R) as Gy.
  set (g := gmtime t) in *.
  destruct (wd_use _ Gw) as (_ & W2 & _).
  destruct (fmt2_use (tm_mday g) ltac:(lia)) as (D1 & D2 & _).
  destruct (mon_use _ Gm) as (M1 & M2 & M3 & _).
  destruct (fmt4_use (tm_year g) ltac:(lia)) as (Y1 & Y2 & _).
  destruct (fmt2_use (tm_hour g) ltac:(lia)) as (H1 & H2 & _).
  destruct (fmt2_use (tm_min g) ltac:(lia)) as (I1 & I2 & _).
  destruct (fmt2_use (tm_sec g) ltac:(lia)) as (S1 & S2 & _).
  destruct (clock3_facts _ _ _ H1 I1 S1) as (C1 & C2 & _).
  destruct gmt_tok as [T1 T2].
  rewrite parsedate_imf_shape; try assumption; try (apply digtok_nonnil; assumption); try (apply digtok_nows; assumption).
  rewrite (pd_fields_std _ _ _ _ _ _ _ _ _ _ _ _ _ D1 D2 M1 M3 Y1 Y2 H1 H2 I1 I2 S1 S2).
  rewrite fix_year_big by lia. reflexivity.
Qed.

Lemma fits_int_small z : -2147483648 <= z <= 2147483647 -> fits_int z = true.
Proof. intros H. unfold fits_int, INT_MIN, INT_MAX. apply andb_true_iff. rewrite !Z.leb_le. lia. Qed.

(* conversion of the broken-down time of an instant of the range, both variants *)
Lemma to_timestamp_gmtime v dst t : in_range t = true ->
  let g := gmtime t in
  to_timestamp v dst (tm_year g, tm_mon g, tm_mday g, tm_hour g, tm_min g, tm_sec g) =
  POk (match v with Repaired => t | AsFound => t - dst t end).
Proof.
  intros R. apply in_range_iff in R. cbv zeta.
  pose proof (gmtime_ranges t) as G. cbv zeta in G. destruct G as (Gm & Gd & Gh & Gi & Gs & Gw).
  pose proof (gmtime_year_range t R) as Gy.
  pose proof (timegm_gmtime t) as TG. cbv zeta in TG.
  set (g := gmtime t) in *.
  unfold to_timestamp. destruct v.
  - rewrite !fits_int_small by lia. cbn [andb].
    replace (INT_MIN + 1900 <=? tm_year g) with true by (symmetry; apply Z.leb_le; unfold INT_MIN; lia).
    rewrite TG. reflexivity.
  - rewrite fits_int_small by lia. cbn [negb].
    replace ((1 <=? tm_year g) && (tm_year g <=? 9999)) with true
      by (symmetry; apply andb_true_iff; rewrite !Z.leb_le; lia).
    rewrite TG. reflexivity.
Qed.

(* ---- clause: parsing the composed text gives back the instant *)
Theorem parse_compose t : in_range t = true -> parse (compose t) = POk t.
Proof.
  intros R. unfold parse, parse_v. pose proof (parsedate_compose t R) as P. cbv zeta in P. rewrite P.
  apply (to_timestamp_gmtime Repaired no_dst t R).
Qed.

(* the pinned conversion: exactly off by what the zone's rules subtract at that local time *)
Theorem parse_compose_asfound dst t : in_range t = true -> parse_v AsFound dst (compose t) = POk (t - dst t).
Proof.
  intros R. unfold parse_v. pose proof (parsedate_compose t R) as P. cbv zeta in P. rewrite P.
  apply (to_timestamp_gmtime AsFound dst t R).
Qed.

(* ------------------------------------------------------------------ the obsolete forms *)
Lemma clock_clock3 g : clock g = clock3 (fmt0 2 (tm_hour g)) (fmt0 2 (tm_min g)) (fmt0 2 (tm_sec g)).
Proof. reflexivity. Qed.

Lemma write850_canon t :
  let g := gmtime t in
  write850 t =
    (nthb DAY_FULL (tm_wday g) ++ [COMMA]) ++ SP ::
    (fmt0 2 (tm_mday g) ++ MINUS :: nthb C_MONTH_ABBR (tm_mon g - 1) ++ MINUS :: fmt0 2 (tm_year g mod 100)) ++ SP ::
    clock3 (fmt0 2 (tm_hour g)) (fmt0 2 (tm_min g)) (fmt0 2 (tm_sec g)) ++ SP :: GMT.
Proof.
  cbv zeta. unfold write850, write850_tm. rewrite clock_clock3.
  rewrite <- !app_assoc. cbn [app]. rewrite <- !app_assoc. cbn [app]. reflexivity.
Qed.

Theorem parse_write850 t : in_range_850 t = true -> parse (write850 t) = POk t.
Proof.
  intros R. apply in_range_850_iff in R.
  assert (R' : in_range t = true) by (apply in_range_iff; unfold MAX_T, MAX_T_850 in *; lia).
  unfold parse, parse_v.
  pose proof (write850_canon t) as E. cbv zeta in E. rewrite E. clear E.
  pose proof (gmtime_ranges t) as G. cbv zeta in G. destruct G as (Gm & Gd & Gh & Gi & Gs & Gw).
  pose proof (gmtime_year_range_850 t R) as Gy.
  pose proof (to_timestamp_gmtime Repaired no_dst t R') as TS. cbv zeta in TS.
  set (g := gmtime t) in *.
  assert (Y2r : 0 <= tm_year g mod 100 < 100) by (apply Z.mod_pos_bound; lia).
  destruct (full_use _ Gw) as (_ & W2).
  destruct (fmt2_use (tm_mday g) ltac:(lia)) as (D1 & D2 & _).
  destruct (cmon_use _ Gm) as (M1 & M2 & M3 & M4).
  destruct (fmt2_use (tm_year g mod 100) Y2r) as (Y1 & Y2 & _).
  destruct (fmt2_use (tm_hour g) ltac:(lia)) as (H1 & H2 & _).
  destruct (fmt2_use (tm_min g) ltac:(lia)) as (I1 & I2 & _).
  destruct (fmt2_use (tm_sec g) ltac:(lia)) as (S1 & S2 & _).
  destruct (clock3_facts _ _ _ H1 I1 S1) as (C1 & C2 & _).
  destruct gmt_tok as [T1 T2].
  rewrite parsedate_850_shape; try assumption;
    try (apply digtok_nonnil; assumption); try (apply digtok_nows; assumption);
    try (apply digtok_nosep; [tauto | assumption]).
  rewrite (pd_fields_std _ _ _ _ _ _ _ _ _ _ _ _ _ D1 D2 M1 M4 Y1 Y2 H1 H2 I1 I2 S1 S2).
  rewrite fix_year_2digit by lia. exact TS.
Qed.

Lemma write_asctime_canon t :
  let g := gmtime t in
  write_asctime t =
    nthb C_DAY_ABBR (tm_wday g) ++ SP :: nthb C_MONTH_ABBR (tm_mon g - 1) ++
    (repeat SP (Z.to_nat (3 - zlen (dec (tm_mday g)))) ++ dec (tm_mday g)) ++ SP ::
    clock3 (fmt0 2 (tm_hour g)) (fmt0 2 (tm_min g)) (fmt0 2 (tm_sec g)) ++ SP :: dec (tm_year g).
Proof.
  cbv zeta. unfold write_asctime, write_asctime_tm, fmtsp, lpad. rewrite clock_clock3. reflexivity.
Qed.

Theorem parse_write_asctime t : in_range t = true -> parse (write_asctime t) = POk t.
Proof.
  intros R'. pose proof R' as R. apply in_range_iff in R.
  unfold parse, parse_v.
  pose proof (write_asctime_canon t) as E. cbv zeta in E. rewrite E. clear E.
  pose proof (gmtime_ranges t) as G. cbv zeta in G. destruct G as (Gm & Gd & Gh & Gi & Gs & Gw).
  pose proof (gmtime_year_range t R) as Gy.
  pose proof (to_timestamp_gmtime Repaired no_dst t R') as TS. cbv zeta in TS.
  set (g := gmtime t) in *.
  destruct (cwd_use _ Gw) as (W1 & W2 & W3).
  destruct (cmon_use _ Gm) as (M1 & M2 & _ & M4).
  destruct (ascday_use _ Gd) as (D1 & D2 & D3 & D4 & D5).
  destruct (dec_use (tm_year g) ltac:(lia)) as (Y1 & Y2 & _).
  destruct (fmt2_use (tm_hour g) ltac:(lia)) as (H1 & H2 & _).
  destruct (fmt2_use (tm_min g) ltac:(lia)) as (I1 & I2 & _).
  destruct (fmt2_use (tm_sec g) ltac:(lia)) as (S1 & S2 & _).
  destruct (clock3_facts _ _ _ H1 I1 S1) as (C1 & C2 & _).
  replace (Z.to_nat (3 - zlen (dec (tm_mday g)))) with (S (Z.to_nat (2 - zlen (dec (tm_mday g))))) by lia.
  rewrite parsedate_asc_shape; try assumption;
    try (apply digtok_nonnil; assumption); try (apply digtok_nows; assumption).
  rewrite (pd_fields_asc _ _ _ _ _ _ _ _ _ _ _ _ M1 M4 D1 D2 D4 D3 Y1 Y2 H1 H2 I1 I2 S1 S2).
  rewrite fix_year_big by lia. exact TS.
Qed.

(* the two-digit year cannot do better: two instants of the range, 400 years apart, have the same RFC 850 text,
   and the first instant after 2068 is read back a century early *)
Lemma write850_ambiguous : exists t1 t2, in_range t1 = true /\ in_range t2 = true /\ t1 <> t2 /\ write850 t1 = write850 t2.
Proof. exists 0, (146097 * 86400). repeat split; try (vm_compute; reflexivity). discriminate. Qed.

Lemma parse_write850_beyond : in_range (MAX_T_850 + 1) = true /\ parse (write850 (MAX_T_850 + 1)) <> POk (MAX_T_850 + 1).
Proof. split; [vm_compute; reflexivity|]. vm_compute. discriminate. Qed.

(* ------------------------------------------------------------------ fixed length, weekday *)
Lemma zlen_app a b : zlen (a ++ b) = zlen a + zlen b.
Proof. unfold zlen. rewrite app_length. lia. Qed.

Lemma zlen_cons c l : zlen (c :: l) = 1 + zlen l.
Proof. unfold zlen. cbn [List.length]. lia. Qed.

Theorem compose_length t : in_range t = true -> List.length (compose t) = 29%nat.
Proof.
  intros R. apply in_range_iff in R.
  pose proof (compose_canon t) as E. cbv zeta in E.
  pose proof (gmtime_ranges t) as G. cbv zeta in G. destruct G as (Gm & Gd & Gh & Gi & Gs & Gw).
  pose proof (gmtime_year_range t R) as Gy.
  set (g := gmtime t) in *.
  destruct (wd_use _ Gw) as (_ & _ & W3).
  destruct (fmt2_use (tm_mday g) ltac:(lia)) as (_ & _ & D3).
  destruct (mon_use _ Gm) as (_ & _ & _ & M4).
  destruct (fmt4_use (tm_year g) ltac:(lia)) as (_ & _ & Y3).
  destruct (fmt2_use (tm_hour g) ltac:(lia)) as (_ & _ & H3).
  destruct (fmt2_use (tm_min g) ltac:(lia)) as (_ & _ & I3).
  destruct (fmt2_use (tm_sec g) ltac:(lia)) as (_ & _ & S3).
  assert (L : zlen (compose t) = 29).
  { rewrite E. unfold clock3, GMT. repeat (rewrite ?zlen_app, ?zlen_cons). 
    rewrite W3, D3, M4, Y3, H3, I3, S3. reflexivity. }
  unfold zlen in L. lia.
Qed.

(* the text starts with the abbreviation of the weekday of the instant's day, a comma and a space *)
Theorem compose_weekday t : exists rest,
  compose t = nthb WDAY_ABBR (weekday (t / 86400)) ++ COMMA :: SP :: rest.
Proof.
  pose proof (compose_canon t) as E. cbv zeta in E. rewrite gmtime_wday in E.
  eexists. rewrite E. rewrite <- app_assoc. cbn [app]. reflexivity.
Qed.

(* ------------------------------------------------------------------ comparisons *)
Lemma cmp_ints_spec a b :
  c_lt (cmp_ints a b) = (a <? b) /\ c_gt (cmp_ints a b) = (a >? b) /\ c_eq (cmp_ints a b) = (a =? b) /\
  c_ne (cmp_ints a b) = negb (a =? b) /\ c_le (cmp_ints a b) = (a <=? b) /\ c_ge (cmp_ints a b) = (a >=? b).
Proof.
  unfold cmp_ints. cbn [c_lt c_gt c_eq c_ne c_le c_ge]. repeat split.
  - rewrite Z.gtb_ltb. reflexivity.
  - destruct (a =? b) eqn:E1, (a <? b) eqn:E2, (a <=? b) eqn:E3; try reflexivity;
    rewrite ?Z.eqb_eq, ?Z.eqb_neq, ?Z.ltb_lt, ?Z.ltb_ge, ?Z.leb_le, ?Z.leb_gt in *; lia.
  - rewrite Z.geb_leb. destruct (a =? b) eqn:E1, (b <? a) eqn:E2, (b <=? a) eqn:E3; try reflexivity;
    rewrite ?Z.eqb_eq, ?Z.eqb_neq, ?Z.ltb_lt, ?Z.ltb_ge, ?Z.leb_le, ?Z.leb_gt in *; lia.
Qed.

(* a text of an instant: any of the three forms (RFC 850 only where it is unambiguous) *)
Inductive form := FImf | F850 | FAsc.
Definition write (f : form) (t : Z) : bytes :=
  match f with FImf => compose t | F850 => write850 t | FAsc => write_asctime t end.
Definition form_ok (f : form) (t : Z) : bool :=
  match f with F850 => in_range_850 t | _ => in_range t end.

Theorem parse_write f t : form_ok f t = true -> parse (write f t) = POk t.
Proof.
  destruct f; cbn [form_ok write]; [apply parse_compose | apply parse_write850 | apply parse_write_asctime].
Qed.

(* Date(text of t1) <op> Date(text of t2) / <op> text of t2 : the six operators are those of the instants *)
Theorem date_cmp_texts f1 f2 t1 t2 dst : form_ok f1 t1 = true -> form_ok f2 t2 = true ->
  date_cmp Repaired dst (DText (write f1 t1)) (DText (write f2 t2)) = Some (cmp_ints t1 t2).
Proof.
  intros H1 H2. unfold date_cmp, left_int, other_int.
  change (parse_v Repaired dst (write f1 t1)) with (parse (write f1 t1)).
  change (parse_v Repaired dst (write f2 t2)) with (parse (write f2 t2)).
  rewrite (parse_write _ _ H1), (parse_write _ _ H2). reflexivity.
Qed.

Theorem date_cmp_ints t1 t2 v dst : date_cmp v dst (DInt t1) (DInt t2) = Some (cmp_ints t1 t2).
Proof. reflexivity. Qed.

(* ------------------------------------------------------------------ the zone *)
(* the repaired conversion never consults the zone *)
Theorem parse_repaired_zone_free dst1 dst2 text : parse_v Repaired dst1 text = parse_v Repaired dst2 text.
Proof. unfold parse_v. destruct (parsedate text) as [[[[[[y m] d] hh] mi] ss]|]; reflexivity. Qed.

(* Europe/Berlin in the year 2000: daylight saving from 26 March 01:00 UTC to 29 October 01:00 UTC *)
Definition berlin_2000 (T : Z) : Z := if (954032400 + 3600 <=? T) && (T <? 972781200 + 3600) then 3600 else 0.

Theorem parse_asfound_zone_refuted : exists dst t, in_range t = true /\ parse_v AsFound dst (compose t) <> POk t.
Proof.
  exists berlin_2000, 962409600. split; [reflexivity|].
  rewrite parse_compose_asfound by reflexivity. vm_compute. discriminate.
Qed.

(* the regenerated tables of Date.__compose are RFC 7231's day-name and month lists, in tm_wday / tm_mon order *)
Lemma tables_rfc7231 :
  WDAY_ABBR = [X "4d6f6e"; X "547565"; X "576564"; X "546875"; X "467269"; X "536174"; X "53756e"] /\
  MONTH_ABBR = [X "4a616e"; X "466562"; X "4d6172"; X "417072"; X "4d6179"; X "4a756e";
                X "4a756c"; X "417567"; X "536570"; X "4f6374"; X "4e6f76"; X "446563"] /\
  IMF_SEPS = [[COMMA; SP]; [SP]; [SP]; [SP]; [COLON]; [COLON]; SP :: GMT] /\ IMF_WIDTHS = [2; 4; 2; 2; 2].
Proof. repeat split; vm_compute; reflexivity. Qed.

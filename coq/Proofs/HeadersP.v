(* Lemmas about the header collection of Model/Headers.v *)
From Httoop Require Import Model.Headers Proofs.SplitP.

Lemma bytes_eqb_sym a b : bytes_eqb a b = bytes_eqb b a.
Proof.
  destruct (bytes_eqb a b) eqn:E.
  - apply bytes_eqb_eq in E. subst. symmetry. apply bytes_eqb_refl.
  - destruct (bytes_eqb b a) eqn:E2; [|reflexivity]. apply bytes_eqb_eq in E2. subst. rewrite bytes_eqb_refl in E. discriminate.
Qed.

Lemma bytes_eqb_neq a b : a <> b -> bytes_eqb a b = false.
Proof. intros H. destruct (bytes_eqb a b) eqn:E; [apply bytes_eqb_eq in E; contradiction | reflexivity]. Qed.

Lemma hget_hset_same k v h : hget k (hset k v h) = Some v.
Proof.
  induction h as [|[k' v'] h IH]; cbn [hset hget]; [rewrite bytes_eqb_refl; reflexivity|].
  destruct (bytes_eqb k k') eqn:E; cbn [hget]; [rewrite bytes_eqb_refl; reflexivity | rewrite E; exact IH].
Qed.

Lemma hget_hset_other k k' v h : k' <> k -> hget k' (hset k v h) = hget k' h.
Proof.
  intros Hn. induction h as [|[k2 v2] h IH]; cbn [hset hget].
  - rewrite (bytes_eqb_neq _ _ Hn). reflexivity.
  - destruct (bytes_eqb k k2) eqn:E; cbn [hget].
    + apply bytes_eqb_eq in E. subst k2. rewrite (bytes_eqb_neq _ _ Hn). reflexivity.
    + destruct (bytes_eqb k' k2); [reflexivity | exact IH].
Qed.

Lemma hmem_hset k k' v h : hmem k' h = true -> hmem k' (hset k v h) = true.
Proof.
  unfold hmem. intros H. destruct (bytes_eqb k' k) eqn:E.
  - apply bytes_eqb_eq in E. subst. rewrite hget_hset_same. reflexivity.
  - rewrite hget_hset_other; [exact H|]. intros ->. rewrite bytes_eqb_refl in E. discriminate.
Qed.

Lemma hget_hdel_same k h : hget k (hdel k h) = None.
Proof.
  induction h as [|[k' v'] h IH]; cbn [hdel hget]; [reflexivity|].
  destruct (bytes_eqb k k') eqn:E; [exact IH | cbn [hget]; rewrite E; exact IH].
Qed.

Lemma hget_hdel_other k k' h : k' <> k -> hget k' (hdel k h) = hget k' h.
Proof.
  intros Hn. induction h as [|[k2 v2] h IH]; cbn [hdel hget]; [reflexivity|].
  destruct (bytes_eqb k k2) eqn:E.
  - apply bytes_eqb_eq in E. subst k2. rewrite (bytes_eqb_neq _ _ Hn). exact IH.
  - cbn [hget]. destruct (bytes_eqb k' k2); [reflexivity | exact IH].
Qed.

Lemma hmem_hdel_same k h : hmem k (hdel k h) = false.
Proof. unfold hmem. rewrite hget_hdel_same. reflexivity. Qed.

(* ---- incremental header parsing: a block may be parsed in two pieces cut at a line boundary,
        provided the second piece does not begin with a continuation line ---- *)
Lemma hparse_lines_app A : forall B h cur,
  (match B with l :: _ => starts_ws l = false | [] => False end) ->
  hparse_lines h cur (A ++ B) =
  match hparse_lines h cur A with Some h' => hparse_lines h' None B | None => None end.
Proof.
  induction A as [|l A IH]; intros B h cur HB.
  - cbn [app hparse_lines]. destruct B as [|b B]; [contradiction|]. cbn [hparse_lines].
    destruct cur as [[name raw]|]; [rewrite HB|]; reflexivity.
  - cbn [app hparse_lines]. destruct cur as [[name raw]|].
    + destruct (starts_ws l); [apply IH, HB|]. destruct (parse_line l); [apply IH, HB | reflexivity].
    + destruct (parse_line l); [apply IH, HB | reflexivity].
Qed.

(* Headers.parse of a block cut at a CRLF into two blocks: the fact incremental header parsing rests on *)
Lemma starts_ws_app a b : a <> [] -> starts_ws (a ++ b) = starts_ws a.
Proof. destruct a; [congruence | reflexivity]. Qed.

Lemma hparse_app h A B : starts_ws B = false ->
  hparse h (A ++ CRLF ++ B) = match hparse h A with Some h' => hparse h' B | None => None end.
Proof.
  intros HB. unfold hparse. rewrite Proofs.SplitP.split_all_app_CRLF. apply hparse_lines_app.
  rewrite (Proofs.SplitP.split_all_eq CRLF B Proofs.SplitP.CRLF_ne).
  destruct (cut CRLF B) as [[a b]|] eqn:Cu; [|exact HB].
  apply Proofs.SplitP.cut_some in Cu; [|exact Proofs.SplitP.CRLF_ne]. subst B.
  destruct a as [|c a]; [reflexivity|]. rewrite starts_ws_app in HB by discriminate. exact HB.
Qed.

Lemma hparse_lines_fail_app A : forall B h cur, hparse_lines h cur A = None -> hparse_lines h cur (A ++ B) = None.
Proof.
  induction A as [|l A IH]; intros B h cur; cbn [app hparse_lines]; [discriminate|].
  destruct cur as [[name raw]|].
  - destruct (starts_ws l); [apply IH|]. destruct (parse_line l); [apply IH | reflexivity].
  - destruct (parse_line l); [apply IH | reflexivity].
Qed.

Lemma hparse_fail_app h A B : hparse h A = None -> hparse h (A ++ CRLF ++ B) = None.
Proof. unfold hparse. rewrite split_all_app_CRLF. apply hparse_lines_fail_app. Qed.

From Httoop Require Import Lib.Bytes Gen.PercentT Model.Percent Proofs.Percent.
Local Open Scope N_scope.

(* the safe sets the form codecs use keep '&', '=', '+' and ' ' out (table lemmas below) *)
Definition form_safe_ok (safe : N) : bool :=
  negb (inmask safe AMP) && negb (inmask safe EQS) && negb (inmask safe PLUS) && negb (inmask safe SPC).

Lemma form_unquoted_ok : form_safe_ok FORM_UNQUOTED = true.
Proof. vm_compute. reflexivity. Qed.
Lemma qs_unquoted_ok : form_safe_ok QS_UNQUOTED = true.
Proof. vm_compute. reflexivity. Qed.

Section Form.
Variable safe : N.
Hypothesis Hok : form_safe_ok safe = true.

Lemma safe_not c : eff_safe safe c = true ->
  beq c AMP = false /\ beq c EQS = false /\ beq c PLUS = false /\ beq c SPC = false /\ beq c PCT = false.
Proof.
  intros Hs. pose proof (eff_safe_not_pct _ _ Hs) as Hp. pose proof Hok as H0.
  unfold form_safe_ok in H0.
  apply andb_true_iff in H0 as [H0 H4]. apply andb_true_iff in H0 as [H0 H3]. apply andb_true_iff in H0 as [H1 H2].
  apply negb_true_iff in H1, H2, H3, H4.
  unfold eff_safe in Hs. apply andb_true_iff in Hs as [Hm _].
  assert (G : forall k, inmask safe k = false -> beq c k = false).
  { intros k Hk. destruct (beq_spec c k) as [->|]; [congruence|reflexivity]. }
  repeat split; auto.
Qed.

(* after replace('%20', '+') *)
Definition r1 (c : byte) : bytes :=
  if eff_safe safe c then [c] else if beq c SPC then [PLUS] else esc Repaired c.
Definition R (d : bytes) : bytes := flat_map r1 d.
(* ... and after the decoder's replace('+', ' ') *)
Definition q2 (c : byte) : bytes :=
  if eff_safe safe c then [c] else if beq c SPC then [SPC] else esc Repaired c.
Definition Q2 (d : bytes) : bytes := flat_map q2 d.

Lemma repl20_cons_other c rest : beq c PCT = false -> repl20 (c :: rest) = c :: repl20 rest.
Proof. intros Hc. cbn [repl20]. destruct rest as [|a [|b r']]; rewrite ?Hc; reflexivity. Qed.

Lemma repl20_3 c a b r' :
  repl20 (c :: a :: b :: r') =
  if beq c PCT && beq a x32 && beq b x30 then PLUS :: repl20 r' else c :: repl20 (a :: b :: r').
Proof. reflexivity. Qed.

Lemma esc_is_pct20 c : beq (hexU (bN c / 16)) x32 && beq (hexU (bN c mod 16)) x30 = beq c SPC.
Proof.
  apply eqb_true_iff. 
  revert c. apply (forall_byte (fun c => Bool.eqb (beq (hexU (bN c / 16)) x32 && beq (hexU (bN c mod 16)) x30) (beq c SPC))).
  vm_compute. reflexivity.
Qed.

Lemma repl20_quote1 c rest : repl20 (quote1 Repaired safe c ++ rest) = r1 c ++ repl20 rest.
Proof.
  unfold quote1, r1. destruct (eff_safe safe c) eqn:Hs.
  - cbn [app]. apply repl20_cons_other. apply (safe_not c Hs).
  - cbn [esc app]. rewrite repl20_3. rewrite beq_refl. cbn [andb]. rewrite esc_is_pct20.
    destruct (beq c SPC); [reflexivity|].
    f_equal. rewrite repl20_cons_other by (apply upper_hex_not_pct, hexU_hi).
    rewrite repl20_cons_other by (apply upper_hex_not_pct, hexU_lo). reflexivity.
Qed.

Lemma repl20_quote d rest : repl20 (quote Repaired safe d ++ rest) = R d ++ repl20 rest.
Proof.
  induction d as [|c d IH]; [reflexivity|].
  rewrite quote_cons, <- app_assoc, repl20_quote1, IH. unfold R. cbn [flat_map]. rewrite app_assoc. reflexivity.
Qed.

Lemma nonempty_flat_map (f : byte -> bytes) d : (forall c, f c <> []) -> nonempty (flat_map f d) = nonempty d.
Proof. intros Hf. destruct d as [|c d]; [reflexivity|]. cbn [flat_map nonempty]. specialize (Hf c). destruct (f c); [congruence|reflexivity]. Qed.

Lemma quote1_nonnil v c : quote1 v safe c <> [].
Proof. unfold quote1, esc. destruct (eff_safe safe c); [congruence|]. destruct v; [destruct (_ <? _)|]; congruence. Qed.
Lemma r1_nonnil c : r1 c <> [].
Proof. unfold r1. destruct (eff_safe safe c); [congruence|]. destruct (beq c SPC); cbn; congruence. Qed.
Lemma q2_nonnil c : q2 c <> [].
Proof. unfold q2. destruct (eff_safe safe c); [congruence|]. destruct (beq c SPC); cbn; congruence. Qed.

Definition mk_pair (n w : bytes) : bytes := if nonempty n && nonempty w then n ++ [EQS] ++ w else n ++ w.

Lemma repl20_pair p rest :
  repl20 (encode_pair Repaired safe p ++ rest) = mk_pair (R (fst p)) (R (snd p)) ++ repl20 rest.
Proof.
  unfold encode_pair, mk_pair. unfold quote at 1 2. unfold R at 1 2.
  rewrite !nonempty_flat_map by (first [apply quote1_nonnil | apply r1_nonnil]).
  fold (quote Repaired safe (fst p)). fold (quote Repaired safe (snd p)). fold (R (fst p)). fold (R (snd p)).
  destruct (nonempty (fst p) && nonempty (snd p)).
  - rewrite <- !app_assoc, repl20_quote. cbn [app]. rewrite repl20_cons_other by reflexivity.
    rewrite repl20_quote. reflexivity.
  - rewrite <- !app_assoc, !repl20_quote. rewrite <- ?app_assoc. reflexivity.
Qed.

Lemma join_cons sep x (r : list bytes) : r <> [] -> join sep (x :: r) = x ++ sep ++ join sep r.
Proof. destruct r; [congruence | reflexivity]. Qed.

Lemma repl20_join ps :
  repl20 (join [AMP] (map (encode_pair Repaired safe) ps)) =
  join [AMP] (map (fun p => mk_pair (R (fst p)) (R (snd p))) ps).
Proof.
  induction ps as [|p ps IH]; [reflexivity|].
  destruct ps as [|p2 ps].
  - cbn [map join]. rewrite <- (app_nil_r (encode_pair _ _ _)), repl20_pair. cbn. apply app_nil_r.
  - rewrite 2!(map_cons _ p). rewrite !join_cons by (cbn; congruence).
    rewrite repl20_pair. cbn [app]. rewrite repl20_cons_other by reflexivity.
    rewrite IH. reflexivity.
Qed.

(* '+' -> ' ' *)
Lemma p2s_app a b : plus_to_space (a ++ b) = plus_to_space a ++ plus_to_space b.
Proof. apply map_app. Qed.

Lemma upper_hex_not c k : is_upper_hex k = false -> is_upper_hex c = true -> beq c k = false.
Proof. intros Hk Hc. destruct (beq_spec c k) as [->|]; [congruence|reflexivity]. Qed.

Lemma p2s_r1 c : plus_to_space (r1 c) = q2 c.
Proof.
  unfold r1, q2. destruct (eff_safe safe c) eqn:Hs.
  - cbn. destruct (safe_not c Hs) as (_ & _ & Hp & _). rewrite Hp. reflexivity.
  - destruct (beq c SPC); [reflexivity|]. cbn [esc plus_to_space map].
    rewrite (upper_hex_not _ PLUS eq_refl (hexU_hi c)), (upper_hex_not _ PLUS eq_refl (hexU_lo c)). reflexivity.
Qed.

Lemma p2s_R d : plus_to_space (R d) = Q2 d.
Proof.
  induction d as [|c d IH]; [reflexivity|]. unfold R, Q2 in *. cbn [flat_map]. rewrite p2s_app, p2s_r1, IH. reflexivity.
Qed.

Lemma nonempty_R d : nonempty (R d) = nonempty d.
Proof. apply nonempty_flat_map, r1_nonnil. Qed.
Lemma nonempty_Q2 d : nonempty (Q2 d) = nonempty d.
Proof. apply nonempty_flat_map, q2_nonnil. Qed.

Lemma p2s_pair n w : plus_to_space (mk_pair (R n) (R w)) = mk_pair (Q2 n) (Q2 w).
Proof.
  unfold mk_pair. rewrite !nonempty_R, !nonempty_Q2. destruct (nonempty n && nonempty w);
  rewrite ?p2s_app, !p2s_R; reflexivity.
Qed.

Lemma p2s_join xs : plus_to_space (join [AMP] xs) = join [AMP] (map plus_to_space xs).
Proof.
  induction xs as [|x xs IH]; [reflexivity|]. destruct xs as [|y xs]; [reflexivity|].
  cbn [join map] in *. rewrite !p2s_app, IH. reflexivity.
Qed.

(* octets of Q2: never '&' or '=' *)
Definition none (k : byte) (l : bytes) : bool := forallb (fun c => negb (beq c k)) l.

Lemma none_app k a b : none k (a ++ b) = none k a && none k b.
Proof. apply forallb_app. Qed.

Lemma none_q2 k c : (k = AMP \/ k = EQS) -> none k (q2 c) = true.
Proof.
  intros Hk. unfold q2. destruct (eff_safe safe c) eqn:Hs.
  - destruct (safe_not c Hs) as (Ha & He & _). cbn. destruct Hk as [-> | ->]; rewrite ?Ha, ?He; reflexivity.
  - destruct (beq c SPC). { destruct Hk as [-> | ->]; reflexivity. }
    cbn [esc none forallb].
    assert (Hk' : is_upper_hex k = false) by (destruct Hk as [-> | ->]; reflexivity).
    rewrite (upper_hex_not _ k Hk' (hexU_hi c)), (upper_hex_not _ k Hk' (hexU_lo c)).
    destruct Hk as [-> | ->]; reflexivity.
Qed.

Lemma none_Q2 k d : (k = AMP \/ k = EQS) -> none k (Q2 d) = true.
Proof.
  intros Hk. induction d as [|c d IH]; [reflexivity|]. unfold Q2 in *. cbn [flat_map]. rewrite none_app, none_q2, IH; auto.
Qed.

(* unquote of Q2 *)
Lemma unq_q2 c rest : unq (q2 c ++ rest) = c :: unq rest.
Proof.
  unfold q2. destruct (eff_safe safe c) eqn:Hs.
  - cbn [app unq]. rewrite (eff_safe_not_pct _ _ Hs). reflexivity.
  - destruct (beq_spec c SPC) as [->|]; [reflexivity|].
    cbn [esc app unq]. rewrite beq_refl, hex_lookup_esc. reflexivity.
Qed.

Lemma unquote_Q2 d : unquote (Q2 d) = d.
Proof.
  rewrite unquote_unq. induction d as [|c d IH]; [reflexivity|].
  unfold Q2 in *. cbn [flat_map]. rewrite unq_q2, IH. reflexivity.
Qed.

(* split / strip / partition on data free of the separator *)
Lemma split1_none sep x : none sep x = true -> split1 sep x = [x].
Proof.
  induction x as [|c x IH]; [reflexivity|]. cbn [none forallb]. intros H. apply andb_true_iff in H as [Hc Hx].
  apply negb_true_iff in Hc. cbn [split1]. rewrite Hc, (IH Hx). reflexivity.
Qed.

Lemma split1_app_sep sep x rest : none sep x = true -> split1 sep (x ++ sep :: rest) = x :: split1 sep rest.
Proof.
  induction x as [|c x IH]; cbn [app none forallb]; intros H.
  - cbn [split1]. rewrite beq_refl. reflexivity.
  - apply andb_true_iff in H as [Hc Hx]. apply negb_true_iff in Hc. cbn [split1]. rewrite Hc, (IH Hx). reflexivity.
Qed.

Lemma split1_join sep xs : xs <> [] -> Forall (fun x => none sep x = true) xs -> split1 sep (join [sep] xs) = xs.
Proof.
  induction xs as [|x xs IH]; [congruence|]. intros _ HF. inversion HF as [|? ? Hx Hxs]; subst.
  destruct xs as [|y xs].
  - cbn [join]. apply split1_none, Hx.
  - cbn [join]. cbn [app]. rewrite split1_app_sep by exact Hx. f_equal. apply IH; [congruence | exact Hxs].
Qed.

Lemma partition1_none sep x : none sep x = true -> partition1 sep x = (x, []).
Proof.
  induction x as [|c x IH]; [reflexivity|]. cbn [none forallb]. intros H. apply andb_true_iff in H as [Hc Hx].
  apply negb_true_iff in Hc. cbn [partition1]. rewrite Hc, (IH Hx). reflexivity.
Qed.

Lemma partition1_app_sep sep x rest : none sep x = true -> partition1 sep (x ++ sep :: rest) = (x, rest).
Proof.
  induction x as [|c x IH]; cbn [app none forallb]; intros H.
  - cbn [partition1]. rewrite beq_refl. reflexivity.
  - apply andb_true_iff in H as [Hc Hx]. apply negb_true_iff in Hc. cbn [partition1]. rewrite Hc, (IH Hx). reflexivity.
Qed.

Lemma lstrip1_id c l : match l with x :: _ => beq x c = false | [] => True end -> lstrip1 c l = l.
Proof. destruct l as [|x l]; [reflexivity|]. cbn. intros ->. reflexivity. Qed.

Lemma strip1_id c l :
  match l with x :: _ => beq x c = false | [] => True end ->
  match rev l with x :: _ => beq x c = false | [] => True end ->
  strip1 c l = l.
Proof.
  intros H1 H2. unfold strip1, rstrip1. rewrite (lstrip1_id c l H1), (lstrip1_id c (rev l) H2). apply rev_involutive.
Qed.

Lemma none_hd k l : none k l = true -> match l with x :: _ => beq x k = false | [] => True end.
Proof. destruct l; [trivial|]. cbn. intros H. apply andb_true_iff in H as [H _]. apply negb_true_iff in H. exact H. Qed.

Lemma none_rev k l : none k (rev l) = none k l.
Proof.
  induction l as [|c l IH]; [reflexivity|]. cbn [rev]. rewrite none_app, IH. cbn. rewrite andb_true_r. apply andb_comm.
Qed.

Lemma join_ends k xs :
  xs <> [] -> Forall (fun x => x <> [] /\ none k x = true) xs ->
  match join [k] xs with x :: _ => beq x k = false | [] => True end /\
  match rev (join [k] xs) with x :: _ => beq x k = false | [] => True end.
Proof.
  induction xs as [|x xs IH]; [congruence|]. intros _ HF. inversion HF as [|? ? [Hne Hx] Hxs]; subst.
  destruct xs as [|y xs].
  - cbn [join]. split; [apply none_hd, Hx|]. apply none_hd. rewrite none_rev. exact Hx.
  - assert (Hy : y :: xs <> []) by congruence. destruct (IH Hy Hxs) as [_ IH2].
    rewrite join_cons by exact Hy.
    assert (Hj : join [k] (y :: xs) <> []).
    { inversion Hxs as [|? ? [Hyne _] _]; subst. destruct y; [congruence|]. destruct xs; cbn; congruence. }
    remember (join [k] (y :: xs)) as J eqn:EJ. clear EJ. split.
    + destruct x as [|c x]; [congruence|]. cbn. cbn in Hx. apply andb_true_iff in Hx as [Hc _]. apply negb_true_iff in Hc. exact Hc.
    + rewrite !rev_app_distr.
      destruct (rev J) as [|z zs] eqn:E.
      * exfalso. apply Hj. rewrite <- (rev_involutive J), E. reflexivity.
      * cbn. exact IH2.
Qed.

Lemma join_nonnil k xs : xs <> [] -> Forall (fun x : bytes => x <> [] /\ none k x = true) xs -> join [k] xs <> [].
Proof.
  destruct xs as [|x xs]; [congruence|]. intros _ HF. inversion HF as [|? ? [Hx _] _]; subst.
  destruct x; [congruence|]. destruct xs; cbn; congruence.
Qed.

Lemma mk_pair_props n w :
  n <> [] ->
  let x := mk_pair (Q2 n) (Q2 w) in
  x <> [] /\ none AMP x = true /\ partition1 EQS x = (Q2 n, Q2 w).
Proof.
  intros Hn x. subst x. unfold mk_pair. rewrite !nonempty_Q2.
  assert (Hn' : nonempty n = true) by (destruct n; [congruence|reflexivity]). rewrite Hn'. cbn [andb].
  assert (HQ : Q2 n <> []). { intros E. pose proof (nonempty_Q2 n) as H. rewrite E, Hn' in H. discriminate. }
  destruct (nonempty w) eqn:Hw.
  - repeat split.
    + destruct (Q2 n); [congruence|]. cbn. congruence.
    + rewrite !none_app, !none_Q2 by auto. reflexivity.
    + cbn [app]. apply partition1_app_sep, none_Q2. auto.
  - assert (w = []) by (destruct w; [reflexivity|discriminate]). subst w. cbn [Q2 flat_map]. rewrite app_nil_r.
    repeat split; [exact HQ | apply none_Q2; auto | apply partition1_none, none_Q2; auto].
Qed.

Theorem form_roundtrip ps :
  Forall (fun p => fst p <> []) ps -> form_decode (form_encode Repaired safe ps) = ps.
Proof.
  intros Hps. unfold form_encode. rewrite repl20_join.
  destruct ps as [|p0 ps0]; [reflexivity|]. set (ps := p0 :: ps0) in *.
  unfold form_decode.
  set (E := join [AMP] (map (fun p => mk_pair (R (fst p)) (R (snd p))) ps)).
  assert (HE : plus_to_space E = join [AMP] (map (fun p => mk_pair (Q2 (fst p)) (Q2 (snd p))) ps)).
  { unfold E. rewrite p2s_join, map_map. f_equal. apply map_ext. intros p. apply p2s_pair. }
  assert (HF : Forall (fun x => x <> [] /\ none AMP x = true) (map (fun p => mk_pair (Q2 (fst p)) (Q2 (snd p))) ps)).
  { apply Forall_map. eapply Forall_impl; [|exact Hps]. intros p Hp. cbn beta.
    destruct (mk_pair_props (fst p) (snd p) Hp) as (A & B & _). split; assumption. }
  assert (Hne : map (fun p => mk_pair (Q2 (fst p)) (Q2 (snd p))) ps <> []) by (unfold ps; cbn; congruence).
  assert (HEne : nonempty E = true).
  { pose proof (join_nonnil AMP _ Hne HF) as Hj. rewrite <- HE in Hj.
    destruct E; [exfalso; apply Hj; reflexivity | reflexivity]. }
  rewrite HEne, HE.
  destruct (join_ends AMP _ Hne HF) as [J1 J2]. rewrite (strip1_id _ _ J1 J2).
  rewrite split1_join; [|exact Hne| eapply Forall_impl; [|exact HF]; intros x [_ Hx]; exact Hx].
  assert (Hfil : forall xs, Forall (fun x : bytes => x <> [] /\ none AMP x = true) xs -> filter nonempty xs = xs).
  { induction xs as [|x xs IH]; [reflexivity|]. intros HH. inversion HH as [|? ? [Hx _] Hxs]; subst.
    cbn. destruct x; [congruence|]. cbn. f_equal. apply IH, Hxs. }
  rewrite (Hfil _ HF), map_map.
  rewrite <- (map_id ps) at 2. apply map_ext_Forall.
  eapply Forall_impl; [|exact Hps]. intros p Hp. cbn beta.
  destruct (mk_pair_props (fst p) (snd p) Hp) as (_ & _ & C). rewrite C, !unquote_Q2. destruct p; reflexivity.
Qed.

(* QueryString.decode only adds the stringprep C.2.1 rejection *)
Theorem qs_roundtrip c21 ps :
  Forall (fun p => fst p <> []) ps ->
  existsb (inmask c21) (unquote (form_encode Repaired safe ps)) = false ->
  qs_decode c21 (form_encode Repaired safe ps) = Some ps.
Proof. intros H1 H2. unfold qs_decode. rewrite H2, form_roundtrip by exact H1. reflexivity. Qed.

End Form.

Theorem form_roundtrip_asfound_refuted :
  exists ps, Forall (fun p => fst p <> []) ps /\ form_decode (form_encode AsFound FORM_UNQUOTED ps) <> ps.
Proof.
  exists [([x61], [x02; x30])]. split; [repeat constructor; cbn; congruence|]. vm_compute. discriminate.
Qed.

Section TextLevel.
Context {text : Type}.
Variable enc : text -> bytes.
Variable dec : bytes -> option text.
Hypothesis dec_enc : forall t, dec (enc t) = Some t.

Lemma all_some_dec_enc ps : all_some (map (dec_pair dec) (map (enc_pair enc) ps)) = Some ps.
Proof.
  induction ps as [|[a b] ps IH]; [reflexivity|]. cbn [map]. unfold dec_pair at 1, enc_pair at 1 2. cbn [fst snd].
  rewrite !dec_enc. cbn [all_some]. rewrite IH. reflexivity.
Qed.

Theorem form_roundtrip_text safe ps :
  form_safe_ok safe = true -> Forall (fun p => enc (fst p) <> []) ps ->
  form_decode_text dec (form_encode_text enc Repaired safe ps) = Some ps.
Proof.
  intros Hs Hn. unfold form_decode_text, form_encode_text. rewrite form_roundtrip; [apply all_some_dec_enc | exact Hs |].
  apply Forall_map. eapply Forall_impl; [|exact Hn]. intros p Hp. exact Hp.
Qed.

Theorem query_roundtrip_text c21 ps :
  Forall (fun p => enc (fst p) <> []) ps ->
  existsb (inmask c21) (unquote (form_encode_text enc Repaired QS_UNQUOTED ps)) = false ->
  query_get_set enc dec c21 Repaired ps = Some ps.
Proof.
  intros Hn Hc. unfold query_get_set, form_encode_text in *. rewrite qs_roundtrip; [apply all_some_dec_enc | apply qs_unquoted_ok | | exact Hc].
  apply Forall_map. eapply Forall_impl; [|exact Hn]. intros p Hp. exact Hp.
Qed.
End TextLevel.

(* C04: what the parser model (Model/Parser.v) makes of the octets of the composer model (Model/Composer.v).
   Part 1: the header section written by Headers.compose is read back by Headers.parse (hparse) as the collection of
   the same fields with stripped values, in the order of the lines. *)
From Coq Require Import Lia Permutation ZArith.
From Httoop Require Import Model.Composer Model.Http1Reader Proofs.HeadersP Proofs.SplitP Proofs.Http1ReaderP
  Proofs.ComposerNum Proofs.ComposerHdrs Proofs.ComposerBody Proofs.ComposerFraming.
Local Open Scope N_scope.

(* ---------------------------------------------------------------- lines *)
Definition line_of (kv : bytes * bytes) : bytes := fst kv ++ COLON_SP ++ snd kv.
Definition clean (l : bytes) : bool := rd_no_crlf l.

Lemma field_line_line kv : field_line kv = line_of kv ++ CRLF.
Proof. unfold field_line, line_of. rewrite <- !app_assoc. reflexivity. Qed.

Lemma line_clean kv : field_ok kv = true -> clean (line_of kv) = true /\ line_of kv <> [] /\ starts_ws (line_of kv) = false.
Proof.
  unfold field_ok. intros H. apply andb_true_iff in H as [Hk Hv]. unfold rd_token in Hk. apply andb_true_iff in Hk as [Hne Hk].
  destruct (token_class _ Hk) as [K1 _]. unfold clean, line_of, rd_no_crlf in *. split; [|split].
  - rewrite forallb_app. cbn [COLON_SP app forallb]. rewrite K1, Hv. reflexivity.
  - destruct (fst kv); [discriminate | discriminate].
  - destruct (fst kv) as [|c k]; [discriminate|]. cbn [app starts_ws]. cbn [forallb] in Hk. apply andb_true_iff in Hk as [Hc _].
    destruct (tchar_class c Hc) as [_ [_ [_ Hsp]]].
    assert (Hht : beq c HT = false).
    { assert (A : forall c, implb (rd_tchar c) (negb (beq c HT)) = true) by (apply forall_byte; vm_compute; reflexivity).
      specialize (A c). rewrite Hc in A. apply negb_true_iff in A. exact A. }
    rewrite Hsp, Hht. reflexivity.
Qed.

(* the header block: lines joined by CRLF *)
Lemma concat_lines_join (ls : list bytes) : ls <> [] -> concat_bytes (map (fun l => l ++ CRLF) ls) = join_with CRLF ls ++ CRLF.
Proof.
  induction ls as [|l ls IH]; [congruence|]. intros _. destruct ls as [|l2 ls].
  - cbn. rewrite app_nil_r. reflexivity.
  - cbn [map concat_bytes join_with]. change (concat_bytes (map (fun l => l ++ CRLF) (l2 :: ls))) with (concat_bytes ((l2 ++ CRLF) :: map (fun l => l ++ CRLF) ls)) in IH.
    cbn [concat_bytes] in IH |- *. rewrite IH by discriminate. rewrite <- !app_assoc. reflexivity.
Qed.

(* no LF is followed by CR: then CRLF CRLF cannot occur *)
Fixpoint lfcr_free (l : bytes) : bool :=
  match l with
  | a :: r => match r with b :: _ => negb (beq a LF && beq b CR) | [] => true end && lfcr_free r
  | [] => true
  end.

Lemma cut_CRLF2_none l : lfcr_free l = true -> cut (CRLF ++ CRLF) l = None.
Proof.
  induction l as [|c l IH]; intros H; [reflexivity|]. cbn [lfcr_free] in H. apply andb_true_iff in H as [Hc Hl].
  cbn [cut]. rewrite (IH Hl).
  assert (P : prefixb (CRLF ++ CRLF) (c :: l) = false).
  { unfold CRLF. cbn [app prefixb]. destruct l as [|d [|e l]]; [rewrite andb_false_r; reflexivity | cbn [prefixb]; rewrite !andb_false_r; reflexivity|].
    cbn [prefixb]. cbn [lfcr_free] in Hl. apply andb_true_iff in Hl as [Hd _]. apply negb_true_iff, andb_false_iff in Hd.
    destruct Hd as [Hd|Hd]; [rewrite (beq_sym LF d), Hd | rewrite (beq_sym CR e), Hd]; rewrite ?andb_false_r; reflexivity. }
  rewrite P. reflexivity.
Qed.

Lemma lfcr_clean_app l r : clean l = true -> lfcr_free r = true -> lfcr_free (l ++ r) = true.
Proof.
  induction l as [|c l IH]; intros Hl Hr; [exact Hr|]. unfold clean, rd_no_crlf in Hl. cbn [forallb] in Hl. apply andb_true_iff in Hl as [Hc Hl].
  cbn [app lfcr_free]. rewrite (IH Hl Hr), andb_true_r. apply negb_true_iff, orb_false_iff in Hc. destruct Hc as [_ Hc].
  destruct (l ++ r); [reflexivity|]. rewrite Hc. reflexivity.
Qed.

Lemma lfcr_lines ls : forallb clean ls = true -> forallb nonempty_b ls = true -> lfcr_free (concat_bytes (map (fun l => l ++ CRLF) ls)) = true.
Proof.
  induction ls as [|l ls IH]; intros Hc Hn; [reflexivity|]. cbn [forallb] in Hc, Hn. apply andb_true_iff in Hc as [Hl Hc]. apply andb_true_iff in Hn as [Hln Hn].
  cbn [map concat_bytes]. rewrite <- app_assoc. apply lfcr_clean_app; [exact Hl|].
  unfold CRLF at 1. cbn [app lfcr_free]. rewrite (IH Hc Hn).
  change (beq CR LF) with false. cbn [andb negb].
  destruct ls as [|l2 ls]; [reflexivity|]. cbn [map concat_bytes]. cbn [forallb] in Hc, Hn. apply andb_true_iff in Hc as [Hl2 _]. apply andb_true_iff in Hn as [Hl2n _].
  destruct l2 as [|c l2]; [discriminate|]. cbn [app]. unfold clean, rd_no_crlf in Hl2. cbn [forallb] in Hl2. apply andb_true_iff in Hl2 as [Hc2 _].
  apply negb_true_iff, orb_false_iff in Hc2. destruct Hc2 as [Hcr _]. rewrite Hcr, andb_false_r. reflexivity.
Qed.

Lemma split_all_clean l : clean l = true -> split_all CRLF l = [l].
Proof.
  intros H. unfold split_all. cbn [split_all_f]. rewrite (cut_CRLF_none l (no_crlf_no_lf l H)). reflexivity.
Qed.

Lemma split_all_join ls : ls <> [] -> forallb clean ls = true -> split_all CRLF (join_with CRLF ls) = ls.
Proof.
  induction ls as [|l ls IH]; [congruence|]. intros _ Hc. cbn [forallb] in Hc. apply andb_true_iff in Hc as [Hl Hc].
  destruct ls as [|l2 ls]; [cbn [join_with]; apply split_all_clean, Hl|].
  cbn [join_with]. rewrite split_all_app_CRLF, (split_all_clean l Hl). cbn [app]. f_equal. apply IH; [discriminate | exact Hc].
Qed.

(* ---------------------------------------------------------------- Headers.parse of composed lines *)
Definition stripv (v : bytes) : bytes := Split.rstrip (Split.lstrip v).
Definition parsed_kv (kv : bytes * bytes) : bytes * bytes := (fst kv, stripv (snd kv)).

Lemma tchar_not_bad c : rd_tchar c = true -> inmask HEADER_RE_BAD c = false /\ is_bws c = false.
Proof.
  assert (A : forall c, implb (rd_tchar c) (negb (inmask HEADER_RE_BAD c) && negb (is_bws c)) = true) by (apply forall_byte; vm_compute; reflexivity).
  intros H. specialize (A c). rewrite H in A. cbn [implb] in A. apply andb_true_iff in A as [A B]. split; apply negb_true_iff; assumption.
Qed.

Lemma token_name k : rd_token k = true -> name_ok k = true /\ Split.strip k = k.
Proof.
  unfold rd_token. intros H. apply andb_true_iff in H as [Hne Hk].
  assert (P : existsb (inmask HEADER_RE_BAD) k = false /\ forallb (fun c => negb (is_bws c)) k = true).
  { induction k as [|c k IH]; [split; reflexivity|]. cbn [forallb] in Hk. apply andb_true_iff in Hk as [Hc Hk].
    destruct (tchar_not_bad c Hc) as [A B]. cbn [existsb forallb]. rewrite A, B. destruct k; [split; reflexivity|]. apply IH; [reflexivity | exact Hk]. }
  destruct P as [P1 P2]. split; [unfold name_ok; rewrite P1; reflexivity|].
  unfold Split.strip, strip_by, rstrip_by.
  assert (Q : forall l, forallb (fun c => negb (is_bws c)) l = true -> lstrip_by is_bws l = l).
  { intros [|c l] Hl; [reflexivity|]. cbn [forallb] in Hl. apply andb_true_iff in Hl as [Hc _]. apply negb_true_iff in Hc. cbn [lstrip_by]. rewrite Hc. reflexivity. }
  rewrite (Q _ P2). rewrite Q; [apply rev_involutive|]. rewrite forallb_forall in *. intros x Hx. apply P2, in_rev, Hx.
Qed.

Lemma parse_line_composed kv : field_ok kv = true -> parse_line (line_of kv) = Some (fst kv, Split.lstrip (snd kv)).
Proof.
  unfold field_ok. intros H. apply andb_true_iff in H as [Hk Hv]. destruct (token_name _ Hk) as [N1 N2].
  unfold rd_token in Hk. apply andb_true_iff in Hk as [_ Hk]. destruct (token_class _ Hk) as [_ [K2 _]].
  unfold parse_line, line_of, COLON_SP. cbn [app]. rewrite (cut1_app COLON (fst kv) _ K2), N1, N2. reflexivity.
Qed.

(* the collection after the lines of [items] have been read: unique canonical keys are appended in order *)
Lemma hparse_lines_composed items : forall h cur,
  forallb field_ok items = true -> forallb (fun kv => name_canon (fst kv)) items = true -> nodup_keys items = true ->
  (forall kv, In kv items -> hmem (fst kv) h = false /\ match cur with Some (n, _) => bytes_eqb (fst kv) (canon n) = false | None => True end) ->
  (match cur with Some (n, _) => hmem (canon n) h = false | None => True end) ->
  hparse_lines h cur (map line_of items) =
    Some (match cur with Some (n, raw) => hset (canon n) (Split.rstrip raw) h | None => h end ++ map parsed_kv items).
Proof.
  induction items as [|kv items IH]; intros h cur Hok Hcan Hnd Hfresh Hcur.
  - cbn [map hparse_lines]. rewrite app_nil_r. destruct cur as [[n raw]|]; [|reflexivity]. unfold commit.
    rewrite hmem_hget in Hcur. destruct (hget (canon n) h); [discriminate | reflexivity].
  - cbn [forallb] in Hok, Hcan. apply andb_true_iff in Hok as [Hkv Hok]. apply andb_true_iff in Hcan as [Hc1 Hcan].
    destruct kv as [k v]. cbn [nodup_keys] in Hnd. apply andb_true_iff in Hnd as [Hnk Hnd]. apply negb_true_iff in Hnk.
    destruct (line_clean (k, v) Hkv) as [_ [_ Hws]]. cbn [map hparse_lines]. rewrite (parse_line_composed (k, v) Hkv). cbn [fst snd] in *.
    unfold name_canon in Hc1. apply bytes_eqb_eq in Hc1.
    assert (Hfk : hmem k h = false /\ match cur with Some (n, _) => bytes_eqb k (canon n) = false | None => True end) by (apply (Hfresh (k, v)); left; reflexivity).
    destruct Hfk as [Hfk1 Hfk2].
    (* the state after committing the pending field *)
    set (h1 := match cur with Some (n, raw) => hset (canon n) (Split.rstrip raw) h | None => h end).
    assert (E1 : commit h cur = h1).
    { unfold h1, commit. destruct cur as [[n raw]|]; [|reflexivity]. rewrite hmem_hget in Hcur. destruct (hget (canon n) h); [discriminate | reflexivity]. }
    assert (Hk1 : hmem k h1 = false).
    { unfold h1. destruct cur as [[n raw]|]; [|exact Hfk1]. rewrite hmem_hset_iff, Hfk2, Hfk1. reflexivity. }
    assert (Step : hparse_lines h1 (Some (k, Split.lstrip v)) (map line_of items) = Some (h1 ++ map parsed_kv ((k, v) :: items))).
    { rewrite IH; try assumption.
      - rewrite Hc1. cbn [map parsed_kv fst snd]. unfold stripv.
        assert (A : hset k (Split.rstrip (Split.lstrip v)) h1 = h1 ++ [(k, Split.rstrip (Split.lstrip v))]).
        { clear - Hk1. induction h1 as [|[k' v'] h1 IHh]; [reflexivity|]. cbn [hset app]. rewrite hmem_hget in Hk1. cbn [hget] in Hk1.
          destruct (bytes_eqb k k'); [discriminate|]. f_equal. apply IHh. rewrite hmem_hget. exact Hk1. }
        rewrite A, <- app_assoc. reflexivity.
      - intros kv Hin. split.
        + unfold h1. destruct cur as [[n raw]|].
          * destruct (Hfresh kv (or_intror Hin)) as [F1 F2]. rewrite hmem_hset_iff, F2, F1. reflexivity.
          * exact (proj1 (Hfresh kv (or_intror Hin))).
        + rewrite Hc1. destruct (bytes_eqb (fst kv) k) eqn:E; [|reflexivity]. apply bytes_eqb_eq in E.
          exfalso. clear - Hnk Hin E. rewrite hmem_hget in Hnk. destruct kv as [k2 v2]. cbn [fst] in E. subst k2.
          induction items as [|[k3 v3] items IHi]; [contradiction|]. cbn [hget] in Hnk. destruct (bytes_eqb k k3) eqn:E3; [discriminate|].
          destruct Hin as [Hin|Hin]; [injection Hin as -> ->; rewrite bytes_eqb_refl in E3; discriminate | exact (IHi Hnk Hin)].
      - rewrite Hc1. exact Hk1. }
    destruct cur as [[n raw]|].
    + rewrite Hws. fold h1 in E1. rewrite E1. exact Step.
    + exact Step.
Qed.

(* Headers.parse of a composed block without list-valued fields *)
Lemma hparse_composed items : items <> [] ->
  forallb field_ok items = true -> forallb (fun kv => name_canon (fst kv)) items = true -> nodup_keys items = true ->
  hparse [] (join_with CRLF (map line_of items)) = Some (map parsed_kv items).
Proof.
  intros Hne Hok Hcan Hnd. unfold hparse.
  assert (Hcl : forallb clean (map line_of items) = true).
  { clear - Hok. induction items as [|kv items IH]; [reflexivity|]. cbn [forallb] in Hok. apply andb_true_iff in Hok as [A B].
    cbn [map forallb]. rewrite (proj1 (line_clean kv A)), (IH B). reflexivity. }
  rewrite split_all_join; [| destruct items; [congruence | discriminate] | exact Hcl].
  rewrite (hparse_lines_composed items [] None Hok Hcan Hnd); [reflexivity | | exact I].
  intros kv _. split; [reflexivity | exact I].
Qed.

(* ---------------------------------------------------------------- the two decimal printers agree *)
Lemma dec_print_digits_f f1 : forall f2 n acc, n < 2 ^ N.of_nat f1 -> n < 10 ^ N.of_nat (S f2) ->
  map dec_digit (digs_f f1 10 n acc) = Split.digits_f (S f2) n (map dec_digit acc).
Proof.
  induction f1 as [|f IH]; intros f2 n acc H1 H2.
  - cbn in H1. assert (n = 0) by lia. subst. reflexivity.
  - cbn [digs_f Split.digits_f]. destruct (n <? 10) eqn:E.
    + apply N.ltb_lt in E. rewrite N.mod_small by exact E. reflexivity.
    + apply N.ltb_ge in E. destruct f2 as [|f2].
      * change (10 ^ N.of_nat 1) with 10 in H2. lia.
      * rewrite (IH f2).
        -- reflexivity.
        -- rewrite Nat2N.inj_succ, N.pow_succ_r' in H1. assert (n / 10 <= n / 2) by (apply N.div_le_compat_l; lia).
           assert (n / 2 < 2 ^ N.of_nat f) by (apply N.div_lt_upper_bound; lia). lia.
        -- apply N.div_lt_upper_bound; [lia|]. rewrite <- N.pow_succ_r'. replace (N.succ (N.of_nat (S f2))) with (N.of_nat (S (S f2))) by lia. exact H2.
Qed.

Lemma pow10_gt' n : n < 10 ^ N.of_nat (S (N.to_nat (N.log2 n))).
Proof.
  destruct n as [|p]; [cbn; lia|].
  assert (H : N.pos p < 2 ^ N.succ (N.log2 (N.pos p))) by (apply N.log2_spec; lia).
  eapply N.lt_le_trans; [exact H|].
  replace (N.of_nat (S (N.to_nat (N.log2 (N.pos p))))) with (N.succ (N.log2 (N.pos p))) by lia.
  apply N.pow_le_mono_l. lia.
Qed.

Lemma dec_print_dec_of_N n : dec_print n = Split.dec_of_N n.
Proof. unfold dec_print, digs, Split.dec_of_N. apply (dec_print_digits_f _ _ n []); [apply size_nat_bound | apply pow10_gt']. Qed.

(* ---------------------------------------------------------------- lookups in the parsed collection *)
Lemma nodup_keys_NoDup h : nodup_keys h = true <-> NoDup (map fst h).
Proof.
  induction h as [|[k v] h IH]; cbn [nodup_keys map fst]; [split; [constructor | reflexivity]|].
  rewrite andb_true_iff, negb_true_iff, IH. split.
  - intros [A B]. constructor; [|exact B]. intros Hin. apply in_map_iff in Hin as [[k' v'] [E Hin]]. cbn in E. subst k'.
    rewrite hmem_hget in A. clear - A Hin. induction h as [|[k2 v2] h IHh]; [contradiction|]. cbn [hget] in A.
    destruct (bytes_eqb k k2) eqn:E2; [discriminate|]. destruct Hin as [Hin|Hin]; [injection Hin as -> ->; rewrite bytes_eqb_refl in E2; discriminate | exact (IHh A Hin)].
  - intros N. inversion N as [|? ? Hnin Hnd]. subst. split; [|exact Hnd].
    rewrite hmem_hget. destruct (hget k h) as [v'|] eqn:E; [|reflexivity]. exfalso. apply Hnin.
    clear - E. induction h as [|[k2 v2] h IHh]; [discriminate|]. cbn [hget] in E. cbn [map fst]. destruct (bytes_eqb k k2) eqn:E2.
    + apply bytes_eqb_eq in E2. left. symmetry. exact E2.
    + right. exact (IHh E).
Qed.

Lemma hget_some_in k v h : hget k h = Some v -> In (k, v) h.
Proof.
  induction h as [|[k2 v2] h IH]; [discriminate|]. cbn [hget]. destruct (bytes_eqb k k2) eqn:E.
  - intros H. injection H as ->. apply bytes_eqb_eq in E. subst. left. reflexivity.
  - intros H. right. exact (IH H).
Qed.
Lemma hget_in k v h : nodup_keys h = true -> In (k, v) h -> hget k h = Some v.
Proof.
  induction h as [|[k2 v2] h IH]; [contradiction|]. cbn [nodup_keys hget]. intros Hn Hin. apply andb_true_iff in Hn as [A B].
  destruct Hin as [Hin|Hin].
  - injection Hin as -> ->. rewrite bytes_eqb_refl. reflexivity.
  - destruct (bytes_eqb k k2) eqn:E; [|exact (IH B Hin)]. apply bytes_eqb_eq in E. subst k2. apply negb_true_iff in A. rewrite hmem_hget in A.
    rewrite (IH B Hin) in A. discriminate.
Qed.
Lemma nodup_keys_perm h h' : Permutation h h' -> nodup_keys h = true -> nodup_keys h' = true.
Proof. intros P H. apply nodup_keys_NoDup. apply nodup_keys_NoDup in H. exact (Permutation_NoDup (Permutation_map fst P) H). Qed.
Lemma hget_perm k h h' : Permutation h h' -> nodup_keys h = true -> hget k h' = hget k h.
Proof.
  intros P H. pose proof (nodup_keys_perm h h' P H) as H'. destruct (hget k h) as [v|] eqn:E.
  - apply hget_in; [exact H'|]. apply (Permutation_in _ P). apply hget_some_in, E.
  - destruct (hget k h') as [v'|] eqn:E'; [|reflexivity]. apply hget_some_in in E'. apply (Permutation_in _ (Permutation_sym P)) in E'.
    rewrite (hget_in _ _ _ H E') in E. discriminate.
Qed.
Lemma hget_parsed k l : hget k (map parsed_kv l) = option_map stripv (hget k l).
Proof. induction l as [|[k2 v2] l IH]; [reflexivity|]. cbn [map parsed_kv hget fst snd]. destruct (bytes_eqb k k2); [reflexivity | exact IH]. Qed.

(* the collection delivered for a composed header section without list-valued fields *)
Definition no_list_fields (h : hdrs) : bool := forallb (fun kv => negb (mem_bytes (fst kv) HEADER_LIST_ELEMENTS)) h.
Definition delivered_hdrs (h : hdrs) : hdrs := map parsed_kv (sort_items h).

Lemma items_no_list C h : no_list_fields h = true -> flat_map (items_of C) h = h.
Proof.
  induction h as [|kv h IH]; [reflexivity|]. cbn [no_list_fields forallb flat_map]. intros H. apply andb_true_iff in H as [A B].
  unfold items_of at 1. apply negb_true_iff in A. rewrite A. cbn [app]. f_equal. exact (IH B).
Qed.

Lemma hget_delivered k h : hdrs_ok h = true -> hget k (delivered_hdrs h) = option_map stripv (hget k h).
Proof.
  intros H. unfold delivered_hdrs. rewrite hget_parsed. f_equal. apply hget_perm; [apply Permutation_sym, sort_items_perm|].
  unfold hdrs_ok in H. apply andb_true_iff in H as [_ H]. exact H.
Qed.

Lemma stripv_clean_digits n : stripv (dec_print n) = dec_print n.
Proof.
  unfold dec_print. pose proof (digs_lt 10 n ltac:(lia)) as Hl.
  assert (P : forall ds, Forall (fun d => d < 10) ds -> forallb (fun c => negb (is_bws c)) (map dec_digit ds) = true).
  { induction 1 as [|d ds Hd _ IH]; [reflexivity|]. cbn [map forallb]. rewrite IH, andb_true_r.
    destruct (dec_digit_props d Hd) as [_ [_ [_ [_ [_ [_ [_ [U _]]]]]]]]. unfold is_uws_latin1 in U. apply orb_false_iff in U as [U _]. apply orb_false_iff in U as [U _]. rewrite U. reflexivity. }
  specialize (P _ Hl). unfold stripv, Split.rstrip, Split.lstrip, rstrip_by.
  assert (Q : forall l, forallb (fun c => negb (is_bws c)) l = true -> lstrip_by is_bws l = l).
  { intros [|c l] H; [reflexivity|]. cbn [forallb] in H. apply andb_true_iff in H as [H _]. apply negb_true_iff in H. cbn [lstrip_by]. rewrite H. reflexivity. }
  rewrite (Q _ P). rewrite Q; [apply rev_involutive|]. rewrite forallb_forall in *. intros x Hx. apply P, in_rev, Hx.
Qed.

(* the composed stream in the shape the parser theorems expect *)
Lemma composed_block C h : lsplit_clean C -> hdrs_ok h = true -> no_list_fields h = true -> h <> [] ->
  let lines := map line_of (sort_items h) in
  let block := join_with CRLF lines in
  hcompose C h = block ++ CRLF ++ CRLF /\ block <> [] /\ prefixb CRLF block = false /\
  cut (CRLF ++ CRLF) (block ++ CRLF) = None /\ hparse [] block = Some (delivered_hdrs h).
Proof.
  intros HC Hok Hnl Hne lines block.
  assert (Hitems : forallb field_ok (sort_items h) = true).
  { rewrite (forallb_perm _ _ _ (sort_items_perm h)). rewrite <- (items_no_list C h Hnl). apply items_ok; assumption. }
  assert (Hsne : sort_items h <> []).
  { intros E. pose proof (sort_items_perm h) as P. rewrite E in P. apply Permutation_nil in P. congruence. }
  assert (Hcl : forallb clean lines = true /\ forallb nonempty_b lines = true).
  { unfold lines. clear - Hitems. induction (sort_items h) as [|kv l IH]; [split; reflexivity|]. cbn [forallb] in Hitems. apply andb_true_iff in Hitems as [A B].
    destruct (line_clean kv A) as [L1 [L2 _]]. destruct (IH B) as [I1 I2]. cbn [map forallb]. rewrite L1, I1, I2. split; [reflexivity|].
    destruct (line_of kv); [congruence | reflexivity]. }
  destruct Hcl as [Hcl Hnel].
  assert (Hlne : lines <> []) by (unfold lines; destruct (sort_items h); [congruence | discriminate]).
  assert (Eblock : concat_bytes (map field_line (sort_items h)) = block ++ CRLF).
  { unfold block. rewrite <- (concat_lines_join lines Hlne). unfold lines. rewrite map_map. f_equal. apply map_ext. intros kv. apply field_line_line. }
  split; [|split; [|split; [|split]]].
  - unfold hcompose. rewrite (items_no_list C h Hnl), Eblock, <- app_assoc. reflexivity.
  - unfold block. destruct lines as [|l1 ls]; [congruence|]. cbn [forallb] in Hnel. apply andb_true_iff in Hnel as [A _].
    destruct l1; [discriminate|]. destruct ls; discriminate.
  - unfold block. destruct lines as [|l1 ls]; [congruence|]. cbn [forallb] in Hnel, Hcl. apply andb_true_iff in Hnel as [A _]. apply andb_true_iff in Hcl as [B _].
    destruct l1 as [|c l1]; [discriminate|]. unfold clean, rd_no_crlf in B. cbn [forallb] in B. apply andb_true_iff in B as [B _]. apply negb_true_iff, orb_false_iff in B. destruct B as [B _].
    assert (P : forall z, prefixb CRLF (c :: z) = false) by (intros z; rewrite prefixb_CRLF_cons, (beq_sym CR c), B; reflexivity).
    destruct ls; cbn [join_with app]; apply P.
  - rewrite <- Eblock. apply cut_CRLF2_none. rewrite (map_ext _ (fun kv => line_of kv ++ CRLF) field_line_line), <- (map_map line_of (fun l => l ++ CRLF)).
    apply lfcr_lines; assumption.
  - unfold block, lines, delivered_hdrs. apply hparse_composed; [exact Hsne | exact Hitems | |].
    + rewrite (forallb_perm _ _ _ (sort_items_perm h)). unfold hdrs_ok in Hok. apply andb_true_iff in Hok as [Hok _].
      rewrite forallb_forall in *. intros kv Hin. specialize (Hok kv Hin). unfold kv_ok in Hok. apply andb_true_iff in Hok as [_ X]. exact X.
    + apply (nodup_keys_perm h); [apply Permutation_sym, sort_items_perm|]. unfold hdrs_ok in Hok. apply andb_true_iff in Hok as [_ X]. exact X.
Qed.

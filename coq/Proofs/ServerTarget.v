(* Lemmas about Model/ServerTarget.v: what a delivered request target looks like, where its authority comes
   from, and what the other outcomes are.  Every lemma holds for all instantiations of the callees. *)
From Coq Require Import ZArith.
From Httoop Require Import Lib.Bytes Lib.Variant Lib.Utf8 Gen.PercentT Gen.UriT Gen.UriNormT Gen.StartLineT Gen.ServerTargetT.
From Httoop Require Import Model.Percent Model.StartLine Model.UriSyntax Model.UriPath Model.UriNorm Model.ServerTarget.
From Httoop Require Import Proofs.UriPath Proofs.UriNorm Proofs.StartLine.
Local Open Scope N_scope.

Arguments UriNorm.normalize : simpl never.
Arguments uri_parse : simpl never.
Arguments uri_compose : simpl never.
Arguments req_parse : simpl never.

(* ---------------------------------------------------------------- path_ok *)
Lemma nonempty_nil (l : bytes) : nonempty l = false -> l = [].
Proof. destruct l; [reflexivity | discriminate]. Qed.
Lemma nonempty_nonnil (l : bytes) : nonempty l = nonnil l.
Proof. destruct l; reflexivity. Qed.

Lemma abl_removelast ss : abl_nonnil ss = true -> Forall (fun s : bytes => s <> []) (removelast ss).
Proof.
  induction ss as [|s r IH]; intros H; [constructor|].
  destruct r as [|y r']; [constructor|].
  rewrite abl_cons2 in H. apply andb_true_iff in H as [H1 H2].
  change (removelast (s :: y :: r')) with (s :: removelast (y :: r')).
  constructor; [destruct s; [discriminate | congruence] | exact (IH H2)].
Qed.

Lemma no_dot_seg_Forall p : no_dot_seg p = true -> Forall (fun s : bytes => s <> [DT] /\ s <> [DT; DT]) (psplit p).
Proof.
  unfold no_dot_seg. intros H. apply Forall_forall. intros s Hin.
  rewrite forallb_forall in H. specialize (H s Hin). apply negb_true_iff in H. apply orb_false_iff in H as [H1 H2].
  split; intros ->; [rewrite is_dot_DT in H1 | rewrite is_dotdot_DTDT in H2]; discriminate.
Qed.

(* C11's fixed-point theorem gives the first two clauses, the leading slash the third *)
Lemma fixed_path_ok h s p : normalize_path h s p = p -> starts_slash p = true -> path_ok p.
Proof.
  intros E S. destruct (normalize_path_fixed_ok h s p E) as [N D].
  right. right. split; [exact S|]. split; [apply no_dot_seg_Forall, N|].
  destruct p as [|c q]; [discriminate|]. cbn [starts_slash] in S. apply beq_eq in S. subst c.
  rewrite psplit_slash. unfold interior. cbn [tl]. apply abl_removelast, no_dslash_segments, D.
Qed.

Lemma path_okb_sound p : path_okb p = true -> path_ok p.
Proof.
  unfold path_okb, path_ok. intros H. apply orb_true_iff in H as [H|H]; [apply orb_true_iff in H as [H|H]|].
  - left. apply bytes_eqb_eq, H.
  - right. left. destruct p; [reflexivity | discriminate].
  - right. right. apply andb_true_iff in H as [H H3]. apply andb_true_iff in H as [H1 H2].
    split; [exact H1|]. split.
    + apply Forall_forall. intros s Hin. rewrite forallb_forall in H2. specialize (H2 s Hin).
      apply andb_true_iff in H2 as [A B]. apply negb_true_iff in A, B.
      split; intros ->; [rewrite is_dot_DT in A | rewrite is_dotdot_DTDT in B]; discriminate.
    + apply Forall_forall. intros s Hin. rewrite forallb_forall in H3. specialize (H3 s Hin).
      destruct s; [discriminate | congruence].
Qed.

(* ---------------------------------------------------------------- table lemmas (re-checked on every run) *)
Lemma accepted_are_http : forallb http_scheme ACCEPTED_SCHEMES = true.
Proof. vm_compute. reflexivity. Qed.
Lemma http_based_are_http : forallb http_scheme HTTP_SCHEMES = true.
Proof. vm_compute. reflexivity. Qed.
Lemma req_uri_port_http : REQ_URI_PORT = Some 80.
Proof. reflexivity. Qed.
Lemma uri_base_port_none : URI_BASE_PORT = None.
Proof. reflexivity. Qed.
Lemma registries_agree : SCHEME_PORTS = URI_SCHEMES /\ BASE_PORT = URI_BASE_PORT.
Proof. split; reflexivity. Qed.
Lemma hostport_pattern_pinned : HOSTPORT_PATTERN = X "5e282e2a3f29283f3a3a285c642b29293f24".
Proof. reflexivity. Qed.
Lemma re_hostname_pattern_pinned :
  RE_HOSTNAME_PATTERN = X "5e285b5e5c7830302d5c7831465c78374628295e5c27223c3e402c3b3a2f5c5b5c5d3d7b7d205c745c5c5c5c225d2b2924".
Proof. reflexivity. Qed.
(* the host-name class: no control, no delimiter that could smuggle a second authority, every non-ASCII octet *)
Lemma hostname_class_facts :
  forallb (fun c => negb (inmask HOSTNAME_CLASS c))
          [x00; x09; x0a; x0d; x1f; x20; x22; x27; x28; x29; x2c; x2f; x3a; x3b; x3c; x3d; x3e; x40; x5b; x5c; x5d; x5e; x7b; x7d; x7f] = true /\
  forallb (fun c => implb (128 <=? bN c) (inmask HOSTNAME_CLASS c)) all_bytes = true /\
  forallb (inmask HOSTNAME_CLASS) [x61; x7a; x41; x5a; x30; x39; x2d; x2e; x5f; x7e] = true.
Proof. vm_compute. repeat split. Qed.
Lemma impl_variants_repaired : IMPL_INTLIMIT = Repaired /\ URI_UNICODE_VARIANT = Repaired.
Proof. split; reflexivity. Qed.

Lemma mem_http l s : forallb http_scheme l = true -> mem_bytes s l = true -> http_scheme s = true.
Proof.
  intros A H. unfold mem_bytes in H. apply existsb_exists in H as (x & Hin & E).
  apply bytes_eqb_eq in E. subst x. rewrite forallb_forall in A. exact (A s Hin).
Qed.

(* ---------------------------------------------------------------- no UnicodeDecodeError after the repair of D7 *)
Section NoUnicode.
Variable valid : bytes -> bool.
Variable inet4 inet6 idna_dec : bytes -> option bytes.
Variable vq : variant.

Definition not_uni {A} (r : res A) : Prop := r <> Err EUnicode.

Lemma uq_not_uni d : not_uni (uq valid Repaired d).
Proof. unfold uq, not_uni. destruct (valid (unquote d)); discriminate. Qed.

Lemma bind_not_uni {A B} (r : res A) (f : A -> res B) : not_uni r -> (forall a, not_uni (f a)) -> not_uni (bind r f).
Proof. unfold not_uni. destruct r as [a|e]; cbn; [intros _ H; apply H | intros H _ E; apply H; congruence]. Qed.

Lemma mapM_not_uni {A B} (f : A -> res B) l : (forall a, not_uni (f a)) -> not_uni (mapM f l).
Proof.
  intros H. induction l as [|x r IH]; cbn [mapM]; [discriminate|].
  apply bind_not_uni; [apply H|]. intros y. apply bind_not_uni; [exact IH|]. intros ys. discriminate.
Qed.

Lemma unquote_host_not_uni h : not_uni (unquote_host valid inet4 inet6 idna_dec Repaired h).
Proof.
  unfold unquote_host.
  destruct (starts_with [LBR] h && ends_with1 RBR h).
  - destruct (inet6 _); [discriminate|]. destruct (_ && _); discriminate.
  - destruct (forallb isdigit (split1 UriSyntax.DOT h)).
    + destruct (inet4 h); discriminate.
    + destruct (nonempty _); [discriminate|].
      apply bind_not_uni; [apply uq_not_uni|]. intros a. destruct (is_ascii a); [|discriminate].
      destruct (idna_dec a); discriminate.
Qed.

Lemma norm_query_not_uni q : not_uni (norm_query valid vq Repaired q).
Proof.
  unfold norm_query. destruct (nonempty q); [|discriminate].
  destruct (qs_decode QS_INVALID q); [|discriminate]. destruct (forallb _ _); discriminate.
Qed.

Lemma uri_parse_not_uni d : not_uni (uri_parse valid inet4 inet6 idna_dec vq Repaired d).
Proof.
  unfold uri_parse. destruct (nonempty d && nonempty (stripm URI_PRINTABLE d)); [discriminate|].
  unfold uri_decode. apply bind_not_uni.
  { apply mapM_not_uni. intros s. apply bind_not_uni; [apply uq_not_uni|]. intros t. discriminate. }
  intros segs. destruct (_ && _); [discriminate|].
  apply bind_not_uni; [apply norm_query_not_uni|]. intros q'.
  apply bind_not_uni; [apply uq_not_uni|]. intros us.
  apply bind_not_uni; [apply uq_not_uni|]. intros pw.
  apply bind_not_uni; [apply unquote_host_not_uni|]. intros h'.
  apply bind_not_uni; [apply uq_not_uni|]. intros fr.
  unfold assign. apply bind_not_uni; [|intros p; discriminate].
  unfold port_of_bytes. destruct (nonempty _); [|discriminate].
  destruct (py_int _) as [z|]; [|discriminate]. unfold check_port. destruct (_ && _)%bool; discriminate.
Qed.
End NoUnicode.

Lemma req_parse_no_escape line : req_parse Repaired line <> RqEscape.
Proof.
  unfold req_parse, req_of_fields. destruct (split_ws 2 (strip line)) as [|m [|u [|vt [|x r]]]]; try discriminate.
  pose proof (proto_parse_no_escape vt) as H. destruct (proto_parse Repaired vt); try discriminate; [congruence|].
  destruct (method_parse m); [|discriminate]. destruct (startswith SLASH2 u); discriminate.
Qed.

(* ---------------------------------------------------------------- the model, inverted *)
Section Facts.
Variable valid : bytes -> bool.
Variable inet4 inet6 : bytes -> option bytes.
Variable idna_dec idna_enc : bytes -> option bytes.
Variable lower : bytes -> bytes.
Variable helem : bytes -> elres.
Variable udigits : bytes -> option (option Z).
Variable iv vq vu v7 vn vl : variant.
Variable dscheme dhost : bytes.
Variable dport : option N.

Notation target_parse := (target_parse valid inet4 inet6 idna_dec vq v7).
Notation compose_ok := (compose_ok idna_enc vq vu).
Notation location_of := (location_of valid inet4 inet6 idna_dec idna_enc vq vu v7 vl).
Notation set_defaults := (set_defaults dscheme dhost dport).
Notation scheme_step := (scheme_step dscheme dhost dport).
Notation uri_hooks := (uri_hooks valid inet4 inet6 idna_dec idna_enc lower vq vu v7 vn vl dscheme dhost dport).
Notation server_target := (server_target valid inet4 inet6 idna_dec idna_enc lower iv vq vu v7 vn vl dscheme dhost dport).
Notation host_sanitize := (host_sanitize inet4 inet6 lower udigits).
Notation apply_host := (apply_host inet4 inet6 lower helem udigits).
Notation request_head := (request_head valid inet4 inet6 idna_dec idna_enc lower helem udigits iv vq vu v7 vn vl dscheme dhost dport).
Notation norm := (UriNorm.normalize lower vn).

Lemma validate_uri_inv m u : validate_uri m u = true ->
  UriNorm.u_frag u = [] /\ UriNorm.u_user u = [] /\ UriNorm.u_pass u = [] /\
  (UriNorm.u_path u = [] \/ UriNorm.u_path u = STAR \/ starts_slash (UriNorm.u_path u) = true) /\
  (nonempty (UriNorm.u_scheme u) = true -> mem_bytes (UriNorm.u_scheme u) HTTP_SCHEMES = true) /\
  (bytes_eqb m CONNECT = true -> UriNorm.u_scheme u = [] /\ UriNorm.u_path u = [] /\ UriNorm.u_query u = [] /\ UriNorm.u_host u <> []).
Proof.
  unfold validate_uri. intros H.
  destruct (nonempty (UriNorm.u_scheme u) && negb (mem_bytes (UriNorm.u_scheme u) HTTP_SCHEMES)) eqn:A; [discriminate|].
  destruct (nonempty (UriNorm.u_frag u) || nonempty (UriNorm.u_user u) || nonempty (UriNorm.u_pass u)) eqn:B; [discriminate|].
  destruct (starts_with [SLASH; SLASH] (UriNorm.u_path u)) eqn:C; [discriminate|].
  destruct (nonempty (UriNorm.u_path u) && negb (bytes_eqb (UriNorm.u_path u) STAR) && negb (starts_slash (UriNorm.u_path u))) eqn:D; [discriminate|].
  destruct (bytes_eqb m CONNECT && _) eqn:E; [discriminate|].
  apply orb_false_iff in B as [B B3]. apply orb_false_iff in B as [B1 B2].
  split; [apply nonempty_nil, B1|]. split; [apply nonempty_nil, B2|]. split; [apply nonempty_nil, B3|].
  split; [|split].
  - destruct (nonempty (UriNorm.u_path u)) eqn:P; [|left; apply nonempty_nil, P].
    destruct (bytes_eqb (UriNorm.u_path u) STAR) eqn:Q; [right; left; apply bytes_eqb_eq, Q|].
    destruct (starts_slash (UriNorm.u_path u)); [right; right; reflexivity | discriminate].
  - intros S. rewrite S in A. cbn in A. apply negb_false_iff in A. exact A.
  - intros M. rewrite M in E. cbn [andb] in E.
    apply orb_false_iff in E as [E E4]. apply orb_false_iff in E as [E E3]. apply orb_false_iff in E as [E1 E2].
    apply negb_false_iff in E4.
    repeat split; try (apply nonempty_nil; assumption). intros Z. rewrite Z in E4. discriminate.
Qed.

(* the slots the later steps never touch *)
Definition same_rest (a b : ruri) : Prop :=
  UriNorm.u_user a = UriNorm.u_user b /\ UriNorm.u_pass a = UriNorm.u_pass b /\ UriNorm.u_path a = UriNorm.u_path b /\
  UriNorm.u_query a = UriNorm.u_query b /\ UriNorm.u_frag a = UriNorm.u_frag b.

Lemma set_defaults_spec u u' : set_defaults u = Ok u' ->
  same_rest u u' /\ UriNorm.u_scheme u' = dscheme /\ UriNorm.u_host u' = dhost /\
  u_dport u' = (if nonnil dscheme then class_port dscheme else u_dport u) /\
  port_of_int (u_dport u') dport = Ok (UriNorm.u_port u').
Proof.
  unfold set_defaults. destruct u as [dp s us pw h po pa q f]. cbn.
  destruct (port_of_int _ dport) as [p|e] eqn:E; [|discriminate].
  intros H. injection H as <-. cbn. unfold same_rest. cbn. repeat split. exact E.
Qed.

Lemma scheme_step_spec u u' : scheme_step u = Ok u' ->
  same_rest u u' /\
  (if nonempty (UriNorm.u_scheme u) then u' = u /\ mem_bytes (UriNorm.u_scheme u) ACCEPTED_SCHEMES = true
   else UriNorm.u_scheme u' = dscheme /\ UriNorm.u_host u' = dhost /\
        u_dport u' = (if nonnil dscheme then class_port dscheme else u_dport u) /\
        port_of_int (u_dport u') dport = Ok (UriNorm.u_port u')).
Proof.
  unfold scheme_step. destruct (nonempty (UriNorm.u_scheme u)).
  - destruct (mem_bytes _ ACCEPTED_SCHEMES); [|discriminate]. intros H. injection H as <-.
    split; [unfold same_rest; repeat split | split; reflexivity].
  - intros H. apply set_defaults_spec in H. tauto.
Qed.

(* what a redirect / an escape out of the hooks carries *)
Definition redirected (u0 : ruri) (canon : bytes) : Prop :=
  canon = UriNorm.u_path (norm u0) /\ canon <> UriNorm.u_path u0 /\ no_dot_seg canon = true /\ no_dslash canon = true.

Lemma uri_hooks_spec m v u0 :
  match uri_hooks m v u0 with
  | Deliver u m' v' =>
      m' = m /\ v' = v /\ compose_ok u0 = true /\ UriNorm.u_path (norm u0) = UriNorm.u_path u0 /\
      scheme_step (norm u0) = Ok u /\ ver_ltb SERVER_PROTOCOL v = false
  | Redirect301 canon loc => redirected u0 canon /\ location_of canon = Ok (Some loc)
  | Bad400 => True
  | V505 => ver_ltb SERVER_PROTOCOL v = true
  | Escape => exists canon, redirected u0 canon /\ (location_of canon = Ok None \/ location_of canon = Err EUnicode)
  end.
Proof.
  unfold uri_hooks. destruct (compose_ok u0); cbn [negb]; [|exact I].
  destruct (bytes_eqb (UriNorm.u_path u0) (UriNorm.u_path (norm u0))) eqn:E; cbn [negb].
  - apply bytes_eqb_eq in E. destruct (scheme_step (norm u0)) as [u2|e] eqn:S; [|exact I].
    destruct (ver_ltb SERVER_PROTOCOL v) eqn:V; [reflexivity|]. repeat split; auto.
  - assert (R : redirected u0 (UriNorm.u_path (norm u0))).
    { destruct (normalize_path_props lower vn u0) as [A B]. repeat split; auto.
      intros Q. rewrite Q, bytes_eqb_refl in E. discriminate. }
    destruct (location_of (UriNorm.u_path (norm u0))) as [[loc|]|[|]] eqn:L.
    + split; [exact R | exact L].
    + eexists. split; [exact R|]. left. exact L.
    + exact I.
    + eexists. split; [exact R|]. right. exact L.
Qed.

Lemma server_target_deliver line u m v : server_target line = Deliver u m v ->
  exists target u0, req_parse iv line = RqTarget m target v /\ target_parse target = Ok u0 /\ validate_uri m u0 = true /\
    compose_ok u0 = true /\ UriNorm.u_path (norm u0) = UriNorm.u_path u0 /\ scheme_step (norm u0) = Ok u /\
    ver_ltb SERVER_PROTOCOL v = false.
Proof.
  unfold ServerTarget.server_target. destruct (req_parse iv line) as [| | |m' target v'] eqn:R; try discriminate.
  destruct (target_parse target) as [u0|[|]] eqn:T; try discriminate.
  destruct (validate_uri m' u0) eqn:V; [|discriminate].
  pose proof (uri_hooks_spec m' v' u0) as H. intros E. rewrite E in H.
  destruct H as (-> & -> & H). exists target, u0. tauto.
Qed.

Lemma server_target_redirect line canon loc : server_target line = Redirect301 canon loc ->
  exists m target v u0, req_parse iv line = RqTarget m target v /\ target_parse target = Ok u0 /\ validate_uri m u0 = true /\
    redirected u0 canon /\ location_of canon = Ok (Some loc).
Proof.
  unfold ServerTarget.server_target. destruct (req_parse iv line) as [| | |m' target v'] eqn:R; try discriminate.
  destruct (target_parse target) as [u0|[|]] eqn:T; try discriminate.
  destruct (validate_uri m' u0) eqn:V; [|discriminate].
  pose proof (uri_hooks_spec m' v' u0) as H. intros E. rewrite E in H.
  exists m', target, v', u0. tauto.
Qed.

(* ---- C06_path / C06_no_userinfo_fragment / C06_scheme on the start-line outcome ---- *)
Lemma deliver_path_ok line u m v : server_target line = Deliver u m v -> path_ok (UriNorm.u_path u).
Proof.
  intros H. apply server_target_deliver in H as (target & u0 & _ & _ & V & _ & P & S & _).
  apply scheme_step_spec in S as [(_ & _ & Q & _) _]. rewrite <- Q.
  apply validate_uri_inv in V as (_ & _ & _ & [E|[E|E]] & _).
  - rewrite P, E. right. left. reflexivity.
  - rewrite P, E. left. reflexivity.
  - rewrite P. rewrite (normalize_eq lower vn u0) in P. cbn [UriNorm.u_path] in P.
    exact (fixed_path_ok _ _ _ P E).
Qed.

Lemma deliver_no_userinfo_fragment line u m v : server_target line = Deliver u m v ->
  UriNorm.u_user u = [] /\ UriNorm.u_pass u = [] /\ UriNorm.u_frag u = [].
Proof.
  intros H. apply server_target_deliver in H as (target & u0 & _ & _ & V & _ & _ & S & _).
  apply scheme_step_spec in S as [(A & B & _ & _ & C) _]. rewrite <- A, <- B, <- C.
  destruct (normalize_rest lower vn u0) as (A' & B' & _ & C'). rewrite A', B', C'.
  apply validate_uri_inv in V. tauto.
Qed.

Lemma deliver_scheme line u m v : http_scheme dscheme = true -> server_target line = Deliver u m v ->
  http_scheme (UriNorm.u_scheme u) = true.
Proof.
  intros D H. apply server_target_deliver in H as (target & u0 & _ & _ & _ & _ & _ & S & _).
  apply scheme_step_spec in S as [_ S]. destruct (nonempty (UriNorm.u_scheme (norm u0))).
  - destruct S as [-> M]. exact (mem_http _ _ accepted_are_http M).
  - destruct S as (-> & _). exact D.
Qed.

(* the configured defaults: a target without scheme (origin-form, asterisk-form, authority-form) *)
Lemma deliver_defaults line u m v : lower [] = [] -> server_target line = Deliver u m v ->
  exists target u0, req_parse iv line = RqTarget m target v /\ target_parse target = Ok u0 /\
    (UriNorm.u_scheme u0 = [] ->
       UriNorm.u_scheme u = dscheme /\ UriNorm.u_host u = dhost /\
       port_of_int (u_dport u) dport = Ok (UriNorm.u_port u)).
Proof.
  intros L0 H. apply server_target_deliver in H as (target & u0 & R & T & _ & _ & _ & S & _).
  exists target, u0. split; [exact R|]. split; [exact T|].
  apply scheme_step_spec in S as [_ S]. rewrite (normalize_eq lower vn u0) in S. cbn [UriNorm.u_scheme UriNorm.u_host] in S.
  intros Z. rewrite Z, L0 in S. cbn [nonempty] in S. tauto.
Qed.

(* ---------------------------------------------------------------- redirects *)
(* absolute-form (scheme and host present): the redirect target is a sanitised path *)
Lemma redirected_rooted u0 canon : redirected u0 canon ->
  nonnil (lower (UriNorm.u_scheme u0)) = true -> nonnil (lower (UriNorm.u_host u0)) = true ->
  path_ok canon /\ canon <> STAR /\ canon <> [].
Proof.
  intros (E & NE & _ & _) S H. rewrite (normalize_eq lower vn u0) in E. cbn [UriNorm.u_path] in E.
  rewrite S, H in E.
  assert (P : normalize_path true true canon = canon) by (rewrite E; apply normalize_path_idem).
  assert (R : starts_slash canon = true).
  { rewrite E. unfold normalize_path. destruct (abspath_ok (UriNorm.u_path u0)) as (_ & _ & Hne).
    destruct (UriNorm.u_path u0) as [|c r] eqn:Q.
    - exfalso. apply NE. rewrite E. reflexivity.
    - specialize (Hne ltac:(discriminate)). destruct (abspath (c :: r)) as [|a o]; [congruence|].
      cbn [nonnil andb]. destruct (starts_slash (a :: o)) eqn:SS; cbn [negb andb]; [exact SS|].
      cbn [starts_slash]. apply beq_SL_SL. }
  split; [exact (fixed_path_ok _ _ _ P R)|].
  split; intros ->; discriminate.
Qed.

(* ---------------------------------------------------------------- Host *)
Lemma hp_split_spec s : forall h p, hp_split udigits s = (h, p) ->
  match p with
  | Some ds => s = h ++ UriSyntax.COLON :: ds /\ port_text_ok udigits ds = true
  | None => s = h
  end.
Proof.
  induction s as [|c r IH]; intros h p H; cbn [hp_split] in H.
  - injection H as <- <-. reflexivity.
  - destruct (beq c UriSyntax.COLON && port_text_ok udigits r) eqn:E.
    + injection H as <- <-. apply andb_true_iff in E as [E1 E2]. apply beq_eq in E1. subst c. split; [reflexivity | exact E2].
    + destruct (hp_split udigits r) as [h' p'] eqn:R. injection H as <- <-.
      specialize (IH h' p' eq_refl). destruct p' as [ds|].
      * destruct IH as [-> P]. split; [reflexivity | exact P].
      * subst r. reflexivity.
Qed.

(* what Host.sanitize lets through: an IP literal or a name made of host-name characters only; the value is the
   lower-cased text cut at the port (nothing is dropped except the brackets and one trailing newline) *)
Lemma host_sanitize_spec text h pz : host_sanitize text = Some (h, pz) ->
  (is_ip6 inet6 h = true \/ is_ip4 inet4 h = true \/ hostname_re h = true) /\
  exists s h0 ptxt, hostport_match udigits (lower text) = Some (h0, ptxt) /\
    (s = lower text \/ s ++ [NL] = lower text) /\ contains NL s = false /\
    (h = h0 \/ h0 = LBR :: h ++ [RBR]) /\
    match ptxt with
    | None => s = h0 /\ pz = None
    | Some ds => s = h0 ++ UriSyntax.COLON :: ds /\ port_text_ok udigits ds = true /\ exists z, port_text_val udigits ds = Some z /\ pz = Some z
    end.
Proof.
  unfold ServerTarget.host_sanitize. destruct (hostport_match udigits (lower text)) as [[h0 ptxt]|] eqn:M; [|discriminate].
  set (h' := if ends_with1 RBR h0 && starts_with [LBR] h0 then removelast (tl h0) else h0).
  destruct (match ptxt with None => Some None | Some ds => _ end) as [pz'|] eqn:P; [|discriminate].
  destruct (is_ip6 inet6 h' || is_ip4 inet4 h' || hostname_re h') eqn:K; [|discriminate].
  intros H. injection H as <- <-. split.
  { apply orb_true_iff in K as [K|K]; [apply orb_true_iff in K as [K|K]|]; auto. }
  unfold hostport_match in M.
  set (s := if ends_with1 NL (lower text) then removelast (lower text) else lower text) in M.
  destruct (contains NL s) eqn:C; [discriminate|]. injection M as M.
  exists s, h0, ptxt. split; [reflexivity|]. split.
  { unfold s. destruct (ends_with1 NL (lower text)) eqn:EW; [right | left; reflexivity].
    unfold ends_with1 in EW. destruct (rev (lower text)) as [|x t] eqn:RV; [discriminate|].
    apply beq_eq in EW. subst x. rewrite <- (rev_involutive (lower text)), RV. cbn [rev].
    rewrite removelast_last. reflexivity. }
  split; [exact C|]. split.
  { unfold h'. destruct (ends_with1 RBR h0 && starts_with [LBR] h0) eqn:B; [right | left; reflexivity].
    apply andb_true_iff in B as [B1 B2]. destruct h0 as [|a t]; [discriminate|]. cbn [starts_with] in B2.
    apply andb_true_iff in B2 as [B2 _]. apply beq_eq in B2. subst a. cbn [tl].
    unfold ends_with1 in B1. destruct (rev (LBR :: t)) as [|x t'] eqn:RV; [discriminate|]. apply beq_eq in B1. subst x.
    destruct t as [|b t0].
    - cbn in RV. injection RV as RV _. vm_compute in RV. discriminate.
    - cbn [rev] in RV. assert (E : rev (b :: t0) ++ [LBR] = RBR :: t') by exact RV.
      destruct (rev (b :: t0)) as [|y w] eqn:RW.
      + apply (f_equal (@length byte)) in RW. rewrite rev_length in RW. discriminate.
      + cbn in E. injection E as -> E. rewrite <- (rev_involutive (b :: t0)), RW. cbn [rev].
        rewrite removelast_last. reflexivity. }
  pose proof (hp_split_spec s h0 ptxt M) as HS. destruct ptxt as [ds|].
  - destruct HS as [HS1 HS2]. split; [exact HS1|]. split; [exact HS2|].
    destruct (port_text_val udigits ds) as [z|]; [|discriminate]. injection P as <-. exists z. split; reflexivity.
  - injection P as <-. split; [exact HS | reflexivity].
Qed.

Lemma host_port_set_spec d pz p : host_port_set d pz = Ok p ->
  match pz with
  | None => p = d
  | Some z => if (z =? 0)%Z then p = d else (0 < z <= 65535)%Z /\ p = Some (Z.to_N z)
  end.
Proof.
  unfold host_port_set. destruct pz as [z|]; [|intros H; injection H as <-; reflexivity].
  destruct (z =? 0)%Z; [intros H; injection H as <-; reflexivity|].
  unfold check_port. destruct ((0 <? z)%Z && (z <=? 65535)%Z) eqn:E; [|discriminate].
  intros H. injection H as <-. apply andb_true_iff in E as [E1 E2]. apply Z.ltb_lt in E1. apply Z.leb_le in E2. split; [lia | reflexivity].
Qed.

Lemma apply_host_spec p11 hostv u u' : apply_host p11 hostv u = HostOk u' ->
  UriNorm.u_scheme u' = UriNorm.u_scheme u /\ same_rest u u' /\ u_dport u' = u_dport u /\
  match hostv with
  | None => p11 = false /\ u' = u
  | Some raw => exists text h pz, helem raw = ElValue text /\ host_sanitize text = Some (h, pz) /\
                  UriNorm.u_host u' = h /\ host_port_set (u_dport u) pz = Ok (UriNorm.u_port u')
  end.
Proof.
  unfold ServerTarget.apply_host. destruct hostv as [raw|].
  - destruct (helem raw) as [text| |] eqn:E; try discriminate.
    destruct (host_sanitize text) as [[h pz]|] eqn:S; [|discriminate].
    destruct (host_port_set (u_dport u) pz) as [p|e] eqn:P; [|discriminate].
    intros H. injection H as <-. cbn. unfold same_rest. cbn. repeat split.
    exists text, h, pz. repeat split; auto.
  - destruct p11; [discriminate|]. intros H. injection H as <-. unfold same_rest. repeat split.
Qed.

Lemma request_head_deliver line hostv u m v : request_head line hostv = FDeliver u m v ->
  exists u1, server_target line = Deliver u1 m v /\ apply_host (p11_of v) hostv u1 = HostOk u.
Proof.
  unfold ServerTarget.request_head. destruct (server_target line) as [u1 m1 v1| | | |] eqn:S; try discriminate.
  destruct (apply_host (p11_of v1) hostv u1) as [u'| |] eqn:A; try discriminate.
  intros H. injection H as <- <- <-. exists u1. split; [reflexivity | exact A].
Qed.

End Facts.

(* ================================================================ final statements, all parameters explicit *)
(* C06_path: every delivered request has a sanitised path *)
Lemma final_path :
  forall (valid : bytes -> bool) (inet4 inet6 idna_dec idna_enc : bytes -> option bytes) (lower : bytes -> bytes)
         (helem : bytes -> elres) (udigits : bytes -> option (option Z)) (iv vq vu v7 vn vl : variant)
         (dscheme dhost : bytes) (dport : option N) (line : bytes) (hostv : option bytes) (u : ruri) (m : bytes) (v : version),
  request_head valid inet4 inet6 idna_dec idna_enc lower helem udigits iv vq vu v7 vn vl dscheme dhost dport line hostv = FDeliver u m v ->
  path_ok (UriNorm.u_path u).
Proof.
  intros until v. intros H. apply request_head_deliver in H as (u1 & S & A).
  apply apply_host_spec in A as (_ & (_ & _ & P & _) & _). rewrite <- P. eapply deliver_path_ok, S.
  Unshelve. all: try assumption.
Qed.

Lemma final_scheme :
  forall (valid : bytes -> bool) (inet4 inet6 idna_dec idna_enc : bytes -> option bytes) (lower : bytes -> bytes)
         (helem : bytes -> elres) (udigits : bytes -> option (option Z)) (iv vq vu v7 vn vl : variant)
         (dscheme dhost : bytes) (dport : option N) (line : bytes) (hostv : option bytes) (u : ruri) (m : bytes) (v : version),
  http_scheme dscheme = true ->
  request_head valid inet4 inet6 idna_dec idna_enc lower helem udigits iv vq vu v7 vn vl dscheme dhost dport line hostv = FDeliver u m v ->
  UriNorm.u_scheme u = S_HTTP_ST \/ UriNorm.u_scheme u = S_HTTPS_ST.
Proof.
  intros until v. intros D H. apply request_head_deliver in H as (u1 & S & A).
  apply apply_host_spec in A as (E & _). rewrite E.
  assert (K : http_scheme (UriNorm.u_scheme u1) = true) by (eapply deliver_scheme; eassumption).
  unfold http_scheme in K. apply orb_true_iff in K as [K|K]; apply bytes_eqb_eq in K; auto.
  Unshelve. all: try assumption.
Qed.

Lemma final_no_userinfo_fragment :
  forall (valid : bytes -> bool) (inet4 inet6 idna_dec idna_enc : bytes -> option bytes) (lower : bytes -> bytes)
         (helem : bytes -> elres) (udigits : bytes -> option (option Z)) (iv vq vu v7 vn vl : variant)
         (dscheme dhost : bytes) (dport : option N) (line : bytes) (hostv : option bytes) (u : ruri) (m : bytes) (v : version),
  request_head valid inet4 inet6 idna_dec idna_enc lower helem udigits iv vq vu v7 vn vl dscheme dhost dport line hostv = FDeliver u m v ->
  UriNorm.u_user u = [] /\ UriNorm.u_pass u = [] /\ UriNorm.u_frag u = [].
Proof.
  intros until v. intros H. apply request_head_deliver in H as (u1 & S & A).
  apply apply_host_spec in A as (_ & (A1 & A2 & _ & _ & A3) & _). rewrite <- A1, <- A2, <- A3.
  eapply deliver_no_userinfo_fragment, S.
  Unshelve. all: try assumption.
Qed.

(* C06_host_from_header: with a Host field, host and port of the delivered request are exactly what Host.sanitize
   returned for the element value -- the port when it is non-zero, the default port of the scheme's class when the
   field has none *)
Lemma final_host_from_header :
  forall (valid : bytes -> bool) (inet4 inet6 idna_dec idna_enc : bytes -> option bytes) (lower : bytes -> bytes)
         (helem : bytes -> elres) (udigits : bytes -> option (option Z)) (iv vq vu v7 vn vl : variant)
         (dscheme dhost : bytes) (dport : option N) (line raw : bytes) (u : ruri) (m : bytes) (v : version),
  request_head valid inet4 inet6 idna_dec idna_enc lower helem udigits iv vq vu v7 vn vl dscheme dhost dport line (Some raw) = FDeliver u m v ->
  exists text h pz,
    helem raw = ElValue text /\ host_sanitize inet4 inet6 lower udigits text = Some (h, pz) /\
    UriNorm.u_host u = h /\
    (pz = None -> UriNorm.u_port u = u_dport u) /\
    (forall z, pz = Some z -> z <> 0%Z -> UriNorm.u_port u = Some (Z.to_N z) /\ (0 < z <= 65535)%Z).
Proof.
  intros until v. intros H. apply request_head_deliver in H as (u1 & S & A).
  apply apply_host_spec in A as (_ & _ & DP & (text & h & pz & E & HS & HH & HP)).
  exists text, h, pz. split; [exact E|]. split; [exact HS|]. split; [exact HH|].
  apply host_port_set_spec in HP. rewrite DP. split.
  - intros ->. exact HP.
  - intros z -> NZ. destruct (z =? 0)%Z eqn:Z0; [apply Z.eqb_eq in Z0; contradiction|]. tauto.
  Unshelve. all: try assumption.
Qed.

(* the class default port of a delivered request is the one of its scheme *)
Lemma final_class_port :
  forall (valid : bytes -> bool) (inet4 inet6 idna_dec idna_enc : bytes -> option bytes) (lower : bytes -> bytes)
         (helem : bytes -> elres) (udigits : bytes -> option (option Z)) (iv vq vu v7 vn vl : variant)
         (dscheme dhost : bytes) (dport : option N) (line : bytes) (hostv : option bytes) (u : ruri) (m : bytes) (v : version),
  http_scheme dscheme = true ->
  request_head valid inet4 inet6 idna_dec idna_enc lower helem udigits iv vq vu v7 vn vl dscheme dhost dport line hostv = FDeliver u m v ->
  u_dport u = class_port (UriNorm.u_scheme u).
Proof.
  intros until v. intros D H. apply request_head_deliver in H as (u1 & S & A).
  apply apply_host_spec in A as (E & _ & DP & _). rewrite E, DP.
  apply server_target_deliver in S as (target & u0 & _ & _ & _ & _ & _ & S & _); [|assumption..].
  apply scheme_step_spec in S as [_ S]; [|assumption..]. rewrite (normalize_eq lower vn u0) in S. cbn [UriNorm.u_scheme u_dport] in S.
  destruct (nonempty (lower (UriNorm.u_scheme u0))) eqn:NE.
  - destruct S as [-> _]. cbn [u_dport UriNorm.u_scheme]. unfold norm_dport. rewrite <- nonempty_nonnil, NE. reflexivity.
  - destruct S as (-> & _ & -> & _). destruct dscheme; [discriminate | reflexivity].
  Unshelve. all: try assumption.
Qed.

(* what Host.sanitize accepts: IP literal or host-name characters only *)
Lemma final_host_syntax :
  forall (inet4 inet6 : bytes -> option bytes) (lower : bytes -> bytes) (udigits : bytes -> option (option Z)) (text h : bytes) (pz : option Z),
  host_sanitize inet4 inet6 lower udigits text = Some (h, pz) ->
  (is_ip6 inet6 h = true \/ is_ip4 inet4 h = true \/ (h <> [] /\ forallb (inmask HOSTNAME_CLASS) h = true)) /\
  exists s h0 ptxt,
    (s = lower text \/ s ++ [NL] = lower text) /\ (h = h0 \/ h0 = LBR :: h ++ [RBR]) /\
    match ptxt with
    | None => s = h0 /\ pz = None
    | Some ds => s = h0 ++ UriSyntax.COLON :: ds /\ port_text_ok udigits ds = true /\ exists z, port_text_val udigits ds = Some z /\ pz = Some z
    end.
Proof.
  intros until pz. intros H. apply host_sanitize_spec in H as (K & s & h0 & ptxt & _ & A & _ & B & C). split.
  - destruct K as [K|[K|K]]; auto. right. right. unfold hostname_re in K. apply andb_true_iff in K as [K1 K2].
    split; [destruct h; [discriminate | congruence] | exact K2].
  - exists s, h0, ptxt. tauto.
  Unshelve. all: try assumption.
Qed.

(* without a Host field: only below HTTP/1.1, and the URI is what the start-line hooks produced *)
Lemma final_host_absent :
  forall (valid : bytes -> bool) (inet4 inet6 idna_dec idna_enc : bytes -> option bytes) (lower : bytes -> bytes)
         (helem : bytes -> elres) (udigits : bytes -> option (option Z)) (iv vq vu v7 vn vl : variant)
         (dscheme dhost : bytes) (dport : option N) (line : bytes) (u : ruri) (m : bytes) (v : version),
  request_head valid inet4 inet6 idna_dec idna_enc lower helem udigits iv vq vu v7 vn vl dscheme dhost dport line None = FDeliver u m v ->
  ver_ltb v (1, 1) = true /\
  server_target valid inet4 inet6 idna_dec idna_enc lower iv vq vu v7 vn vl dscheme dhost dport line = Deliver u m v.
Proof.
  intros until v. intros H. apply request_head_deliver in H as (u1 & S & A).
  apply apply_host_spec in A as (_ & _ & _ & (P & ->)). split; [|exact S].
  unfold p11_of in P. apply negb_false_iff in P. exact P.
  Unshelve. all: try assumption.
Qed.

(* ... and when the target carries no scheme of its own (origin-, asterisk-, authority-form) these are the configured defaults *)
Lemma final_absent_defaults :
  forall (valid : bytes -> bool) (inet4 inet6 idna_dec idna_enc : bytes -> option bytes) (lower : bytes -> bytes)
         (helem : bytes -> elres) (udigits : bytes -> option (option Z)) (iv vq vu v7 vn vl : variant)
         (dscheme dhost : bytes) (dport : option N) (line : bytes) (u : ruri) (m : bytes) (v : version),
  lower [] = [] ->
  request_head valid inet4 inet6 idna_dec idna_enc lower helem udigits iv vq vu v7 vn vl dscheme dhost dport line None = FDeliver u m v ->
  exists target u0,
    req_parse iv line = RqTarget m target v /\ target_parse valid inet4 inet6 idna_dec vq v7 target = Ok u0 /\
    (UriNorm.u_scheme u0 = [] ->
       UriNorm.u_scheme u = dscheme /\ UriNorm.u_host u = dhost /\ port_of_int (u_dport u) dport = Ok (UriNorm.u_port u)).
Proof.
  intros until v. intros L0 H. apply final_host_absent in H as [_ S].
  eapply deliver_defaults; eauto.
  Unshelve. all: try assumption.
Qed.

(* C06_not_delivered_is_301_or_400: the other outcomes of the start-line hooks *)
Lemma final_other_outcomes :
  forall (valid : bytes -> bool) (inet4 inet6 idna_dec idna_enc : bytes -> option bytes) (lower : bytes -> bytes)
         (vq vu vn vl : variant) (dscheme dhost : bytes) (dport : option N) (line : bytes),
  match server_target valid inet4 inet6 idna_dec idna_enc lower Repaired vq vu Repaired vn vl dscheme dhost dport line with
  | Deliver _ _ _ | Bad400 => True
  | V505 => exists m target v, req_parse Repaired line = RqTarget m target v /\ ver_ltb SERVER_PROTOCOL v = true
  | Redirect301 canon loc =>
      exists m target v u0, req_parse Repaired line = RqTarget m target v /\
        target_parse valid inet4 inet6 idna_dec vq Repaired target = Ok u0 /\
        canon = UriNorm.u_path (UriNorm.normalize lower vn u0) /\ canon <> UriNorm.u_path u0 /\
        no_dot_seg canon = true /\ no_dslash canon = true /\
        normalize_path (nonnil (lower (UriNorm.u_host u0))) (nonnil (lower (UriNorm.u_scheme u0))) canon = canon /\
        location_of valid inet4 inet6 idna_dec idna_enc vq vu Repaired vl canon = Ok (Some loc)
  | Escape =>
      (* only on the as-found tree (D55), when the re-parsed Location cannot be composed: its host cannot be IDNA-encoded *)
      vl = AsFound /\
      exists canon u, uri_parse valid inet4 inet6 idna_dec vq Repaired canon = Ok u /\ uri_compose idna_enc vq vu u = None
  end.
Proof.
  intros. unfold ServerTarget.server_target.
  pose proof (req_parse_no_escape line) as NE.
  destruct (req_parse Repaired line) as [| | |m target v] eqn:R; try exact I; [congruence|].
  pose proof (uri_parse_not_uni valid inet4 inet6 idna_dec vq target) as NU.
  unfold ServerTarget.target_parse.
  destruct (uri_parse valid inet4 inet6 idna_dec vq Repaired target) as [pu|[|]] eqn:P; try exact I; [|exfalso; apply NU; reflexivity].
  set (u0 := U _ _ _ _ _ _ _ _ _).
  destruct (validate_uri m u0); [|exact I].
  pose proof (uri_hooks_spec valid inet4 inet6 idna_dec idna_enc lower vq vu Repaired vn vl dscheme dhost dport m v u0) as H.
  destruct (ServerTarget.uri_hooks _ _ _ _ _ _ _ _ _ _ _ _ _ _ m v u0) as [u' m' v'|canon loc| | |]; try exact I.
  - destruct H as ((E & NEQ & A & B) & L). exists m, target, v, u0.
    split; [reflexivity|]. split; [rewrite P; reflexivity|].
    split; [exact E|]. split; [exact NEQ|]. split; [exact A|]. split; [exact B|]. split; [|exact L].
    rewrite E. rewrite (normalize_eq lower vn u0). cbn [UriNorm.u_path]. apply normalize_path_idem.
  - exists m, target, v. split; [reflexivity | exact H].
  - destruct H as (canon & _ & L). unfold ServerTarget.location_of in L.
    destruct vl.
    2:{ exfalso. unfold uri_compose, compose_authority in L. cbn in L. destruct L as [L|L]; discriminate. }
    split; [reflexivity|]. destruct L as [L|L].
    + destruct (uri_parse valid inet4 inet6 idna_dec vq Repaired canon) as [cu|e] eqn:CP; [|discriminate].
      injection L as L. exists canon, cu. split; [exact CP | exact L].
    + exfalso.
      pose proof (uri_parse_not_uni valid inet4 inet6 idna_dec vq canon) as NU2.
      destruct (uri_parse valid inet4 inet6 idna_dec vq Repaired canon) as [cu|e]; [discriminate|].
      injection L as ->. apply NU2. reflexivity.
  Unshelve. all: try assumption.
Qed.

(* with a total IDNA encoder nothing escapes *)
Lemma final_no_escape :
  forall (valid : bytes -> bool) (inet4 inet6 idna_dec idna_enc : bytes -> option bytes) (lower : bytes -> bytes)
         (vq vu vn vl : variant) (dscheme dhost : bytes) (dport : option N) (line : bytes),
  (forall h, idna_enc h <> None) ->
  server_target valid inet4 inet6 idna_dec idna_enc lower Repaired vq vu Repaired vn vl dscheme dhost dport line <> Escape.
Proof.
  intros until line. intros T E.
  pose proof (final_other_outcomes valid inet4 inet6 idna_dec idna_enc lower vq vu vn vl dscheme dhost dport line) as H.
  rewrite E in H. destruct H as (_ & canon & u & _ & C).
  unfold uri_compose, compose_authority in C. destruct (nonempty (UriSyntax.u_host u)); [|discriminate].
  destruct (idna_enc (UriSyntax.u_host u)) eqn:I; [discriminate|]. exact (T _ I).
  Unshelve. all: try assumption.
Qed.

(* absolute-form: the redirect names a sanitised path *)
Lemma final_redirect_rooted :
  forall (valid : bytes -> bool) (inet4 inet6 idna_dec idna_enc : bytes -> option bytes) (lower : bytes -> bytes)
         (vq vu vn vl : variant) (dscheme dhost : bytes) (dport : option N) (line canon loc : bytes) (m target : bytes) (v : version) (u0 : ruri),
  server_target valid inet4 inet6 idna_dec idna_enc lower Repaired vq vu Repaired vn vl dscheme dhost dport line = Redirect301 canon loc ->
  req_parse Repaired line = RqTarget m target v ->
  target_parse valid inet4 inet6 idna_dec vq Repaired target = Ok u0 ->
  nonnil (lower (UriNorm.u_scheme u0)) = true -> nonnil (lower (UriNorm.u_host u0)) = true ->
  path_ok canon /\ canon <> STAR /\ canon <> [].
Proof.
  intros until u0. intros S R T HS HH.
  pose proof (final_other_outcomes valid inet4 inet6 idna_dec idna_enc lower vq vu vn vl dscheme dhost dport line) as H.
  rewrite S in H. destruct H as (m' & t' & v' & u0' & R' & T' & E & NE & A & B & _).
  rewrite R in R'. injection R' as <- <- <-. rewrite T in T'. injection T' as <-.
  apply (redirected_rooted lower vn u0 canon); auto. repeat split; auto.
  Unshelve. all: try assumption.
Qed.

(* ================================================================ concrete callees: witnesses and non-vacuity *)
Definition ex_none : bytes -> option bytes := fun _ => None.           (* no IP literal *)
Definition ex_id : bytes -> option bytes := fun b => Some b.           (* IDNA on ASCII names *)
Definition ex_udig : bytes -> option (option Z) := fun _ => None.      (* no non-ASCII digits *)
Definition LOCALHOST : bytes := X "6c6f63616c686f7374".
(* ServerStateMachine('http', 'localhost', 8090) on the working tree's variants *)
Definition ex_target : bytes -> outcome :=
  server_target utf8_valid ex_none ex_none ex_id ex_id lower_ascii Repaired AsFound Repaired Repaired Repaired Repaired S_HTTP_ST LOCALHOST (Some 8090).
Definition ex_head : bytes -> option bytes -> final :=
  request_head utf8_valid ex_none ex_none ex_id ex_id lower_ascii ElValue ex_udig Repaired AsFound Repaired Repaired Repaired Repaired S_HTTP_ST LOCALHOST (Some 8090).
(* ... and before the repair of D55 (the Location re-parsed) *)
Definition ex_target_asfound : bytes -> outcome :=
  server_target utf8_valid ex_none ex_none ex_id ex_id lower_ascii Repaired AsFound Repaired Repaired Repaired AsFound S_HTTP_ST LOCALHOST (Some 8090).

(* GET /a/%2e%2E/b//c/./%2fd?q HTTP/1.1 -> 301;  GET /b/c/%2fd?q=1 HTTP/1.1 + Host: Example.COM:8080 -> delivered *)
Lemma ex_deliver :
  ex_head (X "474554202f622f632f253266643f713d3120485454502f312e31") (Some (X "4578616d706c652e434f4d3a38303830"))
  = FDeliver (U (Some 80) S_HTTP_ST [] [] (X "6578616d706c652e636f6d") (Some 8080) (X "2f622f632f25326664") (X "713d31") [])
             (X "474554") (1, 1).
Proof. vm_compute. reflexivity. Qed.
Lemma ex_redirect :
  ex_target (X "474554202f612f2532652532452f622f2f632f2e2f253266643f7120485454502f312e31")
  = Redirect301 (X "2f622f632f25326664") (X "2f622f632f253235326664").
Proof. vm_compute. reflexivity. Qed.
Lemma ex_hypotheses : lower_ascii [] = [] /\ http_scheme S_HTTP_ST = true /\ (forall h, ex_id h <> None).
Proof. repeat split. intros h; discriminate. Qed.

(* D26: "Host: h:0" -- sanitize returns port 0, the delivered port is the default *)
Lemma witness_port_zero :
  exists u m v,
    ex_head (X "474554202f20485454502f312e31") (Some (X "683a30")) = FDeliver u m v /\
    host_sanitize ex_none ex_none lower_ascii ex_udig (X "683a30") = Some (X "68", Some 0%Z) /\
    UriNorm.u_port u = Some 80.
Proof. eexists _, _, _. vm_compute. repeat split. Qed.

(* D54: "GET http://evil:81/x HTTP/1.0" without Host -- delivered with the target's authority, not the configured one *)
Lemma witness_absolute_form_10 :
  exists u m v,
    ex_head (X "47455420687474703a2f2f6576696c3a38312f7820485454502f312e30") None = FDeliver u m v /\
    UriNorm.u_host u = X "6576696c" /\ UriNorm.u_port u = Some 81 /\ UriNorm.u_host u <> LOCALHOST.
Proof. eexists _, _, _. vm_compute. repeat split. discriminate. Qed.

(* D53: "GET /../a HTTP/1.1" -- 301 whose target "a" is not a sanitised path *)
Lemma witness_redirect_not_rooted :
  exists canon loc, ex_target (X "474554202f2e2e2f6120485454502f312e31") = Redirect301 canon loc /\ canon = X "61" /\ loc = X "61" /\ ~ path_ok canon.
Proof.
  eexists _, _. split; [vm_compute; reflexivity|]. split; [reflexivity|]. split; [reflexivity|].
  intros [H|[H|[H _]]]; vm_compute in H; discriminate.
Qed.

(* D55 (as found): "GET /x/../%2561 HTTP/1.1" -- the normalised path is "/%61" (a segment spelled percent-6-1), the Location says "/a" *)
Lemma witness_redirect_reparsed :
  exists canon loc, ex_target_asfound (X "474554202f782f2e2e2f253235363120485454502f312e31") = Redirect301 canon loc /\
    canon = X "2f253631" /\ loc = X "2f61" /\ unquote loc <> canon.
Proof. eexists _, _. split; [vm_compute; reflexivity|]. repeat split. vm_compute. discriminate. Qed.

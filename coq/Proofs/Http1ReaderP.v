(* What the independent RFC 7230 reader (Model/Http1Reader.v) makes of octets of a known shape:
   field lines, chunk sequences, numbers.  Nothing here mentions the composer model. *)
From Coq Require Import Lia.
From Httoop Require Import Model.Http1Reader Proofs.SplitP.
Local Open Scope N_scope.

Definition no_lf (l : bytes) : bool := forallb (fun c => negb (beq c LF)) l.

Lemma forallb_app_iff {A} (f : A -> bool) a b : forallb f (a ++ b) = true <-> forallb f a = true /\ forallb f b = true.
Proof. rewrite forallb_app, andb_true_iff. reflexivity. Qed.

Lemma no_crlf_no_lf l : rd_no_crlf l = true -> no_lf l = true.
Proof.
  unfold rd_no_crlf, no_lf. rewrite !forallb_forall. intros H x Hx. specialize (H x Hx).
  apply negb_true_iff in H. apply orb_false_iff in H as [_ H]. rewrite H. reflexivity.
Qed.

Lemma cut_CRLF_none l : no_lf l = true -> cut CRLF l = None.
Proof.
  induction l as [|c l IH]; intros H; [reflexivity|].
  cbn [no_lf forallb] in H. apply andb_true_iff in H as [Hc Hl]. cbn [cut].
  rewrite prefixb_CRLF_cons. destruct l as [|d l].
  - rewrite andb_false_r. reflexivity.
  - pose proof Hl as Hl2. cbn [forallb] in Hl. apply andb_true_iff in Hl as [Hd Hl']. apply negb_true_iff in Hd.
    rewrite (beq_sym LF d), Hd, andb_false_r. rewrite (IH Hl2). reflexivity.
Qed.

Lemma cut_CRLF_line l r : no_lf l = true -> cut CRLF (l ++ CRLF ++ r) = Some (l, r).
Proof. intros H. apply cut_CRLF_none_app, cut_CRLF_none, H. Qed.

Lemma cut1_app sep k v : forallb (fun c => negb (beq c sep)) k = true -> cut1 sep (k ++ sep :: v) = Some (k, v).
Proof.
  induction k as [|c k IH]; intros H; cbn [app cut1].
  - rewrite beq_refl. reflexivity.
  - cbn [forallb] in H. apply andb_true_iff in H as [Hc Hk]. apply negb_true_iff in Hc. rewrite Hc, (IH Hk). reflexivity.
Qed.

Lemma cut1_none sep k : forallb (fun c => negb (beq c sep)) k = true -> cut1 sep k = None.
Proof.
  induction k as [|c k IH]; intros H; [reflexivity|]. cbn [forallb] in H. apply andb_true_iff in H as [Hc Hk].
  apply negb_true_iff in Hc. cbn [cut1]. rewrite Hc, (IH Hk). reflexivity.
Qed.

(* ---- octet classes ---- *)
Lemma tchar_class c : rd_tchar c = true ->
  beq c CR = false /\ beq c LF = false /\ beq c COLON = false /\ beq c SP = false.
Proof.
  assert (A : forall c, implb (rd_tchar c) (negb (beq c CR) && negb (beq c LF) && negb (beq c COLON) && negb (beq c SP)) = true).
  { apply forall_byte. vm_compute. reflexivity. }
  intros H. specialize (A c). rewrite H in A. cbn [implb] in A.
  repeat (apply andb_true_iff in A as [A ?]). repeat split; apply negb_true_iff; assumption.
Qed.

Lemma token_class k : forallb rd_tchar k = true ->
  rd_no_crlf k = true /\ forallb (fun c => negb (beq c COLON)) k = true /\ forallb (fun c => negb (beq c SP)) k = true.
Proof.
  induction k as [|c k IH]; intros H; [repeat split; reflexivity|].
  cbn [forallb] in H. apply andb_true_iff in H as [Hc Hk]. destruct (tchar_class c Hc) as [A [B [Cc D]]].
  destruct (IH Hk) as [I1 [I2 I3]]. unfold rd_no_crlf in *. cbn [forallb]. rewrite A, B, Cc, D, I1, I2, I3. repeat split; reflexivity.
Qed.

(* ---- header section ---- *)
Definition field_ok (kv : bytes * bytes) : bool := rd_token (fst kv) && rd_no_crlf (snd kv).
Definition ser_field (kv : bytes * bytes) : bytes := fst kv ++ [COLON; SP] ++ snd kv ++ CRLF.
(* what the reader reports for a field written as  name ": " value *)
Definition read_field (kv : bytes * bytes) : bytes * bytes := (fst kv, rd_trim (SP :: snd kv)).

Lemma rd_fields_ser items : forall rest fuel, forallb field_ok items = true -> (List.length items < fuel)%nat ->
  rd_fields fuel (concat_bytes (map ser_field items) ++ CRLF ++ rest) = Some (map read_field items, rest).
Proof.
  induction items as [|[k v] items IH]; intros rest fuel Hok Hf.
  - destruct fuel as [|f]; [cbn in Hf; lia|]. cbn [map concat_bytes app rd_fields].
    change (CRLF ++ rest) with ([] ++ CRLF ++ rest). rewrite cut_CRLF_line by reflexivity. reflexivity.
  - destruct fuel as [|f]; [cbn in Hf; lia|]. cbn [forallb] in Hok. apply andb_true_iff in Hok as [Hkv Hok].
    unfold field_ok in Hkv. cbn [fst snd] in Hkv. apply andb_true_iff in Hkv as [Hk Hv].
    unfold rd_token in Hk. apply andb_true_iff in Hk as [Hne Hk]. destruct (token_class k Hk) as [K1 [K2 K3]].
    cbn [map concat_bytes rd_fields]. unfold ser_field at 1. cbn [fst snd].
    replace (((k ++ [COLON; SP] ++ v ++ CRLF) ++ concat_bytes (map ser_field items)) ++ CRLF ++ rest)
      with ((k ++ COLON :: SP :: v) ++ CRLF ++ (concat_bytes (map ser_field items) ++ CRLF ++ rest))
      by (rewrite <- !app_assoc; reflexivity).
    rewrite cut_CRLF_line.
    2:{ apply no_crlf_no_lf. unfold rd_no_crlf in *. rewrite forallb_app. cbn [forallb]. rewrite K1, Hv. reflexivity. }
    destruct k as [|c k']; [discriminate|]. cbn [app].
    change (c :: k' ++ COLON :: SP :: v) with ((c :: k') ++ COLON :: SP :: v). rewrite (cut1_app COLON (c :: k') (SP :: v) K2).
    unfold rd_token. cbn [nonempty_b]. rewrite Hk. cbn [andb].
    assert (Hsv : rd_no_crlf (SP :: v) = true) by (unfold rd_no_crlf in *; cbn [forallb]; rewrite Hv; reflexivity).
    rewrite Hsv. rewrite IH by (try assumption; cbn in Hf; lia). reflexivity.
Qed.

(* ---- chunked body ---- *)
Definition ser_chunk (hexp : N -> bytes) (d : bytes) : bytes := hexp (N.of_nat (List.length d)) ++ CRLF ++ d ++ CRLF.
Definition hex_ok (hexp : N -> bytes) : Prop :=
  forall n, rd_hex (hexp n) = Some n /\ rd_no_crlf (hexp n) = true /\ forallb (fun c => negb (beq c SEMI)) (hexp n) = true.

Lemma firstn_app_exact {A} (a b : list A) : firstn (List.length a) (a ++ b) = a.
Proof. induction a; cbn; [reflexivity | f_equal; assumption]. Qed.

Lemma rd_chunks_ser hexp : hex_ok hexp -> forall ds rest fuel,
  forallb nonempty_b ds = true -> (List.length ds < fuel)%nat ->
  rd_chunks fuel (concat_bytes (map (ser_chunk hexp) ds) ++ [x30] ++ CRLF ++ rest) = Some (concat_bytes ds, rest).
Proof.
  intros Hh. induction ds as [|d ds IH]; intros rest fuel Hne Hf.
  - destruct fuel as [|f]; [cbn in Hf; lia|]. cbn [map concat_bytes app rd_chunks].
    change (x30 :: CRLF ++ rest) with ([x30] ++ CRLF ++ rest). rewrite cut_CRLF_line by reflexivity. reflexivity.
  - destruct fuel as [|f]; [cbn in Hf; lia|]. cbn [forallb] in Hne. apply andb_true_iff in Hne as [Hd Hne].
    destruct (Hh (N.of_nat (List.length d))) as [H1 [H2 H3]].
    cbn [map concat_bytes rd_chunks]. unfold ser_chunk at 1.
    replace (((hexp (N.of_nat (List.length d)) ++ CRLF ++ d ++ CRLF) ++ concat_bytes (map (ser_chunk hexp) ds)) ++ [x30] ++ CRLF ++ rest)
      with (hexp (N.of_nat (List.length d)) ++ CRLF ++ (d ++ CRLF ++ (concat_bytes (map (ser_chunk hexp) ds) ++ [x30] ++ CRLF ++ rest)))
      by (rewrite <- !app_assoc; reflexivity).
    set (tail := concat_bytes (map (ser_chunk hexp) ds) ++ [x30] ++ CRLF ++ rest).
    rewrite cut_CRLF_line by (apply no_crlf_no_lf, H2). rewrite (cut1_none SEMI _ H3), H1.
    destruct d as [|c d']; [discriminate|]. set (dd := c :: d') in *.
    assert (Hn0 : (N.of_nat (List.length dd) =? 0) = false) by (apply N.eqb_neq; unfold dd; cbn [List.length]; lia).
    rewrite Hn0.
    assert (Hlen : (N.of_nat (List.length (dd ++ CRLF ++ tail)) <? N.of_nat (List.length dd) + 2) = false).
    { apply N.ltb_ge. rewrite !app_length. unfold CRLF. cbn [List.length]. lia. }
    rewrite Hlen, Nat2N.id.
    rewrite skipn_app_exact. rewrite prefixb_app.
    replace (skipn (List.length dd + 2) (dd ++ CRLF ++ tail)) with tail.
    2:{ replace (List.length dd + 2)%nat with (List.length (dd ++ CRLF)) by (rewrite app_length; reflexivity).
        rewrite app_assoc, skipn_app_exact. reflexivity. }
    rewrite firstn_app_exact. unfold tail. rewrite IH by (try assumption; cbn in Hf; lia). reflexivity.
Qed.

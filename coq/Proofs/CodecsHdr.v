(* Headers.compose -> Headers.parse round trip for fields composed as one line (used by the multipart and
   message/http theorems of C14).  The general collection laws belong to C08; this is the part C14 needs. *)
From Coq Require Import Permutation.
From Httoop Require Import Lib.Bytes Lib.Split Proofs.SplitP Proofs.CodecsSplit Model.Headers Proofs.HeadersP Model.Codecs.
Local Open Scope N_scope.

(* ---- well-formed header entries (boolean) ---- *)
Definition value_ok (v : bytes) : bool :=
  negb (contains CRLF v) && bytes_eqb (lstrip v) v && bytes_eqb (rstrip v) v.
Definition entry_ok (kv : bytes * bytes) : bool :=
  name_ok (fst kv) && bytes_eqb (canon (fst kv)) (fst kv) && value_ok (snd kv).
Fixpoint keys_distinct (l : hdrs) : bool :=
  match l with
  | [] => true
  | kv :: r => negb (hmem (fst kv) r) && keys_distinct r
  end.
Definition hdrs_wf (l : hdrs) : bool := forallb entry_ok l && keys_distinct l.

(* ---- table facts about the field-name class ---- *)
Lemma bad_ws_colon c : is_bws c || beq c COLON = true -> inmask HEADER_RE_BAD c = true.
Proof.
  revert c. assert (H : forall c, implb (is_bws c || beq c COLON) (inmask HEADER_RE_BAD c) = true).
  { apply forall_byte. vm_compute. reflexivity. }
  intros c Hc. specialize (H c). rewrite Hc in H. exact H.
Qed.

Lemma not_bws_not_sp c : is_bws c = false -> beq c SP || beq c HT = false.
Proof.
  revert c. assert (H : forall c, implb (beq c SP || beq c HT) (is_bws c) = true).
  { apply forall_byte. vm_compute. reflexivity. }
  intros c Hc. specialize (H c). destruct (beq c SP || beq c HT); [cbn in H; congruence | reflexivity].
Qed.

Lemma name_ok_chars k : name_ok k = true -> forall c, In c k -> is_bws c = false /\ beq c COLON = false.
Proof.
  unfold name_ok. rewrite negb_true_iff. intros H c Hc.
  destruct (is_bws c || beq c COLON) eqn:E.
  - apply bad_ws_colon in E. assert (existsb (inmask HEADER_RE_BAD) k = true) by (apply existsb_exists; eauto). congruence.
  - apply orb_false_iff in E. exact E.
Qed.

(* ---- string helpers ---- *)
Lemma cut1_app sep k rest : (forall c, In c k -> beq c sep = false) -> cut1 sep (k ++ sep :: rest) = Some (k, rest).
Proof.
  induction k as [|x k IH]; intros H; cbn [app cut1].
  - rewrite beq_refl. reflexivity.
  - rewrite (H x (or_introl eq_refl)), IH; [reflexivity|]. intros c Hc. apply H. right. exact Hc.
Qed.

Lemma lstrip_by_id p l : (forall c, In c l -> p c = false) -> lstrip_by p l = l.
Proof. destruct l as [|x l]; intros H; cbn; [reflexivity|]. rewrite (H x (or_introl eq_refl)). reflexivity. Qed.

Lemma strip_by_id p l : (forall c, In c l -> p c = false) -> strip_by p l = l.
Proof.
  intros H. unfold strip_by, rstrip_by. rewrite (lstrip_by_id p l H), lstrip_by_id, rev_involutive; [reflexivity|].
  intros c Hc. apply H. apply in_rev. exact Hc.
Qed.

Lemma cut_CRLF_cons c l : beq CR c = false ->
  cut CRLF (c :: l) = match cut CRLF l with Some (a, b) => Some (c :: a, b) | None => None end.
Proof.
  intros H. change (cut CRLF (c :: l)) with
    (if prefixb CRLF (c :: l) then Some ([], skipn (length CRLF) (c :: l))
     else match cut CRLF l with Some (a, b) => Some (c :: a, b) | None => None end).
  rewrite prefixb_CRLF_cons, H. reflexivity.
Qed.

Lemma cut_CRLF_app_noCR a b : (forall c, In c a -> beq CR c = false) -> cut CRLF b = None -> cut CRLF (a ++ b) = None.
Proof.
  induction a as [|x a IH]; intros H Hb; [exact Hb|].
  cbn [app]. rewrite cut_CRLF_cons, IH; [reflexivity| |exact Hb|]; [intros c Hc|]; apply H; [right; exact Hc | left; reflexivity].
Qed.

(* ---- one line ---- *)
Lemma hline_unfold k v : hline (k, v) = k ++ COLON :: SP :: v.
Proof. reflexivity. Qed.

Lemma value_ok_inv v : value_ok v = true -> cut CRLF v = None /\ lstrip v = v /\ rstrip v = v.
Proof.
  unfold value_ok. intros H. apply andb_true_iff in H as [H H3]. apply andb_true_iff in H as [H1 H2].
  apply negb_true_iff, contains_false_cut in H1. apply bytes_eqb_eq in H2. apply bytes_eqb_eq in H3. auto.
Qed.

Lemma entry_ok_inv kv : entry_ok kv = true -> name_ok (fst kv) = true /\ canon (fst kv) = fst kv /\ value_ok (snd kv) = true.
Proof.
  unfold entry_ok. intros H. apply andb_true_iff in H as [H H3]. apply andb_true_iff in H as [H1 H2].
  apply bytes_eqb_eq in H2. auto.
Qed.

Lemma parse_line_hline kv : entry_ok kv = true -> parse_line (hline kv) = Some kv.
Proof.
  destruct kv as [k v]. intros H. apply entry_ok_inv in H as (Hn & _ & Hv). cbn [fst snd] in *.
  apply value_ok_inv in Hv as (_ & Hl & _).
  pose proof (name_ok_chars k Hn) as Hc.
  unfold parse_line. rewrite hline_unfold, cut1_app; [|intros c Hin; apply Hc, Hin].
  rewrite Hn. unfold strip. rewrite strip_by_id; [|intros c Hin; apply Hc, Hin].
  change (lstrip (SP :: v)) with (lstrip v). rewrite Hl. reflexivity.
Qed.

Lemma starts_ws_hline kv : entry_ok kv = true -> starts_ws (hline kv) = false.
Proof.
  destruct kv as [k v]. intros H. apply entry_ok_inv in H as (Hn & _ & _). cbn [fst] in Hn.
  pose proof (name_ok_chars k Hn) as Hc. rewrite hline_unfold. destruct k as [|c k]; [reflexivity|].
  cbn [app starts_ws]. apply not_bws_not_sp. apply (Hc c). left. reflexivity.
Qed.

Lemma cut_CRLF_hline kv : entry_ok kv = true -> cut CRLF (hline kv) = None.
Proof.
  destruct kv as [k v]. intros H. apply entry_ok_inv in H as (Hn & _ & Hv). cbn [fst snd] in *.
  apply value_ok_inv in Hv as (Hv & _ & _). pose proof (name_ok_chars k Hn) as Hc.
  rewrite hline_unfold. apply cut_CRLF_app_noCR.
  - intros c Hin. destruct (Hc c Hin) as [Hw _]. destruct (beq CR c) eqn:E; [|reflexivity].
    apply beq_eq in E. subst c. vm_compute in Hw. discriminate.
  - rewrite cut_CRLF_cons by reflexivity. rewrite cut_CRLF_cons by reflexivity. rewrite Hv. reflexivity.
Qed.

(* ---- the collection ---- *)
Lemma hset_absent k v h : hget k h = None -> hset k v h = h ++ [(k, v)].
Proof.
  induction h as [|[k' v'] h IH]; cbn [hget hset app]; [reflexivity|].
  destruct (bytes_eqb k k'); [discriminate|]. intros H. rewrite (IH H). reflexivity.
Qed.

Lemma hget_app_other k k' v' h : hget k h = None -> k <> k' -> hget k (h ++ [(k', v')]) = None.
Proof.
  induction h as [|[k2 v2] h IH]; cbn [hget app]; intros H Hne.
  - rewrite bytes_eqb_neq by exact Hne. reflexivity.
  - destruct (bytes_eqb k k2); [discriminate|]. apply IH; assumption.
Qed.

Lemma hmem_false_in k l : hmem k l = false -> forall kv, In kv l -> fst kv <> k.
Proof.
  unfold hmem. induction l as [|[k' v'] l IH]; intros H kv Hin; [destruct Hin|].
  cbn [hget] in H. destruct (bytes_eqb k k') eqn:E; [discriminate|].
  destruct Hin as [<-|Hin].
  - cbn [fst]. intros ->. rewrite bytes_eqb_refl in E. discriminate.
  - apply IH; assumption.
Qed.

Lemma commit_fresh h k v : canon k = k -> rstrip v = v -> hget k h = None -> commit h (Some (k, v)) = h ++ [(k, v)].
Proof. intros Hc Hr Hg. unfold commit. rewrite Hr, Hc, Hg. apply hset_absent, Hg. Qed.

Lemma hparse_lines_entries rest : forall h k v,
  entry_ok (k, v) = true -> forallb entry_ok rest = true -> keys_distinct ((k, v) :: rest) = true ->
  (forall kv, In kv ((k, v) :: rest) -> hget (fst kv) h = None) ->
  hparse_lines h (Some (k, v)) (map hline rest) = Some (h ++ (k, v) :: rest).
Proof.
  induction rest as [|[k2 v2] rest IH]; intros h k v He Hr Hd Hh.
  - cbn [map hparse_lines]. apply entry_ok_inv in He as (_ & Hc & Hv). apply value_ok_inv in Hv as (_ & _ & Hv).
    cbn [fst snd] in *. rewrite commit_fresh; auto. apply (Hh (k, v)). left. reflexivity.
  - cbn [forallb] in Hr. apply andb_true_iff in Hr as [He2 Hr].
    cbn [keys_distinct fst] in Hd. apply andb_true_iff in Hd as [Hk Hd]. apply negb_true_iff in Hk.
    cbn [map hparse_lines]. rewrite (starts_ws_hline _ He2), (parse_line_hline _ He2).
    pose proof He as He'. apply entry_ok_inv in He' as (_ & Hc & Hv). apply value_ok_inv in Hv as (_ & _ & Hv).
    cbn [fst snd] in *. rewrite commit_fresh; auto; [|apply (Hh (k, v)); left; reflexivity].
    rewrite (IH (h ++ [(k, v)]) k2 v2 He2 Hr Hd).
    + rewrite <- app_assoc. reflexivity.
    + intros kv Hin. apply hget_app_other; [apply Hh; right; exact Hin|].
      apply (hmem_false_in _ _ Hk). exact Hin.
Qed.

(* Headers().parse(block) returns the entries of a well-formed non-empty block, in order *)
Theorem hparse_hblock l : l <> [] -> hdrs_wf l = true -> hparse [] (hblock_of l) = Some l.
Proof.
  intros Hne H. unfold hdrs_wf in H. apply andb_true_iff in H as [Hf Hd].
  unfold hparse, hblock_of. rewrite split_all_join_CRLF.
  - destruct l as [|[k v] rest]; [congruence|]. cbn [forallb] in Hf. apply andb_true_iff in Hf as [He Hr].
    cbn [map hparse_lines]. rewrite (parse_line_hline _ He).
    rewrite (hparse_lines_entries rest [] k v He Hr Hd); [reflexivity|]. reflexivity.
  - destruct l; [congruence | discriminate].
  - apply Forall_forall. intros x Hx. apply in_map_iff in Hx as (kv & <- & Hin).
    apply cut_CRLF_hline. rewrite forallb_forall in Hf. apply Hf, Hin.
Qed.

(* bytes(headers) = block CRLF CRLF *)
Lemma hcompose_sorted_block l : l <> [] -> hcompose_sorted l = hblock_of l ++ CRLF2.
Proof.
  intros Hne. unfold hcompose_sorted, hblock_of, CRLF2.
  induction l as [|kv l IH]; [congruence|]. destruct l as [|kv2 l].
  - cbn [map concat_bytes join_with]. unfold hline_crlf. rewrite app_nil_r. symmetry. apply app_assoc.
  - change (join_with CRLF (map hline (kv :: kv2 :: l))) with (hline kv ++ CRLF ++ join_with CRLF (map hline (kv2 :: l))).
    change (concat_bytes (map hline_crlf (kv :: kv2 :: l))) with (hline_crlf kv ++ concat_bytes (map hline_crlf (kv2 :: l))).
    unfold hline_crlf at 1. rewrite <- !app_assoc. f_equal. f_equal. rewrite <- IH by discriminate.
    reflexivity.
Qed.

Lemma hcompose_sorted_nil : hcompose_sorted [] = CRLF.
Proof. reflexivity. Qed.

(* the first empty line of  block CRLF CRLF rest  is the end of the block *)
Lemma cut_CRLF2_after_line rest : cut CRLF2 (CRLF ++ rest) = None ->
  forall a, cut CRLF a = None -> cut CRLF2 (a ++ CRLF ++ rest) = None.
Proof.
  intros Hrest a. induction a as [|x a IHa]; intros Ha; [exact Hrest|].
  cbn [app]. cbn [cut] in Ha. destruct (prefixb CRLF (x :: a)) eqn:P; [discriminate|].
  destruct (cut CRLF a) as [[? ?]|] eqn:Ca; [discriminate|].
  change (cut CRLF2 (x :: a ++ CRLF ++ rest)) with
    (if prefixb CRLF2 (x :: a ++ CRLF ++ rest) then Some ([], skipn (length CRLF2) (x :: a ++ CRLF ++ rest))
     else match cut CRLF2 (a ++ CRLF ++ rest) with Some (a0, b) => Some (x :: a0, b) | None => None end).
  rewrite (IHa eq_refl).
  assert (P2 : prefixb CRLF2 (x :: a ++ CRLF ++ rest) = false).
  { clear -P. unfold CRLF2, CRLF in *. cbn [app prefixb] in *. destruct (beq CR x) eqn:E1; [|reflexivity]. cbn [andb] in *.
    destruct a as [|y a]; cbn [app prefixb] in *.
    - reflexivity.
    - destruct (beq LF y) eqn:E2; [|reflexivity]. cbn [andb] in P. discriminate. }
  rewrite P2. reflexivity.
Qed.

Lemma cut_CRLF2_CRLF_noCR c rest : beq CR c = false -> cut CRLF2 (c :: rest) = None -> cut CRLF2 (CRLF ++ c :: rest) = None.
Proof.
  intros Hc Hrest. unfold CRLF2, CRLF in *. cbn [app] in *.
  change (cut [CR; LF; CR; LF] (CR :: LF :: c :: rest)) with
    (if prefixb [CR; LF; CR; LF] (CR :: LF :: c :: rest) then Some ([], skipn 4 (CR :: LF :: c :: rest))
     else match cut [CR; LF; CR; LF] (LF :: c :: rest) with Some (a, b) => Some (CR :: a, b) | None => None end).
  cbn [prefixb]. rewrite !beq_refl, Hc. cbn [andb].
  change (cut [CR; LF; CR; LF] (LF :: c :: rest)) with
    (if prefixb [CR; LF; CR; LF] (LF :: c :: rest) then Some ([], skipn 4 (LF :: c :: rest))
     else match cut [CR; LF; CR; LF] (c :: rest) with Some (a, b) => Some (LF :: a, b) | None => None end).
  cbn [prefixb]. replace (beq CR LF) with false by reflexivity. cbn [andb].
  rewrite Hrest. reflexivity.
Qed.

Lemma hline_first_noCR kv tail : entry_ok kv = true ->
  exists c r, hline kv ++ tail = c :: r /\ beq CR c = false.
Proof.
  destruct kv as [k v]. intros H. apply entry_ok_inv in H as (Hn & _ & _). cbn [fst] in Hn.
  pose proof (name_ok_chars k Hn) as Hk. rewrite hline_unfold. destruct k as [|c k].
  - cbn [app]. eexists _, _. split; reflexivity.
  - cbn [app]. exists c. eexists. split; [reflexivity|]. destruct (Hk c (or_introl eq_refl)) as [Hw _].
    destruct (beq CR c) eqn:E; [|reflexivity]. apply beq_eq in E. subst c. vm_compute in Hw. discriminate.
Qed.

Lemma hblock_no_early l : hdrs_wf l = true -> no_early CRLF2 (hblock_of l) = true.
Proof.
  intros H. unfold hdrs_wf in H. apply andb_true_iff in H as [Hf _].
  unfold no_early. rewrite negb_true_iff, contains_false_cut.
  change (removelast CRLF2) with [CR; LF; CR]. unfold hblock_of.
  induction l as [|kv l IH]; [reflexivity|].
  cbn [forallb] in Hf. apply andb_true_iff in Hf as [He Hf].
  pose proof (cut_CRLF_hline _ He) as Hc.
  destruct l as [|kv2 l].
  - cbn [map join_with]. change [CR; LF; CR] with (CRLF ++ [CR]).
    apply cut_CRLF2_after_line; [reflexivity | exact Hc].
  - change (join_with CRLF (map hline (kv :: kv2 :: l))) with (hline kv ++ CRLF ++ join_with CRLF (map hline (kv2 :: l))).
    rewrite <- !app_assoc. apply cut_CRLF2_after_line; [|exact Hc].
    specialize (IH Hf). cbn [forallb] in Hf. apply andb_true_iff in Hf as [He2 _].
    assert (exists c r, join_with CRLF (map hline (kv2 :: l)) ++ [CR; LF; CR] = c :: r /\ beq CR c = false) as (c & r & E & Ec).
    { destruct l as [|kv3 l].
      - cbn [map join_with]. apply hline_first_noCR, He2.
      - change (join_with CRLF (map hline (kv2 :: kv3 :: l))) with (hline kv2 ++ CRLF ++ join_with CRLF (map hline (kv3 :: l))).
        rewrite <- app_assoc. apply hline_first_noCR, He2. }
    rewrite E in *. apply cut_CRLF2_CRLF_noCR; assumption.
Qed.

(* a block that parses does not begin with an empty line *)
Lemma hparse_not_crlf_prefix blk h : hparse [] blk = Some h -> prefixb CRLF blk = false /\ blk <> [].
Proof.
  intros H. split.
  - destruct (prefixb CRLF blk) eqn:P; [|reflexivity]. exfalso.
    apply prefixb_spec in P as [r ->]. unfold hparse in H.
    rewrite (split_all_cut CRLF _ [] r) in H; [|discriminate|].
    + cbn [hparse_lines] in H. unfold parse_line in H. cbn [cut1] in H. discriminate.
    + change (CRLF ++ r) with ([] ++ CRLF ++ r). apply cut_CRLF_none_app. reflexivity.
  - intros ->. vm_compute in H. discriminate.
Qed.

(* ---- sorting ---- *)
Lemma hinsert_perm x l : Permutation (hinsert x l) (x :: l).
Proof.
  induction l as [|y l IH]; cbn [hinsert]; [reflexivity|].
  destruct (bytes_leb (sort_key (fst x)) (sort_key (fst y))); [reflexivity|].
  rewrite IH. apply perm_swap.
Qed.

Lemma hsort_perm h : Permutation (hsort h) h.
Proof.
  induction h as [|x h IH]; cbn [hsort fold_right]; [reflexivity|].
  fold (hsort h). rewrite hinsert_perm, IH. reflexivity.
Qed.

Lemma keys_distinct_nodup l : keys_distinct l = true <-> NoDup (map fst l).
Proof.
  induction l as [|[k v] l IH]; cbn [keys_distinct map fst].
  - split; [constructor | reflexivity].
  - rewrite andb_true_iff, negb_true_iff, IH. split.
    + intros [H1 H2]. constructor; [|exact H2]. intros Hin. apply in_map_iff in Hin as (kv & E & Hin).
      apply (hmem_false_in _ _ H1 kv Hin). exact E.
    + intros H. inversion H as [|? ? Hn Hd]; subst. split; [|exact Hd].
      unfold hmem. destruct (hget k l) eqn:G; [|reflexivity]. exfalso. apply Hn.
      clear -G. induction l as [|[k' v'] l IH]; [discriminate|]. cbn [hget] in G. cbn [map fst].
      destruct (bytes_eqb k k') eqn:E; [left; apply bytes_eqb_eq in E; congruence | right; apply IH, G].
Qed.

Lemma hdrs_wf_perm l l' : Permutation l l' -> hdrs_wf l = true -> hdrs_wf l' = true.
Proof.
  intros P H. unfold hdrs_wf in *. apply andb_true_iff in H as [Hf Hd]. apply andb_true_iff. split.
  - rewrite forallb_forall in *. intros x Hx. apply Hf. apply (Permutation_in _ (Permutation_sym P) Hx).
  - apply keys_distinct_nodup. apply keys_distinct_nodup in Hd.
    apply (Permutation_NoDup (Permutation_map fst P) Hd).
Qed.

Lemma hdrs_wf_hsort h : hdrs_wf h = true -> hdrs_wf (hsort h) = true.
Proof. apply hdrs_wf_perm. apply Permutation_sym, hsort_perm. Qed.

Lemma hsort_nil_iff h : hsort h = [] <-> h = [].
Proof.
  split; [|intros ->; reflexivity]. intros H. pose proof (hsort_perm h) as P. rewrite H in P.
  apply Permutation_nil in P. exact P.
Qed.

(* Lemmas about Model/UriNorm.v: normalize, construction, equality and join at the level of the eight slots. *)
From Httoop Require Import Lib.Bytes Lib.Variant Gen.UriNormT Model.UriPath Model.UriNorm Proofs.UriPath.
Local Open Scope N_scope.

(* ---------- boolean equalities reflect Leibniz equality ---------- *)
Lemma optN_eqb_eq a b : optN_eqb a b = true <-> a = b.
Proof.
  destruct a as [x|], b as [y|]; cbn; split; try congruence; try discriminate.
  - intros H. apply N.eqb_eq in H. congruence.
  - intros H. injection H as ->. apply N.eqb_refl.
Qed.

Definition slots (u : nuri) := (u_scheme u, u_user u, u_pass u, u_host u, u_port u, u_path u, u_query u, u_frag u).

Lemma tuple_eqb_eq a b : tuple_eqb a b = true <-> slots a = slots b.
Proof.
  unfold tuple_eqb, slots. split.
  - intros H. repeat (apply andb_true_iff in H as [H ?]).
    repeat match goal with
    | H : bytes_eqb _ _ = true |- _ => apply bytes_eqb_eq in H
    | H : optN_eqb _ _ = true |- _ => apply optN_eqb_eq in H
    end. congruence.
  - intros H. injection H as -> -> -> -> -> -> -> ->.
    rewrite !bytes_eqb_refl. replace (optN_eqb (u_port b) (u_port b)) with true by (symmetry; apply optN_eqb_eq; reflexivity).
    reflexivity.
Qed.

Lemma uri_eqb_eq a b : uri_eqb a b = true <-> a = b.
Proof.
  unfold uri_eqb. split.
  - intros H. apply andb_true_iff in H as [H1 H2]. apply optN_eqb_eq in H1. apply tuple_eqb_eq in H2.
    destruct a, b. unfold slots in H2. cbn in *. congruence.
  - intros ->. apply andb_true_iff. split; [apply optN_eqb_eq | apply tuple_eqb_eq]; reflexivity.
Qed.

(* ---------- table lemmas (re-checked against the regenerated registry on every run) ---------- *)
Definition S_HTTP : bytes := [x68; x74; x74; x70].
Definition S_HTTPS : bytes := [x68; x74; x74; x70; x73].

Lemma class_port_http : class_port S_HTTP = Some 80 /\ class_port S_HTTPS = Some 443.
Proof. split; vm_compute; reflexivity. Qed.

Lemma scheme_keys_lower : forallb (fun kv => bytes_eqb (lower_ascii (fst kv)) (fst kv)) SCHEME_PORTS = true.
Proof. vm_compute. reflexivity. Qed.

Lemma scheme_ports_valid :
  forallb (fun kv => match snd kv with Some n => (1 <=? n) && (n <=? 65535) | None => true end) SCHEME_PORTS = true.
Proof. vm_compute. reflexivity. Qed.

Lemma lower_byte_idem c : lower_byte (lower_byte c) = lower_byte c.
Proof.
  apply beq_eq. revert c. apply forall_byte. vm_compute. reflexivity.
Qed.

Lemma lower_ascii_idem s : lower_ascii (lower_ascii s) = lower_ascii s.
Proof. unfold lower_ascii. rewrite map_map. apply map_ext. intros c. apply lower_byte_idem. Qed.

Lemma lower_ascii_nonnil s : nonnil (lower_ascii s) = nonnil s.
Proof. destruct s; reflexivity. Qed.

(* ---------- normalize in normal form ---------- *)
Lemma port_or_idem p d : port_or (port_or p d) d = port_or p d.
Proof. destruct p, d; reflexivity. Qed.
Lemma port_or_same d : port_or d d = d.
Proof. destruct d; reflexivity. Qed.

Section Lower.
Variable lower : bytes -> bytes.

Definition norm_dport (u : nuri) : option N :=
  if nonnil (lower (u_scheme u)) then class_port (lower (u_scheme u)) else u_dport u.

Lemma normalize_eq v u :
  normalize lower v u =
  U (norm_dport u) (lower (u_scheme u)) (u_user u) (u_pass u) (lower (u_host u))
    (match v with AsFound => u_port u | Repaired => port_or (u_port u) (norm_dport u) end)
    (normalize_path (nonnil (lower (u_host u))) (nonnil (lower (u_scheme u))) (u_path u))
    (u_query u) (u_frag u).
Proof.
  destruct u as [dp s us pw h po pa q f]. unfold normalize, norm_dport, set_scheme, set_host, set_port, set_path, get_port.
  cbn [u_dport u_scheme u_user u_pass u_host u_port u_path u_query u_frag].
  set (dp1 := if nonnil (lower s) then class_port (lower s) else dp).
  destruct v; destruct po as [n|]; destruct dp1 as [d|]; reflexivity.
Qed.

Hypothesis lower_idem : forall s, lower (lower s) = lower s.

Theorem normalize_idem v u : normalize lower v (normalize lower v u) = normalize lower v u.
Proof.
  rewrite (normalize_eq v (normalize lower v u)). rewrite (normalize_eq v u).
  unfold norm_dport. cbn [u_dport u_scheme u_user u_pass u_host u_port u_path u_query u_frag].
  rewrite !lower_idem. fold (norm_dport u).
  assert (E : (if nonnil (lower (u_scheme u)) then class_port (lower (u_scheme u)) else norm_dport u) = norm_dport u).
  { unfold norm_dport. destruct (nonnil (lower (u_scheme u))); reflexivity. }
  rewrite E, normalize_path_idem. destruct v; [reflexivity|]. rewrite port_or_idem. reflexivity.
Qed.

Theorem normalize_path_props v u :
  no_dot_seg (u_path (normalize lower v u)) = true /\ no_dslash (u_path (normalize lower v u)) = true.
Proof. rewrite normalize_eq. cbn [u_path]. apply normalize_path_ok. Qed.

Theorem normalize_rfc v u :
  nonnil (lower (u_scheme u)) = true -> nonnil (lower (u_host u)) = true -> starts_slash (u_path u) = true ->
  rfc_rds (collapse (u_path u)) = Some (u_path (normalize lower v u)).
Proof.
  intros Hs Hh Hp. rewrite normalize_eq. cbn [u_path]. rewrite Hs, Hh. apply normalize_path_rfc, Hp.
Qed.

Theorem normalize_lowercase v u :
  u_scheme (normalize lower v u) = lower (u_scheme u) /\ u_host (normalize lower v u) = lower (u_host u) /\
  lower (u_scheme (normalize lower v u)) = u_scheme (normalize lower v u) /\
  lower (u_host (normalize lower v u)) = u_host (normalize lower v u).
Proof. rewrite normalize_eq. cbn [u_scheme u_host]. rewrite !lower_idem. repeat split. Qed.

Theorem normalize_rest v u :
  u_user (normalize lower v u) = u_user u /\ u_pass (normalize lower v u) = u_pass u /\
  u_query (normalize lower v u) = u_query u /\ u_frag (normalize lower v u) = u_frag u.
Proof. rewrite normalize_eq. repeat split. Qed.

(* default port explicit: the repaired normalize *)
Theorem default_port_repaired u : nonnil (lower (u_scheme u)) = true ->
  u_port (normalize lower Repaired u) = port_or (u_port u) (class_port (lower (u_scheme u))).
Proof. intros H. rewrite normalize_eq. cbn [u_port]. unfold norm_dport. rewrite H. reflexivity. Qed.

Corollary default_port_explicit_repaired u : nonnil (lower (u_scheme u)) = true ->
  is_some (class_port (lower (u_scheme u))) = true -> is_some (u_port (normalize lower Repaired u)) = true.
Proof.
  intros H1 H2. rewrite (default_port_repaired u H1). destruct (u_port u); [reflexivity | exact H2].
Qed.

(* the pinned tree: explicit only when the scheme was already lower-case at construction time *)
Theorem default_port_asfound_partial d0 t : nonnil (u_scheme t) = true -> lower (u_scheme t) = u_scheme t ->
  u_port (normalize lower AsFound (construct d0 t)) = port_or (u_port t) (class_port (lower (u_scheme t))).
Proof.
  intros H1 H2. rewrite normalize_eq. unfold construct, set_scheme, set_port, fresh.
  cbn [u_port u_dport u_scheme]. rewrite H1, H2. reflexivity.
Qed.

(* ---------- construction ---------- *)
Lemma construct_d0_irrel d0 d1 t : nonnil (u_scheme t) = true -> construct d0 t = construct d1 t.
Proof.
  intros H. unfold construct, set_scheme, set_port, fresh.
  cbn [u_port u_dport u_scheme u_user u_pass u_host u_path u_query u_frag]. rewrite H. reflexivity.
Qed.

Lemma construct_eq d0 t :
  construct d0 t =
  let dp := if nonnil (u_scheme t) then class_port (u_scheme t) else d0 in
  U dp (u_scheme t) (u_user t) (u_pass t) (u_host t) (port_or (u_port t) dp) (u_path t) (u_query t) (u_frag t).
Proof. reflexivity. Qed.

(* ---------- equality is the kernel of normalize-after-construct ---------- *)
Theorem uri_eq_iff v d0 a b :
  uri_eq lower v d0 a b = true <->
  slots (normalize lower v (construct d0 a)) = slots (normalize lower v (construct d0 b)).
Proof. unfold uri_eq. apply tuple_eqb_eq. Qed.

Theorem uri_eq_refl v d0 a : uri_eq lower v d0 a a = true.
Proof. apply uri_eq_iff. reflexivity. Qed.

Theorem uri_eq_sym v d0 a b : uri_eq lower v d0 a b = uri_eq lower v d0 b a.
Proof.
  destruct (uri_eq lower v d0 a b) eqn:E1, (uri_eq lower v d0 b a) eqn:E2; try reflexivity.
  - apply uri_eq_iff in E1. symmetry in E1. apply uri_eq_iff in E1. congruence.
  - apply uri_eq_iff in E2. symmetry in E2. apply uri_eq_iff in E2. congruence.
Qed.

Theorem uri_eq_trans v d0 a b c :
  uri_eq lower v d0 a b = true -> uri_eq lower v d0 b c = true -> uri_eq lower v d0 a c = true.
Proof. rewrite !uri_eq_iff. congruence. Qed.

(* the class whose __eq__ runs does not matter when both URIs have a scheme *)
Theorem uri_eq_class_irrel v d0 d1 a b : nonnil (u_scheme a) = true -> nonnil (u_scheme b) = true ->
  uri_eq lower v d0 a b = uri_eq lower v d1 a b.
Proof.
  intros Ha Hb. unfold uri_eq. rewrite (construct_d0_irrel d0 d1 a Ha), (construct_d0_irrel d0 d1 b Hb). reflexivity.
Qed.

(* equality spelled out on the components (repaired normalize; both URIs with a scheme) *)
Definition eff_port (u : nuri) : option N :=
  port_or (port_or (u_port u) (class_port (u_scheme u))) (class_port (lower (u_scheme u))).
Definition norm_components (u : nuri) :=
  (lower (u_scheme u), u_user u, u_pass u, lower (u_host u), eff_port u,
   normalize_path (nonnil (lower (u_host u))) (nonnil (lower (u_scheme u))) (u_path u), u_query u, u_frag u).

Hypothesis lower_nonnil : forall s, nonnil (lower s) = nonnil s.

Theorem uri_eq_components d0 a b : nonnil (u_scheme a) = true -> nonnil (u_scheme b) = true ->
  (uri_eq lower Repaired d0 a b = true <-> norm_components a = norm_components b).
Proof.
  intros Ha Hb. rewrite uri_eq_iff, !normalize_eq. unfold slots, norm_components, eff_port, norm_dport.
  rewrite !construct_eq. cbn [u_dport u_scheme u_user u_pass u_host u_port u_path u_query u_frag].
  rewrite !lower_nonnil, Ha, Hb. tauto.
Qed.
End Lower.

Theorem default_port_asfound_refuted :
  exists t, nonnil (u_scheme t) = true /\ nonnil (u_host t) = true /\
    class_port (lower_ascii (u_scheme t)) = Some 80 /\
    u_port (normalize lower_ascii AsFound (construct BASE_PORT t)) = None.
Proof.
  exists (U None [x48; x54; x54; x50] [] [] [x68] None [SL] [] []). repeat split; vm_compute; reflexivity.
Qed.

(* pinned tree: == does NOT agree with the normalised components (same finding D30):
   URI(scheme='HTTP', host='h', path='/b') against URI(b'http://h/b') *)
Definition w_eq_a : nuri := U None [x48; x54; x54; x50] [] [] [x68] None [SL; x62] [] [].
Definition w_eq_b : nuri := U None [x68; x74; x74; x70] [] [] [x68] None [SL; x62] [] [].
Theorem uri_eq_asfound_refuted :
  norm_components lower_ascii w_eq_a = norm_components lower_ascii w_eq_b /\
  uri_eq lower_ascii AsFound BASE_PORT w_eq_a w_eq_b = false /\
  uri_eq lower_ascii Repaired BASE_PORT w_eq_a w_eq_b = true.
Proof. repeat split; vm_compute; reflexivity. Qed.

(* Lemmas about the shared pieces of the authentication models (Model/AuthCommon.v). *)
From Httoop Require Import Lib.Bytes Lib.Variant Gen.AuthT Model.AuthCommon.
Local Open Scope N_scope.

Definition absent (x : byte) (l : bytes) : bool := forallb (fun c => negb (beq c x)) l.

Lemma absent_app x a b : absent x (a ++ b) = absent x a && absent x b.
Proof. apply forallb_app. Qed.

Lemma absent_cons x c l : absent x (c :: l) = negb (beq c x) && absent x l.
Proof. reflexivity. Qed.

(* ---------- cut1 / split1 / partition1 ---------- *)
Lemma cut1_app x a b : absent x a = true -> cut1 x (a ++ x :: b) = Some (a, b).
Proof.
  induction a as [|c a IH]; cbn [app cut1]; intros H.
  - rewrite beq_refl. reflexivity.
  - rewrite absent_cons in H. apply andb_true_iff in H as [H1 H2]. apply negb_true_iff in H1.
    rewrite H1, (IH H2). reflexivity.
Qed.

Lemma cut1_absent x a : absent x a = true -> cut1 x a = None.
Proof.
  induction a as [|c a IH]; cbn [cut1]; intros H; [reflexivity|].
  rewrite absent_cons in H. apply andb_true_iff in H as [H1 H2]. apply negb_true_iff in H1.
  rewrite H1, (IH H2). reflexivity.
Qed.

Lemma partition1_app x a b : absent x a = true -> partition1 x (a ++ x :: b) = (a, b).
Proof. intros H. unfold partition1. rewrite (cut1_app x a b H). reflexivity. Qed.

Lemma partition1_absent x a : absent x a = true -> partition1 x a = (a, []).
Proof. intros H. unfold partition1. rewrite (cut1_absent x a H). reflexivity. Qed.

Lemma split1_nonnil x l : split1 x l <> [].
Proof. destruct l as [|c r]; cbn; [congruence|]. destruct (beq c x); [congruence|]. destruct (split1 x r); congruence. Qed.

Lemma split1_absent x a : absent x a = true -> split1 x a = [a].
Proof.
  induction a as [|c a IH]; cbn [split1]; intros H; [reflexivity|].
  rewrite absent_cons in H. apply andb_true_iff in H as [H1 H2]. apply negb_true_iff in H1.
  rewrite H1, (IH H2). reflexivity.
Qed.

Lemma split1_app x a b : absent x a = true -> split1 x (a ++ x :: b) = a :: split1 x b.
Proof.
  induction a as [|c a IH]; cbn [app split1]; intros H.
  - rewrite beq_refl. reflexivity.
  - rewrite absent_cons in H. apply andb_true_iff in H as [H1 H2]. apply negb_true_iff in H1.
    rewrite H1, (IH H2). reflexivity.
Qed.

(* ---------- strip ---------- *)
Definition head_ok (p : byte -> bool) (l : bytes) : bool := match l with [] => true | c :: _ => negb (p c) end.
Definition ends_ok (p : byte -> bool) (l : bytes) : bool := head_ok p l && head_ok p (rev l).

Lemma lstrip_by_id p l : head_ok p l = true -> lstrip_by p l = l.
Proof. destruct l as [|c r]; cbn; [reflexivity|]. intros H. apply negb_true_iff in H. rewrite H. reflexivity. Qed.

Lemma strip_by_id p l : ends_ok p l = true -> strip_by p l = l.
Proof.
  unfold ends_ok, strip_by, rstrip_by. intros H. apply andb_true_iff in H as [H1 H2].
  rewrite (lstrip_by_id p l H1), (lstrip_by_id p (rev l) H2). apply rev_involutive.
Qed.

(* stripping removes one trailing strippable octet after a body whose ends are not strippable *)
Lemma strip_by_snoc p l x : l <> [] -> ends_ok p l = true -> p x = true -> strip_by p (l ++ [x]) = l.
Proof.
  unfold ends_ok, strip_by, rstrip_by. intros Hl H Hx. apply andb_true_iff in H as [H1 H2].
  assert (E : lstrip_by p (l ++ [x]) = l ++ [x]).
  { apply lstrip_by_id. destruct l; [congruence | exact H1]. }
  rewrite E, rev_app_distr. cbn [rev app lstrip_by]. rewrite Hx.
  rewrite (lstrip_by_id p (rev l) H2). apply rev_involutive.
Qed.

Lemma ends_ok_all p l : forallb (fun c => negb (p c)) l = true -> ends_ok p l = true.
Proof.
  intros H. unfold ends_ok. apply andb_true_iff. split.
  - destruct l; [reflexivity|]. cbn in *. apply andb_true_iff in H. tauto.
  - assert (G : forallb (fun c => negb (p c)) (rev l) = true).
    { rewrite forallb_forall in *. intros c Hc. apply H. apply in_rev. exact Hc. }
    destruct (rev l); [reflexivity|]. cbn in *. apply andb_true_iff in G. tauto.
Qed.

(* ---------- substring tests ---------- *)
Lemma has2_cons2 a b x y r : has2 a b (x :: y :: r) = (beq x a && beq y b) || has2 a b (y :: r).
Proof. reflexivity. Qed.

Lemma has2_absent a b l : absent b l = true -> has2 a b l = false.
Proof.
  induction l as [|x r IH]; [reflexivity|]. intros H. rewrite absent_cons in H. apply andb_true_iff in H as [_ H2].
  destruct r as [|y r']; [reflexivity|]. rewrite has2_cons2, (IH H2).
  rewrite absent_cons in H2. apply andb_true_iff in H2 as [H3 _]. apply negb_true_iff in H3. rewrite H3.
  rewrite andb_false_r. reflexivity.
Qed.

Lemma guard_absent_qm l : absent QM l = true -> rfc2047_guard l = false.
Proof. intros H. unfold rfc2047_guard. apply (has2_absent EQS QM l H). Qed.

(* ---------- every spelling of a name: the inverse image of lower-casing ---------- *)
Definition preimages (x : byte) : bytes := filter (fun c => beq (to_lower c) x) all_bytes.

Lemma preimages_complete c : In c (preimages (to_lower c)).
Proof. unfold preimages. apply filter_In. split; [apply all_bytes_complete | apply beq_refl]. Qed.

Fixpoint spellings (l : bytes) : list bytes :=
  match l with
  | [] => [[]]
  | x :: r => flat_map (fun c => map (cons c) (spellings r)) (preimages x)
  end.

Lemma spellings_complete v : In v (spellings (lower v)).
Proof.
  induction v as [|c v IH]; [left; reflexivity|].
  cbn [lower map spellings]. apply in_flat_map. exists c. split; [apply preimages_complete|].
  apply in_map. exact IH.
Qed.

Lemma lookup_in {V} k (l : list (bytes * V)) v : lookup k l = Some v -> In (k, v) l.
Proof.
  induction l as [|[k' v'] r IH]; cbn [lookup]; [discriminate|].
  destruct (bytes_eqb k k') eqn:E.
  - intros H. injection H as ->. apply bytes_eqb_eq in E. subst. left. reflexivity.
  - intros H. right. apply IH. exact H.
Qed.

(* all the ways of writing a scheme name that the registry maps to scheme number s *)
Definition scheme_spellings (s : N) : list bytes :=
  flat_map (fun kv => if snd kv =? s then spellings (fst kv) else []) AUTH_REQ_SCHEMES.

Lemma scheme_of_spelling value s : scheme_of value = Some s -> In value (scheme_spellings s).
Proof.
  unfold scheme_of, scheme_spellings. intros H. apply lookup_in in H.
  apply in_flat_map. exists (lower value, s). split; [exact H|]. cbn [fst snd].
  rewrite N.eqb_refl. apply spellings_complete.
Qed.

(* what every spelling of "basic" satisfies (checked against the regenerated tables) *)
Definition basic_spelling_ok (v : bytes) : bool :=
  bytes_eqb (title v) (L "Basic") && opt_eqb N.eqb (scheme_of v) (Some 0).
Definition digest_spelling_ok (v : bytes) : bool :=
  bytes_eqb (title v) (L "Digest") && opt_eqb N.eqb (scheme_of v) (Some 1).

Lemma basic_spellings_ok : forallb basic_spelling_ok (scheme_spellings 0) = true.
Proof. vm_compute. reflexivity. Qed.
Lemma digest_spellings_ok : forallb digest_spelling_ok (scheme_spellings 1) = true.
Proof. vm_compute. reflexivity. Qed.

Lemma basic_title value : scheme_of value = Some 0 -> title value = L "Basic".
Proof.
  intros H. apply scheme_of_spelling in H. pose proof basic_spellings_ok as G.
  rewrite forallb_forall in G. apply G in H. unfold basic_spelling_ok in H.
  apply andb_true_iff in H as [H _]. apply bytes_eqb_eq. exact H.
Qed.

Lemma digest_title value : scheme_of value = Some 1 -> title value = L "Digest".
Proof.
  intros H. apply scheme_of_spelling in H. pose proof digest_spellings_ok as G.
  rewrite forallb_forall in G. apply G in H. unfold digest_spelling_ok in H.
  apply andb_true_iff in H as [H _]. apply bytes_eqb_eq. exact H.
Qed.

Lemma scheme_of_Basic : scheme_of (L "Basic") = Some 0.
Proof. vm_compute. reflexivity. Qed.
Lemma scheme_of_Digest : scheme_of (L "Digest") = Some 1.
Proof. vm_compute. reflexivity. Qed.
Lemma title_Basic : title (L "Basic") = L "Basic".
Proof. vm_compute. reflexivity. Qed.
Lemma title_Digest : title (L "Digest") = L "Digest".
Proof. vm_compute. reflexivity. Qed.

(* ====================== parameter lists:  formatparam / join / split / strip ====================== *)

Lemma is_ws_SP : is_ws SP = true.
Proof. vm_compute. reflexivity. Qed.
Lemma is_ws_DQ : is_ws DQ = false.
Proof. vm_compute. reflexivity. Qed.

(* a strippable first octet is dropped *)
Lemma strip_by_cons_drop p x l : p x = true -> strip_by p (x :: l) = strip_by p l.
Proof. intros H. unfold strip_by. cbn [lstrip_by]. rewrite H. reflexivity. Qed.

Lemma head_ok_app p a b : a <> [] -> head_ok p (a ++ b) = head_ok p a.
Proof. destruct a; [congruence | reflexivity]. Qed.

Lemma ends_ok_app p a b : a <> [] -> b <> [] -> head_ok p a = true -> head_ok p (rev b) = true -> ends_ok p (a ++ b) = true.
Proof.
  intros Ha Hb H1 H2. unfold ends_ok. rewrite head_ok_app, H1 by exact Ha. rewrite rev_app_distr, head_ok_app, H2; [reflexivity|].
  intros E. apply (f_equal (@rev byte)) in E. rewrite rev_involutive in E. exact (Hb E).
Qed.

Lemma ends_ok_head p l : ends_ok p l = true -> head_ok p l = true.
Proof. unfold ends_ok. intros H. apply andb_true_iff in H. tauto. Qed.
Lemma ends_ok_last p l : ends_ok p l = true -> head_ok p (rev l) = true.
Proof. unfold ends_ok. intros H. apply andb_true_iff in H. tauto. Qed.

(* escaping is the identity on values without backslash and double quote *)
Lemma esc_quoted_id v : absent BSL v = true -> absent DQ v = true -> esc_quoted v = v.
Proof.
  induction v as [|c v IH]; [reflexivity|]. rewrite !absent_cons. intros H1 H2.
  apply andb_true_iff in H1 as [A1 A2]. apply andb_true_iff in H2 as [B1 B2].
  apply negb_true_iff in A1. apply negb_true_iff in B1.
  cbn [esc_quoted flat_map]. rewrite A1, B1. cbn [app]. f_equal. apply IH; assumption.
Qed.

(* an octet outside TSPECIALS is none of the delimiters *)
Lemma not_tspecial_props c : inmask AUTH_TSPECIALS c = false ->
  beq c DQ = false /\ beq c EQS = false /\ beq c QM = false /\ beq c COMMA = false /\ beq c SP = false.
Proof.
  intros H.
  assert (G : (inmask AUTH_TSPECIALS c || (negb (beq c DQ) && negb (beq c EQS) && negb (beq c QM) && negb (beq c COMMA) && negb (beq c SP)))%bool = true).
  { revert c H. intros c _. revert c. apply forall_byte. vm_compute. reflexivity. }
  rewrite H in G. cbn [orb] in G. repeat (apply andb_true_iff in G as [G ?]).
  repeat split; apply negb_true_iff; assumption.
Qed.

Lemma no_tspecial_absent v x : has_tspecial v = false -> inmask AUTH_TSPECIALS x = true -> absent x v = true.
Proof.
  unfold has_tspecial. intros H Hx. induction v as [|c v IH]; [reflexivity|].
  cbn [existsb] in H. apply orb_false_iff in H as [H1 H2]. rewrite absent_cons, (IH H2), andb_true_r.
  apply negb_true_iff. apply beq_neq. intros ->. congruence.
Qed.

Lemma tspecial_DQ : inmask AUTH_TSPECIALS DQ = true. Proof. vm_compute. reflexivity. Qed.
Lemma tspecial_EQS : inmask AUTH_TSPECIALS EQS = true. Proof. vm_compute. reflexivity. Qed.
Lemma tspecial_QM : inmask AUTH_TSPECIALS QM = true. Proof. vm_compute. reflexivity. Qed.
Lemma tspecial_COMMA : inmask AUTH_TSPECIALS COMMA = true. Proof. vm_compute. reflexivity. Qed.

(* what a parameter name / value must satisfy to come back unchanged (values: finding D23 excluded) *)
Definition key_ok (k : bytes) : bool :=
  negb (is_empty k) && absent EQS k && absent COMMA k && absent QM k && ends_ok is_ws k.
Definition pv_ok (v : bytes) : bool :=
  absent COMMA v && absent DQ v && absent BSL v && (has_tspecial v || ends_ok is_ws v).

Lemma key_ok_inv k : key_ok k = true ->
  k <> [] /\ absent EQS k = true /\ absent COMMA k = true /\ absent QM k = true /\ ends_ok is_ws k = true.
Proof.
  unfold key_ok. intros H. repeat (apply andb_true_iff in H as [H ?]).
  repeat split; try assumption. destruct k; discriminate.
Qed.
Lemma pv_ok_inv v : pv_ok v = true ->
  absent COMMA v = true /\ absent DQ v = true /\ absent BSL v = true /\ (has_tspecial v || ends_ok is_ws v)%bool = true.
Proof. unfold pv_ok. intros H. repeat (apply andb_true_iff in H as [H ?]). repeat split; assumption. Qed.

Lemma strip_dq_quoted v : v <> [] -> absent DQ v = true -> strip_dq (DQ :: v ++ [DQ]) = v.
Proof.
  intros Hv Ha. unfold strip_dq. rewrite strip_by_cons_drop by apply beq_refl.
  apply strip_by_snoc; [exact Hv | | apply beq_refl].
  apply ends_ok_all. exact Ha.
Qed.

(* DigestAuthScheme.parse of one composed atom *)
Definition parse_atom (atom : bytes) : bytes * bytes :=
  let (k, v) := partition1 EQS atom in (strip_ws k, strip_dq (strip_ws v)).

Lemma parse_atom_format k v : key_ok k = true -> pv_ok v = true -> parse_atom (formatparam k v) = (k, v).
Proof.
  intros Hk Hv. destruct (key_ok_inv k Hk) as (Kne & Keq & Kco & Kqm & Kws).
  destruct (pv_ok_inv v Hv) as (Vco & Vdq & Vbs & Vends).
  assert (Sk : strip_ws k = k) by (apply strip_by_id; assumption).
  unfold parse_atom, formatparam. destruct v as [|c v'] eqn:Ev.
  - rewrite partition1_absent by assumption. rewrite Sk. reflexivity.
  - rewrite <- Ev in *. destruct (has_tspecial v) eqn:Ht.
    + rewrite (esc_quoted_id v) by assumption.
      change (k ++ [EQS; DQ] ++ v ++ [DQ]) with (k ++ EQS :: (DQ :: v ++ [DQ])).
      rewrite partition1_app by assumption. rewrite Sk. f_equal.
      assert (E : strip_ws (DQ :: v ++ [DQ]) = DQ :: v ++ [DQ]).
      { apply strip_by_id. change (DQ :: v ++ [DQ]) with ([DQ] ++ (v ++ [DQ])).
        apply ends_ok_app; [discriminate | destruct v; discriminate | reflexivity |].
        rewrite rev_app_distr. reflexivity. }
      rewrite E. apply strip_dq_quoted; [rewrite Ev; discriminate | assumption].
    + change (k ++ [EQS] ++ v) with (k ++ EQS :: v).
      rewrite partition1_app by assumption. rewrite Sk. f_equal.
      cbn [orb] in Vends. unfold strip_ws. rewrite (strip_by_id is_ws v Vends).
      apply strip_by_id. apply ends_ok_all. apply (no_tspecial_absent v DQ Ht tspecial_DQ).
Qed.

(* a composed atom: non-empty, comma-free, no strippable octet at either end *)
Lemma format_atom_ok k v : key_ok k = true -> pv_ok v = true ->
  formatparam k v <> [] /\ absent COMMA (formatparam k v) = true /\ ends_ok is_ws (formatparam k v) = true.
Proof.
  intros Hk Hv. destruct (key_ok_inv k Hk) as (Kne & Keq & Kco & Kqm & Kws).
  destruct (pv_ok_inv v Hv) as (Vco & Vdq & Vbs & Vends).
  unfold formatparam. destruct v as [|c v'] eqn:Ev.
  - repeat split; assumption.
  - rewrite <- Ev in *. assert (Vne : v <> []) by (rewrite Ev; discriminate).
    destruct (has_tspecial v) eqn:Ht.
    + rewrite (esc_quoted_id v) by assumption. repeat split.
      * destruct k; [congruence | discriminate].
      * rewrite !absent_app. rewrite Kco, Vco. reflexivity.
      * apply ends_ok_app; [exact Kne | discriminate | apply ends_ok_head; assumption |].
        rewrite !rev_app_distr. reflexivity.
    + cbn [orb] in Vends. repeat split.
      * destruct k; [congruence | discriminate].
      * rewrite !absent_app. rewrite Kco, Vco. reflexivity.
      * apply ends_ok_app; [exact Kne | discriminate | apply ends_ok_head; assumption |].
        rewrite rev_app_distr. rewrite head_ok_app by (intros E; apply (f_equal (@rev byte)) in E; rewrite rev_involutive in E; exact (Vne E)).
        apply ends_ok_last. assumption.
Qed.

(* splitting a ", "-joined list of comma-free atoms at the commas *)
Lemma split1_join_comma a rest : Forall (fun x => absent COMMA x = true) (a :: rest) ->
  split1 COMMA (join [COMMA; SP] (a :: rest)) = a :: map (cons SP) rest.
Proof.
  revert a. induction rest as [|b r IH]; intros a Hall.
  - cbn [join map]. apply split1_absent. inversion Hall; assumption.
  - inversion Hall as [|? ? Ha Hrest]; subst.
    change (join [COMMA; SP] (a :: b :: r)) with (a ++ COMMA :: (SP :: join [COMMA; SP] (b :: r))).
    rewrite split1_app by assumption. f_equal.
    cbn [split1]. change (beq SP COMMA) with false. cbn iota. rewrite (IH b Hrest). reflexivity.
Qed.

Definition atoms_of (info : bytes) : list bytes :=
  match filter (fun x => negb (is_empty x)) (map strip_ws (split1 COMMA info)) with
  | [] => [[]]
  | l => l
  end.

Lemma atoms_of_join a rest :
  Forall (fun x => x <> [] /\ absent COMMA x = true /\ ends_ok is_ws x = true) (a :: rest) ->
  atoms_of (join [COMMA; SP] (a :: rest)) = a :: rest.
Proof.
  intros Hall. unfold atoms_of.
  rewrite split1_join_comma by (eapply Forall_impl; [|exact Hall]; cbn; tauto).
  assert (E : map strip_ws (a :: map (cons SP) rest) = a :: rest).
  { cbn [map]. inversion Hall as [|? ? Ha Hrest]; subst. f_equal.
    - apply strip_by_id. tauto.
    - rewrite map_map. clear Hall Ha. induction rest as [|b r IH]; [reflexivity|].
      inversion Hrest as [|? ? Hb Hr]; subst. cbn [map]. f_equal; [|apply IH; assumption].
      unfold strip_ws. rewrite strip_by_cons_drop by apply is_ws_SP. apply strip_by_id. tauto. }
  rewrite E.
  assert (F : filter (fun x => negb (is_empty x)) (a :: rest) = a :: rest).
  { clear E. induction Hall as [|x l Hx Hl IH]; [reflexivity|]. cbn [filter].
    destruct x; [destruct Hx; congruence|]. cbn. f_equal. exact IH. }
  rewrite F. reflexivity.
Qed.

(* ---------- adjacent-pair test over concatenations ---------- *)
Definition headb (b : byte) (y : bytes) : bool := match y with c :: _ => beq c b | [] => false end.

Lemma has2_app_false a b x y : has2 a b x = false -> has2 a b y = false -> headb b y = false ->
  has2 a b (x ++ y) = false.
Proof.
  intros Hx Hy Hh. induction x as [|c x IH]; [exact Hy|].
  destruct x as [|d x'].
  - cbn [app]. destruct y as [|e y']; [reflexivity|]. rewrite has2_cons2, Hy. cbn [headb] in Hh. rewrite Hh, andb_false_r. reflexivity.
  - rewrite has2_cons2 in Hx. apply orb_false_iff in Hx as [H1 H2].
    change ((c :: d :: x') ++ y) with (c :: d :: (x' ++ y)). rewrite has2_cons2, H1.
    apply IH. exact H2.
Qed.

Lemma has2_app_false_l a b x y : has2 a b x = false -> has2 a b y = false -> headb a (rev x) = false ->
  has2 a b (x ++ y) = false.
Proof.
  intros Hx Hy Hl. induction x as [|c x IH]; [exact Hy|].
  destruct x as [|d x'].
  - cbn [app]. cbn [rev app headb] in Hl. destruct y as [|e y']; [reflexivity|]. rewrite has2_cons2, Hy, Hl. reflexivity.
  - rewrite has2_cons2 in Hx. apply orb_false_iff in Hx as [H1 H2].
    change ((c :: d :: x') ++ y) with (c :: d :: (x' ++ y)). rewrite has2_cons2, H1.
    apply IH; [exact H2|]. cbn [rev] in Hl |- *.
    destruct (rev x' ++ [d]) as [|z zs] eqn:E; [destruct (rev x'); discriminate|]. cbn [app headb] in Hl |- *. exact Hl.
Qed.

(* values: no '=?' inside *)
Definition pv_plain (v : bytes) : bool := negb (has2 EQS QM v).

Lemma format_no_eqqm k v : key_ok k = true -> pv_ok v = true -> pv_plain v = true ->
  has2 EQS QM (formatparam k v) = false /\ headb QM (formatparam k v) = false.
Proof.
  intros Hk Hv Hp. unfold pv_plain in Hp. apply negb_true_iff in Hp.
  destruct (key_ok_inv k Hk) as (Kne & Keq & Kco & Kqm & Kws).
  destruct (pv_ok_inv v Hv) as (Vco & Vdq & Vbs & Vends).
  assert (Kq : has2 EQS QM k = false) by (apply has2_absent; assumption).
  assert (Kh : forall y, headb QM (k ++ y) = false).
  { intros y. destruct k as [|c k']; [congruence|]. cbn [app headb].
    rewrite absent_cons in Kqm. apply andb_true_iff in Kqm as [Kqm _]. apply negb_true_iff in Kqm. exact Kqm. }
  unfold formatparam. destruct v as [|c v'] eqn:Ev.
  - split; [exact Kq | rewrite <- (app_nil_r k); apply Kh].
  - rewrite <- Ev in *. destruct (has_tspecial v) eqn:Ht.
    + rewrite (esc_quoted_id v) by assumption. split; [|apply Kh].
      apply has2_app_false; [exact Kq | | reflexivity].
      change ([EQS; DQ] ++ v ++ [DQ]) with ([EQS; DQ] ++ (v ++ [DQ])).
      apply has2_app_false_l; [reflexivity | | reflexivity].
      apply has2_app_false; [exact Hp | reflexivity | reflexivity].
    + split; [|apply Kh].
      apply has2_app_false; [exact Kq | | reflexivity].
      change ([EQS] ++ v) with (EQS :: v). destruct v as [|e v'']; [reflexivity|].
      rewrite has2_cons2, Hp, orb_false_r.
      cbn [has_tspecial existsb] in Ht. apply orb_false_iff in Ht as [Ht _].
      destruct (not_tspecial_props e Ht) as (_ & _ & Hq & _). rewrite Hq, andb_false_r. reflexivity.
Qed.

Lemma join_no_eqqm atoms : Forall (fun x => has2 EQS QM x = false /\ headb QM x = false) atoms ->
  has2 EQS QM (join [COMMA; SP] atoms) = false /\ headb QM (join [COMMA; SP] atoms) = false.
Proof.
  induction 1 as [|a rest [Ha Hh] Hrest IH]; [split; reflexivity|].
  destruct rest as [|b r]; [split; assumption|].
  change (join [COMMA; SP] (a :: b :: r)) with (a ++ ([COMMA; SP] ++ join [COMMA; SP] (b :: r))).
  destruct IH as [I1 I2]. split.
  - apply has2_app_false; [exact Ha | | reflexivity].
    apply has2_app_false; [reflexivity | exact I1 | exact I2].
  - destruct a; [reflexivity | exact Hh].
Qed.

(* C05, clause 2: preparing and composing are repeatable and non-destructive.
   Closed forms of prepare on the modelled domain, prepare is idempotent, compose only normalises the body source,
   and the two facts lifted over arbitrary sequences of prepare / compose by induction on the operation list. *)
From Coq Require Import Lia.
From Httoop Require Import Model.Composer Model.Http1Reader Proofs.HeadersP Proofs.ComposerNum Proofs.ComposerHdrs Proofs.ComposerBody Proofs.ComposerFraming.
Local Open Scope N_scope.

Lemma body_ext (a b : body) :
  b_src a = b_src b -> b_chunked a = b_chunked b -> b_codec a = b_codec b -> b_ctype a = b_ctype b -> b_trailer a = b_trailer b -> a = b.
Proof. destruct a, b. cbn. intros -> -> -> -> ->. reflexivity. Qed.

(* composing leaves the message as it is, except that the body source is in its normal form afterwards *)
Definition settle_body (b : body) : body := with_src b (src_after (b_src b)).

Lemma settle_body_idem b : settle_body (settle_body b) = settle_body b.
Proof. unfold settle_body. cbn [with_src b_src b_chunked b_codec b_ctype b_trailer]. rewrite src_after_after. reflexivity. Qed.

Section Compose.
Variable C : ccallees.

Lemma body_iter_settle vc b : snd (body_iter C vc b) = settle_body b.
Proof. rewrite body_iter_spec. reflexivity. Qed.

(* the octets do not depend on whether the source has been iterated before: for every constructor *)
Lemma body_iter_again vc b : src_ok (b_src b) = true -> fst (body_iter C vc (settle_body b)) = fst (body_iter C vc b).
Proof.
  intros H. rewrite !body_iter_spec. unfold settle_body, payload, coded. cbn [fst with_src b_src b_chunked b_codec b_trailer].
  rewrite (src_after_pieces _ H). reflexivity.
Qed.

Lemma body_len_settle b : src_ok (b_src b) = true -> body_len (settle_body b) = (fst (body_len b), settle_body b).
Proof.
  intros H. rewrite !body_len_spec. unfold settle_body, src_content. cbn [fst with_src b_src b_chunked b_codec b_ctype b_trailer].
  rewrite (src_after_pieces _ H), src_after_after. reflexivity.
Qed.

(* the four constructors, spelled out: what a second iteration sees *)
Lemma iter_twice_bytesio c p : src_iter (snd (src_iter (SBytesIO c p))) = src_iter (SBytesIO c p).
Proof. reflexivity. Qed.
Lemma iter_twice_file c p : src_iter (snd (src_iter (SFile c p))) = src_iter (SFile c p).
Proof. reflexivity. Qed.
Lemma iter_twice_list items : src_iter (snd (src_iter (SList items))) = src_iter (SList items).
Proof. reflexivity. Qed.
Lemma iter_twice_gen items : fst (src_iter (snd (src_iter (SGen items [])))) = fst (src_iter (SGen items [])) /\
  snd (src_iter (snd (src_iter (SGen items [])))) = snd (src_iter (SGen items [])).
Proof. cbn [src_iter snd fst app]. destruct items; split; reflexivity. Qed.

End Compose.

(* ================================================================== requests *)
(* pure header pipeline of ComposedRequest.prepare; the body enters through its length and media type only *)
Definition q_h2 (safe : bool) (h : hdrs) : hdrs :=
  if safe then hdel H_TE h else if hmem H_TE h then hdel H_CL h else h.
Definition q_hlen (n : N) (ctype : bytes) (h : hdrs) : hdrs :=
  if 0 <? n then
    let h1 := if hmem H_TE h then h else hset H_CL (dec_print n) h in
    if hmem H_CT h1 then h1 else hset H_CT ctype h1
  else h.
Definition q_hdate (now method : bytes) (n : N) (h : hdrs) : hdrs :=
  if mem_bytes method REQ_DATED_METHODS && (0 <? n) && negb (hmem H_DATE h) then hset H_DATE now h else h.
Definition q_len (q : request) : N := if q_safe q then 0 else blen (src_content (b_src (q_body q))).
Definition q_hfinal (now : bytes) (q : request) : hdrs :=
  q_step_tail (q_method q) (q_hdate now (q_method q) (q_len q) (q_step_host (q_host q)
    (q_hlen (q_len q) (b_ctype (q_body q)) (q_step_close (q_h2 (q_safe q) (q_hdrs q)))))).
Definition q_bfinal (q : request) : body :=
  {| b_src := src_after (if q_safe q then EMPTY_SRC else b_src (q_body q));
     b_chunked := if q_safe q then false else hmem H_TE (q_hdrs q);
     b_codec := b_codec (q_body q); b_ctype := b_ctype (q_body q); b_trailer := b_trailer (q_body q) |}.

Lemma q_prepare_closed now q : te_simple (q_hdrs q) = true -> src_ok (b_src (q_body q)) = true ->
  q_prepare now q = Some (q_with q (q_hfinal now q) (q_bfinal q)).
Proof.
  intros Hte Hsrc. unfold q_prepare, q_step_safe, q_hfinal, q_bfinal, q_len, q_safe, q_h2.
  destruct (mem_bytes (q_method q) SAFE_METHODS) eqn:Esafe.
  - rewrite (set_chunked_false_simple _ _ Hte).
    assert (Hte1 : te_simple (hdel H_TE (q_hdrs q)) = true) by (unfold te_simple; hg; reflexivity).
    rewrite (sync_chunked_simple _ _ Hte1), (hmem_hdel_same H_TE (q_hdrs q)).
    unfold q_step_length. rewrite body_len_spec. cbn [b_src with_chunked body_clear with_src]. change (src_content EMPTY_SRC) with (@nil byte).
    change (0 <? blen []) with false. cbv iota. unfold q_hlen. change (0 <? 0) with false. cbv iota.
    unfold q_step_date, q_hdate. destruct (mem_bytes (q_method q) REQ_DATED_METHODS).
    + rewrite body_len_spec. cbn [b_src with_src]. change (src_content (src_after EMPTY_SRC)) with (@nil byte). change (0 <? blen []) with false.
      cbn [andb]. f_equal.
    + cbn [andb]. f_equal.
  - rewrite (sync_chunked_simple _ _ Hte). set (t := hmem H_TE (q_hdrs q)).
    set (h2 := if t then hdel H_CL (q_hdrs q) else q_hdrs q).
    assert (Hm3 : hmem H_TE (q_step_close h2) = t).
    { unfold q_step_close. destruct (conn_is_close h2); rewrite ?hmem_hset_iff, ?hmem_hdel_iff; keq; cbn [orb negb andb];
        unfold h2; destruct t eqn:Et; rewrite ?hmem_hdel_iff; keq; cbn [negb andb]; exact Et. }
    assert (Hts3 : te_simple (q_step_close h2) = true).
    { unfold te_simple, q_step_close. pose proof (te_simple_value _ Hte) as V. fold t in V.
      destruct (conn_is_close h2); hg; unfold h2; destruct t; hg; rewrite V; reflexivity. }
    assert (Hc1 : src_content (src_after (b_src (q_body q))) = src_content (b_src (q_body q))) by (unfold src_content; rewrite (src_after_pieces _ Hsrc); reflexivity).
    unfold q_step_length. rewrite body_len_spec. cbn [b_src with_chunked with_src].
    set (n := blen (src_content (b_src (q_body q)))). unfold q_hlen.
    destruct (0 <? n) eqn:En.
    + rewrite (hdr_chunked_simple _ Hts3), Hm3. rewrite body_len_spec. cbn [b_src with_src with_chunked b_ctype].
      rewrite !Hc1. fold n.
      unfold q_step_date, q_hdate. destruct (mem_bytes (q_method q) REQ_DATED_METHODS).
      * rewrite body_len_spec. cbn [b_src with_src]. rewrite !src_after_after, !Hc1. fold n. rewrite En. cbn [andb]. reflexivity.
      * cbn [andb]. rewrite !src_after_after. reflexivity.
    + unfold q_step_date, q_hdate. destruct (mem_bytes (q_method q) REQ_DATED_METHODS).
      * rewrite body_len_spec. cbn [b_src with_src]. rewrite !Hc1. fold n. rewrite En. cbn [andb]. rewrite !src_after_after. reflexivity.
      * cbn [andb]. reflexivity.
Qed.

(* ---- frame facts: which fields a header step can change ---- *)
Ltac frame := repeat match goal with |- context [if ?c then _ else _] => destruct c end; hg; try reflexivity.

Lemma hsetdefault_present k v h : hmem k h = true -> hsetdefault k v h = h.
Proof. unfold hsetdefault. intros ->. reflexivity. Qed.
Lemma hmem_hsetdefault k v h : hmem k (hsetdefault k v h) = true.
Proof. unfold hsetdefault. destruct (hmem k h) eqn:E; [exact E|]. rewrite hmem_hset_iff, bytes_eqb_refl. reflexivity. Qed.

Lemma conn_close_iff h : conn_is_close h = true <-> hget H_CONNECTION h = Some CLOSE.
Proof.
  unfold conn_is_close. destruct (hget H_CONNECTION h) as [v|]; [|split; discriminate].
  rewrite bytes_eqb_eq. split; [intros ->; reflexivity | intros E; injection E; auto].
Qed.
Lemma q_step_close_fix h : (hget H_CONNECTION h = Some CLOSE \/ hget H_CONNECTION h = None) -> q_step_close h = h.
Proof.
  intros [E|E]; unfold q_step_close.
  - rewrite (proj2 (conn_close_iff h) E). apply hset_same, E.
  - unfold conn_is_close. rewrite E. apply hdel_absent, E.
Qed.
Lemma q_step_close_post h : hget H_CONNECTION (q_step_close h) = Some CLOSE \/ hget H_CONNECTION (q_step_close h) = None.
Proof. unfold q_step_close. destruct (conn_is_close h); [left | right]; hg; reflexivity. Qed.

Definition qA (q : request) : hdrs := q_h2 (q_safe q) (q_hdrs q).
Definition qB (q : request) : hdrs := q_step_close (qA q).
Definition qC (q : request) : hdrs := q_hlen (q_len q) (b_ctype (q_body q)) (qB q).
Definition qD (q : request) : hdrs := q_step_host (q_host q) (qC q).
Definition qE (now : bytes) (q : request) : hdrs := q_hdate now (q_method q) (q_len q) (qD q).
Definition qH (now : bytes) (q : request) : hdrs := q_step_tail (q_method q) (qE now q).

Section RequestFix.
Variables (now : bytes) (q : request).
Hypothesis Hte : te_simple (q_hdrs q) = true.
Hypothesis Hsrc : src_ok (b_src (q_body q)) = true.

Local Notation m := (q_method q).
Local Notation n := (q_len q).
Local Notation ct := (b_ctype (q_body q)).
Local Notation A := (qA q).
Local Notation B := (qB q).
Local Notation Cc := (qC q).
Local Notation D := (qD q).
Local Notation E := (qE now q).
Local Notation H := (qH now q).

Lemma qH_eq : q_hfinal now q = H.
Proof. reflexivity. Qed.

(* frames *)
Lemma fr_tail k h : mem_bytes k [H_WWW_AUTH; H_COOKIE; H_UA; H_ACCEPT] = false -> hget k (q_step_tail m h) = hget k h.
Proof.
  cbn [mem_bytes existsb]. intros Hk. repeat (apply orb_false_iff in Hk as [? Hk]).
  unfold q_step_tail. destruct (mem_bytes m REQ_TRACE_METHODS); rewrite ?hget_hsetdefault, ?hget_hdel;
    repeat match goal with Hx : bytes_eqb k _ = false |- _ => rewrite Hx end; reflexivity.
Qed.
Lemma fr_hdate k h : bytes_eqb k H_DATE = false -> hget k (q_hdate now m n h) = hget k h.
Proof. intros Hk. unfold q_hdate. destruct (_ && _); [rewrite hget_hset, Hk|]; reflexivity. Qed.
Lemma fr_host k h : bytes_eqb k H_HOST = false -> hget k (q_step_host (q_host q) h) = hget k h.
Proof. intros Hk. unfold q_step_host. destruct (q_host q); [destruct (hmem H_HOST h); [|rewrite hget_hset, Hk]|]; reflexivity. Qed.
Lemma fr_hlen k h : bytes_eqb k H_CL = false -> bytes_eqb k H_CT = false -> hget k (q_hlen n ct h) = hget k h.
Proof.
  intros K1 K2. unfold q_hlen. destruct (0 <? n); [|reflexivity]. cbv zeta.
  destruct (hmem H_TE h); match goal with |- context [if hmem H_CT ?x then _ else _] => destruct (hmem H_CT x) end;
    rewrite ?hget_hset, ?K1, ?K2; reflexivity.
Qed.
Lemma fr_close k h : bytes_eqb k H_CONNECTION = false -> hget k (q_step_close h) = hget k h.
Proof. intros Hk. unfold q_step_close. destruct (conn_is_close h); rewrite ?hget_hset, ?hget_hdel, Hk; reflexivity. Qed.

Lemma qH_te : hget H_TE H = hget H_TE A.
Proof. unfold qH, qE, qD, qC, qB. rewrite fr_tail, fr_hdate, fr_host, fr_hlen, fr_close by reflexivity. reflexivity. Qed.
Lemma qA_te : hget H_TE A = if q_safe q then None else hget H_TE (q_hdrs q).
Proof. unfold qA, q_h2. destruct (q_safe q); [hg; reflexivity|]. destruct (hmem H_TE (q_hdrs q)); hg; reflexivity. Qed.
Lemma qH_conn : hget H_CONNECTION H = Some CLOSE \/ hget H_CONNECTION H = None.
Proof. unfold qH, qE, qD, qC. rewrite fr_tail, fr_hdate, fr_host, fr_hlen by reflexivity. apply q_step_close_post. Qed.
Lemma qH_cl : hget H_CL H = hget H_CL Cc.
Proof. unfold qH, qE, qD. rewrite fr_tail, fr_hdate, fr_host by reflexivity. reflexivity. Qed.
Lemma qH_ct : hget H_CT H = hget H_CT Cc.
Proof. unfold qH, qE, qD. rewrite fr_tail, fr_hdate, fr_host by reflexivity. reflexivity. Qed.
Lemma qB_te : hget H_TE B = hget H_TE A.
Proof. unfold qB. apply fr_close. reflexivity. Qed.
Lemma qB_cl : hget H_CL B = hget H_CL A.
Proof. unfold qB. apply fr_close. reflexivity. Qed.
Lemma qA_cl_te : hmem H_TE A = true -> hget H_CL A = None.
Proof.
  rewrite hmem_hget, qA_te. unfold qA, q_h2. destruct (q_safe q); [discriminate|]. rewrite <- hmem_hget. intros Ht. rewrite Ht. hg. reflexivity.
Qed.
Lemma qCc_facts : (0 <? n = true -> hmem H_CT Cc = true /\ (hmem H_TE B = false -> hget H_CL Cc = Some (dec_print n))) /\
                  (hmem H_TE B = true -> hget H_CL Cc = None).
Proof.
  split.
  - intros En. unfold qC, q_hlen. rewrite En. cbv zeta. split.
    + match goal with |- context [if hmem H_CT ?x then _ else _] => destruct (hmem H_CT x) eqn:Ex end; [exact Ex|]. rewrite hmem_hset_iff, bytes_eqb_refl. reflexivity.
    + intros Ht. rewrite Ht. match goal with |- context [if hmem H_CT ?x then _ else _] => destruct (hmem H_CT x) end; hg; reflexivity.
  - intros Ht. unfold qC, q_hlen. rewrite Ht. destruct (0 <? n).
    + cbv zeta. match goal with |- context [if hmem H_CT ?x then _ else _] => destruct (hmem H_CT x) end; hg; rewrite qB_cl; apply qA_cl_te; rewrite hmem_hget, <- qB_te, <- hmem_hget; exact Ht.
    + rewrite qB_cl. apply qA_cl_te. rewrite hmem_hget, <- qB_te, <- hmem_hget. exact Ht.
Qed.
Lemma qH_mem_te : hmem H_TE H = hmem H_TE B.
Proof. rewrite !hmem_hget, qH_te, qB_te. reflexivity. Qed.

(* the pipeline applied to its own result changes nothing *)
Lemma q_pipeline_fix : q_step_tail m (q_hdate now m n (q_step_host (q_host q) (q_hlen n ct (q_step_close (q_h2 (q_safe q) H))))) = H.
Proof.
  (* h2 *)
  assert (S1 : q_h2 (q_safe q) H = H).
  { unfold q_h2. destruct (q_safe q) eqn:Es.
    - apply hdel_absent. rewrite qH_te, qA_te, Es. reflexivity.
    - destruct (hmem H_TE H) eqn:Et; [|reflexivity]. apply hdel_absent. rewrite qH_cl. apply (proj2 qCc_facts). rewrite <- qH_mem_te. exact Et. }
  rewrite S1. rewrite (q_step_close_fix H qH_conn).
  (* length *)
  assert (S3 : q_hlen n ct H = H).
  { unfold q_hlen. destruct (0 <? n) eqn:En; [|reflexivity]. cbv zeta. destruct (proj1 qCc_facts En) as [Hct Hcl].
    assert (S3a : (if hmem H_TE H then H else hset H_CL (dec_print n) H) = H).
    { destruct (hmem H_TE H) eqn:Et; [reflexivity|]. apply hset_same. rewrite qH_cl. apply Hcl. rewrite <- qH_mem_te. exact Et. }
    rewrite S3a. assert (Hm : hmem H_CT H = true) by (rewrite hmem_hget, qH_ct, <- hmem_hget; exact Hct). rewrite Hm. reflexivity. }
  rewrite S3.
  (* host *)
  assert (S4 : q_step_host (q_host q) H = H).
  { unfold q_step_host. destruct (q_host q) as [v|] eqn:Eh; [|reflexivity].
    assert (Hm : hmem H_HOST H = true).
    { rewrite hmem_hget. unfold qH, qE. rewrite fr_tail, fr_hdate by reflexivity. rewrite <- hmem_hget. unfold qD, q_step_host. rewrite Eh.
      destruct (hmem H_HOST Cc) eqn:Ex; [exact Ex|]. rewrite hmem_hset_iff, bytes_eqb_refl. reflexivity. }
    rewrite Hm. reflexivity. }
  rewrite S4.
  (* date *)
  assert (S5 : q_hdate now m n H = H).
  { unfold q_hdate. destruct (mem_bytes m REQ_DATED_METHODS && (0 <? n)) eqn:Ec; [|reflexivity].
    assert (Hm : hmem H_DATE H = true).
    { rewrite hmem_hget. unfold qH. rewrite fr_tail by reflexivity. rewrite <- hmem_hget. unfold qE, q_hdate. rewrite Ec.
      destruct (hmem H_DATE D) eqn:Ex; cbn [negb andb]; [exact Ex|]. rewrite hmem_hset_iff, bytes_eqb_refl. reflexivity. }
    rewrite Hm. reflexivity. }
  rewrite S5.
  (* tail *)
  unfold q_step_tail at 1.
  assert (Hua : hmem H_UA H = true /\ hmem H_ACCEPT H = true).
  { unfold qH, q_step_tail. split; [|apply hmem_hsetdefault]. rewrite hmem_hget, hget_hsetdefault. keq. cbv iota. rewrite <- hmem_hget. apply hmem_hsetdefault. }
  destruct Hua as [Hua Hac].
  assert (S6 : (if mem_bytes m REQ_TRACE_METHODS then hdel H_WWW_AUTH (hdel H_COOKIE H) else H) = H).
  { destruct (mem_bytes m REQ_TRACE_METHODS) eqn:Et; [|reflexivity].
    assert (Hc : hget H_COOKIE H = None) by (unfold qH, q_step_tail; rewrite Et; hg; reflexivity).
    assert (Hw : hget H_WWW_AUTH H = None) by (unfold qH, q_step_tail; rewrite Et; hg; reflexivity).
    rewrite (hdel_absent _ _ Hc). apply hdel_absent, Hw. }
  rewrite S6, (hsetdefault_present _ _ _ Hua), (hsetdefault_present _ _ _ Hac). reflexivity.
Qed.

End RequestFix.

(* ---- prepare is idempotent; compose only settles the body source ---- *)
Definition settle_q (q : request) : request := q_with q (q_hdrs q) (settle_body (q_body q)).

Lemma q_len_settle q : src_ok (b_src (q_body q)) = true -> q_len (settle_q q) = q_len q.
Proof.
  intros H. unfold q_len, settle_q, q_safe, settle_body. cbn [q_with q_method q_body with_src b_src].
  destruct (mem_bytes _ _); [reflexivity|]. unfold src_content. rewrite (src_after_pieces _ H). reflexivity.
Qed.

Lemma q_bfinal_settle q : q_bfinal (settle_q q) = q_bfinal q.
Proof.
  unfold q_bfinal, settle_q, q_safe, settle_body. cbn [q_with q_method q_body q_hdrs with_src b_src b_codec b_ctype b_trailer].
  destruct (mem_bytes _ _); [reflexivity|]. rewrite src_after_after. reflexivity.
Qed.

Lemma q_prepare_settle now q : te_simple (q_hdrs q) = true -> src_ok (b_src (q_body q)) = true ->
  q_prepare now (settle_q q) = q_prepare now q.
Proof.
  intros Hte Hsrc. rewrite (q_prepare_closed now q Hte Hsrc).
  assert (Hs' : src_ok (b_src (q_body (settle_q q))) = true) by (cbn; apply src_after_ok).
  rewrite (q_prepare_closed now (settle_q q) Hte Hs'). rewrite q_bfinal_settle.
  unfold q_hfinal. rewrite (q_len_settle q Hsrc). reflexivity.
Qed.

Lemma qH_te_simple now q : te_simple (q_hdrs q) = true -> te_simple (qH now q) = true.
Proof.
  intros Hte. unfold te_simple. rewrite qH_te, qA_te. destruct (q_safe q); [reflexivity | exact Hte].
Qed.

Theorem q_prepare_idem now q q1 : te_simple (q_hdrs q) = true -> src_ok (b_src (q_body q)) = true ->
  q_prepare now q = Some q1 -> q_prepare now q1 = Some q1.
Proof.
  intros Hte Hsrc Hp. rewrite (q_prepare_closed now q Hte Hsrc) in Hp. injection Hp as <-.
  set (q1 := q_with q (q_hfinal now q) (q_bfinal q)).
  assert (Hte1 : te_simple (q_hdrs q1) = true) by (apply (qH_te_simple now q Hte)).
  assert (Hs1 : src_ok (b_src (q_body q1)) = true) by (cbn; apply src_after_ok).
  rewrite (q_prepare_closed now q1 Hte1 Hs1). f_equal.
  assert (Hsafe : q_safe q1 = q_safe q) by reflexivity.
  assert (Hlen : q_len q1 = q_len q).
  { unfold q_len. rewrite Hsafe. destruct (q_safe q) eqn:Es; [reflexivity|]. unfold q1, q_bfinal. cbn [q_with q_body b_src]. rewrite Es.
    unfold src_content. rewrite (src_after_pieces _ Hsrc). reflexivity. }
  assert (EH : q_hfinal now q1 = q_hfinal now q).
  { unfold q_hfinal at 1. rewrite Hlen, Hsafe. cbn [q1 q_with q_method q_host q_hdrs q_body q_bfinal b_ctype]. apply (q_pipeline_fix now q). }
  assert (EB : q_bfinal q1 = q_bfinal q).
  { apply body_ext; unfold q_bfinal; rewrite ?Hsafe; cbn [b_src b_chunked b_codec b_ctype b_trailer q1 q_with q_body q_hdrs]; try reflexivity.
    - destruct (q_safe q) eqn:Es; [reflexivity|]. unfold q_bfinal. rewrite Es. cbn [b_src]. apply src_after_after.
    - destruct (q_safe q) eqn:Es; [reflexivity|]. fold (qH now q). rewrite !hmem_hget, qH_te, qA_te, Es. reflexivity. }
  unfold q1 at 1. rewrite EH, EB. reflexivity.
Qed.

(* ---- arbitrary sequences of operations ---- *)
Inductive cop := Prep | Comp.

Section RequestRuns.
Variable C : ccallees.
Variable vc : variant.
Variable now : bytes.

(* run the operations; the octets of every compose, and the final message; None if a prepare fails *)
Fixpoint q_run (q : request) (ops : list cop) : option (list bytes * request) :=
  match ops with
  | [] => Some ([], q)
  | Prep :: r => match q_prepare now q with Some q' => q_run q' r | None => None end
  | Comp :: r => let (o, q') := q_compose C vc q in
                 match q_run q' r with Some (os, qf) => Some (o :: os, qf) | None => None end
  end.

Lemma q_compose_spec q : q_compose C vc q = (fst (q_compose C vc q), settle_q q).
Proof. unfold q_compose, settle_q. rewrite body_iter_spec. reflexivity. Qed.

Lemma q_compose_settle q : src_ok (b_src (q_body q)) = true -> fst (q_compose C vc (settle_q q)) = fst (q_compose C vc q).
Proof.
  intros H. unfold q_compose, settle_q. cbn [q_with q_method q_target q_version q_hdrs q_body].
  pose proof (body_iter_again C vc (q_body q) H) as E. destruct (body_iter C vc (settle_body (q_body q))) as [o1 b1].
  destruct (body_iter C vc (q_body q)) as [o2 b2]. cbn [fst] in *. rewrite E. reflexivity.
Qed.

Lemma settle_q_idem q : settle_q (settle_q q) = settle_q q.
Proof. unfold settle_q. cbn [q_with q_method q_target q_host q_version q_hdrs q_body]. rewrite settle_body_idem. reflexivity. Qed.

Theorem q_repeatable q q1 : te_simple (q_hdrs q) = true -> src_ok (b_src (q_body q)) = true -> q_prepare now q = Some q1 ->
  forall ops x, x = q1 \/ x = settle_q q1 ->
  exists outs qf, q_run x ops = Some (outs, qf) /\ Forall (fun o => o = fst (q_compose C vc q1)) outs /\ (qf = q1 \/ qf = settle_q q1).
Proof.
  intros Hte Hsrc Hp.
  pose proof (q_prepare_idem now q q1 Hte Hsrc Hp) as Hidem.
  assert (Hq1 : te_simple (q_hdrs q1) = true /\ src_ok (b_src (q_body q1)) = true).
  { rewrite (q_prepare_closed now q Hte Hsrc) in Hp. injection Hp as <-. split; [apply (qH_te_simple now q Hte) | cbn; apply src_after_ok]. }
  destruct Hq1 as [Hte1 Hs1].
  induction ops as [|o ops IH]; intros x Hx.
  - exists [], x. split; [reflexivity|]. split; [constructor | exact Hx].
  - destruct o; cbn [q_run].
    + assert (E : q_prepare now x = Some q1).
      { destruct Hx as [->| ->]; [exact Hidem|]. rewrite (q_prepare_settle now q1 Hte1 Hs1). exact Hidem. }
      rewrite E. apply IH. left. reflexivity.
    + rewrite (q_compose_spec x).
      assert (Eo : fst (q_compose C vc x) = fst (q_compose C vc q1)) by (destruct Hx as [->| ->]; [reflexivity | apply q_compose_settle, Hs1]).
      assert (Es : settle_q x = settle_q q1) by (destruct Hx as [->| ->]; [reflexivity | apply settle_q_idem]).
      destruct (IH (settle_q x) (or_intror Es)) as [outs [qf [R [F Q]]]]. rewrite R. exists (fst (q_compose C vc x) :: outs), qf.
      split; [reflexivity|]. split; [constructor; [exact Eo | exact F] | exact Q].
Qed.

End RequestRuns.

(* ================================================================== responses: composing any number of times *)
Definition settle_r (r : response) : response := r_with r (r_hdrs r) (settle_body (r_body r)).

Section ResponseRuns.
Variable C : ccallees.
Variable vc : variant.

Lemma r_compose_spec r : r_compose C vc r = (fst (r_compose C vc r), settle_r r).
Proof. unfold r_compose, settle_r. rewrite body_iter_spec. reflexivity. Qed.

Lemma r_compose_settle r : src_ok (b_src (r_body r)) = true -> fst (r_compose C vc (settle_r r)) = fst (r_compose C vc r).
Proof.
  intros H. unfold r_compose, settle_r. cbn [r_with r_version r_code r_reason r_hdrs r_body].
  pose proof (body_iter_again C vc (r_body r) H) as E. destruct (body_iter C vc (settle_body (r_body r))) as [o1 b1].
  destruct (body_iter C vc (r_body r)) as [o2 b2]. cbn [fst] in *. rewrite E. reflexivity.
Qed.

Lemma settle_r_idem r : settle_r (settle_r r) = settle_r r.
Proof. unfold settle_r. cbn [r_with r_version r_code r_reason r_rmethod r_hdrs r_body]. rewrite settle_body_idem. reflexivity. Qed.

(* compose k times *)
Fixpoint r_compose_n (k : nat) (r : response) : list bytes * response :=
  match k with
  | O => ([], r)
  | S k' => let (o, r') := r_compose C vc r in let (os, rf) := r_compose_n k' r' in (o :: os, rf)
  end.

Theorem r_compose_repeatable r : src_ok (b_src (r_body r)) = true ->
  forall k, Forall (fun o => o = fst (r_compose C vc r)) (fst (r_compose_n k r)) /\
            (snd (r_compose_n k r) = r \/ snd (r_compose_n k r) = settle_r r).
Proof.
  intros Hs k.
  assert (G : forall k x, x = r \/ x = settle_r r ->
            Forall (fun o => o = fst (r_compose C vc r)) (fst (r_compose_n k x)) /\ (snd (r_compose_n k x) = r \/ snd (r_compose_n k x) = settle_r r)).
  { clear k. induction k as [|k IH]; intros x Hx; [split; [constructor | exact Hx]|].
    cbn [r_compose_n]. rewrite (r_compose_spec x).
    assert (Eo : fst (r_compose C vc x) = fst (r_compose C vc r)) by (destruct Hx as [->| ->]; [reflexivity | apply r_compose_settle, Hs]).
    assert (Es : settle_r x = settle_r r) by (destruct Hx as [->| ->]; [reflexivity | apply settle_r_idem]).
    destruct (IH (settle_r x) (or_intror Es)) as [F Q]. destruct (r_compose_n k (settle_r x)) as [os rf]. cbn [fst snd] in *.
    split; [constructor; [exact Eo | exact F] | exact Q]. }
  apply G. left. reflexivity.
Qed.

End ResponseRuns.

(* Lemmas for C17: Digest access authentication (Model/Digest.v). *)
From Httoop Require Import Lib.Bytes Lib.Variant Gen.AuthT Model.AuthCommon Model.Basic Model.Digest.
From Httoop Require Import Proofs.AuthCommon.
Local Open Scope N_scope.

(* ---------- table lemmas: the algorithm registry (re-checked whenever the table changes) ---------- *)
Lemma alg_text_md5 : alg_of_text (L "MD5") = Ok 0.
Proof. vm_compute. reflexivity. Qed.
Lemma alg_text_md5sess : alg_of_text (L "MD5-sess") = Ok 0.
Proof. vm_compute. reflexivity. Qed.
Lemma alg_bytes_md5 : alg_of_bytes (L "MD5") = Ok 0.
Proof. vm_compute. reflexivity. Qed.
Lemma alg_bytes_md5sess : alg_of_bytes (L "MD5-sess") = Ok 0.
Proof. vm_compute. reflexivity. Qed.

(* ---------- RFC 2617 section 3.2.2, written from the RFC text ---------- *)
Inductive qop_t := QNone | QAuth | QAuthInt.
Inductive alg_t := AUnspec | AMD5 | AMD5sess.
Record tuple := mkT {
  t_user : bytes; t_realm : bytes; t_passwd : bytes; t_nonce : bytes; t_nc : bytes; t_cnonce : bytes;
  t_method : bytes; t_uri : bytes; t_body : bytes
}.

Definition qop_value (q : qop_t) : option bytes :=
  match q with QNone => None | QAuth => Some (L "auth") | QAuthInt => Some (L "auth-int") end.
Definition alg_value (a : alg_t) : option bytes :=
  match a with AUnspec => None | AMD5 => Some (L "MD5") | AMD5sess => Some (L "MD5-sess") end.

Section RFC.
Variable H : N -> bytes -> bytes.

(* unq(x) ":" unq(y) *)
Definition cat (x y : bytes) : bytes := x ++ [COLON] ++ y.
(* H = MD5 in lower-case hex; KD(secret, data) = H(concat(secret, ":", data)) *)
Definition Hmd5 : bytes -> bytes := H 0.
Definition KD (secret data : bytes) : bytes := Hmd5 (cat secret data).

(* 3.2.2.2 *)
Definition rfc_A1 (a : alg_t) (t : tuple) : bytes :=
  match a with
  | AMD5sess => cat (Hmd5 (cat (t_user t) (cat (t_realm t) (t_passwd t)))) (cat (t_nonce t) (t_cnonce t))
  | _ => cat (t_user t) (cat (t_realm t) (t_passwd t))
  end.
(* 3.2.2.3 *)
Definition rfc_A2 (q : qop_t) (t : tuple) : bytes :=
  match q with
  | QAuthInt => cat (t_method t) (cat (t_uri t) (Hmd5 (t_body t)))
  | _ => cat (t_method t) (t_uri t)
  end.
(* 3.2.2.1 *)
Definition rfc_response (q : qop_t) (a : alg_t) (t : tuple) : bytes :=
  match qop_value q with
  | Some qv => KD (Hmd5 (rfc_A1 a t)) (cat (t_nonce t) (cat (t_nc t) (cat (t_cnonce t) (cat qv (Hmd5 (rfc_A2 q t))))))
  | None => KD (Hmd5 (rfc_A1 a t)) (cat (t_nonce t) (Hmd5 (rfc_A2 q t)))
  end.

(* the dict a client hands to Authorization('Digest', ...): the nine values, qop and algorithm as chosen,
   optionally a cached session key, a response, an opaque value *)
Definition client (q : qop_t) (a : alg_t) (t : tuple) (a1 resp opaque : option bytes) : authinfo :=
  mkAuth (Some (t_user t)) (Some (t_realm t)) (Some (t_passwd t)) (Some (t_nonce t)) (Some (t_nc t)) (Some (t_cnonce t))
         (qop_value q) (Some (t_method t)) (Some (t_uri t)) (Some (t_body t)) (alg_value a) a1 resp opaque None.

(* the computed request digest is the RFC's, for all nine combinations *)
Theorem calc_digest_rfc q a t resp opaque :
  calc_digest H Repaired (client q a t None resp opaque) = Ok (rfc_response q a t).
Proof. destruct q, a; vm_compute; reflexivity. Qed.

(* ... also when the session key A1 of MD5-sess is supplied instead of being recomputed *)
Theorem calc_digest_rfc_cached_A1 q t resp opaque : rfc_A1 AMD5sess t <> [] ->
  calc_digest H Repaired (client q AMD5sess t (Some (rfc_A1 AMD5sess t)) resp opaque) = Ok (rfc_response q AMD5sess t).
Proof.
  intros Hne. unfold calc_digest. cbn [client d_algorithm d_A1 odefault alg_value].
  rewrite alg_text_md5sess. cbn [bind]. rewrite bytes_eqb_refl. cbn [andb truthy].
  destruct (rfc_A1 AMD5sess t) as [|x r] eqn:E; [congruence|]. cbn [truthy].
  destruct q; vm_compute; rewrite <- E; vm_compute; reflexivity.
Qed.

(* a cached A1 is ignored for the other algorithms *)
Theorem calc_digest_rfc_A1_ignored q a t a1 resp opaque : a <> AMD5sess ->
  calc_digest H Repaired (client q a t a1 resp opaque) = Ok (rfc_response q a t).
Proof. intros Ha. destruct q, a; try congruence; vm_compute; reflexivity. Qed.

(* pinned tree (finding D22): eight combinations agree, auth-int with the algorithm left out raises KeyError *)
Definition d22_free (q : qop_t) (a : alg_t) : bool :=
  match q, a with QAuthInt, AUnspec => false | _, _ => true end.

Theorem calc_digest_rfc_asfound q a t resp opaque : d22_free q a = true ->
  calc_digest H AsFound (client q a t None resp opaque) = Ok (rfc_response q a t).
Proof. destruct q, a; try discriminate; intros _; vm_compute; reflexivity. Qed.

Theorem calc_digest_asfound_refuted t resp opaque :
  calc_digest H AsFound (client QAuthInt AUnspec t None resp opaque) = Err (EKey (L "algorithm")).
Proof. vm_compute. reflexivity. Qed.
End RFC.

(* ====================== parameters survive compose / parse ====================== *)
Definition fmt (kv : bytes * bytes) : bytes := formatparam (fst kv) (snd kv).
Definition kv_ok (kv : bytes * bytes) : bool := key_ok (fst kv) && pv_ok (snd kv).
Definition kv_plain (kv : bytes * bytes) : bool := pv_plain (snd kv).

Lemma digest_parse_base_eq info : digest_parse_base info = map parse_atom (atoms_of info).
Proof. reflexivity. Qed.

(* DigestAuthScheme.parse inverts DigestAuthScheme.compose on every list of well-formed parameters *)
Lemma digest_parse_base_compose ps : ps <> [] -> forallb kv_ok ps = true ->
  digest_parse_base (join [COMMA; SP] (map fmt ps)) = ps.
Proof.
  intros Hne Hall. rewrite digest_parse_base_eq.
  assert (F : Forall (fun x => x <> [] /\ absent COMMA x = true /\ ends_ok is_ws x = true) (map fmt ps)).
  { apply Forall_forall. intros x Hx. apply in_map_iff in Hx as [kv [<- Hin]].
    rewrite forallb_forall in Hall. specialize (Hall kv Hin). unfold kv_ok in Hall.
    apply andb_true_iff in Hall as [Hk Hv]. apply format_atom_ok; assumption. }
  destruct ps as [|kv rest]; [congruence|]. cbn [map] in *.
  rewrite atoms_of_join by exact F.
  change (map parse_atom (fmt kv :: map fmt rest)) with (map parse_atom (map fmt (kv :: rest))).
  rewrite map_map. clear F Hne. induction (kv :: rest) as [|[k v] l IH]; [reflexivity|].
  cbn [forallb] in Hall. apply andb_true_iff in Hall as [H1 H2]. cbn [map]. rewrite (IH H2). f_equal.
  unfold kv_ok in H1. cbn [fst snd] in H1. apply andb_true_iff in H1 as [Hk Hv].
  unfold fmt. cbn [fst snd]. apply parse_atom_format; assumption.
Qed.

Lemma compose_no_eqqm ps : forallb kv_ok ps = true -> forallb kv_plain ps = true ->
  has2 EQS QM (join [COMMA; SP] (map fmt ps)) = false /\ headb QM (join [COMMA; SP] (map fmt ps)) = false.
Proof.
  intros Hok Hpl. apply join_no_eqqm. apply Forall_forall. intros x Hx. apply in_map_iff in Hx as [kv [<- Hin]].
  rewrite forallb_forall in Hok, Hpl. specialize (Hok kv Hin). specialize (Hpl kv Hin).
  unfold kv_ok in Hok. apply andb_true_iff in Hok as [Hk Hv]. apply format_no_eqqm; assumption.
Qed.

(* lower-case hexadecimal digests are harmless parameter values *)
Definition is_lhex (c : byte) : bool := let n := bN c in ((48 <=? n) && (n <=? 57)) || ((97 <=? n) && (n <=? 102)).
Definition hexlike (l : bytes) : bool := negb (is_empty l) && forallb is_lhex l.

Lemma lhex_props c : is_lhex c = true ->
  (negb (beq c COMMA) && negb (beq c DQ) && negb (beq c BSL) && negb (beq c QM) && negb (is_ws c))%bool = true.
Proof.
  intros H. assert (G : implb (is_lhex c) (negb (beq c COMMA) && negb (beq c DQ) && negb (beq c BSL) && negb (beq c QM) && negb (is_ws c)) = true).
  { revert c H. intros c _. revert c. apply forall_byte. vm_compute. reflexivity. }
  rewrite H in G. exact G.
Qed.

Lemma forallb_imp {T} (p q : T -> bool) l : (forall c, p c = true -> q c = true) -> forallb p l = true -> forallb q l = true.
Proof.
  intros Hpq. induction l as [|c r IH]; [reflexivity|]. cbn. intros H. apply andb_true_iff in H as [H1 H2].
  rewrite (Hpq c H1), (IH H2). reflexivity.
Qed.

Lemma hexlike_ok l : hexlike l = true -> pv_ok l = true /\ pv_plain l = true /\ l <> [].
Proof.
  unfold hexlike. intros H. apply andb_true_iff in H as [Hne Hall].
  assert (P : forall (f : byte -> bool), (forall c, is_lhex c = true -> f c = true) -> forallb f l = true).
  { intros f Hf. apply (forallb_imp is_lhex); assumption. }
  assert (A1 : absent COMMA l = true).
  { apply P. intros c Hc. apply lhex_props in Hc. repeat (apply andb_true_iff in Hc as [Hc ?]). assumption. }
  assert (A2 : absent DQ l = true).
  { apply P. intros c Hc. apply lhex_props in Hc. repeat (apply andb_true_iff in Hc as [Hc ?]). assumption. }
  assert (A3 : absent BSL l = true).
  { apply P. intros c Hc. apply lhex_props in Hc. repeat (apply andb_true_iff in Hc as [Hc ?]). assumption. }
  assert (A4 : absent QM l = true).
  { apply P. intros c Hc. apply lhex_props in Hc. repeat (apply andb_true_iff in Hc as [Hc ?]). assumption. }
  assert (A5 : forallb (fun c => negb (is_ws c)) l = true).
  { apply P. intros c Hc. apply lhex_props in Hc. repeat (apply andb_true_iff in Hc as [Hc ?]). assumption. }
  repeat split.
  - unfold pv_ok. rewrite A1, A2, A3, (ends_ok_all is_ws l A5), orb_true_r. reflexivity.
  - unfold pv_plain. rewrite (has2_absent EQS QM l A4). reflexivity.
  - destruct l; [discriminate Hne | discriminate].
Qed.

Lemma remove_absent x l : absent x l = true -> remove_byte x l = l.
Proof.
  induction l as [|c r IH]; [reflexivity|]. rewrite absent_cons. intros H. apply andb_true_iff in H as [H1 H2].
  unfold remove_byte in *. cbn [filter]. rewrite H1, (IH H2). reflexivity.
Qed.

Section Survive.
Variable H : N -> bytes -> bytes.
Variable fresh : bytes.
Hypothesis H_hex : forall x, hexlike (H 0 x) = true.

(* the parameters a client's field carries, in the order of DigestAuthRequestScheme._compose *)
Definition plist (q : qop_t) (a : alg_t) (t : tuple) (opaque : option bytes) (resp : bytes) : alist :=
  somes [(L "username", Some (t_user t)); (L "realm", Some (t_realm t)); (L "nonce", Some (t_nonce t)); (L "uri", Some (t_uri t));
         (L "response", Some resp); (L "algorithm", alg_value a);
         (L "cnonce", match q with QNone => None | _ => Some (t_cnonce t) end);
         (L "opaque", opaque); (L "qop", qop_value q);
         (L "nc", match q with QNone => None | _ => Some (t_nc t) end)].

(* the values that travel in the field (finding D23 and the RFC 2047 path excluded) *)
Definition val_ok (v : bytes) : bool := pv_ok v && pv_plain v.
Definition tuple_ok (t : tuple) (opaque : option bytes) : bool :=
  val_ok (t_user t) && val_ok (t_realm t) && val_ok (t_nonce t) && negb (is_empty (t_nonce t)) && val_ok (t_uri t) &&
  val_ok (t_cnonce t) && val_ok (t_nc t) && match opaque with Some o => val_ok o | None => true end.

Lemma tuple_ok_inv t o : tuple_ok t o = true ->
  val_ok (t_user t) = true /\ val_ok (t_realm t) = true /\ val_ok (t_nonce t) = true /\ t_nonce t <> [] /\
  val_ok (t_uri t) = true /\ val_ok (t_cnonce t) = true /\ val_ok (t_nc t) = true /\
  match o with Some x => val_ok x = true | None => True end.
Proof.
  unfold tuple_ok. intros G.
  apply andb_true_iff in G as [G G8]. apply andb_true_iff in G as [G G7]. apply andb_true_iff in G as [G G6].
  apply andb_true_iff in G as [G G5]. apply andb_true_iff in G as [G G4]. apply andb_true_iff in G as [G G3].
  apply andb_true_iff in G as [G1 G2].
  repeat split; try assumption.
  - destruct (t_nonce t); [discriminate G4 | discriminate].
  - destruct o; [assumption | exact I].
Qed.

Lemma val_ok_inv v : val_ok v = true -> pv_ok v = true /\ pv_plain v = true.
Proof. unfold val_ok. intros G. apply andb_true_iff in G. exact G. Qed.

Lemma forallb_cons_intro {T} (P : T -> bool) x l : P x = true -> forallb P l = true -> forallb P (x :: l) = true.
Proof. intros H1 H2. cbn. rewrite H1, H2. reflexivity. Qed.

Lemma plist_ok q a t o resp : tuple_ok t o = true -> hexlike resp = true ->
  forallb kv_ok (plist q a t o resp) = true /\ forallb kv_plain (plist q a t o resp) = true /\ plist q a t o resp <> [].
Proof.
  intros Ht Hr. destruct (tuple_ok_inv t o Ht) as (U & R & N & _ & I & C & NC & O).
  destruct (hexlike_ok resp Hr) as (R1 & R2 & _).
  apply val_ok_inv in U as [U1 U2]. apply val_ok_inv in R as [Rl1 Rl2]. apply val_ok_inv in N as [N1 N2].
  apply val_ok_inv in I as [I1 I2]. apply val_ok_inv in C as [C1 C2]. apply val_ok_inv in NC as [NC1 NC2].
  assert (K : forall k v, key_ok k = true -> pv_ok v = true -> kv_ok (k, v) = true).
  { intros k v Hk Hv. unfold kv_ok. cbn [fst snd]. rewrite Hk, Hv. reflexivity. }
  assert (P : forall k v, pv_plain v = true -> kv_plain (k, v) = true) by (intros k v Hv; exact Hv).
  destruct o as [ov|]; [apply val_ok_inv in O as [O1 O2]|];
  destruct q, a; unfold plist; cbn [somes flat_map fst snd app qop_value alg_value];
  (split; [|split; [|discriminate]]);
  repeat (apply forallb_cons_intro;
          [ first [ apply K; [vm_compute; reflexivity | first [assumption | vm_compute; reflexivity]]
                  | apply P; first [assumption | vm_compute; reflexivity] ] | ]);
  reflexivity.
Qed.

Lemma compose_params q a t o : tuple_ok t o = true ->
  digest_compose_params H fresh Repaired (client q a t None None o) = Ok (plist q a t o (rfc_response H q a t)).
Proof.
  intros Ht. destruct (tuple_ok_inv t o Ht) as (_ & _ & N & Nne & _).
  apply val_ok_inv in N as [N1 _]. destruct (pv_ok_inv _ N1) as (_ & Ndq & _).
  unfold digest_compose_params.
  rewrite (calc_digest_rfc H q a t None o).
  cbn [client d_username d_realm d_uri d_nonce d_qop d_cnonce d_nc d_response d_algorithm d_opaque d_authparam req bind odefault truthy].
  rewrite (remove_absent DQ (t_nonce t) Ndq).
  destruct (t_nonce t) as [|n0 nr] eqn:En; [congruence|]. cbn [is_empty]. rewrite <- En.
  destruct q, a; cbn [qop_value truthy L of_asciilit bind fst snd]; unfold plist; rewrite app_nil_r; reflexivity.
Qed.

Lemma parse_params q a t o resp : digest_parse_params (plist q a t o resp) = Ok (plist q a t o resp).
Proof. destruct q, a, o; reflexivity. Qed.

(* scheme level: DigestAuthRequestScheme.parse(DigestAuthRequestScheme.compose(p)) returns every parameter *)
Theorem digest_scheme_roundtrip q a t o : tuple_ok t o = true ->
  exists field, digest_compose H fresh Repaired (client q a t None None o) = Ok field /\
                digest_parse field = Ok (plist q a t o (rfc_response H q a t)).
Proof.
  intros Ht. destruct (plist_ok q a t o (rfc_response H q a t) Ht) as (Hok & _ & Hne).
  { unfold rfc_response. destruct (qop_value q); apply H_hex. }
  eexists. split.
  - unfold digest_compose. rewrite (compose_params q a t o Ht). cbn [bind]. reflexivity.
  - unfold digest_parse. change (fun kv : bytes * bytes => formatparam (fst kv) (snd kv)) with fmt.
    rewrite (digest_parse_base_compose _ Hne Hok). apply parse_params.
Qed.

(* element level: Authorization / Proxy-Authorization, any spelling of the scheme name *)
Definition digest_rt (sv wv : variant) (value : bytes) (d : authinfo) : pres :=
  match auth_compose (digest_compose H fresh Repaired) wv value d with
  | Ok field => auth_parse digest_parse sv field
  | Err e => PErr e
  end.

Theorem digest_roundtrip sv wv value q a t o : scheme_of value = Some 1 -> tuple_ok t o = true ->
  digest_rt sv wv value (client q a t None None o) = POk (L "Digest") (plist q a t o (rfc_response H q a t)).
Proof.
  intros Hs Ht. destruct (plist_ok q a t o (rfc_response H q a t) Ht) as (Hok & Hpl & Hne).
  { unfold rfc_response. destruct (qop_value q); apply H_hex. }
  unfold digest_rt, auth_compose. rewrite Hs. cbn [N.eqb Pos.eqb].
  unfold digest_compose. rewrite (compose_params q a t o Ht). cbn [bind key_to_missing].
  rewrite (digest_title value Hs).
  change (fun kv : bytes * bytes => formatparam (fst kv) (snd kv)) with fmt.
  set (field := join [COMMA; SP] (map fmt (plist q a t o (rfc_response H q a t)))).
  destruct (compose_no_eqqm _ Hok Hpl) as [G1 G2]. fold field in G1, G2.
  unfold auth_parse, rfc2047_guard.
  assert (E : has2 EQS QM (L "Digest" ++ [SP] ++ field) = false).
  { change (L "Digest" ++ [SP] ++ field) with ((L "Digest" ++ [SP]) ++ field).
    apply has2_app_false; [reflexivity | exact G1 | exact G2]. }
  rewrite E. cbn [app]. rewrite (cut1_app SP (L "Digest") field) by reflexivity.
  rewrite scheme_of_Digest. cbn [N.eqb Pos.eqb]. rewrite title_Digest.
  unfold digest_parse, field. rewrite (digest_parse_base_compose _ Hne Hok), parse_params. reflexivity.
Qed.

(* ====================== verification ====================== *)
(* what the server assembles: the parsed parameters plus its own realm, the password and the request data *)
Definition server_info (ps : alist) (realm passwd method body : bytes) (a1 : option bytes) : authinfo :=
  mkAuth (lookup (L "username") ps) (Some realm) (Some passwd) (lookup (L "nonce") ps) (lookup (L "nc") ps)
         (lookup (L "cnonce") ps) (lookup (L "qop") ps) (Some method) (lookup (L "uri") ps) (Some body)
         (lookup (L "algorithm") ps) a1 (lookup (L "response") ps) (lookup (L "opaque") ps) None.

(* check() = true exactly when the realms are equal and the recomputed digest is the presented one *)
Theorem check_true_iff v d rp :
  digest_check H v d rp = Ok true <->
  exists realm resp, d_realm d = Some realm /\ lookup (L "realm") rp = Some realm /\
                     calc_digest H v d = Ok resp /\ lookup (L "response") rp = Some resp.
Proof.
  unfold digest_check. split.
  - destruct (d_realm d) as [r|]; [|discriminate]. destruct (lookup (L "realm") rp) as [r'|]; [|discriminate].
    cbn [req bind]. destruct (bytes_eqb r r') eqn:E; [|discriminate]. cbn [negb].
    apply bytes_eqb_eq in E. subst r'.
    destruct (calc_digest H v d) as [x|]; [|discriminate]. cbn [bind].
    destruct (lookup (L "response") rp) as [x'|]; [|discriminate]. cbn [req bind].
    intros G. injection G as G. apply bytes_eqb_eq in G. subst x'. exists r, x. repeat split; reflexivity.
  - intros (r & x & H1 & H2 & H3 & H4). rewrite H1, H2. cbn [req bind]. rewrite bytes_eqb_refl. cbn [negb].
    rewrite H3. cbn [bind]. rewrite H4. cbn [req bind]. rewrite bytes_eqb_refl. reflexivity.
Qed.

(* ... and false when both are present but differ *)
Theorem check_false_iff v d rp realm realm' resp resp' :
  d_realm d = Some realm -> lookup (L "realm") rp = Some realm' ->
  calc_digest H v d = Ok resp -> lookup (L "response") rp = Some resp' ->
  digest_check H v d rp = Ok (bytes_eqb realm realm' && bytes_eqb resp resp').
Proof.
  intros H1 H2 H3 H4. unfold digest_check. rewrite H1, H2. cbn [req bind].
  destruct (bytes_eqb realm realm'); cbn [negb andb]; [|reflexivity].
  rewrite H3. cbn [bind]. rewrite H4. reflexivity.
Qed.

(* MD5-sess without qop: the field carries no cnonce, so A1 cannot be recomputed - the server needs the session key *)
Definition verifiable (q : qop_t) (a : alg_t) : bool :=
  match q, a with QNone, AMD5sess => false | _, _ => true end.

(* soundness: the field a client composed verifies against the same password and request data *)
Theorem check_accepts q a t o : verifiable q a = true ->
  let ps := plist q a t o (rfc_response H q a t) in
  digest_check H Repaired (server_info ps (t_realm t) (t_passwd t) (t_method t) (t_body t) None) ps = Ok true.
Proof.
  intros Hv ps. apply check_true_iff. exists (t_realm t), (rfc_response H q a t). subst ps.
  split; [reflexivity|]. split; [destruct q, a, o; reflexivity|].
  split; [|destruct q, a, o; reflexivity].
  destruct q, a, o; try discriminate; vm_compute; reflexivity.
Qed.

(* with the session key kept from the first request every combination verifies *)
Theorem check_accepts_cached_A1 q t o : rfc_A1 H AMD5sess t <> [] ->
  let ps := plist q AMD5sess t o (rfc_response H q AMD5sess t) in
  digest_check H Repaired (server_info ps (t_realm t) (t_passwd t) (t_method t) (t_body t) (Some (rfc_A1 H AMD5sess t))) ps = Ok true.
Proof.
  intros Hne ps. apply check_true_iff. exists (t_realm t), (rfc_response H q AMD5sess t). subst ps.
  split; [reflexivity|]. split; [destruct q, o; reflexivity|].
  split; [|destruct q, o; reflexivity].
  unfold calc_digest.
  assert (A : d_algorithm (server_info (plist q AMD5sess t o (rfc_response H q AMD5sess t)) (t_realm t) (t_passwd t) (t_method t) (t_body t) (Some (rfc_A1 H AMD5sess t))) = Some (L "MD5-sess"))
    by (destruct q, o; reflexivity).
  rewrite A. cbn [odefault]. rewrite alg_text_md5sess. cbn [bind]. rewrite bytes_eqb_refl. cbn [andb server_info d_A1 truthy].
  destruct (rfc_A1 H AMD5sess t) as [|x r] eqn:E; [congruence|]. cbn [truthy odefault].
  destruct q, o; vm_compute; rewrite <- E; vm_compute; reflexivity.
Qed.
End Survive.

(* compose on the client, parse on the server, verify with the same password and request data *)
Theorem digest_end_to_end H fresh (H_hex : forall x, hexlike (H 0 x) = true) sv wv value q a t o :
  scheme_of value = Some 1 -> tuple_ok t o = true -> verifiable q a = true ->
  match digest_rt H fresh sv wv value (client q a t None None o) with
  | POk _ ps => digest_check H Repaired (server_info ps (t_realm t) (t_passwd t) (t_method t) (t_body t) None) ps = Ok true
  | _ => False
  end.
Proof.
  intros Hs Ht Hv. rewrite (digest_roundtrip H fresh H_hex sv wv value q a t o Hs Ht).
  apply (check_accepts H q a t o Hv).
Qed.

(* finding D23: a comma in a value is not survived (any hash with hexadecimal output) *)
Definition H_const : N -> bytes -> bytes := fun _ _ => L "0".
Definition t_comma : tuple := mkT (L "u") (L "r") (L "p") (L "n") (L "1") (L "c") (L "GET") (L "/a,b") (L "").

Theorem digest_roundtrip_comma_refuted :
  (forall x, hexlike (H_const 0 x) = true) /\ scheme_of (L "Digest") = Some 1 /\
  digest_rt H_const (L "") Repaired Repaired (L "Digest") (client QNone AUnspec t_comma None None None)
    <> POk (L "Digest") (plist QNone AUnspec t_comma None (rfc_response H_const QNone AUnspec t_comma)).
Proof. split; [intros x; reflexivity|]. split; [reflexivity|]. vm_compute. discriminate. Qed.

Example tuple_ok_mufasa :
  tuple_ok (mkT (L "Mufasa") (L "testrealm@host.com") (L "Circle Of Life") (L "dcd98b7102dd2f0e8b11d0f600bfb0c093")
                (L "00000001") (L "0a4f113b") (L "GET") (L "/dir/index.html?a=b&c=d e:f") (L "body"))
           (Some (L "5ccc069c403ebaf9f0171e9517f40e41")) = true.
Proof. vm_compute. reflexivity. Qed.

(* Lemmas for C16: Basic credentials (Model/Basic.v over the concrete base64 of Model/Base64.v). *)
From Httoop Require Import Lib.Bytes Lib.Variant Gen.Base64T Gen.AuthT Model.Base64 Model.AuthCommon Model.Basic.
From Httoop Require Import Proofs.Base64 Proofs.AuthCommon.
Local Open Scope N_scope.

(* ---------- the output characters of base64 are harmless for the surrounding syntax ---------- *)
Definition harmless (c : byte) : bool :=
  negb (is_ws c) && negb (beq c COLON) && negb (beq c QM) && negb (beq c SP) && negb (beq c B64NL).

Lemma out_harmless c : is_b64out c = true -> harmless c = true.
Proof.
  intros H. assert (G : implb (is_b64out c) (harmless c) = true).
  { revert c H. intros c _. revert c. apply forall_byte. vm_compute. reflexivity. }
  rewrite H in G. exact G.
Qed.

Lemma b64enc_harmless x : forallb harmless (b64enc x) = true.
Proof. apply (forallb_impl is_b64out); [apply out_harmless | apply b64enc_out]. Qed.

Lemma b64enc_no_ws x : forallb (fun c => negb (is_ws c)) (b64enc x) = true.
Proof.
  apply (forallb_impl harmless); [|apply b64enc_harmless]. intros c H. unfold harmless in H.
  repeat (apply andb_true_iff in H as [H ?]). exact H.
Qed.

Lemma b64enc_absent_qm x : absent QM (b64enc x) = true.
Proof.
  apply (forallb_impl harmless); [|apply b64enc_harmless]. intros c H. unfold harmless in H.
  repeat (apply andb_true_iff in H as [H ?]). assumption.
Qed.

Lemma b64enc_absent_sp x : absent SP (b64enc x) = true.
Proof.
  apply (forallb_impl harmless); [|apply b64enc_harmless]. intros c H. unfold harmless in H.
  repeat (apply andb_true_iff in H as [H ?]). assumption.
Qed.

Lemma b64enc_absent_nl x : absent B64NL (b64enc x) = true.
Proof.
  apply (forallb_impl harmless); [|apply b64enc_harmless]. intros c H. unfold harmless in H.
  repeat (apply andb_true_iff in H as [H ?]). assumption.
Qed.

Lemma nl_is_ws : is_ws B64NL = true.
Proof. vm_compute. reflexivity. Qed.

Lemma remove_nl_filter l : remove_byte B64NL l = filter not_nl l.
Proof. reflexivity. Qed.

(* ---------- scheme level ---------- *)
Definition cred (u p : bytes) : bytes := u ++ [COLON] ++ p.

Lemma cred_nonnil u p : cred u p <> [].
Proof. unfold cred. destruct u; discriminate. Qed.

(* the repaired composer: the unbroken encoding of user:password, whatever the length *)
Lemma basic_compose_repaired d u p : d_username d = Some u -> d_password d = Some p ->
  basic_compose Repaired d = Ok (b64enc (cred u p)).
Proof.
  intros Hu Hp. unfold basic_compose. rewrite Hu, Hp. cbn [req bind].
  rewrite remove_nl_filter, filter_nl_encodebytes. reflexivity.
Qed.

(* the composer of the pinned tree agrees as long as encodebytes produces one line *)
Lemma basic_compose_asfound_short d u p : d_username d = Some u -> d_password d = Some p ->
  (length (cred u p) <= N.to_nat B64_MAXBIN)%nat ->
  basic_compose AsFound d = Ok (b64enc (cred u p)).
Proof.
  intros Hu Hp Hl. unfold basic_compose. rewrite Hu, Hp. cbn [req bind].
  change (u ++ [COLON] ++ p) with (cred u p).
  rewrite (encodebytes_short (cred u p) (cred_nonnil u p) Hl).
  unfold strip_ws. rewrite strip_by_snoc; [reflexivity | | | apply nl_is_ws].
  - intros E. apply b64enc_nil_inv in E. exact (cred_nonnil u p E).
  - apply ends_ok_all. apply b64enc_no_ws.
Qed.

(* decoding side of the parser on an unbroken encoding *)
Lemma basic_parse_b64enc sv x :
  basic_parse sv (b64enc x) =
    match sv with
    | AsFound => match split1 COLON x with [u; p] => Ok (u, p) | _ => Err ENoColon end
    | Repaired => match cut1 COLON x with Some (u, p) => Ok (u, p) | None => Err ENoColon end
    end.
Proof.
  unfold basic_parse, strip_ws. rewrite strip_by_id by (apply ends_ok_all; apply b64enc_no_ws).
  unfold decodebytes. rewrite a2b_b64enc. reflexivity.
Qed.

Lemma basic_parse_repaired u p : absent COLON u = true ->
  basic_parse Repaired (b64enc (cred u p)) = Ok (u, p).
Proof. intros H. rewrite basic_parse_b64enc. unfold cred. cbn [app]. rewrite (cut1_app COLON u p H). reflexivity. Qed.

Lemma basic_parse_asfound u p : absent COLON u = true -> absent COLON p = true ->
  basic_parse AsFound (b64enc (cred u p)) = Ok (u, p).
Proof.
  intros Hu Hp. rewrite basic_parse_b64enc. unfold cred. cbn [app].
  rewrite (split1_app COLON u p Hu), (split1_absent COLON p Hp). reflexivity.
Qed.

(* credentials without any colon are refused by both variants *)
Lemma basic_parse_no_colon sv x : absent COLON x = true -> basic_parse sv (b64enc x) = Err ENoColon.
Proof.
  intros H. rewrite basic_parse_b64enc. destruct sv.
  - rewrite (split1_absent COLON x H). reflexivity.
  - rewrite (cut1_absent COLON x H). reflexivity.
Qed.

(* the composer of the pinned tree, any length: the result still decodes to user:password, it is only not one line *)
Lemma out_or_nl_not_qm c : out_or_nl c = true -> negb (beq c QM) = true.
Proof.
  intros H. assert (G : implb (out_or_nl c) (negb (beq c QM)) = true).
  { revert c H. intros c _. revert c. apply forall_byte. vm_compute. reflexivity. }
  rewrite H in G. exact G.
Qed.

Lemma out_not_ws c : is_b64out c = true -> is_ws c = false.
Proof.
  intros H. apply out_harmless in H. unfold harmless in H. repeat (apply andb_true_iff in H as [H ?]).
  apply negb_true_iff. exact H.
Qed.

Lemma basic_compose_asfound_any d u p : d_username d = Some u -> d_password d = Some p ->
  exists f, basic_compose AsFound d = Ok f /\ strip_ws f = f /\ decodebytes f = Some (cred u p) /\ absent QM f = true.
Proof.
  intros Hu Hp. unfold basic_compose. rewrite Hu, Hp. cbn [req bind].
  change (u ++ [COLON] ++ p) with (cred u p).
  destruct maxbin_ok as [_ Hpos].
  destruct (encodebytes_n_shape _ Hpos (cred u p) (cred_nonnil u p)) as (body & c & E & Hc & (c0 & r & E0 & Hc0) & Hb).
  fold (encodebytes (cred u p)) in E.
  assert (Eq : encodebytes (cred u p) = (body ++ [c]) ++ [B64NL]) by (rewrite E, <- app_assoc; reflexivity).
  assert (Hends : ends_ok is_ws (body ++ [c]) = true).
  { unfold ends_ok. rewrite E0. cbn [head_ok]. rewrite (out_not_ws c0 Hc0). cbn [negb andb].
    rewrite <- E0, rev_app_distr. cbn [rev app head_ok]. rewrite (out_not_ws c Hc). reflexivity. }
  exists (body ++ [c]). split; [|split; [|split]].
  - rewrite Eq. unfold strip_ws. rewrite strip_by_snoc; [reflexivity | destruct body; discriminate | exact Hends | apply nl_is_ws].
  - apply strip_by_id. exact Hends.
  - unfold decodebytes, a2b_base64. rewrite <- (a2b_app_nl (body ++ [c])), <- Eq. apply decodebytes_encodebytes.
  - rewrite absent_app. apply andb_true_iff. split.
    + apply (forallb_impl out_or_nl); [apply out_or_nl_not_qm | exact Hb].
    + cbn. rewrite andb_true_r. apply out_or_nl_not_qm. unfold out_or_nl. rewrite Hc. reflexivity.
Qed.

(* ---------- element level: Authorization / Proxy-Authorization ---------- *)
Section Element.
Variable dc : authinfo -> res bytes.
Variable dp : bytes -> res alist.

Lemma auth_compose_basic wv value d info : scheme_of value = Some 0 -> basic_compose wv d = Ok info ->
  auth_compose dc wv value d = Ok (L "Basic" ++ [SP] ++ info).
Proof.
  intros Hs Hc. unfold auth_compose. rewrite Hs. cbn [N.eqb]. rewrite Hc. cbn [key_to_missing bind].
  rewrite (basic_title value Hs). reflexivity.
Qed.

Lemma auth_parse_basic sv info : absent QM info = true ->
  auth_parse dp sv (L "Basic" ++ [SP] ++ info) =
    match basic_parse sv info with
    | Ok (u, p) => POk (L "Basic") [(L "username", u); (L "password", p)]
    | Err e => PErr e
    end.
Proof.
  intros Hq. unfold auth_parse.
  rewrite guard_absent_qm by (rewrite absent_app; cbn [app]; rewrite absent_cons, Hq; vm_compute; reflexivity).
  cbn [app]. rewrite (cut1_app SP (L "Basic") info) by (vm_compute; reflexivity).
  rewrite scheme_of_Basic. cbn [N.eqb]. rewrite title_Basic. reflexivity.
Qed.

(* the composed field: scheme, one space, unbroken base64 of user:password - for every length *)
Theorem basic_single_line value d u p : scheme_of value = Some 0 -> d_username d = Some u -> d_password d = Some p ->
  auth_compose dc Repaired value d = Ok (L "Basic" ++ [SP] ++ b64enc (cred u p)).
Proof. intros Hs Hu Hp. apply auth_compose_basic; [exact Hs | apply basic_compose_repaired; assumption]. Qed.

Theorem basic_single_line_asfound value d u p : scheme_of value = Some 0 -> d_username d = Some u -> d_password d = Some p ->
  (length (cred u p) <= N.to_nat B64_MAXBIN)%nat ->
  auth_compose dc AsFound value d = Ok (L "Basic" ++ [SP] ++ b64enc (cred u p)).
Proof. intros Hs Hu Hp Hl. apply auth_compose_basic; [exact Hs | apply basic_compose_asfound_short; assumption]. Qed.

(* compose, then parse: both through the element *)
Definition basic_rt (sv wv : variant) (value : bytes) (d : authinfo) : pres :=
  match auth_compose dc wv value d with
  | Ok field => auth_parse dp sv field
  | Err e => PErr e
  end.

Theorem basic_roundtrip value d u p : scheme_of value = Some 0 -> d_username d = Some u -> d_password d = Some p ->
  absent COLON u = true ->
  basic_rt Repaired Repaired value d = POk (L "Basic") [(L "username", u); (L "password", p)].
Proof.
  intros Hs Hu Hp Hc. unfold basic_rt. rewrite (basic_single_line value d u p Hs Hu Hp).
  rewrite auth_parse_basic by apply b64enc_absent_qm.
  rewrite (basic_parse_repaired u p Hc). reflexivity.
Qed.

(* the round trip does not depend on the line-wrapping half of D2: with the pinned composer the field still parses back *)
Theorem basic_roundtrip_anywrap wv value d u p : scheme_of value = Some 0 -> d_username d = Some u -> d_password d = Some p ->
  absent COLON u = true ->
  basic_rt Repaired wv value d = POk (L "Basic") [(L "username", u); (L "password", p)].
Proof.
  intros Hs Hu Hp Hc. destruct wv; [|apply basic_roundtrip; assumption].
  destruct (basic_compose_asfound_any d u p Hu Hp) as (f & Ef & Sf & Df & Qf).
  unfold basic_rt. rewrite (auth_compose_basic AsFound value d f Hs Ef).
  rewrite auth_parse_basic by exact Qf.
  unfold basic_parse. rewrite Sf, Df. unfold cred. cbn [app]. rewrite (cut1_app COLON u p Hc). reflexivity.
Qed.

(* pinned tree: true when the password has no colon either and the credentials fit on one base64 line *)
Theorem basic_roundtrip_asfound value d u p : scheme_of value = Some 0 -> d_username d = Some u -> d_password d = Some p ->
  absent COLON u = true -> absent COLON p = true -> (length (cred u p) <= N.to_nat B64_MAXBIN)%nat ->
  basic_rt AsFound AsFound value d = POk (L "Basic") [(L "username", u); (L "password", p)].
Proof.
  intros Hs Hu Hp Hc Hc' Hl. unfold basic_rt. rewrite (basic_single_line_asfound value d u p Hs Hu Hp Hl).
  rewrite auth_parse_basic by apply b64enc_absent_qm.
  rewrite (basic_parse_asfound u p Hc Hc'). reflexivity.
Qed.

(* a field whose credentials contain no colon at all is refused *)
Theorem basic_reject_no_colon sv x : absent COLON x = true ->
  auth_parse dp sv (L "Basic" ++ [SP] ++ b64enc x) = PErr ENoColon.
Proof.
  intros H. rewrite auth_parse_basic by apply b64enc_absent_qm. rewrite (basic_parse_no_colon sv x H). reflexivity.
Qed.
End Element.

(* the unbroken base64 part contains nothing but alphabet and pad characters *)
Theorem basic_field_unbroken u p : forallb is_b64out (b64enc (cred u p)) = true.
Proof. apply b64enc_out. Qed.

(* ---------- the pinned tree's behaviour (finding D2): witnesses ---------- *)
Definition mk_basic (u p : bytes) : authinfo :=
  mkAuth (Some u) None (Some p) None None None None None None None None None None None None.

Theorem basic_split_asfound_refuted dc dp : exists u p, absent COLON u = true /\
  basic_rt dc dp AsFound Repaired (L "Basic") (mk_basic u p) <> POk (L "Basic") [(L "username", u); (L "password", p)].
Proof. exists (L "a"), (L "b:c"). split; [reflexivity|]. vm_compute. discriminate. Qed.

Definition contains_byte (x : byte) (l : bytes) : bool := existsb (fun c => beq c x) l.

Theorem basic_wrap_asfound_refuted dc : exists u p field, absent COLON u = true /\
  auth_compose dc AsFound (L "Basic") (mk_basic u p) = Ok field /\ contains_byte B64NL field = true.
Proof.
  exists (repeat x75 40), (repeat x70 20). eexists. split; [reflexivity|]. split; vm_compute; reflexivity.
Qed.

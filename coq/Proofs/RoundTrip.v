(* C04: the parser model (Model/Parser.v, reference configuration) applied to the octets of the composer model
   (Model/Composer.v) delivers exactly one message with the same start line, the composed header fields and the
   body.  Content-Length framing rests on the exact-delivery theorem of Proofs/ParserWf.v (C02); the cases without
   body and with chunked framing / content coding are proved here. *)
From Coq Require Import Lia Permutation ZArith.
From Httoop Require Import Model.Composer Model.Http1Reader Proofs.HeadersP Proofs.SplitP Proofs.Http1ReaderP
  Proofs.ComposerNum Proofs.ComposerHdrs Proofs.ComposerBody Proofs.ComposerFraming Proofs.ComposerRepeat Proofs.ComposerParse.
From Httoop Require Import Model.Parser Proofs.DecimalP Proofs.ParserFuel Proofs.ParserFraming Proofs.ParserFrag Proofs.ParserWf.
Local Open Scope N_scope.

Notation L := reference.

Lemma parse_nothing PC k : parse L PC k init [] = (init, [], None).
Proof. reflexivity. Qed.

Section RoundTrip.
Variable C : ccallees.
Variable PC : callees.
Variable k : kind.
Hypothesis HC : lsplit_clean C.

Definition host_ok (info : slinfo) (h : hdrs) : bool :=
  match k with Server => negb (p11 info) || hmem H_HOST h | Client => true end.
Definition body_allowed (info : slinfo) (body : bytes) : bool :=
  match k with Server => negb (nobody info && nonempty_b body) | Client => true end.

Lemma hmem_delivered key h : hdrs_ok h = true -> hmem key (delivered_hdrs h) = hmem key h.
Proof. intros H. rewrite !hmem_hget, (hget_delivered key h H). destruct (hget key h); reflexivity. Qed.

(* ---- Content-Length framing ---- *)
Theorem parse_composed_length line info h body :
  no_lf line = true -> c_start PC line = SlOk info ->
  hdrs_ok h = true -> no_list_fields h = true -> h <> [] ->
  hget H_TE h = None -> hget H_CE h = None -> hget H_CL h = Some (dec_print (Composer.blen body)) ->
  host_ok info h = true -> c_hdrs PC (p11 info) (delivered_hdrs h) = HOk -> connect_response PC k line = false ->
  N.of_nat (List.length (dec_of_N (N.of_nat (List.length body)))) <= INT_MAX_STR_DIGITS ->
  body_allowed info body = true ->
  parse L PC k init (line ++ CRLF ++ hcompose C h ++ body) =
    (init, [ {| m_line := line; m_hdrs := delivered_hdrs h; m_body := body |} ], None).
Proof.
  intros Hline Hstart Hok Hnl Hne Hte Hce Hcl Hhost Hhd Hnc Hdig Hbody.
  destruct (composed_block C h HC Hok Hnl Hne) as [E1 [E2 [E3 [E4 E5]]]]. cbv zeta in *.
  set (block := join_with CRLF (map line_of (sort_items h))) in *.
  rewrite E1. replace (line ++ CRLF ++ (block ++ CRLF ++ CRLF) ++ body) with (line ++ CRLF ++ block ++ CRLF ++ CRLF ++ body ++ [])
    by (rewrite app_nil_r, <- !app_assoc; reflexivity).
  rewrite (content_length_message_exact PC k line info block (delivered_hdrs h) body []); [reflexivity | | | | | | | | | | | | | |].
  - apply cut_CRLF_none, Hline.
  - exact Hstart.
  - exact E2.
  - exact E3.
  - exact E4.
  - exact E5.
  - unfold host_ok in Hhost. destruct k; [|reflexivity]. change K_HOST with H_HOST. rewrite (hmem_delivered H_HOST h Hok).
    destruct (p11 info); [cbn [negb orb andb] in *; rewrite Hhost; reflexivity | reflexivity].
  - exact Hhd.
  - exact Hnc.
  - change K_TE with H_TE. rewrite (hget_delivered H_TE h Hok), Hte. reflexivity.
  - change K_CE with H_CE. rewrite (hget_delivered H_CE h Hok), Hce. reflexivity.
  - change K_CL with H_CL. rewrite (hget_delivered H_CL h Hok), Hcl. cbn [option_map]. rewrite stripv_clean_digits, dec_print_dec_of_N. reflexivity.
  - exact Hdig.
  - unfold body_allowed in Hbody. destruct k; [|reflexivity]. apply negb_true_iff in Hbody. exact Hbody.
Qed.


(* ---- the start line and header section of a composed message, up to the body phase ---- *)
Definition after_hdrs (line : bytes) (info : slinfo) (h : hdrs) : inflight :=
  {| i_line := line; i_le := LE_CRLF; i_info := info; i_phase := PBody; i_hdrs := h; i_ce := hget K_CE h;
     i_len := None; i_chunked := false; i_trailer := false; i_body := [] |}.

Lemma headers_phase line info block h rest :
  cut CRLF line = None -> c_start PC line = SlOk info ->
  block <> [] -> prefixb CRLF block = false -> cut (CRLF ++ CRLF) (block ++ CRLF) = None ->
  hparse [] block = Some h ->
  (match k with Server => p11 info && negb (hmem K_HOST h) | Client => false end) = false ->
  c_hdrs PC (p11 info) h = HOk -> connect_response PC k line = false ->
  turn_of L PC k {| buf := line ++ CRLF ++ block ++ CRLF ++ CRLF ++ rest; cur := None |} =
  after_headers L PC k (after_hdrs line info h) rest.
Proof.
  intros Hline Hstart Hbne Hbpre Hbcut Hparse Hhost Hhdrs Hnc.
  rewrite turn_of_eq. cbn [cur buf].
  unfold parse_startline. cbn [allow_lf reference andb].
  assert (Ecut : cut CRLF (line ++ CRLF ++ block ++ CRLF ++ CRLF ++ rest) = Some (line, block ++ CRLF ++ CRLF ++ rest)).
  { apply (cut_CRLF_none_app line _ Hline). }
  unfold contains. rewrite Ecut. cbn [le_bytes]. rewrite Ecut, Hstart.
  rewrite after_startline_eq. cbn [i_phase i_le i_hdrs].
  unfold parse_headers. cbn [le_bytes eager_hdr reference negb].
  pose proof (prefixb_CRLF_block block (CRLF ++ rest) Hbne Hbpre) as Epre.
  rewrite Epre, (cut_CRLF2_none_app block rest Hbcut (or_intror I)).
  unfold parse_block. destruct block as [|c0 block]; [congruence|]. cbn [nonempty_b]. rewrite Hparse.
  unfold on_headers_complete. cbn [i_hdrs i_line set_phase set_hdrs i_info]. rewrite Hhost, Hhdrs, (hc_hdrs_plain PC k line h Hnc).
  reflexivity.
Qed.

(* a whole parse() call on one message: one turn that delivers [m] and empties the buffer *)
Lemma parse_one_turn S0 m : S0 <> [] ->
  turn_of L PC k {| buf := S0; cur := None |} = TMsg {| buf := []; cur := None |} m ->
  parse L PC k init S0 = (init, [m], None).
Proof.
  intros Hne T. rewrite (parse_eq L PC k init S0).
  change (app_buf init S0) with {| buf := S0; cur := None |}. change (buf init ++ S0) with S0.
  destruct S0 as [|b0 l0]; [congruence|]. cbn [loop buf]. rewrite T. destruct (List.length l0); reflexivity.
Qed.

(* ---- no body and no framing field: the parser supplies Content-Length: 0 ---- *)
Theorem parse_composed_nobody line info h :
  no_lf line = true -> c_start PC line = SlOk info ->
  hdrs_ok h = true -> no_list_fields h = true -> h <> [] ->
  hget H_TE h = None -> hget H_CE h = None -> hget H_CL h = None ->
  host_ok info h = true -> c_hdrs PC (p11 info) (delivered_hdrs h) = HOk -> connect_response PC k line = false ->
  parse L PC k init (line ++ CRLF ++ hcompose C h) =
    (init, [ {| m_line := line; m_hdrs := hset K_CL (dec_of_N 0) (delivered_hdrs h); m_body := [] |} ], None).
Proof.
  intros Hline Hstart Hok Hnl Hne Hte Hce Hcl Hhost Hhd Hnc.
  destruct (composed_block C h HC Hok Hnl Hne) as [E1 [E2 [E3 [E4 E5]]]]. cbv zeta in *.
  set (block := join_with CRLF (map line_of (sort_items h))) in *.
  rewrite E1. replace (line ++ CRLF ++ block ++ CRLF ++ CRLF) with (line ++ CRLF ++ block ++ CRLF ++ CRLF ++ []) by (rewrite app_nil_r; reflexivity).
  apply parse_one_turn; [destruct line; discriminate|].
  assert (Hh' : (match k with Server => p11 info && negb (hmem K_HOST (delivered_hdrs h)) | Client => false end) = false).
  { unfold host_ok in Hhost. destruct k; [|reflexivity]. change K_HOST with H_HOST. rewrite (hmem_delivered H_HOST h Hok).
    destruct (p11 info); [cbn [negb orb andb] in *; rewrite Hhost; reflexivity | reflexivity]. }
  rewrite (headers_phase line info block (delivered_hdrs h) [] (cut_CRLF_none line Hline) Hstart E2 E3 E4 E5 Hh' Hhd Hnc).
  rewrite after_headers_eq. unfold parse_body, after_hdrs. cbn [i_len i_chunked].
  unfold determine. cbn [i_hdrs i_info].
  assert (T : hget K_TE (delivered_hdrs h) = None) by (change K_TE with H_TE; rewrite (hget_delivered H_TE h Hok), Hte; reflexivity).
  assert (Cl : hget K_CL (delivered_hdrs h) = None) by (change K_CL with H_CL; rewrite (hget_delivered H_CL h Hok), Hcl; reflexivity).
  assert (Ce : hget K_CE (delivered_hdrs h) = None) by (change K_CE with H_CE; rewrite (hget_delivered H_CE h Hok), Hce; reflexivity).
  rewrite T, Cl. unfold set_len. cbn [i_line i_le i_info i_phase i_hdrs i_ce i_len i_chunked i_trailer i_body].
  unfold on_body_complete. cbn [peek411 reference andb i_line i_le i_info i_phase i_hdrs i_ce i_len i_chunked i_trailer i_body].
  rewrite Ce. unfold hmem. rewrite Cl. cbn [negb andb List.length nonempty_b]. rewrite andb_false_r.
  destruct k; reflexivity.
Qed.


(* ---- chunk sizes: CPython's int(text, 16) as modelled in Lib/PyInt.v reads back b'%x' ---- *)
Lemma hex_digit_not_x d : d < 16 -> beq (hex_digit d) x78 = false /\ beq (hex_digit d) x58 = false.
Proof.
  intros H. assert (In d [0;1;2;3;4;5;6;7;8;9;10;11;12;13;14;15]) as Hin.
  { destruct d as [|p]; [left; reflexivity|]. cbn. do 5 (destruct p as [p|p|]; try lia; auto 20). }
  cbn in Hin. repeat (destruct Hin as [<-|Hin]; [vm_compute; split; reflexivity|]). contradiction.
Qed.

Lemma scan_hex ds : Forall (fun d => d < 16) ds -> forall acc nd, 0 < nd + N.of_nat (List.length ds) ->
  scan_digits hexdigit_val 16 true (map hex_digit ds) acc nd false = Some (horner 16 ds acc, nd + N.of_nat (List.length ds)).
Proof.
  induction 1 as [|d ds Hd _ IH]; intros acc nd Hpos.
  - cbn [map scan_digits List.length] in *. assert (E : (nd =? 0) = false) by (apply N.eqb_neq; lia). rewrite E. f_equal. f_equal. lia.
  - destruct (hex_digit_props d Hd) as [_ [A [B _]]]. cbn [map scan_digits]. rewrite B, A. cbn [andb negb].
    rewrite IH by (cbn [List.length]; lia). cbn [horner fold_left List.length]. f_equal. f_equal. lia.
Qed.

Lemma py_int16_hex_print n : py_int16_bytes (hex_print n) = Some (Z.of_N n).
Proof.
  unfold hex_print. pose proof (digs_lt 16 n ltac:(lia)) as Hl. pose proof (digs_nonempty 16 n) as Hne. pose proof (digs_horner 16 n ltac:(lia)) as Hh.
  set (ds := digs 16 n) in *.
  assert (P : forall ds, Forall (fun d => d < 16) ds ->
     existsb (fun c => beq c SP) (map hex_digit ds) = false /\ forallb (fun c => negb (is_bws c)) (map hex_digit ds) = true).
  { induction 1 as [|d l Hd _ IH]; [split; reflexivity|]. destruct (hex_digit_props d Hd) as [_ [_ [_ [_ [_ [_ [S [W _]]]]]]]].
    cbn [map existsb forallb]. rewrite S, W. exact IH. }
  destruct (P ds Hl) as [P1 P2]. unfold py_int16_bytes. rewrite P1.
  assert (Q : forall l, forallb (fun c => negb (is_bws c)) l = true -> lstrip_by is_bws l = l).
  { intros [|c l] H; [reflexivity|]. cbn [forallb] in H. apply andb_true_iff in H as [H _]. apply negb_true_iff in H. cbn [lstrip_by]. rewrite H. reflexivity. }
  assert (S : Split.strip (map hex_digit ds) = map hex_digit ds).
  { unfold Split.strip, strip_by, rstrip_by. rewrite (Q _ P2). rewrite Q; [apply rev_involutive|]. rewrite forallb_forall in *. intros x Hx. apply P2, in_rev, Hx. }
  rewrite S. destruct ds as [|d ds']; [congruence|]. inversion Hl as [|? ? Hd Hds]. subst.
  destruct (hex_digit_props d Hd) as [_ [_ [U [_ [_ [_ [_ [_ [Pl Mi]]]]]]]]].
  cbn [map split_sign]. rewrite Pl, Mi.
  assert (R1 : (match hex_digit d :: map hex_digit ds' with
                | a :: b :: r' => if beq a x30 && (beq b x78 || beq b x58) then match r' with u :: r'' => if beq u UNDERSCORE then r'' else r' | [] => r' end else hex_digit d :: map hex_digit ds'
                | _ => hex_digit d :: map hex_digit ds' end) = hex_digit d :: map hex_digit ds').
  { destruct ds' as [|d2 ds2]; [reflexivity|]. inversion Hds as [|? ? Hd2 _]. subst. cbn [map].
    destruct (hex_digit_not_x d2 Hd2) as [X1 X2]. rewrite X1, X2, andb_false_r. reflexivity. }
  rewrite R1, U. change (hex_digit d :: map hex_digit ds') with (map hex_digit (d :: ds')).
  rewrite (scan_hex (d :: ds') Hl 0 0) by (cbn [List.length]; lia). reflexivity.
Qed.

(* ---- the chunk loop on a composed chunked body without trailer ---- *)
Lemma chunks_composed ds : forall i fuel, i_le i = LE_CRLF -> i_trailer i = false -> forallb nonempty_b ds = true ->
  (List.length (concat_bytes (map chunk ds) ++ [x30] ++ CRLF ++ CRLF) < fuel)%nat ->
  chunks PC fuel i (concat_bytes (map chunk ds) ++ [x30] ++ CRLF ++ CRLF) =
    Done (set_trailer (set_body i (i_body i ++ concat_bytes ds)) true) [].
Proof.
  induction ds as [|d ds IH]; intros i fuel Hle Htr Hne Hf.
  - destruct fuel as [|f]; [cbn in Hf; lia|]. rewrite chunks_S, Htr, Hle. cbn [map concat_bytes app le_bytes].
    change (x30 :: CRLF ++ CRLF) with ([x30] ++ CRLF ++ CRLF). rewrite (cut_CRLF_line [x30] CRLF eq_refl). cbv zeta.
    change (py_int16_bytes (Split.strip (match cut1 SEMI [x30] with Some (a, _) => a | None => [x30] end))) with (Some 0%Z).
    cbv iota beta. change (0 <? 0)%Z with false. cbv iota. change (Z.to_N 0) with 0.
    change (N.of_nat (List.length CRLF) <? N.of_nat (List.length CRLF) + 0) with false. cbv iota. change (0 =? 0) with true. cbv iota.
    cbn [N.to_nat firstn skipn]. unfold parse_trailers. cbn [set_trailer set_body i_le le_bytes]. rewrite Hle. cbn [le_bytes].
    change (prefixb CRLF CRLF) with true. cbv iota. cbn [skipn List.length CRLF]. rewrite app_nil_r. reflexivity.
  - destruct fuel as [|f]; [cbn in Hf; lia|]. cbn [forallb] in Hne. apply andb_true_iff in Hne as [Hd Hne].
    cbn [map concat_bytes]. rewrite <- (app_assoc (chunk d)).
    set (tail := concat_bytes (map chunk ds) ++ [x30] ++ CRLF ++ CRLF).
    replace (chunk d ++ tail) with (hex_print (Composer.blen d) ++ CRLF ++ (d ++ CRLF ++ tail)) by (unfold chunk; rewrite <- !app_assoc; reflexivity).
    rewrite chunks_S, Htr, Hle. cbn [le_bytes].
    destruct (hex_print_clean (Composer.blen d)) as [H1 [H2 _]].
    rewrite (cut_CRLF_line _ _ (no_crlf_no_lf _ H1)). cbv zeta. rewrite (cut1_none SEMI _ H2).
    assert (S : Split.strip (hex_print (Composer.blen d)) = hex_print (Composer.blen d)).
    { pose proof (py_int16_hex_print (Composer.blen d)) as P. unfold hex_print in *. pose proof (digs_lt 16 (Composer.blen d) ltac:(lia)) as Hl.
      assert (P2 : forall ds, Forall (fun d => d < 16) ds -> forallb (fun c => negb (is_bws c)) (map hex_digit ds) = true).
      { induction 1 as [|x l Hx _ IHl]; [reflexivity|]. destruct (hex_digit_props x Hx) as [_ [_ [_ [_ [_ [_ [_ [W _]]]]]]]]. cbn [map forallb]. rewrite W. exact IHl. }
      specialize (P2 _ Hl).
      assert (Q : forall l, forallb (fun c => negb (is_bws c)) l = true -> lstrip_by is_bws l = l).
      { intros [|c l] H; [reflexivity|]. cbn [forallb] in H. apply andb_true_iff in H as [H _]. apply negb_true_iff in H. cbn [lstrip_by]. rewrite H. reflexivity. }
      unfold Split.strip, strip_by, rstrip_by. rewrite (Q _ P2). rewrite Q; [apply rev_involutive|]. rewrite forallb_forall in *. intros x Hx. apply P2, in_rev, Hx. }
    rewrite S, py_int16_hex_print.
    assert (Ez : (Z.of_N (Composer.blen d) <? 0)%Z = false) by (apply Z.ltb_ge; lia). rewrite Ez, N2Z.id.
    destruct d as [|c d']; [discriminate|]. set (dd := c :: d') in *.
    assert (Hlen : (N.of_nat (List.length (dd ++ CRLF ++ tail)) <? N.of_nat (List.length CRLF) + Composer.blen dd) = false).
    { apply N.ltb_ge. unfold Composer.blen. rewrite !app_length. unfold CRLF. cbn [List.length]. lia. }
    rewrite Hlen. assert (Hn0 : (Composer.blen dd =? 0) = false) by (apply N.eqb_neq; unfold Composer.blen, dd; cbn [List.length]; lia). rewrite Hn0.
    unfold Composer.blen. rewrite Nat2N.id, skipn_app_exact, prefixb_app, firstn_app_exact.
    replace (skipn (List.length CRLF) (CRLF ++ tail)) with tail by (rewrite skipn_app_exact; reflexivity).
    unfold tail. rewrite IH.
    + cbn [set_body set_trailer i_body i_line i_le i_info i_phase i_hdrs i_ce i_len i_chunked i_trailer concat_bytes]. rewrite <- app_assoc. reflexivity.
    + exact Hle.
    + exact Htr.
    + exact Hne.
    + cbn [map concat_bytes] in Hf. rewrite <- (app_assoc (chunk dd)) in Hf. fold tail in Hf. fold tail. rewrite app_length in Hf.
      assert (0 < List.length (chunk dd))%nat by (unfold chunk; rewrite !app_length; unfold CRLF; cbn [List.length]; lia). lia.
Qed.

(* ---- chunked framing, optionally with a content coding removed by the decoder callee ---- *)
Theorem parse_composed_chunked line info h coded content :
  no_lf line = true -> c_start PC line = SlOk info -> p11 info = true ->
  hdrs_ok h = true -> no_list_fields h = true ->
  hget H_TE h = Some TE_CHUNKED -> hget H_CL h = None ->
  (match hget H_CE h with
   | Some ce => c_decode PC (stripv ce) (concat_bytes coded) = DcOk content
   | None => concat_bytes coded = content
   end) ->
  host_ok info h = true -> c_hdrs PC (p11 info) (delivered_hdrs h) = HOk -> connect_response PC k line = false -> body_allowed info content = true ->
  parse L PC k init (line ++ CRLF ++ hcompose C h ++ chunked_frame C [] coded) =
    (init, [ {| m_line := line;
                m_hdrs := hdel K_TE (hset K_CL (dec_of_N (N.of_nat (List.length content))) (delivered_hdrs h));
                m_body := content |} ], None).
Proof.
  intros Hline Hstart Hp11 Hok Hnl Hte Hcl Hdec Hhost Hhd Hnc Hbody.
  assert (Hne : h <> []) by (intros ->; discriminate).
  destruct (composed_block C h HC Hok Hnl Hne) as [E1 [E2 [E3 [E4 E5]]]]. cbv zeta in *.
  set (block := join_with CRLF (map line_of (sort_items h))) in *.
  set (wire := chunked_frame C [] coded).
  rewrite E1. replace (line ++ CRLF ++ (block ++ CRLF ++ CRLF) ++ wire) with (line ++ CRLF ++ block ++ CRLF ++ CRLF ++ wire) by (rewrite <- !app_assoc; reflexivity).
  apply parse_one_turn; [destruct line; discriminate|].
  assert (Hh' : (match k with Server => p11 info && negb (hmem K_HOST (delivered_hdrs h)) | Client => false end) = false).
  { unfold host_ok in Hhost. destruct k; [|reflexivity]. change K_HOST with H_HOST. rewrite (hmem_delivered H_HOST h Hok).
    rewrite Hp11 in *. cbn [negb orb andb] in *. rewrite Hhost. reflexivity. }
  rewrite (headers_phase line info block (delivered_hdrs h) wire (cut_CRLF_none line Hline) Hstart E2 E3 E4 E5 Hh' Hhd Hnc).
  rewrite after_headers_eq. unfold parse_body, after_hdrs. cbn [i_len i_chunked].
  unfold determine. cbn [i_hdrs i_info].
  assert (T : hget K_TE (delivered_hdrs h) = Some TE_CHUNKED) by (change K_TE with H_TE; rewrite (hget_delivered H_TE h Hok), Hte; reflexivity).
  assert (Cl : hget K_CL (delivered_hdrs h) = None) by (change K_CL with H_CL; rewrite (hget_delivered H_CL h Hok), Hcl; reflexivity).
  assert (Ce : hget K_CE (delivered_hdrs h) = option_map stripv (hget H_CE h)) by (change K_CE with H_CE; apply (hget_delivered H_CE h Hok)).
  rewrite T, Hp11. change (hgetitem PC TE_CHUNKED) with (GText true true (py_int10_text INT_MAX_STR_DIGITS TE_CHUNKED)).
  unfold set_chunked. cbn [i_line i_le i_info i_phase i_hdrs i_ce i_len i_chunked i_trailer i_body].
  unfold wire. rewrite chunked_frame_shape.
  replace (hcompose C []) with CRLF by reflexivity.
  rewrite (map_ext _ _ (fun d => eq_sym (chunk_ser d))).
  rewrite chunks_composed; [| reflexivity | reflexivity | apply nonempty_items_all | lia].
  unfold set_trailer, set_body. cbn [i_line i_le i_info i_phase i_hdrs i_ce i_len i_chunked i_trailer i_body app].
  rewrite nonempty_items_concat.
  unfold on_body_complete. cbn [peek411 reference andb i_line i_le i_info i_phase i_hdrs i_ce i_len i_chunked i_trailer i_body].
  rewrite cl_variant_repaired, Ce.
  assert (Hnb : (match k with Server => nobody info && nonempty_b content | Client => false end) = false).
  { unfold body_allowed in Hbody. destruct k; [|reflexivity]. apply negb_true_iff in Hbody. exact Hbody. }
  destruct (hget H_CE h) as [ce|]; cbn [option_map].
  - rewrite Hdec. rewrite andb_false_r. rewrite Hnb. destruct k; reflexivity.
  - rewrite Hdec. rewrite andb_false_r. rewrite Hnb. destruct k; reflexivity.
Qed.

End RoundTrip.

(* ================================================================== composer model o parser model *)
Section Top.
Variable C : ccallees.
Variable PC : callees.
Hypothesis HC : lsplit_clean C.

(* the header collection the parser delivers, by the framing the composed header section announces *)
Definition delivered_for (fr : framing) (h : hdrs) (content : bytes) : hdrs :=
  match fr with
  | FLength _ => delivered_hdrs h
  | FNone => hset K_CL (dec_of_N 0) (delivered_hdrs h)
  | FChunked => hdel K_TE (hset K_CL (dec_of_N (N.of_nat (List.length content))) (delivered_hdrs h))
  end.

(* every field other than the two framing fields is delivered with its (stripped) composed value *)
Lemma delivered_field fr h content key : hdrs_ok h = true -> bytes_eqb key K_CL = false -> bytes_eqb key K_TE = false ->
  hget key (delivered_for fr h content) = option_map stripv (hget key h).
Proof.
  intros Hok K1 K2. destruct fr; cbn [delivered_for]; rewrite ?hget_hdel, ?hget_hset, ?K1, ?K2; apply (hget_delivered key h Hok).
Qed.

Definition decodes (h : hdrs) (wire content : bytes) : Prop :=
  match hget H_CE h with
  | Some ce => c_decode PC (stripv ce) wire = DcOk content
  | None => wire = content
  end.

(* what both top-level theorems need from a prepared message *)
Lemma composed_parse (k : kind) vc line info h b fr content :
  no_lf line = true -> c_start PC line = SlOk info ->
  hdrs_ok h = true -> no_list_fields h = true -> h <> [] -> b_trailer b = [] ->
  hframing h fr -> body_matches C vc false fr b ->
  (fr = FChunked -> p11 info = true) -> (fr <> FChunked -> hget H_CE h = None) ->
  decodes h (payload C vc b) content ->
  host_ok k info h = true -> c_hdrs PC (p11 info) (delivered_hdrs h) = HOk -> connect_response PC k line = false -> body_allowed k info content = true ->
  N.of_nat (List.length (dec_of_N (N.of_nat (List.length content)))) <= INT_MAX_STR_DIGITS ->
  parse L PC k init (line ++ CRLF ++ hcompose C h ++ body_octets C vc b) =
    (init, [ {| m_line := line; m_hdrs := delivered_for fr h content; m_body := content |} ], None).
Proof.
  intros Hline Hstart Hok Hnl Hne Htr Hf Hb Hp11 Hce Hdec Hhost Hhd Hnc Hbody Hdig.
  unfold body_octets. rewrite body_iter_spec. cbn [fst]. unfold body_matches in Hb. unfold decodes in Hdec.
  destruct Hf as [Ht Hc | n Ht Hc | Ht Hc]; cbn [delivered_for].
  - rewrite Hb, Htr. apply (parse_composed_chunked C PC k HC line info h (coded C vc b) content); try assumption.
    exact (Hp11 eq_refl).
  - destruct Hb as [Hb Hn]. rewrite Hb. rewrite (Hce ltac:(discriminate)) in Hdec. rewrite Hdec in *. subst n.
    apply (parse_composed_length C PC k HC line info h content); try assumption. exact (Hce ltac:(discriminate)).
  - destruct Hb as [Hb Hp]. rewrite Hb, Hp, app_nil_r. rewrite (Hce ltac:(discriminate)) in Hdec. rewrite Hp in Hdec. subst content.
    apply (parse_composed_nobody C PC k HC line info h); try assumption. exact (Hce ltac:(discriminate)).
Qed.

Theorem request_roundtrip vc now q q' info content :
  req_ok q = true -> rd_no_crlf now = true -> q_prepare now q = Some q' ->
  no_list_fields (q_hdrs q') = true -> b_trailer (q_body q') = [] ->
  let line := q_method q ++ SP :: q_target q ++ SP :: StartLine.proto_compose (q_version q) in
  c_start PC line = SlOk info ->
  (hmem H_TE (q_hdrs q') = true -> p11 info = true) -> (hmem H_TE (q_hdrs q') = false -> hget H_CE (q_hdrs q') = None) ->
  decodes (q_hdrs q') (q_content C vc q) content ->
  host_ok Server info (q_hdrs q') = true -> c_hdrs PC (p11 info) (delivered_hdrs (q_hdrs q')) = HOk -> body_allowed Server info content = true ->
  N.of_nat (List.length (dec_of_N (N.of_nat (List.length content)))) <= INT_MAX_STR_DIGITS ->
  exists fr, hframing (q_hdrs q') fr /\
    parse L PC Server init (fst (q_compose C vc q')) =
      (init, [ {| m_line := line; m_hdrs := delivered_for fr (q_hdrs q') content; m_body := content |} ], None).
Proof.
  intros Hok Hnow Hp Hnl Htr line Hstart Hp11 Hce Hdec Hhost Hhd Hbody Hdig.
  destruct (q_prepare_framed C vc now q q' Hok Hnow Hp) as [Em [Et [Ev [Hh [Htr' [Hco [Hpi [Hso [fr [Hf Hb]]]]]]]]]].
  pose proof Hok as Hok'. unfold req_ok in Hok'.
  apply andb_true_iff in Hok' as [Hok' _]. apply andb_true_iff in Hok' as [Hok' _]. apply andb_true_iff in Hok' as [Hok' _].
  apply andb_true_iff in Hok' as [Hok' _]. apply andb_true_iff in Hok' as [Hok' _]. apply andb_true_iff in Hok' as [Hok' _].
  apply andb_true_iff in Hok' as [Hok' Hver]. apply andb_true_iff in Hok' as [Hmethod Htarget].
  destruct (req_line_ok _ _ _ Hmethod Htarget Hver) as [_ L2]. cbv zeta in L2. fold line in L2.
  exists fr. split; [exact Hf|].
  assert (Epl : payload C vc (q_body q') = q_content C vc q) by (unfold payload, coded, q_content; rewrite Hco, Hpi; reflexivity).
  assert (Hne : q_hdrs q' <> []).
  { destruct Hf as [Ht _ | n _ Hc | Ht Hc]; intros E; rewrite E in *; try discriminate.
    (* FNone: the prepared request always carries User-Agent and Accept *)
    pose proof Hok as Hok2. unfold req_ok in Hok2. apply andb_true_iff in Hok2 as [Hok2 _]. apply andb_true_iff in Hok2 as [Hok2 _]. apply andb_true_iff in Hok2 as [Hok2 Hbd].
    apply andb_true_iff in Hok2 as [Hok2 _]. apply andb_true_iff in Hok2 as [_ Hte]. unfold body_ok in Hbd. apply andb_true_iff in Hbd as [Hbd _]. apply andb_true_iff in Hbd as [Hsrc _].
    rewrite (q_prepare_closed now q Hte Hsrc) in Hp. injection Hp as Hq. rewrite <- Hq in E. cbn [q_with q_hdrs] in E.
    assert (X : hmem H_ACCEPT (q_hfinal now q) = true) by (unfold q_hfinal, q_step_tail; apply hmem_hsetdefault). rewrite E in X. discriminate. }
  unfold q_compose. rewrite body_iter_spec. cbn [fst]. rewrite Em, Et, Ev, req_line_shape. fold line. rewrite <- (app_assoc line CRLF).
  pose proof (composed_parse Server vc line info (q_hdrs q') (q_body q') fr content L2 Hstart Hh Hnl Hne) as P.
  unfold body_octets in P. rewrite body_iter_spec in P. cbn [fst] in P. apply P; try assumption; try reflexivity.
  - intros ->. apply Hp11. inversion Hf as [Ht _ | |]. rewrite hmem_hget, Ht. reflexivity.
  - intros Hne'. apply Hce. destruct Hf as [Ht _ | n Ht _ | Ht _]; [congruence | |]; rewrite hmem_hget, Ht; reflexivity.
  - rewrite Epl. exact Hdec.
Qed.

Theorem response_roundtrip v59 v29 vc now r r' info content :
  resp_ok v59 r = true -> rd_no_crlf now = true -> r_prepare C v59 v29 now r = Some r' ->
  r_bodiless (r_code r) (r_rmethod r) = false ->
  no_list_fields (r_hdrs r') = true -> b_trailer (r_body r') = [] ->
  let line := StartLine.proto_compose (r_version r) ++ SP :: StartLine.print_dec (r_code r) ++ SP :: r_reason r in
  c_start PC line = SlOk info ->
  (hmem H_TE (r_hdrs r') = true -> p11 info = true) -> (hmem H_TE (r_hdrs r') = false -> hget H_CE (r_hdrs r') = None) ->
  decodes (r_hdrs r') (concat_bytes (encode_pieces C vc (b_codec (r_body r')) (r_sent_pieces r))) content ->
  c_hdrs PC (p11 info) (delivered_hdrs (r_hdrs r')) = HOk ->
  c_connect PC line = false ->     (* the request this client machine answers is not a CONNECT (then the framing fields would be dropped) *)
  N.of_nat (List.length (dec_of_N (N.of_nat (List.length content)))) <= INT_MAX_STR_DIGITS ->
  exists fr, hframing (r_hdrs r') fr /\
    parse L PC Client init (fst (r_compose C vc r')) =
      (init, [ {| m_line := line; m_hdrs := delivered_for fr (r_hdrs r') content; m_body := content |} ], None).
Proof.
  intros Hok Hnow Hp Hbl Hnl Htr line Hstart Hp11 Hce Hdec Hhd Hnc Hdig.
  destruct (r_prepare_framed C v59 v29 vc now r r' Hok Hnow Hp) as [Ev [Ec [Er [Em [Hh [Htr' [Hso [Hpi [fr [Hf [Hb1 _]]]]]]]]]]]. cbv zeta in Hb1.
  destruct (Hb1 Hbl) as [Hb [_ Hnn]].
  pose proof Hok as Hok'. unfold resp_ok in Hok'.
  apply andb_true_iff in Hok' as [Hok' _]. apply andb_true_iff in Hok' as [Hok' Hbd]. apply andb_true_iff in Hok' as [Hok' _].
  apply andb_true_iff in Hok' as [Hok' _]. apply andb_true_iff in Hok' as [Hok' Hreason]. apply andb_true_iff in Hok' as [Hver Hcode].
  destruct (resp_line_ok _ _ _ Hver Hcode Hreason) as [_ L2]. cbv zeta in L2. fold line in L2.
  exists fr. split; [exact Hf|].
  assert (Epl : payload C vc (r_body r') = concat_bytes (encode_pieces C vc (b_codec (r_body r')) (r_sent_pieces r))).
  { unfold payload, coded, r_sent_pieces. rewrite Hpi. reflexivity. }
  assert (Hne : r_hdrs r' <> []).
  { intros E. destruct Hf as [Ht _ | n _ Hc | Ht Hc]; rewrite E in *; try discriminate. congruence. }
  unfold r_compose. rewrite body_iter_spec. cbn [fst]. rewrite Ev, Ec, Er, resp_line_shape. fold line. rewrite <- (app_assoc line CRLF).
  pose proof (composed_parse Client vc line info (r_hdrs r') (r_body r') fr content L2 Hstart Hh Hnl Hne Htr Hf Hb) as P.
  unfold body_octets in P. rewrite body_iter_spec in P. cbn [fst] in P. apply P; try assumption; try reflexivity.
  - intros ->. apply Hp11. inversion Hf as [Ht _ | |]. rewrite hmem_hget, Ht. reflexivity.
  - intros Hne'. apply Hce. destruct Hf as [Ht _ | n Ht _ | Ht _]; [congruence | |]; rewrite hmem_hget, Ht; reflexivity.
  - rewrite Epl. exact Hdec.
Qed.

(* caller-set fields survive prepare (requests): every field the composer does not manage keeps its value *)
Definition Q_MANAGED : list bytes := [H_TE; H_CL; H_CONNECTION; H_CT; H_HOST; H_DATE; H_WWW_AUTH; H_COOKIE; H_UA; H_ACCEPT].

Theorem request_caller_fields now q q' key : te_simple (q_hdrs q) = true -> src_ok (b_src (q_body q)) = true ->
  q_prepare now q = Some q' -> mem_bytes key Q_MANAGED = false -> hget key (q_hdrs q') = hget key (q_hdrs q).
Proof.
  intros Hte Hsrc Hp Hk. rewrite (q_prepare_closed now q Hte Hsrc) in Hp. injection Hp as <-. cbn [q_with q_hdrs].
  cbn [Q_MANAGED mem_bytes existsb] in Hk. repeat (apply orb_false_iff in Hk as [? Hk]).
  unfold q_hfinal. rewrite (fr_tail q key) by (cbn [mem_bytes existsb]; repeat (apply orb_false_iff; split); assumption).
  rewrite (fr_hdate now q key) by assumption. rewrite (fr_host q key) by assumption. rewrite (fr_hlen q key) by assumption.
  rewrite (fr_close key) by assumption. unfold q_h2.
  destruct (q_safe q); [rewrite hget_hdel; match goal with Hx : bytes_eqb key H_TE = false |- _ => rewrite Hx end; reflexivity|].
  destruct (hmem H_TE (q_hdrs q)); [rewrite hget_hdel; match goal with Hx : bytes_eqb key H_CL = false |- _ => rewrite Hx end|]; reflexivity.
Qed.

End Top.

(* ---- what the decoder callee is asked to decode: the code applies the coder per piece (pinned tree) or once (repair D42) ---- *)
Lemma payload_asfound C id ps : concat_bytes (encode_pieces C AsFound (Some id) ps) = concat_bytes (map (cc_comp C id) ps).
Proof. reflexivity. Qed.
Lemma payload_asfound_single C id x : concat_bytes (encode_pieces C AsFound (Some id) [x]) = cc_comp C id x.
Proof. cbn. apply app_nil_r. Qed.
Lemma payload_repaired C id ps : ps <> [] -> concat_bytes (encode_pieces C Repaired (Some id) ps) = cc_comp C id (concat_bytes ps).
Proof. destruct ps; [congruence|]. intros _. cbn [encode_pieces concat_bytes]. apply app_nil_r. Qed.

(* with a decoder that inverts the coder on single streams, the repaired composer round-trips every non-empty content,
   the pinned composer every content that is sent as ONE piece (at most MAX_CHUNK_SIZE octets from a file-like source,
   one item of a list); for several pieces the decoder would have to read concatenated streams (gzip does, zlib does not: D42) *)
Lemma decodes_repaired C PC id h ce ps : hget H_CE h = Some ce -> ps <> [] ->
  (forall x, c_decode PC (stripv ce) (cc_comp C id x) = DcOk x) ->
  decodes PC h (concat_bytes (encode_pieces C Repaired (Some id) ps)) (concat_bytes ps).
Proof. intros Hce Hne Hd. unfold decodes. rewrite Hce, (payload_repaired C id ps Hne). apply Hd. Qed.
Lemma decodes_asfound_single C PC id h ce x : hget H_CE h = Some ce ->
  (forall x, c_decode PC (stripv ce) (cc_comp C id x) = DcOk x) ->
  decodes PC h (concat_bytes (encode_pieces C AsFound (Some id) [x])) (concat_bytes [x]).
Proof. intros Hce Hd. unfold decodes. rewrite Hce, payload_asfound_single. cbn [concat_bytes]. rewrite app_nil_r. apply Hd. Qed.
(* a decoder that reads every stream of the body (gzip members; zlib streams since fix 4bcf0e2 of the deflate decoder)
   round-trips the per-piece coding of the pinned composer for any number of pieces *)
Lemma decodes_asfound_multi C PC id h ce ps : hget H_CE h = Some ce ->
  (forall xs, c_decode PC (stripv ce) (concat_bytes (map (cc_comp C id) xs)) = DcOk (concat_bytes xs)) ->
  decodes PC h (concat_bytes (encode_pieces C AsFound (Some id) ps)) (concat_bytes ps).
Proof. intros Hce Hd. unfold decodes. rewrite Hce, payload_asfound. apply Hd. Qed.

(* ---- finding D59 (stale content coding on a reused Response object), tree as found: the client machine, with callees that accept the
   start line and the fields and pass the body through, takes the first six octets of the coded stream for the body and keeps the rest
   as the start of a next message.  After the repair the content comes back. ---- *)
Definition PC_plain : callees := {|
  c_start := fun _ => SlOk {| p11 := true; nobody := false |}; c_hdrs := fun _ _ => HOk; c_decode := fun _ d => DcOk d;
  c_2047 := fun _ => RMiss; c_trailer := fun _ => TrOk []; c_connect := fun _ => false |}.
Lemma stale_coding_roundtrip_refuted :
  exists r', r_prepare C_mark AsFound Repaired D29_now D59_response = Some r' /\
    exists st m, parse reference PC_plain Client init (fst (r_compose C_mark AsFound r')) = (st, [m], None) /\
      m_body m = X "1f8b7365636f" /\ buf st = X "6e64".
Proof. eexists. split; [vm_compute; reflexivity|]. eexists. eexists. split; [vm_compute; reflexivity|]. split; vm_compute; reflexivity. Qed.
Lemma stale_coding_roundtrip_repaired_example :
  exists r', r_prepare C_mark Repaired Repaired D29_now D59_response = Some r' /\
    exists m, parse reference PC_plain Client init (fst (r_compose C_mark AsFound r')) = (init, [m], None) /\ m_body m = X "7365636f6e64".
Proof. eexists. split; [vm_compute; reflexivity|]. eexists. split; vm_compute; reflexivity. Qed.

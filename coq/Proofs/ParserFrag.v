(* C01 on the parser model, part A: the reference machine (no bare-LF fallback, no 411 peek, header
   sections parsed only when complete) gives the same result for every fragmentation of a stream.
   Phase by phase: a decision made on buffer x is the same on x ++ y (Done / Fail), and a phase that
   blocks on x after consuming part of it continues on x ++ y exactly as the original state would. *)
From Coq Require Import ZArith.
From Httoop Require Import Model.Parser Proofs.SplitP Proofs.HeadersP Proofs.ParserEsc Proofs.ParserFuel Proofs.ParserFraming.
Local Open Scope N_scope.

Definition app_buf (s : pstate) (y : bytes) : pstate := {| buf := buf s ++ y; cur := cur s |}.

Lemma CRLF_nonnil : CRLF <> []. Proof. unfold CRLF; discriminate. Qed.
Lemma CRLF2_nonnil : CRLF ++ CRLF <> []. Proof. unfold CRLF; discriminate. Qed.

Lemma firstn_app_le {A} n (x y : list A) : (n <= length x)%nat -> firstn n (x ++ y) = firstn n x.
Proof. intros H. rewrite firstn_app. replace (n - length x)%nat with O by lia. cbn. apply app_nil_r. Qed.
Lemma skipn_app_le {A} n (x y : list A) : (n <= length x)%nat -> skipn n (x ++ y) = skipn n x ++ y.
Proof. intros H. rewrite skipn_app. replace (n - length x)%nat with O by lia. reflexivity. Qed.

Lemma set_hdrs_id i : set_hdrs i (i_hdrs i) = i.
Proof. destruct i; reflexivity. Qed.

(* a three-way result of a phase, stable under appending octets *)
Definition stable {A} (f : bytes -> pres A) (g : A -> bytes -> pres A) (x : bytes) : Prop :=
  forall y,
  match f x with
  | Done a x' => f (x ++ y) = Done a (x' ++ y)
  | Fail e => f (x ++ y) = Fail e
  | Need a x' => f (x ++ y) = g a (x' ++ y)
  end.

Section FragA.
Variable cfg : config.
Variable C : callees.
Variable k : kind.
Hypothesis Hlf : allow_lf cfg = false.
Hypothesis Hpk : peek411 cfg = false.
Hypothesis Heg : eager_hdr cfg = false.

(* ---------- start line ---------- *)
Lemma startline_stable x : stable (parse_startline cfg C) (fun _ b => parse_startline cfg C b) x.
Proof.
  intros y. unfold parse_startline. rewrite Hlf. cbn [andb].
  destruct (contains CRLF x) eqn:Cx.
  - rewrite (contains_app _ _ y Cx). unfold contains in Cx.
    destruct (cut CRLF x) as [[line rest]|] eqn:Cu; [|discriminate]. cbn [le_bytes]. rewrite Cu.
    rewrite (cut_app _ _ _ _ y Cu). destruct (c_start C line); reflexivity.
  - reflexivity.
Qed.

(* ---------- header section (lazy) ---------- *)
Lemma parse_headers_stable h x : stable (parse_headers cfg LE_CRLF h) (fun h' b => parse_headers cfg LE_CRLF h' b) x.
Proof.
  intros y. unfold parse_headers. cbn [le_bytes]. rewrite Heg. cbn [negb].
  destruct (prefixb CRLF x) eqn:P.
  - rewrite (prefixb_app_r _ _ y P). rewrite skipn_app_le; [reflexivity | apply prefixb_length, P].
  - destruct (cut (CRLF ++ CRLF) x) as [[block rest]|] eqn:Cu.
    + assert (Hlen : (length CRLF <= length x)%nat).
      { pose proof (cut_length _ _ _ _ CRLF2_nonnil Cu). rewrite app_length in H. cbn [length CRLF] in *. lia. }
      rewrite (prefixb_app_long _ _ y Hlen), P, (cut_app _ _ _ _ y Cu).
      destruct (parse_block h block); reflexivity.
    + reflexivity.
Qed.

(* ---------- trailers ---------- *)
Lemma parse_trailers_stable i x : i_le i = LE_CRLF ->
  stable (parse_trailers C i) (fun i' b => parse_trailers C i' b) x.
Proof.
  intros Hle y. unfold parse_trailers. rewrite Hle. cbn [le_bytes].
  destruct (prefixb CRLF x) eqn:P.
  - rewrite (prefixb_app_r _ _ y P). rewrite skipn_app_le; [reflexivity | apply prefixb_length, P].
  - destruct (cut (CRLF ++ CRLF) x) as [[block rest]|] eqn:Cu.
    + assert (Hlen : (length CRLF <= length x)%nat).
      { pose proof (cut_length _ _ _ _ CRLF2_nonnil Cu). rewrite app_length in H. cbn [length CRLF] in *. lia. }
      rewrite (prefixb_app_long _ _ y Hlen), P, (cut_app _ _ _ _ y Cu).
      destruct (hparse [] block); [|reflexivity].
      destruct (match hget K_TRAILER (i_hdrs i) with Some v => _ | None => _ end); try reflexivity.
      destruct (merge_trailers C names (i_hdrs i) h) as [[h' [|x0 tr']]|e]; reflexivity.
    + rewrite Hle. reflexivity.
Qed.

(* ---------- Content-Length body ---------- *)
Lemma to_nat_min len m : N.to_nat (N.min len (N.of_nat m)) = Nat.min (N.to_nat len) m.
Proof. rewrite N2Nat.inj_min, Nat2N.id. reflexivity. Qed.

Lemma bwl_stable i len x y : 0 < len ->
  match body_with_length i len x with
  | Done i' x' => body_with_length i len (x ++ y) = Done i' (x' ++ y)
  | Need i' x' => exists r, i_len i' = Some r /\ 0 < r /\ i_chunked i' = i_chunked i /\
                            body_with_length i len (x ++ y) = body_with_length i' r (x' ++ y)
  | Fail _ => False
  end.
Proof.
  intros Hl. unfold body_with_length. rewrite !to_nat_min.
  destruct (Nat.le_gt_cases (N.to_nat len) (length x)) as [Hge|Hlt].
  - (* the whole body is already there *)
    rewrite (Nat.min_l _ _ Hge). rewrite firstn_length, (Nat.min_l _ _ Hge).
    assert (E : N.of_nat (N.to_nat len) <? len = false) by (apply N.ltb_ge; lia). rewrite E.
    rewrite app_length. rewrite (Nat.min_l (N.to_nat len) (length x + length y)) by lia.
    rewrite firstn_app_le, skipn_app_le by exact Hge. rewrite firstn_length, (Nat.min_l _ _ Hge), E. reflexivity.
  - (* only part of it *)
    rewrite (Nat.min_r (N.to_nat len) (length x)) by lia. rewrite firstn_all, skipn_all.
    assert (E : N.of_nat (length x) <? len = true) by (apply N.ltb_lt; lia). rewrite E.
    exists (len - N.of_nat (length x)). cbn [i_len i_chunked set_len set_body]. repeat split; [lia|].
    rewrite ?to_nat_min. cbn [app]. rewrite app_length.
    set (n2 := Nat.min (N.to_nat len) (length x + length y)).
    set (n3 := Nat.min (N.to_nat (len - N.of_nat (length x))) (length y)).
    assert (En : n2 = (length x + n3)%nat) by (subst n2 n3; lia).
    rewrite En. rewrite firstn_app, skipn_app.
    replace (length x + n3 - length x)%nat with n3 by lia.
    rewrite firstn_all2 by lia. rewrite skipn_all2 by lia. cbn [app].
    rewrite !app_length, !firstn_length.
    assert (Et : (N.of_nat (length x + Nat.min n3 (length y)) <? len) = (N.of_nat (Nat.min n3 (length y)) <? len - N.of_nat (length x))).
    { destruct (N.ltb_spec (N.of_nat (Nat.min n3 (length y))) (len - N.of_nat (length x))); [apply N.ltb_lt | apply N.ltb_ge]; lia. }
    rewrite Et. destruct i; cbn. rewrite <- app_assoc.
    replace (len - N.of_nat (length x + Nat.min n3 (length y))) with (len - N.of_nat (length x) - N.of_nat (Nat.min n3 (length y))) by lia.
    reflexivity.
Qed.

(* ---------- chunked body ---------- *)
Lemma chunks_fuel f1 : forall f2 i b, (length b < f1)%nat -> (length b < f2)%nat -> chunks C f1 i b = chunks C f2 i b.
Proof.
  induction f1 as [|f1 IH]; intros f2 i b H1 H2; [lia|]. destruct f2 as [|f2]; [lia|].
  cbn [chunks]. destruct (i_trailer i); [reflexivity|].
  destruct (cut (le_bytes (i_le i)) b) as [[line rest]|] eqn:Cu; [|reflexivity].
  pose proof (cut_rest_shorter _ _ _ _ (le_bytes_nonnil _) Cu) as Hr.
  destruct (py_int16_bytes _) as [z|]; [|reflexivity]. destruct (z <? 0)%Z; [reflexivity|].
  destruct (N.of_nat (length rest) <? _); [reflexivity|]. destruct (Z.to_N z =? 0); [reflexivity|].
  destruct (prefixb _ _); [|reflexivity].
  pose proof (length_skipn_le (N.to_nat (Z.to_N z)) rest).
  pose proof (length_skipn_le (length (le_bytes (i_le i))) (skipn (N.to_nat (Z.to_N z)) rest)).
  apply IH; lia.
Qed.

Lemma chunks_S f i b : chunks C (S f) i b =
  if i_trailer i then parse_trailers C i b else
      let l := le_bytes (i_le i) in
      match cut l b with
      | None => Need i b
      | Some (line, rest) =>
          let tok := strip (match cut1 SEMI line with Some (a, _) => a | None => line end) in
          match py_int16_bytes tok with
          | None => Fail (EHttp 400)
          | Some z =>
              if (z <? 0)%Z then Fail (EHttp 400) else
              let size := Z.to_N z in
              if N.of_nat (length rest) <? N.of_nat (length l) + size then Need i b
              else
                let n := N.to_nat size in
                let i' := set_body i (i_body i ++ firstn n rest) in
                let rest' := skipn n rest in
                if size =? 0 then parse_trailers C (set_trailer i' true) rest'
                else if prefixb l rest' then chunks C f i' (skipn (length l) rest')
                else Fail (EHttp 400)
          end
      end.
Proof. reflexivity. Qed.

Lemma chunks_stable f : forall i x, (length x < f)%nat -> i_le i = LE_CRLF -> forall y f2, (length (x ++ y) < f2)%nat ->
  match chunks C f i x with
  | Done i' x' => chunks C f2 i (x ++ y) = Done i' (x' ++ y)
  | Fail e => chunks C f2 i (x ++ y) = Fail e
  | Need i' x' => forall f3, (length (x' ++ y) < f3)%nat -> chunks C f2 i (x ++ y) = chunks C f3 i' (x' ++ y)
  end.
Proof.
  induction f as [|f IH]; intros i x Hf Hle y f2 Hf2; [lia|]. destruct f2 as [|f2]; [lia|].
  remember (chunks C (S f2) i (x ++ y)) as R eqn:ER.
  rewrite chunks_S. destruct (i_trailer i) eqn:T.
  { (* trailer section *)
    rewrite chunks_S, T in ER. subst R.
    pose proof (parse_trailers_stable i x Hle y) as PS.
    destruct (parse_trailers C i x) as [i' x'|i' x'|e] eqn:PT; try exact PS.
    intros f3 Hf3. destruct (parse_trailers_need _ _ _ _ _ PT) as [-> ->].
    destruct f3 as [|f3]; [lia|]. rewrite chunks_S, T. exact PS. }
  rewrite Hle. cbn [le_bytes]. cbv zeta.
  destruct (cut CRLF x) as [[line rest]|] eqn:Cu.
  2:{ (* no complete chunk-size line yet: nothing consumed *)
    intros f3 Hf3. subst R. apply chunks_fuel; [exact Hf2 | exact Hf3]. }
  pose proof (cut_rest_shorter _ _ _ _ CRLF_nonnil Cu) as Hr.
  destruct (py_int16_bytes _) as [z|] eqn:PZ.
  2:{ subst R. rewrite chunks_S, T, Hle. cbn [le_bytes]. cbv zeta. rewrite (cut_app _ _ _ _ y Cu), PZ. reflexivity. }
  destruct (z <? 0)%Z eqn:Zn.
  { subst R. rewrite chunks_S, T, Hle. cbn [le_bytes]. cbv zeta. rewrite (cut_app _ _ _ _ y Cu), PZ, Zn. reflexivity. }
  set (size := Z.to_N z) in *.
  destruct (N.of_nat (length rest) <? N.of_nat (length CRLF) + size) eqn:Short.
  { (* chunk not complete on x: state unchanged *)
    intros f3 Hf3. subst R. apply chunks_fuel; [exact Hf2 | exact Hf3]. }
  apply N.ltb_ge in Short.
  assert (Hsz : (N.to_nat size <= length rest)%nat) by lia.
  assert (Short2 : N.of_nat (length (rest ++ y)) <? N.of_nat (length CRLF) + size = false).
  { apply N.ltb_ge. rewrite app_length. lia. }
  assert (ER2 : R = (let n := N.to_nat size in
                let i' := set_body i (i_body i ++ firstn n rest) in
                let rest' := skipn n rest ++ y in
                if size =? 0 then parse_trailers C (set_trailer i' true) rest'
                else if prefixb CRLF rest' then chunks C f2 i' (skipn (length CRLF) rest')
                else Fail (EHttp 400))).
  { subst R. rewrite chunks_S, T, Hle. cbn [le_bytes]. cbv zeta. rewrite (cut_app _ _ _ _ y Cu), PZ, Zn.
    fold size. rewrite Short2. rewrite firstn_app_le, skipn_app_le by exact Hsz. reflexivity. }
  cbv zeta in ER2. clear ER.
  set (i1 := set_body i (i_body i ++ firstn (N.to_nat size) rest)) in *.
  set (rest' := skipn (N.to_nat size) rest) in *.
  destruct (size =? 0) eqn:Z0.
  { (* last chunk: the trailer section follows *)
    assert (Hle1 : i_le (set_trailer i1 true) = LE_CRLF) by exact Hle.
    pose proof (parse_trailers_stable (set_trailer i1 true) rest' Hle1 y) as PS. subst R.
    destruct (parse_trailers C (set_trailer i1 true) rest') as [i' x'|i' x'|e] eqn:PT; try exact PS.
    intros f3 Hf3. destruct (parse_trailers_need _ _ _ _ _ PT) as [-> ->].
    destruct f3 as [|f3]; [lia|]. rewrite chunks_S. cbn [i_trailer set_trailer]. exact PS. }
  assert (Hr' : (length CRLF <= length rest')%nat).
  { subst rest'. rewrite skipn_length. cbn [length CRLF] in *. lia. }
  rewrite (prefixb_app_long _ _ y Hr') in ER2.
  destruct (prefixb CRLF rest') eqn:P; [|subst R; reflexivity].
  rewrite skipn_app_le in ER2 by exact Hr'. subst R.
  assert (Hlen1 : (length (skipn (length CRLF) rest') < f)%nat).
  { pose proof (length_skipn_le (length CRLF) rest'). pose proof (length_skipn_le (N.to_nat size) rest). subst rest'. lia. }
  assert (Hlen2 : (length (skipn (length CRLF) rest' ++ y) < f2)%nat).
  { rewrite app_length in *. pose proof (length_skipn_le (length CRLF) rest'). pose proof (length_skipn_le (N.to_nat size) rest). subst rest'. lia. }
  exact (IH i1 _ Hlen1 Hle y f2 Hlen2).
Qed.

(* ---------- body phase ---------- *)
Lemma determine_le i i' : determine C i = inl i' -> i_le i' = i_le i.
Proof. unfold determine. intros H. repeat dmatch; try congruence; injection H as <-; reflexivity. Qed.

Lemma chunks_le f : forall i b i' b', chunks C f i b = Need i' b' -> i_le i' = i_le i.
Proof.
  induction f as [|f IH]; intros i b i' b'; cbn [chunks].
  - destruct (i_trailer i); [|discriminate]. intros H. apply parse_trailers_need in H as [-> _]. reflexivity.
  - destruct (i_trailer i); [intros H; apply parse_trailers_need in H as [-> _]; reflexivity|].
    intros H. repeat dmatch; try discriminate; try (injection H as <- _; reflexivity);
    first [apply parse_trailers_need in H as [-> _]; reflexivity | apply IH in H; exact H].
Qed.

Definition pre_body (i : inflight) : inflight + err :=
  match i_len i, i_chunked i with None, false => determine C i | _, _ => inl i end.
Definition body_phase (i : inflight) (b : bytes) : pres inflight :=
  if i_chunked i then chunks C (S (length b)) i b
  else match i_len i with
       | Some 0 | None => Done i b
       | Some len => body_with_length i len b
       end.
Lemma parse_body_eq i b : parse_body C i b = match pre_body i with inr e => Fail e | inl i1 => body_phase i1 b end.
Proof. reflexivity. Qed.

Lemma body_phase_stable i x y : i_le i = LE_CRLF ->
  match body_phase i x with
  | Done i' x' => body_phase i (x ++ y) = Done i' (x' ++ y)
  | Fail e => body_phase i (x ++ y) = Fail e
  | Need i' x' => body_phase i (x ++ y) = body_phase i' (x' ++ y) /\ pre_body i' = inl i' /\ i_le i' = LE_CRLF
  end.
Proof.
  intros Hle. destruct (i_chunked i) eqn:Ch.
  - assert (E1 : body_phase i x = chunks C (S (length x)) i x) by (unfold body_phase; rewrite Ch; reflexivity).
    assert (E2 : body_phase i (x ++ y) = chunks C (S (length (x ++ y))) i (x ++ y)) by (unfold body_phase; rewrite Ch; reflexivity).
    rewrite E1, E2.
    pose proof (chunks_stable (S (length x)) i x (Nat.lt_succ_diag_r _) Hle y (S (length (x ++ y))) (Nat.lt_succ_diag_r _)) as CS.
    destruct (chunks_ok C (S (length x)) i x (Nat.lt_succ_diag_r _)) as (_ & _ & CN).
    pose proof (chunks_le (S (length x)) i x) as CL.
    destruct (chunks C (S (length x)) i x) as [i' x'|i' x'|e]; try exact CS.
    destruct (CN _ _ eq_refl) as [_ Hc]. rewrite Ch in Hc. repeat split.
    + rewrite (CS (S (length (x' ++ y))) (Nat.lt_succ_diag_r _)). unfold body_phase. rewrite Hc. reflexivity.
    + unfold pre_body. rewrite Hc. destruct (i_len i'); reflexivity.
    + rewrite (CL _ _ eq_refl). exact Hle.
  - destruct (i_len i) as [[|p]|] eqn:L.
    + unfold body_phase. rewrite Ch, L. reflexivity.
    + assert (E1 : body_phase i x = body_with_length i (N.pos p) x) by (unfold body_phase; rewrite Ch, L; reflexivity).
      assert (E2 : body_phase i (x ++ y) = body_with_length i (N.pos p) (x ++ y)) by (unfold body_phase; rewrite Ch, L; reflexivity).
      rewrite E1, E2.
      pose proof (bwl_stable i (N.pos p) x y (eq_refl : 0 < N.pos p)) as BS.
      destruct (body_with_length i (N.pos p) x) as [i' x'|i' x'|e] eqn:BW; [|exact BS|contradiction].
      destruct BS as (r & Hr & Hpos & Hch & Heq). rewrite Ch in Hch. repeat split.
      * rewrite Heq. unfold body_phase. rewrite Hch, Hr. destruct r; [lia | reflexivity].
      * unfold pre_body. rewrite Hr. reflexivity.
      * unfold body_with_length in BW. dmatch; [|discriminate]. injection BW as <- _. exact Hle.
    + unfold body_phase. rewrite Ch, L. reflexivity.
Qed.

Lemma parse_body_stable i x y : i_le i = LE_CRLF ->
  match parse_body C i x with
  | Done i' x' => parse_body C i (x ++ y) = Done i' (x' ++ y)
  | Fail e => parse_body C i (x ++ y) = Fail e
  | Need i' x' => parse_body C i (x ++ y) = parse_body C i' (x' ++ y) /\ i_le i' = LE_CRLF
  end.
Proof.
  intros Hle. rewrite !parse_body_eq. destruct (pre_body i) as [i1|e] eqn:D; [|reflexivity].
  assert (Hle1 : i_le i1 = LE_CRLF).
  { unfold pre_body in D. destruct (i_len i); [injection D as <-; exact Hle|]. destruct (i_chunked i); [injection D as <-; exact Hle|].
    rewrite (determine_le _ _ D). exact Hle. }
  pose proof (body_phase_stable i1 x y Hle1) as BS.
  destruct (body_phase i1 x) as [i' x'|i' x'|e]; try exact BS.
  destruct BS as (E1 & E2 & E3). split; [|exact E3]. rewrite parse_body_eq, E2. exact E1.
Qed.

(* ---------- one turn of the loop ---------- *)
Definition crlf_st (s : pstate) : Prop := match cur s with Some i => i_le i = LE_CRLF | None => True end.

Lemma obc_buf i b1 b2 : on_body_complete cfg C k i b1 = on_body_complete cfg C k i b2.
Proof. unfold on_body_complete. rewrite Hpk. reflexivity. Qed.

Lemma after_headers_eq i b : after_headers cfg C k i b =
  match parse_body C i b with
  | Fail e => TErr e
  | Need i' b' => TBlocked {| buf := b'; cur := Some i' |}
  | Done i' b' => match on_body_complete cfg C k i' b' with inr e => TErr e | inl m => TMsg {| buf := b'; cur := None |} m end
  end.
Proof. reflexivity. Qed.

Lemma after_startline_eq i b : after_startline cfg C k i b =
  match i_phase i with
  | PBody => after_headers cfg C k i b
  | PHeaders =>
      match parse_headers cfg (i_le i) (i_hdrs i) b with
      | Fail e => TErr e
      | Need h b' => TBlocked {| buf := b'; cur := Some (set_hdrs i h) |}
      | Done h b' =>
          match on_headers_complete C k (set_phase (set_hdrs i h) PBody) with
          | inr e => TErr e
          | inl i' => after_headers cfg C k i' b'
          end
      end
  end.
Proof. reflexivity. Qed.

Lemma turn_of_eq s : turn_of cfg C k s =
  match cur s with
  | Some i => after_startline cfg C k i (buf s)
  | None =>
      match parse_startline cfg C (buf s) with
      | Fail e => TErr e
      | Need _ _ => TBlocked s
      | Done (line, le, info) rest =>
          after_startline cfg C k {| i_line := line; i_le := le; i_info := info; i_phase := PHeaders; i_hdrs := [];
                             i_ce := None; i_len := None; i_chunked := false; i_trailer := false; i_body := [] |} rest
      end
  end.
Proof. reflexivity. Qed.

Lemma after_headers_stable i x y : i_le i = LE_CRLF ->
  match after_headers cfg C k i x with
  | TMsg s' m => after_headers cfg C k i (x ++ y) = TMsg (app_buf s' y) m /\ cur s' = None
  | TErr e => after_headers cfg C k i (x ++ y) = TErr e
  | TBlocked s1 => exists i1, cur s1 = Some i1 /\ i_le i1 = LE_CRLF /\ i_phase i1 = i_phase i /\
                              after_headers cfg C k i (x ++ y) = after_headers cfg C k i1 (buf s1 ++ y)
  end.
Proof.
  intros Hle. rewrite (after_headers_eq i x), (after_headers_eq i (x ++ y)).
  pose proof (parse_body_stable i x y Hle) as PS. pose proof (parse_body_phase C i x) as PP.
  destruct (parse_body C i x) as [i' x'|i' x'|e].
  - destruct PS as [E1 E2]. exists i'. cbn [cur buf]. split; [reflexivity|]. split; [exact E2|]. split; [apply (PP _ _ eq_refl)|].
    rewrite E1, after_headers_eq. reflexivity.
  - rewrite PS. rewrite (obc_buf i' (x' ++ y) x'). destruct (on_body_complete cfg C k i' x'); [split|]; reflexivity.
  - rewrite PS. reflexivity.
Qed.

Lemma parse_headers_lazy_need le h x h' x' : parse_headers cfg le h x = Need h' x' -> h' = h /\ x' = x.
Proof.
  unfold parse_headers. rewrite Heg. cbn [negb]. intros H.
  repeat dmatch; try discriminate; injection H as <- <-; auto.
Qed.

Lemma set_hdrs_twice i h1 h2 : set_hdrs (set_hdrs i h1) h2 = set_hdrs i h2.
Proof. reflexivity. Qed.

Lemma after_startline_stable i x y : i_le i = LE_CRLF ->
  match after_startline cfg C k i x with
  | TMsg s' m => after_startline cfg C k i (x ++ y) = TMsg (app_buf s' y) m /\ cur s' = None
  | TErr e => after_startline cfg C k i (x ++ y) = TErr e
  | TBlocked s1 => exists i1, cur s1 = Some i1 /\ i_le i1 = LE_CRLF /\
                              after_startline cfg C k i (x ++ y) = after_startline cfg C k i1 (buf s1 ++ y)
  end.
Proof.
  intros Hle. rewrite (after_startline_eq i x), (after_startline_eq i (x ++ y)). destruct (i_phase i) eqn:Ph.
  - rewrite Hle.
    pose proof (parse_headers_stable (i_hdrs i) x y) as HS.
    destruct (parse_headers cfg LE_CRLF (i_hdrs i) x) as [h x'|h x'|e] eqn:PH.
    + destruct (parse_headers_lazy_need _ _ _ _ _ PH) as [-> ->].
      exists (set_hdrs i (i_hdrs i)). cbn [cur buf]. rewrite set_hdrs_id. repeat split; auto.
      rewrite after_startline_eq, Ph, Hle. reflexivity.
    + rewrite HS.
      destruct (on_headers_complete C k (set_phase (set_hdrs i h) PBody)) as [i2|e2] eqn:O; [|reflexivity].
      assert (Hle2 : i_le i2 = LE_CRLF).
      { apply on_headers_complete_spec in O. subst i2. exact Hle. }
      assert (Hph2 : i_phase i2 = PBody).
      { apply on_headers_complete_spec in O. subst i2. reflexivity. }
      pose proof (after_headers_stable i2 x' y Hle2) as AS.
      destruct (after_headers cfg C k i2 x') as [s1|s' m|e]; try exact AS.
      destruct AS as (i1 & E1 & E2 & E3 & E4). exists i1. repeat split; auto.
      rewrite E4, (after_startline_eq i1), E3, Hph2. reflexivity.
    + rewrite HS. reflexivity.
  - pose proof (after_headers_stable i x y Hle) as AS.
    destruct (after_headers cfg C k i x) as [s1|s' m|e]; try exact AS.
    destruct AS as (i1 & E1 & E2 & E3 & E4). exists i1. repeat split; auto.
    rewrite E4, (after_startline_eq i1), E3, Ph. reflexivity.
Qed.

Lemma turn_stable s y : crlf_st s ->
  match turn_of cfg C k s with
  | TMsg s' m => turn_of cfg C k (app_buf s y) = TMsg (app_buf s' y) m /\ crlf_st s'
  | TErr e => turn_of cfg C k (app_buf s y) = TErr e
  | TBlocked s1 => turn_of cfg C k (app_buf s y) = turn_of cfg C k (app_buf s1 y) /\ crlf_st s1
  end.
Proof.
  unfold crlf_st at 1. rewrite (turn_of_eq s), (turn_of_eq (app_buf s y)). cbn [cur buf app_buf]. destruct (cur s) as [i|] eqn:Cu; intros Hc.
  - pose proof (after_startline_stable i (buf s) y Hc) as AS.
    destruct (after_startline cfg C k i (buf s)) as [s1|s' m|e]; try exact AS.
    + destruct AS as (i1 & E1 & E2 & E3). split; [|unfold crlf_st; rewrite E1; exact E2].
      rewrite E3, turn_of_eq. cbn [cur buf app_buf]. rewrite E1. reflexivity.
    + destruct AS as [E1 E2]. split; [exact E1 | unfold crlf_st; rewrite E2; exact I].
  - pose proof (startline_stable (buf s) y) as SS.
    destruct (parse_startline cfg C (buf s)) as [a x'|[[line le] info] rest|e] eqn:PS.
    + (* nothing decided yet: the state is unchanged *)
      split; [|unfold crlf_st; rewrite Cu; exact I].
      rewrite turn_of_eq. cbn [cur buf app_buf]. rewrite Cu. reflexivity.
    + rewrite SS.
      assert (Hle : le = LE_CRLF).
      { unfold parse_startline in PS. rewrite Hlf in PS. cbn [andb] in PS.
        destruct (contains CRLF (buf s)); [|discriminate]. repeat dmatch; try discriminate. injection PS as _ <- _ _. reflexivity. }
      subst le.
      set (i0 := {| i_line := line; i_le := LE_CRLF; i_info := info; i_phase := PHeaders; i_hdrs := []; i_ce := None;
                    i_len := None; i_chunked := false; i_trailer := false; i_body := [] |}).
      pose proof (after_startline_stable i0 rest y eq_refl) as AS.
      destruct (after_startline cfg C k i0 rest) as [s1|s' m|e]; try exact AS.
      * destruct AS as (i1 & E1 & E2 & E3). split; [|unfold crlf_st; rewrite E1; exact E2].
        rewrite E3, turn_of_eq. cbn [cur buf app_buf]. rewrite E1. reflexivity.
      * destruct AS as [E1 E2]. split; [exact E1 | unfold crlf_st; rewrite E2; exact I].
    + rewrite SS. reflexivity.
Qed.

(* ---------- the loop ---------- *)
Lemma app_buf_nil s : app_buf s [] = s.
Proof. destruct s. unfold app_buf. cbn. rewrite app_nil_r. reflexivity. Qed.
Lemma wf_app_buf s y : wf_st s -> wf_st (app_buf s y).
Proof. exact (fun H => H). Qed.
Lemma crlf_app_buf s y : crlf_st s -> crlf_st (app_buf s y).
Proof. exact (fun H => H). Qed.

Lemma loop_acc F : forall s acc,
  loop cfg C k F s acc = let '(s', ms, e) := loop cfg C k F s [] in (s', rev acc ++ ms, e).
Proof.
  induction F as [|f IH]; intros s acc; cbn [loop].
  - destruct (buf s); cbn; rewrite app_nil_r; reflexivity.
  - destruct (buf s); [cbn; rewrite app_nil_r; reflexivity|].
    destruct (turn_of cfg C k s) as [s'|s' m|e]; try (cbn; rewrite app_nil_r; reflexivity).
    rewrite (IH s' (m :: acc)), (IH s' [m]). destruct (loop cfg C k f s' []) as [[s2 ms] e].
    cbn [rev app]. rewrite <- app_assoc. reflexivity.
Qed.

Lemma loop_fuel F1 : forall F2 s acc, wf_st s -> (length (buf s) < F1)%nat -> (length (buf s) < F2)%nat ->
  loop cfg C k F1 s acc = loop cfg C k F2 s acc.
Proof.
  induction F1 as [|f1 IH]; intros F2 s acc Hw H1 H2; [lia|]. destruct F2 as [|f2]; [lia|].
  cbn [loop]. destruct (buf s) eqn:B; [reflexivity|].
  pose proof (turn_ok cfg C k s Hw) as T. destruct (turn_of cfg C k s) as [s'|s' m|e]; try reflexivity.
  destruct T as [T1 T2]. rewrite B in T1. cbn [length] in *. apply IH; [exact T2 | lia | lia].
Qed.

(* a state in which the loop has nothing to do: empty buffer, or blocked and blocked again when re-run *)
Definition quiescent (s : pstate) : Prop := forall F, (length (buf s) < F)%nat -> loop cfg C k F s [] = (s, [], None).

Lemma blocked_idem s s1 : crlf_st s -> turn_of cfg C k s = TBlocked s1 -> buf s1 <> [] -> turn_of cfg C k s1 = TBlocked s1.
Proof.
  intros Hc T Hb. pose proof (turn_stable s [] Hc) as TS. rewrite T in TS. destruct TS as [TS _].
  rewrite !app_buf_nil in TS. congruence.
Qed.

Lemma loop_result_quiescent F : forall s acc s1 ms, wf_st s -> crlf_st s -> (length (buf s) < F)%nat ->
  loop cfg C k F s acc = (s1, ms, None) -> quiescent s1 /\ wf_st s1 /\ crlf_st s1.
Proof.
  induction F as [|f IH]; intros s acc s1 ms Hw Hc Hf; [lia|].
  cbn [loop]. destruct (buf s) eqn:B.
  - intros H. injection H as <- _. split; [|split; assumption]. intros F _. destruct F; cbn [loop]; rewrite B; reflexivity.
  - pose proof (turn_ok cfg C k s Hw) as T. pose proof (turn_stable s [] Hc) as TS.
    destruct (turn_of cfg C k s) as [s'|s' m|e] eqn:TT.
    + intros H. injection H as <- _. destruct TS as [_ Hc1]. split; [|split; assumption].
      intros F HF. destruct F; [lia|]. cbn [loop]. destruct (buf s') eqn:B1; [reflexivity|].
      rewrite (blocked_idem s s' Hc TT) by (rewrite B1; discriminate). reflexivity.
    + destruct T as [T1 T2]. destruct TS as [_ Hc1]. rewrite B in T1. cbn [length] in *.
      apply IH; [exact T2 | exact Hc1 | lia].
    + discriminate.
Qed.

Lemma loop_err_init F : forall s acc s1 ms e, loop cfg C k F s acc = (s1, ms, Some e) -> s1 = init.
Proof.
  induction F as [|f IH]; intros s acc s1 ms e; cbn [loop].
  - destruct (buf s); intros H; inversion H; reflexivity.
  - destruct (buf s); [intros H; inversion H|].
    destruct (turn_of cfg C k s); [intros H; inversion H | apply IH | intros H; inversion H; reflexivity].
Qed.

Lemma loop_app F : forall s y, wf_st s -> crlf_st s -> (length (buf s) < F)%nat ->
  forall F', (length (buf s ++ y) < F')%nat ->
  match loop cfg C k F s [] with
  | (s1, ms, None) => forall F'', (length (buf s1 ++ y) < F'')%nat ->
        loop cfg C k F' (app_buf s y) [] = (let '(s2, ms2, e2) := loop cfg C k F'' (app_buf s1 y) [] in (s2, ms ++ ms2, e2))
  | (_, ms, Some e) => loop cfg C k F' (app_buf s y) [] = (init, ms, Some e)
  end.
Proof.
  induction F as [|f IH]; intros s y Hw Hc Hf F' Hf'; [lia|].
  destruct y as [|y0 y].
  { (* nothing appended *)
    rewrite app_buf_nil. rewrite app_nil_r in Hf'.
    rewrite (loop_fuel (S f) F' s [] Hw Hf Hf').
    destruct (loop cfg C k F' s []) as [[s1 ms] [e|]] eqn:L.
    - rewrite (loop_err_init _ _ _ _ _ _ L). reflexivity.
    - intros F'' HF''. rewrite app_buf_nil. rewrite app_nil_r in HF''.
      destruct (loop_result_quiescent F' s [] s1 ms Hw Hc Hf' L) as [Q _]. rewrite (Q F'' HF''). rewrite app_nil_r. reflexivity. }
  set (yy := y0 :: y) in *.
  assert (Hyy : forall t, exists b1 l1, buf (app_buf t yy) = b1 :: l1).
  { intros t. cbn [app_buf buf]. subst yy. destruct (buf t); cbn; eauto. }
  cbn [loop]. destruct (buf s) eqn:B.
  - (* the buffer was empty: all the work is done on the appended octets *)
    intros F'' HF''. rewrite (loop_fuel F' F'' (app_buf s yy) [] Hw); [| cbn [app_buf buf]; rewrite B; exact Hf' | exact HF''].
    destruct (loop cfg C k F'' (app_buf s yy) []) as [[s2 ms2] e2]. reflexivity.
  - pose proof (turn_ok cfg C k s Hw) as T. pose proof (turn_stable s yy Hc) as TS.
    destruct F' as [|f']; [lia|].
    destruct (Hyy s) as (b0 & l0 & Bn).
    assert (Hlen0 : (length (buf (app_buf s yy)) < S f')%nat) by (cbn [app_buf buf]; rewrite B; exact Hf').
    destruct (turn_of cfg C k s) as [s'|s' m|e] eqn:TT.
    + (* blocked on the shorter buffer: the turn on the longer buffer is the turn of the blocked state *)
      intros F'' HF''. destruct TS as [TS Hc1]. destruct F'' as [|f'']; [lia|].
      cbn [loop]. rewrite Bn, TS. destruct (Hyy s') as (b1 & l1 & Bn1). rewrite Bn1.
      pose proof (turn_ok cfg C k (app_buf s yy) Hw) as T2. rewrite TS in T2.
      pose proof (turn_ok cfg C k (app_buf s' yy) T) as T3.
      destruct (turn_of cfg C k (app_buf s' yy)) as [s2|s2 m2|e2]; try reflexivity.
      destruct T2 as [T2 T4]. destruct T3 as [T3 _].
      rewrite (loop_fuel f' f'' s2 [m2] T4); [| lia | cbn [app_buf buf] in *; lia].
      destruct (loop cfg C k f'' s2 [m2]) as [[s3 ms3] e3]. reflexivity.
    + (* a message was completed: same message, the rest by induction *)
      destruct T as [T1 T2]. destruct TS as [TS Hc1]. rewrite B in T1. cbn [length] in *.
      cbn [loop]. rewrite Bn, TS.
      pose proof (turn_ok cfg C k (app_buf s yy) Hw) as T4. rewrite TS in T4. destruct T4 as [T4 _].
      rewrite (loop_acc f s' [m]), (loop_acc f' (app_buf s' yy) [m]).
      assert (Hl1 : (length (buf s') < f)%nat) by lia.
      assert (Hl2 : (length (buf s' ++ yy) < f')%nat) by (cbn [app_buf buf] in *; lia).
      pose proof (IH s' yy T2 Hc1 Hl1 f' Hl2) as IHs.
      destruct (loop cfg C k f s' []) as [[s1 ms] [e|]].
      * rewrite IHs. reflexivity.
      * intros F'' HF''. rewrite (IHs F'' HF''). destruct (loop cfg C k F'' (app_buf s1 yy) []) as [[s2 ms2] e2]. reflexivity.
    + cbn [loop]. rewrite Bn, TS. reflexivity.
Qed.

(* ---------- parse() ---------- *)
Lemma parse_eq s d : parse cfg C k s d = loop cfg C k (S (length (buf s ++ d))) (app_buf s d) [].
Proof. reflexivity. Qed.

Theorem parse_app s a b : wf_st s -> crlf_st s ->
  parse cfg C k s (a ++ b) =
  match parse cfg C k s a with
  | (s1, m1, None) => let '(s2, m2, e) := parse cfg C k s1 b in (s2, m1 ++ m2, e)
  | (_, m1, Some e) => (init, m1, Some e)
  end.
Proof.
  intros Hw Hc. rewrite !parse_eq.
  assert (E : app_buf s (a ++ b) = app_buf (app_buf s a) b) by (unfold app_buf; cbn; rewrite app_assoc; reflexivity).
  rewrite E.
  pose proof (loop_app (S (length (buf s ++ a))) (app_buf s a) b (wf_app_buf s a Hw) (crlf_app_buf s a Hc)
                (Nat.lt_succ_diag_r _) (S (length (buf s ++ (a ++ b))))) as LA.
  cbn [app_buf buf] in LA. rewrite <- app_assoc in LA. specialize (LA (Nat.lt_succ_diag_r _)).
  destruct (loop cfg C k (S (length (buf s ++ a))) (app_buf s a) []) as [[s1 m1] [e|]].
  - exact LA.
  - rewrite parse_eq. exact (LA _ (Nat.lt_succ_diag_r _)).
Qed.

(* what a parse() call returns is quiescent: feeding nothing changes nothing *)
Lemma parse_result s d s1 ms : wf_st s -> crlf_st s -> parse cfg C k s d = (s1, ms, None) ->
  quiescent s1 /\ wf_st s1 /\ crlf_st s1.
Proof.
  intros Hw Hc. rewrite parse_eq. apply loop_result_quiescent; [exact Hw | exact Hc | cbn; lia].
Qed.

Lemma parse_nil s : quiescent s -> parse cfg C k s [] = (s, [], None).
Proof.
  intros Q. rewrite parse_eq, app_buf_nil. apply Q. rewrite app_nil_r. lia.
Qed.

(* ---------- any fragmentation ---------- *)
(* all completed messages are kept, also those of the erroring call: the intrinsic result of a run *)
Fixpoint run_keep (s : pstate) (frags : list bytes) : pstate * list msg * option err :=
  match frags with
  | [] => (s, [], None)
  | f :: fr =>
      match parse cfg C k s f with
      | (s1, m1, None) => let '(s2, m2, e) := run_keep s1 fr in (s2, m1 ++ m2, e)
      | (_, m1, Some e) => (init, m1, Some e)
      end
  end.

Theorem run_keep_is_one_call frags : forall s, quiescent s -> wf_st s -> crlf_st s ->
  run_keep s frags = parse cfg C k s (concat_bytes frags).
Proof.
  induction frags as [|f fr IH]; intros s Q Hw Hc; cbn [run_keep concat_bytes].
  - symmetry. apply parse_nil, Q.
  - rewrite (parse_app s f (concat_bytes fr) Hw Hc).
    destruct (parse cfg C k s f) as [[s1 m1] [e|]] eqn:P; [reflexivity|].
    destruct (parse_result _ _ _ _ Hw Hc P) as (Q1 & Hw1 & Hc1). rewrite (IH s1 Q1 Hw1 Hc1). reflexivity.
Qed.

Lemma init_quiescent : quiescent init.
Proof. intros F _. destruct F; reflexivity. Qed.

(* The fragmentation theorem for the reference machine: the completed messages, the first error and
   (when there is no error) the final state -- buffer and message in progress -- depend on the stream only. *)
Theorem fragmentation_independent frags1 frags2 :
  concat_bytes frags1 = concat_bytes frags2 -> run_keep init frags1 = run_keep init frags2.
Proof.
  intros E. rewrite !run_keep_is_one_call by (first [apply init_quiescent | exact I]). rewrite E. reflexivity.
Qed.

End FragA.

(* Lemmas about Model/Accept.v (C19) *)
From Coq Require Import ZArith Sorting.Sorted Sorting.Permutation.
From Httoop Require Import Model.ElemLex Model.Accept Proofs.ElemLex Proofs.SortLemmas.
Local Open Scope N_scope.
Arguments inmask : simpl never.
Arguments beq : simpl never.

(* ---------- pinned regex structure and table facts (re-checked whenever Gen/AcceptT.v changes) ---------- *)
Lemma q_separator_pattern_pinned : Q_SEP_PAT = X "3b5c732a715c732a3d5c732a".
Proof. vm_compute. reflexivity. Qed.

(* the regex class \s, bytes.strip() and float(bytes) agree on white space; float(str) adds NEL and NBSP *)
Lemma ws_classes : RE_WS = BYTES_WS /\ FLOAT_WS_B = BYTES_WS /\ N.land FLOAT_WS_S BYTES_WS = BYTES_WS.
Proof. vm_compute. repeat split; reflexivity. Qed.

(* the five negotiation fields are known to the model *)
Lemma accept_fields_known : map fst ACCEPT_FIELDS = [X "416363657074"; X "4163636570742d43686172736574"; X "4163636570742d456e636f64696e67"; X "4163636570742d4c616e6775616765"; X "5445"].
Proof. vm_compute. reflexivity. Qed.

(* ---------- the text order (Python str comparison of ISO-8859-1 text = octet order) ---------- *)

Ltac ltb_cases :=
  repeat match goal with
  | |- context [?a <? ?b] => destruct (N.ltb_spec a b)
  | H : context [?a <? ?b] |- _ => destruct (N.ltb_spec a b)
  end.

Lemma bytes_ltb_irrefl a : bytes_ltb a a = false.
Proof. induction a as [|x a IH]; cbn [bytes_ltb]; [reflexivity|]. rewrite N.ltb_irrefl. exact IH. Qed.

Lemma bytes_ltb_trans a : forall b c, bytes_ltb a b = true -> bytes_ltb b c = true -> bytes_ltb a c = true.
Proof.
  induction a as [|x a IH]; intros [|y b] [|z c]; cbn [bytes_ltb]; try congruence.
  intros H1 H2. ltb_cases; try congruence; try lia. eapply IH; eassumption.
Qed.

Lemma bytes_ltb_negtrans a : forall b c, bytes_ltb a b = false -> bytes_ltb b c = false -> bytes_ltb a c = false.
Proof.
  induction a as [|x a IH]; intros [|y b] [|z c]; cbn [bytes_ltb]; try congruence.
  intros H1 H2. ltb_cases; try congruence; try lia. eapply IH; eassumption.
Qed.

Lemma bytes_ltb_total a : forall b, bytes_ltb a b = false -> bytes_ltb b a = false -> a = b.
Proof.
  induction a as [|x a IH]; intros [|y b]; cbn [bytes_ltb]; try congruence.
  intros H1 H2. ltb_cases; try congruence; try lia.
  assert (x = y) by (apply bN_inj; lia). subst. f_equal. apply IH; assumption.
Qed.

(* ---------- generic list facts ---------- *)

Lemma StronglySorted_impl {A} (R R' : A -> A -> Prop) l :
  (forall a b, In a l -> In b l -> R a b -> R' a b) -> StronglySorted R l -> StronglySorted R' l.
Proof.
  intros H S. induction S as [|x l S IH F]; constructor.
  - apply IH. intros a b Ha Hb. apply H; right; assumption.
  - rewrite Forall_forall in *. intros b Hb. apply H; [left; reflexivity | right; exact Hb | apply F, Hb].
Qed.

Lemma existsb_perm {A} (p : A -> bool) l l' : Permutation l l' -> existsb p l = existsb p l'.
Proof.
  induction 1; cbn; try congruence.
  - destruct (p x), (p y); reflexivity.
Qed.

Section Quality.
Context {Q : Type}.
Variable parse_q : bool -> bytes -> qres Q.
Variable qeqb qltb qleb : Q -> Q -> bool.
Variable vq vx : variant.
(* float comparison on the values float() can return for an accepted field: a total preorder *)
Hypothesis qle_total : forall a b, qleb a b = true \/ qleb b a = true.
Hypothesis qle_trans : forall a b c, qleb a b = true -> qleb b c = true -> qleb a c = true.
Hypothesis qeqb_spec : forall a b, qeqb a b = qleb a b && qleb b a.
Hypothesis qltb_spec : forall a b, qltb a b = negb (qleb b a).

Notation elem := (@elem Q).
Notation lt_elem := (@lt_elem Q qeqb qltb).
Notation accept_parse := (@accept_parse Q parse_q vq vx).
Notation elements := (@elements Q parse_q qeqb qltb vq vx).

Lemma qle_refl a : qleb a a = true.
Proof. destruct (qle_total a a); assumption. Qed.

Ltac qsat :=
  repeat match goal with
  | H1 : qleb ?a ?b = true, H2 : qleb ?b ?c = true, H3 : qleb ?a ?c = false |- _ =>
      rewrite (qle_trans a b c H1 H2) in H3; discriminate
  | H1 : qleb ?a ?b = false, H2 : qleb ?b ?a = false |- _ =>
      destruct (qle_total a b) as [T|T]; rewrite T in *; discriminate
  | H : qleb ?a ?a = false |- _ => rewrite qle_refl in H; discriminate
  end.

(* all qualities numeric ([k] = true) or all None ([k] = false) *)
Definition uniform (k : bool) (e : elem) : Prop := is_some (e_quality e) = k.

Lemma lt_elem_irrefl k a : uniform k a -> lt_elem a a = false.
Proof.
  intros _. unfold Accept.lt_elem. destruct (e_quality a) as [x|]; cbn [oq_eqb oq_ltb].
  - rewrite qeqb_spec, qle_refl. cbn. apply bytes_ltb_irrefl.
  - apply bytes_ltb_irrefl.
Qed.

Lemma lt_elem_trans k a b c : uniform k a -> uniform k b -> uniform k c ->
  lt_elem a b = true -> lt_elem b c = true -> lt_elem a c = true.
Proof.
  unfold uniform, Accept.lt_elem. intros Ua Ub Uc.
  destruct (e_quality a) as [x|], (e_quality b) as [y|], (e_quality c) as [z|]; cbn [is_some] in *; try congruence; cbn [oq_eqb oq_ltb].
  - rewrite !qeqb_spec, !qltb_spec.
    destruct (qleb x y) eqn:XY, (qleb y x) eqn:YX, (qleb y z) eqn:YZ, (qleb z y) eqn:ZY, (qleb x z) eqn:XZ, (qleb z x) eqn:ZX;
      cbn; intros H1 H2; try discriminate; try reflexivity; qsat.
    eapply bytes_ltb_trans; eassumption.
  - apply bytes_ltb_trans.
Qed.

Lemma lt_elem_negtrans k a b c : uniform k a -> uniform k b -> uniform k c ->
  lt_elem a b = false -> lt_elem b c = false -> lt_elem a c = false.
Proof.
  unfold uniform, Accept.lt_elem. intros Ua Ub Uc.
  destruct (e_quality a) as [x|], (e_quality b) as [y|], (e_quality c) as [z|]; cbn [is_some] in *; try congruence; cbn [oq_eqb oq_ltb].
  - rewrite !qeqb_spec, !qltb_spec.
    destruct (qleb x y) eqn:XY, (qleb y x) eqn:YX, (qleb y z) eqn:YZ, (qleb z y) eqn:ZY, (qleb x z) eqn:XZ, (qleb z x) eqn:ZX;
      cbn; intros H1 H2; try discriminate; try reflexivity; qsat.
    eapply bytes_ltb_negtrans; eassumption.
  - apply bytes_ltb_negtrans.
Qed.

(* not below in the element order implies not below in quality *)
Lemma lt_elem_false_quality a b : lt_elem a b = false -> oq_ltb qltb (e_quality a) (e_quality b) = false.
Proof.
  unfold Accept.lt_elem. destruct (oq_eqb qeqb (e_quality a) (e_quality b)) eqn:E; [|tauto].
  intros _. destruct (e_quality a) as [x|], (e_quality b) as [y|]; cbn [oq_eqb oq_ltb] in *; try reflexivity.
  rewrite qeqb_spec in E. apply andb_true_iff in E as [_ E]. rewrite qltb_spec, E. reflexivity.
Qed.

(* equivalent in the element order implies equal quality *)
Lemma eqv_quality k a b : uniform k a -> uniform k b ->
  lt_elem a b = false -> lt_elem b a = false -> oq_eqb qeqb (e_quality a) (e_quality b) = true.
Proof.
  unfold uniform, Accept.lt_elem. intros Ua Ub.
  destruct (e_quality a) as [x|], (e_quality b) as [y|]; cbn [is_some] in *; try congruence; cbn [oq_eqb oq_ltb]; [|reflexivity].
  rewrite !qeqb_spec, !qltb_spec.
  destruct (qleb x y) eqn:XY, (qleb y x) eqn:YX; cbn; intros H1 H2; try discriminate; try reflexivity; qsat.
Qed.

(* ---------- Headers.elements ---------- *)

Lemma collect_spec (l : list (@eres Q)) ps : collect l = Some (Some ps) -> Forall2 (fun r e => r = EOk e) l ps.
Proof.
  revert ps; induction l as [|r l IH]; cbn [collect]; intros ps H.
  - injection H as <-. constructor.
  - destruct r as [e| |]; try discriminate.
    + destruct (collect l) as [[es|]|]; try discriminate. injection H as <-. constructor; [reflexivity | apply IH; reflexivity].
    + destruct (collect l) as [o|]; discriminate.
Qed.

Definition pieces (f : bytes) : list bytes := if isnil f then [] else qsplit COMMA f.

Lemma uniform_of_flags (es : list elem) :
  existsb (fun e => is_some (e_quality e)) es && existsb (fun e => negb (is_some (e_quality e))) es = false ->
  exists k, Forall (uniform k) es.
Proof.
  intros H. destruct (existsb (fun e => is_some (e_quality e)) es) eqn:E1.
  - cbn in H. exists true. apply Forall_forall. intros e He. unfold uniform.
    destruct (is_some (e_quality e)) eqn:S; [reflexivity|].
    assert (existsb (fun e => negb (is_some (e_quality e))) es = true) by (apply existsb_exists; exists e; rewrite S; split; [exact He | reflexivity]).
    congruence.
  - exists false. apply Forall_forall. intros e He. unfold uniform.
    destruct (is_some (e_quality e)) eqn:S; [|reflexivity].
    assert (existsb (fun e => is_some (e_quality e)) es = true) by (apply existsb_exists; exists e; split; assumption).
    congruence.
Qed.

(* what an accepted field looks like *)
Lemma elements_ok_inv star f es :
  elements star f = FOk es ->
  exists ps k, Forall2 (fun p e => accept_parse star (strip p) = EOk e) (pieces f) ps /\
    Forall (uniform k) ps /\ es = sorted_rev lt_elem ps /\
    existsb (fun e => rfc2047_guard (e_text e)) ps = false /\
    existsb (fun e => is_some (e_quality e)) ps && existsb (fun e => negb (is_some (e_quality e))) ps = false.
Proof.
  unfold Accept.elements, pieces. destruct (isnil f).
  - intros H. injection H as <-. exists [], true. repeat split; constructor.
  - destruct (collect _) as [[ps|]|] eqn:C; try discriminate.
    destruct (existsb (fun e => rfc2047_guard (e_text e)) ps) eqn:G; [discriminate|].
    destruct (existsb (fun e => is_some (e_quality e)) ps && existsb (fun e => negb (is_some (e_quality e))) ps) eqn:M; [discriminate|].
    intros H. injection H as <-. destruct (uniform_of_flags ps M) as [k U].
    exists ps, k. repeat split; try assumption.
    apply collect_spec in C. clear -C. remember (qsplit COMMA f) as l. clear Heql.
    revert ps C. induction l as [|p l IH]; intros ps C; inversion C; subst; constructor; auto.
Qed.

(* clause "every listed element is returned exactly once with its parameters" *)
Theorem elements_permutation star f es :
  elements star f = FOk es ->
  exists ps, Forall2 (fun p e => accept_parse star (strip p) = EOk e) (pieces f) ps /\ Permutation ps es.
Proof.
  intros H. destruct (elements_ok_inv _ _ _ H) as (ps & k & F & U & -> & _).
  exists ps. split; [exact F | apply sorted_rev_perm].
Qed.

(* clause "non-increasing order of quality" *)
Theorem elements_sorted_elem star f es :
  elements star f = FOk es -> StronglySorted (fun a b => lt_elem a b = false) es.
Proof.
  intros H. destruct (elements_ok_inv _ _ _ H) as (ps & k & F & U & -> & _).
  apply (sorted_rev_sorted lt_elem (uniform k)); [apply lt_elem_irrefl | apply lt_elem_trans | apply lt_elem_negtrans | exact U].
Qed.

Theorem elements_sorted star f es :
  elements star f = FOk es -> StronglySorted (fun a b => oq_ltb qltb (e_quality a) (e_quality b) = false) es.
Proof.
  intros H. eapply StronglySorted_impl; [|apply (elements_sorted_elem _ _ _ H)].
  intros a b _ _. apply lt_elem_false_quality.
Qed.

(* clause "the multiset of results and the quality sequence must not depend on the order sent" *)
Theorem elements_order_invariant star f f' es ps ps' :
  Forall2 (fun p e => accept_parse star (strip p) = EOk e) (pieces f) ps ->
  Forall2 (fun p e => accept_parse star (strip p) = EOk e) (pieces f') ps' ->
  Permutation ps ps' ->
  elements star f = FOk es ->
  exists es', elements star f' = FOk es' /\ Permutation es es' /\
    Forall2 (fun a b => oq_eqb qeqb (e_quality a) (e_quality b) = true) es es'.
Proof.
  intros F F' Pm H.
  destruct (elements_ok_inv _ _ _ H) as (ps0 & k & F0 & U & -> & G & M).
  assert (ps0 = ps) as ->.
  { clear -F F0. revert ps0 F0. induction F as [|p e l es Hp F IH]; intros ps0 F0; inversion F0; subst; [reflexivity|].
    f_equal; [congruence | apply IH; assumption]. }
  assert (Forall (uniform k) ps') as U' by (eapply Permutation_Forall; eassumption).
  assert (elements star f' = FOk (sorted_rev lt_elem ps')) as E'.
  { unfold Accept.elements. unfold pieces in F'. destruct (isnil f') eqn:N.
    - inversion F'; subst. reflexivity.
    - assert (collect (map (fun p => accept_parse star (strip p)) (qsplit COMMA f')) = Some (Some ps')) as ->.
      { clear -F'. induction F' as [|p e l es Hp F IH]; cbn [map collect]; [reflexivity|]. rewrite Hp, IH. reflexivity. }
      rewrite <- (existsb_perm _ _ _ Pm), G.
      rewrite <- (existsb_perm (fun e => is_some (e_quality e)) _ _ Pm), <- (existsb_perm (fun e => negb (is_some (e_quality e))) _ _ Pm), M.
      reflexivity. }
  exists (sorted_rev lt_elem ps'). split; [exact E'|].
  assert (Permutation (sorted_rev lt_elem ps) (sorted_rev lt_elem ps')) as PmS.
  { rewrite <- (sorted_rev_perm lt_elem ps), <- (sorted_rev_perm lt_elem ps'). exact Pm. }
  split; [exact PmS|].
  assert (Forall (uniform k) (sorted_rev lt_elem ps)) as Us by (eapply Permutation_Forall; [apply sorted_rev_perm | exact U]).
  assert (Forall (uniform k) (sorted_rev lt_elem ps')) as Us' by (eapply Permutation_Forall; [apply sorted_rev_perm | exact U']).
  pose proof (sorted_perm_eqv lt_elem (uniform k) (lt_elem_irrefl k) (lt_elem_negtrans k)
    (sorted_rev lt_elem ps) (sorted_rev lt_elem ps') Us
    (sorted_rev_sorted lt_elem (uniform k) (lt_elem_irrefl k) (lt_elem_trans k) (lt_elem_negtrans k) ps U)
    (sorted_rev_sorted lt_elem (uniform k) (lt_elem_irrefl k) (lt_elem_trans k) (lt_elem_negtrans k) ps' U') PmS) as E.
  clear -E Us Us' qeqb_spec qltb_spec qle_total qle_trans.
  induction E as [|a b la lb [H1 H2] E IH]; constructor.
  - inversion Us; inversion Us'; subst. eapply eqv_quality; eassumption.
  - inversion Us; inversion Us'; subst. apply IH; assumption.
Qed.

(* ---------- clause "a non-empty quality value that is not a number makes the field invalid" ---------- *)

(* the text an element hands to float(): its q parameter, or "1" *)
Definition q_text (e : elem) : bytes := match get_param QKEY (e_params e) with Some t => t | None => ONE end.

(* the branches of accept_parse that return an element *)
Lemma accept_parse_ok_inv star s e :
  accept_parse star s = EOk e ->
  exists mt ps qb ps0 ext,
    parseparams (strip (fst (qsep_split s))) = POk mt ps /\
    match parse_qpart vx (snd (qsep_split s)) with
    | QText t x => qb = true /\ ps0 = set_param QKEY t ps /\ ext = x
    | QNoSep => qb = false /\ ps0 = ps /\ ext = []
    | _ => False
    end /\
    existsb (has_key ps0) ext = false /\
    e_params e = ps0 ++ ext /\ e_qbytes e = qb /\
    e_value e = (if star && bytes_eqb mt [STAR] then [STAR; SLASH; STAR] else mt) /\
    e_text e = compose (e_value e) qb (e_params e) /\
    let qt := match get_param QKEY (ps0 ++ ext) with Some t => t | None => ONE end in
    ((vq = AsFound /\ isnil qt = true /\ e_quality e = None) \/
     ((vq = Repaired \/ isnil qt = false) /\ exists q, parse_q qb qt = QVal q /\ e_quality e = Some q)).
Proof.
  unfold Accept.accept_parse. destruct (rfc2047_guard s); [discriminate|].
  destruct (qsep_split s) as [before after]. cbn [fst snd].
  destruct (parse_qpart vx after) as [|t x| |] eqn:QP; try discriminate;
  destruct (parseparams (strip before)) as [mt ps| |]; try discriminate; cbv zeta beta iota.
  - cbn [existsb]. set (qt := match get_param QKEY (ps ++ []) with Some t => t | None => ONE end).
    intros H. exists mt, ps, false, ps, []. split; [reflexivity|]. split; [repeat split|]. split; [reflexivity|].
    fold qt. destruct vq.
    + destruct (isnil qt) eqn:N.
      * injection H as <-. cbn [e_params e_qbytes e_value e_text e_quality]. repeat split. left. repeat split.
      * destruct (parse_q false qt) as [q| |] eqn:PQ; try discriminate. injection H as <-.
        cbn [e_params e_qbytes e_value e_text e_quality]. repeat split. right. split; [right; reflexivity|]. exists q. split; reflexivity.
    + destruct (parse_q false qt) as [q| |] eqn:PQ; try discriminate. injection H as <-.
      cbn [e_params e_qbytes e_value e_text e_quality]. repeat split. right. split; [left; reflexivity|]. exists q. split; reflexivity.
  - destruct (existsb (has_key (set_param QKEY t ps)) x) eqn:D; [discriminate|].
    set (qt := match get_param QKEY (set_param QKEY t ps ++ x) with Some t => t | None => ONE end).
    intros H. exists mt, ps, true, (set_param QKEY t ps), x. split; [reflexivity|]. split; [repeat split|]. split; [exact D|].
    fold qt. destruct vq.
    + destruct (isnil qt) eqn:N.
      * injection H as <-. cbn [e_params e_qbytes e_value e_text e_quality]. repeat split. left. repeat split.
      * destruct (parse_q true qt) as [q| |] eqn:PQ; try discriminate. injection H as <-.
        cbn [e_params e_qbytes e_value e_text e_quality]. repeat split. right. split; [right; reflexivity|]. exists q. split; reflexivity.
    + destruct (parse_q true qt) as [q| |] eqn:PQ; try discriminate. injection H as <-.
      cbn [e_params e_qbytes e_value e_text e_quality]. repeat split. right. split; [left; reflexivity|]. exists q. split; reflexivity.
Qed.

(* an element that is returned has no quality (only as found, only for an empty q text) or the value float() gives to its q text *)
Lemma accept_parse_quality star s e :
  accept_parse star s = EOk e ->
  (vq = AsFound /\ isnil (q_text e) = true /\ e_quality e = None) \/
  ((vq = Repaired \/ isnil (q_text e) = false) /\ exists q, parse_q (e_qbytes e) (q_text e) = QVal q /\ e_quality e = Some q).
Proof.
  intros H. destruct (accept_parse_ok_inv _ _ _ H) as (mt & ps & qb & ps0 & ext & _ & _ & _ & Ep & Eb & _ & _ & Hq).
  unfold q_text. rewrite Ep, Eb. exact Hq.
Qed.

(* every returned element carries a q text that is empty or that float() turned into a value *)
Theorem elements_quality_is_number star f es e :
  elements star f = FOk es -> In e es ->
  (vq = AsFound /\ isnil (q_text e) = true /\ e_quality e = None) \/
  ((vq = Repaired \/ isnil (q_text e) = false) /\ exists q, parse_q (e_qbytes e) (q_text e) = QVal q /\ e_quality e = Some q).
Proof.
  intros H He. destruct (elements_permutation _ _ _ H) as (ps & F & Pm).
  apply (Permutation_in _ (Permutation_sym Pm)) in He.
  clear -F He. induction F as [|p x l ps Hp F IH]; [destruct He|].
  destruct He as [<-|He]; [eapply accept_parse_quality; exact Hp | apply IH, He].
Qed.

Lemma get_param_app_some k a b v : get_param k a = Some v -> get_param k (a ++ b) = Some v.
Proof.
  induction a as [|[k' v'] a IH]; cbn [get_param app]; [discriminate|].
  destruct (bytes_eqb k' k); [trivial | exact IH].
Qed.

Lemma get_set_param k v ps : get_param k (set_param k v ps) = Some v.
Proof.
  induction ps as [|[k' v'] ps IH]; cbn [set_param get_param].
  - rewrite bytes_eqb_refl. reflexivity.
  - destruct (bytes_eqb k' k) eqn:E; cbn [get_param]; [rewrite bytes_eqb_refl; reflexivity | rewrite E; exact IH].
Qed.

(* the q text of a listed element, as _AcceptElement.parse extracts it (None: the element is refused or outside the model before float() is reached) *)
Definition q_source (s : bytes) : option (bool * bytes) :=
  if rfc2047_guard s then None
  else
    let '(before, after) := qsep_split s in
    match parse_qpart vx after, parseparams (strip before) with
    | QText t ext, POk _ ps => if existsb (has_key (set_param QKEY t ps)) ext then None else Some (true, t)
    | QNoSep, POk _ ps => Some (false, match get_param QKEY ps with Some x => x | None => ONE end)
    | _, _ => None
    end.

Lemma accept_parse_bad_q star s b t :
  q_source s = Some (b, t) -> vq = Repaired \/ isnil t = false -> parse_q b t = QBad -> accept_parse star s = EInvalid.
Proof.
  unfold q_source, Accept.accept_parse. destruct (rfc2047_guard s); [discriminate|].
  destruct (qsep_split s) as [before after].
  destruct (parse_qpart vx after) as [|t' x| |]; try discriminate;
  destruct (parseparams (strip before)) as [mt ps| |]; try discriminate; cbv zeta beta iota.
  - cbn [existsb]. rewrite app_nil_r. intros H; injection H as <- <-. intros N PQ. rewrite PQ.
    destruct vq; [|reflexivity]. destruct N as [N|N]; [discriminate | rewrite N; reflexivity].
  - destruct (existsb (has_key (set_param QKEY t' ps)) x); [discriminate|].
    rewrite (get_param_app_some _ _ x _ (get_set_param QKEY t' ps)).
    intros H; injection H as <- <-. intros N PQ. rewrite PQ.
    destruct vq; [|reflexivity]. destruct N as [N|N]; [discriminate | rewrite N; reflexivity].
Qed.

Lemma collect_invalid (l : list (@eres Q)) : In EInvalid l -> collect l = None \/ collect l = Some None.
Proof.
  induction l as [|r l IH]; [intros []|]. intros [->|H]; cbn [collect].
  - destruct (collect l); [right | left]; reflexivity.
  - destruct (IH H) as [E|E]; rewrite E; destruct r; auto.
Qed.

Theorem malformed_q_invalid star f p b t :
  isnil f = false -> In p (qsplit COMMA f) ->
  q_source (strip p) = Some (b, t) -> vq = Repaired \/ isnil t = false -> parse_q b t = QBad ->
  elements star f = FInvalid \/ elements star f = FUnmodelled.
Proof.
  intros Nf Hp Hs Nt PQ. unfold Accept.elements. rewrite Nf.
  assert (In EInvalid (map (fun p => accept_parse star (strip p)) (qsplit COMMA f))) as Hin.
  { apply in_map_iff. exists p. split; [eapply accept_parse_bad_q; eassumption | exact Hp]. }
  destruct (collect_invalid _ Hin) as [E|E]; rewrite E; [right | left]; reflexivity.
Qed.

(* "absent meaning 1": an element without q parameter has the quality float("1") *)

Lemma accept_parse_absent star s e q1 :
  accept_parse star s = EOk e -> get_param QKEY (e_params e) = None ->
  parse_q false ONE = QVal q1 -> e_quality e = Some q1.
Proof.
  intros H G P1.
  destruct (accept_parse_ok_inv _ _ _ H) as (mt & ps & qb & ps0 & ext & _ & QP & _ & Ep & Eb & _ & _ & Hq).
  rewrite Ep in G. cbv zeta in Hq. rewrite G in Hq.
  destruct (parse_qpart vx (snd (qsep_split s))) as [|t x| |]; try contradiction.
  - destruct QP as (-> & _). cbn [isnil ONE] in Hq.
    destruct Hq as [(_ & N & _)|(_ & q & PQ & ->)]; [discriminate | congruence].
  - destruct QP as (_ & -> & _). rewrite (get_param_app_some _ _ ext _ (get_set_param QKEY t ps)) in G. discriminate.
Qed.

Theorem elements_absent_is_one star f es e q1 :
  elements star f = FOk es -> In e es -> get_param QKEY (e_params e) = None ->
  parse_q false ONE = QVal q1 -> e_quality e = Some q1.
Proof.
  intros H He G P1. destruct (elements_permutation _ _ _ H) as (ps & F & Pm).
  apply (Permutation_in _ (Permutation_sym Pm)) in He.
  clear -F He G P1. induction F as [|p x l ps Hp F IH]; [destruct He|].
  destruct He as [<-|He]; [eapply accept_parse_absent; eassumption | apply IH, He].
Qed.

(* the comparison used by sorted() is a strict weak order on the elements of an accepted field *)
Theorem lt_elem_strict_weak_order k :
  (forall a, uniform k a -> lt_elem a a = false) /\ (forall a b c, uniform k a -> uniform k b -> uniform k c -> lt_elem a b = true -> lt_elem b c = true -> lt_elem a c = true) /\ (forall a b c, uniform k a -> uniform k b -> uniform k c -> lt_elem a b = false -> lt_elem b c = false -> lt_elem a c = false).
Proof. split; [apply lt_elem_irrefl | split; [apply lt_elem_trans | apply lt_elem_negtrans]]. Qed.

Theorem elements_uniform star f es : elements star f = FOk es -> exists k, Forall (uniform k) es.
Proof.
  intros H. destruct (elements_ok_inv _ _ _ H) as (ps & k & F & U & -> & _). exists k.
  eapply Permutation_Forall; [apply sorted_rev_perm | exact U].
Qed.

End Quality.

(* ---------- after the repair of D25 (empty q): every returned quality is a number, sorting is total ---------- *)

Section RepairedEmptyQ.
Context {Q : Type}.
Variable parse_q : bool -> bytes -> qres Q.
Variable qeqb qltb : Q -> Q -> bool.
Variable vx : variant.
Notation accept_parse := (@accept_parse Q parse_q Repaired vx).
Notation elements := (@elements Q parse_q qeqb qltb Repaired vx).

Lemma accept_parse_numeric star s e :
  accept_parse star s = EOk e -> exists q, parse_q (e_qbytes e) (q_text e) = QVal q /\ e_quality e = Some q.
Proof.
  intros H. destruct (accept_parse_quality parse_q Repaired vx _ _ _ H) as [(A & _)|(_ & R)]; [discriminate | exact R].
Qed.

Lemma collect_numeric star (l : list bytes) es :
  collect (map (fun p => accept_parse star (strip p)) l) = Some (Some es) -> Forall (uniform true) es.
Proof.
  intros C. apply collect_spec in C. remember (map (fun p => accept_parse star (strip p)) l) as rs eqn:E.
  revert l E. induction C as [|r e rs es Hr C IH]; intros l E; [constructor|].
  destruct l as [|p l]; [discriminate|]. cbn [map] in E. injection E as E1 E2. constructor.
  - subst r. symmetry in E1. destruct (accept_parse_numeric _ _ _ E1) as (q & _ & Hq). unfold uniform. rewrite Hq. reflexivity.
  - apply (IH l E2).
Qed.

(* the TypeError (None < float) can no longer arise *)
Theorem elements_no_typeerror_repaired star f : elements star f <> FTypeError.
Proof.
  unfold Accept.elements. destruct (isnil f); [discriminate|].
  destruct (collect _) as [[es|]|] eqn:C; try discriminate.
  destruct (existsb (fun e => rfc2047_guard (e_text e)) es); [discriminate|].
  apply collect_numeric in C.
  assert (existsb (fun e : elem => negb (is_some (e_quality e))) es = false) as ->.
  { apply existsb_false_forall. apply forallb_forall. intros e He. rewrite Forall_forall in C.
    specialize (C e He). unfold uniform in C. rewrite C. reflexivity. }
  rewrite andb_false_r. discriminate.
Qed.

(* every returned element has the quality float() gives to its q text (or to "1") *)
Theorem elements_numeric_repaired star f es e :
  elements star f = FOk es -> In e es ->
  exists q, parse_q (e_qbytes e) (q_text e) = QVal q /\ e_quality e = Some q.
Proof.
  intros H He. destruct (elements_quality_is_number parse_q qeqb qltb Repaired vx _ _ _ _ H He) as [(A & _)|(_ & R)]; [discriminate | exact R].
Qed.

Theorem elements_uniform_repaired star f es : elements star f = FOk es -> Forall (uniform true) es.
Proof.
  intros H. apply Forall_forall. intros e He. destruct (elements_numeric_repaired _ _ _ _ H He) as (q & _ & Hq).
  unfold uniform. rewrite Hq. reflexivity.
Qed.

(* a listed element whose q text float() refuses - the empty text included - makes the field invalid *)
Theorem malformed_q_invalid_repaired star f p b t :
  isnil f = false -> In p (qsplit COMMA f) ->
  q_source vx (strip p) = Some (b, t) -> parse_q b t = QBad ->
  elements star f = FInvalid \/ elements star f = FUnmodelled.
Proof. intros Nf Hp Hs PQ. eapply malformed_q_invalid; try eassumption. left. reflexivity. Qed.

End RepairedEmptyQ.

(* ---------- the concrete instance: decimals as scaled integers ---------- *)

Lemma Z_order_ok :
  (forall a b : Z, Z.leb a b = true \/ Z.leb b a = true) /\
  (forall a b c : Z, Z.leb a b = true -> Z.leb b c = true -> Z.leb a c = true) /\
  (forall a b : Z, Z.eqb a b = Z.leb a b && Z.leb b a) /\
  (forall a b : Z, Z.ltb a b = negb (Z.leb b a)).
Proof.
  repeat split; intros.
  - destruct (Z.leb_spec a b); [left; reflexivity | right; apply Z.leb_le; lia].
  - apply Z.leb_le in H, H0. apply Z.leb_le. lia.
  - destruct (Z.eqb_spec a b), (Z.leb_spec a b), (Z.leb_spec b a); cbn; try reflexivity; lia.
  - destruct (Z.ltb_spec a b), (Z.leb_spec b a); cbn; try reflexivity; lia.
Qed.

(* with the concrete value function, "not a number" is exactly: float() refuses the text, or reads NaN / an infinity *)
Lemma concrete_bad b t :
  concrete_q b t = QBad <-> (float_parse b t = FErr \/ exists neg w, float_parse b t = FSpecial neg w).
Proof.
  unfold concrete_q. destruct (float_parse b t) as [neg m nd e|neg w|]; split; intros H.
  - destruct (m =? 0); [discriminate|]. destruct ((nd <=? 15) && (- QSCALE <=? e)%Z && (e <=? QSCALE)%Z); discriminate.
  - destruct H as [H|[? [? H]]]; discriminate.
  - right. exists neg, w. reflexivity.
  - reflexivity.
  - left. reflexivity.
  - reflexivity.
Qed.

(* float() refuses the empty text *)
Lemma concrete_empty_bad b : concrete_q b [] = QBad.
Proof. destruct b; vm_compute; reflexivity. Qed.

Definition celements := @elements Z concrete_q Z.eqb Z.ltb.

(* witnesses of the two findings D25 on the faithful model of the code as found (both repaired since) *)
Lemma empty_q_typeerror vx : celements AsFound vx true (X "612f623b713d2c20632f64") = FTypeError.
Proof. destruct vx; vm_compute; reflexivity. Qed.
Lemma empty_q_none vx : exists es e, celements AsFound vx true (X "612f623b713d") = FOk es /\ In e es /\ e_quality e = None.
Proof. destruct vx; (eexists; eexists; split; [vm_compute; reflexivity|]; split; [left; reflexivity | reflexivity]). Qed.
Lemma accept_ext_rejected vq :
  celements vq AsFound true (X "746578742f68746d6c3b713d302e353b6578743d31") = FInvalid /\
  concrete_q true (X "302e35") = QVal (5 * 10 ^ 39)%Z.
Proof. destruct vq; vm_compute; split; reflexivity. Qed.

(* the same inputs on the model of the repaired code *)
Lemma empty_q_invalid_repaired vx :
  celements Repaired vx true (X "612f623b713d2c20632f64") = FInvalid /\ celements Repaired vx true (X "612f623b713d") = FInvalid.
Proof. destruct vx; vm_compute; split; reflexivity. Qed.
(* text/html;q=0.5;ext=1  ->  one element, quality 0.5, parameters q=0.5 and ext=1, composed as "text/html; q=0.5; ext=1" *)
Lemma accept_ext_returned_repaired vq :
  match celements vq Repaired true (X "746578742f68746d6c3b713d302e353b6578743d31") with
  | FOk [e] => e_value e = X "746578742f68746d6c" /\ e_params e = [(X "71", X "302e35"); (X "657874", X "31")] /\
               e_quality e = Some (5 * 10 ^ 39)%Z /\ e_text e = X "746578742f68746d6c3b20713d302e353b206578743d31"
  | _ => False
  end.
Proof. destruct vq; vm_compute; repeat split; reflexivity. Qed.

(* ---------- statements with the order hypotheses bundled ---------- *)

(* == and < on the values float() returns come from one total preorder (true of IEEE doubles without NaN) *)
Definition float_order {Q : Type} (qeqb qltb qleb : Q -> Q -> bool) : Prop :=
  (forall a b, qleb a b = true \/ qleb b a = true) /\
  (forall a b c, qleb a b = true -> qleb b c = true -> qleb a c = true) /\
  (forall a b, qeqb a b = qleb a b && qleb b a) /\
  (forall a b, qltb a b = negb (qleb b a)).

Lemma float_order_Z : float_order Z.eqb Z.ltb Z.leb.
Proof. exact Z_order_ok. Qed.

Section Bundled.
Context {Q : Type}.
Variable parse_q : bool -> bytes -> qres Q.
Variable qeqb qltb qleb : Q -> Q -> bool.
Variable vq vx : variant.
Hypothesis FO : float_order qeqb qltb qleb.

Theorem b_strict_weak_order k :
  (forall a, uniform k a -> lt_elem qeqb qltb a a = false) /\
  (forall a b c, uniform k a -> uniform k b -> uniform k c ->
     lt_elem qeqb qltb a b = true -> lt_elem qeqb qltb b c = true -> lt_elem qeqb qltb a c = true) /\
  (forall a b c, uniform k a -> uniform k b -> uniform k c ->
     lt_elem qeqb qltb a b = false -> lt_elem qeqb qltb b c = false -> lt_elem qeqb qltb a c = false).
Proof. destruct FO as (H1 & H2 & H3 & H4). exact (lt_elem_strict_weak_order qeqb qltb qleb H1 H2 H3 H4 k). Qed.

Theorem b_sorted star f es :
  elements parse_q qeqb qltb vq vx star f = FOk es ->
  StronglySorted (fun a b => oq_ltb qltb (e_quality a) (e_quality b) = false) es.
Proof. destruct FO as (H1 & H2 & H3 & H4). exact (elements_sorted parse_q qeqb qltb qleb vq vx H1 H2 H3 H4 star f es). Qed.

Theorem b_sorted_elem star f es :
  elements parse_q qeqb qltb vq vx star f = FOk es ->
  StronglySorted (fun a b => lt_elem qeqb qltb a b = false) es.
Proof. destruct FO as (H1 & H2 & H3 & H4). exact (elements_sorted_elem parse_q qeqb qltb qleb vq vx H1 H2 H3 H4 star f es). Qed.

Theorem b_order_invariant star f f' es ps ps' :
  Forall2 (fun p e => accept_parse parse_q vq vx star (strip p) = EOk e) (pieces f) ps ->
  Forall2 (fun p e => accept_parse parse_q vq vx star (strip p) = EOk e) (pieces f') ps' ->
  Permutation ps ps' ->
  elements parse_q qeqb qltb vq vx star f = FOk es ->
  exists es', elements parse_q qeqb qltb vq vx star f' = FOk es' /\ Permutation es es' /\
    Forall2 (fun a b => oq_eqb qeqb (e_quality a) (e_quality b) = true) es es'.
Proof. destruct FO as (H1 & H2 & H3 & H4). exact (elements_order_invariant parse_q qeqb qltb qleb vq vx H1 H2 H3 H4 star f f' es ps ps'). Qed.

End Bundled.

(* a fully computed example: Accept: a/b;q=0.5, c/d  ->  c/d (absent = 1) before a/b *)
Lemma example_sorted vq vx :
  match celements vq vx true (X "612f623b713d302e352c20632f64") with
  | FOk [e1; e2] => e_value e1 = X "632f64" /\ e_value e2 = X "612f62" /\
                    e_quality e1 = Some (10 ^ 40)%Z /\ e_quality e2 = Some (5 * 10 ^ 39)%Z
  | _ => False
  end.
Proof. destruct vq, vx; vm_compute; repeat split; reflexivity. Qed.

Lemma example_malformed vq vx :
  q_source vx (X "612f623b713d6f6e65") = Some (true, X "6f6e65") /\ concrete_q true (X "6f6e65") = QBad /\
  q_source vx (X "612f623b713d6e616e") = Some (true, X "6e616e") /\ concrete_q true (X "6e616e") = QBad /\
  celements vq vx true (X "632f642c20612f623b713d6f6e65") = FInvalid.
Proof. destruct vq, vx; vm_compute; repeat split; reflexivity. Qed.

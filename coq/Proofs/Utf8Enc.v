(* The UTF-8 encoder of Model/HeadersApi.v produces what the strict validator of Lib/Utf8.v accepts,
   and agrees with the Latin-1 -> UTF-8 transcoder on Latin-1 text. *)
From Coq Require Import ZArith.
From Httoop Require Import Lib.Bytes Lib.Utf8 Model.HeadersApi.
Local Open Scope N_scope.

Ltac arith := zify; Z.to_euclidean_division_equations; lia.

Lemma bN_Nb' n : n < 256 -> bN (Nb n) = n.
Proof. apply bN_Nb. Qed.

Lemma utf8_valid_cons_ascii c r : bN c < 128 -> utf8_valid (c :: r) = utf8_valid r.
Proof. intros H. cbn [utf8_valid]. apply N.ltb_lt in H. rewrite H. reflexivity. Qed.

Lemma ltb_false a b : b <= a -> (a <? b) = false.
Proof. intros H. apply N.ltb_ge. exact H. Qed.
Lemma leb_true a b : a <= b -> (a <=? b) = true.
Proof. intros H. apply N.leb_le. exact H. Qed.
Lemma leb_false a b : b < a -> (a <=? b) = false.
Proof. intros H. apply N.leb_gt. exact H. Qed.
Lemma eqb_false a b : a <> b -> (a =? b) = false.
Proof. intros H. apply N.eqb_neq. exact H. Qed.

Lemma cont_Nb n : 128 <= n -> n <= 191 -> cont (Nb n) = true.
Proof. intros A B. unfold cont. rewrite bN_Nb by lia. rewrite (leb_true _ _ A), (leb_true _ _ B). reflexivity. Qed.
Lemma inr_Nb lo hi n : lo <= n -> n <= hi -> n < 256 -> inr lo hi (Nb n) = true.
Proof. intros A B C. unfold inr. rewrite bN_Nb by lia. rewrite (leb_true _ _ A), (leb_true _ _ B). reflexivity. Qed.

Lemma uv2 c a r : 194 <= bN c -> bN c <= 223 -> utf8_valid (c :: a :: r) = cont a && utf8_valid r.
Proof.
  intros A B. cbn [utf8_valid]. rewrite ltb_false by lia. rewrite (leb_true 194), (leb_true _ 223) by lia. reflexivity.
Qed.
Lemma uv3 c a b r : 224 <= bN c -> bN c <= 239 -> utf8_valid (c :: a :: b :: r) =
  (if bN c =? 224 then inr 160 191 a else if bN c =? 237 then inr 128 159 a else cont a) && cont b && utf8_valid r.
Proof.
  intros A B. cbn [utf8_valid]. rewrite ltb_false by lia. rewrite (leb_false _ 223) by lia. rewrite andb_false_r.
  rewrite (leb_true 224), (leb_true _ 239) by lia. reflexivity.
Qed.
Lemma uv4 c a b d r : 240 <= bN c -> bN c <= 244 -> utf8_valid (c :: a :: b :: d :: r) =
  (if bN c =? 240 then inr 144 191 a else if bN c =? 244 then inr 128 143 a else cont a) && cont b && cont d && utf8_valid r.
Proof.
  intros A B. cbn [utf8_valid]. rewrite ltb_false by lia. rewrite (leb_false _ 223) by lia. rewrite andb_false_r.
  rewrite (leb_false _ 239) by lia. rewrite andb_false_r.
  rewrite (leb_true 240), (leb_true _ 244) by lia. reflexivity.
Qed.

Lemma some_inj (a b : bytes) : Some a = Some b -> b = a.
Proof. intros H. injection H as ->. reflexivity. Qed.
Ltac inj H := apply some_inj in H; subst.

Lemma utf8_valid_enc1 cp u r : utf8_enc1 cp = Some u -> utf8_valid (u ++ r) = utf8_valid r.
Proof.
  unfold utf8_enc1.
  destruct (cp <? 128) eqn:E1; [apply N.ltb_lt in E1 | apply N.ltb_ge in E1].
  { intros H. inj H. cbn [app]. apply utf8_valid_cons_ascii. rewrite bN_Nb; lia. }
  destruct (cp <? 2048) eqn:E2; [apply N.ltb_lt in E2 | apply N.ltb_ge in E2].
  { intros H. inj H. cbn [app].
    assert (L : 194 <= 192 + cp / 64 <= 223) by arith.
    rewrite uv2 by (rewrite bN_Nb; lia). rewrite cont_Nb by arith. reflexivity. }
  destruct (cp <? 65536) eqn:E3; [apply N.ltb_lt in E3 | apply N.ltb_ge in E3].
  { destruct ((55296 <=? cp) && (cp <=? 57343)) eqn:S; [discriminate|].
    intros H. inj H. cbn [app].
    assert (L : 224 <= 224 + cp / 4096 <= 239) by arith.
    rewrite uv3 by (rewrite bN_Nb; lia). rewrite (bN_Nb (224 + cp / 4096)) by lia.
    rewrite (cont_Nb (128 + cp mod 64)) by arith. rewrite andb_true_r.
    apply andb_false_iff in S.
    destruct (224 + cp / 4096 =? 224) eqn:F1; [apply N.eqb_eq in F1 | apply N.eqb_neq in F1].
    - rewrite inr_Nb by arith. reflexivity.
    - destruct (224 + cp / 4096 =? 237) eqn:F2; [apply N.eqb_eq in F2 | apply N.eqb_neq in F2].
      + assert (cp < 55296).
        { destruct S as [S|S]; [apply N.leb_gt in S; exact S | apply N.leb_gt in S; arith]. }
        rewrite inr_Nb by arith. reflexivity.
      + rewrite cont_Nb by arith. reflexivity. }
  destruct (cp <? 1114112) eqn:E4; [apply N.ltb_lt in E4 | discriminate].
  intros H. inj H. cbn [app].
  assert (L : 240 <= 240 + cp / 262144 <= 244) by arith.
  rewrite uv4 by (rewrite bN_Nb; lia). rewrite (bN_Nb (240 + cp / 262144)) by lia.
  rewrite (cont_Nb (128 + cp mod 64)) by arith. rewrite (cont_Nb (128 + (cp / 64) mod 64)) by arith.
  rewrite !andb_true_r.
  destruct (240 + cp / 262144 =? 240) eqn:F1; [apply N.eqb_eq in F1 | apply N.eqb_neq in F1].
  - rewrite inr_Nb by arith. reflexivity.
  - destruct (240 + cp / 262144 =? 244) eqn:F2; [apply N.eqb_eq in F2 | apply N.eqb_neq in F2].
    + rewrite inr_Nb by arith. reflexivity.
    + rewrite cont_Nb by arith. reflexivity.
Qed.

Theorem utf8_valid_enc t : forall u, utf8_enc t = Some u -> utf8_valid u = true.
Proof.
  induction t as [|cp t IH]; intros u; cbn [utf8_enc].
  - intros H. injection H as <-. reflexivity.
  - destruct (utf8_enc1 cp) as [a|] eqn:E; [|discriminate]. destruct (utf8_enc t) as [b|]; [|discriminate].
    intros H. injection H as <-. rewrite (utf8_valid_enc1 _ _ b E). apply IH. reflexivity.
Qed.

(* Latin-1 text: encoding as Latin-1 and transcoding to UTF-8 is encoding as UTF-8 *)
Lemma l1u8_enc1 cp : cp < 256 -> utf8_enc1 cp = Some (l1u8 (Nb cp)).
Proof.
  intros H. unfold utf8_enc1, l1u8. rewrite bN_Nb by exact H.
  destruct (cp <? 128); [reflexivity|]. assert (E : (cp <? 2048) = true) by (apply N.ltb_lt; lia). rewrite E. reflexivity.
Qed.

Theorem latin1_utf8 t : is_latin1 t = true -> utf8_enc t = Some (latin1_to_utf8 (latin1_enc t)).
Proof.
  induction t as [|cp t IH]; [reflexivity|]. cbn [is_latin1 forallb]. rewrite andb_true_iff. intros [H1 H2].
  apply N.ltb_lt in H1. cbn [utf8_enc latin1_enc map latin1_to_utf8 flat_map]. rewrite (l1u8_enc1 _ H1).
  fold (latin1_enc t) (latin1_to_utf8 (latin1_enc t)). fold (is_latin1 t) in H2. rewrite (IH H2). reflexivity.
Qed.

(* split / join inversion lemmas used by the codec proofs (C14): first occurrence of a pattern,
   bytes.split on a join, occurrences across a seam. *)
From Httoop Require Import Lib.Bytes Lib.Split Proofs.SplitP.
Local Open Scope N_scope.

(* ---- contains = "there is an occurrence" ---- *)
Lemma cut_complete pat : pat <> [] -> forall a b, exists a' b', cut pat (a ++ pat ++ b) = Some (a', b').
Proof.
  intros Hp a; induction a as [|c a IH]; intros b.
  - destruct pat as [|p pat]; [congruence|]. cbn [app cut].
    change (p :: pat ++ b) with ((p :: pat) ++ b). rewrite prefixb_app. eauto.
  - cbn [app cut]. destruct (prefixb pat (c :: a ++ pat ++ b)); [eauto|].
    destruct (IH b) as (a' & b' & E). rewrite E. eauto.
Qed.

Lemma contains_iff pat l : pat <> [] -> (contains pat l = true <-> exists a b, l = a ++ pat ++ b).
Proof.
  intros Hp. unfold contains. split.
  - destruct (cut pat l) as [[a b]|] eqn:C; [|discriminate]. intros _. exists a, b. apply (cut_some _ _ _ _ Hp C).
  - intros (a & b & ->). destruct (cut_complete pat Hp a b) as (a' & b' & E). rewrite E. reflexivity.
Qed.

Lemma contains_false_cut pat l : contains pat l = false <-> cut pat l = None.
Proof. unfold contains. destruct (cut pat l) as [[? ?]|]; split; congruence. Qed.

Lemma contains_short pat l : (length l < length pat)%nat -> contains pat l = false.
Proof.
  intros H. destruct (contains pat l) eqn:E; [|reflexivity]. exfalso.
  assert (Hp : pat <> []) by (intros ->; cbn in H; lia).
  apply (contains_iff _ _ Hp) in E as (a & b & ->). rewrite !app_length in H. lia.
Qed.

Lemma contains_app_l_false pat l r : contains pat (l ++ r) = false -> contains pat l = false.
Proof.
  intros H. destruct (contains pat l) eqn:E; [|reflexivity].
  rewrite (contains_app _ _ r E) in H. discriminate.
Qed.

Lemma contains_app_r_false pat l r : pat <> [] -> contains pat (l ++ r) = false -> contains pat r = false.
Proof.
  intros Hp H. destruct (contains pat r) eqn:E; [|reflexivity]. exfalso.
  apply (contains_iff _ _ Hp) in E as (a & b & ->).
  assert (contains pat (l ++ a ++ pat ++ b) = true).
  { apply (contains_iff _ _ Hp). exists (l ++ a), b. rewrite <- app_assoc. reflexivity. }
  congruence.
Qed.

(* an occurrence in A ++ c :: B that lies neither in A nor in B would have to cover c *)
Lemma contains_app_sep pat A c B : pat <> [] ->
  ~ In c pat -> contains pat A = false -> contains pat B = false -> contains pat (A ++ c :: B) = false.
Proof.
  intros Hp Hc HA HB. destruct (contains pat (A ++ c :: B)) eqn:E; [|reflexivity]. exfalso.
  apply (contains_iff _ _ Hp) in E as (a & b & E).
  apply app_eq_app in E as [l [[E1 E2]|[E1 E2]]].
  - (* A = a ++ l,  pat ++ b = l ++ c :: B *)
    symmetry in E2. apply app_eq_app in E2 as [m [[E3 E4]|[E3 E4]]].
    + (* l = pat ++ m : the occurrence lies in A *)
      subst l. assert (contains pat A = true).
      { apply (contains_iff _ _ Hp). exists a, m. rewrite E1. reflexivity. }
      congruence.
    + (* pat = l ++ m, c :: B = m ++ b *)
      destruct m as [|x m].
      * rewrite app_nil_r in E3. subst l. cbn [app] in E4.
        assert (contains pat A = true).
        { apply (contains_iff _ _ Hp). exists a, []. rewrite app_nil_r. exact E1. }
        congruence.
      * cbn [app] in E4. injection E4 as <- _. apply Hc. rewrite E3. apply in_or_app. right. left. reflexivity.
  - (* a = A ++ l,  c :: B = l ++ pat ++ b *)
    destruct l as [|x l].
    + cbn [app] in E2. destruct pat as [|p pat]; [congruence|]. cbn [app] in E2. injection E2 as <- _.
      apply Hc. left. reflexivity.
    + cbn [app] in E2. injection E2 as _ E2.
      assert (contains pat B = true).
      { apply (contains_iff _ _ Hp). exists l, b. exact E2. }
      congruence.
Qed.

(* ---- first occurrence: the precise condition ---- *)
Definition no_early (pat X : bytes) : bool := negb (contains pat (X ++ removelast pat)).

Lemma cut_first pat X R : pat <> [] -> no_early pat X = true -> cut pat (X ++ pat ++ R) = Some (X, R).
Proof.
  intros Hp. unfold no_early. rewrite negb_true_iff, contains_false_cut.
  induction X as [|c X IH]; intros H.
  - destruct pat as [|p pat]; [congruence|]. cbn [app cut].
    change (p :: pat ++ R) with ((p :: pat) ++ R). rewrite prefixb_app.
    change (p :: pat ++ R) with ((p :: pat) ++ R). rewrite skipn_app_exact. reflexivity.
  - cbn [app cut] in H.
    destruct (prefixb pat (c :: X ++ removelast pat)) eqn:P; [discriminate|].
    destruct (cut pat (X ++ removelast pat)) as [[? ?]|] eqn:C; [discriminate|].
    cbn [app cut].
    assert (P2 : prefixb pat (c :: X ++ pat ++ R) = false).
    { rewrite (app_removelast_last x00 Hp) at 2. rewrite <- app_assoc.
      change (c :: X ++ removelast pat ++ [last pat x00] ++ R) with ((c :: X) ++ removelast pat ++ [last pat x00] ++ R).
      rewrite (app_assoc (c :: X)). rewrite prefixb_app_long; [exact P|].
      rewrite app_length. cbn [length].
      assert (length pat = S (length (removelast pat))).
      { rewrite (app_removelast_last x00 Hp) at 1. rewrite app_length. cbn. lia. }
      lia. }
    rewrite P2, (IH eq_refl). reflexivity.
Qed.

(* the condition is also necessary *)
Lemma cut_first_conv pat X R : pat <> [] -> cut pat (X ++ pat ++ R) = Some (X, R) -> no_early pat X = true.
Proof.
  intros Hp H. unfold no_early. rewrite negb_true_iff.
  destruct (contains pat (X ++ removelast pat)) eqn:E; [|reflexivity]. exfalso.
  unfold contains in E. destruct (cut pat (X ++ removelast pat)) as [[a b]|] eqn:C; [|discriminate].
  pose proof (cut_app _ _ _ _ ([last pat x00] ++ R) C) as C2.
  rewrite <- app_assoc, (app_assoc (removelast pat)), <- (app_removelast_last x00 Hp), H in C2.
  injection C2 as <- E2.
  pose proof (cut_length _ _ _ _ Hp C) as L. rewrite app_length in L.
  assert (length pat = S (length (removelast pat))).
  { rewrite (app_removelast_last x00 Hp) at 1. rewrite app_length. cbn. lia. }
  lia.
Qed.

(* ---- bytes.split(pat) ---- *)
Lemma split_all_f_fuel pat : pat <> [] -> forall f1 f2 l, (length l < f1)%nat -> (length l < f2)%nat ->
  split_all_f f1 pat l = split_all_f f2 pat l.
Proof.
  intros Hp f1; induction f1 as [|f1 IH]; intros f2 l H1 H2; [lia|].
  destruct f2 as [|f2]; [lia|]. cbn [split_all_f].
  destruct (cut pat l) as [[a b]|] eqn:C; [|reflexivity].
  pose proof (cut_rest_shorter _ _ _ _ Hp C). f_equal. apply IH; lia.
Qed.

Lemma split_all_none pat l : contains pat l = false -> split_all pat l = [l].
Proof.
  rewrite contains_false_cut. intros H. unfold split_all.
  change (split_all_f (S (length l)) pat l) with
    (match cut pat l with None => [l] | Some (a, b) => a :: split_all_f (length l) pat b end).
  rewrite H. reflexivity.
Qed.

Lemma split_all_cut pat l a b : pat <> [] -> cut pat l = Some (a, b) -> split_all pat l = a :: split_all pat b.
Proof.
  intros Hp C. unfold split_all. change (split_all_f (S (length l)) pat l) with
    (match cut pat l with None => [l] | Some (a, b) => a :: split_all_f (length l) pat b end).
  rewrite C. f_equal.
  pose proof (cut_rest_shorter _ _ _ _ Hp C). apply (split_all_f_fuel pat Hp); lia.
Qed.

Lemma split_all_first pat X R : pat <> [] -> no_early pat X = true ->
  split_all pat (X ++ pat ++ R) = X :: split_all pat R.
Proof. intros Hp H. apply (split_all_cut _ _ _ _ Hp). apply cut_first; assumption. Qed.

(* splitting  x1 pat x2 pat ... xn pat T  gives back the xs and T *)
Fixpoint sep_end (pat : bytes) (xs : list bytes) (T : bytes) : bytes :=
  match xs with
  | [] => T
  | x :: r => x ++ pat ++ sep_end pat r T
  end.

Lemma split_all_sep_end pat xs T : pat <> [] ->
  Forall (fun x => no_early pat x = true) xs -> contains pat T = false ->
  split_all pat (sep_end pat xs T) = xs ++ [T].
Proof.
  intros Hp Hx HT. induction Hx as [|x xs H Hxs IH]; cbn [sep_end app].
  - apply split_all_none, HT.
  - rewrite (split_all_first _ _ _ Hp H), IH. reflexivity.
Qed.

(* bytes.split(CRLF) of lines joined by CRLF *)
Lemma split_all_join_CRLF (ls : list bytes) : ls <> [] ->
  Forall (fun l => cut CRLF l = None) ls -> split_all CRLF (join_with CRLF ls) = ls.
Proof.
  intros Hne H. induction H as [|l ls Hl Hls IH]; [congruence|].
  destruct ls as [|l2 ls].
  - cbn [join_with]. apply split_all_none. apply contains_false_cut, Hl.
  - change (join_with CRLF (l :: l2 :: ls)) with (l ++ CRLF ++ join_with CRLF (l2 :: ls)).
    rewrite (split_all_cut CRLF _ l (join_with CRLF (l2 :: ls))); [|discriminate|apply cut_CRLF_none_app, Hl].
    rewrite IH; [reflexivity|discriminate].
Qed.

(* ---- small list facts ---- *)
Lemma suffixb_app p l : suffixb p (l ++ p) = true.
Proof. unfold suffixb. rewrite rev_app_distr. apply prefixb_app. Qed.

Lemma firstn_app_exact {A} (l r : list A) : firstn (length l) (l ++ r) = l.
Proof. induction l; cbn; [destruct r; reflexivity | f_equal; assumption]. Qed.

Lemma cut_no_byte_app (c : byte) pat a b : In c pat -> ~ In c a -> forall d, pat = c :: d ->
  cut pat b = None -> cut pat (a ++ b) = None.
Proof.
  intros _ Ha d -> Hb. induction a as [|x a IH]; [exact Hb|].
  cbn [app cut]. assert (beq c x = false).
  { apply beq_neq. intros ->. apply Ha. left. reflexivity. }
  cbn [prefixb]. rewrite H. cbn [andb]. rewrite IH; [reflexivity|].
  intros Hin. apply Ha. right. exact Hin.
Qed.
